#!/usr/bin/env python3
"""A small C-to-Gallina translator for WHOLE functions of the C engine (fail-closed).

Subset: declarations of idx_t/int/seq_t/bool scalars, assignments (=, +=, -=), stores and reads of
`seq_t *` arrays, if / else if / else, `for (x=a; x<b; x++)`, break, continue, return, calls of a few
known macros (MIN, MAX, SEDIST, fabs(a - b), pow(x, 2), sqrt) - every other call becomes a parameter
`call_<name>` of the generated definition (its argument list must be the caller's own parameter list).

Output style: the function becomes one Gallina definition in let-style; every loop body becomes its own
definition `<fn>_loop<k>` over the tuple of loop-carried variables (computed by a liveness analysis, so
a variable that is read before it is written makes the translation fail instead of getting a default),
with a `brk` flag when the loop contains `break`.  Every array access adds a conjunct to the boolean
`ok` ("all accesses so far were inside their arrays"), which the function returns next to its value.

Integer arithmetic is over Z (idx_t = ssize_t; overflow is not modelled), seq_t arithmetic over
`cost` = Z + infinity (exact on the integer-valued streams; rounding and NaN are not modelled).
"""
import re


class TranslateError(Exception):
    pass


# ----------------------------------------------------------------------------- preprocessing
def strip_comments(txt):
    txt = re.sub(r"/\*.*?\*/", " ", txt, flags=re.S)
    return re.sub(r"//[^\n]*", " ", txt)


def match_paren(txt, i, o="(", c=")"):
    d = 0
    for k in range(i, len(txt)):
        if txt[k] == o:
            d += 1
        elif txt[k] == c:
            d -= 1
            if d == 0:
                return k
    raise TranslateError("unbalanced %s" % o)


def function_text(src, name):
    """(parameter text, body text without the outer braces) of `seq_t name(...) {`"""
    ms = list(re.finditer(r"^(?:seq_t|void|idx_t|int|bool|DTWWps)\s+%s\s*\(" % re.escape(name), src, flags=re.M))
    if len(ms) != 1:
        raise TranslateError("function %s: %d definitions found" % (name, len(ms)))
    p0 = ms[0].end() - 1
    p1 = match_paren(src, p0)
    b0 = src.index("{", p1)
    if src[p1 + 1:b0].strip():
        raise TranslateError("function %s: unexpected text before the body" % name)
    b1 = match_paren(src, b0, "{", "}")
    return src[p0 + 1:p1], src[b0 + 1:b1]


def preprocess(body):
    body = re.sub(r"#ifdef\s+DTWDEBUG.*?#endif", " ", body, flags=re.S)
    if "#" in body:
        raise TranslateError("preprocessor directive left in function body")
    # assert(...) ;
    while True:
        m = re.search(r"\bassert\s*\(", body)
        if not m:
            break
        e = match_paren(body, m.end() - 1)
        rest = body[e + 1:].lstrip()
        if not rest.startswith(";"):
            raise TranslateError("assert without ;")
        body = body[:m.start()] + body[e + 1:].lstrip()[1:]
    # allocation:  seq_t * a = (seq_t *)malloc(sizeof(seq_t) * E);   if (!a) { ... return 0; }
    allocs = []

    def alloc(m):
        allocs.append(m.group(1))
        return "__alloc(%s, %s);" % (m.group(1), m.group(2))
    body = re.sub(r"seq_t\s*\*\s*(\w+)\s*=\s*\(seq_t\s*\*\)\s*malloc\s*\(\s*sizeof\s*\(\s*seq_t\s*\)\s*\*\s*([^;]+)\)\s*;", alloc, body)
    for a in allocs:
        m = re.search(r"if\s*\(\s*!\s*%s\s*\)\s*\{" % a, body)
        if not m:
            raise TranslateError("allocation of %s is not followed by a failure test" % a)
        e = match_paren(body, m.end() - 1, "{", "}")
        blk = body[m.end():e]
        if not re.fullmatch(r"\s*printf\s*\(.*?\)\s*;\s*return\s+0\s*;\s*", blk, flags=re.S):
            raise TranslateError("unexpected allocation-failure block for %s" % a)
        body = body[:m.start()] + body[e + 1:]
        n = len(re.findall(r"\bfree\s*\(\s*%s\s*\)\s*;" % a, body))
        if n != 1:
            raise TranslateError("%s is freed %d times" % (a, n))
        body = re.sub(r"\bfree\s*\(\s*%s\s*\)\s*;" % a, " ", body)
    if "malloc" in body or "free" in body or "printf" in body:
        raise TranslateError("malloc/free/printf outside the recognised patterns")
    return body


# ----------------------------------------------------------------------------- tokens
TOK = re.compile(r"\s*(->|\+\+|--|\+=|-=|==|!=|<=|>=|&&|\|\||[A-Za-z_]\w*|\d+\.\d+|\d+|[()\[\]{};,+\-*/<>=!&.])")


def tokenize(txt):
    out, pos = [], 0
    txt = txt.rstrip()
    while pos < len(txt):
        m = TOK.match(txt, pos)
        if not m:
            raise TranslateError("cannot tokenise at: %r" % txt[pos:pos + 40])
        out.append(m.group(1))
        pos = m.end()
    return out


# ----------------------------------------------------------------------------- parser
CTYPES = {"idx_t": "Z", "int": "Z", "seq_t": "cost", "bool": "bool"}
STRUCT_TYPES = {"DTWWps": "DTWWps_s"}


class Parser:
    def __init__(self, toks):
        self.t = toks
        self.p = 0
        self.nid = 0

    def peek(self, k=0):
        return self.t[self.p + k] if self.p + k < len(self.t) else None

    def eat(self, x=None):
        y = self.peek()
        if y is None or (x is not None and y != x):
            raise TranslateError("expected %r, found %r (token %d: ...%s)" % (x, y, self.p, " ".join(self.t[max(0, self.p - 6):self.p + 3])))
        self.p += 1
        return y

    # ---- expressions
    def primary(self):
        x = self.eat()
        if x == "(":
            e = self.expr()
            self.eat(")")
            return e
        if re.fullmatch(r"\d+", x):
            return ("num", x)
        if re.fullmatch(r"\d+\.\d+", x):
            raise TranslateError("floating literal %s" % x)
        if re.fullmatch(r"[A-Za-z_]\w*", x):
            if self.peek() == "->":
                self.eat()
                f = self.eat()
                return ("field", x, f)
            if self.peek() == ".":
                self.eat()
                f = self.eat()
                return ("var", x + "_" + f)       # member of a local struct: one variable per member
            if self.peek() == "(":
                self.eat()
                args = []
                if self.peek() != ")":
                    args.append(self.expr())
                    while self.peek() == ",":
                        self.eat()
                        args.append(self.expr())
                self.eat(")")
                return ("call", x, args)
            e = ("var", x)
            while self.peek() == "[":
                self.eat()
                i = self.expr()
                self.eat("]")
                e = ("idx", e[1] if e[0] == "var" else None, i)
                if e[1] is None:
                    raise TranslateError("nested subscripts")
            return e
        raise TranslateError("unexpected token %r in expression" % x)

    def unary(self):
        if self.peek() == "!":
            self.eat()
            return ("un", "!", self.unary())
        if self.peek() == "-":
            self.eat()
            return ("un", "-", self.unary())
        if self.peek() == "&":
            self.eat()
            return ("addr", self.eat())
        return self.primary()

    def binlevel(self, ops, sub):
        e = sub()
        while self.peek() in ops:
            op = self.eat()
            e = ("bin", op, e, sub())
        return e

    def mul(self):
        return self.binlevel(("*",), self.unary)

    def add(self):
        return self.binlevel(("+", "-"), self.mul)

    def rel(self):
        return self.binlevel(("<", ">", "<=", ">="), self.add)

    def eq(self):
        return self.binlevel(("==", "!="), self.rel)

    def land(self):
        return self.binlevel(("&&",), self.eq)

    def expr(self):
        return self.binlevel(("||",), self.land)

    # ---- statements
    def new(self, **kw):
        self.nid += 1
        kw["id"] = self.nid
        return kw

    def block(self):
        """{ stmts }  or a single statement"""
        if self.peek() == "{":
            self.eat()
            out = []
            while self.peek() != "}":
                out.extend(self.stmt())
            self.eat("}")
            return out
        return self.stmt()

    def stmt(self):
        x = self.peek()
        if x == ";":
            self.eat()
            return []
        if x == "{":
            return self.block()
        if x in STRUCT_TYPES:
            self.eat()
            name = self.eat()
            if self.peek() == ";":
                self.eat()
                return [self.new(k="structdecl", sty=STRUCT_TYPES[x], name=name)]
            self.eat("=")
            init = self.expr()
            self.eat(";")
            if init[0] != "call":
                raise TranslateError("struct %s initialised by something else than a call" % name)
            return [self.new(k="structinit", sty=STRUCT_TYPES[x], name=name, call=init)]
        if x in CTYPES:
            self.eat()
            out = []
            while True:
                if self.peek() == "*":
                    raise TranslateError("pointer declaration")
                name = self.eat()
                init = None
                if self.peek() == "=":
                    self.eat()
                    init = self.expr()
                out.append(self.new(k="decl", ty=CTYPES[x], name=name, init=init))
                if self.peek() == ",":
                    self.eat()
                    continue
                break
            self.eat(";")
            return out
        if x == "__alloc":
            self.eat()
            self.eat("(")
            name = self.eat()
            self.eat(",")
            size = self.expr()
            self.eat(")")
            self.eat(";")
            return [self.new(k="alloc", name=name, size=size)]
        if x == "if":
            self.eat()
            self.eat("(")
            c = self.expr()
            self.eat(")")
            a = self.block()
            b = []
            if self.peek() == "else":
                self.eat()
                b = self.block()
            return [self.new(k="if", c=c, a=a, b=b)]
        if x == "for":
            self.eat()
            self.eat("(")
            if self.peek() in CTYPES:
                if self.peek() not in ("int", "idx_t"):
                    raise TranslateError("loop variable of type %s" % self.peek())
                self.eat()
                declared = True
            else:
                declared = False
            if self.peek() == ";":
                v, lo = None, None            # for (; x<b; x++): continues from the current value of x
            else:
                v = self.eat()
                self.eat("=")
                lo = self.expr()
            self.eat(";")
            v2 = self.eat()
            if v is None:
                v, lo = v2, ("var", v2)
            rel = self.eat()
            if rel == "<":
                hi = self.add()
                self.eat(";")
                v3 = self.eat()
                self.eat("++")
                self.eat(")")
                if not (v == v2 == v3):
                    raise TranslateError("for loop over %s/%s/%s is not of the form (x=a; x<b; x++)" % (v, v2, v3))
                body = self.block()
                return [self.new(k="for", v=v, lo=lo, hi=hi, body=body, declared=declared)]
            if rel == ">":
                # for (x=a; x>b [&& cond]; x--): x runs over a, a-1, ..., b+1 and stops as soon as cond fails
                lowb = self.add()
                extra = None
                if self.peek() == "&&":
                    self.eat()
                    extra = self.land()
                self.eat(";")
                v3 = self.eat()
                self.eat("--")
                self.eat(")")
                if not (v == v2 == v3):
                    raise TranslateError("for loop over %s/%s/%s is not of the form (x=a; x>b; x--)" % (v, v2, v3))
                body = self.block()
                if extra is not None:
                    body = [self.new(k="if", c=("un", "!", extra), a=[self.new(k="break")], b=[])] + body
                return [self.new(k="for", v=v, lo=lo, hi=lowb, body=body, declared=declared, down=True)]
            raise TranslateError("for loop condition %s %s" % (v2, rel))
        if x == "break":
            self.eat()
            self.eat(";")
            return [self.new(k="break")]
        if x == "continue":
            self.eat()
            self.eat(";")
            return [self.new(k="continue")]
        if x == "return":
            self.eat()
            e = self.expr()
            self.eat(";")
            return [self.new(k="return", e=e)]
        if x in ("while", "do", "switch", "goto"):
            raise TranslateError("statement %s" % x)
        # assignment / store
        lhs = self.primary()
        if lhs[0] not in ("var", "idx"):
            raise TranslateError("assignment to %r" % (lhs,))
        op = self.eat()
        if op == "++":
            self.eat(";")
            return [self.new(k="assign", lhs=lhs, e=("bin", "+", lhs, ("num", "1")))]
        if op == "--":
            self.eat(";")
            return [self.new(k="assign", lhs=lhs, e=("bin", "-", lhs, ("num", "1")))]
        if op not in ("=", "+=", "-="):
            raise TranslateError("assignment operator %r" % op)
        e = self.expr()
        self.eat(";")
        if op != "=":
            e = ("bin", op[0], lhs, e)
        return [self.new(k="assign", lhs=lhs, e=e)]


# ----------------------------------------------------------------------------- analysis helpers
def subexprs(e):
    """(array names used, sub-expressions) of a node"""
    k = e[0]
    if k in ("num", "var", "field", "addr"):
        return [], []
    if k == "idx":
        return [e[1]], [e[2]]
    if k in ("slice", "idx2"):
        return [e[1]], [e[2], e[3]]
    if k == "bin":
        return [], [e[2], e[3]]
    if k in ("un", "isnotnone"):
        return [], [e[-1]]
    if k == "call":
        return [], list(e[2])
    raise TranslateError("expression node %r" % (e,))


def uses(e):
    if e[0] == "var":
        return set() if e[1] in ("INFINITY", "true", "false") else {e[1]}
    arrs, subs = subexprs(e)
    s = set(arrs)
    for x in subs:
        s |= uses(x)
    return s


def has_access(e):
    if e[0] in ("idx", "slice", "idx2"):
        return True
    return any(has_access(x) for x in subexprs(e)[1])


def fields(e, acc):
    if e[0] == "isnotnone" and e[1][0] == "field":
        acc.add((e[1][1], e[1][2] + "_is_some"))
        return
    if e[0] == "field":
        acc.add((e[1], e[2]))
    for x in subexprs(e)[1]:
        fields(x, acc)


def calls(e, acc):
    if e[0] == "call":
        acc.append(e)
    for x in subexprs(e)[1]:
        calls(x, acc)


def stmt_exprs(s):
    k = s["k"]
    if k == "decl":
        return [s["init"]] if s["init"] is not None else []
    if k == "alloc":
        return [s["size"]] + ([s["fill"]] if s.get("fill") is not None else [])
    if k == "assert":
        return [s["c"]]
    if k == "structinit":
        return [s["call"]]
    if k == "assign":
        return [s["lhs"], s["e"]] if s["lhs"][0] != "var" else [s["e"]]
    if k == "retstate":
        return [("var", v) for v in s["vars"]]
    if k == "if":
        return [s["c"]]
    if k == "for":
        return [s["lo"], s["hi"]]
    if k == "return":
        return [s["e"]]
    return []


def walk(stmts):
    for s in stmts:
        yield s
        if s["k"] == "if":
            for t in walk(s["a"]):
                yield t
            for t in walk(s["b"]):
                yield t
        elif s["k"] == "for":
            for t in walk(s["body"]):
                yield t


def touches_ok(stmts):
    for s in walk(stmts):
        for e in stmt_exprs(s):
            if has_access(e):
                return True
        if s["k"] == "assign" and s["lhs"][0] != "var":
            return True
        if s["k"] == "assert":
            return True
    return False


def assigned(stmts):
    out = set()
    for s in walk(stmts):
        if s["k"] == "decl" and s["init"] is not None:
            out.add(s["name"])
        elif s["k"] == "alloc":
            out.add(s["name"])
        elif s["k"] == "assign":
            out.add(s["lhs"][1])
        elif s["k"] == "for":
            out.add(s["v"])           # the loop leaves its variable at the first value that fails the test
    if touches_ok(stmts):
        out.add("ok")
    return out


def exits_here(stmts, kinds):
    """does the block contain break/continue belonging to the enclosing loop, or a return (anywhere)?"""
    for s in stmts:
        if s["k"] in kinds:
            return True
        if s["k"] == "if" and (exits_here(s["a"], kinds) or exits_here(s["b"], kinds)):
            return True
        if s["k"] == "for" and "return" in kinds and exits_here(s["body"], ("return",)):
            return True
    return False


def always_exits(stmts):
    if not stmts:
        return False
    s = stmts[-1]
    if s["k"] in ("break", "continue", "return", "retstate"):
        return True
    if s["k"] == "if":
        return always_exits(s["a"]) and always_exits(s["b"])
    return False


OUT_ARRAYS = []       # arrays the function under translation returns next to its value
LOCAL_STRUCTS = {}    # local struct variable -> member names (a function may return one)


def live_block(stmts, out, ctx, ann):
    """backward liveness; ann[id] = live-out of the statement; ctx = (live at break, live at continue)"""
    live = set(out)
    for s in reversed(stmts):
        ann[s["id"]] = set(live)
        k = s["k"]
        if k == "decl":
            live.discard(s["name"])
            if s["init"] is not None:
                live |= uses(s["init"])
                if has_access(s["init"]):
                    live.add("ok")
        elif k == "alloc":
            live.discard(s["name"])
            live.discard(s["name"] + "_len")
            live |= uses(s["size"])
            if s.get("fill") is not None:
                live |= uses(s["fill"])
        elif k == "assert":
            live |= uses(s["c"])
            live.add("ok")
        elif k == "structinit":
            live = {x for x in live if not x.startswith(s["name"] + "_")} | uses(s["call"])
        elif k == "structdecl":
            live = {x for x in live if not x.startswith(s["name"] + "_")}
        elif k == "assign":
            if s["lhs"][0] == "var":
                live.discard(s["lhs"][1])
                live |= uses(s["e"])
                if has_access(s["e"]):
                    live.add("ok")
            else:
                live |= uses(s["lhs"]) | uses(s["e"])
                live.add("ok")
        elif k == "if":
            la = live_block(s["a"], live, ctx, ann)
            lb = live_block(s["b"], live, ctx, ann)
            live = la | lb | uses(s["c"])
            if has_access(s["c"]):
                live.add("ok")
        elif k == "for":
            head = set(live)
            while True:
                inner = live_block(s["body"], head, (set(live), head), ann)
                new = head | (inner - {s["v"]})
                if new == head:
                    break
                head = new
            live_block(s["body"], head, (set(live), head), ann)
            s["head"] = set(head)
            s["body_in"] = set(inner)
            live = (head - {s["v"]}) | uses(s["lo"]) | uses(s["hi"])
        elif k == "break":
            live = set(ctx[0])
        elif k == "continue":
            live = set(ctx[1])
        elif k == "return":
            if s["e"][0] == "var" and s["e"][1] in LOCAL_STRUCTS:
                live = {s["e"][1] + "_" + f for f in LOCAL_STRUCTS[s["e"][1]]} | {"ok"}
            else:
                live = uses(s["e"]) | {"ok"} | set(OUT_ARRAYS)
        elif k == "retstate":
            live = set(s["vars"]) | {"ok"}
        else:
            raise TranslateError("liveness: %s" % k)
    return live


# ----------------------------------------------------------------------------- emission
COQTY = {"Z": "Z", "cost": "cost", "bool": "bool", "arr": "list cost", "in": "list Z"}
RESERVED = {"length": "length", "fix": "fix_", "in": "in_", "end": "end_", "let": "let_", "at": "at_", "as": "as_"}


class Emitter:
    readonly = set()
    struct_defs = {}
    int_oracles = {"dtw_wps_shift"}      # functions returning idx_t

    def __init__(self, fname, params, body_stmts, struct_fields, in_bounds):
        """params: list of (ctype-kind, name) with kind in Z / in (seq_t *) / settings"""
        self.fname = fname
        self.params = params
        self.stmts = body_stmts
        self.struct_fields = struct_fields      # field name -> type
        self.in_bounds = in_bounds              # input array -> C expression text of its element count
        self.types = {}
        self.settings_param = None
        for ty, n in params:
            if ty == "settings":
                self.settings_param = n
            else:
                self.types[n] = ty
        self.types["ok"] = "bool"
        self.struct_vars = {}     # local struct variable -> {member: type}
        self.out_arrays = [n for ty, n in params if ty == "arr" and n not in Emitter.readonly]
        self.defs = []        # (name, [(param, type)], ret type, text)
        self.nloop = 0
        self.njoin = 0
        self.used_fields = set()
        self.used_calls = {}
        self.alloc_len = {}
        for s in walk(body_stmts):
            if s["k"] == "decl":
                if s["name"] in self.types and self.types[s["name"]] != s["ty"]:
                    raise TranslateError("%s declared twice with different types" % s["name"])
                self.types[s["name"]] = s["ty"]
            elif s["k"] == "alloc":
                self.types[s["name"]] = "arr"
                self.types[s["name"] + "_len"] = "Z"
            elif s["k"] in ("structinit", "structdecl"):
                members = self.struct_defs[s["sty"]]
                self.struct_vars[s["name"]] = members
                for f, ty in members.items():
                    self.types[s["name"] + "_" + f] = ty
            elif s["k"] == "for" and s["declared"]:
                self.types[s["v"]] = "Z"
            for e in stmt_exprs(s):
                acc = set()
                fields(e, acc)
                for p, f in acc:
                    if p != self.settings_param:
                        raise TranslateError("field access through %s" % p)
                    if f not in struct_fields:
                        raise TranslateError("unknown settings field %s" % f)
                    self.used_fields.add(f)
        self.ann = {}
        global OUT_ARRAYS, LOCAL_STRUCTS
        OUT_ARRAYS = list(self.out_arrays)
        LOCAL_STRUCTS = {n: list(m) for n, m in self.struct_vars.items()}
        live_in = live_block(body_stmts, set(), (set(), set()), self.ann)
        pnames = {n for ty, n in params} | {"ok"}
        undefined = live_in - pnames
        if undefined:
            raise TranslateError("%s: read before assignment: %s" % (fname, sorted(undefined)))

    # ---- names
    def nm(self, v):
        return v

    def fld(self, f):
        return "settings_" + f

    # ---- expressions: returns (coq text, type, [(array, index text)])
    def ex(self, e, want=None):
        txt, ty, obl = self.ex0(e, want)
        if want is not None and ty != want:
            if ty == "Z" and want == "cost":
                return "(Fin %s)" % txt, "cost", obl
            if ty == "bool" and want == "Z":
                return "(if %s then 1 else 0)" % txt, "Z", obl
            if want == "bool" and ty == "Z":
                return "(negb (%s =? 0))" % txt, "bool", obl
            if want == "bool" and ty == "cost":
                return "(negb (ceqb %s (Fin 0)))" % txt, "bool", obl
            raise TranslateError("%s: expression %r has type %s, %s wanted" % (self.fname, e, ty, want))
        return txt, ty, obl

    def ex0(self, e, want):
        k = e[0]
        if k == "num":
            return e[1], "Z", []
        if k == "var":
            if e[1] == "INFINITY":
                return "Inf", "cost", []
            if e[1] in ("true", "false"):
                return e[1], "bool", []
            if e[1] not in self.types:
                raise TranslateError("%s: unknown variable %s" % (self.fname, e[1]))
            ty = self.types[e[1]]
            if ty in ("arr", "in"):
                raise TranslateError("%s: array %s used as a value" % (self.fname, e[1]))
            return self.nm(e[1]), ty, []
        if k == "field":
            return self.fld(e[2]), self.struct_fields[e[2]], []
        if k == "idx":
            it, _, obl = self.ex(e[2], "Z")
            a = e[1]
            ty = self.types.get(a)
            if ty == "arr":
                return "(aget %s %s)" % (a, it), "cost", obl + [(a + "_len", it)]
            if ty == "in":
                bt, _, _ = self.ex(self.in_bounds[a], "Z")
                return "(sget %s %s)" % (a, it), "cost", obl + [(bt, it)]
            raise TranslateError("%s: subscript of %s" % (self.fname, a))
        if k == "un":
            if e[1] == "!":
                t, _, obl = self.ex(e[2], "bool")
                return "(negb %s)" % t, "bool", obl
            t, _, obl = self.ex(e[2], "Z")
            return "(- %s)" % t, "Z", obl
        if k == "bin":
            op = e[1]
            if op in ("&&", "||"):
                a, _, oa = self.ex(e[2], "bool")
                b, _, ob = self.ex(e[3], "bool")
                # the right operand is only evaluated when the left one does not decide: its accesses are guarded
                g = a if op == "&&" else "(negb %s)" % a
                ob = [(o[0], o[1], g if len(o) == 2 else "(%s && %s)" % (g, o[2])) for o in ob]
                return "(%s %s %s)" % (a, "&&" if op == "&&" else "||", b), "bool", oa + ob
            a, ta, oa = self.ex0(e[2], None)
            b, tb, ob = self.ex0(e[3], None)
            if "bool" in (ta, tb) and op in ("+", "-", "*"):
                if ta == "bool":
                    a, ta = "(if %s then 1 else 0)" % a, "Z"
                if tb == "bool":
                    b, tb = "(if %s then 1 else 0)" % b, "Z"
            if op in ("+", "-", "*"):
                if ta == "Z" and tb == "Z":
                    return "(%s %s %s)" % (a, op, b), "Z", oa + ob
                if op == "+":
                    if ta == "Z":
                        a = "(Fin %s)" % a
                    if tb == "Z":
                        b = "(Fin %s)" % b
                    return "(cadd %s %s)" % (a, b), "cost", oa + ob
                raise TranslateError("%s: operator %s on seq_t values" % (self.fname, op))
            if ta == "bool" or tb == "bool":
                raise TranslateError("%s: comparison of booleans" % self.fname)
            if ta == "Z" and tb == "Z":
                t = {"<": "(%s <? %s)", ">": "(%s >? %s)", "<=": "(%s <=? %s)", ">=": "(%s >=? %s)",
                     "==": "(%s =? %s)", "!=": "(negb (%s =? %s))"}[op] % (a, b)
                return t, "bool", oa + ob
            if ta == "Z":
                a = "(Fin %s)" % a
            if tb == "Z":
                b = "(Fin %s)" % b
            t = {"<": "(cltb %s %s)" % (a, b), ">": "(cltb %s %s)" % (b, a), "<=": "(cleb %s %s)" % (a, b),
                 ">=": "(cleb %s %s)" % (b, a), "==": "(ceqb %s %s)" % (a, b), "!=": "(negb (ceqb %s %s))" % (a, b)}[op]
            return t, "bool", oa + ob
        if k == "call":
            f, args = e[1], e[2]
            if f in ("MIN3", "MAX3"):
                if len(args) != 3:
                    raise TranslateError("%s arity" % f)
                return self.ex0(("call", f[:3], [("call", f[:3], args[:2]), args[2]]), want)
            if f in ("MIN", "MAX"):
                if len(args) < 2:
                    raise TranslateError("%s arity" % f)
                if len(args) > 2:
                    return self.ex0(("call", f, [("call", f, args[:-1]), args[-1]]), want)
                a, ta, oa = self.ex0(args[0], None)
                b, tb, ob = self.ex0(args[1], None)
                if ta == "Z" and tb == "Z":
                    return "(Z.%s %s %s)" % (f.lower(), a, b), "Z", oa + ob
                if f == "MIN" and self.cost_min_ok:
                    if ta == "Z":
                        a = "(Fin %s)" % a
                    if tb == "Z":
                        b = "(Fin %s)" % b
                    return "(cmin %s %s)" % (a, b), "cost", oa + ob
                raise TranslateError("%s on seq_t values" % f)
            if f == "abs":
                a, _, oa = self.ex(args[0], "Z")
                return "(Z.abs %s)" % a, "Z", oa
            extra = self.ex_extra(e, want)
            if extra is not None:
                return extra
            if f == "SEDIST":
                a, _, oa = self.ex(args[0], "cost")
                b, _, ob = self.ex(args[1], "cost")
                return "(csedist %s %s)" % (a, b), "cost", oa + ob
            if f == "fabs":
                if len(args) != 1 or args[0][0] != "bin" or args[0][1] != "-":
                    raise TranslateError("fabs of something else than a difference")
                a, _, oa = self.ex(args[0][2], "cost")
                b, _, ob = self.ex(args[0][3], "cost")
                return "(cabsdiff %s %s)" % (a, b), "cost", oa + ob
            if f == "pow":
                if len(args) != 2 or args[1] != ("num", "2"):
                    raise TranslateError("pow with an exponent other than 2")
                a, _, oa = self.ex(args[0], "cost")
                return "(csq %s)" % a, "cost", oa
            if f == "sqrt":
                a, _, oa = self.ex(args[0], "cost")
                return "(csqrt %s)" % a, "cost", oa
            if args and args[0][0] == "addr":
                # f(&p, e1, ..): an oracle FUNCTION of the integer arguments (the struct is the one f was built from)
                if args[0][1] not in self.struct_vars:
                    raise TranslateError("%s: address of %s" % (self.fname, args[0][1]))
                ts, obl = [], []
                for a in args[1:]:
                    at, _, oa = self.ex(a, "Z")
                    ts.append(at)
                    obl += oa
                rty = "Z" if f in self.int_oracles else "cost"
                self.used_calls[f] = ("fn", len(ts), rty)
                return "(call_%s %s)" % (f, " ".join(ts)), rty, obl
            # any other function: an oracle parameter; the arguments must be the caller's own parameters
            key = tuple(repr(a) for a in args)
            if f in self.used_calls and self.used_calls[f] != key:
                raise TranslateError("%s called with two different argument lists" % f)
            own = [("var", n) for ty, n in self.params if not n.endswith("_len")]
            for a in args:
                if a not in own:
                    raise TranslateError("%s: call of %s with an argument that is not a parameter of the caller: %r" % (self.fname, f, a))
            if [a for a in own if a in args] != list(args):
                raise TranslateError("%s: call of %s permutes the parameters" % (self.fname, f))
            self.used_calls[f] = key
            return "call_" + f, "cost", []
        extra = self.ex_extra(e, want)
        if extra is not None:
            return extra
        raise TranslateError("expression %r" % (e,))

    cost_min_ok = True
    ret_type = "cret * bool"

    def ex_extra(self, e, want):
        return None

    def store_extra(self, lhs, e):
        raise TranslateError("%s: store into %r" % (self.fname, lhs))

    def len_vars_extra(self, e, acc):
        pass

    def okline(self, obl):
        out = ""
        for o in obl:
            if len(o) == 2:
                out += "let ok := ok && inb %s %s in\n" % o
            else:
                out += "let ok := ok && (negb %s || inb %s %s) in\n" % (o[2], o[0], o[1])
        return out

    # ---- statements (continuation passing).  `defined` = set of variables that hold a value.
    def tuple_of(self, vs):
        return vs[0] if len(vs) == 1 else "(" + ", ".join(vs) + ")"

    def pat_of(self, vs):
        return vs[0] if len(vs) == 1 else "'(" + ", ".join(vs) + ")"

    def block(self, stmts, defined, k, ctx):
        """k(defined) -> text of what follows the block; ctx = dict(brk=fn, cont=fn) inside a loop body"""
        if not stmts:
            return k(defined)
        s, rest = stmts[0], stmts[1:]
        kind = s["k"]
        after = self.ann[s["id"]]

        def go(d):
            return self.block(rest, d, k, ctx)
        if kind == "decl":
            if s["init"] is None:
                return go(defined - {s["name"]})
            t, _, obl = self.ex(s["init"], s["ty"])
            return self.okline(obl) + "let %s := %s in\n" % (s["name"], t) + go(defined | {s["name"]})
        if kind == "alloc":
            t, _, obl = self.ex(s["size"], "Z")
            n = s["name"]
            if s.get("fill") is not None:
                ft, _, _ = self.ex(s["fill"], "cost")
                return ("let %s_len := %s in\nlet %s := amake (fun _ => %s) %s_len in\n" % (n, t, n, ft, n)) + go(defined | {n, n + "_len"})
            return ("let %s_len := %s in\nlet %s := amake junk_%s %s_len in\n" % (n, t, n, n, n)) + go(defined | {n, n + "_len"})
        if kind == "structdecl":
            return go(defined - {s["name"] + "_" + f for f in self.struct_vars[s["name"]]})
        if kind == "structinit":
            # the members are the values the called function returned: parameters of the generated definition
            c = s["call"]
            own = [("var", n) for ty, n in self.params if not n.endswith("_len")]
            if [a for a in own if a in c[2]] != list(c[2]):
                raise TranslateError("%s: %s called with something else than the caller's parameters" % (self.fname, c[1]))
            self.struct_calls = getattr(self, "struct_calls", {})
            self.struct_calls[s["name"]] = c[1]
            return go(defined | {s["name"] + "_" + f for f in self.struct_vars[s["name"]]})
        if kind == "assert":
            self.check_defined(uses(s["c"]), defined, s)
            ct, _, obl = self.ex(s["c"], "bool")
            return self.okline(obl) + "let ok := ok && %s in\n" % ct + go(defined)
        if kind == "assign":
            if s["lhs"][0] == "var":
                v = s["lhs"][1]
                if v not in self.types or self.types[v] in ("arr", "in"):
                    raise TranslateError("%s: assignment to %s" % (self.fname, v))
                self.check_defined(uses(s["e"]), defined, s)
                t, _, obl = self.ex(s["e"], self.types[v])
                return self.okline(obl) + "let %s := %s in\n" % (v, t) + go(defined | {v})
            a = s["lhs"][1]
            if s["lhs"][0] != "idx":
                self.check_defined(uses(s["lhs"]) | uses(s["e"]), defined, s)
                return self.store_extra(s["lhs"], s["e"]) + go(defined)
            if self.types.get(a) != "arr":
                raise TranslateError("%s: store into %s" % (self.fname, a))
            self.check_defined(uses(s["lhs"]) | uses(s["e"]), defined, s)
            it, _, o1 = self.ex(s["lhs"][2], "Z")
            vt, _, o2 = self.ex(s["e"], "cost")
            return (self.okline(o1 + o2 + [(a + "_len", it)]) + "let %s := aset %s %s %s in\n" % (a, a, it, vt)) + go(defined)
        if kind == "if":
            self.check_defined(uses(s["c"]), defined, s)
            ct, _, obl = self.ex(s["c"], "bool")
            pre = self.okline(obl)
            ea = exits_here(s["a"], ("break", "continue", "return"))
            eb = exits_here(s["b"], ("break", "continue", "return"))
            if not ea and not eb:
                vs = sorted((assigned(s["a"]) | assigned(s["b"])) & after)
                if not vs:
                    return pre + go(defined)       # branches without effect on what follows

                def kb(d):
                    missing = [v for v in vs if v not in d]
                    if missing:
                        raise TranslateError("%s: %s may be unassigned after an if" % (self.fname, missing))
                    return self.tuple_of(vs)
                ta = self.block(s["a"], set(defined), kb, ctx)
                tb = self.block(s["b"], set(defined), kb, ctx)
                if len(vs) == 1:
                    m1 = re.fullmatch(r"let %s := (.*) in\n%s" % (vs[0], vs[0]), ta)
                    if m1 and "\n" not in m1.group(1):
                        ta = m1.group(1)
                    m2 = re.fullmatch(r"let %s := (.*) in\n%s" % (vs[0], vs[0]), tb)
                    if m2 and "\n" not in m2.group(1):
                        tb = m2.group(1)
                    if "\n" not in ta and "\n" not in tb:
                        return pre + "let %s := (if %s then %s else %s) in\n" % (vs[0], ct, ta, tb) + go(defined | set(vs))
                return pre + "let %s := (if %s then (\n%s) else (\n%s)) in\n" % (self.pat_of(vs), ct, ta, tb) + go(defined | set(vs))
            aa, ab = always_exits(s["a"]), always_exits(s["b"])
            if aa or ab:
                # the branch that always leaves needs no continuation; the other one continues in place
                def dead(d):
                    raise TranslateError("internal: continuation of an exiting branch used")
                if aa and ab:
                    ta = self.block(s["a"], set(defined), dead, ctx)
                    tb = self.block(s["b"], set(defined), dead, ctx)
                    if rest:
                        raise TranslateError("%s: unreachable code" % self.fname)
                elif aa:
                    ta = self.block(s["a"], set(defined), dead, ctx)
                    tb = self.block(s["b"] + rest, set(defined), k, ctx)
                else:
                    ta = self.block(s["a"] + rest, set(defined), k, ctx)
                    tb = self.block(s["b"], set(defined), dead, ctx)
                return pre + "if %s then (\n%s) else (\n%s)" % (ct, ta, tb)
            # a branch may or may not leave: join point function
            vs = sorted((assigned(s["a"]) | assigned(s["b"])) & after)
            self.njoin += 1
            kn = "k%d" % self.njoin
            body = go(defined | set(vs))

            def kj(d):
                missing = [v for v in vs if v not in d]
                if missing:
                    raise TranslateError("%s: %s may be unassigned after an if" % (self.fname, missing))
                return "%s %s" % (kn, " ".join(vs) if vs else "tt")
            ta = self.block(s["a"], set(defined), kj, ctx)
            tb = self.block(s["b"], set(defined), kj, ctx)
            ps = " ".join("(%s : %s)" % (v, COQTY[self.types[v]]) for v in vs) if vs else "(_ : unit)"
            return pre + "let %s := fun %s => (\n%s) in\nif %s then (\n%s) else (\n%s)" % (kn, ps, body, ct, ta, tb)
        if kind == "for":
            return self.loop(s, defined, go)
        if kind == "break":
            if ctx is None or ctx.get("brk") is None:
                raise TranslateError("break outside a loop")
            return ctx["brk"](defined)
        if kind == "continue":
            if ctx is None:
                raise TranslateError("continue outside a loop")
            return ctx["cont"](defined)
        if kind == "retstate":
            if ctx is not None:
                raise TranslateError("%s: cut inside a loop" % self.fname)
            self.check_defined(set(s["vars"]), defined, s)
            return "(Some %s, ok)" % self.tuple_of(list(s["vars"]))
        if kind == "return":
            if ctx is not None:
                raise TranslateError("%s: return inside a loop" % self.fname)
            e = s["e"]
            if e[0] == "var" and e[1] in self.struct_vars:
                # return of a local struct: the tuple of its members, in the order of the struct definition
                ms = [e[1] + "_" + f for f in self.struct_vars[e[1]]]
                self.check_defined(set(ms), defined, s)
                self.ret_type = "(%s) * bool" % " * ".join(COQTY[self.struct_vars[e[1]][f]] for f in self.struct_vars[e[1]])
                return "((%s), ok)" % ", ".join(ms)
            self.check_defined(uses(s["e"]), defined, s)
            outs = "".join("%s, " % a for a in self.out_arrays)
            if e[0] == "call" and e[1] == "sqrt":
                t, _, obl = self.ex(e[2][0], "cost")
                return self.okline(obl) + "(RSqrt %s, %sok)" % (t, outs)
            t, _, obl = self.ex(e, "cost")
            return self.okline(obl) + "(RPlain %s, %sok)" % (t, outs)
        raise TranslateError("statement kind %s" % kind)

    def check_defined(self, used, defined, s):
        bad = [v for v in used if v not in defined and v not in ("INFINITY", "true", "false")]
        if bad:
            raise TranslateError("%s: %s read before assignment (statement %d)" % (self.fname, sorted(bad), s["id"]))

    def loop(self, s, defined, go):
        v = s["v"]
        body = s["body"]
        if v in assigned([x for x in walk(body) if x["k"] != "for" or x["v"] != v]) and any(
                (x["k"] == "assign" and x["lhs"] == ("var", v)) or (x["k"] == "decl" and x["name"] == v) or
                (x["k"] == "for" and x["v"] == v) for x in walk(body)):
            raise TranslateError("%s: loop variable %s assigned in the loop" % (self.fname, v))
        if assigned(body) & uses(s["hi"]):
            raise TranslateError("%s: the bound of the loop over %s is modified inside the loop" % (self.fname, v))
        self.check_defined(uses(s["lo"]) | uses(s["hi"]), defined, s)
        lo, _, o1 = self.ex(s["lo"], "Z")
        hi, _, o2 = self.ex(s["hi"], "Z")
        if o1 or o2:
            raise TranslateError("%s: array access in a loop bound" % self.fname)
        after = self.ann[s["id"]]
        carried = sorted(assigned(body) & (s["head"] | after))
        missing = [c for c in carried if c not in defined]
        if missing:
            raise TranslateError("%s: loop over %s carries %s which has no value before the loop" % (self.fname, v, missing))
        has_brk = exits_here(body, ("break",))
        import copy
        exposed = live_block(copy.deepcopy(body), set(), (set(), set()), {})    # read before written inside the body
        env = sorted((exposed - set(carried) - {v, "ok"}))
        bad = [x for x in env if x not in defined]
        if bad:
            raise TranslateError("%s: loop over %s reads %s before assignment" % (self.fname, v, bad))
        self.nloop += 1
        name = "c_%s_loop%d" % (self.fname, self.nloop)
        self.types.setdefault(v, "Z")
        st_vars = carried + (["brk"] if has_brk else [])
        st_ty = " * ".join([COQTY[self.types[c]] for c in carried] + (["bool"] if has_brk else []))

        def pack(flag):
            def f(d):
                missing2 = [c for c in carried if c not in d]
                if missing2:
                    raise TranslateError("%s: %s unassigned at the end of an iteration" % (self.fname, missing2))
                return self.tuple_of(carried + ([flag] if has_brk else []))
            return f
        ctx = {"brk": pack("true") if has_brk else None, "cont": pack("false")}
        # calls / fields used inside are visible as parameters too
        ncalls_before = dict(self.used_calls)
        inner = self.block(body, (set(defined) | {v}), pack("false"), ctx)
        fv_fields = set()
        fv_calls = set()
        for t in walk(body):
            for e in stmt_exprs(t):
                acc = set()
                fields(e, acc)
                fv_fields |= {f for _, f in acc}
                cl = []
                calls(e, cl)
                fv_calls |= {c[1] for c in cl if c[1] not in ("MIN", "MAX", "MIN3", "MAX3", "abs", "SEDIST", "fabs", "pow", "sqrt")}
        # arrays read in the body need their length; input arrays their bound variables
        extra = set()
        for t in walk(body):
            for e in stmt_exprs(t):
                self.collect_len_vars(e, extra)
            if t["k"] == "assign" and t["lhs"][0] == "idx":
                extra.add(t["lhs"][1] + "_len")
            if t["k"] == "assign" and t["lhs"][0] not in ("idx", "var"):
                self.len_vars_extra(t["lhs"], extra)
        for x in extra:
            if x not in carried and x != v and x not in env:
                env.append(x)
        env = sorted(set(env))
        params = [("call_" + c, self.call_type(c)) for c in sorted(fv_calls)] + [(self.fld(f), COQTY[self.struct_fields[f]]) for f in sorted(fv_fields)] + \
                 [(x, COQTY[self.types[x]]) for x in env]
        text = ("let %s := st in\n" % self.pat_of(st_vars)) if len(st_vars) > 1 else ("let %s := st in\n" % st_vars[0])
        if has_brk:
            text += "if brk then st else\n"
        text += inner
        self.defs.append((name, params + [("st", st_ty), (v, "Z")], st_ty, text))
        call = "%s %s" % (name, " ".join(p for p, _ in params))
        init = self.tuple_of(carried + (["false"] if has_brk else []))
        outpat = self.pat_of(carried + (["_"] if has_brk else []))
        rng = "(zdown %s %s)" % (lo, hi) if s.get("down") else "(zrange %s %s)" % (lo, hi)
        post = ""
        d2 = (defined | set(carried)) - {v}
        if v in after:
            # the loop variable is read after the loop: its value there is the first one that fails the test
            if has_brk:
                raise TranslateError("%s: loop variable %s is read after a loop that contains break" % (self.fname, v))
            post = "let %s := %s in\n" % (v, ("(Z.min %s %s)" if s.get("down") else "(Z.max %s %s)") % (lo, hi))
            d2 = d2 | {v}
        return "let %s := fold_left (%s) %s %s in\n" % (outpat, call.strip(), rng, init) + post + go(d2)

    def call_type(self, c):
        k = self.used_calls.get(c)
        if isinstance(k, tuple) and k and k[0] == "fn":
            return " -> ".join(["Z"] * k[1] + [COQTY[k[2]]])
        return "cost"

    def collect_len_vars(self, e, acc):
        if e[0] in ("idx", "slice"):
            ty = self.types.get(e[1])
            if ty == "arr":
                acc.add(e[1] + "_len")
            elif ty == "in":
                acc |= uses(self.in_bounds[e[1]])
        else:
            self.len_vars_extra(e, acc)
        for x in subexprs(e)[1]:
            self.collect_len_vars(x, acc)

    def function(self):
        defined = {n for ty, n in self.params} | {"ok"}

        def end(d):
            raise TranslateError("%s: control reaches the end of the function" % self.fname)
        body = self.block(self.stmts, defined, end, None)
        allocs = sorted(s["name"] for s in walk(self.stmts) if s["k"] == "alloc" and s.get("fill") is None)
        used_vars = set()
        for s0 in walk(self.stmts):
            for e0 in stmt_exprs(s0):
                used_vars |= uses(e0)
        declared_only = {s0["name"] for s0 in walk(self.stmts) if s0["k"] == "structdecl"}
        members = [(sv + "_" + f, COQTY[ty]) for sv in sorted(self.struct_vars) if sv not in declared_only
                   for f, ty in self.struct_vars[sv].items() if sv + "_" + f in used_vars]
        params = [("call_" + c, self.call_type(c)) for c in sorted(self.used_calls)] + \
                 [("junk_" + a, "Z -> cost") for a in allocs] + \
                 [(n, COQTY[ty]) for ty, n in self.params if ty != "settings"] + members + \
                 [(self.fld(f), COQTY[self.struct_fields[f]]) for f in sorted(self.used_fields)]
        if self.out_arrays and self.ret_type == "cret * bool":
            self.ret_type = "cret * %sbool" % "".join("list cost * " for _ in self.out_arrays)
        self.defs.append(("c_" + self.fname, params, self.ret_type, "let ok := true in\n" + body))
        return self.defs


def parse_params(ptxt):
    out = []
    for p in [x.strip() for x in ptxt.split(",")]:
        m = re.fullmatch(r"seq_t\s*\*\s*(\w+)", p)
        if m:
            out.append(("in", m.group(1)))
            continue
        m = re.fullmatch(r"(idx_t|int)\s+(\w+)", p)
        if m:
            out.append(("Z", m.group(2)))
            continue
        m = re.fullmatch(r"bool\s+(\w+)", p)
        if m:
            out.append(("bool", m.group(1)))
            continue
        m = re.fullmatch(r"DTWSettings\s*\*\s*(\w+)", p)
        if m:
            out.append(("settings", m.group(1)))
            continue
        raise TranslateError("parameter %r" % p)
    return out


def parse_struct(hdr, name):
    m = re.search(r"struct\s+%s\s*\{(.*?)\}" % name, strip_comments(hdr), flags=re.S)
    if not m:
        raise TranslateError("struct %s not found" % name)
    out = {}
    for line in m.group(1).split(";"):
        line = line.strip()
        if not line:
            continue
        mm = re.fullmatch(r"(idx_t|seq_t|bool|int)\s+(\w+)", line)
        if not mm:
            raise TranslateError("struct %s: field %r" % (name, line))
        out[mm.group(2)] = CTYPES[mm.group(1)]
    return out


def translate_function(src, hdr, fname, in_bounds, out_arrays=(), extra_params=(), cost_arrays=()):
    """-> list of (definition name, [(param, coq type)], return type, body text);
    out_arrays: {seq_t* parameter that is written: name of an extra parameter holding its number of cells};
    extra_params: names of further idx_t parameters the bounds of the input arrays mention;
    cost_arrays: seq_t* parameters that are only read but hold costs (infinity allowed), not series values"""
    ptxt, body = function_text(strip_comments(src), fname)
    if re.search(r"^void\s+%s\s*\(" % re.escape(fname), strip_comments(src), flags=re.M):
        # a void function: falling off the end returns 0 (a `return;` inside is not accepted by the parser)
        body = body + "\nreturn 0;\n"
    params = parse_params(ptxt)
    out_arrays = dict(out_arrays)
    params = [(("arr", n) if (ty == "in" and (n in out_arrays or n in cost_arrays)) else (ty, n)) for ty, n in params]
    for a, ln in out_arrays.items():
        params.append(("Z", ln))
    for ln in extra_params:
        params.append(("Z", ln))
    Emitter.struct_defs = {v: parse_struct(hdr, v) for v in STRUCT_TYPES.values()}
    Emitter.readonly = set(cost_arrays)
    body = preprocess(body)
    P = Parser(tokenize(body))
    stmts = []
    while P.peek() is not None:
        stmts.extend(P.stmt())
    sf = parse_struct(hdr, "DTWSettings_s")
    bounds = {}
    for a, txt in in_bounds.items():
        bounds[a] = Parser(tokenize(txt)).expr()
    em = Emitter(fname, params, stmts, sf, bounds)
    return em.function()


def render(defs):
    out = []
    for name, params, ret, text in defs:
        ps = " ".join("(%s : %s)" % (p, t) for p, t in params)
        out.append("Definition %s %s : %s :=\n%s." % (name, ps, ret, text.rstrip("\n")))
    return "\n\n".join(out) + "\n"


if __name__ == "__main__":
    import sys
    repo = sys.argv[1] if len(sys.argv) > 1 else "/repo"
    d = repo + "/src/DTAIDistanceC/DTAIDistanceC/"
    src = open(d + "dd_dtw.c").read()
    hdr = open(d + "dd_dtw.h").read()
    for fn, nd in (("dtw_distance", False), ("dtw_distance_ndim", True), ("dtw_distance_euclidean", False), ("dtw_distance_ndim_euclidean", True)):
        b = {"s1": "l1 * ndim", "s2": "l2 * ndim"} if nd else {"s1": "l1", "s2": "l2"}
        print(render(translate_function(src, hdr, fn, b)))
