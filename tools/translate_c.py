#!/venv/bin/python
"""Fail-closed extraction of facts from the C sources into Coq (coq/gen/Gen_omp.v).

For every `#pragma omp parallel for` in dd_dtw_openmp.c: the private(...) list, the schedule clause,
and the set of variables that the loop body (or the loop header) assigns and that are declared
outside the loop body (function-level locals).  DVProps/C07 proves, by computation over this table,
that every such variable is private -- the data-race-freedom side condition of the schedule
independence theorem.  Anything the lexical analysis does not recognise is an error (exit 2)."""
import os
import re
import sys

REPO = os.environ.get("VERIF_REPO", "/repo")
SRC = "src/DTAIDistanceC/DTAIDistanceC/dd_dtw_openmp.c"
TYPES = r"(?:idx_t|seq_t|double|int|bool|size_t)"


class TranslateError(Exception):
    pass


def strip_comments(txt):
    txt = re.sub(r"/\*.*?\*/", lambda m: " " * 0 + re.sub(r"[^\n]", " ", m.group(0)), txt, flags=re.S)
    txt = re.sub(r"//[^\n]*", "", txt)
    return txt


def canon_c(txt):
    """spacing-insensitive form: blanks and tabs are dropped except between two identifier characters; newlines stay"""
    out = []
    for tok in re.findall(r"[A-Za-z_0-9\.]+|[ \t]+|\n|.", txt, flags=re.S):
        if tok[0] in " \t":
            continue
        if out and out[-1] and (out[-1][-1].isalnum() or out[-1][-1] == "_") and (tok[0].isalnum() or tok[0] == "_"):
            out.append(" ")
        out.append(tok)
    return "".join(out)


def match_brace(txt, i):
    assert txt[i] == "{"
    depth = 0
    for k in range(i, len(txt)):
        if txt[k] == "{":
            depth += 1
        elif txt[k] == "}":
            depth -= 1
            if depth == 0:
                return k
    raise TranslateError("unbalanced braces")


def functions(txt):
    out = []
    for m in re.finditer(r"^(?:idx_t|int|bool|void|seq_t)\s+(\w+)\s*\(([^)]*)\)\s*\{", txt, flags=re.M | re.S):
        start = m.end() - 1
        end = match_brace(txt, start)
        out.append((m.group(1), m.group(2), txt[start:end + 1]))
    return out


def analyse():
    path = os.path.join(REPO, SRC)
    txt = strip_comments(open(path).read())
    loops = []
    for name, params, body in functions(txt):
        for pm in re.finditer(r"#pragma\s+omp\s+parallel\s+for([^\n]*)\n", body):
            clauses = pm.group(1)
            priv = re.search(r"private\(([^)]*)\)", clauses)
            private = [v.strip() for v in priv.group(1).split(",")] if priv else []
            sched = re.search(r"schedule\(([^)]*)\)", clauses)
            rest = body[pm.end():]
            fm = re.match(r"\s*for\s*\(([^;]*);([^;]*);([^)]*)\)\s*\{", rest)
            if not fm:
                raise TranslateError("%s: pragma not followed by a for loop" % name)
            lb = fm.end() - 1
            le = match_brace(rest, lb)
            loop_body = rest[lb:le + 1]
            header = fm.group(1) + ";" + fm.group(3)
            # function-level locals declared before the pragma
            pre = body[:pm.start()]
            locals_ = set()
            for dm in re.finditer(r"^\s*" + TYPES + r"\s+([^;(]+);", pre, flags=re.M):
                for v in dm.group(1).split(","):
                    v = v.strip().lstrip("*").split("=")[0].strip()
                    if re.fullmatch(r"\w+", v):
                        locals_.add(v)
            inner = set()
            for dm in re.finditer(r"\b" + TYPES + r"\s+(\w+)\s*(?:=|;)", loop_body):
                inner.add(dm.group(1))
            assigned = set()
            for am in re.finditer(r"(?<![\w\]\.>])(\w+)\s*(\+\+|--|\+=|-=|\*=|=)(?!=)", loop_body + ";" + header):
                v = am.group(1)
                if v in inner or not re.fullmatch(r"[A-Za-z_]\w*", v):
                    continue
                assigned.add(v)
            outer = sorted(v for v in assigned if v in locals_)
            unknown = sorted(v for v in assigned if v not in locals_ and v not in inner)
            if unknown:
                raise TranslateError("%s: assigned identifiers of unknown origin: %s" % (name, unknown))
            # writes through shared pointers must be indexed stores into output only
            stores = set(re.findall(r"(?<![\w\.>])(\w+)\s*\[[^\]]*\]\s*=(?!=)", loop_body))
            loops.append({"function": name, "private": private, "schedule": sched.group(1) if sched else "",
                          "assigned_outer": outer, "indexed_stores": sorted(stores)})
    if not loops:
        raise TranslateError("no omp parallel for found")
    return loops


# ---------------------------------------------------------------- C integer expressions -> Coq Z
def c_tokens(txt):
    toks = re.findall(r"\s*(->|!=|==|[A-Za-z_]\w*|\d+|[()+\-*,<>])", txt)
    if "".join(toks) != re.sub(r"\s+", "", txt):
        raise TranslateError("cannot tokenise C expression: %r" % txt)
    return toks


def c_expr(txt):
    """+,-,*, parentheses, MIN/MAX(a,b), identifiers, settings->field  ->  (coq text, sorted free variables)"""
    toks = c_tokens(txt)
    pos = [0]
    free = set()

    def peek():
        return toks[pos[0]] if pos[0] < len(toks) else None

    def eat(t=None):
        x = peek()
        if x is None or (t is not None and x != t):
            raise TranslateError("C expression %r: expected %r, found %r" % (txt, t, x))
        pos[0] += 1
        return x

    def atom():
        x = eat()
        if x == "(":
            e = cmp()
            eat(")")
            return "(%s)" % e
        if x == "-":
            return "(- %s)" % atom()
        if re.fullmatch(r"\d+", x):
            return x
        if x in ("MIN", "MAX"):
            eat("(")
            a = expr()
            eat(",")
            b = expr()
            eat(")")
            return "(Z.%s %s %s)" % (x.lower(), a, b)
        if re.fullmatch(r"[A-Za-z_]\w*", x):
            if peek() == "->":
                eat("->")
                x = eat()
            if peek() == "(":
                raise TranslateError("call to %s in C expression %r" % (x, txt))
            free.add(x)
            return x
        raise TranslateError("C expression %r: unexpected %r" % (txt, x))

    def term():
        e = atom()
        while peek() == "*":
            eat()
            e = "(%s * %s)" % (e, atom())
        return e

    def expr():
        e = term()
        while peek() in ("+", "-"):
            op = eat()
            e = "(%s %s %s)" % (e, op, term())
        return e
    def cmp():
        # C comparison used as an integer (0/1), e.g.  (i - dl_window) * (i > dl_window)
        e = expr()
        if peek() in (">", "<", "!=", "=="):
            op = eat()
            b = expr()
            test = {">": "%s >? %s", "<": "%s <? %s", "==": "%s =? %s", "!=": "negb (%s =? %s)"}[op] % (e, b)
            e = "(if %s then 1 else 0)" % test
        return e
    out = cmp()
    if peek() is not None:
        raise TranslateError("C expression %r: trailing %r" % (txt, peek()))
    return out, sorted(free)


DIST_VARIANTS = ["dtw_distance", "dtw_distance_ndim", "dtw_distance_euclidean", "dtw_distance_ndim_euclidean"]


def analyse_mem():
    path = os.path.join(REPO, "src/DTAIDistanceC/DTAIDistanceC/dd_dtw.c")
    txt = strip_comments(open(path).read())
    fns = {}
    for m in re.finditer(r"^seq_t\s+(\w+)\s*\(([^)]*)\)\s*\{", txt, flags=re.M | re.S):
        start = m.end() - 1
        fns[m.group(1)] = txt[start:match_brace(txt, start) + 1]
    defs = []

    def one(fn, pattern, what, n=1):
        body = fns.get(fn)
        if body is None:
            raise TranslateError("function %s not found in dd_dtw.c" % fn)
        ms = re.findall(pattern, body, flags=re.S)
        if len(ms) != n:
            raise TranslateError("%s: %s matched %d times (expected %d)" % (fn, what, len(ms), n))
        return ms[0]
    for v in DIST_VARIANTS:
        e, fv = c_expr(one(v, r"idx_t\s+length\s*=\s*([^;]+);", "buffer length"))
        defs.append(("c_%s_length" % v, fv, e))
        e, fv = c_expr(one(v, r"for\s*\(i=0;\s*i<([^;]+);\s*i\+\+\)\s*\{\s*dtw\[i\]\s*=\s*0;", "psi_2b prologue bound"))
        defs.append(("c_%s_psi2b_bound" % v, fv, e))
        a, b = one(v, r"for\s*\(i=([^;]+);\s*i<([^;]+);\s*i\+\+\)\s*\{\s*if\s*\(dtw\[i1\*length \+ i\]", "psi_2e scan bounds")
        e, fv = c_expr(a)
        defs.append(("c_%s_psi2e_start" % v, fv, e))
        e, fv = c_expr(b)
        defs.append(("c_%s_psi2e_end" % v, fv, e))
        e, fv = c_expr(one(v, r"malloc\(sizeof\(seq_t\)\s*\*\s*([^)]+)\)", "allocation size"))
        defs.append(("c_%s_alloc" % v, fv, e))
        # ---- the band and the buffer offset of the row loop
        a, b, c2, d2 = one(v, r"if\s*\(l1 > l2\)\s*\{\s*ldiff\s*=\s*([^;]+);\s*dl\s*=\s*([^;]+);\s*\}\s*else\s*\{\s*ldiff\s*=\s*([^;]+);\s*dl\s*=\s*([^;]+);\s*\}",
                           "ldiff / dl")
        ea, _ = c_expr(a)
        ec, _ = c_expr(c2)
        defs.append(("c_%s_ldiff" % v, ["l1", "l2"], "(if l1 >? l2 then %s else %s)" % (ea, ec)))
        eb, fb = c_expr(b)
        ed, _ = c_expr(d2)
        if fb != ["ldiff"]:
            raise TranslateError("%s: dl is expected to be ldiff or a constant" % v)
        defs.append(("c_%s_dl" % v, ["l1", "l2", "ldiff"], "(if l1 >? l2 then %s else %s)" % (eb, ed)))
        e, fv = c_expr(one(v, r"idx_t\s+dl_window\s*=\s*([^;]+);", "dl_window"))
        defs.append(("c_%s_dl_window" % v, fv, e))
        a, b = one(v, r"idx_t\s+ldiff_window\s*=\s*([^;]+);\s*if\s*\(l2 > l1\)\s*\{\s*ldiff_window\s*\+=\s*([^;]+);\s*\}", "ldiff_window")
        ea, fa = c_expr(a)
        eb, fb = c_expr(b)
        defs.append(("c_%s_ldiff_window" % v, sorted(set(fa) | set(fb) | {"l1", "l2"}),
                     "(if l2 >? l1 then (%s + %s) else %s)" % (ea, eb, ea)))
        e, fv = c_expr(one(v, r"\bmaxj\s*=\s*([^;]+);\s*minj\s*=", "maxj"))
        defs.append(("c_%s_maxj" % v, fv, e))
        a, b, c2 = one(v, r"\bminj\s*=\s*([^;]+);\s*if\s*\(minj > ([^)]+)\)\s*\{\s*minj\s*=\s*([^;]+);\s*\}", "minj")
        ea, fa = c_expr(a)
        eb, fb = c_expr(b)
        ec, fc = c_expr(c2)
        defs.append(("c_%s_minj" % v, sorted(set(fa) | set(fb) | set(fc)),
                     "(if %s >? %s then %s else %s)" % (ea, eb, ec, ea)))
        a, b = one(v, r"\bskip\s*=\s*(maxj);.*?\bskip\s*=\s*([^;]+);", "skip")
        e, fv = c_expr(b)
        if "skip" not in fv:
            raise TranslateError("%s: second skip assignment does not use skip" % v)
        defs.append(("c_%s_skip" % v, fv, e))      # as a function of skip (= maxj), length, l2
    return defs


def split_args(txt):
    out, depth, cur = [], 0, ""
    for ch in txt:
        if ch in "([":
            depth += 1
        elif ch in ")]":
            depth -= 1
        if ch == "," and depth == 0:
            out.append(cur.strip())
            cur = ""
        else:
            cur += ch
    out.append(cur.strip())
    return out


def analyse_calls():
    """every distance-matrix loop (serial and OpenMP) calls the single-pair routine with (row series, column series)"""
    rows = []
    for src, names in (("src/DTAIDistanceC/DTAIDistanceC/dd_dtw.c", DM_FUNCTIONS), (SRC, OMP_FUNCTIONS)):
        txt = strip_comments(open(os.path.join(REPO, src)).read())
        fns = {}
        for m in re.finditer(r"^idx_t\s+(\w+)\s*\(([^)]*)\)\s*\{", txt, flags=re.M | re.S):
            start = m.end() - 1
            fns[m.group(1)] = txt[start:match_brace(txt, start) + 1]
        for fn in names:
            body = fns.get(fn)
            if body is None:
                raise TranslateError("function %s not found in %s" % (fn, src))
            ms = re.findall(r"value\s*=\s*(dtw_distance\w*)\s*\((.*?)\);", body, flags=re.S)
            if len(ms) != 1:
                raise TranslateError("%s: call of the single-pair routine matched %d times" % (fn, len(ms)))
            callee, args = ms[0]
            a = split_args(args)
            if len(a) < 5:
                raise TranslateError("%s: unexpected argument list of %s" % (fn, callee))

            def uses(e, v):
                return re.search(r"\b%s\b" % v, e) is not None
            ok = (uses(a[0], "r") and not uses(a[0], "c") and uses(a[2], "c") and not uses(a[2], "r")
                  and not uses(a[1], "c") and not uses(a[3], "r"))
            rows.append((fn, callee, ok))
    return rows


OMP_FUNCTIONS = ["dtw_distances_ptrs_parallel", "dtw_distances_ndim_ptrs_parallel", "dtw_distances_matrix_parallel",
                 "dtw_distances_ndim_matrix_parallel", "dtw_distances_matrices_parallel",
                 "dtw_distances_ndim_matrices_parallel"]


def analyse_omp_index():
    """the index plan of the OpenMP distance-matrix routines: dtw_distances_prepare and the slot expressions"""
    path = os.path.join(REPO, SRC)
    txt = strip_comments(open(path).read())
    fns = {}
    for m in re.finditer(r"^(?:idx_t|int)\s+(\w+)\s*\(([^)]*)\)\s*\{", txt, flags=re.M | re.S):
        start = m.end() - 1
        fns[m.group(1)] = txt[start:match_brace(txt, start) + 1]
    defs = []

    def one(fn, pattern, what):
        body = fns.get(fn)
        if body is None:
            raise TranslateError("function %s not found in %s" % (fn, SRC))
        ms = re.findall(pattern, body, flags=re.S)
        if len(ms) != 1:
            raise TranslateError("%s: %s matched %d times (expected 1)" % (fn, what, len(ms)))
        return ms[0]
    fn = "dtw_distances_prepare"
    a, b = one(fn, r"for\s*\(idx_t r=([^;]+);\s*r<([^;]+);\s*r\+\+\)", "prepare row loop")
    defs.append(("c_prepare_row_start", c_expr(a)[1], c_expr(a)[0]))
    defs.append(("c_prepare_row_end", c_expr(b)[1], c_expr(b)[0]))
    x, y, t, f = one(fn, r"if\s*\(([^>]+) > ([^)]+)\)\s*\{\s*cb\s*=\s*([^;]+);\s*\}\s*else\s*\{\s*cb\s*=\s*([^;]+);\s*\}", "prepare cb")
    ex, fx = c_expr(x)
    ey, fy = c_expr(y)
    et, ft = c_expr(t)
    ef, ff = c_expr(f)
    defs.append(("c_prepare_cb", sorted(set(fx) | set(fy) | set(ft) | set(ff)), "(if %s >? %s then %s else %s)" % (ex, ey, et, ef)))
    # the tail of the row loop, statement after statement: stores, UNCONDITIONAL row-offset increment, counter, end of loop
    e, fv = c_expr(one(fn, r"\(\*cbs\)\[ir\]\s*=\s*cb;\s*\(\*rls\)\[ir\]\s*=\s*rs;\s*rs\s*\+=\s*([^;]+);\s*ir\s*\+=\s*1;\s*\}",
                       "cbs/rls stores followed by the rs increment"))
    if len(re.findall(r"\brs\s*\+=", fns[fn])) != 1:
        raise TranslateError("%s: rs is incremented in more than one place" % fn)
    defs.append(("c_prepare_rs_inc", fv, e))
    one(fn, r"ir = 0;\s*rs = (0);", "rs initialisation")
    for k, fn in enumerate(OMP_FUNCTIONS):
        tag = "c_omp%d" % k
        e, fv = c_expr(one(fn, r"for\s*\(r_i=0;\s*r_i\s*<\s*\(([^)]+)\);\s*r_i\+\+\)", "parallel row loop bound"))
        defs.append((tag + "_rows", fv, e))
        e, fv = c_expr(one(fn, r"\br\s*=\s*([^;]+);\s*c_i\s*=\s*0;", "row index"))
        defs.append((tag + "_row", fv, e))
        a, b = one(fn, r"if\s*\(block->triu\)\s*\{\s*c\s*=\s*cbs\[([^\]]+)\];\s*\}\s*else\s*\{\s*c\s*=\s*([^;]+);\s*\}", "first column")
        if a.strip() != "r_i":
            raise TranslateError("%s: first column is expected to be cbs[r_i]" % fn)
        defs.append((tag + "_col_rect", c_expr(b)[1], c_expr(b)[0]))
        e, fv = c_expr(one(fn, r"for\s*\(;\s*c<([^;]+);\s*c\+\+\)", "column loop bound"))
        defs.append((tag + "_col_end", fv, e))
        a, b = one(fn, r"if\s*\(block->triu\)\s*\{\s*output\[rls\[r_i\] \+ ([^\]]+)\]\s*=\s*value;\s*\}\s*else\s*\{\s*output\[([^\]]+)\]\s*=\s*value;\s*\}", "output slots")
        defs.append((tag + "_slot_triu_off", c_expr(a)[1], c_expr(a)[0]))
        defs.append((tag + "_slot_rect", c_expr(b)[1], c_expr(b)[0]))
        one(fn, r"\bc_i\+\+;", "c_i increment")
    return defs


def analyse_wps_parts():
    """geometry of the compact warping-paths layout: dtw_wps_parts and dtw_wps_shift"""
    path = os.path.join(REPO, "src/DTAIDistanceC/DTAIDistanceC/dd_dtw.c")
    txt = strip_comments(open(path).read())
    fns = {}
    for m in re.finditer(r"^(?:static\s+)?(?:DTWWps|idx_t)\s+(\w+)\s*\(([^)]*)\)\s*\{", txt, flags=re.M | re.S):
        start = m.end() - 1
        fns[m.group(1)] = txt[start:match_brace(txt, start) + 1]
    defs = []

    def one(fn, pattern, what):
        body = fns.get(fn)
        if body is None:
            raise TranslateError("function %s not found in dd_dtw.c" % fn)
        ms = re.findall(pattern, body, flags=re.S)
        if len(ms) != 1:
            raise TranslateError("%s: %s matched %d times (expected 1)" % (fn, what, len(ms)))
        return ms[0]

    def ex(t):
        return c_expr(t.replace("parts.", ""))
    fn = "dtw_wps_parts"
    a, b, c2, d2, e2, f2 = one(fn, r"if\s*\(l1 > l2\)\s*\{\s*parts\.ldiff\s*=\s*([^;]+);\s*parts\.ldiffr\s*=\s*([^;]+);\s*parts\.ldiffc\s*=\s*([^;]+);\s*\}\s*else\s*\{\s*parts\.ldiff\s*=\s*([^;]+);\s*parts\.ldiffr\s*=\s*([^;]+);\s*parts\.ldiffc\s*=\s*([^;]+);\s*\}",
                               "ldiff/ldiffr/ldiffc")
    defs.append(("c_parts_ldiff", ["l1", "l2"], "(if l1 >? l2 then %s else %s)" % (ex(a)[0], ex(d2)[0])))
    defs.append(("c_parts_ldiffr", ["l1", "l2", "ldiff"], "(if l1 >? l2 then %s else %s)" % (ex(b)[0], ex(e2)[0])))
    defs.append(("c_parts_ldiffc", ["l1", "l2", "ldiff"], "(if l1 >? l2 then %s else %s)" % (ex(c2)[0], ex(f2)[0])))
    w0, wd0, w1, wd1 = one(fn, r"if\s*\(parts\.window == 0\)\s*\{\s*parts\.window\s*=\s*([^;]+);\s*parts\.width\s*=\s*([^;]+);\s*\}\s*else\s*\{\s*parts\.window\s*=\s*([^;]+);\s*parts\.width\s*=\s*([^;]+);\s*\}",
                           "window/width")
    # window as clipped; width in terms of the clipped window (the C code assigns window first)
    defs.append(("c_parts_window", ["l1", "l2", "window"], "(if window =? 0 then %s else %s)" % (ex(w0)[0], ex(w1)[0])))
    defs.append(("c_parts_width", ["l2", "ldiff", "window0", "window"],
                 "(if window0 =? 0 then %s else %s)" % (ex(wd0)[0], ex(wd1)[0])))
    e, fv = ex(one(fn, r"parts\.overlap_left_ri\s*=\s*([^;]+);", "overlap_left_ri"))
    defs.append(("c_parts_overlap_left", fv, e))
    init, x, y, t = one(fn, r"parts\.overlap_right_ri\s*=\s*([^;]+);\s*if\s*\(\(([^)]+)\) <= ([^)]+)\)\s*\{\s*parts\.overlap_right_ri\s*=\s*([^;]+);\s*\}",
                        "overlap_right_ri")
    ex_, fx = ex(x)
    ey, fy = ex(y)
    et, ft = ex(t)
    defs.append(("c_parts_overlap_right", sorted(set(fx) | set(fy) | set(ft)),
                 "(if %s <=? %s then %s else %s)" % (ex_, ey, et, ex(init)[0])))
    for name in ("ri1", "ri2", "ri3"):
        e, fv = ex(one(fn, r"parts\.%s\s*=\s*([^;]+);" % name, name))
        defs.append(("c_parts_" + name, fv, e))
    fn = "dtw_wps_shift"
    c1, v1, c2_, v2, c3a, c3b, v3, v4 = one(fn, r"if\s*\(ri < ([^)]+)\)\s*\{\s*return ([^;]+);\s*\}\s*if\s*\(ri < ([^)]+)\)\s*\{\s*return ([^;]+);\s*\}\s*if\s*\(([^=)]+) == ([^)]+)\)\s*\{\s*return ([^;]+);\s*\}\s*return ([^;]+);",
                                            "shift")
    defs.append(("c_wps_shift", ["ri", "ri2", "ri3"],
                 "(if ri <? %s then %s else if ri <? %s then %s else if %s =? %s then %s else %s)" % (
                     c_expr(c1)[0], c_expr(v1)[0], c_expr(c2_)[0], c_expr(v2)[0], c_expr(c3a)[0], c_expr(c3b)[0],
                     c_expr(v3)[0], c_expr(v4)[0])))
    return defs


LB_FUNCTIONS = ["lb_keogh", "lb_keogh_euclidean"]


def analyse_lb():
    """envelope bounds of the C LB_Keogh routines"""
    path = os.path.join(REPO, "src/DTAIDistanceC/DTAIDistanceC/dd_dtw.c")
    txt = strip_comments(open(path).read())
    fns = {}
    for m in re.finditer(r"^seq_t\s+(\w+)\s*\(([^)]*)\)\s*\{", txt, flags=re.M | re.S):
        start = m.end() - 1
        fns[m.group(1)] = txt[start:match_brace(txt, start) + 1]
    defs = []

    def one(fn, pattern, what):
        body = fns.get(fn)
        if body is None:
            raise TranslateError("function %s not found in dd_dtw.c" % fn)
        ms = re.findall(pattern, body, flags=re.S)
        if len(ms) != 1:
            raise TranslateError("%s: %s matched %d times (expected 1)" % (fn, what, len(ms)))
        return ms[0]
    for fn in LB_FUNCTIONS:
        for var in ("imin_diff", "imax_diff"):
            a, x, y, b = one(fn, r"idx_t\s+" + var + r"\s*=\s*([^;]+);\s*if\s*\((\w+) > (\w+)\)\s*\{\s*" + var + r"\s*\+=\s*([^;]+);\s*\}",
                             var)
            ea, fa = c_expr(a)
            eb, fb = c_expr(b)
            defs.append(("c_%s_%s" % (fn, var), sorted(set(fa) | set(fb) | {x, y}),
                         "(if %s >? %s then (%s + %s) else %s)" % (x, y, ea, eb, ea)))
        x, y, t, f = one(fn, r"if\s*\((\w+) > (\w+)\)\s*\{\s*imin\s*=\s*([^;]+);\s*\}\s*else\s*\{\s*imin\s*=\s*([^;]+);\s*\}", "imin")
        et, ft = c_expr(t)
        ef, ff = c_expr(f)
        defs.append(("c_%s_imin" % fn, sorted(set(ft) | set(ff) | {x, y}), "(if %s >? %s then %s else %s)" % (x, y, et, ef)))
        a, x, y, b = one(fn, r"\bimax\s*=\s*([^;]+);\s*if\s*\((\w+) > (\w+)\)\s*\{\s*imax\s*=\s*([^;]+);\s*\}", "imax")
        ea, fa = c_expr(a)
        eb, fb = c_expr(b)
        if x != "imax":
            raise TranslateError("%s: clamp of imax expected" % fn)
        defs.append(("c_%s_imax" % fn, sorted(set(fa) | set(fb) | {y}), "(if %s >? %s then %s else %s)" % (ea, y, eb, ea)))
        if len(re.findall(r"for\s*\(idx_t j=imin;\s*j<imax;\s*j\+\+\)", fns[fn])) != 2:
            raise TranslateError("%s: the two envelope loops over [imin, imax) not found" % fn)
    return defs


DM_FUNCTIONS = ["dtw_distances_ptrs", "dtw_distances_matrix", "dtw_distances_ndim_matrix", "dtw_distances_ndim_ptrs"]


def analyse_dm():
    """the pair enumeration of the serial C distance-matrix routines and dtw_distances_length (block part)"""
    path = os.path.join(REPO, "src/DTAIDistanceC/DTAIDistanceC/dd_dtw.c")
    txt = strip_comments(open(path).read())
    fns = {}
    for m in re.finditer(r"^idx_t\s+(\w+)\s*\(([^)]*)\)\s*\{", txt, flags=re.M | re.S):
        start = m.end() - 1
        fns[m.group(1)] = txt[start:match_brace(txt, start) + 1]
    defs = []

    def one(fn, pattern, what, n=1):
        body = fns.get(fn)
        if body is None:
            raise TranslateError("function %s not found in dd_dtw.c" % fn)
        ms = re.findall(pattern, body, flags=re.S)
        if len(ms) != n:
            raise TranslateError("%s: %s matched %d times (expected %d)" % (fn, what, len(ms), n))
        return ms[0]
    for fn in DM_FUNCTIONS:
        nb = one(fn, r"if\s*\(block->re == 0\)\s*\{\s*block->re\s*=\s*([^;]+);\s*\}", "re correction")
        nb2 = one(fn, r"if\s*\(block->ce == 0\)\s*\{\s*block->ce\s*=\s*([^;]+);\s*\}", "ce correction")
        e1, f1 = c_expr(nb)
        e2, f2 = c_expr(nb2)
        if len(f1) != 1 or len(f2) != 1:
            raise TranslateError("%s: block correction is expected to use one variable" % fn)
        defs.append(("c_%s_re" % fn, ["re", f1[0]], "(if re =? 0 then %s else re)" % e1))
        defs.append(("c_%s_ce" % fn, ["ce", f2[0]], "(if ce =? 0 then %s else ce)" % e2))
        a, b = one(fn, r"for\s*\(r=([^;]+);\s*r<([^;]+);\s*r\+\+\)", "row loop")
        ea, fa = c_expr(a)
        eb, fb = c_expr(b)
        defs.append(("c_%s_row_start" % fn, fa, ea))
        defs.append(("c_%s_row_end" % fn, fb, eb))
        x, y, t, f = one(fn, r"if\s*\(block->triu && ([^>]+) > ([^)]+)\)\s*\{\s*cb\s*=\s*([^;]+);\s*\}\s*else\s*\{\s*cb\s*=\s*([^;]+);\s*\}",
                         "column start")
        ex, fx = c_expr(x)
        ey, fy = c_expr(y)
        et, ft = c_expr(t)
        ef, ff = c_expr(f)
        fv = sorted(set(fx) | set(fy) | set(ft) | set(ff))
        defs.append(("c_%s_col_start" % fn, ["triu"] + fv,
                     "(if (0 <? triu) && (%s >? %s) then %s else %s)" % (ex, ey, et, ef)))
        a, b = one(fn, r"for\s*\(c=([^;]+);\s*c<([^;]+);\s*c\+\+\)", "column loop")
        if a.strip() != "cb":
            raise TranslateError("%s: the column loop is expected to start at cb" % fn)
        eb, fb = c_expr(b)
        defs.append(("c_%s_col_end" % fn, fb, eb))
        if len(re.findall(r"output\[i\]\s*=\s*value;\s*i\s*\+=\s*1;", fns[fn])) != 1:
            raise TranslateError("%s: results are expected to be stored at consecutive positions" % fn)
    # dtw_distances_length, block given, triangular: per-row contribution
    fn = "dtw_distances_length"
    a, b = one(fn, r"for\s*\(ir=([^;]+);\s*ir<([^;]+);\s*ir\+\+\)", "length row loop")
    c1, d1, c2, d2 = one(fn, r"if\s*\(ir < ([^)]+)\)\s*\{\s*delta\s*=\s*([^;]+);\s*\}\s*else\s*\{\s*if\s*\(([^)]+) <= ir\)\s*\{\s*break;\s*\}\s*else\s*\{\s*delta\s*=\s*([^;]+);\s*\}\s*\}",
                         "delta")
    e_c1, f_c1 = c_expr(c1)
    e_d1, f_d1 = c_expr(d1)
    e_c2, f_c2 = c_expr(c2)
    e_d2, f_d2 = c_expr(d2)
    fv = sorted(set(f_c1) | set(f_d1) | set(f_c2) | set(f_d2) | {"ir"})
    # a row that hits the "break" contributes nothing, and neither do the rows after it (delta would be negative)
    defs.append(("c_dtw_distances_length_delta", fv,
                 "(if ir <? %s then %s else if %s <=? ir then 0 else %s)" % (e_c1, e_d1, e_c2, e_d2)))
    ea, fa = c_expr(a)
    eb, fb = c_expr(b)
    defs.append(("c_dtw_distances_length_row_start", fa, ea))
    defs.append(("c_dtw_distances_length_row_end", fb, eb))
    r1, c1_, r2, c2_ = one(fn, r"length\s*=\s*\(([^)]+) - ([^)]+)\)\s*\*\s*\(([^)]+) - ([^)]+)\);", "rectangular length")
    defs.append(("c_dtw_distances_length_rect", ["rb", "re", "cb", "ce"],
                 "((%s - %s) * (%s - %s))" % (c_expr(r1)[0], c_expr(c1_)[0], c_expr(r2)[0], c_expr(c2_)[0])))
    return defs


# ---------------------------------------------------------------- who writes the shared settings struct
SETTINGS_FILES = ["src/DTAIDistanceC/DTAIDistanceC/dd_dtw.c", "src/DTAIDistanceC/DTAIDistanceC/dd_dtw_openmp.c",
                  "src/DTAIDistanceC/DTAIDistanceC/dd_ed.c"]


def analyse_settings_writers():
    """Every C function that stores through a `DTWSettings *` parameter (p->f = ..., ++, +=, *p = ..., (*p).f = ...,
    or hands out &p->f), and every function that calls one of those.  All pairs of a distance matrix - the OpenMP
    loops included - run the kernels on ONE shared settings struct: a kernel that writes it makes a result depend
    on the schedule and on the pairs computed before (first seeded change of C02).  Fail-closed: fewer than 40
    recognised functions with such a parameter is an error."""
    bodies = {}
    writers = []
    seen = 0
    for f in SETTINGS_FILES:
        txt = canon_c(strip_comments(open(os.path.join(REPO, f)).read()))
        for m in re.finditer(r"^[A-Za-z_][\w \t\*]*?\b(\w+)\s*\(([^;{}]*?)\)\s*\{", txt, flags=re.M | re.S):
            name, params = m.group(1), m.group(2)
            if name in ("if", "for", "while", "switch"):
                continue
            start = m.end() - 1
            body = txt[start:match_brace(txt, start) + 1]
            bodies[name] = body
            ptrs = re.findall(r"DTWSettings\s*\*\s*(\w+)", params)
            if not ptrs:
                continue
            seen += 1
            for am in re.finditer(r"DTWSettings\s*\*\s*(\w+)\s*=\s*(\w+)\s*;", body):
                if am.group(2) in ptrs:
                    ptrs.append(am.group(1))
            w = False
            for q in ptrs:
                q = re.escape(q)
                pats = [r"(?<![\w>\.])%s\s*->\s*\w+\s*(\+\+|--|\+=|-=|\*=|/=|=(?!=))" % q,
                        r"(\+\+|--)\s*%s\s*->" % q,
                        r"\*\s*%s\s*=(?!=)" % q,
                        r"\(\s*\*\s*%s\s*\)\s*\.\s*\w+\s*(\+\+|--|\+=|-=|\*=|/=|=(?!=))" % q,
                        r"(?<![&\w\)])&\s*%s\s*->" % q]
                if any(re.search(pt, body) for pt in pats):
                    w = True
            if w:
                writers.append(name)
    if seen < 40:
        raise TranslateError("only %d functions with a DTWSettings* parameter recognised" % seen)
    writers = sorted(set(writers))
    callers = sorted(n for n, b in bodies.items()
                     if any(re.search(r"\b%s\s*\(" % re.escape(w), b) for w in writers if w != n))
    return writers, callers, seen


# ---------------------------------------------------------------- the fill loops of the compact warping-paths array
FILL_KERNELS=["dtw_warping_paths_ndim","dtw_warping_paths_ndim_euclidean","dtw_warping_paths_affinity_ndim","dtw_warping_paths_affinity_ndim_euclidean"]
TRACKED=("min_ci","max_ci","wpsi_start")

def fill_func_body(txt,name):
    m=re.search(r"^seq_t\s+%s\s*\(([^;{}]*?)\)\s*\{"%re.escape(name),txt,flags=re.M|re.S)
    if not m: raise TranslateError("function %s not found"%name)
    st=m.end()-1
    return txt[st:match_brace(txt,st)+1]

def region_loops(body, name):
    out=[]
    for m in re.finditer(r"for\s*\(\s*ri\s*=\s*([^;]+);\s*ri\s*<\s*([^;]+);\s*ri\+\+\s*\)\s*\{",body):
        d=body[:m.start()].count("{")-body[:m.start()].count("}")
        if d!=1: continue
        b=m.end()-1
        out.append((m.start(),b,match_brace(body,b),m.group(1).strip(),m.group(2).strip()))
    want=[("0","p.ri1"),("p.ri1","p.ri2"),("p.ri2","p.ri3"),("p.ri3","l1")]
    regs=[l for l in out if (l[3],l[4]) in want]
    if [(l[3],l[4]) for l in regs]!=want:
        raise TranslateError("%s: region loops A,B,C,D not found in order: %s"%(name,[(l[3],l[4]) for l in out]))
    return regs

def cx(t):
    return c_expr(t.replace("p.","").replace("settings->",""))[0]

def subst(coq, state):
    for v in TRACKED:
        if re.search(r"\b%s\b"%v, coq):
            if state.get(v) is None: raise TranslateError("use of %s before it is set"%v)
            coq=re.sub(r"\b%s\b"%v, lambda m: state[v], coq)
    return coq

def exec_block(text, state, where):
    """straight-line code with if/else over the tracked variables; everything else must not mention them"""
    i=0; n=len(text)
    while i<n:
        m=re.match(r"\s+",text[i:])
        if m: i+=m.end(); continue
        if re.match(r"if\b",text[i:]):
            p0=text.index("(",i); depth=0
            for k in range(p0,n):
                if text[k]=="(": depth+=1
                elif text[k]==")":
                    depth-=1
                    if depth==0: break
            cond=text[p0+1:k]
            j=k+1
            mm=re.match(r"\s*\{",text[j:])
            if not mm: raise TranslateError("%s: if without braces"%where)
            b=j+mm.end()-1; e=match_brace(text,b)
            then=text[b+1:e]; j=e+1
            els=None
            mm=re.match(r"\s*else\s*\{",text[j:])
            if mm:
                b2=j+mm.end()-1; e2=match_brace(text,b2); els=text[b2+1:e2]; j=e2+1
            if any(re.search(r"\b%s\b"%v, then+(els or "")) for v in TRACKED):
                mc=re.fullmatch(r"\s*([^=<>!]+?)\s*(==|!=|<|>)\s*([^=<>!]+?)\s*",cond)
                if not mc: raise TranslateError("%s: condition %r not understood"%(where,cond))
                a,op,bb=subst(cx(mc.group(1)),state),mc.group(2),subst(cx(mc.group(3)),state)
                test={"==":"%s =? %s","!=":"negb (%s =? %s)","<":"%s <? %s",">":"%s >? %s"}[op]%(a,bb)
                s1=dict(state); exec_block(then,s1,where)
                s2=dict(state)
                if els is not None: exec_block(els,s2,where)
                for v in TRACKED:
                    if s1.get(v)!=s2.get(v):
                        if s1.get(v) is None or s2.get(v) is None: raise TranslateError("%s: %s set in one branch only"%(where,v))
                        state[v]="(if %s then %s else %s)"%(test,s1[v],s2[v])
                    else: state[v]=s1.get(v)
            i=j; continue
        if re.match(r"(for|while)\b",text[i:]):
            p0=text.index("(",i); depth=0
            for k in range(p0,n):
                if text[k]=="(": depth+=1
                elif text[k]==")":
                    depth-=1
                    if depth==0: break
            j=k+1
            mm=re.match(r"\s*\{",text[j:])
            if not mm: raise TranslateError("%s: loop without braces"%where)
            b=j+mm.end()-1; e=match_brace(text,b)
            chunk=text[i:e+1]
            if re.search(r"\b(%s)\s*(=(?!=)|\+\+|--|\+=|-=)"%"|".join(TRACKED),chunk):
                raise TranslateError("%s: tracked variable assigned inside a loop"%where)
            i=e+1; continue
        if text[i]=="{":
            e=match_brace(text,i); exec_block(text[i+1:e],state,where); i=e+1; continue
        j=text.find(";",i)
        if j<0:
            if text[i:].strip(): raise TranslateError("%s: trailing text %r"%(where,text[i:][:40]))
            break
        st=text[i:j].strip(); i=j+1
        m=re.fullmatch(r"(%s)\s*=\s*(.+)"%"|".join(TRACKED),st,flags=re.S)
        if m: state[m.group(1)]=subst(cx(m.group(2)),state); continue
        m=re.fullmatch(r"(%s)\s*\+\+"%"|".join(TRACKED),st)
        if m: state[m.group(1)]="(%s + 1)"%state[m.group(1)]; continue
        if re.match(r"(idx_t|seq_t|int|bool|DTWWps)\b",st) and not re.search(r"\b(%s)\s*="%"|".join(TRACKED),st): continue
        if any(re.search(r"\b%s\b\s*(=(?!=)|\+\+|--|\+=|-=)"%v,st) for v in TRACKED):
            raise TranslateError("%s: statement %r not understood"%(where,st))
    return state

def depth1(body_inner):
    """text of a loop body with nested blocks blanked"""
    out=[];d=0
    for ch in body_inner:
        if ch=="{": d+=1
        if d==0: out.append(ch)
        else: out.append(" " if ch!="\n" else "\n")
        if ch=="}": d-=1
    return "".join(out)

def analyse_region(kernel, R, pre, inner):
    where="%s region %s"%(kernel,R)
    d1=depth1(inner)
    if len(re.findall(r"\bci\s*=\s*min_ci\s*;",d1))!=1: raise TranslateError(where+": `ci = min_ci;` expected once")
    ws=re.findall(r"\bwpsi\s*=\s*([^;]+);",d1)
    if len(ws)!=1: raise TranslateError(where+": one `wpsi = ...;` expected at loop level, found %s"%ws)
    wpsi0=ws[0].strip()
    if wpsi0 not in ("1","wpsi_start"): raise TranslateError(where+": wpsi initialised with %r"%wpsi0)
    incs=set(re.findall(r"\b(min_ci|max_ci|wpsi_start)\s*\+\+\s*;",d1))
    other=[v for v in TRACKED if re.search(r"\b%s\s*(=(?!=)|--|\+=|-=)"%v, inner)]
    if other: raise TranslateError(where+": %s assigned inside the row loop"%other)
    if len(re.findall(r"\bri_widthp\s*=\s*ri_width\s*;",d1))!=1 or len(re.findall(r"\bri_width\s*\+=\s*p\.width\s*;",d1))!=1:
        raise TranslateError(where+": row offsets are not advanced by `ri_widthp = ri_width; ri_width += p.width;`")
    # the cell loop
    cl=[m for m in re.finditer(r"for\s*\(\s*;\s*([^;]+);\s*ci\+\+\s*\)\s*\{",inner)]
    norm=lambda t: re.sub(r"\s+","",t)
    main=[m for m in cl if norm(m.group(1)) in ("ci<max_ci","ci<l2")]
    if len(main)!=1: raise TranslateError(where+": cell loop not found")
    hi=norm(main[0].group(1))[3:]
    b=main[0].end()-1; cell=inner[b:match_brace(inner,b)+1]
    # skip loops before the cell loop (pruning: ci<sc ; affinity only_triu: ci<ri ...): each writes wps[ri_width + wpsi] and advances wpsi
    skips=[]
    for m in cl:
        if m is main[0]: continue
        if m.start()>main[0].start(): raise TranslateError(where+": loop over ci after the cell loop")
        bb=m.end()-1; sk=inner[bb:match_brace(inner,bb)+1]
        if not re.fullmatch(r"\{\s*wps\[ri_width\+wpsi\]\s*=\s*-?INFINITY;\s*wpsi\+\+;\s*\}",sk):
            raise TranslateError(where+": skip loop body %r"%sk)
        c=norm(m.group(1))
        if c=="ci<sc": skips.append("sc")
        elif c in ("ci<ri&&ci<"+hi,"ci<"+hi+"&&ci<ri","ci<MIN(ri,"+hi+")","ci<MIN("+hi+",ri)"): skips.append("ri&bound")
        elif c=="ci<ri": skips.append("ri")
        else: raise TranslateError(where+": skip loop condition %r"%c)
    if len(skips)!=1: raise TranslateError(where+": %d skip loops"%len(skips))
    # every wps[...] index in the row loop
    idx=sorted(set(re.sub(r"\s+","",x) for x in re.findall(r"wps\[([^\]]+)\]",inner)))
    allowed={"ri_width+wpsi":("cur",0),"ri_width+wpsi-1":("cur",-1),"ri_widthp+wpsi-1":("prev",-1),"ri_widthp+wpsi":("prev",0),
             "ri_widthp+wpsi+1":("prev",1),"ri_width":("row0",0),"i":("i",0)}
    for x in idx:
        if x not in allowed: raise TranslateError(where+": index wps[%s] not understood"%x)
    # reads of the recurrence: the three arguments of MIN3/MAX3
    m3=re.search(r"(MIN3|MAX3)\s*\(",cell)
    if not m3: raise TranslateError(where+": MIN3/MAX3 not found")
    p0=m3.end()-1; depth=0
    for k in range(p0,len(cell)):
        if cell[k]=="(": depth+=1
        elif cell[k]==")":
            depth-=1
            if depth==0: break
    args=split_args(cell[p0+1:k])
    if len(args)!=3: raise TranslateError(where+": MIN3/MAX3 with %d arguments"%len(args))
    offs=[]
    for a in args:
        mm=re.findall(r"wps\[([^\]]+)\]",a)
        if len(mm)!=1: raise TranslateError(where+": argument %r"%a)
        offs.append(allowed[re.sub(r"\s+","",mm[0])])
    if offs[0]!=("cur",-1): raise TranslateError(where+": first argument is not the left neighbour")
    # the text of the recurrence: which terms carry the penalty, and how the cell is stored
    rec_args = [re.sub(r"wps\[[^\]]+\]", "W", re.sub(r"\s+", "", a)) for a in args]
    store = "d+" + m3.group(1) if re.search(r"wps\[ri_width\+wpsi\]=d\+%s\(" % m3.group(1), re.sub(r"\s+", "", cell)) else "other"
    recurrence = "%s:%s;store=%s" % (m3.group(1), ",".join(rec_args), store)
    if offs[1][0]!="prev" or offs[2][0]!="prev": raise TranslateError(where+": diagonal/up arguments")
    # loops over i: the head fill (D) and the tail fill
    iloops=re.findall(r"for\s*\(\s*idx_t\s+i\s*=\s*([^;]+);\s*i\s*<\s*([^;]+);\s*i\+\+\s*\)",inner)
    iloops=[(re.sub(r"\s+","",a),re.sub(r"\s+","",b)) for a,b in iloops]
    tail=("ri_width+wpsi","ri_width+p.width"); head=("ri_width","(ri_width+wpsi)")
    if tail not in iloops: raise TranslateError(where+": tail fill loop not found")
    for l in iloops:
        if l not in (tail,head): raise TranslateError(where+": loop over i %r not understood"%(l,))
    state=exec_block(pre,{},where)
    return {"min_ci0":state.get("min_ci"),"max_ci0":state.get("max_ci") if hi=="max_ci" else "l2","hi_is_l2":hi=="l2",
            "wpsi0": "1" if wpsi0=="1" else state.get("wpsi_start"),
            "d_min": 1 if "min_ci" in incs else 0, "d_max": 1 if ("max_ci" in incs and hi=="max_ci") else 0,
            "d_wpsi": 1 if ("wpsi_start" in incs and wpsi0=="wpsi_start") else 0,
            "off_diag":offs[1][1],"off_up":offs[2][1],"head_fill":head in iloops,"row0_store":"ri_width" in idx,"skips":skips,
            "recurrence":recurrence}

def analyse_fill():
    txt=canon_c(strip_comments(open(os.path.join(REPO,"src/DTAIDistanceC/DTAIDistanceC/dd_dtw.c")).read()))
    res={}
    for k in FILL_KERNELS:
        body=fill_func_body(txt,k)
        regs=region_loops(body,k)
        scs=sorted(set(re.sub(r"\s+"," ",x.strip()) for x in re.findall(r"(?<![\w\.>])sc\s*=(?!=)\s*([^;]+);",body)))
        res[("sc",k)]=scs
        prev_end=None
        for R,(s,b,e,lo,hi) in zip("ABCD",regs):
            if prev_end is None:
                # region A: from the last top-level statement that sets ri_width before the loop
                m=list(re.finditer(r"idx_t\s+ri_widthp\s*=\s*0\s*;",body[:s]))
                if len(m)!=1: raise TranslateError(k+": `idx_t ri_widthp = 0;` expected once before region A")
                pre=body[m[0].end():s]
                if not re.search(r"idx_t\s+ri_width\s*=\s*p\.width\s*;",pre): raise TranslateError(k+": ri_width not initialised with p.width")
            else:
                pre=body[prev_end+1:s]
            res[(k,R)]=analyse_region(k,R,pre,body[b+1:e])
            prev_end=e
    return res

ARGS="(l2 window ldiff ldiffr ldiffc ri2 ri3 : Z)"
def emit_fill(res):
    lines=["(* GENERATED by tools/translate_c.py from src/DTAIDistanceC/DTAIDistanceC/dd_dtw.c -- do not edit *)",
           "(* the four row regions (A, B, C, D) of the loops that fill the compact warping-paths array *)",
           "From Coq Require Import ZArith Bool String List.","Import ListNotations.","Open Scope Z_scope.","",
           "Inductive region_id := RA | RB | RC | RD.","","Record fill_region := {","  fr_kernel : string; fr_region : region_id;",
           "  fr_min0 : Z -> Z -> Z -> Z -> Z -> Z -> Z -> Z;   (* min_ci before the row loop *)",
           "  fr_max0 : Z -> Z -> Z -> Z -> Z -> Z -> Z -> Z;   (* bound of the cell loop before the row loop (l2 when the loop runs to l2) *)",
           "  fr_wpsi0 : Z -> Z -> Z -> Z -> Z -> Z -> Z -> Z;  (* slot of column min_ci in the first row of the region *)",
           "  fr_dmin : Z; fr_dmax : Z; fr_dwpsi : Z;           (* per-row increments *)",
           "  fr_offdiag : Z; fr_offup : Z;                     (* previous-row read offsets relative to the slot *)",
           "  fr_head_fill : bool; fr_row0_store : bool; fr_skip : string; fr_recurrence : string }.","",
           "Definition fill_regions : list fill_region := ["]
    rows=[]
    scs={k[1]:v for k,v in res.items() if k[0]=="sc"}
    res={k:v for k,v in res.items() if k[0]!="sc"}
    for (k,R),v in res.items():
        f=lambda e: "(fun %s => %s)"%(ARGS[1:-5].strip(), e)
        rows.append('  {| fr_kernel := "%s"; fr_region := R%s;\n     fr_min0 := fun l2 window ldiff ldiffr ldiffc ri2 ri3 => %s;\n     fr_max0 := fun l2 window ldiff ldiffr ldiffc ri2 ri3 => %s;\n     fr_wpsi0 := fun l2 window ldiff ldiffr ldiffc ri2 ri3 => %s;\n     fr_dmin := %d; fr_dmax := %d; fr_dwpsi := %d; fr_offdiag := %s; fr_offup := %s;\n     fr_head_fill := %s; fr_row0_store := %s; fr_skip := "%s"; fr_recurrence := "%s" |}'%(
            k,R,v["min_ci0"],v["max_ci0"],v["wpsi0"],v["d_min"],v["d_max"],v["d_wpsi"],
            "(%d)"%v["off_diag"],"(%d)"%v["off_up"],"true" if v["head_fill"] else "false","true" if v["row0_store"] else "false",",".join(v["skips"]),v["recurrence"]))
    lines.append(";\n".join(rows)); lines.append("].")
    lines.append("")
    lines.append("(* right-hand sides of every assignment to the pruning bound sc, per kernel *)")
    lines.append("Open Scope string_scope.")
    lines.append("Definition sc_assignments : list (string * list string) := [%s]."%"; ".join('("%s", [%s])'%(k,"; ".join('"%s"'%x for x in v)) for k,v in scs.items()))
    return "\n".join(lines)+"\n"


# ---------------------------------------------------------------- the traceback loops over the compact array
TRACE_FUNCS=["dtw_best_path","dtw_best_path_customstart","dtw_best_path_isclose","dtw_best_path_affinity","dtw_best_path_prob"]

def trace_func_body(txt,name):
    m=re.search(r"^idx_t\s+%s\s*\(([^;{}]*?)\)\s*\{"%re.escape(name),txt,flags=re.M|re.S)
    if not m: raise TranslateError("function %s not found"%name)
    st=m.end()-1
    return txt[st:match_brace(txt,st)+1]

IDX={"ri_width+wpsi":("cur",0),"ri_width+wpsi-1":("cur",-1),"ri_widthp+wpsi-1":("prev",-1),"ri_widthp+wpsi":("prev",0),"ri_widthp+wpsi+1":("prev",1)}

def leaves(block):
    """innermost brace blocks that move rip/cip"""
    out=[]
    i=0
    while True:
        j=block.find("{",i)
        if j<0: break
        e=match_brace(block,j)
        inner=block[j+1:e]
        if "{" in inner:
            out+=leaves(inner)
        elif re.search(r"\b(rip|cip)\s*(--|-=)",inner):
            out.append(inner)
        i=e+1
    return out

def analyse_trace():
    txt=canon_c(strip_comments(open(os.path.join(REPO,"src/DTAIDistanceC/DTAIDistanceC/dd_dtw.c")).read()))
    res=[]
    for fn in TRACE_FUNCS:
        body=trace_func_body(txt,fn)
        loops=[]
        for m in re.finditer(r"while\s*\(\s*rip\s*>\s*([^&]+?)\s*&&\s*cip\s*>\s*0\s*\)\s*\{",body):
            b=m.end()-1; e=match_brace(body,b)
            loops.append((m.group(1).strip(),body[b+1:e]))
        if [g for g,_ in loops]!=["p.ri3","p.ri2","0"]:
            raise TranslateError("%s: traceback loops with guards %s"%(fn,[g for g,_ in loops]))
        # between the loops nothing may touch wpsi/rip/cip
        for R,(g,lb) in zip(("D","C","AB"),loops):
            where="%s region %s"%(fn,R)
            idx=sorted(set(re.sub(r"\s+","",x) for x in re.findall(r"wps\[([^\]]+)\]",lb)))
            for x in idx:
                if x not in IDX: raise TranslateError(where+": index wps[%s] not understood"%x)
            lv=leaves(lb)
            lv=[l for l in lv if re.search(r"\b(rip|cip)\s*--",l)]
            if len(lv)!=3: raise TranslateError(where+": %d move blocks"%len(lv))
            moves=[]
            for l in lv:
                st=[s.strip() for s in l.split(";") if s.strip()]
                drip=dcip=dw=0; rowptr=0
                for s in st:
                    s2=re.sub(r"\s+","",s)
                    if s2=="rip--": drip-=1
                    elif s2=="cip--": dcip-=1
                    elif s2 in ("wpsi--","wpsi=wpsi-1"): dw-=1
                    elif s2 in ("wpsi++","wpsi=wpsi+1"): dw+=1
                    elif s2=="ri_width=ri_widthp": rowptr|=1
                    elif s2=="ri_widthp-=p.width": rowptr|=2
                    else: raise TranslateError(where+": statement %r in a move block"%s)
                if (drip!=0) != (rowptr==3): raise TranslateError(where+": row offsets and rip move apart")
                moves.append((drip,dcip,dw))
            sig=[(m[0],m[1]) for m in moves]
            if sig!=[(-1,-1),(0,-1),(-1,0)]: raise TranslateError(where+": move blocks are not (diagonal, left, up): %s"%sig)
            # which cells are compared: the condition texts
            conds=[re.sub(r"\s+","",c) for c in re.findall(r"if\s*\(((?:[^(){}]|\([^(){}]*\)|\((?:[^(){}]|\([^(){}]*\))*\))*)\)\s*\{",lb)]
            used=[x for x in idx if x!="ri_width+wpsi"]
            offs={}
            for x in used:
                row,off=IDX[x]
                if row=="cur":
                    if off!=-1: raise TranslateError(where+": current-row read %s"%x)
                    offs["left"]=off
            prevs=sorted(IDX[x][1] for x in used if IDX[x][0]=="prev")
            if len(prevs)!=2 or prevs[1]!=prevs[0]+1: raise TranslateError(where+": previous-row reads %s"%prevs)
            offs["diag"],offs["up"]=prevs
            if "left" not in offs: raise TranslateError(where+": no left read")
            D="wps[ri_widthp+wpsi%s]"%("" if offs["diag"]==0 else "%+d"%offs["diag"])
            U="wps[ri_widthp+wpsi%s]"%("" if offs["up"]==0 else "%+d"%offs["up"])
            Lx="wps[ri_width+wpsi-1]"
            kind="other"
            for op,name in (("<=","le_pen"),(">=","ge_pen")):
                c1="%s%s%s+p.penalty&&%s%s%s+p.penalty"%(D,op,Lx,D,op,U)
                c2="%s%s%s"%(Lx,op,U)
                if c1 in conds and c2 in conds: kind=name
            res.append({"fn":fn,"region":R,"diag":offs["diag"],"left":offs["left"],"up":offs["up"],
                        "w_diag":moves[0][2],"w_left":moves[1][2],"w_up":moves[2][2],"decision":kind})
    return res

def analyse_trace_init():
    """dtw_best_path: the slot of the corner cell (l1, l2) computed before the loops"""
    txt=canon_c(strip_comments(open(os.path.join(REPO,"src/DTAIDistanceC/DTAIDistanceC/dd_dtw.c")).read()))
    body=trace_func_body(txt,"dtw_best_path")
    ms=list(re.finditer(r"idx_t\s+ri_width\s*=\s*p\.width\s*\*\s*rip\s*;",body))
    w=re.search(r"while\s*\(\s*rip\s*>\s*p\.ri3",body)
    if len(ms)!=1 or not w or w.start()<ms[0].end(): raise TranslateError("dtw_best_path: prologue not found")
    if not re.search(r"idx_t\s+rip\s*=\s*l1\s*;",body) or not re.search(r"idx_t\s+cip\s*=\s*l2\s*;",body):
        raise TranslateError("dtw_best_path: rip/cip are not initialised with l1/l2")
    pre=body[ms[0].end():w.start()]
    global TRACKED
    old = TRACKED
    TRACKED = ("min_ci", "wpsi_start", "wpsi")
    try:
        st = exec_block(pre, {}, "dtw_best_path prologue")
    finally:
        TRACKED = old
    if st.get("wpsi") is None: raise TranslateError("dtw_best_path: wpsi not initialised")
    return st["wpsi"]

def bool_expr(txt, where):
    """a C condition over idx_t variables (||, &&, parentheses, >, <, ==, + and -) -> Coq bool; the two reads
    dtw_wps_get(&p, wps, rs, l2) / dtw_wps_get(&p, wps, l1, cs) must have been replaced by VR / VC (costs)"""
    toks = re.findall(r"\|\||&&|==|[()<>+\-]|[A-Za-z_]\w*|\d+", txt)
    if "".join(toks) != re.sub(r"\s+", "", txt):
        raise TranslateError("%s: cannot tokenise condition %r" % (where, txt))
    pos = [0]

    def peek():
        return toks[pos[0]] if pos[0] < len(toks) else None

    def eat(t=None):
        x = peek()
        if x is None or (t is not None and x != t):
            raise TranslateError("%s: unexpected token %r in %r" % (where, x, txt))
        pos[0] += 1
        return x

    def arith():
        def term():
            x = eat()
            if not re.fullmatch(r"[A-Za-z_]\w*|\d+", x):
                raise TranslateError("%s: operand %r in %r" % (where, x, txt))
            return x
        e = term()
        while peek() in ("+", "-"):
            o = eat()
            e = "(%s %s %s)" % (e, o, term())
        return e

    def cmp_():
        if peek() == "(":
            eat("(")
            e = or_()
            eat(")")
            return e
        a = arith()
        o = eat()
        b = arith()
        if {a, b} <= {"VR", "VC"}:
            if o != "<":
                raise TranslateError("%s: comparison %s of two cells" % (where, o))
            return "(cltb %s %s)" % (a.lower(), b.lower())
        if "VR" in (a, b) or "VC" in (a, b):
            raise TranslateError("%s: a cell compared with an index in %r" % (where, txt))
        return {"<": "(%s <? %s)" % (a, b), ">": "(%s <? %s)" % (b, a), "==": "(%s =? %s)" % (a, b)}[o]

    def and_():
        e = cmp_()
        while peek() == "&&":
            eat()
            e = "(%s && %s)" % (e, cmp_())
        return e

    def or_():
        e = and_()
        while peek() == "||":
            eat()
            e = "(%s || %s)" % (e, and_())
        return e
    e = or_()
    if peek() is not None:
        raise TranslateError("%s: trailing tokens in %r" % (where, txt))
    return e


def analyse_trace_end():
    """dtw_best_path: the choice of the start cell when the end is psi-relaxed (the chain of -1 marks)"""
    txt = canon_c(strip_comments(open(os.path.join(REPO, "src/DTAIDistanceC/DTAIDistanceC/dd_dtw.c")).read()))
    body = trace_func_body(txt, "dtw_best_path")
    body = re.sub(r"\s+", "", body)
    fn = "dtw_best_path"
    for pat, what in ((r"if\(l1>0&&l2>0&&\(settings->psi_1e!=0\|\|settings->psi_2e!=0\)&&dtw_wps_get\(&p,wps,l1,l2\)==-1\)\{", "relaxed-end test"),
                      (r"idx_trs=l1;while\(rs>0&&dtw_wps_get\(&p,wps,rs,l2\)==-1\)\{rs--;\}", "scan of the last column"),
                      (r"idx_tcs=l2;while\(cs>0&&dtw_wps_get\(&p,wps,l1,cs\)==-1\)\{cs--;\}", "scan of the last row"),
                      (r"if\(rs>0&&cs>0\)\{returndtw_best_path_customstart\(wps,i1,i2,l1,l2,rs,cs,settings\);\}", "call of the custom-start traceback")):
        if len(re.findall(pat, body)) != 1:
            raise TranslateError("%s: %s not found exactly once" % (fn, what))
    m = re.findall(r"\}if\(([^{}]+)\)\{cs=l2;\}elseif\(([^{}]+)\)\{rs=l1;\}elseif\(([^{}]+)\)\{cs=l2;\}else\{rs=l1;\}if\(rs>0&&cs>0\)", body)
    if len(m) != 1:
        raise TranslateError("%s: the four-way choice of the start cell matched %d times (expected 1)" % (fn, len(m)))
    conds = []
    for c in m[0]:
        c = c.replace("dtw_wps_get(&p,wps,rs,l2)", "VR").replace("dtw_wps_get(&p,wps,l1,cs)", "VC").replace("settings->", "")
        if "dtw_wps_get" in c or "->" in c:
            raise TranslateError("%s: unexpected read in the choice of the start cell: %s" % (fn, c))
        conds.append(bool_expr(c, fn))
    return ("(* dtw_best_path on a psi-relaxed end: rs / cs = the rows / columns left after the chains of -1 marks; vr, vc = the\n"
            "   cells (rs, l2) and (l1, cs); the result is the start cell handed to dtw_best_path_customstart *)\n"
            "Definition c_bestpath_end (l1 l2 rs cs psi_1e psi_2e : Z) (vr vc : cost) : Z * Z :=\n"
            "  if %s then (rs, l2) else if %s then (l1, cs) else if %s then (rs, l2) else (l1, cs).\n" % tuple(conds))


def emit_trace(res):
    lines=["(* GENERATED by tools/translate_c.py from src/DTAIDistanceC/DTAIDistanceC/dd_dtw.c -- do not edit *)",
           "(* the three loops (regions D, C, A-B) of the traceback routines over the compact warping-paths array *)",
           "From Coq Require Import ZArith Bool String List.","From DV Require Import Cost.","Import ListNotations.","Open Scope Z_scope.","Open Scope bool_scope.","",
           "Inductive trace_region := TD | TC | TAB.","",
           "Record trace_loop := {","  tl_function : string; tl_region : trace_region;",
           "  tl_diag : Z; tl_left : Z; tl_up : Z;          (* read offsets relative to wpsi: previous row, current row, previous row *)",
           "  tl_w_diag : Z; tl_w_left : Z; tl_w_up : Z;    (* change of wpsi on a diagonal / left / up move *)",
           "  tl_decision : string }.","","Definition trace_loops : list trace_loop := ["]
    rows=[]
    for r in res:
        rows.append('  {| tl_function := "%s"; tl_region := T%s; tl_diag := (%d); tl_left := (%d); tl_up := (%d);\n     tl_w_diag := (%d); tl_w_left := (%d); tl_w_up := (%d); tl_decision := "%s" |}'%(
            r["fn"],r["region"],r["diag"],r["left"],r["up"],r["w_diag"],r["w_left"],r["w_up"],r["decision"]))
    lines.append(";\n".join(rows)); lines.append("].")
    lines.append("")
    lines.append("(* dtw_best_path: wpsi before the loops (rip = l1, cip = l2) *)")
    lines.append("Definition c_trace_init_wpsi (l2 window ldiff ldiffr ldiffc ri2 ri3 : Z) : Z := %s."%analyse_trace_init())
    lines.append("")
    lines.append(analyse_trace_end())
    return "\n".join(lines)+"\n"


FV_PINS = os.path.join(os.path.dirname(os.path.abspath(__file__)), "expected_fv.json")


# ---------------------------------------------------------------- dtw_wps_loc / dtw_wps_loc_columns
LOC_FUNCS=["dtw_wps_loc","dtw_wps_loc_columns"]

def analyse_loc():
    txt=canon_c(strip_comments(open(os.path.join(REPO,"src/DTAIDistanceC/DTAIDistanceC/dd_dtw.c")).read()))
    res=[]
    for fn in LOC_FUNCS:
        m=re.search(r"^idx_t\s+%s\s*\(([^;{}]*?)\)\s*\{"%re.escape(fn),txt,flags=re.M|re.S)
        if not m: raise TranslateError("function %s not found"%fn)
        st=m.end()-1; body=txt[st:match_brace(txt,st)+1]
        body=body.replace("p->","p.")
        if len(re.findall(r"idx_t ri_width=p\.width;",body))!=1: raise TranslateError(fn+": ri_width is not initialised with p.width")
        loops=[]
        for m2 in re.finditer(r"for\s*\(\s*ri\s*=\s*([^;]+);\s*ri\s*<\s*([^;]+);\s*ri\+\+\s*\)\s*\{",body):
            d=body[:m2.start()].count("{")-body[:m2.start()].count("}")
            if d!=1: continue
            b=m2.end()-1; loops.append((m2.start(),b,match_brace(body,b),m2.group(1),m2.group(2)))
        want=[("1","p.ri1+1"),("p.ri1+1","p.ri2+1"),("p.ri2+1","p.ri3+1"),("p.ri3+1","l1+1")]
        if [(l[3],l[4]) for l in loops]!=want: raise TranslateError("%s: row loops %s"%(fn,[(l[3],l[4]) for l in loops]))
        prev_end=body.index("idx_t ri_width=p.width;")+len("idx_t ri_width=p.width;")
        for R,(s,b,e,lo,hi) in zip("ABCD",loops):
            where="%s region %s"%(fn,R)
            pre=body[prev_end:s]
            # a second `ri_width = p.width;` before region A is harmless
            pre=pre.replace("ri_width=p.width;","")
            global TRACKED
            old = TRACKED
            TRACKED = ("min_ci", "max_ci", "wpsi_start")
            try:
                state = exec_block(pre, {}, where)
            finally:
                TRACKED = old
            inner=body[b+1:e]
            d1=depth1(inner)
            incs=set(re.findall(r"\b(min_ci|max_ci|wpsi_start)\+\+;",d1))
            if len(re.findall(r"\bri_width\+=p\.width;",d1))!=1: raise TranslateError(where+": ri_width is not advanced by p.width")
            ws=re.findall(r"\bwpsi=([^;]+);",d1)
            if fn=="dtw_wps_loc_columns" and not ws: ws=["0"]
            if len(ws)!=1 or ws[0] not in ("0","wpsi_start-1"): raise TranslateError(where+": wpsi initialised with %s"%ws)
            w0="0" if ws[0]=="0" else "(%s - 1)"%state.get("wpsi_start")
            if fn=="dtw_wps_loc":
                if len(re.findall(r"\bci=min_ci;",d1))!=1: raise TranslateError(where+": ci = min_ci")
                mc=re.search(r"for\(;ci<max_ci;ci\+\+\)\{if\(ri==r&&ci==c\)\{return ri_width\+wpsi;\}wpsi\+\+;\}",canon_c(inner).replace("\n",""))
                if not mc: raise TranslateError(where+": cell loop")
            else:
                ret=re.search(r"if\(ri==r\)\{\*cb=min_ci;\*ce=max_ci;return ri_width(\+wpsi)?;\}",canon_c(inner).replace("\n",""))
                if not ret: raise TranslateError(where+": return")
                # `return ri_width` is only right when wpsi is 0
                if ret.group(1) is None and ws[0]!="0": raise TranslateError(where+": returns ri_width although wpsi != 0")
            res.append({"fn":fn,"region":R,"min0":state.get("min_ci"),"max0":state.get("max_ci"),"w0":w0,
                        "dmin":1 if "min_ci" in incs else 0,"dmax":1 if "max_ci" in incs else 0,
                        "dw":1 if ("wpsi_start" in incs and ws[0]!="0") else 0})
            prev_end=e+1
    return res

def emit_loc(res):
    lines=["(* GENERATED by tools/translate_c.py from src/DTAIDistanceC/DTAIDistanceC/dd_dtw.c -- do not edit *)",
           "(* dtw_wps_loc / dtw_wps_loc_columns: the four row regions (matrix coordinates: row r = data row r-1, column 0 = border) *)",
           "From Coq Require Import ZArith Bool String List.","From DVGen Require Import Gen_cfill.","Import ListNotations.","Open Scope Z_scope.","",
           "Record loc_region := {","  lr_function : string; lr_region : region_id;",
           "  lr_min0 : Z -> Z -> Z -> Z -> Z -> Z -> Z -> Z;","  lr_max0 : Z -> Z -> Z -> Z -> Z -> Z -> Z -> Z;",
           "  lr_w0 : Z -> Z -> Z -> Z -> Z -> Z -> Z -> Z;","  lr_dmin : Z; lr_dmax : Z; lr_dw : Z }.","",
           "Definition loc_regions : list loc_region := ["]
    A="fun l2 window ldiff ldiffr ldiffc ri2 ri3 => "
    rows=[]
    for r in res:
        rows.append('  {| lr_function := "%s"; lr_region := R%s;\n     lr_min0 := %s%s;\n     lr_max0 := %s%s;\n     lr_w0 := %s%s;\n     lr_dmin := %d; lr_dmax := %d; lr_dw := %d |}'%(
            r["fn"],r["region"],A,r["min0"],A,r["max0"],A,r["w0"],r["dmin"],r["dmax"],r["dw"]))
    lines.append(";\n".join(rows)); lines.append("].")
    return "\n".join(lines)+"\n"


def check_fv(defs):
    """The generated definitions take their free C variables as POSITIONAL parameters (sorted by name), and the
    theorems apply them positionally: a C expression that suddenly mentions another variable of the same kind
    (`skipp` for `skip`) would be alpha-equivalent and slip through.  The names are therefore pinned
    (tools/expected_fv.json, written once from the tree on which the theorems were proved)."""
    import json
    pins = json.load(open(FV_PINS)) if os.path.exists(FV_PINS) else None
    if os.environ.get("VERIF_WRITE_FV_PINS") == "1":
        pins = pins or {}
        for name, fv, e in defs:
            pins[name] = list(fv)
        json.dump(pins, open(FV_PINS, "w"), indent=1, sort_keys=True)
        return
    if pins is None:
        raise TranslateError("tools/expected_fv.json is missing")
    for name, fv, e in defs:
        if name not in pins:
            raise TranslateError("definition %s has no pinned variable list" % name)
        if list(fv) != pins[name]:
            raise TranslateError("%s: free variables %s, expected %s" % (name, list(fv), pins[name]))


# ---------------------------------------------------------------- the expand loops
EXPAND_FUNCS=["dtw_expand_wps_slice","dtw_expand_wps_slice_affinity"]

def norm(t): return re.sub(r"\s+","",t)

def exec_block2(text,state,where,tracked):
    global TRACKED
    old = TRACKED
    TRACKED = tracked
    try:
        # support  X += E
        text = re.sub(r"\b(%s)\s*\+=\s*([^;]+);" % "|".join(tracked),
                      lambda m: "%s = %s + (%s);" % (m.group(1), m.group(1), m.group(2)), text)
        return exec_block(text, state, where)
    finally:
        TRACKED = old

def analyse_expand():
    txt=canon_c(strip_comments(open(os.path.join(REPO,"src/DTAIDistanceC/DTAIDistanceC/dd_dtw.c")).read()))
    res=[]
    for fn in EXPAND_FUNCS:
        m=re.search(r"^void\s+%s\s*\(([^;{}]*?)\)\s*\{"%re.escape(fn),txt,flags=re.M|re.S)
        if not m: raise TranslateError("function %s not found"%fn)
        st=m.end()-1; body=txt[st:match_brace(txt,st)+1]
        nb=norm(body)
        # prologue: the clipped slice bounds
        for v,src in (("rbs","rb"),("res","re"),("cbs","cb"),("ces","ce")):
            if "idx_t%s=0;if(%s>0){%s=%s-1;}"%(v,src,v,src) not in nb: raise TranslateError("%s: %s is not max(%s-1,0)"%(fn,v,src))
        if "idx_tfwidth=ce-cb;" not in nb: raise TranslateError(fn+": fwidth")
        if not re.search(r"for\(idx_ti=0;i<\(re-rb\)\*\(ce-cb\);i\+\+\)\{full\[i\]=-?INFINITY;\}",nb): raise TranslateError(fn+": initial fill")
        if "if(rb==0&&cb==0){full[0]=wps[0];}" not in nb: raise TranslateError(fn+": corner")
        mt=re.search(r"if\(rb==0\)\{wpsi=1\+cbs;for\(ci=cbs;ci<MIN3\(ces,p\.width-1,l2\);ci\+\+\)\{full\[ci\+1-cb\]=wps\[wpsi\];wpsi\+\+;\}\}",nb)
        if not mt: raise TranslateError(fn+": top row")
        # every index expression
        fidx=sorted(set(norm(x) for x in re.findall(r"full\[([^\]]+)\]",body)))
        widx=sorted(set(norm(x) for x in re.findall(r"wps\[([^\]]+)\]",body)))
        okf={"i","0","ci+1-cb","fwidth*(ri+1-rb)","(ri+1-rb)*fwidth+ci+1-cb","(ri+1-rb)*fwidth+min_ci-cb"}
        okw={"0","wpsi","p.width*(ri+1)","(ri+1)*p.width+wpsi","(ri+1)*p.width+0"}
        if set(fidx)-okf: raise TranslateError("%s: index full[%s]"%(fn,sorted(set(fidx)-okf)))
        if set(widx)-okw: raise TranslateError("%s: index wps[%s]"%(fn,sorted(set(widx)-okw)))
        # the row loops
        loops=[]
        for m2 in re.finditer(r"for\s*\(\s*ri\s*=\s*([^;]+);\s*ri\s*<\s*([^;]+);\s*ri\+\+\s*\)\s*\{",body):
            b=m2.end()-1; e=match_brace(body,b)
            loops.append((m2.start(),b,e,norm(m2.group(1)),norm(m2.group(2))))
        want=[("rbs","MIN(res,p.ri1)"),("MAX(rbs,p.ri1)","MIN(res,p.ri2)"),("MAX(rbs,p.ri2)","MIN(res,p.ri3)"),("MAX(rbs,p.ri3)","MIN(res,l1)")]
        if [(l[3],l[4]) for l in loops]!=want: raise TranslateError("%s: row loops %s"%(fn,[(l[3],l[4]) for l in loops]))
        prev_end=body.index("wpsi++;",0)  # end of the top row part
        prev_end=body.index("}",body.index("}",prev_end)+1)  # closes the for and the if(rb == 0)
        state={}
        for R,(s,b,e,lo,hi) in zip("ABCD",loops):
            where="%s region %s"%(fn,R)
            pre=body[prev_end+1:s]
            # region A sits inside `if (rbs < p.ri1) {`, B in `if (rbs < p.ri2) {`, C in `if (rbs < p.ri3) {`: guards that only skip the loop
            pre2=re.sub(r"if\s*\(\s*rbs\s*<\s*p\.ri[123]\s*\)\s*\{","",pre)
            pre2=pre2.replace("}","") if R in "A" else pre2
            # drop unmatched closing braces left over from the previous region's guard
            depth=0; out=[]
            for ch in pre2:
                if ch=="{": depth+=1; out.append(ch)
                elif ch=="}":
                    if depth>0: depth-=1; out.append(ch)
                else: out.append(ch)
            pre2="".join(out)
            state=exec_block2(pre2,{},where,("min_ci","max_ci","wpsi_start"))
            inner=body[b+1:e]
            d1=depth1(inner)
            incs=set(re.findall(r"\b(min_ci|max_ci|wpsi_start)\s*\+\+\s*;",d1))
            ni=norm(inner)
            mw=re.search(r"if\(cbs<=min_ci\)\{wpsi=(1|wpsi_start);\}else\{wpsi=(1|wpsi_start)\+\(cbs-min_ci\);\}",ni)
            if not mw or mw.group(1)!=mw.group(2): raise TranslateError(where+": wpsi start")
            K=mw.group(1)
            mc=re.search(r"for\(ci=MAX\(cbs,min_ci\);ci<MIN\(ces,(max_ci|l2)\);ci\+\+\)\{full\[\(ri\+1-rb\)\*fwidth\+ci\+1-cb\]=wps\[\(ri\+1\)\*p\.width\+wpsi\];wpsi\+\+;\}",ni)
            if not mc: raise TranslateError(where+": cell loop")
            hi_var=mc.group(1)
            col0="if(cb==0){full[fwidth*(ri+1-rb)]=wps[p.width*(ri+1)];}" in ni
            cslot0="if(cb<=min_ci&&min_ci<ce){full[(ri+1-rb)*fwidth+min_ci-cb]=wps[(ri+1)*p.width+0];}" in ni
            rest=ni
            for piece in (mw.group(0),mc.group(0),"if(cb==0){full[fwidth*(ri+1-rb)]=wps[p.width*(ri+1)];}","if(cb<=min_ci&&min_ci<ce){full[(ri+1-rb)*fwidth+min_ci-cb]=wps[(ri+1)*p.width+0];}","min_ci++;","max_ci++;","wpsi_start++;"):
                rest=rest.replace(piece,"")
            if rest: raise TranslateError(where+": unexpected statements %r"%rest[:80])
            res.append({"fn":fn,"region":R,"min0":state.get("min_ci"),"max0":state.get("max_ci") if hi_var=="max_ci" else "l2",
                        "w0":"1" if K=="1" else state.get("wpsi_start"),
                        "dmin":1 if "min_ci" in incs else 0,"dmax":1 if ("max_ci" in incs and hi_var=="max_ci") else 0,
                        "dw":1 if ("wpsi_start" in incs and K=="wpsi_start") else 0,"col0":col0,"cslot0":cslot0})
            prev_end=e
    return res

def emit_expand(res):
    lines=["(* GENERATED by tools/translate_c.py from src/DTAIDistanceC/DTAIDistanceC/dd_dtw.c -- do not edit *)",
           "(* the four row regions of dtw_expand_wps_slice / dtw_expand_wps_slice_affinity *)",
           "From Coq Require Import ZArith Bool String List.","From DVGen Require Import Gen_cfill.","Import ListNotations.","Open Scope Z_scope.","",
           "Record expand_region := {","  er_function : string; er_region : region_id;",
           "  (* arguments: l2 window ldiff ldiffr ldiffc ri2 ri3 rbs ces *)",
           "  er_min0 : Z -> Z -> Z -> Z -> Z -> Z -> Z -> Z -> Z -> Z;",
           "  er_max0 : Z -> Z -> Z -> Z -> Z -> Z -> Z -> Z -> Z -> Z;",
           "  er_w0 : Z -> Z -> Z -> Z -> Z -> Z -> Z -> Z -> Z -> Z;",
           "  er_dmin : Z; er_dmax : Z; er_dw : Z; er_col0 : bool; er_cslot0 : bool }.","",
           "Definition expand_regions : list expand_region := ["]
    rows=[]
    A="fun l2 window ldiff ldiffr ldiffc ri2 ri3 rbs ces => "
    for r in res:
        rows.append('  {| er_function := "%s"; er_region := R%s;\n     er_min0 := %s%s;\n     er_max0 := %s%s;\n     er_w0 := %s%s;\n     er_dmin := %d; er_dmax := %d; er_dw := %d; er_col0 := %s; er_cslot0 := %s |}'%(
            r["fn"],r["region"],A,r["min0"],A,r["max0"],A,r["w0"],r["dmin"],r["dmax"],r["dw"],str(r["col0"]).lower(),str(r["cslot0"]).lower()))
    lines.append(";\n".join(rows)); lines.append("].")
    return "\n".join(lines)+"\n"


# ---------------------------------------------------------------- whole C functions (tools/cfun.py)
CDIST_FUNCS = [("dtw_distance", False), ("dtw_distance_ndim", True), ("dtw_distance_euclidean", False),
               ("dtw_distance_ndim_euclidean", True)]


def emit_cdist():
    import cfun
    d = os.path.join(REPO, "src/DTAIDistanceC/DTAIDistanceC")
    src = open(os.path.join(d, "dd_dtw.c")).read()
    hdr = open(os.path.join(d, "dd_dtw.h")).read()
    alld = []
    try:
        for fn, nd in CDIST_FUNCS:
            b = {"s1": "l1 * ndim", "s2": "l2 * ndim"} if nd else {"s1": "l1", "s2": "l2"}
            alld.extend(cfun.translate_function(src, hdr, fn, b))
    except cfun.TranslateError as exc:
        raise TranslateError("cfun: %s" % exc)
    check_fv([(name, [p for p, _ in params], text) for name, params, ret, text in alld])
    return ("(* GENERATED by tools/translate_c.py (tools/cfun.py) from src/DTAIDistanceC/DTAIDistanceC/dd_dtw.c -- do not edit *)\n"
            "(* the four dtw_distance* kernels translated WHOLE: one definition per function, one per loop body *)\n"
            "From Coq Require Import ZArith Bool List.\nFrom DV Require Import Prelude Cost CLang.\nImport ListNotations.\n"
            "Open Scope Z_scope.\nOpen Scope bool_scope.\n\n" + cfun.render(alld))


CED_FUNCS = [("dd_ed.c", "euclidean_distance_squared", False), ("dd_ed.c", "euclidean_distance", False),
             ("dd_ed.c", "euclidean_distance_euclidean", False), ("dd_ed.c", "euclidean_distance_ndim_squared", True),
             ("dd_ed.c", "euclidean_distance_ndim", True), ("dd_ed.c", "euclidean_distance_ndim_euclidean", True),
             ("dd_dtw.c", "ub_euclidean", False), ("dd_dtw.c", "ub_euclidean_ndim", True),
             ("dd_dtw.c", "ub_euclidean_euclidean", False), ("dd_dtw.c", "ub_euclidean_ndim_euclidean", True)]


def emit_ced():
    import cfun
    d = os.path.join(REPO, "src/DTAIDistanceC/DTAIDistanceC")
    hdr = open(os.path.join(d, "dd_dtw.h")).read()
    alld = []
    try:
        for f, fn, nd in CED_FUNCS:
            b = {"s1": "l1 * ndim", "s2": "l2 * ndim"} if nd else {"s1": "l1", "s2": "l2"}
            alld.extend(cfun.translate_function(open(os.path.join(d, f)).read(), hdr, fn, b))
    except cfun.TranslateError as exc:
        raise TranslateError("cfun: %s" % exc)
    check_fv([(name, [p for p, _ in params], text) for name, params, ret, text in alld])
    return ("(* GENERATED by tools/translate_c.py (tools/cfun.py) from dd_ed.c and dd_dtw.c -- do not edit *)\n"
            "(* the Euclidean distance / upper bound routines translated WHOLE *)\n"
            "From Coq Require Import ZArith Bool List.\nFrom DV Require Import Prelude Cost CLang.\nImport ListNotations.\n"
            "Open Scope Z_scope.\nOpen Scope bool_scope.\n\n" + cfun.render(alld))


CWPSK_FUNCS = ["dtw_warping_paths_ndim", "dtw_warping_paths_ndim_euclidean"]


def emit_cwpsk():
    """the two kernels that fill the compact warping-paths array (the 1-D entry points call them with ndim = 1)"""
    import cfun
    d = os.path.join(REPO, "src/DTAIDistanceC/DTAIDistanceC")
    src = open(os.path.join(d, "dd_dtw.c")).read()
    hdr = open(os.path.join(d, "dd_dtw.h")).read()
    alld = []
    try:
        for fn in CWPSK_FUNCS:
            alld.extend(cfun.translate_function(src, hdr, fn, {"s1": "l1 * ndim", "s2": "l2 * ndim", "wps": "wps_len"},
                                                {"wps": "wps_len"}))
    except cfun.TranslateError as exc:
        raise TranslateError("cfun: %s" % exc)
    check_fv([(name, [p for p, _ in params], text) for name, params, ret, text in alld])
    return ("(* GENERATED by tools/translate_c.py (tools/cfun.py) from src/DTAIDistanceC/DTAIDistanceC/dd_dtw.c -- do not edit *)\n"
            "(* the kernels that fill the compact warping-paths array, translated WHOLE; wps_len = number of cells of the\n"
            "   caller's buffer; p_* = the members of the struct dtw_wps_parts returned; call_dtw_wps_shift = dtw_wps_shift(&p, .) *)\n"
            "From Coq Require Import ZArith Bool List.\nFrom DV Require Import Prelude Cost CLang.\nImport ListNotations.\n"
            "Open Scope Z_scope.\nOpen Scope bool_scope.\n\n" + cfun.render(alld))


def emit_cexpw():
    """dtw_expand_wps_slice (compact array -> block of the full matrix), translated WHOLE"""
    import cfun
    d = os.path.join(REPO, "src/DTAIDistanceC/DTAIDistanceC")
    src = open(os.path.join(d, "dd_dtw.c")).read()
    hdr = open(os.path.join(d, "dd_dtw.h")).read()
    try:
        alld = cfun.translate_function(src, hdr, "dtw_expand_wps_slice", {"wps": "wps_len", "full": "full_len"},
                                       {"full": "full_len"}, ["wps_len"], ["wps"])
    except cfun.TranslateError as exc:
        raise TranslateError("cfun: %s" % exc)
    check_fv([(name, [p for p, _ in params], text) for name, params, ret, text in alld])
    return ("(* GENERATED by tools/translate_c.py (tools/cfun.py) from src/DTAIDistanceC/DTAIDistanceC/dd_dtw.c -- do not edit *)\n"
            "(* dtw_expand_wps_slice translated WHOLE; wps_len / full_len = number of cells of the compact array and of the\n"
            "   caller's output block; p_* = the members of the struct dtw_wps_parts returned *)\n"
            "From Coq Require Import ZArith Bool List.\nFrom DV Require Import Prelude Cost CLang.\nImport ListNotations.\n"
            "Open Scope Z_scope.\nOpen Scope bool_scope.\n\n" + cfun.render(alld))


def emit_cparts():
    """dtw_wps_parts (decoding of the settings struct + geometry of the compact layout), translated WHOLE"""
    import cfun
    d = os.path.join(REPO, "src/DTAIDistanceC/DTAIDistanceC")
    src = open(os.path.join(d, "dd_dtw.c")).read()
    hdr = open(os.path.join(d, "dd_dtw.h")).read()
    try:
        alld = cfun.translate_function(src, hdr, "dtw_wps_parts", {})
    except cfun.TranslateError as exc:
        raise TranslateError("cfun: %s" % exc)
    check_fv([(name, [p for p, _ in params], text) for name, params, ret, text in alld])
    return ("(* GENERATED by tools/translate_c.py (tools/cfun.py) from src/DTAIDistanceC/DTAIDistanceC/dd_dtw.c -- do not edit *)\n"
            "(* dtw_wps_parts translated WHOLE: the struct it returns is the tuple of its members in the order of the\n"
            "   definition of DTWWps_s in dd_dtw.h *)\n"
            "From Coq Require Import ZArith Bool List.\nFrom DV Require Import Prelude Cost CLang.\nImport ListNotations.\n"
            "Open Scope Z_scope.\nOpen Scope bool_scope.\n\n" + cfun.render(alld))


def write_gen(outdir, fname, text):
    os.makedirs(outdir, exist_ok=True)
    p = os.path.join(outdir, fname)
    old = open(p).read() if os.path.exists(p) else None
    if old != text:
        open(p, "w").write(text)


def coq_str_list(xs):
    return "[" + "; ".join('"%s"' % x for x in xs) + "]"


def _main():
    outdir = sys.argv[1] if len(sys.argv) > 1 else "/verif/coq/gen"
    write_gen(outdir, "Gen_cdist.v", emit_cdist())
    write_gen(outdir, "Gen_ced.v", emit_ced())
    write_gen(outdir, "Gen_cwpsk.v", emit_cwpsk())
    write_gen(outdir, "Gen_cexpw.v", emit_cexpw())
    write_gen(outdir, "Gen_cparts.v", emit_cparts())
    try:
        text = emit_loc(analyse_loc())
    except (TranslateError, OSError) as exc:
        print("TRANSLATE-ERROR: translate_c: %s" % exc)
        sys.exit(2)
    os.makedirs(outdir, exist_ok=True)
    p = os.path.join(outdir, "Gen_cloc.v")
    old = open(p).read() if os.path.exists(p) else None
    if old != text:
        open(p, "w").write(text)
    try:
        text = emit_expand(analyse_expand())
    except (TranslateError, OSError) as exc:
        print("TRANSLATE-ERROR: translate_c: %s" % exc)
        sys.exit(2)
    os.makedirs(outdir, exist_ok=True)
    p = os.path.join(outdir, "Gen_cexpand.v")
    old = open(p).read() if os.path.exists(p) else None
    if old != text:
        open(p, "w").write(text)
    try:
        text = emit_trace(analyse_trace())
    except (TranslateError, OSError) as exc:
        print("TRANSLATE-ERROR: translate_c: %s" % exc)
        sys.exit(2)
    os.makedirs(outdir, exist_ok=True)
    p = os.path.join(outdir, "Gen_ctrace.v")
    old = open(p).read() if os.path.exists(p) else None
    if old != text:
        open(p, "w").write(text)
    try:
        text = emit_fill(analyse_fill())
    except (TranslateError, OSError) as exc:
        print("TRANSLATE-ERROR: translate_c: %s" % exc)
        sys.exit(2)
    os.makedirs(outdir, exist_ok=True)
    p = os.path.join(outdir, "Gen_cfill.v")
    old = open(p).read() if os.path.exists(p) else None
    if old != text:
        open(p, "w").write(text)
    try:
        writers, callers, seen = analyse_settings_writers()
    except (TranslateError, OSError) as exc:
        print("TRANSLATE-ERROR: translate_c: %s" % exc)
        sys.exit(2)
    text = "\n".join([
        "(* GENERATED by tools/translate_c.py from dd_dtw.c, dd_dtw_openmp.c, dd_ed.c -- do not edit *)",
        "From Coq Require Import String List.", "Import ListNotations.", "Open Scope string_scope.", "",
        "(* functions that store through a DTWSettings* parameter, and functions that call one of them *)",
        "Definition settings_writers : list string := %s." % coq_str_list(writers),
        "Definition settings_writer_callers : list string := %s." % coq_str_list(callers),
        "Definition settings_functions_seen : nat := %d." % seen]) + "\n"
    os.makedirs(outdir, exist_ok=True)
    p = os.path.join(outdir, "Gen_creent.v")
    old = open(p).read() if os.path.exists(p) else None
    if old != text:
        open(p, "w").write(text)
    try:
        loops = analyse()
    except (TranslateError, OSError) as exc:
        print("TRANSLATE-ERROR: translate_c: %s" % exc)
        sys.exit(2)
    lines = ["(* GENERATED by tools/translate_c.py from %s -- do not edit *)" % SRC,
             "From Coq Require Import String List.", "Import ListNotations.", "Open Scope string_scope.", "",
             "Record omp_loop := { ol_function : string; ol_private : list string; ol_schedule : string;",
             "                     ol_assigned_outer : list string; ol_indexed_stores : list string }.", "",
             "Definition omp_loops : list omp_loop := ["]
    rows = []
    for l in loops:
        rows.append('  {| ol_function := "%s"; ol_private := %s; ol_schedule := "%s";\n     ol_assigned_outer := %s; '
                    'ol_indexed_stores := %s |}' % (l["function"], coq_str_list(l["private"]), l["schedule"],
                                                    coq_str_list(l["assigned_outer"]), coq_str_list(l["indexed_stores"])))
    lines.append(";\n".join(rows))
    lines.append("].")
    text = "\n".join(lines) + "\n"
    os.makedirs(outdir, exist_ok=True)
    p = os.path.join(outdir, "Gen_omp.v")
    old = open(p).read() if os.path.exists(p) else None
    if old != text:
        open(p, "w").write(text)
    try:
        defs = analyse_mem()
    except (TranslateError, OSError) as exc:
        print("TRANSLATE-ERROR: translate_c: %s" % exc)
        sys.exit(2)
    lines = ["(* GENERATED by tools/translate_c.py from src/DTAIDistanceC/DTAIDistanceC/dd_dtw.c -- do not edit *)",
             "From Coq Require Import ZArith.", "Open Scope Z_scope.", ""]
    check_fv(defs)
    for name, fv, e in defs:
        lines.append("Definition %s %s : Z := %s." % (name, " ".join("(%s : Z)" % v for v in fv), e))
    text = "\n".join(lines) + "\n"
    p = os.path.join(outdir, "Gen_cmem.v")
    old = open(p).read() if os.path.exists(p) else None
    if old != text:
        open(p, "w").write(text)
    try:
        defs = analyse_dm()
    except (TranslateError, OSError) as exc:
        print("TRANSLATE-ERROR: translate_c: %s" % exc)
        sys.exit(2)
    lines = ["(* GENERATED by tools/translate_c.py from src/DTAIDistanceC/DTAIDistanceC/dd_dtw.c -- do not edit *)",
             "From Coq Require Import ZArith Bool.", "Open Scope Z_scope.", ""]
    check_fv(defs)
    for name, fv, e in defs:
        lines.append("Definition %s %s : Z := %s." % (name, " ".join("(%s : Z)" % v for v in fv), e))
    text = "\n".join(lines) + "\n"
    p = os.path.join(outdir, "Gen_cmatrix.v")
    old = open(p).read() if os.path.exists(p) else None
    if old != text:
        open(p, "w").write(text)
    try:
        defs = analyse_lb()
    except (TranslateError, OSError) as exc:
        print("TRANSLATE-ERROR: translate_c: %s" % exc)
        sys.exit(2)
    lines = ["(* GENERATED by tools/translate_c.py from src/DTAIDistanceC/DTAIDistanceC/dd_dtw.c -- do not edit *)",
             "From Coq Require Import ZArith Bool.", "Open Scope Z_scope.", ""]
    check_fv(defs)
    for name, fv, e in defs:
        lines.append("Definition %s %s : Z := %s." % (name, " ".join("(%s : Z)" % v for v in fv), e))
    text = "\n".join(lines) + "\n"
    p = os.path.join(outdir, "Gen_clb.v")
    old = open(p).read() if os.path.exists(p) else None
    if old != text:
        open(p, "w").write(text)
    try:
        defs = analyse_wps_parts()
    except (TranslateError, OSError) as exc:
        print("TRANSLATE-ERROR: translate_c: %s" % exc)
        sys.exit(2)
    lines = ["(* GENERATED by tools/translate_c.py from src/DTAIDistanceC/DTAIDistanceC/dd_dtw.c -- do not edit *)",
             "From Coq Require Import ZArith Bool.", "Open Scope Z_scope.", ""]
    check_fv(defs)
    for name, fv, e in defs:
        lines.append("Definition %s %s : Z := %s." % (name, " ".join("(%s : Z)" % v for v in fv), e))
    text = "\n".join(lines) + "\n"
    p = os.path.join(outdir, "Gen_cwps.v")
    old = open(p).read() if os.path.exists(p) else None
    if old != text:
        open(p, "w").write(text)
    try:
        defs = analyse_omp_index()
    except (TranslateError, OSError) as exc:
        print("TRANSLATE-ERROR: translate_c: %s" % exc)
        sys.exit(2)
    lines = ["(* GENERATED by tools/translate_c.py from %s -- do not edit *)" % SRC,
             "From Coq Require Import ZArith Bool.", "Open Scope Z_scope.", ""]
    check_fv(defs)
    for name, fv, e in defs:
        lines.append("Definition %s %s : Z := %s." % (name, " ".join("(%s : Z)" % v for v in fv), e))
    text = "\n".join(lines) + "\n"
    p = os.path.join(outdir, "Gen_ompidx.v")
    old = open(p).read() if os.path.exists(p) else None
    if old != text:
        open(p, "w").write(text)
    try:
        rows = analyse_calls()
    except (TranslateError, OSError) as exc:
        print("TRANSLATE-ERROR: translate_c: %s" % exc)
        sys.exit(2)
    lines = ["(* GENERATED by tools/translate_c.py from dd_dtw.c and dd_dtw_openmp.c -- do not edit *)",
             "From Coq Require Import String List Bool.", "Import ListNotations.", "Open Scope string_scope.", "",
             "(* (matrix routine, single-pair routine it calls, first series indexed by the row / second by the column) *)",
             "Definition c_matrix_calls : list (string * string * bool) := ["]
    lines.append(";\n".join('  ("%s", "%s", %s)' % (a, b, "true" if c else "false") for a, b, c in rows))
    lines.append("].")
    text = "\n".join(lines) + "\n"
    p = os.path.join(outdir, "Gen_ccalls.v")
    old = open(p).read() if os.path.exists(p) else None
    if old != text:
        open(p, "w").write(text)
    print("ok")


def main():
    try:
        _main()
    except (TranslateError, OSError) as exc:
        print("TRANSLATE-ERROR: translate_c: %s" % exc)
        sys.exit(2)


if __name__ == "__main__":
    main()
