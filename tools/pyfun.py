#!/usr/bin/env python3
"""Python front end for tools/cfun.py: translates the body of a pure-Python DTW routine (array-in-a-list
style: integer index arithmetic, a flat float buffer, for/if/continue/break) into the same Gallina form as the C
kernels (one definition per function and per loop body, loop-carried tuples from a liveness analysis, a bounds
conjunct in `ok` for every subscript - which in Python also excludes the silent wrap-around of negative
indices - and for every `assert`).  Fail-closed: any construct outside the subset is an error.

Python specifics handled here: `for x in range(..)`, tuple assignments, `min/max/abs/len`, truthiness of numbers,
`x is not None`, slices `a[lo:hi]` (only as the argument of array_min), `array.array('d', [inf] * n)`, the inner
distance call `idist_fn(s1[i], s2[j])` (an oracle function of the two indices), `result_fn(d)` at the return.
"""
import ast
import os
import sys

sys.path.insert(0, os.path.dirname(os.path.abspath(__file__)))
import cfun
from cfun import TranslateError


class Conv:
    """Python ast -> cfun statement / expression nodes"""

    def __init__(self, settings_name, series, oracle_fns):
        self.s = settings_name
        self.series = series          # {"s1": "len_s1", ...}
        self.oracles = oracle_fns     # names of callables treated as oracles
        self.nid = 0

    def new(self, **kw):
        self.nid += 1
        kw["id"] = self.nid
        return kw

    # ---- expressions
    def ex(self, e):
        if isinstance(e, ast.Constant):
            if isinstance(e.value, bool):
                return ("var", "true" if e.value else "false")
            if isinstance(e.value, int):
                return ("num", str(e.value))
            raise TranslateError("constant %r" % (e.value,))
        if isinstance(e, ast.Name):
            if e.id == "inf":
                return ("var", "INFINITY")
            return ("var", e.id)
        if isinstance(e, ast.Attribute):
            if isinstance(e.value, ast.Name) and e.value.id == self.s:
                return ("field", self.s, e.attr)
            raise TranslateError("attribute %s" % ast.dump(e))
        if isinstance(e, ast.Subscript):
            if not isinstance(e.value, ast.Name):
                raise TranslateError("subscript of %s" % ast.dump(e.value))
            if isinstance(e.slice, ast.Tuple):
                if len(e.slice.elts) != 2 or any(isinstance(x, ast.Slice) for x in e.slice.elts):
                    raise TranslateError("subscript %s" % ast.unparse(e))
                return ("idx2", e.value.id, self.ex(e.slice.elts[0]), self.ex(e.slice.elts[1]))
            if isinstance(e.slice, ast.Slice):
                if e.slice.step is not None or e.slice.lower is None or e.slice.upper is None:
                    raise TranslateError("slice with step / open end")
                return ("slice", e.value.id, self.ex(e.slice.lower), self.ex(e.slice.upper))
            return ("idx", e.value.id, self.ex(e.slice))
        if isinstance(e, ast.BinOp):
            op = {ast.Add: "+", ast.Sub: "-", ast.Mult: "*"}.get(type(e.op))
            if op is None:
                raise TranslateError("operator %s" % type(e.op).__name__)
            return ("bin", op, self.ex(e.left), self.ex(e.right))
        if isinstance(e, ast.UnaryOp):
            if isinstance(e.op, ast.Not):
                return ("un", "!", self.ex(e.operand))
            if isinstance(e.op, ast.USub):
                return ("un", "-", self.ex(e.operand))
            raise TranslateError("unary %s" % type(e.op).__name__)
        if isinstance(e, ast.BoolOp):
            op = "&&" if isinstance(e.op, ast.And) else "||"
            out = self.ex(e.values[0])
            for v in e.values[1:]:
                out = ("bin", op, out, self.ex(v))
            return out
        if isinstance(e, ast.Compare):
            if len(e.ops) != 1:
                raise TranslateError("chained comparison")
            o, r = e.ops[0], e.comparators[0]
            if isinstance(o, ast.IsNot) and isinstance(r, ast.Constant) and r.value is None:
                return ("isnotnone", self.ex(e.left))
            op = {ast.Lt: "<", ast.Gt: ">", ast.LtE: "<=", ast.GtE: ">=", ast.Eq: "==", ast.NotEq: "!="}.get(type(o))
            if op is None:
                raise TranslateError("comparison %s" % type(o).__name__)
            return ("bin", op, self.ex(e.left), self.ex(r))
        if isinstance(e, ast.Call):
            if e.keywords:
                raise TranslateError("keyword arguments in %s" % ast.dump(e.func))
            if isinstance(e.func, ast.Name):
                f = e.func.id
                if f in ("min", "max"):
                    return ("call", f.upper(), [self.ex(a) for a in e.args])
                if f == "abs":
                    return ("call", "abs", [self.ex(e.args[0])])
                if f == "len":
                    a = e.args[0]
                    if isinstance(a, ast.Name) and a.id in self.series:
                        return ("var", self.series[a.id])
                    raise TranslateError("len of %s" % ast.dump(a))
                if f in self.oracles or f == "array_min":
                    return ("call", f, [self.ex(a) for a in e.args])
            raise TranslateError("call %s" % ast.dump(e.func))
        raise TranslateError("expression %s" % type(e).__name__)

    # ---- statements
    def block(self, stmts):
        out = []
        for s in stmts:
            out.extend(self.stmt(s))
        return out

    def stmt(self, s):
        if isinstance(s, ast.Expr):
            if isinstance(s.value, ast.Constant) and isinstance(s.value.value, str):
                return []
            raise TranslateError("expression statement %s" % ast.dump(s.value)[:80])
        if isinstance(s, ast.Assert):
            return [self.new(k="assert", c=self.ex(s.test))]
        if isinstance(s, ast.Assign):
            if len(s.targets) != 1:
                raise TranslateError("multiple assignment targets")
            tg = s.targets[0]
            if isinstance(tg, ast.Tuple):
                names = [x.id for x in tg.elts if isinstance(x, ast.Name)]
                if len(names) != len(tg.elts):
                    raise TranslateError("tuple target")
                v = s.value
                if isinstance(v, ast.Call) and isinstance(v.func, ast.Attribute) and isinstance(v.func.value, ast.Name) \
                        and v.func.value.id == self.s and v.func.attr == "split_psi" and not v.args:
                    want = ["psi_1b", "psi_1e", "psi_2b", "psi_2e"]
                    if names != want:
                        raise TranslateError("split_psi() unpacked into %s" % names)
                    return [self.new(k="assign", lhs=("var", n), e=("field", self.s, n)) for n in names]
                if isinstance(v, ast.Tuple) and len(v.elts) == len(names):
                    es = [self.ex(x) for x in v.elts]
                    for e in es:
                        if cfun.uses(e) & set(names):
                            raise TranslateError("simultaneous assignment that reads its own targets")
                    return [self.new(k="assign", lhs=("var", n), e=e) for n, e in zip(names, es)]
                raise TranslateError("tuple assignment from %s" % ast.dump(v)[:60])
            if isinstance(tg, ast.Name):
                v = s.value
                # array.array('d', [inf] * n)
                if isinstance(v, ast.Call) and isinstance(v.func, ast.Attribute) and v.func.attr == "array" \
                        and isinstance(v.func.value, ast.Name) and v.func.value.id == "array":
                    if len(v.args) != 2 or not (isinstance(v.args[0], ast.Constant) and v.args[0].value == "d"):
                        raise TranslateError("array.array of another type")
                    a = v.args[1]
                    if not (isinstance(a, ast.BinOp) and isinstance(a.op, ast.Mult) and isinstance(a.left, ast.List)
                            and len(a.left.elts) == 1):
                        raise TranslateError("array.array initialiser")
                    return [self.new(k="alloc", name=tg.id, size=self.ex(a.right), fill=self.ex(a.left.elts[0]))]
                # np.full((rows, cols), inf)
                if isinstance(v, ast.Call) and ast.unparse(v.func) == "np.full":
                    if len(v.args) != 2 or v.keywords or not isinstance(v.args[0], ast.Tuple) or len(v.args[0].elts) != 2:
                        raise TranslateError("np.full form")
                    return [self.new(k="alloc", name=tg.id, size=("bin", "*", self.ex(v.args[0].elts[0]), self.ex(v.args[0].elts[1])),
                                     fill=self.ex(v.args[1]), rows=self.ex(v.args[0].elts[0]), cols=self.ex(v.args[0].elts[1]))]
                return [self.new(k="assign", lhs=("var", tg.id), e=self.ex(v))]
            if isinstance(tg, ast.Subscript):
                lhs = self.ex(tg)
                if lhs[0] not in ("idx", "idx2"):
                    raise TranslateError("store into a slice")
                return [self.new(k="assign", lhs=lhs, e=self.ex(s.value))]
            raise TranslateError("assignment target %s" % type(tg).__name__)
        if isinstance(s, ast.AugAssign):
            if not isinstance(s.target, ast.Name):
                raise TranslateError("augmented assignment target")
            op = {ast.Add: "+", ast.Sub: "-"}.get(type(s.op))
            if op is None:
                raise TranslateError("augmented operator")
            return [self.new(k="assign", lhs=("var", s.target.id), e=("bin", op, ("var", s.target.id), self.ex(s.value)))]
        if isinstance(s, ast.If):
            return [self.new(k="if", c=self.ex(s.test), a=self.block(s.body), b=self.block(s.orelse))]
        if isinstance(s, ast.For):
            if s.orelse or not isinstance(s.target, ast.Name):
                raise TranslateError("for loop form")
            it = s.iter
            if not (isinstance(it, ast.Call) and isinstance(it.func, ast.Name) and it.func.id == "range"
                    and 1 <= len(it.args) <= 2 and not it.keywords):
                raise TranslateError("for loop over something else than range(a[, b])")
            lo = ("num", "0") if len(it.args) == 1 else self.ex(it.args[0])
            hi = self.ex(it.args[-1])
            return [self.new(k="for", v=s.target.id, lo=lo, hi=hi, body=self.block(s.body), declared=True)]
        if isinstance(s, ast.Continue):
            return [self.new(k="continue")]
        if isinstance(s, ast.Break):
            return [self.new(k="break")]
        if isinstance(s, ast.Return):
            return [self.new(k="return", e=self.ex(s.value))]
        raise TranslateError("statement %s" % type(s).__name__)


class PyEmitter(cfun.Emitter):
    cost_min_ok = True

    def __init__(self, fname, params, stmts, fields, in_bounds, var_types, result_fn, idist_fn, ret_oracles):
        self.result_fn = result_fn
        self.idist_fn = idist_fn
        self.ret_oracles = ret_oracles
        super().__init__(fname, params, stmts, fields, in_bounds)
        self.types.update(var_types)

    def nm(self, v):
        return cfun.RESERVED.get(v, v) if v in ("in", "end", "at", "as", "fix", "let") else v

    def ex_extra(self, e, want):
        k = e[0]
        if k == "isnotnone":
            if e[1][0] != "field":
                raise TranslateError("'is not None' on something else than a settings field")
            return self.fld(e[1][2] + "_is_some"), "bool", []
        if k == "call" and e[1] == self.idist_fn:
            a, b = e[2]
            if a[0] != "idx" or b[0] != "idx" or self.types.get(a[1]) != "in" or self.types.get(b[1]) != "in":
                raise TranslateError("inner distance of something else than two series elements")
            ia, _, oa = self.ex(a[2], "Z")
            ib, _, ob = self.ex(b[2], "Z")
            la, _, _ = self.ex(self.in_bounds[a[1]], "Z")
            lb, _, _ = self.ex(self.in_bounds[b[1]], "Z")
            self.used_calls[self.idist_fn] = "fn"
            return "(call_%s %s %s)" % (self.idist_fn, ia, ib), "cost", oa + ob + [(la, ia), (lb, ib)]
        if k == "call" and e[1] == "array_min":
            a = e[2][0]
            if a[0] == "var" and self.types.get(a[1]) == "slice":
                return "(cmin_list %s)" % a[1], "cost", []
            raise TranslateError("array_min of something else than a slice variable")
        if k == "idx2":
            ix, obl = self.idx2(e)
            return "(aget %s %s)" % (e[1], ix), "cost", obl
        if k == "slice":
            if self.types.get(e[1]) != "arr":
                raise TranslateError("slice of %s" % e[1])
            lo, _, o1 = self.ex(e[2], "Z")
            hi, _, o2 = self.ex(e[3], "Z")
            return "(aslice %s %s %s)" % (e[1], lo, hi), "slice", o1 + o2 + [("slice:" + e[1] + "_len", "%s %s" % (lo, hi))]
        if k == "call" and e[1] in self.ret_oracles:
            self.used_calls[e[1]] = "val"
            return "call_" + e[1], "cost", []
        return None

    def idx2(self, e):
        a = e[1]
        if self.types.get(a) != "arr2":
            raise TranslateError("2-D subscript of %s" % a)
        i, _, o1 = self.ex(e[2], "Z")
        j, _, o2 = self.ex(e[3], "Z")
        return "((%s * %s_cols) + %s)" % (i, a, j), o1 + o2 + [(a + "_rows", i), (a + "_cols", j)]

    def store_extra(self, lhs, e):
        if lhs[0] != "idx2":
            raise TranslateError("store into %r" % (lhs,))
        ix, obl = self.idx2(lhs)
        vt, _, o2 = self.ex(e, "cost")
        return self.okline(o2 + obl) + "let %s := aset %s %s %s in\n" % (lhs[1], lhs[1], ix, vt)

    def len_vars_extra(self, e, acc):
        if e[0] == "idx2":
            acc.add(e[1] + "_rows")
            acc.add(e[1] + "_cols")

    def okline(self, obl):
        out = ""
        for n, i in obl:
            if n.startswith("slice:"):
                out += "let ok := ok && inb_slice %s %s in\n" % (n[6:], i)
            else:
                out += "let ok := ok && inb %s %s in\n" % (n, i)
        return out

    cut_mode = False

    def block(self, stmts, defined, k, ctx):
        if stmts and stmts[0]["k"] == "alloc" and stmts[0].get("rows") is not None:
            s = stmts[0]
            n = s["name"]
            rt, _, _ = self.ex(s["rows"], "Z")
            ct, _, _ = self.ex(s["cols"], "Z")
            ft, _, _ = self.ex(s["fill"], "cost")
            d2 = defined | {n, n + "_rows", n + "_cols"}
            return ("let %s_rows := %s in\nlet %s_cols := %s in\nlet %s := amake (fun _ => %s) (%s_rows * %s_cols) in\n"
                    % (n, rt, n, ct, n, ft, n, n)) + self.block(stmts[1:], d2, k, ctx)
        if self.cut_mode and stmts and stmts[0]["k"] == "return":
            if ctx is not None:
                raise TranslateError("return inside a loop")
            return "(None, ok)"
        # `return result_fn(x)`  ->  RSqrt x  (the result transform stays symbolic)
        if stmts and stmts[0]["k"] == "return":
            e = stmts[0]["e"]
            if e[0] == "call" and e[1] == self.result_fn:
                if ctx is not None:
                    raise TranslateError("return inside a loop")
                self.check_defined(cfun.uses(e), defined, stmts[0])
                t, _, obl = self.ex(e[2][0], "cost")
                return self.okline(obl) + "(RSqrt %s, ok)" % t
        return super().block(stmts, defined, k, ctx)


cfun.COQTY["slice"] = "list cost"
cfun.COQTY["arr2"] = "list cost"


def infer_types(stmts, types, fields, idist_fn, result_fn, ret_oracles):
    """a variable has the type of its first assignment; later assignments must agree (Z may widen to cost)"""
    def ty(e):
        k = e[0]
        if k == "num":
            return "Z"
        if k == "var":
            if e[1] == "INFINITY":
                return "cost"
            if e[1] in ("true", "false"):
                return "bool"
            if e[1] not in types:
                raise TranslateError("use of %s before its type is known" % e[1])
            return types[e[1]]
        if k == "field":
            if e[2] not in fields:
                raise TranslateError("unknown settings attribute %s" % e[2])
            return fields[e[2]]
        if k in ("idx", "idx2"):
            return "cost"
        if k == "slice":
            return "slice"
        if k == "isnotnone":
            return "bool"
        if k == "un":
            return "bool" if e[1] == "!" else ty(e[2])
        if k == "bin":
            if e[1] in ("&&", "||", "<", ">", "<=", ">=", "==", "!="):
                return "bool"
            a, b = ty(e[2]), ty(e[3])
            return "cost" if "cost" in (a, b) else "Z"
        if k == "call":
            if e[1] in ("MIN", "MAX"):
                return "cost" if any(ty(a) == "cost" for a in e[2]) else "Z"
            if e[1] == "abs":
                return ty(e[2][0])
            return "cost"
        raise TranslateError("type of %r" % (e,))
    for s in cfun.walk(stmts):
        if s["k"] == "for":
            types.setdefault(s["v"], "Z")
        elif s["k"] == "alloc" and s.get("rows") is not None:
            types[s["name"]] = "arr2"
            types[s["name"] + "_rows"] = "Z"
            types[s["name"] + "_cols"] = "Z"
        elif s["k"] == "alloc":
            types[s["name"]] = "arr"
            types[s["name"] + "_len"] = "Z"
        elif s["k"] == "assign" and s["lhs"][0] == "var":
            v = s["lhs"][1]
            t = ty(s["e"])
            if v in types and types[v] != t and not (types[v] == "cost" and t == "Z"):
                raise TranslateError("%s is assigned values of type %s and %s" % (v, types[v], t))
            types.setdefault(v, t)
    return types


PY_FIELDS = {"adj_max_step_is_some": "bool", "adj_max_length_diff_is_some": "bool", "window": "Z", "adj_max_step": "cost", "adj_max_dist": "cost", "adj_penalty": "cost",
             "adj_max_length_diff": "cost", "psi_1b": "Z", "psi_1e": "Z", "psi_2b": "Z", "psi_2e": "Z"}


def translate_distance(path, fname="distance"):
    """dtw.distance: everything after the dispatch to the C engine"""
    tree = ast.parse(open(path).read())
    fns = [n for n in tree.body if isinstance(n, ast.FunctionDef) and n.name == fname]
    if len(fns) != 1:
        raise TranslateError("%d definitions of %s" % (len(fns), fname))
    fn = fns[0]
    argnames = [a.arg for a in fn.args.args]
    if argnames != ["s1", "s2", "only_ub"] or fn.args.kwarg is None:
        raise TranslateError("signature of %s changed: %s" % (fname, argnames))
    body = list(fn.body)
    if isinstance(body[0], ast.Expr) and isinstance(body[0].value, ast.Constant):
        body = body[1:]
    # s = DTWSettings.for_dtw(s1, s2, **kwargs) ;  if s.use_c: ... ;  idist_fn, result_fn, ival_fn = inner_dist_fns(...)
    pre = [ast.unparse(x) for x in body[:3]]
    if not pre[0].startswith("s = DTWSettings.for_dtw(s1, s2, **kwargs)"):
        raise TranslateError("first statement of %s: %s" % (fname, pre[0]))
    if not pre[1].startswith("if s.use_c:"):
        raise TranslateError("second statement of %s is not the dispatch to the C engine" % fname)
    if not pre[2].startswith("idist_fn, result_fn, ival_fn = innerdistance.inner_dist_fns(s.inner_dist, use_ndim=s.use_ndim)"):
        raise TranslateError("third statement of %s: %s" % (fname, pre[2]))
    rest = body[3:]
    # `return ed.distance(...)` for only_ub: an oracle value
    class Fix(ast.NodeTransformer):
        def visit_Return(self, node):
            v = node.value
            if isinstance(v, ast.Call) and ast.unparse(v.func) == "ed.distance":
                return ast.Return(value=ast.Call(func=ast.Name(id="ed_distance", ctx=ast.Load()), args=[], keywords=[]))
            return node
    rest = [Fix().visit(x) for x in rest]
    # d = result_fn(d); return d   ->   return result_fn(d)
    if (len(rest) >= 2 and ast.unparse(rest[-1]) == "return d" and ast.unparse(rest[-2]) == "d = result_fn(d)"):
        rest = rest[:-2] + [ast.parse("return result_fn(d)").body[0]]
    else:
        raise TranslateError("%s does not end with d = result_fn(d); return d" % fname)
    cv = Conv("s", {"s1": "len_s1", "s2": "len_s2"}, {"idist_fn", "result_fn", "ed_distance"})
    stmts = cv.block(rest)
    params = [("in", "s1"), ("Z", "len_s1"), ("in", "s2"), ("Z", "len_s2"), ("bool", "only_ub"), ("settings", "s")]
    types = {"s1": "in", "s2": "in", "len_s1": "Z", "len_s2": "Z", "only_ub": "bool", "ok": "bool"}
    infer_types(stmts, types, PY_FIELDS, "idist_fn", "result_fn", {"ed_distance"})
    bounds = {"s1": ("var", "len_s1"), "s2": ("var", "len_s2")}
    em = PyEmitter("py_" + fname, params, stmts, dict(PY_FIELDS), bounds, types, "result_fn", "idist_fn", {"ed_distance"})
    defs = em.function()
    # the oracle function parameter has a function type
    out = []
    for name, ps, ret, text in defs:
        ps = [(p, ("Z -> Z -> cost" if p == "call_idist_fn" else t)) for p, t in ps]
        out.append((name.replace("c_py_", "py_"), ps, ret, text.replace("c_py_", "py_")))
    return out


def translate_wps_fill(path, fname="warping_paths"):
    """dtw.warping_paths: from the length test to the end of the row loop (the matrix before the end-of-series handling)"""
    tree = ast.parse(open(path).read())
    fns = [n for n in tree.body if isinstance(n, ast.FunctionDef) and n.name == fname]
    if len(fns) != 1:
        raise TranslateError("%d definitions of %s" % (len(fns), fname))
    fn = fns[0]
    argnames = [a.arg for a in fn.args.args]
    if argnames != ["s1", "s2", "psi_neg", "keep_int_repr"] or fn.args.kwarg is None:
        raise TranslateError("signature of %s changed: %s" % (fname, argnames))
    body = list(fn.body)
    if isinstance(body[0], ast.Expr) and isinstance(body[0].value, ast.Constant):
        body = body[1:]
    pre = [ast.unparse(x) for x in body[:4]]
    want = ["s = DTWSettings.for_dtw(s1, s2, **kwargs)", "if s.use_c:", "if np is None:",
            "cost, result_fn, ival_fn = innerdistance.inner_dist_fns(s.inner_dist, use_ndim=s.use_ndim)"]
    for a, b in zip(pre, want):
        if not a.startswith(b):
            raise TranslateError("preamble of %s: %s" % (fname, a.splitlines()[0]))
    rest = body[4:]
    # cut after the row loop: the first `for i in range(r)` at the top level
    k = [i for i, x in enumerate(rest) if isinstance(x, ast.For) and ast.unparse(x.iter) == "range(r)"]
    if len(k) != 1:
        raise TranslateError("%s: row loop not found" % fname)
    rest = rest[:k[0] + 1]
    cv = Conv("s", {"s1": "len_s1", "s2": "len_s2"}, {"cost"})
    stmts = cv.block(rest) + [cv.new(k="retstate", vars=["dtw"])]
    params = [("in", "s1"), ("Z", "len_s1"), ("in", "s2"), ("Z", "len_s2"), ("settings", "s")]
    types = {"s1": "in", "s2": "in", "len_s1": "Z", "len_s2": "Z", "ok": "bool"}
    infer_types(stmts, types, PY_FIELDS, "cost", None, set())
    bounds = {"s1": ("var", "len_s1"), "s2": ("var", "len_s2")}
    em = PyEmitter("py_wps_fill", params, stmts, dict(PY_FIELDS), bounds, types, None, "cost", set())
    em.cut_mode = True
    em.ret_type = "option (list cost) * bool"
    defs = em.function()
    out = []
    for name, ps, ret, text in defs:
        ps = [(p, ("Z -> Z -> cost" if p == "call_cost" else t)) for p, t in ps]
        out.append((name.replace("c_py_", "py_"), ps, ret, text.replace("c_py_", "py_")))
    return out


if __name__ == "__main__":
    repo = sys.argv[1] if len(sys.argv) > 1 else "/repo"
    print(cfun.render(translate_distance(repo + "/src/dtaidistance/dtw.py")))
    print(cfun.render(translate_wps_fill(repo + "/src/dtaidistance/dtw.py")))
