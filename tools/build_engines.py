#!/venv/bin/python
"""Build the implementation under test from /repo's *current working tree* into a
scratch directory outside /repo, /verif and /tmp.

  scratch = /var/tmp/dtaiverif/<sha256 of the source files>/
     src/dtaidistance/...        python sources + freshly cythonized/compiled extensions
     libdd.so                    dd_*.c compiled as a plain shared library (ctypes access)

At most two scratch builds are kept.  Prints the scratch path on stdout.
"""
import fcntl
import hashlib
import os
import shutil
import subprocess
import sys
import time

REPO = os.environ.get("VERIF_REPO", "/repo")
ROOT = os.environ.get("VERIF_SCRATCH", "/var/tmp/dtaiverif")
PY = "/venv/bin/python"


def source_files():
    out = []
    for base in ("src", ):
        for dp, dn, fn in os.walk(os.path.join(REPO, base)):
            dn[:] = [d for d in dn if d not in ("__pycache__", ".git", "build")]
            for f in fn:
                if f.endswith((".so", ".pyc", ".o")):
                    continue
                p = os.path.join(dp, f)
                rel = os.path.relpath(p, REPO)
                # generated C from cython is not source
                if rel.startswith("src/dtaidistance/") and f.endswith(".c") and "/jinja/" not in rel:
                    continue
                out.append(rel)
    for f in ("setup.py", "pyproject.toml", "MANIFEST.in", "README.md"):
        if os.path.exists(os.path.join(REPO, f)):
            out.append(f)
    return sorted(out)


def tree_hash(files=None):
    h = hashlib.sha256()
    h.update(b"build-recipe-v2")      # bump when the set of build products changes
    for rel in files or source_files():
        h.update(rel.encode())
        h.update(b"\0")
        with open(os.path.join(REPO, rel), "rb") as fh:
            h.update(fh.read())
        h.update(b"\0")
    return h.hexdigest()[:20]


def build(verbose=False):
    files = source_files()
    hsh = tree_hash(files)
    os.makedirs(ROOT, exist_ok=True)
    dest = os.path.join(ROOT, hsh)
    lock = open(os.path.join(ROOT, ".lock"), "w")
    fcntl.flock(lock, fcntl.LOCK_EX)
    try:
        if os.path.exists(os.path.join(dest, ".ok")):
            os.utime(os.path.join(dest, ".ok"))
            return dest
        if os.path.exists(dest):
            shutil.rmtree(dest)
        # prune old builds (keep the most recent one besides the new one)
        olds = sorted((d for d in os.listdir(ROOT) if os.path.isdir(os.path.join(ROOT, d))),
                      key=lambda d: os.path.getmtime(os.path.join(ROOT, d)))
        for d in olds[:-1]:
            shutil.rmtree(os.path.join(ROOT, d), ignore_errors=True)
        os.makedirs(dest)
        for rel in files:
            dst = os.path.join(dest, rel)
            os.makedirs(os.path.dirname(dst), exist_ok=True)
            shutil.copy2(os.path.join(REPO, rel), dst)
        t0 = time.time()
        env = dict(os.environ)
        env.pop("PYTHONPATH", None)
        log = open(os.path.join(dest, "build.log"), "w")
        r = subprocess.run([PY, "setup.py", "build_ext", "--inplace", "-j", "8"], cwd=dest,
                           stdout=log, stderr=subprocess.STDOUT, env=env, timeout=900)
        status = {"setup_py_rc": r.returncode}
        cdir = os.path.join(dest, "src", "DTAIDistanceC", "DTAIDistanceC")
        csrc = [os.path.join(cdir, f) for f in ("dd_dtw.c", "dd_ed.c", "dd_globals.c", "dd_dtw_openmp.c")]
        r2 = subprocess.run(["gcc", "-O1", "-g", "-fPIC", "-shared", "-fopenmp", "-I", cdir, "-o",
                             os.path.join(dest, "libdd.so")] + csrc + ["-lm"],
                            stdout=log, stderr=subprocess.STDOUT, timeout=600)
        status["libdd_rc"] = r2.returncode
        # AddressSanitizer + UBSan build of the same sources (C08)
        r3 = subprocess.run(["clang", "-fsanitize=address,undefined", "-fno-sanitize-recover=undefined",
                             "-fno-omit-frame-pointer", "-g", "-O1", "-fPIC", "-shared", "-fopenmp=libgomp", "-I", cdir,
                             "-o", os.path.join(dest, "libdd_asan.so")] + csrc + ["-lm"],
                            stdout=log, stderr=subprocess.STDOUT, timeout=600)
        status["libdd_asan_rc"] = r3.returncode
        status["wall_s"] = round(time.time() - t0, 1)
        import json
        with open(os.path.join(dest, "status.json"), "w") as fh:
            json.dump(status, fh)
        log.close()
        with open(os.path.join(dest, ".ok"), "w") as fh:
            fh.write(hsh)
        return dest
    finally:
        fcntl.flock(lock, fcntl.LOCK_UN)
        lock.close()


if __name__ == "__main__":
    print(build())
