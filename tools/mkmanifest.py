#!/venv/bin/python
"""Regenerate MANIFEST.json from the table below (claimed checks) and properties.jsonl."""
import json
import os

V = os.path.dirname(os.path.dirname(os.path.abspath(__file__)))
CLAIMED = {
    "C01": ("Coq theorems C01_lower_bound/C01_attained: the DTW model is the minimum over admissible warping "
            "paths for all lengths and settings; C01_py_distance_as_written: the body of dtw.distance, regenerated "
            "WHOLE from dtw.py by tools/pyfun.py (Gen_pydist.v: flat two-row buffer, per-row offset, cell update, "
            "sc/ec bookkeeping, psi prologue/end scans, every subscript and assert collected in a flag), returns "
            "that minimum for every input with window >= 1 and no subscript or assert fails (PyDistGen.v: "
            "regenerated routine = hand model PyDist.v by simulation; PyDistProofs.v: hand model = specification); "
            "tie to the code: regeneration on every run + the extracted regenerated routine and the hand model are "
            "both run next to dtw.distance",
            "exact arithmetic over Z + infinity (no rounding); the inner-distance callable, result_fn, ed.distance "
            "and the decoding done by DTWSettings are parameters of the theorem, tied by correspondence",
            "Coq proof (grid-DP optimality + refinement of the regenerated routine) + regenerated definitions + "
            "model/implementation correspondence"),
    "C02": ("Coq theorems: C02_c_dtw_distance[_ndim][_euclidean]_as_written - the four C kernels dtw_distance*, "
            "regenerated WHOLE from dd_dtw.c by tools/cfun.py (settings decoding, two-row buffer, cell update, "
            "pruning bookkeeping, psi scans; Gen_cdist.v), return for every input the specification value (minimum "
            "over admissible warping paths) cut at the bound in use (CDistTie.v: regenerated text = canonical kernel; "
            "CDistProofs.v: canonical kernel = as-written model of dtw.distance; PyDistPrune.v: = specification); "
            "C02_off_encodings_commute (the Python->C settings hand-over preserves the model value for every setting "
            "expressible in both engines; max_length_diff=0 refuted by witness); C02_c_kernels_same_band_and_buffer; "
            "both engines are checked against the same extracted models and against each other, and the extracted "
            "regenerated kernels against the compiled ones on struct-level inputs",
            "exact arithmetic over Z + infinity (rounding, NaN and idx_t overflow not modelled); the functions the "
            "kernels call (Euclidean bound) are oracle parameters; float stream compared within 4 ulps; pyx glue and "
            "matrix routines by correspondence",
            "Coq proof (regenerated C kernels = specification; settings decoding commutes) + regenerated definitions "
            "(Python and C) + engine-vs-engine and engine-vs-model correspondence"),
    "C04": ("Coq theorems: every cell of the model matrix is the optimum over partial paths, shape, out-of-band = "
            "inf; C04_code_matrix_is_spec / _with_bound / _code_value: dtw.warping_paths AS WRITTEN (PyWps.v) "
            "equals the specification matrix cell by cell, and with a bound every cell is equal or both exceed "
            "the bound; C04_py_warping_paths_fill_as_written[_with_bound]: the fill part of dtw.warping_paths "
            "REGENERATED from dtw.py (Gen_pywps.v, tools/pyfun.py) fills exactly that matrix, with no subscript out "
            "of range (PyWpsGen.v); C04_c_wps_kernel_as_written: the C kernel dtw_warping_paths_ndim REGENERATED "
            "whole from dd_dtw.c (Gen_cwpsk.v, tools/cfun.py), run without a bound on any buffer, leaves in every "
            "slot of the compact array the specification cell the layout assigns to it, no access out of range, and "
            "run for its value returns the DTW value of the specification - corner read or end-of-series scans, sqrt "
            "pass included (C04_c_wps_kernel_returns_the_dtw_value), the Euclidean twin likewise "
            "(C04_c_wps_euclidean_kernel_as_written; CWpsCanon/Kernel/Tie/Value/Spec/Final.v + *Eu.v); "
            "C04_c_fill_then_expand_as_written: dtw_expand_wps_slice regenerated whole (Gen_cexpw.v) copies that array "
            "into the block of the full matrix for every slice - cell (i-rb, j-cb) is the specification cell (i, j), "
            "border cells the compact array does not keep excepted (F23), every access in range (CExpW.v); "
            "C04_c_wps_value_is_the_distance_kernels_value: the regenerated warping-paths kernel, called with the struct "
            "the regenerated dtw_wps_parts returns, and the regenerated distance kernel return the same value for the "
            "same settings; C04_c_wps_kernel_marks_as_written: with psi_neg the kernel overwrites with -1 exactly the cells the "
            "relaxed end skips (last column below the chosen end row / last row right of the chosen end column); dtw.warping_paths is compared with the as-written model and with the extracted "
            "regenerated fill on every cell, the C full matrix, "
            "compact+expand and slice expansion cell-wise with the specification model applying the property's "
            "two freedoms",
            "a model of the C fill loops as written (regenerated geometry and recurrence text, CFillSim.v) is proved to "
            "store the specification matrix through the layout, and fill and expand address the same slot (CFill.v, "
            "CExpand.v); the bounded run (pruning by max_dist; proved under C03) and the -1 marks under a bound / of the Euclidean twin of "
            "the C kernels are regenerated and compared with the compiled kernels cell by cell (site c.wpsk) but not "
            "proved; float rounding is correspondence only; border-cell finding "
            "F23 recorded",
            "Coq proof (cell-wise optimality + refinement of the as-written Python routine) + regenerated band + "
            "correspondence"),
    "C03": ("Coq theorems: any pruning that skips only cells whose optimum exceeds the bound computes all cells "
            "below the bound exactly (prune_sound); C03_pruned_code_model_exact: the "
            "sc/ec/ec_next/smaller_found/break bookkeeping of dtw.distance AS WRITTEN returns 'd if d<=B else "
            "inf' for every bound B and every setting (PyDistPrune.v); C03_c_kernel_result_is_bounded_value: the "
            "same for the C kernel dtw_distance regenerated whole from dd_dtw.c (Gen_cdist.v; the other three "
            "kernels under C02); C03_c_wps_kernel_with_bound_as_written: the C warping-paths kernel "
            "dtw_warping_paths_ndim regenerated whole (Gen_cwpsk.v) run with ANY bound returns 'v if v<=B else inf' "
            "for the specification value v, every cell of its compact array equal to the specification cell or both "
            "above the bound, all accesses in range (CWpsPrune/SpecB/ValueB.v), its Euclidean twin likewise "
            "(C03_c_wps_euclidean_kernel_with_bound_as_written), use_pruning being such a bound; "
            "the Euclidean bound never cuts the distance where ED is a valid upper bound; the "
            "implementation's max_dist/use_pruning results (py/C distance, warping_paths, distance matrices) are "
            "compared with the specification and, for the single-pair routines of both engines, with the "
            "as-written model",
            "-1 marks of the C warping-paths kernels and float rounding: correspondence",
            "Coq proof (PrunedDTW: abstract soundness + refinement of the as-written Python routine and of the "
            "regenerated C kernel and of the regenerated dtw.distance, C03_py_distance_as_written_bounded) + correspondence"),
    "C09": ("Coq theorems C09_lb_keogh_le_dtw and C09_dtw_le_euclidean for all series/windows/penalties; "
            "C09_c_euclidean_distance_*_as_written: the Euclidean routines of dd_ed.c, regenerated whole (Gen_ced.v), "
            "equal the model of ed.distance with all accesses in range (CEd.v); lb_keogh_model "
            "uses the index arithmetic regenerated from dtw.lb_keogh; ed.distance/ed_cc/lb_keogh (py and C) compared "
            "with the extracted models; the sandwich re-checked on implementation values",
            "exact arithmetic; scalar series for LB_Keogh",
            "Coq proof (sandwich) + regenerated definitions + correspondence"),
    "C10": ("Coq theorems: identity, non-negativity, symmetry under swapped psi, monotonicity in window/psi/max_step/"
            "penalty, window 1 = Euclidean, all for every input; the relations are replayed on both engines and every "
            "value is compared with the extracted model",
            "exact arithmetic", "Coq proof (DP monotonicity/transposition) + metamorphic correspondence"),
    "C11": ("the DTW model and its optimality theorem are stated over vector points (so they are the multivariate "
            "statement), plus stride addressing and d=1 lemmas; C11_c_ndim_kernel_*: the C kernel dtw_distance_ndim "
            "regenerated whole from dd_dtw.c (Gen_cdist.v) returns the DTW value of the vector series and, with one "
            "coordinate per point, what dtw_distance returns; ndim distance, cost matrix and distance matrices of "
            "both engines are compared with the extracted model, d=1 with the univariate routines",
            "Python *Ndim inner-distance classes, matrix loops and glue tied by correspondence",
            "Coq proof + correspondence"),
    "C05": ("Coq theorems: the traceback modelled on dtw.best_path yields a contiguous unit-step path on finite (in-band) "
            "cells whose cost, penalties included, equals the start cell's value; exact path comparison with "
            "dtw.best_path from random start cells; every path returned by warping_path / warping_path_fast / "
            "best_path_compact / customstart is validated by an implementation-independent checker (steps, band, "
            "max_step, psi corners, cost == distance == model optimum); dtw.warping_path AS WRITTEN (end relaxation marks "
            "+ _relaxed_end, RelaxedEnd.v) starts the trace in the cell holding the distance; the C tracebacks: every "
            "minimal-predecessor rule traces a path costing the start cell and the C rule is one (TracebackC.v), the 15 "
            "loops of the five C routines address the compact array through its layout (CTrace.v over regenerated "
            "offsets/moves), and the C loop simulates the abstract traceback when the compact array holds the matrix "
            "through the layout (CTraceSim.v; that content is judged cell by cell under C04)",
            "the C traceback theorem is closed end to end over the fill model of C04 (C05_c_fill_then_trace) and over the "
            "kernel regenerated whole from dd_dtw.c (C05_c_kernel_then_trace; run without a bound, exact arithmetic); the "
            "traceback loop itself is the canonical loop over regenerated offsets, not a whole-function translation; "
            "isclose/prob decisions not modelled; F28b and F40 recorded",
            "Coq proof (traceback cost, end relaxation, layout refinement of the C loops) + regenerated C tables + "
            "correspondence + independent path checker"),
    "C06": ("Coq theorems over the functions REGENERATED from dtw.py (_distance_matrix_length, _complete_block, "
            "distance_matrix_python, distance_array_index): advertised length = number of selected pairs, compact result "
            "= map dist over pairs in row-major order, condensed index addresses pair (min,max); C loops, square form, "
            "only_triu and containers by correspondence",
            "np.triu_indices / fancy indexing trusted; C loops by correspondence",
            "Coq proof over translator output + correspondence"),
    "C07": ("Coq theorems: the parallel loops' output slots are exactly 0..len-1 in row-major order, hence distinct, hence "
            "any permutation of the cell writes (all thread counts / schedules / interleavings) equals the serial "
            "result; private-clause completeness by computation over the table regenerated from dd_dtw_openmp.c; "
            "the kernels never write the settings struct all pairs share (regenerated list of writers of a DTWSettings* "
            "parameter, CReent.v); parallel == serial replayed for 1..64 threads, all block forms, and the "
            "multiprocessing variants",
            "partial: the kernels' own heap buffers, libgomp and Pool.map order are outside the model",
            "Coq proof (permutation invariance) + regenerated OpenMP clause table + correspondence"),
    "C08": ("Coq theorems over tables regenerated from dd_dtw.c: psi prologue / psi scan / every band access of the four "
            "dtw_distance* kernels stay inside the two-row buffer; the compact warping-paths layout keeps every band "
            "cell inside its row (CWps.v); the FILL loops of the four warping-paths kernels (CFill.v) and the EXPAND "
            "loops of both slice routines (CExpand.v) address the array through that layout, inside their rows / the "
            "output block, for every length, window, slice; skip loops bounded; "
            "C08_c_dtw_distance*_accesses_in_bounds: in the four distance kernels regenerated WHOLE from dd_dtw.c "
            "(Gen_cdist.v, one bounds conjunct per array access) every read and write of the buffer and of the two "
            "series is in range, for all inputs and any content of the fresh buffer; "
            "C08_c_wps_kernel_accesses_in_bounds: the same for dtw_warping_paths_ndim regenerated whole (Gen_cwpsk.v), "
            "run without a bound on any buffer of (l1+1)*width cells; C08_c_expand_accesses_in_bounds: and for "
            "dtw_expand_wps_slice regenerated whole (Gen_cexpw.v), every slice, any content of the block; all exported routines "
            "additionally run under AddressSanitizer+UBSan with exact-size caller buffers",
            "partial: dtw_wps_loc, negativize/positivize, dtw_wps_max, DBA and glue are sanitizer correspondence only "
            "(the traceback loops are proved under C05)",
            "Coq proof over translator output (index arithmetic of distance, fill and expand loops) + ASan/UBSan "
            "correspondence"),
    "C17": ("Coq theorems: Needleman-Wunsch value = optimum over all grid paths / global alignments under the code's cost "
            "function (instance of the generic grid DP over (Z,min,+)); the traceback through the recorded arrows "
            "realises the value for every priority order; score matrix, value and traceback compared exactly with the "
            "extracted model, value with an independent brute-force optimum, alignment strings with a checker",
            "dp.dp / best_alignment hand-modelled, tied by exact correspondence",
            "Coq proof (grid DP instance) + exact correspondence + brute force"),
    "C19": ("Coq theorems over the reals for the seven closed-form expressions REGENERATED from similarity.py: "
            "antitone/monotone, value 1 at distance 0, range [0,1]; documented formulas (regenerated from the docstrings) = computed formulas; parameter "
            "derivation, dispatch, keep_sign and re-application checked on float arrays",
            "real-number axioms of the standard library; rounding of exp/division not modelled",
            "Coq proof (Reals) over translator output + correspondence"),
    "C12": ("Coq theorems over the reals: mean in range, mean minimises squared deviations, the update never worsens the "
            "cost along the old optimal paths (hence, DTW being a minimum over paths, the sum of squared DTW distances), "
            "the association table built like the code's sums exactly the aligned pairs' costs, zero cost is a fixed "
            "point; Python result compared exactly (rationals) with means over the extracted optimal paths, C results "
            "with the property's postconditions incl. the exact objective",
            "real-number axioms; dba hand-modelled; engines may differ on ties; the full statement (sum of squared DTW "
            "distances never increases, DbaDtw.v) takes DTW's two characterising facts (attained by the old path, lower "
            "bound of every admissible path) as premises",
            "Coq proof (Reals) + exact correspondence through the extracted path model"),
    "C14": ("Coq theorem C14_search_exact: the heap-with-running-bound search with lower-bound skipping and early "
            "abandoning returns exactly the k smallest eligible distances, for all candidate lists, k, bounds; lower "
            "bounds irrelevant; cache prefix; operation histories on one SubsequenceSearch object compared with the "
            "exhaustive answer and with the extracted search model",
            "SubsequenceSearch.align hand-modelled; contracts lb<=dist (C09) and bounded distance (C03) are inputs",
            "Coq proof (invariant over the candidate fold) + history correspondence"),
    "C15": ("Coq theorems for every choice/orientation policy: merge distances non-decreasing and <= max_dist, stop only "
            "when nothing within max_dist is left, absorbed series never reused, at most n-1 merges, the merges are well "
            "formed; C15_clusters_partition / C15_fit_partitions: the cluster dictionary as fit builds it partitions all "
            "series, keys are never-absorbed series contained in their own cluster; exact merge sequence and resulting "
            "dictionary vs the extracted models, tree/SciPy linkage checked on the implementation",
            "partial: tree shape is checked on the implementation, SciPy trusted",
            "Coq proof (abstract policy + dictionary as written) + correspondence + postcondition checker"),
    "C13": ("Coq theorems: with free start/end psi the last-row value at end e is a lower bound of the penalised DTW cost "
            "of the query against series[b..e] for every start b (shift lemma) and is attained by a path starting at the "
            "top border (cell-wise optimality); C13_kbest_iterator / _no_overlap_one_shared_sample / _kbest_terminates: "
            "the k-best iterator, modelled as a state machine over the matching function, yields matches in "
            "non-decreasing value order with distinct ends, lengths within the limits and disjoint masked ranges, for "
            "every input; the implementation's matching function is compared with the exhaustive minimum over start "
            "points (extracted DTW model) and its yield sequences with the extracted iterator machine",
            "the iterator machine is hand-written after _best_matches (tied by exact correspondence of the yield "
            "sequences); path extraction of get_match is checked by an independent checker",
            "Coq proof (shift lemma + iterator state machine) + model/implementation correspondence"),
    "C16": ("Coq theorems about the final assignment step for ANY means (so for any random choices): nearest mean (first "
            "minimum), clusters partition the assigned indices with keys < k, unassigned only if all distances "
            "infinite, iteration counter <= max_it + 1; postconditions checked on fit() over seeds x init modes x "
            "drop_stddev x engines x serial/parallel",
            "partial: reachability of the final step is correspondence only",
            "Coq proof (assignment step) + postcondition checker"),
    "C18": ("Coq theorems about the match trace: cells after the start are positive, path contiguous/monotone, no cell of "
            "an earlier (negated) match is reused; the affinity recurrence (exp, floats) is compared cell by cell with a "
            "reference implementation, C engines with Python, match iterator histories with the proved properties",
            "partial: the recurrence itself is float code tied by correspondence (search mask and first-match-from-the-"
            "maximum are checked on the implementation)",
            "Coq proof (trace model) + reference-implementation correspondence"),
    "C20": ("Coq theorems: a view that went through verify_np_array is read by C as its logical content (any strides), "
            "unguarded strided reads refuted; the table of ALL call sites into pointer-taking compiled routines is "
            "regenerated from the sources and every site is proved guarded (by computation); purity, container and "
            "history independence checked on the implementation with bitwise snapshots over all container forms, "
            "NumPy importable or not",
            "partial: aliasing/mutation in pure Python is established by correspondence only; F36/F37 recorded",
            "Coq proof over regenerated call-site table + correspondence"),
}


def main():
    props = [json.loads(l) for l in open(os.path.join(V, "properties.jsonl"))]
    na_reason = {}
    p = os.path.join(V, "tools", "not_applicable.json")
    if os.path.exists(p):
        na_reason = json.load(open(p))
    man = {
        "version": 1,
        "setup_cmd": "cd /verif && ./setup.sh",
        "hooks": {"guard": "DTAIDISTANCE_VERIF",
                  "enable": "no hooks: every check rebuilds /repo's working tree into /var/tmp/dtaiverif/<hash> "
                            "(tools/build_engines.py) and runs against that build",
                  "baseline_off_cmd": "cd /repo && /venv/bin/python -m pytest -ra -q -p no:cacheprovider --timeout=900 "
                                      "--continue-on-collection-errors",
                  "source_commits": [], "add_only": True},
        "engines": [{"name": "coq-model+oracle", "path": "/verif/coq", "serves_properties": sorted(CLAIMED),
                     "kind_free_text": "Coq 8.16 development (theories, generated gen/, props) + extracted OCaml oracle"},
                    {"name": "harness", "path": "/verif/harness", "serves_properties": sorted(CLAIMED),
                     "kind_free_text": "correspondence / differential search against the scratch build of /repo"}],
        "checks": [],
        "not_applicable": [],
        "notes": "See DESIGN.md. known_findings.json lists recorded defects and the fix: commits made in /repo.",
    }
    for pr in props:
        pid = pr["id"]
        if pid in CLAIMED:
            text, note, tech = CLAIMED[pid]
            man["checks"].append({
                "property_id": pid,
                "quick_cmd": "./check %s --tier quick" % pid,
                "thorough_cmd": "./check %s --tier thorough" % pid,
                "evidence_file": "/verif/evidence/%s.json" % pid,
                "replay_cmd_template": "./check %s --replay {path}" % pid,
                "engine": "coq-model+oracle",
                "level_claimed": {"category": "proof", "text": text, "design_ref": "DESIGN.md section 6 / %s" % pid},
                "level_note": note,
                "technique": tech,
            })
        else:
            man["not_applicable"].append({"property_id": pid, "reason": na_reason.get(
                pid, "check not built yet in this session; not claimed")})
    with open(os.path.join(V, "MANIFEST.json"), "w") as fh:
        json.dump(man, fh, indent=1)


main()
