#!/bin/sh
# usage: tools/try_seed.sh <seed-dir-with-patch.diff> <check ids...>
# applies the patch to /repo, runs the given checks (quick tier), reverts /repo.  Prints one line per check.
d=$1; shift
cd /repo || exit 2
git diff --quiet || { echo "/repo has local modifications"; exit 2; }
git apply "$d/patch.diff" || { echo "patch does not apply"; exit 2; }
cd /verif
# runs against a seeded tree must not leave their evidence behind
ev=$(mktemp -d /var/tmp/verif_ev.XXXXXX); cp -a evidence/. "$ev"/
for c in "$@"; do
  out=$(./check $c --tier quick 2>&1)
  rc=$?
  nv=$(echo "$out" | grep -c '^VIOLATION')
  echo "check $c: exit=$rc violations=$nv $(echo "$out" | grep '^VIOLATION' | head -2 | tr '\n' ' ')"
  if [ $nv -gt 0 ]; then
     f=$(echo "$out" | grep '^VIOLATION' | head -1 | sed 's/.*replay=\([^ ]*\).*/\1/')
     /venv/bin/python -c "
import json,sys
d=json.load(open('$f'))
c=d.get('case',{})
print('   first violation:', d.get('kind'), json.dumps(d.get('mismatch'))[:300])
print('   case:', json.dumps({k:v for k,v in c.items() if k in ('site','s1','s2','settings','series','block','ops','k','op')})[:400])
print('   broken:', json.dumps(d.get('broken') or d.get('broken_obligations'))[:300])
"
  fi
done
cd /repo && git checkout -- . && git status --short | grep -v '^??'
cd /verif && rm -rf evidence && mkdir evidence && cp -a "$ev"/. evidence/ && rm -rf "$ev"

# regenerate the translated files from the restored tree (they are committed; a seeded run must not leave its own behind)
/venv/bin/python tools/translate_py.py >/dev/null 2>&1; /venv/bin/python tools/translate_c.py >/dev/null 2>&1
