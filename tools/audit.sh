#!/bin/sh
# Independent re-check of the compiled development (takes minutes; run in the thorough tier / by hand).
cd "$(dirname "$0")/../coq" || exit 2
grep -rn --include='*.v' 'Admitted\|admit\b\|Axiom\|Parameter\|Conjecture\|Unset Guard\|bypass_check' theories props gen extract/Extract.v | grep -v '^\S*:[0-9]*:\s*(\*' 
timeout 3000 coqchk -silent -o -Q theories DV -Q gen DVGen -Q props DVProps $(ls props/*.vo | sed 's#props/\(.*\)\.vo#DVProps.\1#') 2>&1 | tail -40
