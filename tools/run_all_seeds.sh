#!/bin/sh
# usage: tools/run_all_seeds.sh            re-applies every seeded change and runs the quick check of its property
# prints one line per seed: DETECTED / MISSED / PATCH-DOES-NOT-APPLY.  /repo must be clean; it is reverted after each seed.
cd /verif || exit 2
for d in seeded/*/; do
  d=${d%/}
  id=$(/venv/bin/python -c "import json,sys; m=json.load(open('$d/meta.json')); print(' '.join(m.get('checks',[m['property']])))" 2>/dev/null) || { echo "$d: no meta.json"; continue; }
  out=$(tools/try_seed.sh /verif/$d $id 2>&1)
  if echo "$out" | grep -q "patch does not apply"; then echo "$d: PATCH-DOES-NOT-APPLY";
  elif echo "$out" | grep -q "violations=[1-9]"; then echo "$d: DETECTED by $id ($(echo "$out" | grep 'first violation' | cut -c1-160))";
  else echo "$d: MISSED by $id"; fi
done
