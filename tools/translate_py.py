#!/venv/bin/python
"""Fail-closed translator: Python `ast` of selected parts of /repo  ->  Coq (Z / bool / list).

Two modes, driven by the table SPEC at the bottom of this file:

  expr   the right-hand side of the n-th assignment to a variable inside a named function
         becomes   Definition <coq_name> (<params> : Z) : Z := <expr>.
  func   a whole function (assignments, augmented assignments, if/elif/else, for .. in range,
         tuple swap, list store a[i] = e, x.append(e), return, raise) becomes one Gallina
         definition in let-style; loops become [fold_left] over [zrange a b].

Everything not understood raises TranslateError (exit status 2): the tie is then *broken*,
never guessed.  Opaque sub-expressions (e.g. ``block[0][0]``, ``len(s1)``, ``s.window``) are
mapped through a per-item table keyed on the exact ``ast.unparse`` text of the node.
"""
import ast
import re
import os
import sys

REPO = os.environ.get("VERIF_REPO", "/repo")


class TranslateError(Exception):
    pass


BINOPS = {ast.Add: "+", ast.Sub: "-", ast.Mult: "*"}
CMPOPS = {ast.Lt: "<?", ast.LtE: "<=?", ast.Gt: ">?", ast.GtE: ">=?", ast.Eq: "=?"}


class Tr:
    def __init__(self, subst, sort="Z"):
        self.subst = subst  # unparse-text -> coq text
        self.sort = sort

    # ---------------------------------------------------------------- expressions
    def e(self, n):
        key = ast.unparse(n)
        if key in self.subst:
            return self.subst[key]
        if isinstance(n, ast.Constant):
            if isinstance(n.value, bool):
                return "true" if n.value else "false"
            if isinstance(n.value, int):
                return "(%d)" % n.value
            raise TranslateError("constant %r" % (n.value,))
        if isinstance(n, ast.Name):
            return n.id
        if isinstance(n, ast.BinOp):
            if type(n.op) in BINOPS:
                return "(%s %s %s)" % (self.e(n.left), BINOPS[type(n.op)], self.e(n.right))
            if isinstance(n.op, ast.FloorDiv):
                return "(Z.div %s %s)" % (self.e(n.left), self.e(n.right))
            raise TranslateError("binop %s in %s" % (type(n.op).__name__, key))
        if isinstance(n, ast.UnaryOp):
            if isinstance(n.op, ast.USub):
                return "(- %s)" % self.e(n.operand)
            if isinstance(n.op, ast.Not):
                return "(negb %s)" % self.b(n.operand)
            raise TranslateError("unaryop in %s" % key)
        if isinstance(n, ast.Call) and isinstance(n.func, ast.Name):
            f = n.func.id
            args = [self.e(a) for a in n.args]
            if n.keywords:
                raise TranslateError("keywords in call %s" % key)
            if f in ("max", "min") and len(args) >= 2:
                out = args[0]
                for a in args[1:]:
                    out = "(Z.%s %s %s)" % (f, out, a)
                return out
            if f == "range" and len(args) in (1, 2):
                return "(zrange %s %s)" % ("0" if len(args) == 1 else args[0], args[-1])
            if f == "abs" and len(args) == 1:
                return "(Z.abs %s)" % args[0]
            if f == "int" and len(args) == 1:
                return args[0]
            raise TranslateError("call %s" % key)
        if isinstance(n, ast.IfExp):
            return "(if %s then %s else %s)" % (self.b(n.test), self.e(n.body), self.e(n.orelse))
        if isinstance(n, ast.Tuple):
            return "(%s)" % ", ".join(self.e(x) for x in n.elts)
        if isinstance(n, (ast.Compare, ast.BoolOp)):
            return self.b(n)
        if isinstance(n, ast.List) and not n.elts:
            return "[]"
        raise TranslateError("expression %s (%s)" % (key, type(n).__name__))

    def b(self, n):
        key = ast.unparse(n)
        if key in self.subst:
            return self.subst[key]
        if isinstance(n, ast.Compare):
            parts = []
            left = n.left
            for op, right in zip(n.ops, n.comparators):
                if isinstance(op, ast.NotEq):
                    parts.append("(negb (%s =? %s))" % (self.e(left), self.e(right)))
                elif type(op) in CMPOPS:
                    parts.append("(%s %s %s)" % (self.e(left), CMPOPS[type(op)], self.e(right)))
                else:
                    raise TranslateError("cmp op in %s" % key)
                left = right
            out = parts[0]
            for p in parts[1:]:
                out = "(%s && %s)" % (out, p)
            return out
        if isinstance(n, ast.BoolOp):
            op = "&&" if isinstance(n.op, ast.And) else "||"
            out = self.b(n.values[0])
            for v in n.values[1:]:
                out = "(%s %s %s)" % (out, op, self.b(v))
            return out
        if isinstance(n, ast.UnaryOp) and isinstance(n.op, ast.Not):
            return "(negb %s)" % self.b(n.operand)
        if isinstance(n, ast.Constant) and isinstance(n.value, bool):
            return "true" if n.value else "false"
        if isinstance(n, ast.Name):
            return n.id
        raise TranslateError("boolean %s" % key)

    # ---------------------------------------------------------------- statements
    @staticmethod
    def assigned(stmts):
        out = []

        def add(x):
            if x not in out:
                out.append(x)
        for s in stmts:
            if isinstance(s, ast.Assign):
                for t in s.targets:
                    if isinstance(t, ast.Name):
                        add(t.id)
                    elif isinstance(t, ast.Tuple):
                        for el in t.elts:
                            if isinstance(el, ast.Name):
                                add(el.id)
                            else:
                                raise TranslateError("tuple target")
                    elif isinstance(t, ast.Subscript) and isinstance(t.value, ast.Name):
                        add(t.value.id)
                    else:
                        raise TranslateError("assign target %s" % ast.unparse(t))
            elif isinstance(s, ast.AugAssign):
                if isinstance(s.target, ast.Name):
                    add(s.target.id)
                else:
                    raise TranslateError("augassign target")
            elif isinstance(s, ast.If):
                for x in Tr.assigned(s.body) + Tr.assigned(s.orelse):
                    add(x)
            elif isinstance(s, ast.For):
                for x in Tr.assigned(s.body):
                    add(x)
            elif isinstance(s, ast.Expr) and isinstance(s.value, ast.Call) and \
                    isinstance(s.value.func, ast.Attribute) and s.value.func.attr == "append" and \
                    isinstance(s.value.func.value, ast.Name):
                add(s.value.func.value.id)
        return out

    @staticmethod
    def tup(vs):
        if len(vs) == 1:
            return vs[0]
        return "(%s)" % ", ".join(vs)

    @staticmethod
    def pat(vs):
        if len(vs) == 1:
            return vs[0]
        return "'(%s)" % ", ".join(vs)

    def block(self, stmts, defined, final):
        """Translate stmts; `final` is the Coq text evaluated after them (None: the block must return)."""
        if not stmts:
            if final is None:
                raise TranslateError("block falls through without return")
            return final
        s, rest = stmts[0], stmts[1:]
        if isinstance(s, ast.Expr) and isinstance(s.value, ast.Constant) and isinstance(s.value.value, str):
            return self.block(rest, defined, final)  # docstring
        if isinstance(s, ast.Pass):
            return self.block(rest, defined, final)
        if (isinstance(s, ast.Expr) and isinstance(s.value, ast.Call) and isinstance(s.value.func, ast.Attribute)
                and ast.unparse(s.value.func.value) == "logger"
                and s.value.func.attr in ("debug", "info", "warning", "error")
                and not any(isinstance(n, (ast.NamedExpr, ast.Call)) for a in s.value.args for n in ast.walk(a))):
            return self.block(rest, defined, final)  # logging of plain values has no effect on the result
        if isinstance(s, ast.Return):
            return self.ret(self.e(s.value))
        if isinstance(s, ast.Raise):
            if not self.has_raise:
                raise TranslateError("raise in function without option result")
            return "None"
        if isinstance(s, ast.Assign):
            if len(s.targets) != 1:
                raise TranslateError("multi-target assign")
            t = s.targets[0]
            if isinstance(t, ast.Name):
                return "let %s := %s in\n%s" % (t.id, self.e(s.value), self.block(rest, defined | {t.id}, final))
            if isinstance(t, ast.Tuple):
                names = [el.id for el in t.elts]
                return "let '(%s) := %s in\n%s" % (", ".join(names), self.e(s.value),
                                                   self.block(rest, defined | set(names), final))
            if isinstance(t, ast.Subscript) and isinstance(t.value, ast.Name):
                a = t.value.id
                if a not in defined:
                    raise TranslateError("store to undefined array %s" % a)
                return "let %s := upd %s %s %s in\n%s" % (a, a, self.e(t.slice), self.e(s.value),
                                                          self.block(rest, defined, final))
            raise TranslateError("assign %s" % ast.unparse(s))
        if isinstance(s, ast.AugAssign):
            if not isinstance(s.target, ast.Name) or type(s.op) not in BINOPS:
                raise TranslateError("augassign %s" % ast.unparse(s))
            x = s.target.id
            if x not in defined:
                raise TranslateError("augassign to undefined %s" % x)
            return "let %s := (%s %s %s) in\n%s" % (x, x, BINOPS[type(s.op)], self.e(s.value),
                                                   self.block(rest, defined, final))
        if isinstance(s, ast.Expr) and isinstance(s.value, ast.Call) and \
                isinstance(s.value.func, ast.Attribute) and s.value.func.attr == "append":
            a = s.value.func.value.id
            if a not in defined:
                raise TranslateError("append to undefined %s" % a)
            return "let %s := %s ++ [%s] in\n%s" % (a, a, self.e(s.value.args[0]),
                                                    self.block(rest, defined, final))
        if isinstance(s, ast.If):
            ends_b = self.returns(s.body)
            ends_o = self.returns(s.orelse) if s.orelse else False
            if ends_b and (ends_o or not s.orelse):
                # if t: ...return/raise   [else: ...return] ; rest
                other = self.block(s.orelse, defined, None) if s.orelse else self.block(rest, defined, final)
                return "if %s then (\n%s) else (\n%s)" % (self.b(s.test), self.block(s.body, defined, None), other)
            if ends_o:
                raise TranslateError("else-branch returns but then-branch does not")
            ab, ao = self.assigned(s.body), self.assigned(s.orelse)
            vs = [v for v in dict.fromkeys(ab + ao) if v in defined or (v in ab and v in ao)]
            if not vs:
                # effects are branch-local; a later use of such a name is an unbound variable in Coq
                return self.block(rest, defined, final)
            tb = self.block(s.body, defined, self.tup(vs))
            to = self.block(s.orelse, defined, self.tup(vs)) if s.orelse else self.tup(vs)
            return "let %s := (if %s then (\n%s) else (\n%s)) in\n%s" % (
                self.pat(vs), self.b(s.test), tb, to, self.block(rest, defined | set(vs), final))
        if isinstance(s, ast.For):
            if s.orelse or not isinstance(s.target, ast.Name):
                raise TranslateError("for form")
            it = s.iter
            if not (isinstance(it, ast.Call) and isinstance(it.func, ast.Name) and it.func.id == "range"
                    and 1 <= len(it.args) <= 2):
                key = ast.unparse(it)
                if key in self.subst:
                    rng = self.subst[key]
                elif isinstance(it, ast.Name) and it.id in defined:
                    rng = it.id
                else:
                    raise TranslateError("for iterable %s" % key)
            else:
                lo = "0" if len(it.args) == 1 else self.e(it.args[0])
                hi = self.e(it.args[-1])
                rng = "(zrange %s %s)" % (lo, hi)
            vs = [v for v in self.assigned(s.body) if v in defined]
            if not vs:
                raise TranslateError("loop without effect")
            x = s.target.id
            body = self.block(s.body, defined | {x}, self.tup(vs))
            return "let %s := fold_left (fun %s %s =>\n%s) %s %s in\n%s" % (
                self.pat(vs), self.pat(vs) if len(vs) > 1 else vs[0], x, body, rng, self.tup(vs),
                self.block(rest, defined, final))
        raise TranslateError("statement %s" % type(s).__name__)

    def returns(self, stmts):
        if not stmts:
            return False
        last = stmts[-1]
        if isinstance(last, (ast.Return, ast.Raise)):
            return True
        if isinstance(last, ast.If) and last.orelse:
            return self.returns(last.body) and self.returns(last.orelse)
        return False

    def ret(self, txt):
        return "Some (%s)" % txt if self.has_raise else txt

    has_raise = False


class TrR:
    """real-valued expressions of similarity.py -> Coq R"""

    def __init__(self, subst):
        self.subst = subst

    def e(self, n):
        key = ast.unparse(n)
        if key in self.subst:
            return self.subst[key]
        if isinstance(n, ast.Constant) and isinstance(n.value, int) and not isinstance(n.value, bool):
            return "(IZR %d)" % n.value if n.value >= 0 else "(IZR (%d))" % n.value
        if isinstance(n, ast.Name):
            return n.id
        if isinstance(n, ast.UnaryOp) and isinstance(n.op, ast.USub):
            return "(- %s)" % self.e(n.operand)
        if isinstance(n, ast.BinOp):
            ops = {ast.Add: "+", ast.Sub: "-", ast.Mult: "*", ast.Div: "/"}
            if type(n.op) in ops:
                return "(%s %s %s)" % (self.e(n.left), ops[type(n.op)], self.e(n.right))
            if isinstance(n.op, ast.Pow) and isinstance(n.right, ast.Constant) and n.right.value == 2:
                x = self.e(n.left)
                return "(%s * %s)" % (x, x)
            raise TranslateError("real binop in %s" % key)
        if isinstance(n, ast.Call) and isinstance(n.func, ast.Attribute) and ast.unparse(n.func.value) == "np":
            f = n.func.attr
            args = n.args
            if f == "exp" and len(args) == 1:
                return "(exp %s)" % self.e(args[0])
            if f == "log" and len(args) == 1:
                return "(ln %s)" % self.e(args[0])
            if f == "sqrt" and len(args) == 1:
                return "(sqrt %s)" % self.e(args[0])
            if f == "power" and len(args) == 2:
                if isinstance(args[1], ast.Constant) and args[1].value == 2:
                    x = self.e(args[0])
                    return "(%s * %s)" % (x, x)
                return "(Rpower %s %s)" % (self.e(args[0]), self.e(args[1]))
            raise TranslateError("numpy call %s" % key)
        raise TranslateError("real expression %s (%s)" % (key, type(n).__name__))


def find_function(tree, qual):
    parts = qual.split(".")
    body = tree.body
    node = None
    for p in parts:
        node = None
        for n in body:
            if isinstance(n, (ast.FunctionDef, ast.ClassDef)) and n.name == p:
                node = n
                break
        if node is None:
            raise TranslateError("function %s not found" % qual)
        body = node.body
    return node


def nth_assignment(fn, var, n):
    found = []
    for node in ast.walk(fn):
        if isinstance(node, ast.Assign) and len(node.targets) == 1 and \
                isinstance(node.targets[0], ast.Name) and node.targets[0].id == var:
            found.append(node)
    found.sort(key=lambda a: (a.lineno, a.col_offset))
    if len(found) <= n:
        raise TranslateError("assignment #%d to %s in %s not found" % (n, var, fn.name))
    return found[n].value


def translate(spec, repo=REPO):
    """Returns dict out_file -> coq text.  Raises TranslateError."""
    outs = {}
    trees = {}
    for item in spec:
        path = os.path.join(repo, item["file"])
        if path not in trees:
            with open(path) as fh:
                trees[path] = ast.parse(fh.read())
        fn = find_function(trees[path], item["function"])
        tr = Tr(item.get("subst", {}))
        buf = outs.setdefault(item["out"], [])
        try:
            if item["mode"] == "expr":
                rhs = nth_assignment(fn, item["var"], item.get("nth", 0))
                body = tr.e(rhs) if item.get("sort", "Z") == "Z" else tr.b(rhs)
                params = " ".join("(%s : %s)" % (p, t) for p, t in item["params"])
                buf.append("(* %s :: %s :: assignment #%d to `%s`  =  %s *)" % (
                    item["file"], item["function"], item.get("nth", 0), item["var"], ast.unparse(rhs)))
                buf.append("Definition %s %s : %s :=\n  %s.\n" % (item["name"], params, item.get("sort", "Z"), body))
            elif item["mode"] == "exprR":
                rhs = nth_assignment(fn, item["var"], item.get("nth", 0))
                body = TrR(item.get("subst", {})).e(rhs)
                params = " ".join("(%s : R)" % p for p in item["params"])
                buf.append("(* %s :: %s :: assignment #%d to `%s`  =  %s *)" % (
                    item["file"], item["function"], item.get("nth", 0), item["var"], ast.unparse(rhs)))
                buf.append("Definition %s %s : R :=\n  %s.\n" % (item["name"], params, body))
            elif item["mode"] == "docR":
                # a formula as the docstring states it:  "- Label: formula"  (e^(x) = exp x, ^2 = square)
                doc = ast.get_docstring(fn) or ""
                ms = re.findall(r"^\s*-\s*%s:\s*(.+?)\s*$" % re.escape(item["label"]), doc, flags=re.M)
                if len(ms) != 1:
                    raise TranslateError("docstring line '- %s: ...' found %d times" % (item["label"], len(ms)))
                txt = ms[0]
                py = txt.replace("e^(", "np.exp(").replace("^", "**")
                try:
                    rhs = ast.parse(py, mode="eval").body
                except SyntaxError:
                    raise TranslateError("documented formula %r is not an expression" % txt)
                body = TrR(item.get("subst", {})).e(rhs)
                free = sorted(set(n.id for n in ast.walk(rhs) if isinstance(n, ast.Name)) - {"np"})
                if free != sorted(item["params"]):
                    raise TranslateError("documented formula %r mentions %s, expected %s" % (txt, free, sorted(item["params"])))
                params = " ".join("(%s : R)" % p for p in item["params"])
                buf.append("(* %s :: %s :: docstring  \"- %s: %s\" *)" % (item["file"], item["function"], item["label"], txt))
                buf.append("Definition %s %s : R :=\n  %s.\n" % (item["name"], params, body))
            elif item["mode"] == "func":
                tr.has_raise = any(isinstance(n, ast.Raise) for n in ast.walk(fn))
                pyparams = [a.arg for a in fn.args.args]
                if pyparams != item["pyparams"]:
                    raise TranslateError("parameter list of %s changed: %s" % (item["function"], pyparams))
                defined = set(p for p, _ in item["params"]) | set(item.get("defined", []))
                body = tr.block(fn.body, defined, None)
                params = " ".join("(%s : %s)" % (p, t) for p, t in item["params"])
                buf.append("(* %s :: %s (whole function) *)" % (item["file"], item["function"]))
                buf.append("Definition %s %s :=\n%s.\n" % (item["name"], params, body))
            else:
                raise TranslateError("mode")
        except TranslateError as exc:
            raise TranslateError("%s::%s [%s]: %s" % (item["file"], item["function"], item["name"], exc))
    header = ("(* GENERATED by tools/translate_py.py from /repo's working tree -- do not edit *)\n"
              "From Coq Require Import ZArith Bool List.\nFrom DV Require Import Prelude.\n"
              "Import ListNotations.\nOpen Scope Z_scope.\nOpen Scope bool_scope.\n\n")
    header_r = ("(* GENERATED by tools/translate_py.py from /repo's working tree -- do not edit *)\n"
                "From Coq Require Import Reals.\nOpen Scope R_scope.\n\n")
    return {k: (header_r if k == "Gen_sim.v" else header) + "\n".join(v) for k, v in outs.items()}


BAND = [("r", "Z"), ("c", "Z"), ("w", "Z"), ("i", "Z")]
BAND_SUBST = {"s.window": "w", "len(s1)": "r", "len(s2)": "c"}
BLK = {"block is not None": "blk_some", "block is None or block == 0": "(negb blk_some)",
       "block[0][0]": "rb", "block[0][1]": "re",
       "block[1][0]": "cb", "block[1][1]": "ce", "len(block) > 2 and block[2] is False": "notriu",
       "int(nb_series * (nb_series - 1) / 2)": "(Z.div (nb_series * (nb_series - 1)) 2)",
       "len(s)": "nb_series"}

SPEC = [
    # ---- dtw.distance: rolling buffer geometry and band
    dict(out="Gen_dtw.v", mode="expr", file="src/dtaidistance/dtw.py", function="distance", var="length",
         name="py_dist_length", params=[("r", "Z"), ("c", "Z"), ("w", "Z")], subst=BAND_SUBST),
    dict(out="Gen_dtw.v", mode="expr", file="src/dtaidistance/dtw.py", function="distance", var="skip", nth=1,
         name="py_dist_skip", params=BAND, subst=BAND_SUBST),
    dict(out="Gen_dtw.v", mode="expr", file="src/dtaidistance/dtw.py", function="distance", var="j_start",
         name="py_dist_j_start", params=BAND, subst=BAND_SUBST),
    dict(out="Gen_dtw.v", mode="expr", file="src/dtaidistance/dtw.py", function="distance", var="j_end",
         name="py_dist_j_end", params=BAND, subst=BAND_SUBST),
    dict(out="Gen_dtw.v", mode="expr", file="src/dtaidistance/dtw.py", function="warping_paths", var="j_start",
         name="py_wps_j_start", params=BAND, subst=BAND_SUBST),
    dict(out="Gen_dtw.v", mode="expr", file="src/dtaidistance/dtw.py", function="warping_paths", var="j_end",
         name="py_wps_j_end", params=BAND, subst=BAND_SUBST),
    dict(out="Gen_dtw.v", mode="expr", file="src/dtaidistance/dtw.py", function="warping_paths", var="ic",
         name="py_wps_ic", params=[("c", "Z"), ("w", "Z")], subst=BAND_SUBST),
    dict(out="Gen_dtw.v", mode="expr", file="src/dtaidistance/dtw.py", function="warping_paths_affinity",
         var="j_start", name="py_aff_j_start", params=BAND, subst=BAND_SUBST),
    dict(out="Gen_dtw.v", mode="expr", file="src/dtaidistance/dtw.py", function="warping_paths_affinity",
         var="j_start", nth=1, name="py_aff_j_start_triu",
         params=[("i", "Z"), ("j_start", "Z")], subst=BAND_SUBST),
    dict(out="Gen_dtw.v", mode="expr", file="src/dtaidistance/dtw.py", function="warping_paths_affinity",
         var="j_end", name="py_aff_j_end", params=BAND, subst=BAND_SUBST),
    # ---- lb_keogh envelope
    dict(out="Gen_dtw.v", mode="expr", file="src/dtaidistance/dtw.py", function="lb_keogh", var="imin_diff",
         name="py_lb_imin_diff", params=[("r", "Z"), ("c", "Z"), ("w", "Z")], subst=BAND_SUBST),
    dict(out="Gen_dtw.v", mode="expr", file="src/dtaidistance/dtw.py", function="lb_keogh", var="imax_diff",
         name="py_lb_imax_diff", params=[("r", "Z"), ("c", "Z"), ("w", "Z")], subst=BAND_SUBST),
    dict(out="Gen_dtw.v", mode="expr", file="src/dtaidistance/dtw.py", function="lb_keogh", var="imin",
         name="py_lb_imin", params=[("i", "Z"), ("imin_diff", "Z")], subst=BAND_SUBST),
    dict(out="Gen_dtw.v", mode="expr", file="src/dtaidistance/dtw.py", function="lb_keogh", var="imax",
         name="py_lb_imax", params=[("c", "Z"), ("i", "Z"), ("imax_diff", "Z")], subst=BAND_SUBST),
    # ---- distance matrix bookkeeping (whole functions)
    dict(out="Gen_matrix.v", mode="func", file="src/dtaidistance/dtw.py", function="_distance_matrix_length",
         name="py_distance_matrix_length", pyparams=["block", "nb_series"],
         params=[("blk_some", "bool"), ("rb", "Z"), ("re", "Z"), ("cb", "Z"), ("ce", "Z"), ("notriu", "bool"),
                 ("nb_series", "Z")], subst=BLK),
    dict(out="Gen_matrix.v", mode="func", file="src/dtaidistance/dtw.py", function="distance_array_index",
         name="py_distance_array_index", pyparams=["a", "b", "nb_series"],
         params=[("a", "Z"), ("b", "Z"), ("nb_series", "Z")], subst={}),
    dict(out="Gen_matrix.v", mode="func", file="src/dtaidistance/dtw.py", function="_complete_block",
         name="py_complete_block", pyparams=["block", "nb_series"],
         params=[("blk_some", "bool"), ("block", "(Z * Z) * (Z * Z)"), ("notriu", "bool"), ("nb_series", "Z")],
         subst={"block is None or block == 0": "(negb blk_some)",
                "len(block) > 2 and block[2] is False": "notriu"}),
    dict(out="Gen_matrix.v", mode="func", file="src/dtaidistance/dtw.py", function="distance_matrix_python",
         name="py_distance_matrix_python", pyparams=["s", "block", "show_progress", "settings"],
         params=[("A", "Type"), ("dflt", "A"), ("dist", "Z -> Z -> A"), ("blk_some", "bool"),
                 ("block", "(Z * Z) * (Z * Z)"), ("notriu", "bool"), ("nb_series", "Z")],
         subst={
             "settings is None": "false",
             "array.array('d', [inf] * _distance_matrix_length(block, len(s)))":
                 "(repeat dflt (Z.to_nat (py_distance_matrix_length blk_some (fst (fst block)) (snd (fst block)) "
                 "(fst (snd block)) (snd (snd block)) notriu nb_series)))",
             "_complete_block(block, len(s))": "(py_complete_block blk_some block notriu nb_series)",
             "show_progress": "false", "tqdm(it_r)": "it_r",
             "block[0][0]": "(fst (fst block))", "block[0][1]": "(snd (fst block))",
             "block[1][0]": "(fst (snd block))", "block[1][1]": "(snd (snd block))",
             "len(s)": "nb_series",
             "distance(s[r], s[c], **settings.kwargs())": "(dist r c)",
         }),
    # ---- similarity.py: the closed-form transforms (explicit parameters)
    dict(out="Gen_sim.v", mode="exprR", file="src/dtaidistance/similarity.py", function="distance_to_similarity",
         var="S", nth=0, name="sim_exponential", params=["D", "r"]),
    dict(out="Gen_sim.v", mode="exprR", file="src/dtaidistance/similarity.py", function="distance_to_similarity",
         var="S", nth=1, name="sim_gaussian", params=["D", "r"]),
    dict(out="Gen_sim.v", mode="exprR", file="src/dtaidistance/similarity.py", function="distance_to_similarity",
         var="S", nth=2, name="sim_reciprocal", params=["D", "r", "a"]),
    dict(out="Gen_sim.v", mode="exprR", file="src/dtaidistance/similarity.py", function="distance_to_similarity",
         var="S", nth=3, name="sim_reverse", params=["D", "r"]),
    dict(out="Gen_sim.v", mode="exprR", file="src/dtaidistance/similarity.py", function="squash",
         var="result", nth=1, name="squash_gaussian", params=["X", "r", "x0"]),
    dict(out="Gen_sim.v", mode="exprR", file="src/dtaidistance/similarity.py", function="squash",
         var="result", nth=3, name="squash_exponential", params=["X", "r", "x0"]),
    dict(out="Gen_sim.v", mode="exprR", file="src/dtaidistance/similarity.py", function="squash",
         var="result", nth=5, name="squash_logistic", params=["X", "r", "x0"]),
    # ---- the formulas as DOCUMENTED (docstring lines "- Label: formula")
    dict(out="Gen_sim.v", mode="docR", file="src/dtaidistance/similarity.py", function="distance_to_similarity",
         label="Exponential", name="doc_exponential", params=["D", "r"]),
    dict(out="Gen_sim.v", mode="docR", file="src/dtaidistance/similarity.py", function="distance_to_similarity",
         label="Gaussian", name="doc_gaussian", params=["D", "r"]),
    dict(out="Gen_sim.v", mode="docR", file="src/dtaidistance/similarity.py", function="distance_to_similarity",
         label="Reciprocal", name="doc_reciprocal", params=["D", "r", "a"]),
    dict(out="Gen_sim.v", mode="docR", file="src/dtaidistance/similarity.py", function="distance_to_similarity",
         label="Reverse", name="doc_reverse", params=["D", "r"]),
    dict(out="Gen_sim.v", mode="docR", file="src/dtaidistance/similarity.py", function="squash",
         label="Gaussian", name="doc_squash_gaussian", params=["X", "r", "x0"]),
    dict(out="Gen_sim.v", mode="docR", file="src/dtaidistance/similarity.py", function="squash",
         label="Exponential", name="doc_squash_exponential", params=["X", "r", "x0"]),
]


def dm_prechecks(repo=REPO):
    """dtw.distance_matrix: the statements under `if block is not None:` before any distance is computed - one `raise`
    (triu=False needs compact) and ONE early `return []`; its condition is regenerated (anything else fails closed)"""
    tree = ast.parse(open(os.path.join(repo, "src/dtaidistance/dtw.py")).read())
    fn = find_function(tree, "distance_matrix")
    top = [st for st in fn.body if isinstance(st, ast.If) and ast.unparse(st.test) == "block is not None"]
    if len(top) != 1 or top[0].orelse:
        raise TranslateError("distance_matrix: `if block is not None:` found %d times at the top level" % len(top))
    body = top[0].body
    if len(body) != 2 or not all(isinstance(st, ast.If) and not st.orelse for st in body):
        raise TranslateError("distance_matrix: the block pre-checks are not two plain if statements")
    if ast.unparse(body[0].test) != "len(block) > 2 and block[2] is False and (compact is False)" or \
            len(body[0].body) != 1 or not isinstance(body[0].body[0], ast.Raise):
        raise TranslateError("distance_matrix: first block pre-check is %s" % ast.unparse(body[0].test))
    if len(body[1].body) != 1 or not isinstance(body[1].body[0], ast.Return) or ast.unparse(body[1].body[0]) != "return []":
        raise TranslateError("distance_matrix: second block pre-check does not `return []`")
    # no other `return` before the distances are computed
    rets = [st for st in ast.walk(fn) if isinstance(st, ast.Return)]
    early = [r for r in rets if ast.unparse(r) not in ("return dists", "return dists_matrix")]
    if [ast.unparse(r) for r in early] != ["return []"]:
        raise TranslateError("distance_matrix: return statements %s" % [ast.unparse(r) for r in rets])
    cond = Tr(dict(BLK)).b(body[1].test)
    return ("\n(* dtw.distance_matrix: the only early `return []` (under `if block is not None:`) *)\n"
            "Definition py_dm_early_empty (rb : Z) (re : Z) (cb : Z) (ce : Z) : bool := %s.\n" % cond)


def main():
    outdir = sys.argv[1] if len(sys.argv) > 1 else "/verif/coq/gen"
    try:
        outs = translate(SPEC)
        outs["Gen_matrix.v"] = outs["Gen_matrix.v"] + dm_prechecks()
    except TranslateError as exc:
        print("TRANSLATE-ERROR: %s" % exc)
        sys.exit(2)
    os.makedirs(outdir, exist_ok=True)
    for name, text in outs.items():
        p = os.path.join(outdir, name)
        old = open(p).read() if os.path.exists(p) else None
        if old != text:
            with open(p, "w") as fh:
                fh.write(text)
    print("ok")




# ---------------------------------------------------------------- call sites into the compiled modules (C20)
CALLSITE_FILES = ["src/dtaidistance/dtw.py", "src/dtaidistance/ed.py", "src/dtaidistance/dtw_barycenter.py",
                  "src/dtaidistance/dtw_ndim.py", "src/dtaidistance/clustering/kmeans.py",
                  "src/dtaidistance/subsequence/subsequencealignment.py",
                  "src/dtaidistance/subsequence/subsequencesearch.py"]
C_MODULES = ("dtw_cc", "ed_cc", "dtw_cc_omp")
# routines whose first positional arguments are series handed to C as raw pointers
SERIES_ARGS = {"distance": 2, "distance_ndim": 2, "warping_paths": (1, 3), "warping_paths_ndim": (1, 3),
               "warping_paths_compact": (1, 3), "warping_paths_compact_ndim": (1, 3), "warping_path": 2,
               "warping_path_ndim": 2, "warping_path_prob": 2, "lb_keogh": 2, "ub_euclidean": 2,
               "warping_paths_affinity": (1, 3), "warping_paths_affinity_ndim": (1, 3),
               "warping_paths_compact_affinity": (1, 3), "warping_paths_compact_ndim_affinity": (1, 3)}
GUARD_FUNCS = ("verify_np_array",)


def callsites(repo=REPO):
    rows = []
    for rel in CALLSITE_FILES:
        tree = ast.parse(open(os.path.join(repo, rel)).read())
        for fn in [n for n in ast.walk(tree) if isinstance(n, ast.FunctionDef)]:
            guarded = {}      # name -> line of the guard assignment
            for node in ast.walk(fn):
                if isinstance(node, ast.Assign) and isinstance(node.value, ast.Call):
                    f = node.value.func
                    fname = f.attr if isinstance(f, ast.Attribute) else (f.id if isinstance(f, ast.Name) else "")
                    if fname in GUARD_FUNCS:
                        for t in node.targets:
                            if isinstance(t, ast.Name):
                                guarded.setdefault(t.id, node.lineno)
                            elif isinstance(t, ast.Tuple):
                                for el in t.elts:
                                    if isinstance(el, ast.Name):
                                        guarded.setdefault(el.id, node.lineno)
                    if fname == "warping_path_args_to_c":       # returns verified copies
                        for t in node.targets:
                            if isinstance(t, ast.Tuple):
                                for el in t.elts[:2]:
                                    if isinstance(el, ast.Name):
                                        guarded.setdefault(el.id, node.lineno)
            for node in ast.walk(fn):
                if isinstance(node, ast.Call) and isinstance(node.func, ast.Attribute) and \
                        isinstance(node.func.value, ast.Name) and node.func.value.id in C_MODULES and \
                        node.func.attr in SERIES_ARGS:
                    spec = SERIES_ARGS[node.func.attr]
                    lo, hi = (0, spec) if isinstance(spec, int) else spec
                    for a in node.args[lo:hi]:
                        txt = ast.unparse(a)
                        ok = isinstance(a, ast.Name) and a.id in guarded and guarded[a.id] < node.lineno
                        if isinstance(a, ast.Call):
                            af = a.func
                            afn = af.attr if isinstance(af, ast.Attribute) else (af.id if isinstance(af, ast.Name) else "")
                            ok = afn in GUARD_FUNCS
                        rows.append((rel, fn.name, node.func.value.id + "." + node.func.attr, txt, ok))
    return rows


def write_callsites(outdir):
    rows = callsites()
    if not rows:
        raise TranslateError("no call sites into the compiled modules found")
    lines = ["(* GENERATED by tools/translate_py.py -- every call from the Python layer into a compiled routine that takes",
             "   raw series pointers: (file, function, callee, argument expression, passed through verify_np_array first) *)",
             "From Coq Require Import String List Bool.", "Import ListNotations.", "Open Scope string_scope.", "",
             "Definition c_call_sites : list (string * string * string * string * bool) := ["]
    lines.append(";\n".join('  ("%s", "%s", "%s", "%s", %s)' % (f, fn, callee, arg.replace('"', "'"), "true" if ok else "false")
                            for f, fn, callee, arg, ok in rows))
    lines.append("].")
    text = "\n".join(lines) + "\n"
    p = os.path.join(outdir, "Gen_calls.v")
    old = open(p).read() if os.path.exists(p) else None
    if old != text:
        open(p, "w").write(text)


def write_pydist(outdir):
    """dtw.distance translated WHOLE (tools/pyfun.py, the Python front end of tools/cfun.py)"""
    import pyfun
    import cfun
    try:
        defs = pyfun.translate_distance(os.path.join(REPO, "src/dtaidistance/dtw.py"))
    except cfun.TranslateError as exc:
        raise TranslateError("pyfun: %s" % exc)
    # the parameter names are part of the tie (positional application in the proofs)
    import json
    pins_path = os.path.join(os.path.dirname(os.path.abspath(__file__)), "expected_fv_py.json")
    cur = {name: [p for p, _ in params] for name, params, ret, text in defs}
    if os.environ.get("VERIF_WRITE_FV_PINS") == "1":
        json.dump(cur, open(pins_path, "w"), indent=1, sort_keys=True)
    else:
        pins = json.load(open(pins_path))
        if pins != cur:
            bad = sorted(k for k in set(pins) | set(cur) if pins.get(k) != cur.get(k))
            raise TranslateError("pyfun: parameter lists of %s differ from the pinned ones" % bad)
    try:
        defs2 = pyfun.translate_wps_fill(os.path.join(REPO, "src/dtaidistance/dtw.py"))
    except cfun.TranslateError as exc:
        raise TranslateError("pyfun: %s" % exc)
    cur2 = {name: [p for p, _ in params] for name, params, ret, text in defs2}
    pins2_path = os.path.join(os.path.dirname(os.path.abspath(__file__)), "expected_fv_pywps.json")
    if os.environ.get("VERIF_WRITE_FV_PINS") == "1":
        json.dump(cur2, open(pins2_path, "w"), indent=1, sort_keys=True)
    else:
        pins2 = json.load(open(pins2_path))
        if pins2 != cur2:
            bad = sorted(k for k in set(pins2) | set(cur2) if pins2.get(k) != cur2.get(k))
            raise TranslateError("pyfun: parameter lists of %s differ from the pinned ones" % bad)
    text2 = ("(* GENERATED by tools/translate_py.py (tools/pyfun.py) from src/dtaidistance/dtw.py -- do not edit *)\n"
             "(* dtw.warping_paths: from the length test to the end of the row loop (the matrix before the end-of-series handling) *)\n"
             "From Coq Require Import ZArith Bool List.\nFrom DV Require Import Prelude Cost CLang.\nImport ListNotations.\n"
             "Open Scope Z_scope.\nOpen Scope bool_scope.\n\n" + cfun.render(defs2))
    p2 = os.path.join(outdir, "Gen_pywps.v")
    old2 = open(p2).read() if os.path.exists(p2) else None
    if old2 != text2:
        open(p2, "w").write(text2)
    text = ("(* GENERATED by tools/translate_py.py (tools/pyfun.py) from src/dtaidistance/dtw.py -- do not edit *)\n"
            "(* dtw.distance translated WHOLE: everything after the dispatch to the C engine *)\n"
            "From Coq Require Import ZArith Bool List.\nFrom DV Require Import Prelude Cost CLang.\nImport ListNotations.\n"
            "Open Scope Z_scope.\nOpen Scope bool_scope.\n\n" + cfun.render(defs))
    p = os.path.join(outdir, "Gen_pydist.v")
    old = open(p).read() if os.path.exists(p) else None
    if old != text:
        open(p, "w").write(text)


_old_main = main


def main():  # noqa: F811
    outdir = sys.argv[1] if len(sys.argv) > 1 else "/verif/coq/gen"
    try:
        write_pydist(outdir)
    except (TranslateError, OSError, SyntaxError) as exc:
        print("TRANSLATE-ERROR: dtw.distance: %s" % exc)
        sys.exit(2)
    try:
        write_callsites(outdir)
    except (TranslateError, OSError, SyntaxError) as exc:
        print("TRANSLATE-ERROR: call sites: %s" % exc)
        sys.exit(2)
    _old_main()


if __name__ == "__main__":
    main()
