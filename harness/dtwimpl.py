"""Implementation-side runners for the DTW family (executed inside the worker, i.e. against the
scratch build of /repo's working tree)."""
import math


def series(vals, container="ndarray", ndim=1):
    import numpy as np
    if container == "array" and ndim == 1:
        import array
        return array.array("d", [float(v) for v in vals])
    if container == "list" and ndim == 1:
        return [float(v) for v in vals]
    return np.array(vals, dtype=np.double)


def kwargs(s, ndim=1):
    kw = {}
    for k in ("window", "penalty", "max_step", "max_length_diff", "max_dist", "use_pruning", "inner_dist"):
        if k in s and s[k] is not None:
            kw[k] = s[k]
    psi = s.get("psi")
    if psi is not None:
        kw["psi"] = psi if isinstance(psi, int) else tuple(psi)
    if ndim > 1:
        kw["use_ndim"] = True
    return kw


def run(case):
    from dtaidistance import dtw, dtw_ndim, ed
    site = case["site"]
    s = case["settings"]
    nd = case.get("ndim", 1)
    cont = case.get("container", "ndarray")
    kw = kwargs(s, nd)
    s1 = series(case["s1"], cont, nd)
    s2 = series(case["s2"], cont, nd)
    if site == "py.distance":
        kw.pop("use_ndim", None)
        if nd > 1:
            return dtw_ndim.distance(s1, s2, **kw)
        return dtw.distance(s1, s2, **kw)
    if site == "c.distance":
        kw.pop("use_ndim", None)
        if nd > 1:
            return dtw_ndim.distance_fast(s1, s2, **kw)
        return dtw.distance_fast(s1, s2, **kw)
    if site == "c.distance_usec":
        kw.pop("use_ndim", None)
        if nd > 1:
            return dtw_ndim.distance(s1, s2, use_c=True, **kw)
        return dtw.distance(s1, s2, use_c=True, **kw)
    if site in ("py.wps", "c.wps", "c.wps_compact"):
        extra = {"psi_neg": bool(case.get("psi_neg")), "keep_int_repr": bool(case.get("keep_int_repr"))}
        kw.pop("use_ndim", None)
        mod = dtw_ndim if nd > 1 else dtw
        if site == "py.wps":
            res = mod.warping_paths(s1, s2, **extra, **kw)
        elif site == "c.wps":
            res = mod.warping_paths_fast(s1, s2, **extra, **kw)
        else:
            res = mod.warping_paths_fast(s1, s2, compact=True, **extra, **kw)
        if not isinstance(res, tuple):
            return res
        return {"d": res[0], ("compact" if site == "c.wps_compact" else "m"): res[1]}
    raise ValueError("unknown site " + site)
