"""ctypes access to the plain shared library built from dd_*.c (libdd.so in the scratch build)."""
import ctypes as C
import os

idx_t = C.c_ssize_t
seq_t = C.c_double


class DTWSettings(C.Structure):
    _fields_ = [("window", idx_t), ("max_dist", seq_t), ("max_step", seq_t), ("max_length_diff", idx_t),
                ("penalty", seq_t), ("psi_1b", idx_t), ("psi_1e", idx_t), ("psi_2b", idx_t), ("psi_2e", idx_t),
                ("use_pruning", C.c_bool), ("only_ub", C.c_bool), ("inner_dist", C.c_int), ("window_type", C.c_int)]


class DTWBlock(C.Structure):
    _fields_ = [("rb", idx_t), ("re", idx_t), ("cb", idx_t), ("ce", idx_t), ("triu", C.c_bool)]


class DTWWps(C.Structure):
    _fields_ = [("ldiff", idx_t), ("ldiffr", idx_t), ("ldiffc", idx_t), ("window", idx_t), ("width", idx_t),
                ("length", idx_t), ("ri1", idx_t), ("ri2", idx_t), ("ri3", idx_t), ("overlap_left_ri", idx_t),
                ("overlap_right_ri", idx_t), ("max_step", seq_t), ("max_dist", seq_t), ("penalty", seq_t)]


_lib = None


def lib():
    global _lib
    if _lib is None:
        path = os.path.join(os.environ["VERIF_SCRATCH_DIR"], os.environ.get("VERIF_LIBDD", "libdd.so"))
        L = C.CDLL(path)
        P = C.POINTER
        L.dtw_settings_default.restype = DTWSettings
        L.dtw_settings_wps_length.restype = idx_t
        L.dtw_settings_wps_length.argtypes = [idx_t, idx_t, P(DTWSettings)]
        L.dtw_settings_wps_width.restype = idx_t
        L.dtw_settings_wps_width.argtypes = [idx_t, idx_t, P(DTWSettings)]
        for name in ("dtw_distance", "dtw_distance_euclidean", "lb_keogh", "lb_keogh_euclidean"):
            f = getattr(L, name)
            f.restype = seq_t
            f.argtypes = [P(seq_t), idx_t, P(seq_t), idx_t, P(DTWSettings)]
        for name in ("dtw_distance_ndim", "dtw_distance_ndim_euclidean"):
            f = getattr(L, name)
            f.restype = seq_t
            f.argtypes = [P(seq_t), idx_t, P(seq_t), idx_t, C.c_int, P(DTWSettings)]
        L.dtw_warping_paths.restype = seq_t
        L.dtw_warping_paths.argtypes = [P(seq_t), P(seq_t), idx_t, P(seq_t), idx_t, C.c_bool, C.c_bool, C.c_bool,
                                        P(DTWSettings)]
        L.dtw_warping_paths_ndim.restype = seq_t
        L.dtw_warping_paths_ndim.argtypes = [P(seq_t), P(seq_t), idx_t, P(seq_t), idx_t, C.c_bool, C.c_bool,
                                             C.c_bool, C.c_int, P(DTWSettings)]
        L.dtw_expand_wps.restype = None
        L.dtw_expand_wps.argtypes = [P(seq_t), P(seq_t), idx_t, idx_t, P(DTWSettings)]
        L.dtw_expand_wps_slice.restype = None
        L.dtw_expand_wps_slice.argtypes = [P(seq_t), P(seq_t), idx_t, idx_t, idx_t, idx_t, idx_t, idx_t, P(DTWSettings)]
        L.dtw_best_path.restype = idx_t
        L.dtw_best_path.argtypes = [P(seq_t), P(idx_t), P(idx_t), idx_t, idx_t, P(DTWSettings)]
        L.dtw_best_path_customstart.restype = idx_t
        L.dtw_best_path_customstart.argtypes = [P(seq_t), P(idx_t), P(idx_t), idx_t, idx_t, idx_t, idx_t, P(DTWSettings)]
        L.dtw_wps_parts.restype = DTWWps
        L.dtw_wps_parts.argtypes = [idx_t, idx_t, P(DTWSettings)]
        L.dtw_wps_loc.restype = idx_t
        L.dtw_wps_loc.argtypes = [P(DTWWps), idx_t, idx_t, idx_t, idx_t]
        L.dtw_wps_loc_columns.restype = idx_t
        L.dtw_wps_loc_columns.argtypes = [P(DTWWps), idx_t, P(idx_t), P(idx_t), idx_t, idx_t]
        L.dtw_wps_max.restype = idx_t
        L.dtw_wps_max.argtypes = [P(DTWWps), P(seq_t), P(idx_t), P(idx_t), idx_t, idx_t]
        for name in ("dtw_wps_negativize", "dtw_wps_positivize"):
            f = getattr(L, name)
            f.restype = None
            f.argtypes = [P(DTWWps), P(seq_t), idx_t, idx_t, idx_t, idx_t, idx_t, idx_t, C.c_bool]
        for name in ("dtw_wps_negativize_value", "dtw_wps_positivize_value"):
            f = getattr(L, name)
            f.restype = C.c_bool
            f.argtypes = [P(DTWWps), P(seq_t), idx_t, idx_t, idx_t, idx_t]
        L.dtw_warping_paths_affinity.restype = seq_t
        L.dtw_warping_paths_affinity.argtypes = [P(seq_t), P(seq_t), idx_t, P(seq_t), idx_t, C.c_bool, C.c_bool, C.c_bool,
                                                 C.c_bool, seq_t, seq_t, seq_t, seq_t, P(DTWSettings)]
        L.dtw_expand_wps_affinity.restype = None
        L.dtw_expand_wps_affinity.argtypes = [P(seq_t), P(seq_t), idx_t, idx_t, P(DTWSettings)]
        L.dtw_expand_wps_slice_affinity.restype = None
        L.dtw_expand_wps_slice_affinity.argtypes = [P(seq_t), P(seq_t), idx_t, idx_t, idx_t, idx_t, idx_t, idx_t,
                                                    P(DTWSettings)]
        L.dtw_best_path_affinity.restype = idx_t
        L.dtw_best_path_affinity.argtypes = [P(seq_t), P(idx_t), P(idx_t), idx_t, idx_t, idx_t, idx_t, P(DTWSettings)]
        L.dtw_distances_length.restype = idx_t
        L.dtw_distances_length.argtypes = [P(DTWBlock), idx_t, idx_t]
        L.dtw_block_is_valid.restype = C.c_bool
        L.dtw_block_is_valid.argtypes = [P(DTWBlock), idx_t, idx_t]
        for name in ("euclidean_distance_squared", "euclidean_distance_euclidean", "euclidean_distance"):
            f = getattr(L, name)
            f.restype = seq_t
            f.argtypes = [P(seq_t), idx_t, P(seq_t), idx_t]
        for name in ("euclidean_distance_ndim_squared", "euclidean_distance_ndim_euclidean", "euclidean_distance_ndim"):
            f = getattr(L, name)
            f.restype = seq_t
            f.argtypes = [P(seq_t), idx_t, P(seq_t), idx_t, C.c_int]
        for name in ("ub_euclidean", "ub_euclidean_euclidean"):
            f = getattr(L, name)
            f.restype = seq_t
            f.argtypes = [P(seq_t), idx_t, P(seq_t), idx_t]
        for name in ("ub_euclidean_ndim", "ub_euclidean_ndim_euclidean"):
            f = getattr(L, name)
            f.restype = seq_t
            f.argtypes = [P(seq_t), idx_t, P(seq_t), idx_t, C.c_int]
        L.dtw_warping_path.restype = seq_t
        L.dtw_warping_path.argtypes = [P(seq_t), idx_t, P(seq_t), idx_t, P(idx_t), P(idx_t), P(idx_t), P(DTWSettings)]
        L.dtw_warping_path_ndim.restype = seq_t
        L.dtw_warping_path_ndim.argtypes = [P(seq_t), idx_t, P(seq_t), idx_t, P(idx_t), P(idx_t), P(idx_t), C.c_int,
                                            P(DTWSettings)]
        PP = P(P(seq_t))
        for name in ("dtw_distances_ptrs", "dtw_distances_ptrs_parallel"):
            f = getattr(L, name)
            f.restype = idx_t
            f.argtypes = [PP, idx_t, P(idx_t), P(seq_t), P(DTWBlock), P(DTWSettings)]
        for name in ("dtw_distances_ndim_ptrs", "dtw_distances_ndim_ptrs_parallel"):
            f = getattr(L, name)
            f.restype = idx_t
            f.argtypes = [PP, idx_t, P(idx_t), C.c_int, P(seq_t), P(DTWBlock), P(DTWSettings)]
        for name in ("dtw_distances_matrix", "dtw_distances_matrix_parallel"):
            f = getattr(L, name)
            f.restype = idx_t
            f.argtypes = [P(seq_t), idx_t, idx_t, P(seq_t), P(DTWBlock), P(DTWSettings)]
        L.dtw_dba_ptrs.restype = None
        L.dtw_dba_ptrs.argtypes = [PP, idx_t, P(idx_t), P(seq_t), idx_t, P(C.c_ubyte), C.c_int, C.c_int, P(DTWSettings)]
        L.dtw_dba_matrix.restype = None
        L.dtw_dba_matrix.argtypes = [P(seq_t), idx_t, idx_t, P(seq_t), idx_t, P(C.c_ubyte), C.c_int, C.c_int,
                                     P(DTWSettings)]
        L.dtw_block_empty.restype = DTWBlock
        _lib = L
    return _lib


def settings(s):
    """s: the harness' settings dict (user level) -> C struct with the pyx decoding (None -> 0)."""
    st = lib().dtw_settings_default()
    st.window = s.get("window") or 0
    st.max_dist = s.get("max_dist") or 0
    st.max_step = s.get("max_step") or 0
    st.max_length_diff = s.get("max_length_diff") or 0
    st.penalty = s.get("penalty") or 0
    psi = s.get("psi")
    if psi is None:
        psi = (0, 0, 0, 0)
    elif isinstance(psi, int):
        psi = (psi,) * 4
    st.psi_1b, st.psi_1e, st.psi_2b, st.psi_2e = psi
    st.use_pruning = bool(s.get("use_pruning"))
    st.only_ub = bool(s.get("only_ub"))
    st.inner_dist = 0 if "squared" in s.get("inner_dist", "squared euclidean") else 1
    return st


def arr(vals):
    flat = []
    for v in vals:
        if isinstance(v, (list, tuple)):
            flat.extend(v)
        else:
            flat.append(v)
    return (seq_t * max(1, len(flat)))(*[float(x) for x in flat])
