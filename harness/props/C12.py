"""C12: DBA update averages optimally aligned points and never worsens the fit."""
import math
from fractions import Fraction

from harness import dtwgen

COQ_FILES = ["theories/Dba.v", "theories/DbaDtw.v", "props/C12.v"]
THEOREMS = [("DVProps.C12", n) for n in ("C12_mean_in_range", "C12_mean_minimises",
                                         "C12_update_never_worsens_path_cost",
                                         "C12_table_cost_is_sum_over_aligned_pairs", "C12_zero_cost_fixed_point",
                                         "C12_step_never_worsens_sum_of_dtw",
                                         "C12_warping_path_covers_every_position")]
TRUSTED_BASE = [
    "Coq 8.16.1 kernel; standard-library real numbers (axioms as reported by Print Assumptions)",
    "dtw_barycenter.dba / dtw_dba_* are hand-modelled as 'association table + per-position mean' (Dba.v); the paths "
    "come from the traceback model of C05 (extracted); tied by exact rational comparison for the Python engine and by "
    "the property's own postconditions (range, mask irrelevance, objective) for the C engine",
    "extraction + driver.ml",
]
ASSUMPTIONS = ["integer-valued series and initial average: sums are exact, means are compared as exact rationals "
               "rounded once; engines may differ when optimal paths are not unique"]
RULE = ("collections of 1..5 series (equal/unequal length, ndim 1..2, list or matrix container) x initial average x mask "
        "(>= 1 selected) x window/penalty x engine in {dba (Python paths), dba(use_c=True), dba_loop(max_it=1,use_c)}: "
        "result == per-position mean over the model's optimal paths (Python), within the value range of the selected "
        "series, unchanged when unselected series are replaced, sum of squared DTW distances (extracted model, exact "
        "rational scaling) does not increase, identical series are a fixed point, dba_loop makes <= max_it steps")
GUARD = "psi, max_step, max_dist off"

SITES = ["py.dba", "c.dba", "c.dba_loop", "py.dba_loop"]


def gen_cases(rng, tier):
    n = 900 if tier == "quick" else 9000
    maxlen = 5 if tier == "quick" else 7
    cases = []
    for k in range(n):
        site = SITES[k % len(SITES)]
        nd = 1 if rng.random() < 0.7 else rng.choice([2, 2, 3])
        ns = rng.randint(1, 5)
        eq = rng.random() < 0.5
        L = rng.randint(1, maxlen)
        if rng.random() < 0.08:
            base = dtwgen.rand_series(rng, L, nd, lo=-2, hi=2)
            series = [list(map(lambda p: list(p) if isinstance(p, list) else p, base)) for _ in range(ns)]
            c = [list(p) if isinstance(p, list) else p for p in base]
            identical = True
        else:
            series = [dtwgen.rand_series(rng, L if eq else rng.randint(1, maxlen), nd, lo=-2, hi=2) for _ in range(ns)]
            c = list(rng.choice(series)) if rng.random() < 0.5 else dtwgen.rand_series(rng, rng.randint(1, maxlen), nd, lo=-2, hi=2)
            identical = False
        mask = [rng.random() < 0.7 for _ in range(ns)]
        if not any(mask):
            mask[rng.randrange(ns)] = True
        st = {"window": rng.choice([None, None, 1, 2, 3]), "penalty": rng.choice([None, None, 1]),
              "psi": None, "max_step": None, "max_length_diff": None, "inner_dist": "squared euclidean"}
        other = [dtwgen.rand_series(rng, len(s), nd, lo=-2, hi=2) for s in series]
        cases.append({"site": site, "series": series, "c": c, "mask": mask, "ndim": nd, "settings": st,
                      "as_matrix": eq and rng.random() < 0.5, "other": other, "identical": identical,
                      "max_it": rng.randint(1, 4)})
    return cases


def _pt(p):
    return p if isinstance(p, list) else [p]


def expected(cases, oracle):
    lines = []
    for c in cases:
        for s, m in zip(c["series"], c["mask"]):
            if m:
                cc = {"s1": c["c"], "s2": s, "ndim": c["ndim"], "settings": c["settings"]}
                lines.append(dtwgen.oracle_line("bp", cc) + " %d %d" % (len(c["c"]), len(s)))
                lines.append(dtwgen.oracle_line("dtw", cc))
                lines.append(dtwgen.oracle_line("wps", cc))
    ans = oracle.query(lines)
    out = []
    p = 0
    for c in cases:
        nd = c["ndim"]
        t = len(c["c"])
        assoc = [[] for _ in range(t)]
        old = 0
        ok = True
        unique = True
        for s, m in zip(c["series"], c["mask"]):
            if not m:
                continue
            a, d, mtx = ans[p], ans[p + 1], ans[p + 2]
            p += 3
            if a.startswith("ERR") or d.startswith("ERR") or d == "inf" or mtx.startswith("ERR"):
                ok = False
                continue
            old += int(d)
            unique = unique and count_optimal_paths(c, s, mtx) == 1
            for tkn in a.split():
                i, j = [int(x) for x in tkn.split(",")]
                assoc[i].append(_pt(s[j]))
        if not ok or any(len(x) == 0 for x in assoc):
            out.append({"skip": True})
            continue
        mean = [[Fraction(sum(v[k] for v in vals), len(vals)) for k in range(nd)] for vals in assoc]
        out.append({"mean": [[str(x) for x in row] for row in mean], "old": old, "unique": unique})
    return out


def count_optimal_paths(case, s, mtx):
    """number of optimal warping paths (average vs s) in the model's accumulated-cost matrix"""
    M = [[math.inf if t == "inf" else int(t) for t in row.split()] for row in mtx.split(" ; ")]
    cc, nd = case["c"], case["ndim"]
    pen = case["settings"].get("penalty") or 0
    pen = pen * pen
    r, c = len(cc), len(s)

    def d(i, j):
        return sum((x - y) ** 2 for x, y in zip(_pt(cc[i]), _pt(s[j])))
    from functools import lru_cache

    @lru_cache(None)
    def cnt(i, j):
        if i == 0 and j == 0:
            return 1
        if i == 0 or j == 0 or M[i][j] == math.inf:
            return 0
        dv = d(i - 1, j - 1)
        n = 0
        if M[i - 1][j - 1] + dv == M[i][j]:
            n += cnt(i - 1, j - 1)
        if M[i - 1][j] + pen + dv == M[i][j]:
            n += cnt(i - 1, j)
        if M[i][j - 1] + pen + dv == M[i][j]:
            n += cnt(i, j - 1)
        return n
    return cnt(r, c)


def objective_lines(case, avg_fr):
    """oracle lines computing sum of squared DTW(avg, s) exactly by scaling with the common denominator Q"""
    Q = 1
    for row in avg_fr:
        for x in row:
            Q = Q * x.denominator // math.gcd(Q, x.denominator)
    st = dict(case["settings"])
    if st.get("penalty"):
        st["penalty"] = st["penalty"] * Q
    lines = []
    for s, m in zip(case["series"], case["mask"]):
        if m:
            cc = {"s1": [[int(x * Q) for x in row] for row in avg_fr], "s2": [[v * Q for v in _pt(pt)] for pt in s],
                  "ndim": case["ndim"], "settings": st}
            lines.append(dtwgen.oracle_line("dtw", cc))
    return lines, Q


def impl_run(case):
    import numpy as np
    from dtaidistance import dtw_barycenter
    nd = case["ndim"]

    def mk(ss):
        arrs = [np.array(x, dtype=np.double).reshape((len(x), nd) if nd > 1 else (len(x),)) for x in ss]
        return np.array(arrs) if case["as_matrix"] else arrs
    s = mk(case["series"])
    c = np.array(case["c"], dtype=np.double).reshape((len(case["c"]), nd) if nd > 1 else (len(case["c"]),))
    mask = np.array(case["mask"], dtype=bool)
    kw = {k: v for k, v in case["settings"].items() if v is not None and k in ("window", "penalty")}
    site = case["site"]
    c_before = c.copy()

    def step(ss):
        if site == "py.dba":
            return dtw_barycenter.dba(ss, c, mask=mask, use_c=False, **kw)
        if site == "c.dba":
            return dtw_barycenter.dba(ss, c, mask=mask, use_c=True, **kw)
        # one step through the loop: the DTW settings have to reach the update
        return dtw_barycenter.dba_loop(ss, c, max_it=1, thr=None, mask=mask, use_c=(site == "c.dba_loop"), **kw)
    avg = np.asarray(step(s)).reshape(len(case["c"]), nd)
    # unselected series replaced by other data
    mixed = [case["series"][i] if case["mask"][i] else case["other"][i] for i in range(len(case["series"]))]
    avg2 = np.asarray(step(mk(mixed))).reshape(len(case["c"]), nd)
    res = dtw_barycenter.dba_loop(s, c, max_it=case["max_it"], thr=0.001, mask=mask, use_c=site.startswith("c."),
                                  keep_averages=True, **kw)
    return {"avg": avg, "avg_masked": avg2, "loop_steps": len(res[1]), "c_unchanged": bool((c == c_before).all())}


def judge(case, got, exp):
    if "crash" in got:
        return {"kind": "crash", "detail": got}
    if "exc" in got:
        return {"kind": "exception:" + got["exc"], "detail": got.get("msg")}
    if exp.get("skip"):
        return None
    g = got["ok"]
    avg = g["avg"]
    if not g["c_unchanged"]:
        return {"kind": "initial-average-modified"}
    if g["loop_steps"] > case["max_it"]:
        return {"kind": "too-many-iterations", "steps": g["loop_steps"], "max_it": case["max_it"]}
    if [list(map(float, r)) for r in g["avg_masked"]] != [list(map(float, r)) for r in avg]:
        return {"kind": "unselected-series-influence-result"}
    mean = [[Fraction(x) for x in row] for row in exp["mean"]]
    want = [[float(x) for x in row] for row in mean]
    gotl = [[float(x) for x in row] for row in avg]
    sel = [_pt(p) for s, m in zip(case["series"], case["mask"]) if m for p in s]
    nd = case["ndim"]
    for k in range(nd):
        lo, hi = min(p[k] for p in sel), max(p[k] for p in sel)
        if any(not (lo <= row[k] <= hi) for row in gotl):
            return {"kind": "outside-value-range", "dim": k, "avg": gotl, "range": [lo, hi]}
    if case["identical"] and gotl != [[float(v) for v in _pt(p)] for p in case["c"]]:
        return {"kind": "identical-series-not-a-fixed-point", "avg": gotl}
    if gotl == want:
        return None
    if case["site"].startswith("py."):
        return {"kind": "differs-from-model-mean", "got": gotl, "model": want}
    if exp.get("unique"):
        # every selected series has exactly one optimal warping path: both engines must produce the same update
        return {"kind": "c-differs-although-optimal-paths-unique", "got": gotl, "model": want}
    return {"kind": "c-differs-from-python-model", "got": gotl, "model": want, "needs_objective_check": True}


def refine(case, got, exp, mismatch, oracle):
    """the C engine may follow a different optimal path: accept its result iff the property's own postcondition
    holds -- the sum of squared DTW distances to the selected series (extracted model, exact) does not increase"""
    avg = [[Fraction(float(x)).limit_denominator(10 ** 6) for x in row] for row in got["ok"]["avg"]]
    lines, Q = objective_lines(case, avg)
    ans = oracle.query(lines)
    if any(a.startswith("ERR") or a == "inf" for a in ans):
        return {"kind": "objective-not-computable", "detail": ans}
    new = Fraction(sum(int(a) for a in ans), Q * Q)
    if new <= exp["old"]:
        return None
    return {"kind": "objective-increased", "old": exp["old"], "new": float(new), "avg": mismatch["got"]}


def nontrivial(case, exp):
    return len(case["series"]) > 1 and not exp.get("skip")


def case_key(case):
    return repr((case["site"], case["series"], case["c"], case["mask"], case["as_matrix"], sorted(case["settings"].items(), key=str)))


def case_size(case):
    return len(case["series"]) + len(case["c"])


def histogram_keys(case):
    return ["site:" + case["site"], "ndim:%d" % case["ndim"], "nseries=%d" % len(case["series"]),
            "container:" + ("matrix" if case["as_matrix"] else "list"), "window:%s" % case["settings"]["window"],
            "penalty:%s" % case["settings"]["penalty"], "identical:%s" % case["identical"],
            "masked_out=%d" % (len(case["mask"]) - sum(case["mask"]))]
