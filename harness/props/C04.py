"""C04: accumulated-cost matrix is cell-wise optimal and identical across engines."""
import math

from harness import dtwgen

COQ_FILES = ["theories/BandTie.v", "theories/PyWps.v", "theories/PyWpsProofs.v", "gen/Gen_cfill.v", "gen/Gen_cexpand.v",
             "theories/CFill.v", "theories/CExpand.v", "theories/CFillSim.v", "gen/Gen_pywps.v", "theories/PyWpsGen.v",
             "gen/Gen_cwpsk.v", "gen/Gen_cexpw.v", "theories/CWpsCanon.v", "theories/CWpsKernel.v", "theories/CWpsTie.v", "theories/CWpsCanonEu.v", "theories/CWpsValue.v", "theories/CWpsSpec.v", "theories/CWpsTieEu.v", "theories/CWpsSpecEu.v", "theories/CExpW.v", "theories/CWpsPrune.v", "theories/CWpsSpecB.v", "theories/CWpsSpecBEu.v", "theories/CWpsValueB.v", "gen/Gen_cdist.v", "theories/CDistCanon.v", "theories/CDistTie.v", "theories/CDistProofs.v", "theories/CDistSpec.v", "theories/CWpsMarks.v", "gen/Gen_cparts.v", "theories/CParts.v", "theories/CWpsFinal.v", "props/C04.v"]
THEOREMS = [("DVProps.C04", "C04_cell_lower_bound"), ("DVProps.C04", "C04_cell_attained"),
            ("DVProps.C04", "C04_matrix_shape"), ("DVProps.C04", "C04_out_of_band_inf"),
            ("DVProps.C04", "C04_code_matrix_is_spec"), ("DVProps.C04", "C04_code_matrix_with_bound"),
            ("DVProps.C04", "C04_code_value"), ("DVProps.C04", "C04_c_fill_and_expand_agree_on_the_slot"),
            ("DVProps.C04", "C04_c_fill_stores_the_matrix"), ("DVProps.C04", "C04_c_recurrence_texts"),
            ("DVProps.C04", "C04_c_fill_rows_store_the_matrix"), ("DVProps.C04", "C04_py_warping_paths_fill_as_written"),
            ("DVProps.C04", "C04_py_warping_paths_fill_as_written_with_bound"),
            ("DVProps.C04", "C04_c_wps_kernel_as_written"),
            ("DVProps.C04", "C04_c_wps_kernel_returns_the_dtw_value"),
            ("DVProps.C04", "C04_c_wps_euclidean_kernel_as_written"),
            ("DVProps.C04", "C04_c_fill_then_expand_as_written"),
            ("DVProps.C04", "C04_c_wps_value_is_the_distance_kernels_value"),
            ("DVProps.C04", "C04_c_wps_kernel_marks_as_written")]
TRUSTED_BASE = [
    "Coq 8.16.1 kernel (no native_compute)",
    "tools/translate_py.py (band expressions of dtw.warping_paths regenerated into coq/gen/Gen_dtw.v)",
    "extraction (ExtrOcamlBasic only) + coq/extract/driver.ml",
    "tools/pyfun.py: the body of dtw.warping_paths from the length test to the end of the row loop is regenerated "
    "(Gen_pywps.v: NumPy matrix as a flat row-major list, both coordinates of every 2-D subscript checked, pruning "
    "bookkeeping) and PROVED to fill the matrix of the hand model cell by cell with no subscript out of range "
    "(C04_py_warping_paths_fill_as_written[_with_bound]); the part after the row loop (result transform, end-of-series "
    "scans with NumPy slices, -1 marks) stays hand-modelled; the extracted fill is compared with the matrix "
    "dtw.warping_paths returns (oracle command pywpsgen)",
    "dtw.warping_paths is modelled as written (PyWps.wps_code_model: band from the regenerated expressions, pruning "
    "bookkeeping, borders, end scans) and PROVED against the specification (C04_code_matrix_is_spec / _with_bound / "
    "_code_value); the hand model is tied to the code by correspondence: value and EVERY cell, pruned cells included "
    "(oracle command pywps)",
    "tools/cfun.py: the C kernel dtw_warping_paths_ndim is regenerated WHOLE from dd_dtw.c (Gen_cwpsk.v) and PROVED, "
    "for a run without a bound on two series of points, to leave in every slot of the compact array the cell of the "
    "specification matrix the layout assigns to it, every access in range (C04_c_wps_kernel_as_written; the DTWWps "
    "members are the regenerated dtw_wps_parts expressions, max_step / penalty as dtw_wps_parts squares them) and to "
    "return the DTW value of the specification, by the corner read or the two end-of-series scans, with the sqrt pass "
    "when asked (C04_c_wps_kernel_returns_the_dtw_value); the same for the Euclidean twin "
    "(C04_c_wps_euclidean_kernel_as_written); the bounded run of the squared kernel is proved under C03 "
    "(C03_c_wps[_euclidean]_kernel_with_bound_as_written: cells equal or both above the bound); the -1 marks of the squared kernel without a bound are proved "
    "(C04_c_wps_kernel_marks_as_written, CWpsMarks.v); the marks under a bound and of the Euclidean twin are "
    "regenerated too and tied by correspondence (site c.wpsk: extracted regenerated kernels vs the compiled ones, "
    "cell by cell); dtw_expand_wps_slice is regenerated whole as well (Gen_cexpw.v), PROVED to copy every kept cell of "
    "the compact array to its place in the block for every slice, all accesses in range (C04_c_fill_then_expand_as_written, "
    "CExpW.v), and compared with the compiled routine on the whole matrix and on random slices of every c.wpsk case; the "
    "Python-side unpacking stays hand-modelled and tied by correspondence",
    "binary64 arithmetic exact on the integer-valued stream; sqrt correctly rounded",
]
ASSUMPTIONS = ["exact arithmetic", "freedom of the property applied in judge(): cells above max_dist may be inf or "
               "any value above the bound; with psi_neg the cells beyond an optimal end cell are -1"]
RULE = ("random series x window x penalty x psi x max_step x max_dist x inner_dist x keep_int_repr x psi_neg x "
        "site in {py.wps (value, every cell and the -1 marks exact vs the as-written models), c.wps (full), c.wps_compact (every slot of the compact array exact vs the extracted model of the C fill loops, content judged through the layout) + dtw_expand_wps + random dtw_expand_wps_slice (ctypes)}; "
        "non-trivial = band strict subset or psi/penalty/max_step/max_dist active")
GUARD = "lengths>=1, window None or >=1, penalty>=0, non-degenerate psi"


def wpsk_case(rng, maxlen):
    """struct-level input for the kernels that fill the compact warping-paths array (dtw_warping_paths_ndim /
    _ndim_euclidean called through ctypes on a buffer of exactly dtw_settings_wps_length cells, pre-filled with 777):
    compared cell by cell, marks and value included, with the kernels regenerated from dd_dtw.c (oracle cwpsk)"""
    variant = rng.randint(0, 1)
    nd = rng.choice([1, 1, 2, 3])
    if rng.random() < 0.35:
        r, c = dtwgen.focus_lengths(rng, max(5, maxlen))
    else:
        r, c = rng.randint(1, maxlen), rng.randint(1, maxlen)
    m = max(r, c)
    psi = [rng.choice([0, 0, rng.randint(0, r)]), rng.choice([0, 0, rng.randint(0, r)]),
           rng.choice([0, 0, rng.randint(0, c)]), rng.choice([0, 0, rng.randint(0, c)])]
    st = {"window": rng.choice([0, 0, 1, 1, 2, 3, rng.randint(1, m + 2)]), "max_dist": rng.choice([0, 0, 0, 1, 2, 3, 5, 9]),
          "max_step": rng.choice([0, 0, 0, 1, 2, 3, 4]), "penalty": rng.choice([0, 0, 1, 2, 3]), "psi": psi,
          "use_pruning": rng.random() < 0.2, "only_ub": rng.random() < 0.03}
    s1 = dtwgen.rand_series(rng, r, nd) if nd > 1 else [[v] for v in dtwgen.rand_series(rng, r, 1)]
    s2 = dtwgen.rand_series(rng, c, nd) if nd > 1 else [[v] for v in dtwgen.rand_series(rng, c, 1)]
    if nd > 1 and variant == 1:
        from harness.props import C11
        single = ([rng.randint(-2, 2) for _ in range(nd)], rng.randrange(nd))
        if rng.random() < 0.5:
            a, b = rng.choice(C11.PYTH)
            direction = [0] * nd
            i, j = rng.sample(range(nd), 2)
            direction[i], direction[j] = a, b
            single = ("line", [rng.randint(-2, 2) for _ in range(nd)], direction)
        s1, s2 = C11.rand_nd(rng, r, nd, single), C11.rand_nd(rng, c, nd, single)
    # the squared kernel is compared in the internal representation (the final sqrt loop maps a cell v to sqrt(v); the
    # integer model can only follow it on perfect squares)
    flags = {"return_dtw": rng.random() < 0.9, "keep_int_repr": True if variant == 0 else rng.random() < 0.5,
             "psi_neg": rng.random() < 0.5}
    # blocks of the full matrix expanded from the compact array: the whole matrix and two random slices
    sl = [[0, r + 1, 0, c + 1]]
    for _ in range(2):
        rb = rng.randint(0, r)
        cb = rng.randint(0, c)
        sl.append([rb, rng.randint(rb + 1, r + 1), cb, rng.randint(cb + 1, c + 1)])
    return {"site": "c.wpsk", "variant": variant, "ndim": nd, "r": r, "c": c, "s1": s1, "s2": s2, "cst": st, "flags": flags, "kslices": sl,
            "psi_neg": flags["psi_neg"], "keep_int_repr": flags["keep_int_repr"], "p1b": psi[0], "p1e": psi[1], "p2b": psi[2], "p2e": psi[3],
            "settings": {"window": st["window"] or None, "psi": psi, "penalty": st["penalty"], "max_step": st["max_step"],
                         "max_dist": st["max_dist"], "use_pruning": st["use_pruning"], "max_length_diff": None,
                         "inner_dist": "euclidean" if variant else "squared euclidean"}}


def wpsk_line(c):
    st, fl = c["cst"], c["flags"]
    flat = lambda s: " ".join(str(int(v)) for p in s for v in p)
    return "cwpsk %d %d %d %d %d %d %d %d %d %d %d %d %d %d %d %d %s %d %s %d %s" % (
        c["variant"], st["window"], st["max_dist"], st["max_step"], st["penalty"], st["psi"][0], st["psi"][1], st["psi"][2],
        st["psi"][3], int(st["use_pruning"]), int(st["only_ub"]), int(fl["return_dtw"]), int(fl["keep_int_repr"]),
        int(fl["psi_neg"]), c["ndim"], len(c["s1"]), flat(c["s1"]), len(c["s2"]), flat(c["s2"]),
        len(c["kslices"]), " ".join("%d %d %d %d" % tuple(x) for x in c["kslices"]))


def gen_cases(rng, tier):
    n = 2400 if tier == "quick" else 30000
    maxlen = 7 if tier == "quick" else 10
    cases = [wpsk_case(rng, maxlen) for _ in range(n // 3)]
    for k in range(n):
        site = ["py.wps", "c.wps", "c.wps_compact"][k % 3]
        case = dtwgen.rand_case(rng, site, maxlen=maxlen)
        case["settings"]["max_dist"] = rng.choice([None, None, None, 1, 2, 3, 5])
        case["keep_int_repr"] = rng.random() < 0.3
        case["psi_neg"] = rng.random() < 0.4
        case["container"] = "ndarray"
        mld = case["settings"]["max_length_diff"]
        case["too_long"] = mld is not None and abs(case["r"] - case["c"]) > mld
        if site == "c.wps_compact":
            r, c = case["r"], case["c"]
            sl = []
            for _ in range(3):
                rb = rng.randint(0, r)
                re = rng.randint(rb + 1, r + 1)
                cb = rng.randint(0, c)
                ce = rng.randint(cb + 1, c + 1)
                sl.append([rb, re, cb, ce])
            case["slices"] = sl
        cases.append(case)
    return cases


def expected(cases, oracle):
    kidx = [k for k, c in enumerate(cases) if c["site"] == "c.wpsk"]
    kans = dict(zip(kidx, oracle.query([wpsk_line(cases[k]) for k in kidx])))
    allc = cases
    cases = [c for c in allc if c["site"] != "c.wpsk"]
    rest = iter(expected_main(cases, oracle))
    return [({"wpsk": kans[k]} if c["site"] == "c.wpsk" else next(rest)) for k, c in enumerate(allc)]


def expected_main(cases, oracle):
    lines = []
    for c in cases:
        lines.append(dtwgen.oracle_line("wps", c))
        lines.append(dtwgen.oracle_line("dtw", c))
    ans = oracle.query(lines)
    out = []
    for k, c in enumerate(cases):
        a, b = ans[2 * k], ans[2 * k + 1]
        if a.startswith("ERR") or b.startswith("ERR"):
            out.append({"err": a + b})
            continue
        m = [[math.inf if t == "inf" else int(t) for t in row.split()] for row in a.split(" ; ")]
        out.append({"m": m, "d": math.inf if b == "inf" else int(b)})
    # dtw.warping_paths as written (proved against the specification): exact prediction of value and matrix
    idx, lines = [], []
    for k, c in enumerate(cases):
        if c["site"] != "py.wps" or "err" in out[k]:
            continue
        adj, _ = _bounds(c)
        idx.append(k)
        lines.append(dtwgen.oracle_line("pywps %d 1" % (-1 if adj is None else adj), c))
    for k, a in zip(idx, oracle.query(lines)):
        if a.startswith("ERR"):
            out[k]["code"] = {"err": a}
        elif a == "none":
            out[k]["code"] = None
        else:
            d, mt = a.split(" | ")
            out[k]["code"] = {"d": math.inf if d == "inf" else int(d),
                              "m": [[math.inf if t == "inf" else int(t) for t in row.split()] for row in mt.split(" ; ")]}
    # the fill part of dtw.warping_paths as REGENERATED from dtw.py (Gen_pywps.v, proved equal to the as-written model)
    rlines = []
    for k in idx:
        adj, _ = _bounds(cases[k])
        rlines.append(dtwgen.oracle_line("pywpsgen %d" % (-1 if adj is None else adj), cases[k]))
    for k, a in zip(idx, oracle.query(rlines)):
        if not isinstance(out[k].get("code"), dict) or "err" in out[k]["code"]:
            continue
        if a.startswith("ERR"):
            out[k]["code"]["regen"] = {"err": a}
        elif a.startswith("none"):
            out[k]["code"]["regen"] = None
        else:
            mt, okflag = a.rsplit(" | ", 1)
            out[k]["code"]["regen"] = {"ok": okflag == "ok",
                                       "m": [[math.inf if t == "inf" else int(t) for t in row.split()] for row in mt.split(" ; ")]}
    # the compact array as the model of the C fill loops leaves it (CFillSim.stored_rows), for cases without a bound
    idx, lines = [], []
    for k, c in enumerate(cases):
        if c["site"] != "c.wps_compact" or "err" in out[k] or _bounds(c)[0] is not None or c["settings"].get("max_length_diff") is not None:
            continue
        idx.append(k)
        lines.append(dtwgen.oracle_line("ccompact", c))
    for k, a in zip(idx, oracle.query(lines)):
        if not a.startswith("ERR"):
            out[k]["ccompact"] = [[math.inf if t == "inf" else int(t) for t in row.split()] for row in a.split(" ; ")]
    # the -1 marks of the end relaxation as written (RelaxedEnd.marked over the specification matrix, which the
    # as-written matrix equals when there is no bound)
    idx, lines = [], []
    for k, c in enumerate(cases):
        if c["site"] != "py.wps" or "err" in out[k] or not c.get("psi_neg") or _bounds(c)[0] is not None:
            continue
        idx.append(k)
        lines.append(dtwgen.oracle_line("marks", c))
    for k, a in zip(idx, oracle.query(lines)):
        if isinstance(out[k].get("code"), dict) and "err" not in out[k]["code"]:
            out[k]["code"]["marks"] = None if a.startswith("ERR") else sorted(
                [int(x) for x in t.split(",")] for t in a.split())
    return out


def impl_run(case):
    from harness import dtwimpl
    site = case["site"]
    if site == "c.wpsk":
        import ctypes
        from harness import craw
        L = craw.lib()
        cs, fl = case["cst"], case["flags"]
        st = L.dtw_settings_default()
        for f in ("window", "max_dist", "max_step", "penalty", "use_pruning", "only_ub"):
            setattr(st, f, cs[f])
        st.inner_dist = case["variant"]
        st.psi_1b, st.psi_1e, st.psi_2b, st.psi_2e = cs["psi"]
        a, b = craw.arr(case["s1"]), craw.arr(case["s2"])
        n = L.dtw_settings_wps_length(len(case["s1"]), len(case["s2"]), ctypes.byref(st))
        buf = (craw.seq_t * n)(*([777.0] * n))
        name = "dtw_warping_paths_ndim" if case["variant"] == 0 else "dtw_warping_paths_ndim_euclidean"
        f = getattr(L, name)
        f.restype = craw.seq_t
        f.argtypes = L.dtw_warping_paths_ndim.argtypes
        v = f(buf, a, len(case["s1"]), b, len(case["s2"]), fl["return_dtw"], fl["keep_int_repr"], fl["psi_neg"], case["ndim"],
              ctypes.byref(st))
        # dtw_expand_wps_slice on that compact array, into exact-size blocks pre-filled with 555
        blocks = []
        for rb, re, cb, ce in case["kslices"]:
            m = (re - rb) * (ce - cb)
            full = (craw.seq_t * m)(*([555.0] * m))
            L.dtw_expand_wps_slice(buf, full, len(case["s1"]), len(case["s2"]), rb, re, cb, ce, ctypes.byref(st))
            blocks.append(list(full))
        return {"v": v, "cells": list(buf), "blocks": blocks}
    res = dtwimpl.run(case)
    if site != "c.wps_compact" or not isinstance(res, dict):
        return res
    # expand the compact matrix with the raw C routines (exact-size, red-zoned output buffers)
    import ctypes as C
    import numpy as np
    from harness import craw
    L = craw.lib()
    comp = np.ascontiguousarray(res["compact"], dtype=np.double)
    r, c = len(case["s1"]), len(case["s2"])
    st = craw.settings(case["settings"])
    wp = comp.ctypes.data_as(C.POINTER(C.c_double))
    out = {"d": res["d"], "slices": [], "guard_ok": True}
    # the compact array read through the layout of CWps.v (matrix column = slot + shift(row - 1)): the content the
    # traceback theorems (CTrace.v) assume -- band cells AND the filled slots around them
    pp = L.dtw_wps_parts(r, c, C.byref(st))
    width = int(pp.width)

    def shift(ri):
        if ri < pp.ri2:
            return 0
        if ri < pp.ri3:
            return 1 + ri - int(pp.ri2)
        return 0 if pp.ri2 == pp.ri3 else int(pp.ri3 - pp.ri2)
    flat = comp.reshape(-1)
    view, beyond = [], []
    if flat.size == (r + 1) * width:
        for i in range(r + 1):
            sh = shift(i - 1)
            for sl in range(width):
                v = float(flat[i * width + sl])
                j = sl + sh
                if j <= c:
                    view.append([i, j, v])
                else:
                    beyond.append([i, sl, v])
        out["layout_view"] = view
        out["layout_beyond"] = beyond
        out["compact_rows"] = [[float(flat[i * width + sl]) for sl in range(width)] for i in range(r + 1)]
    else:
        out["layout_size"] = [int(flat.size), (r + 1) * width]
    # red zones as large as the whole matrix: a stray write of the slice routine (finding F17, since fixed) lands in
    # the zone and is reported for THIS case instead of corrupting the heap of the worker
    ZONE = (r + 2) * (c + 2)
    SENT = 12345.678
    for (rb, re, cb, ce) in [[0, r + 1, 0, c + 1]] + case["slices"]:
        n = (re - rb) * (ce - cb)
        buf = np.full(n + 2 * ZONE, SENT, dtype=np.double)
        L.dtw_expand_wps_slice(wp, buf[ZONE:].ctypes.data_as(C.POINTER(C.c_double)), r, c, rb, re, cb, ce, C.byref(st))
        ok = bool((buf[:ZONE] == SENT).all() and (buf[ZONE + n:] == SENT).all())
        out["guard_ok"] = out["guard_ok"] and ok
        out["slices"].append({"sl": [rb, re, cb, ce], "m": buf[ZONE:ZONE + n].reshape(re - rb, ce - cb), "guard": ok})
    return out


def _transform(v, case):
    if v == math.inf:
        return math.inf
    if case.get("keep_int_repr") or dtwgen.inner_code(case["settings"]["inner_dist"]) == 1:
        return float(v)
    return math.sqrt(v)


def _bounds(case):
    s = case["settings"]
    md = s.get("max_dist")
    if not md:
        return None, None
    adj = md * md if dtwgen.inner_code(s["inner_dist"]) == 0 else md
    shown = adj if (case.get("keep_int_repr") or dtwgen.inner_code(s["inner_dist"]) == 1) else md
    return adj, shown


def expected_d(case, exp):
    d = exp["d"]
    adj, shown = _bounds(case)
    if adj is not None and d != math.inf and d > adj:
        return math.inf
    return _transform(d, case)


def judge_matrix(case, exp, got_m, r0=0, c0=0, allow_marks=True):
    """Compare got_m (rows r0.., cols c0..) with the expected matrix applying the property's freedoms.
    Returns None or a mismatch description."""
    E = exp["m"]
    r, c = case["r"], case["c"]
    adj, shown = _bounds(case)
    nr = len(got_m)
    ncol = len(got_m[0]) if nr else 0
    final_d = expected_d(case, exp)
    marks = set()
    border = None
    for a in range(nr):
        if len(got_m[a]) != ncol:
            return {"kind": "shape"}
        for b in range(ncol):
            i, j = r0 + a, c0 + b
            g = got_m[a][b]
            e = E[i][j]
            if g == -1 and case.get("psi_neg") and allow_marks and ((j == c and i >= 1) or (i == r and j >= 1)):
                marks.add((i, j))
                continue
            if adj is not None and e != math.inf and e > adj:
                if g == math.inf or (isinstance(g, (int, float)) and g > shown):
                    continue
                return {"kind": "cell-above-maxdist", "cell": [i, j], "got": g, "bound": shown}
            t = _transform(e, case)
            if isinstance(g, (int, float)) and float(g) == t:
                continue
            if (i == 0 or j == 0) and g == math.inf:
                border = border or {"kind": "border-cell-inf", "cell": [i, j], "got": g, "expected": t}
                continue
            return {"kind": "wrong-cell", "cell": [i, j], "got": g, "expected": t}
    if border is not None:
        return border
    if final_d == math.inf:
        return None      # no alignment: nothing is "skipped", marks carry no meaning
    full = (r0 == 0 and c0 == 0 and nr == r + 1 and ncol == c + 1)
    # admissible mark sets: the cells beyond an optimal end cell, along the last column or the last row
    ok_sets = []
    for k in range(0, min(case["p1e"], r - 1) + 1):
        if E[r - k][c] == exp["d"]:
            ok_sets.append(set((i, c) for i in range(r - k + 1, r + 1)))
    for k in range(0, min(case["p2e"], c - 1) + 1):
        if E[r][c - k] == exp["d"]:
            ok_sets.append(set((r, j) for j in range(c - k + 1, c + 1)))
    inside = lambda cell: r0 <= cell[0] < r0 + nr and c0 <= cell[1] < c0 + ncol
    for st in ok_sets:
        if set(x for x in st if inside(x)) == marks:
            return None
    if not case.get("psi_neg") and not marks:
        return None
    return {"kind": "marks-wrong", "marks": sorted(marks), "full": full}


def judge_wpsk(case, g, exp):
    a = exp["wpsk"]
    if a.startswith("ERR"):
        return {"kind": "oracle-error", "detail": a}
    parts = a.split(" | ")
    head, cells, okflag = parts[:3]
    if okflag != "ok":
        return {"kind": "wpsk:regenerated-kernel-reports-out-of-bounds-access", "model": head}
    tag, val = head.split()
    v = math.inf if val == "inf" else int(val)
    if tag == "sqrt" and v != math.inf:
        v = math.sqrt(v)
    if float(g["v"]) != float(v):
        return {"kind": "wpsk:value-differs-from-regenerated-kernel", "c": g["v"], "model": head}
    mc = [math.inf if t == "inf" else int(t) for t in cells.split()]
    if len(mc) != len(g["cells"]):
        return {"kind": "wpsk:buffer-length", "c": len(g["cells"]), "model": len(mc)}
    for k, (x, y) in enumerate(zip(g["cells"], mc)):
        if float(x) != float(y):
            return {"kind": "wpsk:cell-differs-from-regenerated-kernel", "slot": k, "c": float(x), "model": y}
    # the expanded blocks (the regenerated dtw_expand_wps_slice applied to the regenerated kernel's array)
    for n, (sl, blk) in enumerate(zip(case["kslices"], g["blocks"])):
        mcells, mok = parts[3 + 2 * n], parts[4 + 2 * n]
        if mok != "ok":
            return {"kind": "wpsk:regenerated-expand-reports-out-of-bounds-access", "slice": sl}
        mb = [math.inf if t == "inf" else int(t) for t in mcells.split()]
        if len(mb) != len(blk):
            return {"kind": "wpsk:expand-block-length", "slice": sl}
        for k, (x, y) in enumerate(zip(blk, mb)):
            if float(x) != float(y):
                return {"kind": "wpsk:expanded-cell-differs-from-regenerated-expand", "slice": sl, "index": k, "c": float(x), "model": y}
    return None


def judge(case, got, exp):
    if case["site"] == "c.wpsk":
        if "crash" in got:
            return {"kind": "crash", "detail": got}
        if "exc" in got:
            return {"kind": "harness-exception:" + got["exc"], "detail": got.get("msg")}
        return judge_wpsk(case, got["ok"], exp)
    if "err" in exp:
        return {"kind": "oracle-error", "detail": exp["err"]}
    if "crash" in got:
        return {"kind": "crash", "detail": got}
    if "exc" in got:
        return {"kind": "exception:" + got["exc"], "detail": got.get("msg")}
    g = got["ok"]
    if "code" in exp:
        mm = judge_as_written(case, exp["code"], g)
        if mm is not None:
            return mm
    ed = expected_d(case, exp)
    # too_long: python returns a bare inf instead of (inf, matrix)
    if not isinstance(g, dict):
        if case.get("too_long") and g == math.inf:
            return None
        return {"kind": "bad-return", "got": g}
    gd = g["d"]
    if not (isinstance(gd, (int, float)) and float(gd) == ed):
        return {"kind": "wrong-distance" if gd != math.inf else "spurious-inf", "got": gd, "expected": ed}
    if case["site"] in ("py.wps", "c.wps"):
        m = g["m"]
        if len(m) != case["r"] + 1 or any(len(row) != case["c"] + 1 for row in m):
            return {"kind": "shape", "got": [len(m), len(m[0]) if m else 0]}
        return judge_matrix(case, exp, m)
    if not g.get("guard_ok", True):
        return {"kind": "slice-out-of-bounds-write", "slices": [s["sl"] for s in g["slices"] if not s["guard"]]}
    if "layout_size" in g:
        return {"kind": "compact-array-size", "got": g["layout_size"]}
    if "ccompact" in exp and "compact_rows" in g:
        # the model of the fill loops as written predicts every slot (the -1 marks of psi_neg aside)
        cm, cr = exp["ccompact"], g["compact_rows"]
        if len(cm) != len(cr) or any(len(a) != len(b) for a, b in zip(cm, cr)):
            return {"kind": "fill-model-differs:shape", "got": [len(cr), len(cr[0]) if cr else 0],
                    "model": [len(cm), len(cm[0]) if cm else 0]}
        for i, (ra, rb2) in enumerate(zip(cr, cm)):
            for sl, (x, y) in enumerate(zip(ra, rb2)):
                if case.get("psi_neg") and x == -1:
                    continue
                if x != _transform(y, case):
                    return {"kind": "fill-model-differs:slot", "row": i, "slot": sl, "got": x, "model": _transform(y, case)}
    if "layout_view" in g:
        # overlay the compact content on the expected matrix and judge it with the same freedoms
        E = exp["m"]
        G = [[_transform(E[i][j], case) for j in range(case["c"] + 1)] for i in range(case["r"] + 1)]
        seen = set()
        for i, j, v in g["layout_view"]:
            if (i, j) in seen:
                return {"kind": "layout:two-slots-for-one-cell", "cell": [i, j]}
            seen.add((i, j))
            G[i][j] = v
        mm = judge_matrix(case, exp, G, allow_marks=True)
        if mm is not None and mm["kind"] != "marks-wrong":
            mm["kind"] = "layout:" + mm["kind"]
            return mm
        for i, sl, v in g["layout_beyond"]:
            if v != math.inf:
                return {"kind": "layout:slot-beyond-last-column-not-inf", "row": i, "slot": sl, "got": v}
    for k, s in enumerate(g["slices"]):
        rb, re, cb, ce = s["sl"]
        mm = judge_matrix(case, exp, s["m"], rb, cb, allow_marks=True)
        if mm is not None:
            mm["slice"] = s["sl"]
            mm["kind"] = ("expand:" if k == 0 else "slice:") + mm["kind"]
            return mm
    return None


def judge_as_written(case, code, g):
    """the extracted as-written model of dtw.warping_paths predicts the implementation exactly: the value and every
    cell, including the cells early abandoning leaves at inf (psi_neg marks -1 are skipped)."""
    if isinstance(code, dict) and "err" in code:
        return {"kind": "oracle-error", "detail": code["err"]}
    if code is None:
        return None if not isinstance(g, dict) else {"kind": "as-written-model-differs:bare-inf-expected", "got": str(g)[:80]}
    if not isinstance(g, dict):
        return {"kind": "as-written-model-differs:matrix-expected", "got": str(g)[:80]}
    if float(g["d"]) != _transform(code["d"], case):
        return {"kind": "as-written-model-differs:value", "got": g["d"], "model": _transform(code["d"], case)}
    m = g["m"]
    if len(m) != len(code["m"]) or any(len(a) != len(b) for a, b in zip(m, code["m"])):
        return {"kind": "as-written-model-differs:shape"}
    for i, (ra, rb) in enumerate(zip(m, code["m"])):
        for j, (x, y) in enumerate(zip(ra, rb)):
            if case.get("psi_neg") and float(x) == -1:
                continue
            if float(x) != _transform(y, case):
                return {"kind": "as-written-model-differs:cell", "cell": [i, j], "got": float(x), "model": _transform(y, case)}
    rg = code.get("regen")
    if isinstance(rg, dict):
        if "err" in rg:
            return {"kind": "oracle-error", "detail": rg["err"]}
        if not rg["ok"]:
            return {"kind": "regenerated-fill-reports-bad-subscript"}
        if len(m) != len(rg["m"]) or any(len(a) != len(b) for a, b in zip(m, rg["m"])):
            return {"kind": "regenerated-fill-differs-from-code:shape"}
        for i, (ra, rb) in enumerate(zip(m, rg["m"])):
            for j, (x, y) in enumerate(zip(ra, rb)):
                if case.get("psi_neg") and float(x) == -1:
                    continue
                if float(x) != _transform(y, case):
                    return {"kind": "regenerated-fill-differs-from-code:cell", "cell": [i, j], "got": float(x),
                            "regenerated": _transform(y, case)}
    if code.get("marks") is not None:
        got = sorted([i, j] for i, row in enumerate(m) for j, x in enumerate(row) if float(x) == -1)
        if got != code["marks"]:
            return {"kind": "as-written-model-differs:marks", "got": got, "model": code["marks"]}
    return None


def nontrivial(case, exp):
    s = case["settings"]
    return bool((s["window"] is not None and s["window"] < max(case["r"], case["c"])) or s["psi"] or s["penalty"]
                or s["max_step"] or s.get("max_dist"))


def case_key(case):
    return repr((case["site"], case["s1"], case["s2"], sorted(case["settings"].items()), case.get("psi_neg"),
                 case.get("keep_int_repr")))


def case_size(case):
    return case["r"] + case["c"]


def histogram_keys(case):
    return dtwgen.hist(case) + ["site:" + case["site"], "psi_neg:%s" % case.get("psi_neg"),
                                "keep_int_repr:%s" % case.get("keep_int_repr"),
                                "max_dist:" + ("on" if case["settings"].get("max_dist") else "off")]
