"""C13: subsequence-alignment matching function = best DTW over all start points."""
import math

from harness import dtwgen

COQ_FILES = ["theories/Subseq.v", "theories/KBest.v", "props/C13.v"]
THEOREMS = [("DVProps.C13", n) for n in ("C13_matching_is_lower_bound_for_every_start",
                                         "C13_matching_attained_by_a_path", "C13_matching_le_every_path",
                                         "C13_kbest_iterator", "C13_no_overlap_one_shared_sample",
                                         "C13_kbest_terminates")]
TRUSTED_BASE = [
    "Coq 8.16.1 kernel",
    "SubsequenceAlignment is dtw.warping_paths with psi=(0,0,len,len) (modelled by DtwSpec) plus glue "
    "(_compute_matching, segment/path extraction, the k-best iterator) tied by correspondence: matching function vs "
    "exhaustive minimum over start points computed by the extracted DTW model; the k-best iterator is modelled as a "
    "state machine (KBest.v: order, distinct ends, limits, disjoint masked ranges, termination PROVED) and the "
    "extracted machine (oracle command kbest), fed with the implementation's own matching function and segment "
    "begins, must yield exactly the implementation's sequence of matches",
    "extraction + driver.ml",
]
ASSUMPTIONS = ["exact arithmetic (integer series, integer penalty)"]
RULE = ("(query 1..5, series 1..9) x penalty x ndim x engine: matching[e]*len(q) == sqrt(min over b<=e of DTW(q, "
        "series[b..e])) for every e; best match segment/path realise the value; k-best iterator x k, overlap, "
        "minlength, maxlength: distinct end points, non-decreasing values, length limits, no overlap, Python == C, "
        "interleaved generators on one object == separate runs")
GUARD = "window None (as the class uses it)"


def gen_cases(rng, tier):
    n = 600 if tier == "quick" else 6000
    cases = []
    for k in range(n):
        nd = 1 if rng.random() < 0.8 else 2
        lq = rng.randint(1, 5)
        ls = rng.randint(1, 9)
        cases.append({"site": "sa", "query": dtwgen.rand_series(rng, lq, nd, lo=-2, hi=2),
                      "series": dtwgen.rand_series(rng, ls, nd, lo=-2, hi=2), "ndim": nd,
                      "penalty": rng.choice([0, 0, 1, 2]), "k": rng.choice([None, 1, 2, 3, 5]),
                      "overlap": rng.choice([0, 0, 0, 1, 2]), "minlength": rng.choice([1, 2, 2, 3]),
                      "maxlength": rng.choice([None, None, 3, 5])})
    return cases


def expected(cases, oracle):
    lines = []
    for c in cases:
        st = {"window": None, "penalty": c["penalty"], "psi": None, "max_step": None, "max_length_diff": None,
              "inner_dist": "squared euclidean"}
        ls = len(c["series"])
        for e in range(ls):
            for b in range(e + 1):
                lines.append(dtwgen.oracle_line("dtw", {"s1": c["query"], "s2": c["series"][b:e + 1], "ndim": c["ndim"],
                                                        "settings": st}))
    ans = oracle.query(lines)
    out = []
    p = 0
    for c in cases:
        ls = len(c["series"])
        tab = {}
        for e in range(ls):
            for b in range(e + 1):
                a = ans[p]
                p += 1
                tab[(b, e)] = math.inf if a == "inf" else int(a)
        out.append({"best": [min(tab[(b, e)] for b in range(e + 1)) for e in range(ls)],
                    "tab": {"%d,%d" % k: v for k, v in tab.items()}})
    return out


def impl_run(case):
    import numpy as np
    from dtaidistance.subsequence.subsequencealignment import SubsequenceAlignment
    nd = case["ndim"]
    q = np.array(case["query"], dtype=np.double).reshape((len(case["query"]), nd) if nd > 1 else (len(case["query"]),))
    s = np.array(case["series"], dtype=np.double).reshape((len(case["series"]), nd) if nd > 1 else (len(case["series"]),))
    if nd == 1 and len(case["series"]) % 3 == 0:
        # the same samples as a strided view (every other element of a buffer interleaved with other numbers)
        buf = np.empty(2 * len(s), dtype=np.double)
        buf[0::2] = s
        buf[1::2] = 1e3 + np.arange(len(s))
        s = buf[0::2]
    if nd == 1 and len(case["query"]) % 3 == 0:
        buf = np.empty(2 * len(q), dtype=np.double)
        buf[0::2] = q
        buf[1::2] = -1e3 - np.arange(len(q))
        q = buf[0::2]
    out = {}
    kw = dict(k=case["k"], overlap=case["overlap"], minlength=case["minlength"], maxlength=case["maxlength"])
    for eng, use_c in (("py", False), ("c", True)):
        if (len(case["query"]) + len(case["series"])) % 2 == 0:
            # the documented entry point: subsequence_alignment(query, series, penalty, use_c) = object + align()
            from dtaidistance.subsequence.subsequencealignment import subsequence_alignment
            sa = subsequence_alignment(q, s, penalty=case["penalty"], use_c=use_c)
        else:
            sa = SubsequenceAlignment(q, s, penalty=case["penalty"], use_c=use_c)
            sa.align()
        mf = sa.matching_function()
        bm = sa.best_match()
        res = {"matching": np.array(mf), "best": {"idx": int(bm.idx), "value": float(bm.value),
                                                  "distance": float(bm.distance),
                                                  "segment": [int(x) for x in bm.segment],
                                                  "path": [[int(a), int(b)] for a, b in bm.path]}}
        ms = [{"idx": int(m.idx), "value": float(m.value), "segment": [int(x) for x in m.segment],
               "distance": float(m.distance)}
              for m in sa.kbest_matches(**kw)]
        res["kbest"] = ms
        # the extracted iterator machine on this object's matching function and segment begins
        res["model_kbest"] = kbest_model(case, [float(x) for x in mf],
                                         [int(sa.get_match(i).segment[0]) for i in range(len(mf))], len(q))
        # interleaved iteration of two generators over the same object
        g1, g2 = sa.kbest_matches(**kw), sa.kbest_matches(**kw)
        i1, i2 = [], []
        while True:
            a = next(g1, None)
            b = next(g2, None)
            if a is None and b is None:
                break
            if a is not None:
                i1.append(int(a.idx))
            if b is not None:
                i2.append(int(b.idx))
        res["inter"] = [i1, i2]
        out[eng] = res
    return out


def kbest_model(case, mf, begs, lq):
    """run KBest.kbest (extracted) : values enter as ranks (only comparisons matter), inf as -1"""
    import os
    import subprocess
    fin = sorted(set(v for v in mf if v != math.inf))
    rank = {v: k for k, v in enumerate(fin)}
    slots = [-1 if v == math.inf else rank[v] for v in mf]
    # matching[:min(len(query) - 1, overlap)] = maxv
    for i in range(min(lq - 1, case["overlap"], len(slots))):
        slots[i] = -1 if any(v == math.inf for v in mf) else -2
    maxinf = 1 if any(v == math.inf for v in mf) else 0
    line = "kbest %d %s %s %d %d %d %d %d" % (
        len(mf), " ".join(map(str, slots)), " ".join(map(str, begs)), case["overlap"],
        0 if case["minlength"] is None else case["minlength"], -1 if case["maxlength"] is None else case["maxlength"],
        maxinf, -1 if case["k"] is None else case["k"])
    exe = os.path.join(os.path.dirname(os.path.dirname(os.path.dirname(os.path.abspath(__file__)))), "coq", "extract", "oracle")
    out = subprocess.run([exe], input=line + "\n", capture_output=True, text=True, timeout=60).stdout.strip()
    if out.startswith("ERR"):
        return {"err": out}
    return [[int(t) for t in p.split(",")] for p in out.split()] if out else []


def judge(case, got, exp):
    if "crash" in got:
        return {"kind": "crash", "detail": got}
    if "exc" in got:
        return {"kind": "exception:" + got["exc"], "detail": got.get("msg")}
    g = got["ok"]
    lq, ls = len(case["query"]), len(case["series"])
    want = [math.sqrt(v) / lq if v != math.inf else math.inf for v in exp["best"]]
    for eng in ("py", "c"):
        r = g[eng]
        mf = [float(x) for x in r["matching"]]
        if mf != want:
            return {"kind": "matching-function-wrong:" + eng, "got": mf, "expected": want}
        bm = r["best"]
        b, e = bm["segment"]
        if bm["value"] != min(want) or e != bm["idx"]:
            return {"kind": "best-match-not-minimal:" + eng, "best": bm}
        if not (0 <= b <= e < ls):
            return {"kind": "segment-out-of-range:" + eng, "segment": [b, e]}
        # the reported segment realises the value: DTW(query, series[b..e]) == matching value at e
        if exp["tab"]["%d,%d" % (b, e)] != exp["best"][e]:
            return {"kind": "segment-does-not-realise-value:" + eng, "segment": [b, e],
                    "dtw": exp["tab"]["%d,%d" % (b, e)], "matching": exp["best"][e]}
        # SAMatch.distance: the (penalised) DTW distance of the segment, i.e. value * len(query)
        for m in [bm] + r["kbest"]:
            v = exp["best"][m["idx"]]
            dd = math.sqrt(v) if v != math.inf else math.inf
            if not (m["distance"] == dd or abs(m["distance"] - dd) <= 1e-12 * max(1.0, dd)):
                return {"kind": "match-distance-is-not-the-dtw-distance:" + eng, "idx": m["idx"],
                        "got": m["distance"], "dtw": dd}
        path = bm["path"]
        if not path or path[0][0] != 0 or path[0][1] != b or path[-1] != [lq - 1, e]:
            return {"kind": "path-endpoints-wrong:" + eng, "path": path, "segment": [b, e]}
        for (a1, b1), (a2, b2) in zip(path, path[1:]):
            if (a2 - a1, b2 - b1) not in ((1, 1), (1, 0), (0, 1)):
                return {"kind": "path-bad-step:" + eng, "path": path}
        ms = r["kbest"]
        idxs = [m["idx"] for m in ms]
        if len(set(idxs)) != len(idxs):
            return {"kind": "kbest-duplicate-endpoints:" + eng, "idxs": idxs}
        vals = [m["value"] for m in ms]
        if any(y < x for x, y in zip(vals, vals[1:])):
            return {"kind": "kbest-values-decrease:" + eng, "values": vals}
        if case["k"] is not None and len(ms) > case["k"]:
            return {"kind": "kbest-too-many:" + eng, "n": len(ms)}
        for m in ms:
            mb, me = m["segment"]
            ln = me - mb + 1
            if ln < case["minlength"] or (case["maxlength"] is not None and ln > case["maxlength"]):
                return {"kind": "kbest-length-limit-violated:" + eng, "segment": [mb, me]}
            if m["value"] != want[m["idx"]]:
                return {"kind": "kbest-value-not-matching-function:" + eng, "match": m}
        if case["overlap"] == 0:
            for x in range(len(ms)):
                for y in range(x + 1, len(ms)):
                    (b1, e1), (b2, e2) = ms[x]["segment"], ms[y]["segment"]
                    inter = min(e1, e2) - max(b1, b2) + 1
                    if inter > 1:
                        return {"kind": "kbest-overlap:" + eng, "segments": [[b1, e1], [b2, e2]]}
        mk = r.get("model_kbest")
        if isinstance(mk, dict):
            return {"kind": "oracle-error", "detail": mk}
        if mk is not None and mk != [m["segment"] for m in ms]:
            return {"kind": "kbest-differs-from-iterator-model:" + eng, "got": [m["segment"] for m in ms], "model": mk}
        if r["inter"][0] != idxs or r["inter"][1] != idxs:
            return {"kind": "interleaved-iteration-differs:" + eng, "separate": idxs, "interleaved": r["inter"]}
    if [m["idx"] for m in g["py"]["kbest"]] != [m["idx"] for m in g["c"]["kbest"]]:
        # engines may pick different equally good start points; end points/values must agree
        if [m["value"] for m in g["py"]["kbest"]] != [m["value"] for m in g["c"]["kbest"]]:
            return {"kind": "engines-differ", "py": g["py"]["kbest"], "c": g["c"]["kbest"]}
    return None


def nontrivial(case, exp):
    return len(case["series"]) > len(case["query"])


def case_key(case):
    return repr(sorted(case.items(), key=lambda kv: kv[0]))


def case_size(case):
    return len(case["query"]) + len(case["series"])


def histogram_keys(case):
    return ["lq=%d" % len(case["query"]), "ls=%d" % len(case["series"]), "ndim:%d" % case["ndim"],
            "penalty:%s" % case["penalty"], "k:%s" % case["k"], "overlap:%s" % case["overlap"],
            "minlength:%s" % case["minlength"], "maxlength:%s" % case["maxlength"]]
