"""C17: Needleman-Wunsch returns the optimal score and a consistent alignment."""
import itertools
import math

COQ_FILES = ["theories/NW.v", "props/C17.v"]
THEOREMS = [("DVProps.C17", "C17_value_lower_bound"), ("DVProps.C17", "C17_value_attained"),
            ("DVProps.C17", "C17_traceback_realises_value"), ("DVProps.C17", "C17_traceback_contiguous")]
TRUSTED_BASE = [
    "Coq 8.16.1 kernel",
    "dp.dp / alignment.best_alignment are hand-modelled (NW.NM, NW.tbo as instances of the generic grid DP); tied by "
    "correspondence: score matrix cell by cell, traceback path, plus an independent brute-force optimum and an "
    "alignment checker (harness/props/C17.py)",
    "extraction + driver.ml",
]
ASSUMPTIONS = ["scores are integers or half-integers (scaled by 2 in the model)"]
RULE = ("pairs of sequences over {A,B,C} with lengths 0..5 x substitution in {default, dictionary-based (opt max/min; "
        "symmetric or directional: both (a,b) and (b,a) present with different scores) "
        "with gap in {1, 2, 0.5}} x all 6 traceback orders; value/matrix vs the extracted model, value vs brute-force "
        "maximum over all global alignments, alignment strings: equal length, degap = inputs, no gap/gap column, "
        "score = value")
GUARD = "window/max_dist/max_step/psi off (global alignment)"

ORDERS = list(itertools.permutations([0, 1, 2]))


def gen_cases(rng, tier):
    n = 1500 if tier == "quick" else 20000
    cases = []
    for k in range(n):
        l1 = rng.randint(0 if rng.random() < 0.1 else 1, 5)
        l2 = rng.randint(0 if rng.random() < 0.1 else 1, 5)
        s1 = "".join(rng.choice("ABC") for _ in range(l1))
        s2 = "".join(rng.choice("ABC") for _ in range(l2))
        x = rng.random()
        if x < 0.4:
            sub = None
        else:
            mat = {}
            # both orientations (A,B) and (B,A) may be present with different scores: a directional scoring, for
            # which substitution(s1[i], s2[j]) and substitution(s2[j], s1[i]) differ
            pairs = list(itertools.product("ABC", repeat=2)) if rng.random() < 0.5 else \
                list(itertools.combinations_with_replacement("ABC", 2))
            for a, b in pairs:
                if rng.random() < 0.6:
                    mat[a + b] = rng.randint(-3, 3)
            sub = {"matrix": mat, "gap": rng.choice([1, 1, 2, 0.5]), "opt": rng.choice(["max", "max", "min"])}
        cases.append({"site": "nw", "s1": s1, "s2": s2, "sub": sub, "order": list(rng.choice(ORDERS))})
    return cases


def cost_fn(case):
    """(d, d_indel) exactly as alignment._default_substitution_fn / make_substitution_fn define them."""
    sub = case["sub"]

    def default(a, b):
        return (-1 if a == b else 1), 1
    if sub is None:
        return default
    mod = -1.0 if sub["opt"] == "max" else 1.0

    def f(a, b):
        if a + b in sub["matrix"]:
            return sub["matrix"][a + b] * mod, sub["gap"]
        if b + a in sub["matrix"]:
            return sub["matrix"][b + a] * mod, sub["gap"]
        return default(a, b)[0], sub["gap"]
    return f


def expected(cases, oracle):
    lines = []
    for c in cases:
        f = cost_fn(c)
        n, m = len(c["s1"]), len(c["s2"])
        subs = [str(int(2 * f(a, b)[0])) for a in c["s1"] for b in c["s2"]]
        inds = [str(int(2 * f(a, b)[1])) for a in c["s1"] for b in c["s2"]]
        # the border charges the gap cost of the substitution function per leading gap (1 for the default); costs are
        # scaled by 2 so that half-integers are integers
        gap2 = 2 if c["sub"] is None else int(2 * c["sub"]["gap"])
        lines.append("nw %d %d %s %s %d %d %d %d" % (n, m, " ".join(subs), " ".join(inds), *c["order"], gap2))
    ans = oracle.query(lines)
    out = []
    for c, a in zip(cases, ans):
        if a.startswith("ERR"):
            out.append({"err": a})
            continue
        mat, path = a.split(" | ") if " | " in a else (a.rstrip(" |"), "")
        out.append({"m2": [[int(t) for t in row.split()] for row in mat.split(" ; ")], "path": path})
    return out


def impl_run(case):
    from dtaidistance import alignment
    sub = case["sub"]
    kw = {}
    if sub is not None:
        mat = {(k[0], k[1]): v for k, v in sub["matrix"].items()}
        kw["substitution"] = alignment.make_substitution_fn(mat, gap=sub["gap"], opt=sub["opt"])
    value, scores, paths = alignment.needleman_wunsch(case["s1"], case["s2"], **kw)
    p, s1a, s2a = alignment.best_alignment(paths, case["s1"], case["s2"], gap="-", order=case["order"])
    return {"value": value, "scores": scores, "path": p, "s1a": "".join(s1a), "s2a": "".join(s2a)}


def brute_best(case):
    """maximum total score over all global alignments (independent of the DP)."""
    f = cost_fn(case)
    s1, s2 = case["s1"], case["s2"]
    from functools import lru_cache

    @lru_cache(None)
    def best(i, j):
        if i == len(s1) and j == len(s2):
            return 0.0
        opts = []
        g = 1 if case["sub"] is None else case["sub"]["gap"]
        if i < len(s1) and j < len(s2):
            opts.append(-f(s1[i], s2[j])[0] + best(i + 1, j + 1))
        if i < len(s1):
            opts.append(-g + best(i + 1, j))
        if j < len(s2):
            opts.append(-g + best(i, j + 1))
        return max(opts)
    return best(0, 0)


def judge(case, got, exp):
    if "err" in exp:
        return {"kind": "oracle-error", "detail": exp["err"]}
    if "crash" in got:
        return {"kind": "crash", "detail": got}
    if "exc" in got:
        return {"kind": "exception:" + got["exc"], "detail": got.get("msg")}
    g = got["ok"]
    n, m = len(case["s1"]), len(case["s2"])
    # The model border is k (unscaled 1 per gap) while costs were scaled by 2: rebuild the code's matrix from the model
    # only when the border and the costs use the same unit, i.e. compare 2*code with a model run on 2*border.
    # The driver's border is nb0 j = j, so feed-forward: 2*scores_code = model(costs*2, border*2); the border*2 part is
    # emulated by comparing against the brute force / alignment checker, and cell-wise only when gap == 1.
    gap = 1 if case["sub"] is None else case["sub"]["gap"]
    value = float(g["value"])
    # exact correspondence with the model (all costs in units of 1/2, border 2 per gap as the code charges 1)
    m2 = exp["m2"]
    sc = g["scores"]
    if len(sc) != n + 1 or any(len(row) != m + 1 for row in sc):
        return {"kind": "shape"}
    for i in range(n + 1):
        for j in range(m + 1):
            if float(sc[i][j]) * 2 != -m2[i][j]:
                return {"kind": "score-cell-differs-from-model", "cell": [i, j], "got": sc[i][j], "model": -m2[i][j] / 2}
    if value * 2 != -m2[n][m]:
        return {"kind": "value-differs-from-model", "got": value, "model": -m2[n][m] / 2}
    # path of the model traceback: cells from (n,m) backwards
    i, j = n, m
    cells = [(i - 1, j - 1)]
    for stp in exp["path"]:
        if stp == "D":
            i, j = i - 1, j - 1
        elif stp == "U":
            i -= 1
        else:
            j -= 1
        cells.append((i - 1, j - 1))
    while i > 0:
        i -= 1
        cells.append((i - 1, j - 1))
    while j > 0:
        j -= 1
        cells.append((i - 1, j - 1))
    cells.pop()
    cells.reverse()
    if [tuple(p) for p in g["path"]] != cells:
        return {"kind": "traceback-differs-from-model", "got": g["path"], "model": cells}
    best = brute_best(case)
    if value != best:
        return {"kind": "value-not-optimal", "got": value, "brute_force_max": best, "gap": gap}
    s1a, s2a = g["s1a"], g["s2a"]
    if len(s1a) != len(s2a):
        return {"kind": "alignment-lengths-differ", "s1a": s1a, "s2a": s2a}
    if s1a.replace("-", "") != case["s1"] or s2a.replace("-", "") != case["s2"]:
        return {"kind": "degapped-alignment-differs", "s1a": s1a, "s2a": s2a}
    f = cost_fn(case)
    score = 0.0
    for a, b in zip(s1a, s2a):
        if a == "-" and b == "-":
            return {"kind": "gap-aligned-with-gap", "s1a": s1a, "s2a": s2a}
        if a == "-" or b == "-":
            score -= gap
        else:
            score -= f(a, b)[0]
    if score != value:
        return {"kind": "alignment-score-differs", "score": score, "value": value, "s1a": s1a, "s2a": s2a, "gap": gap}
    return None


def nontrivial(case, exp):
    return len(case["s1"]) + len(case["s2"]) >= 3


def case_key(case):
    return repr((case["s1"], case["s2"], case["sub"], case["order"]))


def case_size(case):
    return len(case["s1"]) + len(case["s2"])


def histogram_keys(case):
    sub = case["sub"]
    return ["len1=%d" % len(case["s1"]), "len2=%d" % len(case["s2"]), "sub:" + ("default" if sub is None else sub["opt"]),
            "gap:%s" % (1 if sub is None else sub["gap"]), "order:" + "".join(map(str, case["order"]))]
