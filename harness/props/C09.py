"""C09: LB_Keogh <= DTW <= Euclidean upper bound; both bounds equal in both engines."""
import math

from harness import dtwgen

COQ_FILES = ["theories/BandTie.v", "theories/Bounds.v", "gen/Gen_clb.v", "theories/CLb.v", "gen/Gen_ced.v", "theories/CEd.v",
             "props/C09.v"]
THEOREMS = [("DVProps.C09", "C09_lb_keogh_le_dtw"), ("DVProps.C09", "C09_dtw_le_euclidean"),
            ("DVProps.C09", "C09_c_envelope_is_python_envelope"),
            ("DVProps.C09", "C09_c_euclidean_distance_squared_as_written"), ("DVProps.C09", "C09_c_euclidean_distance_euclidean_as_written"),
            ("DVProps.C09", "C09_c_euclidean_distance_ndim_squared_as_written"),
            ("DVProps.C09", "C09_c_euclidean_distance_ndim_euclidean_as_written")]
TRUSTED_BASE = [
    "Coq 8.16.1 kernel (no native_compute)",
    "tools/translate_py.py: lb_keogh index arithmetic (imin_diff, imax_diff, imin, imax) regenerated into Gen_dtw.v and "
    "used verbatim by Bounds.lb_keogh_model",
    "tools/cfun.py: the Euclidean routines of dd_ed.c (squared / absolute, 1-D / n-D) and the ub_euclidean* wrappers "
    "regenerated WHOLE into Gen_ced.v and PROVED equal to ed_model with all accesses in range "
    "(C09_c_euclidean_distance_*_as_written); the extracted definitions are run next to the compiled routines (kind craw_ed)",
    "extraction + driver.ml; harness/props/C09.py (ed.distance, ed_cc, dtw.lb_keogh, dtw_cc.lb_keogh tied by "
    "correspondence with ed_model / lb_keogh_model)",
]
ASSUMPTIONS = ["exact arithmetic on the integer stream; scalar series for LB_Keogh"]
RULE = ("random pairs (any signs, equal/unequal lengths) x window x inner_dist x engine: lb_keogh value vs model, "
        "ed.distance (1..3 dims) vs model, lb <= dtw (same window, random penalty, no psi) and dtw(penalty off) <= ed "
        "on the implementation's own values, distance(only_ub=True) == ed")
GUARD = "lengths >= 1; window None or >= 1"

KINDS = ["lb", "ed", "sandwich", "only_ub"]
CED = ["euclidean_distance_squared", "euclidean_distance_euclidean", "euclidean_distance_ndim_squared",
       "euclidean_distance_ndim_euclidean"]


def gen_cases(rng, tier):
    n = 2400 if tier == "quick" else 30000
    maxlen = 8 if tier == "quick" else 12
    cases = []
    for k in range(n):
        kind = KINDS[k % 4]
        eng = "py" if rng.random() < 0.5 else "c"
        nd = rng.choice([1, 1, 2, 3]) if kind in ("ed", "only_ub") else 1
        case = dtwgen.rand_case(rng, eng, maxlen=maxlen, ndim=nd, allow_psi=False, allow_max_step=False,
                                allow_mld=False)
        case["kind"] = kind
        if nd > 1:
            case["settings"]["inner_dist"] = "squared euclidean"
        if kind == "sandwich":
            case["settings"]["penalty"] = rng.choice([None, 0, 1, 2])
        case["container"] = rng.choice(["ndarray", "list", "array"]) if nd == 1 and eng == "py" else "ndarray"
        cases.append(case)
    for k in range(n // 4):
        # the compiled Euclidean routines called directly vs the definitions regenerated from dd_ed.c
        v = rng.randint(0, 3)
        nd = rng.choice([1, 2, 3]) if v >= 2 else 1
        r, c = rng.randint(1, maxlen), rng.randint(1, maxlen)
        if v == 3 and nd > 1:
            from harness.props import C11
            a, b = rng.choice(C11.PYTH)
            direction = [0] * nd
            i, j = rng.sample(range(nd), 2)
            direction[i], direction[j] = a, b
            single = ("line", [rng.randint(-2, 2) for _ in range(nd)], direction)
            s1, s2 = C11.rand_nd(rng, r, nd, single), C11.rand_nd(rng, c, nd, single)
        else:
            s1 = [[rng.randint(-4, 4) for _ in range(nd)] for _ in range(r)]
            s2 = [[rng.randint(-4, 4) for _ in range(nd)] for _ in range(c)]
        cases.append({"site": "craw", "kind": "craw_ed", "variant": v, "ndim": nd, "r": r, "c": c, "s1": s1, "s2": s2,
                      "container": "ndarray",
                      "settings": {"window": None, "psi": None, "penalty": None, "max_step": None,
                                   "inner_dist": "euclidean" if v in (1, 3) else "squared euclidean"}})
    return cases


def expected(cases, oracle):
    raw = [k for k, c in enumerate(cases) if c["kind"] == "craw_ed"]
    flat = lambda s: " ".join(str(int(v)) for p in s for v in p)
    rans = oracle.query(["ced %d %d %d %s %d %s" % (cases[k]["variant"], cases[k]["ndim"], len(cases[k]["s1"]), flat(cases[k]["s1"]),
                                                   len(cases[k]["s2"]), flat(cases[k]["s2"])) for k in raw])
    rexp = dict(zip(raw, rans))
    allcases = cases
    cases = [c for c in allcases if c["kind"] != "craw_ed"]
    out0 = expected_main(cases, oracle)
    it = iter(out0)
    return [({"ced": rexp[k]} if c["kind"] == "craw_ed" else next(it)) for k, c in enumerate(allcases)]


def expected_main(cases, oracle):
    lines = []
    for c in cases:
        s = c["settings"]
        ic = dtwgen.inner_code(s["inner_dist"])
        lines.append("ed %d %s %s" % (ic, dtwgen.fmt_series(c["s1"], c["ndim"]), dtwgen.fmt_series(c["s2"], c["ndim"])))
        if c["ndim"] == 1:
            lines.append("lbk %d %d %d %s %d %s" % (ic, dtwgen.opt(s["window"]), len(c["s1"]),
                                                   " ".join(map(str, c["s1"])), len(c["s2"]),
                                                   " ".join(map(str, c["s2"]))))
        else:
            lines.append("")
    ans = oracle.query(lines)
    out = []
    for k, c in enumerate(cases):
        a, b = ans[2 * k], ans[2 * k + 1]
        if a.startswith("ERR") or b.startswith("ERR"):
            out.append({"err": a + b})
            continue
        idn = c["settings"]["inner_dist"]
        out.append({"ed": dtwgen.result_transform(int(a), idn),
                    "lb": dtwgen.result_transform(int(b), idn) if b else None})
    return out


def impl_run(case):
    import numpy as np
    from dtaidistance import dtw, dtw_ndim, ed
    from harness import dtwimpl
    nd = case.get("ndim", 1)
    s = case["settings"]
    if case["kind"] != "craw_ed":
        s1 = dtwimpl.series(case["s1"], case["container"], nd)
        s2 = dtwimpl.series(case["s2"], case["container"], nd)
    use_c = case["site"] == "c"
    kind = case["kind"]
    if kind == "craw_ed":
        from harness import craw
        L = craw.lib()
        a, b = craw.arr(case["s1"]), craw.arr(case["s2"])
        f = getattr(L, CED[case["variant"]])
        if case["variant"] >= 2:
            return {"ced": f(a, len(case["s1"]), b, len(case["s2"]), nd)}
        return {"ced": f(a, len(case["s1"]), b, len(case["s2"]))}
    idn = s["inner_dist"]
    out = {}
    if kind in ("lb", "sandwich"):
        kw = {"window": s["window"], "inner_dist": idn}
        if use_c:
            kw["use_c"] = True
        out["lb"] = dtw.lb_keogh(s1, s2, **kw)
    if kind in ("ed", "sandwich", "only_ub"):
        if use_c:
            if nd == 1:
                out["ed"] = ed.distance_fast(s1, s2, inner_dist=idn)
            else:
                from dtaidistance import ed_cc
                out["ed"] = ed_cc.distance_ndim(s1, s2, 0)
        else:
            out["ed"] = ed.distance(s1, s2, inner_dist=idn, use_ndim=nd > 1)
    if kind == "sandwich":
        f = dtw.distance_fast if use_c else dtw.distance
        kw = {"window": s["window"], "inner_dist": idn}
        out["dtw_pen"] = f(s1, s2, penalty=s["penalty"], **kw)
        out["dtw"] = f(s1, s2, **kw)
    if kind == "only_ub":
        mod = dtw_ndim if nd > 1 else dtw
        f = mod.distance_fast if use_c else mod.distance
        out["only_ub"] = f(s1, s2, only_ub=True, window=s["window"], inner_dist=idn)
    return out


def judge(case, got, exp):
    if "err" in exp:
        return {"kind": "oracle-error", "detail": exp["err"]}
    if "crash" in got:
        return {"kind": "crash", "detail": got}
    if "exc" in got:
        return {"kind": "exception:" + got["exc"], "detail": got.get("msg")}
    g = got["ok"]
    if case["kind"] == "craw_ed":
        tag, val, okflag = exp["ced"].split()
        if okflag != "ok":
            return {"kind": "ced:model-reports-out-of-bounds-access", "model": exp["ced"]}
        if float(g["ced"]) != float(val):
            return {"kind": "ced:c-routine-differs-from-regenerated-definition", "c": g["ced"], "model": exp["ced"]}
        return None
    if "lb" in g and float(g["lb"]) != exp["lb"]:
        return {"kind": "lb_keogh-differs-from-model", "got": g["lb"], "model": exp["lb"]}
    if "ed" in g and float(g["ed"]) != exp["ed"]:
        return {"kind": "ed-differs-from-model", "got": g["ed"], "model": exp["ed"]}
    if case["kind"] == "sandwich":
        if float(g["lb"]) > float(g["dtw_pen"]):
            return {"kind": "lb_keogh-above-dtw", "lb": g["lb"], "dtw": g["dtw_pen"]}
        if float(g["dtw"]) > float(g["ed"]):
            return {"kind": "dtw-above-euclidean", "dtw": g["dtw"], "ed": g["ed"]}
    if case["kind"] == "only_ub" and float(g["only_ub"]) != exp["ed"]:
        return {"kind": "only_ub-not-euclidean", "got": g["only_ub"], "model": exp["ed"]}
    return None


def nontrivial(case, exp):
    if case["kind"] == "craw_ed":
        return case["r"] != case["c"]
    return bool(exp.get("ed")) and (case["r"] != case["c"] or case["settings"]["window"] is not None or
                                    any(v < 0 for v in (case["s1"] if case["ndim"] == 1 else [])))


def case_key(case):
    return repr((case["site"], case["kind"], case["s1"], case["s2"], sorted(case["settings"].items())))


def case_size(case):
    return case["r"] + case["c"]


def histogram_keys(case):
    return dtwgen.hist(case) + ["engine:" + case["site"], "kind:" + case["kind"], "ndim:%d" % case.get("ndim", 1),
                                "equal_len:%s" % (case["r"] == case["c"])]
