"""C01: pure-Python dtw.distance = optimum over admissible warping paths."""
import math

from harness import dtwgen

COQ_FILES = ["theories/BandTie.v", "theories/PyDist.v", "theories/PyDistProofs.v", "gen/Gen_pydist.v", "theories/PyDistGen.v",
             "props/C01.v"]
THEOREMS = [("DVProps.C01", "C01_lower_bound"), ("DVProps.C01", "C01_attained"),
            ("DVProps.C01", "C01_code_model_is_spec"), ("DVProps.C01", "C01_py_distance_as_written")]
TRUSTED_BASE = [
    "Coq 8.16.1 kernel (no native_compute)",
    "tools/translate_py.py (band/buffer expressions of dtw.distance regenerated into coq/gen/Gen_dtw.v)",
    "extraction (ExtrOcamlBasic only; Z/positive/nat stay inductive) + coq/extract/driver.ml",
    "correspondence harness harness/props/C01.py; the rolling-buffer loop skeleton of dtw.distance is modelled by hand "
    "(PyDist.v, index arithmetic regenerated) and PROVED equal to the specification (C01_code_model_is_spec); the hand "
    "model is tied to the code by correspondence (oracle command pydist)",
    "tools/pyfun.py (Python front end of tools/cfun.py): the body of dtw.distance after the dispatch to the C engine "
    "is regenerated WHOLE (Gen_pydist.v: flat two-row array.array buffer, sc/ec bookkeeping, psi prologue and scans, "
    "every subscript and assert as a conjunct of `ok`) and PROVED equal to the specification value "
    "(C01_py_distance_as_written, through the hand model PyDist.v); Python ints over Z, floats over Z + infinity "
    "(no rounding); the inner-distance callable, result_fn and ed.distance are oracle parameters; DTWSettings "
    "(adj_* values, window default) is modelled by Dtw.adj_* / eff_window and tied by correspondence; the "
    "extracted definition is run next to dtw.distance (oracle command pygen)",
    "binary64 arithmetic is exact on the integer-valued input stream; math.sqrt correctly rounded",
]
ASSUMPTIONS = ["theorems are over exact (integer) arithmetic; float rounding on arbitrary doubles is not modelled"]
RULE = ("random series (len 1..7 quick / 1..10 thorough, integer values) x window x penalty x psi(int/4-tuple, "
        "non-degenerate) x max_step x max_length_diff x inner_dist in {squared euclidean, euclidean, custom objects} "
        "x NumPy present/absent x container; non-trivial = band is a strict subset of the rectangle, or psi/penalty/"
        "max_step/max_length_diff is active; distinct = distinct (series, settings)")
GUARD = "lengths>=1, window None or >=1, penalty>=0, psi entries <= lengths, non-degenerate psi"


def gen_cases(rng, tier):
    n = 3000 if tier == "quick" else 40000
    maxlen = 7 if tier == "quick" else 10
    cases = []
    for k in range(n):
        case = dtwgen.rand_case(rng, "dtw.distance", maxlen=maxlen)
        x = rng.random()
        if x < 0.15:
            case["settings"]["inner_dist"] = rng.choice(["custom-sq", "custom-abs"])
        case["numpy"] = rng.random() < 0.7
        case["container"] = rng.choice(["list", "array", "ndarray"]) if case["numpy"] else rng.choice(["list", "array"])
        cases.append(case)
    return cases


def expected(cases, oracle):
    ans = oracle.query([dtwgen.oracle_line("dtw", c) for c in cases])
    ans2 = oracle.query([dtwgen.oracle_line("pydist", c) for c in cases])
    ans3 = oracle.query([dtwgen.oracle_line("pygen -1", c) for c in cases])
    out = []
    for c, a, a2, a3 in zip(cases, ans, ans2, ans3):
        if a.startswith("ERR") or a2.startswith("ERR") or a3.startswith("ERR"):
            out.append({"err": a + a2 + a3})
        else:
            v = math.inf if a == "inf" else int(a)
            v2 = math.inf if a2 == "inf" else int(a2)
            tag, val, okflag = a3.split()
            v3 = math.inf if val == "inf" else int(val)
            out.append({"internal": v, "value": dtwgen.result_transform(v, c["settings"]["inner_dist"]),
                        "as_written": dtwgen.result_transform(v2, c["settings"]["inner_dist"]),
                        "regenerated": dtwgen.result_transform(v3, c["settings"]["inner_dist"]), "regen_ok": okflag == "ok"})
    return out


_custom = {}


def _custom_inner(name):
    import math as _m
    if name not in _custom:
        class CSq:
            @staticmethod
            def inner_dist(x, y):
                return (x - y) * (x - y)

            @staticmethod
            def result(x):
                return _m.sqrt(x)

            @staticmethod
            def inner_val(x):
                return x * x

        class CAbs:
            @staticmethod
            def inner_dist(x, y):
                return (x - y) if x > y else (y - x)

            @staticmethod
            def result(x):
                return x

            @staticmethod
            def inner_val(x):
                return x
        _custom["custom-sq"] = CSq
        _custom["custom-abs"] = CAbs
    return _custom[name]


def make_series(vals, container):
    if container == "array":
        import array
        return array.array("d", vals)
    if container == "ndarray":
        import numpy as np
        return np.array(vals, dtype=np.double)
    return [float(v) for v in vals]


def impl_run(case):
    # NumPy present/absent is a process-wide switch of the library: use a sub-interpreter state per case
    import os
    import sys
    import importlib
    want_np = case.get("numpy", True)
    flag = "0" if want_np else "1"
    if os.environ.get("DTAIDISTANCE_TESTWITHOUTNUMPY", "0") != flag or "dtaidistance" not in sys.modules:
        os.environ["DTAIDISTANCE_TESTWITHOUTNUMPY"] = flag
        for m in [m for m in sys.modules if m.startswith("dtaidistance")]:
            del sys.modules[m]
    from dtaidistance import dtw
    assert (dtw.np is None) == (not want_np)
    s = case["settings"]
    kw = dtwgen.py_kwargs(s)
    idn = s["inner_dist"]
    kw["inner_dist"] = _custom_inner(idn) if idn.startswith("custom") else idn
    s1 = make_series(case["s1"], case["container"])
    s2 = make_series(case["s2"], case["container"])
    return dtw.distance(s1, s2, **kw)


def judge(case, got, exp):
    if "err" in exp:
        return {"kind": "oracle-error", "detail": exp["err"]}
    if "crash" in got:
        return {"kind": "crash", "detail": got}
    if "exc" in got:
        return {"kind": "exception:" + got["exc"], "detail": got.get("msg")}
    g = got["ok"]
    if exp["as_written"] != exp["value"]:
        return {"kind": "as-written-model-differs-from-spec", "as_written": exp["as_written"], "spec": exp["value"]}
    if not exp["regen_ok"]:
        return {"kind": "regenerated-routine-reports-bad-subscript-or-assert", "got": g}
    if isinstance(g, (int, float)) and float(g) != exp["regenerated"]:
        return {"kind": "regenerated-routine-differs-from-code", "got": g, "regenerated": exp["regenerated"],
                "spec": exp["value"]}
    if isinstance(g, (int, float)) and float(g) == exp["value"]:
        return None
    return {"kind": "wrong-value" if g != math.inf else "spurious-inf", "got": g, "expected": exp["value"]}


def nontrivial(case, exp):
    s = case["settings"]
    return bool((s["window"] is not None and s["window"] < max(case["r"], case["c"])) or s["psi"] or s["penalty"]
                or s["max_step"] or s["max_length_diff"] is not None)


def case_key(case):
    return repr((case["s1"], case["s2"], sorted(case["settings"].items(), key=lambda kv: kv[0])))


def case_size(case):
    return case["r"] + case["c"]


def histogram_keys(case):
    return dtwgen.hist(case) + ["numpy:" + str(case.get("numpy")), "container:" + case.get("container", "?")]
