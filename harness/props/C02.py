"""C02: the C engine returns the same distances as the Python engine."""
import math

from harness import dtwgen

COQ_FILES = ["theories/BandTie.v", "theories/CBand.v", "theories/Engines.v", "gen/Gen_cdist.v", "theories/CLang.v",
             "theories/CDistCanon.v", "theories/CDistTie.v", "theories/CDistProofs.v", "theories/CDistSpec.v", "props/C02.v"]
THEOREMS = [("DVProps.C02", "C02_off_encodings_commute"), ("DVProps.C02", "C02_engines_same_model"),
            ("DVProps.C02", "C02_mld_zero_refuted"), ("DVProps.C02", "C02_c_kernels_same_band_and_buffer"),
            ("DVProps.C02", "C02_c_dtw_distance_as_written"), ("DVProps.C02", "C02_c_dtw_distance_euclidean_as_written"),
            ("DVProps.C02", "C02_c_dtw_distance_ndim_as_written"), ("DVProps.C02", "C02_c_dtw_distance_ndim_euclidean_as_written")]
TRUSTED_BASE = [
    "Coq 8.16.1 kernel (no native_compute)",
    "tools/translate_c.py: ldiff, dl, dl_window, ldiff_window, maxj, minj, skip, length of the four dtw_distance* "
    "kernels regenerated from dd_dtw.c (Gen_cmem.v) and PROVED equal to the specification band and to the buffer "
    "geometry regenerated from dtw.py (CBand.v); the cell update / pruning bookkeeping of the C kernels are tied by "
    "correspondence to the as-written model (C03: pydistp) and to the Python engine",
    "settings decoding (DTWSettings.c_kwargs, dtw_cc.pyx DTWSettings.__init__, C '== 0 means off' tests) is "
    "hand-modelled in theories/Engines.v and tied by correspondence",
    "extraction (ExtrOcamlBasic only) + driver.ml; harness/props/C02.py",
    "tools/cfun.py (C-to-Gallina translator for whole functions; idx_t arithmetic over Z without overflow, seq_t over "
    "Z + infinity without rounding or NaN; malloc = a block of the requested size with arbitrary content; the failure "
    "branch of malloc, asserts and DTWDEBUG blocks are dropped): the four dtw_distance* kernels are regenerated WHOLE "
    "(Gen_cdist.v) and PROVED equal to the specification value cut at the bound (C02_c_dtw_distance*_as_written); the "
    "translator is validated by running the extracted definitions against the compiled kernels on struct-level inputs "
    "(site ckern); the functions the kernels call (euclidean_distance_squared, ub_euclidean*) are oracle parameters",
]
ASSUMPTIONS = ["integer-valued stream: both engines compute exactly, equality is required bit-for-bit; "
               "float stream: agreement within 4 ulps (rounding itself is not modelled)"]
RULE = ("random series (integer stream 75%, arbitrary doubles 25%) x all settings expressible in both engines "
        "(window, penalty, psi int/4-tuple, max_step, max_dist, max_length_diff, use_pruning, only_ub, inner_dist, "
        "None/0 encodings) x site in {pair, pair via use_c=True, ndim pair (d=2,3), serial distance matrix on a list "
        "of arrays / 2-D array}; C result compared with the Python result of the same call and both with the model")
GUARD = "settings accepted by both engines; non-degenerate psi"


def gen_cases(rng, tier):
    n = 3000 if tier == "quick" else 40000
    maxlen = 7 if tier == "quick" else 10
    cases = []
    for k in range(n // 3):
        cases.append(ckern_case(rng, maxlen))
    for k in range(n):
        x = rng.random()
        if x < 0.55:
            site, nd = "pair", 1
        elif x < 0.65:
            site, nd = "pair_usec", 1
        elif x < 0.85:
            site, nd = "pair_ndim", rng.choice([1, 2, 3])
        else:
            site, nd = "matrix", 1
        case = dtwgen.rand_case(rng, site, maxlen=maxlen, ndim=nd if site == "pair_ndim" else 1)
        s = case["settings"]
        if nd > 1 or site == "pair_ndim":
            case["ndim"] = nd
            if nd == 1:
                case["s1"] = [[v] for v in dtwgen.rand_series(rng, case["r"], 1)]
                case["s2"] = [[v] for v in dtwgen.rand_series(rng, case["c"], 1)]
        s["max_dist"] = rng.choice([None, None, None, 0, 1, 2, 3, 5])
        # use_pruning only where the Euclidean distance is a valid upper bound (else both engines return
        # unspecified values): no penalty or equal lengths, no max_step, no psi
        s["use_pruning"] = (rng.random() < 0.25 and (not s["penalty"] or case["r"] == case["c"])
                            and not s["max_step"] and not s["psi"])
        case["only_ub"] = rng.random() < 0.05
        case["float_stream"] = rng.random() < 0.25
        if case["float_stream"]:
            def fl(v):
                return v + rng.choice([0.0, 0.1, 0.25, 1 / 3.0, -0.7, 1e-3])
            case["s1"] = [[fl(x) for x in p] if isinstance(p, list) else fl(p) for p in case["s1"]]
            case["s2"] = [[fl(x) for x in p] if isinstance(p, list) else fl(p) for p in case["s2"]]
        if site == "matrix":
            case["series"] = [dtwgen.rand_series(rng, rng.randint(1, maxlen), 1) for _ in range(rng.randint(2, 4))]
            if rng.random() < 0.3:
                L = rng.randint(1, maxlen)
                case["series"] = [dtwgen.rand_series(rng, L, 1) for _ in range(rng.randint(2, 4))]
                case["as_matrix"] = True
            if rng.random() < 0.25:
                # short pairs first, long far-off-diagonal pairs later: state the first pair leaves in the
                # settings shared by all pairs of the C matrix routine shows in the later pairs
                case["series"] = dtwgen.shifted_peak_collection(rng)
                case.pop("as_matrix", None)
                if rng.random() < 0.7:
                    s["window"] = None
            s["psi"] = None if s["psi"] is None or not isinstance(s["psi"], int) else min(
                s["psi"], min(len(x) for x in case["series"]))
            # the validity condition of use_pruning (ED is an upper bound) has to hold for the pairs of THIS collection
            if s["use_pruning"] and s["penalty"] and len({len(x) for x in case["series"]}) > 1:
                s["use_pruning"] = False
        cases.append(case)
    return cases


def ckern_case(rng, maxlen):
    """struct-level inputs for the four dtw_distance* kernels (any field value the struct can hold, psi within the
    lengths): compared with the definitions regenerated from dd_dtw.c (Gen_cdist.v, oracle command ckern)"""
    variant = rng.randint(0, 3)
    nd = rng.choice([1, 2, 3]) if variant & 1 else 1
    if rng.random() < 0.3:
        r, c = dtwgen.focus_lengths(rng, max(5, maxlen))
    else:
        r, c = rng.randint(1, maxlen), rng.randint(1, maxlen)
    m = max(r, c)
    psi = [rng.choice([0, 0, rng.randint(0, r)]), rng.choice([0, 0, rng.randint(0, r)]),
           rng.choice([0, 0, rng.randint(0, c)]), rng.choice([0, 0, rng.randint(0, c)])]
    st = {"window": rng.choice([0, 0, 1, 1, 2, 3, rng.randint(1, m + 2)]), "max_dist": rng.choice([0, 0, 0, 1, 2, 3, 5, 9]),
          "max_step": rng.choice([0, 0, 0, 1, 2, 3, 4]), "max_length_diff": rng.choice([0, 0, 0, 1, 2]),
          "penalty": rng.choice([0, 0, 1, 2, 3]), "psi": psi, "use_pruning": rng.random() < 0.25,
          "only_ub": rng.random() < 0.05, "inner_dist": 1 if (variant >= 2 or rng.random() < 0.1) else 0}
    s1 = dtwgen.rand_series(rng, r, nd) if nd > 1 else [[v] for v in dtwgen.rand_series(rng, r, 1)]
    s2 = dtwgen.rand_series(rng, c, nd) if nd > 1 else [[v] for v in dtwgen.rand_series(rng, c, 1)]
    if nd > 1 and st["inner_dist"]:
        # the integer model takes the integer square root of the squared norm: points that differ in one coordinate
        # or lie on a line with a Pythagorean direction keep every vector norm an exact integer
        from harness.props import C11
        single = ([rng.randint(-2, 2) for _ in range(nd)], rng.randrange(nd))
        if rng.random() < 0.5:
            a, b = rng.choice(C11.PYTH)
            direction = [0] * nd
            i, j = rng.sample(range(nd), 2)
            direction[i], direction[j] = a, b
            single = ("line", [rng.randint(-2, 2) for _ in range(nd)], direction)
        s1, s2 = C11.rand_nd(rng, r, nd, single), C11.rand_nd(rng, c, nd, single)
    return {"site": "ckern", "variant": variant, "ndim": nd, "r": r, "c": c, "s1": s1, "s2": s2, "cst": st,
            "settings": {"window": st["window"] or None, "psi": psi, "penalty": st["penalty"], "max_step": st["max_step"],
                         "max_dist": st["max_dist"], "use_pruning": st["use_pruning"], "max_length_diff": st["max_length_diff"],
                         "inner_dist": "euclidean" if st["inner_dist"] else "squared euclidean"}}


def ckern_line(c):
    st = c["cst"]
    flat = lambda s: " ".join(str(int(v)) for p in s for v in p)
    return "ckern %d %d %d %d %d %d %d %d %d %d %d %d %d %d %d %s %d %s" % (
        c["variant"], st["window"], st["max_dist"], st["max_step"], st["max_length_diff"], st["penalty"],
        st["psi"][0], st["psi"][1], st["psi"][2], st["psi"][3], int(st["use_pruning"]), int(st["only_ub"]),
        st["inner_dist"], c["ndim"], len(c["s1"]), flat(c["s1"]), len(c["s2"]), flat(c["s2"]))


def expected(cases, oracle):
    lines = []
    idx = []
    kidx = [k for k, c in enumerate(cases) if c["site"] == "ckern"]
    kans = oracle.query([ckern_line(cases[k]) for k in kidx])
    for k, c in enumerate(cases):
        if c["site"] == "ckern":
            continue
        if c["site"] == "matrix" or c.get("float_stream") or c.get("only_ub"):
            continue
        idx.append(k)
        lines.append(dtwgen.oracle_line("dtw", c))
    ans = oracle.query(lines)
    out = [{} for _ in cases]
    for k, a in zip(kidx, kans):
        out[k] = {"err": a} if a.startswith("ERR") else {"ckern": a}
    for k, a in zip(idx, ans):
        c = cases[k]
        if a.startswith("ERR"):
            out[k] = {"err": a}
            continue
        v = math.inf if a == "inf" else int(a)
        s = c["settings"]
        md = s.get("max_dist")
        if md and not s.get("use_pruning") and v != math.inf:
            adj = md * md if dtwgen.inner_code(s["inner_dist"]) == 0 else md
            if v > adj:
                v = math.inf
        out[k] = {"model": dtwgen.result_transform(v, s["inner_dist"]), "pruned": bool(s.get("use_pruning"))}
    return out


def impl_run(case):
    import numpy as np
    from dtaidistance import dtw, dtw_ndim
    from harness import dtwimpl
    s = case["settings"]
    nd = case.get("ndim", 1)
    kw = dtwimpl.kwargs(s, 1)
    if case.get("only_ub"):
        kw["only_ub"] = True
    site = case["site"]

    def call(f, *a, **k):
        try:
            return {"v": f(*a, **k)}
        except Exception as exc:  # noqa
            return {"exc": type(exc).__name__, "msg": str(exc)[:200]}
    if site == "ckern":
        from harness import craw
        L = craw.lib()
        cs = case["cst"]
        st = L.dtw_settings_default()
        for f in ("window", "max_dist", "max_step", "max_length_diff", "penalty", "use_pruning", "only_ub", "inner_dist"):
            setattr(st, f, cs[f])
        st.psi_1b, st.psi_1e, st.psi_2b, st.psi_2e = cs["psi"]
        a, b = craw.arr(case["s1"]), craw.arr(case["s2"])
        name = ["dtw_distance", "dtw_distance_ndim", "dtw_distance_euclidean", "dtw_distance_ndim_euclidean"][case["variant"]]
        import ctypes
        if case["variant"] & 1:
            v = getattr(L, name)(a, len(case["s1"]), b, len(case["s2"]), case["ndim"], ctypes.byref(st))
        else:
            v = getattr(L, name)(a, len(case["s1"]), b, len(case["s2"]), ctypes.byref(st))
        return {"ckern": v}
    if site in ("pair", "pair_usec"):
        s1 = np.array(case["s1"], dtype=np.double)
        s2 = np.array(case["s2"], dtype=np.double)
        py = call(dtw.distance, s1, s2, **kw)
        if site == "pair":
            c = call(dtw.distance_fast, s1, s2, **kw)
        else:
            c = call(dtw.distance, s1, s2, use_c=True, **kw)
        return {"py": py, "c": c}
    if site == "pair_ndim":
        s1 = np.array(case["s1"], dtype=np.double).reshape(len(case["s1"]), nd)
        s2 = np.array(case["s2"], dtype=np.double).reshape(len(case["s2"]), nd)
        py = call(dtw_ndim.distance, s1, s2, **kw)
        c = call(dtw_ndim.distance_fast, s1, s2, **kw)
        return {"py": py, "c": c}
    if site == "matrix":
        kw.pop("only_ub", None)
        if case.get("as_matrix"):
            ser = np.array(case["series"], dtype=np.double)
        else:
            ser = [np.array(x, dtype=np.double) for x in case["series"]]
        py = call(lambda: list(dtw.distance_matrix(ser, compact=True, **kw)))
        c = call(lambda: list(dtw.distance_matrix(ser, compact=True, use_c=True, parallel=False, **kw)))
        return {"py": py, "c": c}
    raise ValueError(site)


def ulps(a, b):
    import struct
    if a == b:
        return 0
    if math.isinf(a) or math.isinf(b) or math.isnan(a) or math.isnan(b):
        return 1 << 60
    ia = struct.unpack("<q", struct.pack("<d", a))[0]
    ib = struct.unpack("<q", struct.pack("<d", b))[0]
    if (ia < 0) != (ib < 0):
        return 1 << 60
    return abs(ia - ib)


def same(a, b, tol):
    if isinstance(a, list) or isinstance(b, list):
        if not (isinstance(a, list) and isinstance(b, list)) or len(a) != len(b):
            return False
        return all(same(x, y, tol) for x, y in zip(a, b))
    try:
        return ulps(float(a), float(b)) <= tol
    except (TypeError, ValueError):
        return False


def judge(case, got, exp):
    if "err" in exp:
        return {"kind": "oracle-error", "detail": exp["err"]}
    if "crash" in got:
        return {"kind": "crash", "detail": got}
    if "exc" in got:
        return {"kind": "harness-exception:" + got["exc"], "detail": got.get("msg")}
    g = got["ok"]
    if case["site"] == "ckern":
        # the kernel regenerated from dd_dtw.c, run on the same struct-level input
        tag, val, okflag = exp["ckern"].split()
        if okflag != "ok":
            return {"kind": "ckern:model-reports-out-of-bounds-access", "model": exp["ckern"], "c": g["ckern"]}
        v = math.inf if val == "inf" else int(val)
        sq_variant = case["variant"] < 2 and not case["cst"]["inner_dist"]
        if v != math.inf and (tag == "sqrt" or (sq_variant and case["cst"]["only_ub"])):
            v = math.sqrt(v)
        if not same(g["ckern"], float(v), 0):
            return {"kind": "ckern:c-kernel-differs-from-regenerated-definition", "c": g["ckern"], "model": exp["ckern"]}
        return None
    py, c = g["py"], g["c"]
    tol = 4 if case.get("float_stream") or case["settings"].get("use_pruning") else 0
    if "exc" in py and "exc" in c:
        return None if py["exc"] == c["exc"] else {"kind": "different-exceptions", "py": py, "c": c}
    if "exc" in c:
        return {"kind": "c-exception:" + c["exc"], "detail": c.get("msg"), "py": py}
    if "exc" in py:
        return {"kind": "py-exception:" + py["exc"], "detail": py.get("msg"), "c": c}
    if not same(py["v"], c["v"], tol):
        k = "engines-differ"
        if "model" in exp:
            if same(py["v"], exp["model"], tol):
                k = "engines-differ:c-wrong"
            elif same(c["v"], exp["model"], tol):
                k = "engines-differ:py-wrong"
        return {"kind": k, "py": py["v"], "c": c["v"], "model": exp.get("model")}
    return None


def nontrivial(case, exp):
    s = case["settings"]
    return bool(case["site"] != "pair" or s["window"] is not None or s["psi"] or s["penalty"] or s["max_step"]
                or s.get("max_dist") or s.get("use_pruning"))


def case_key(case):
    return repr((case["site"], case["s1"], case["s2"], case.get("series"), sorted(case["settings"].items()),
                 case.get("only_ub"), case.get("variant"), case.get("cst", {}).get("only_ub")))


def case_size(case):
    return case["r"] + case["c"]


def histogram_keys(case):
    s = case["settings"]
    return dtwgen.hist(case) + ["site:" + case["site"], "ndim:%d" % case.get("ndim", 1),
                                "stream:" + ("float" if case.get("float_stream") else "int"),
                                "max_dist:" + ("on" if s.get("max_dist") else "off"),
                                "use_pruning:%s" % bool(s.get("use_pruning")), "only_ub:%s" % bool(case.get("only_ub"))]
