"""C11: multivariate DTW is DTW with vector point distances, in both engines."""
import math

from harness import dtwgen

COQ_FILES = ["theories/BandTie.v", "theories/Ndim.v", "gen/Gen_cdist.v", "theories/CDistCanon.v", "theories/CDistTie.v",
             "theories/CDistProofs.v", "theories/CDistSpec.v", "props/C11.v"]
THEOREMS = [("DVProps.C11", "C11_vector_lower_bound"), ("DVProps.C11", "C11_vector_attained"),
            ("DVProps.C11", "C11_stride_addressing"), ("DVProps.C11", "C11_d1_point_distance"),
            ("DVProps.C11", "C11_c_ndim_kernel_is_vector_dtw"),
            ("DVProps.C11", "C11_c_ndim_kernel_with_one_coordinate_is_the_univariate_kernel")]
TRUSTED_BASE = [
    "Coq 8.16.1 kernel (no native_compute)",
    "tools/cfun.py: dtw_distance_ndim regenerated WHOLE (Gen_cdist.v) and proved to return the DTW value of the "
    "vector series, and with one coordinate per point what dtw_distance returns (C11_c_ndim_kernel_*; the Euclidean "
    "n-dim kernel under C02, the n-dim warping-paths kernel under C04)",
    "the distance-matrix ndim loops, the innerdistance *Ndim classes and the pyx glue are tied to the vector-point "
    "model by correspondence (harness/props/C11.py)",
    "extraction + driver.ml",
]
ASSUMPTIONS = ["exact arithmetic: integer vectors; for inner_dist='euclidean' the generated points either differ in one "
               "coordinate only or lie on a line with a Pythagorean direction ((3,4), (5,12), ...), so that the vector "
               "norm (the model takes the integer square root of the squared norm) is an exact integer"]
RULE = ("random (length x d) series, d in 1..4, x DTW settings x site in {distance, warping_paths (distance+matrix), "
        "distance_matrix on a list of 2-D arrays / one 3-D array, d=1 vs univariate on the flattened series, the "
        "multivariate Euclidean upper bound (ub_euclidean, only_ub in both engines) vs the extracted ed_model, "
        "use_pruning (distance and serial matrix) vs the unpruned model value} x engine")
GUARD = "non-degenerate psi; window None or >= 1"

SITES = ["distance", "wps", "matrix", "d1", "ub", "prune"]


PYTH = [(3, 4), (4, 3), (6, 8), (5, 12), (8, 15), (3, -4), (-4, 3)]


def rand_nd(rng, n, nd, single):
    if single is None:
        return [[rng.randint(-3, 3) for _ in range(nd)] for _ in range(n)]
    if single[0] == "line":
        # points on a line with a Pythagorean direction: every pairwise Euclidean distance is an integer although
        # the points differ in two coordinates (the L1 norm, 7|t| for (3,4), is NOT the answer)
        _, base, direction = single
        out = []
        for _ in range(n):
            t = rng.randint(-2, 2)
            out.append([b + t * d for b, d in zip(base, direction)])
        return out
    base, k = single
    out = []
    for _ in range(n):
        p = list(base)
        p[k] = rng.randint(-3, 3)
        out.append(p)
    return out


def gen_cases(rng, tier):
    n = 2400 if tier == "quick" else 30000
    maxlen = 6 if tier == "quick" else 9
    cases = []
    for k in range(n):
        kind = SITES[k % len(SITES)]
        eng = "py" if rng.random() < 0.5 else "c"
        nd = 1 if kind == "d1" else rng.randint(1, 4)
        r = rng.randint(1, maxlen)
        c = rng.randint(1, maxlen) if rng.random() < 0.7 else r
        st = dtwgen.rand_settings(rng, r, c, allow_mld=False)
        if kind in ("distance", "wps", "matrix") and rng.random() < 0.25:
            # narrow window on long series with relaxed ends: the compacted two-row buffer of the ndim kernels
            r, c = dtwgen.focus_lengths(rng, maxlen)
            st = dtwgen.focus_settings(rng, r, c, allow_mld=False)
        if kind in ("ub", "prune"):
            # the multivariate Euclidean upper bound and its use for pruning: only where ED is a valid upper bound
            st["psi"] = None
            st["max_step"] = None
            if r != c:
                st["penalty"] = None
            if kind == "ub":
                st["window"] = None
        single = None
        if st["inner_dist"] == "euclidean" and nd > 1:
            single = ([rng.randint(-2, 2) for _ in range(nd)], rng.randrange(nd))
            if rng.random() < 0.5:
                a, b = rng.choice(PYTH)
                direction = [0] * nd
                i, j = rng.sample(range(nd), 2)
                direction[i], direction[j] = a, b
                single = ("line", [rng.randint(-2, 2) for _ in range(nd)], direction)
        case = {"site": eng + "." + kind, "kind": kind, "eng": eng, "ndim": nd, "s1": rand_nd(rng, r, nd, single),
                "s2": rand_nd(rng, c, nd, single), "settings": st}
        if kind == "matrix":
            L = r if rng.random() < 0.5 else None
            case["series"] = [case["s1"], case["s2"]] + [rand_nd(rng, L or rng.randint(1, maxlen), nd, single)
                                                         for _ in range(rng.randint(0, 2))]
            case["as_3d"] = bool(L) and all(len(x) == r for x in case["series"]) and rng.random() < 0.7
            if isinstance(st["psi"], list) and not case["as_3d"]:
                # (a 4-tuple psi is kept for a 3-D array: all series have one length, and entry (i, j) must be
                # DTW(s_i, s_j) -- not DTW(s_j, s_i) -- which only an asymmetric psi can tell apart)
                st["psi"] = None
            if isinstance(st["psi"], int):
                ml = min(len(x) for x in case["series"])
                st["psi"] = None if st["psi"] >= ml else st["psi"]
        dtwgen.derived(case)
        cases.append(case)
    return cases


def _pairs(case):
    if case["kind"] == "matrix":
        ss = case["series"]
        return [(ss[i], ss[j]) for i in range(len(ss)) for j in range(i + 1, len(ss))]
    return [(case["s1"], case["s2"])]


def expected(cases, oracle):
    lines = []
    for c in cases:
        if c["kind"] == "ub":
            lines.append("ed %d %s %s" % (dtwgen.inner_code(c["settings"]["inner_dist"]),
                                          dtwgen.fmt_series(c["s1"], c["ndim"]), dtwgen.fmt_series(c["s2"], c["ndim"])))
            continue
        for (a, b) in _pairs(c):
            cc = dict(c)
            cc["s1"], cc["s2"] = a, b
            lines.append(dtwgen.oracle_line("wps" if c["kind"] == "wps" else "dtw", cc))
            if c["kind"] == "wps":
                lines.append(dtwgen.oracle_line("dtw", cc))
    ans = oracle.query(lines)
    out = []
    p = 0
    for c in cases:
        idn = c["settings"]["inner_dist"]
        if c["kind"] == "ub":
            a = ans[p]
            p += 1
            out.append({"vals": [None if a.startswith("ERR") else dtwgen.result_transform(int(a), idn)]})
            continue
        if c["kind"] == "wps":
            m, d = ans[p], ans[p + 1]
            p += 2
            if m.startswith("ERR") or d.startswith("ERR"):
                out.append({"err": m + d})
                continue
            mm = [[dtwgen.result_transform(math.inf if t == "inf" else int(t), idn) for t in row.split()]
                  for row in m.split(" ; ")]
            out.append({"m": mm, "d": dtwgen.result_transform(math.inf if d == "inf" else int(d), idn)})
        else:
            vals = []
            for _ in _pairs(c):
                a = ans[p]
                p += 1
                vals.append(None if a.startswith("ERR") else dtwgen.result_transform(
                    math.inf if a == "inf" else int(a), idn))
            out.append({"vals": vals})
    return out


def impl_run(case):
    import numpy as np
    from dtaidistance import dtw, dtw_ndim
    from harness import dtwimpl
    s = case["settings"]
    kw = dtwimpl.kwargs(s, 1)
    nd = case["ndim"]
    use_c = case["eng"] == "c"
    s1 = np.array(case["s1"], dtype=np.double).reshape(len(case["s1"]), nd)
    s2 = np.array(case["s2"], dtype=np.double).reshape(len(case["s2"]), nd)
    kind = case["kind"]
    if kind == "distance":
        f = dtw_ndim.distance_fast if use_c else dtw_ndim.distance
        return [f(s1, s2, **kw)]
    if kind == "d1":
        f = dtw_ndim.distance_fast if use_c else dtw_ndim.distance
        g = dtw.distance_fast if use_c else dtw.distance
        return [f(s1, s2, **kw), g(s1[:, 0].copy(), s2[:, 0].copy(), **kw)]
    if kind == "ub":
        idn = s["inner_dist"]
        return {"ub": dtw_ndim.ub_euclidean(s1, s2, inner_dist=idn),
                "only_ub_py": dtw_ndim.distance(s1, s2, only_ub=True, inner_dist=idn),
                "only_ub_c": dtw_ndim.distance_fast(s1, s2, only_ub=True, inner_dist=idn)}
    if kind == "prune":
        f = dtw_ndim.distance_fast if use_c else dtw_ndim.distance
        ss = [s1, s2]
        return [f(s1, s2, use_pruning=True, **kw),
                list(dtw_ndim.distance_matrix(ss, ndim=nd, compact=True, use_c=use_c, parallel=False,
                                              use_pruning=True, **kw))[0]]
    if kind == "wps":
        f = dtw_ndim.warping_paths_fast if use_c else dtw_ndim.warping_paths
        d, m = f(s1, s2, psi_neg=False, **kw)
        return {"d": d, "m": m}
    ss = [np.array(x, dtype=np.double).reshape(len(x), nd) for x in case["series"]]
    if case.get("as_3d"):
        ss = np.array(ss)
    return list(dtw_ndim.distance_matrix(ss, ndim=nd, compact=True, use_c=use_c, parallel=False, **kw))


def judge(case, got, exp):
    if "err" in exp:
        return {"kind": "oracle-error", "detail": exp["err"]}
    if "crash" in got:
        return {"kind": "crash", "detail": got}
    if "exc" in got:
        return {"kind": "exception:" + got["exc"], "detail": got.get("msg")}
    g = got["ok"]
    if case["kind"] == "wps":
        if float(g["d"]) != exp["d"]:
            return {"kind": "wrong-distance", "got": g["d"], "expected": exp["d"]}
        m = g["m"]
        if len(m) != len(exp["m"]) or any(len(a) != len(b) for a, b in zip(m, exp["m"])):
            return {"kind": "shape"}
        for i, (ra, rb) in enumerate(zip(m, exp["m"])):
            for j, (x, y) in enumerate(zip(ra, rb)):
                if float(x) != y:
                    if (i == 0 or j == 0) and x == math.inf:
                        continue    # border cells outside the compact width (finding F23, judged in C04)
                    return {"kind": "wrong-cell", "cell": [i, j], "got": x, "expected": y}
        return None
    vals = exp["vals"]
    if any(v is None for v in vals):
        return {"kind": "oracle-error"}
    if case["kind"] == "ub":
        out = []
        for name in ("ub", "only_ub_py", "only_ub_c"):
            if float(g[name]) != vals[0]:
                out.append({"kind": "euclidean-bound-differs-from-model:" + name, "got": g[name], "model": vals[0]})
        return out or None
    if case["kind"] == "prune":
        for name, x in zip(("distance", "matrix"), g):
            if float(x) != vals[0]:
                return {"kind": "pruning-changes-result:" + name, "got": x, "expected": vals[0]}
        return None
    if case["kind"] == "d1":
        if float(g[0]) != float(g[1]):
            return {"kind": "d1-differs-from-univariate", "ndim": g[0], "univariate": g[1]}
        g = g[:1]
    if len(g) != len(vals):
        return {"kind": "wrong-length", "got": g}
    for k, (x, y) in enumerate(zip(g, vals)):
        if float(x) != y:
            return {"kind": "wrong-value", "pair": k, "got": x, "expected": y}
    return None


def nontrivial(case, exp):
    return case["ndim"] > 1 or case["kind"] == "d1"


def case_key(case):
    return repr((case["site"], case["s1"], case["s2"], case.get("series"), sorted(case["settings"].items(), key=str)))


def case_size(case):
    return case["r"] + case["c"]


def histogram_keys(case):
    return dtwgen.hist(case) + ["site:" + case["site"], "ndim:%d" % case["ndim"], "3d:%s" % bool(case.get("as_3d"))]
