"""C18: affinity (local-concurrence) matrix follows its recurrence in both engines."""
import math

from harness import dtwgen

COQ_FILES = ["theories/BandTie.v", "theories/Affinity.v", "props/C18.v"]
THEOREMS = [("DVProps.C18", n) for n in ("C18_traced_cells_positive", "C18_traced_path_contiguous_monotone",
                                         "C18_no_cell_reuse", "C18_negated_cells_are_nonpositive")]
TRUSTED_BASE = [
    "Coq 8.16.1 kernel",
    "tools/translate_py.py: band of warping_paths_affinity (j_start, only_triu variant, j_end) regenerated and proved "
    "equal to the model band (BandTie.v)",
    "partial: the recurrence involves exp and binary64 arithmetic: dtw.warping_paths_affinity is compared cell by cell "
    "with a reference implementation of the documented equation written in the harness (same operation order, "
    "bit-for-bit); the C engine (full / compact + wps_expand_slice) is compared with the Python engine; the match "
    "iterator is checked on the implementation against the properties the Coq model proves for its trace",
]
ASSUMPTIONS = ["np.exp trusted; window None or >= 1"]
RULE = ("series pairs (and self comparison) x gamma, tau, delta, delta_factor x penalty (incl. None) x window x "
        "only_triu: every in-band cell == documented recurrence, out-of-band / below-diagonal cells excluded (-inf); C "
        "full and compact == Python; LocalConcurrences.kbest_matches histories (k, minlen, restart True/False): paths "
        "contiguous, monotone, through positive cells of the matrix before the call, no cell shared with an earlier "
        "match, restart resets; no in-band cell is masked after align(); the first match of a fresh search (minlen "
        "<= 1) ends in a cell holding the maximum; only_triu also on unequal lengths; objects built through "
        "local_concurrences() in half of the cases")
GUARD = "psi None (as LocalConcurrences uses it)"

KINDS = ["py.aff", "py.aff", "c.aff", "c.aff_compact", "lc", "lc.c"]


def gen_cases(rng, tier):
    n = 1000 if tier == "quick" else 10000
    cases = []
    for k in range(n):
        kind = KINDS[k % len(KINDS)]
        r = rng.randint(1, 7)
        self_cmp = rng.random() < 0.3
        c = r if self_cmp else rng.randint(1, 7)
        s1 = [rng.randint(-3, 3) * rng.choice([1, 1, 0.5]) for _ in range(r)]
        s2 = list(s1) if self_cmp else [rng.randint(-3, 3) * rng.choice([1, 1, 0.5]) for _ in range(c)]
        tau = rng.choice([0, 0.1, 0.4, 0.7])
        case = {"site": kind, "kind": kind, "s1": s1, "s2": s2, "self": self_cmp,
                "gamma": rng.choice([1, 0.5, 2]), "tau": tau, "delta": rng.choice([0, -0.5, -2 * tau]),
                "delta_factor": rng.choice([1, 0.9, 0.5]), "penalty": rng.choice([None, 0, 0.05, 0.5]),
                "window": rng.choice([None, None, 1, 2, 3]), "only_triu": bool((self_cmp and rng.random() < 0.6) or rng.random() < 0.15)}
        if kind in ("lc", "lc.c"):
            case["ops"] = [[rng.choice([1, 2, 3, None]), rng.choice([1, 2]), rng.random() < 0.6] for _ in range(rng.randint(1, 3))]
            if case["penalty"] is None:
                case["penalty"] = 0
        cases.append(case)
    return cases


def expected(cases, oracle):
    return [{} for _ in cases]


def reference(case):
    """the documented recurrence, written independently of dtw.py (same float operations)"""
    import numpy as np
    s1 = np.array(case["s1"], dtype=np.double)
    s2 = np.array(case["s2"], dtype=np.double)
    r, c = len(s1), len(s2)
    w = max(r, c) if case["window"] is None else case["window"]
    pen = case["penalty"] or 0
    gamma, tau, delta, df = case["gamma"], case["tau"], case["delta"], case["delta_factor"]
    m = np.full((r + 1, c + 1), -np.inf)
    m[0, 0] = 0
    for i in range(r):
        lo = max(0, i - max(0, r - c) - w + 1)
        if case["only_triu"]:
            lo = max(i, lo)
        hi = min(c, i + max(0, c - r) + w)
        for j in range(lo, hi):
            d = np.exp(-gamma * (s1[i] - s2[j]) ** 2)
            prev = max(m[i, j], m[i, j + 1] - pen, m[i + 1, j] - pen)
            if d < tau:
                m[i + 1, j + 1] = max(0, delta + df * prev)
            else:
                m[i + 1, j + 1] = max(0, d + prev)
    return m


def impl_run(case):
    import numpy as np
    from dtaidistance import dtw
    s1 = np.array(case["s1"], dtype=np.double)
    s2 = np.array(case["s2"], dtype=np.double)
    kw = dict(window=case["window"], only_triu=case["only_triu"], penalty=case["penalty"], gamma=case["gamma"],
              tau=case["tau"], delta=case["delta"], delta_factor=case["delta_factor"])
    kind = case["kind"]
    if kind == "py.aff":
        d, m = dtw.warping_paths_affinity(s1, s2, **kw)
        return {"m": m}
    if kind == "c.aff":
        d, m = dtw.warping_paths_affinity_fast(s1, s2, **kw)
        return {"m": m}
    if kind == "c.aff_compact":
        from dtaidistance import dtw_cc
        d, comp = dtw.warping_paths_affinity_fast(s1, s2, compact=True, **kw)
        st = dtw_cc.DTWSettings(window=case["window"], penalty=case["penalty"])
        full = np.empty((len(s1) + 1, len(s2) + 1), dtype=np.double)
        dtw_cc.wps_expand_slice(comp, full, len(s1), len(s2), 0, len(s1) + 1, 0, len(s2) + 1, st)
        return {"m": full}
    from dtaidistance.subsequence.localconcurrences import LocalConcurrences
    if len(case["s1"]) % 2 == 0:
        # the documented entry point: local_concurrences(...) = object + align()
        from dtaidistance.subsequence.localconcurrences import local_concurrences
        lc = local_concurrences(s1, None if case["self"] else s2, gamma=case["gamma"], tau=case["tau"],
                                delta=case["delta"], delta_factor=case["delta_factor"], only_triu=case["only_triu"],
                                penalty=case["penalty"], window=case["window"], use_c=(kind == "lc.c"))
    else:
        lc = LocalConcurrences(s1, None if case["self"] else s2, gamma=case["gamma"], tau=case["tau"], delta=case["delta"],
                               delta_factor=case["delta_factor"], only_triu=case["only_triu"], penalty=case["penalty"],
                               window=case["window"], use_c=(kind == "lc.c"))
        lc.align()
    use_c = kind == "lc.c"
    # with the C engine the matrix lives in the compact layout: read it through wp_slice
    base = np.array(lc.wp_slice() if use_c else lc.wp, dtype=np.double)
    # the search mask of the non-compact matrix right after align(): True = excluded from the match search
    mask0 = None if use_c else np.array(np.ma.getmaskarray(lc._wp), dtype=bool)
    hist = []
    for k, minlen, restart in case["ops"]:
        before = np.array(lc.wp_slice() if use_c else lc._wp.data, dtype=np.double)
        ms = []
        for m in lc.kbest_matches(k=k, minlen=minlen, restart=restart):
            ms.append([[int(a), int(b)] for a, b in m.path])
            if len(ms) >= 6:
                break
        hist.append({"before": before, "matches": ms})
    return {"base": base, "hist": hist, "mask0": mask0}


def same(a, b, rel=4e-16):
    if a == b:
        return True
    if math.isinf(a) or math.isinf(b):
        return False
    return abs(a - b) <= rel * max(1.0, abs(a), abs(b))


def judge(case, got, exp):
    if "crash" in got:
        return {"kind": "crash", "detail": got}
    if "exc" in got:
        return {"kind": "exception:" + got["exc"], "detail": got.get("msg")}
    g = got["ok"]
    ref = reference(case)
    r, c = len(case["s1"]), len(case["s2"])
    if case["kind"] not in ("lc", "lc.c"):
        m = g["m"]
        if len(m) != r + 1 or any(len(row) != c + 1 for row in m):
            return {"kind": "shape"}
        for i in range(1, r + 1):
            for j in range(1, c + 1):
                a, b = float(m[i][j]), float(ref[i, j])
                if not same(a, b, 4e-16 if case["kind"] == "py.aff" else 2e-15):
                    return {"kind": "cell-differs-from-recurrence", "cell": [i, j], "got": a, "expected": b}
        return None
    base = g["base"]
    for i in range(1, r + 1):
        for j in range(1, c + 1):
            # the C kernel associates the sums differently: same tolerance as the c.aff site
            if not same(float(base[i][j]), float(ref[i, j]), 2e-15 if case["kind"] == "lc.c" else 4e-16):
                return {"kind": "lc-matrix-differs-from-recurrence", "cell": [i, j]}
    # only cells outside the band (below the diagonal with only_triu) are excluded from the match search
    if g.get("mask0") is not None:
        for i in range(1, r + 1):
            for j in range(1, c + 1):
                if bool(g["mask0"][i][j]) and float(ref[i, j]) != -math.inf:
                    return {"kind": "in-band-cell-excluded-from-search", "cell": [i, j], "value": float(ref[i, j])}
    used = set()
    for (k, minlen, restart), h in zip(case["ops"], g["hist"]):
        if restart and minlen <= 1 and (k is None or k >= 1):
            # traced from a maximum: the first match of a fresh search ends in a cell holding the largest value
            best = max((float(ref[i, j]) for i in range(1, r + 1) for j in range(1, c + 1)), default=-math.inf)
            if best > 0:
                if not h["matches"]:
                    return {"kind": "no-match-although-positive-maximum", "max": best}
                a, b = h["matches"][0][-1]
                if not same(float(ref[a + 1, b + 1]), best, 1e-12):
                    return {"kind": "first-match-not-from-the-maximum", "end": [a, b], "value": float(ref[a + 1, b + 1]),
                            "max": best}
        if restart:
            used = set()
        before = h["before"]
        for path in h["matches"]:
            if len(path) < minlen:
                return {"kind": "match-shorter-than-minlen", "path": path}
            cells = [(a + 1, b + 1) for a, b in path]
            for (a1, b1), (a2, b2) in zip(cells, cells[1:]):
                if (a2 - a1, b2 - b1) not in ((1, 1), (1, 0), (0, 1)):
                    return {"kind": "match-not-contiguous", "path": path}
            for cell in cells:
                if not (abs(float(ref[cell])) > 0 and float(ref[cell]) != -math.inf):
                    return {"kind": "match-through-non-positive-cell", "cell": list(cell), "value": float(ref[cell])}
                if cell in used:
                    return {"kind": "match-reuses-cell", "cell": list(cell), "path": path}
            used.update(cells)
    return None


def nontrivial(case, exp):
    return len(case["s1"]) > 2 and (case["window"] is not None or case["tau"] > 0)


def case_key(case):
    return repr(sorted(case.items(), key=lambda kv: kv[0]))


def case_size(case):
    return len(case["s1"]) + len(case["s2"])


def histogram_keys(case):
    return ["kind:" + case["kind"], "window:%s" % case["window"], "only_triu:%s" % case["only_triu"],
            "penalty:%s" % case["penalty"], "tau:%s" % case["tau"], "self:%s" % case["self"]]
