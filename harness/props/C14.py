"""C14: k-NN subsequence search is exact despite lower bounds and early abandoning."""
import math

from harness import dtwgen

COQ_FILES = ["theories/Search.v", "props/C14.v"]
THEOREMS = [("DVProps.C14", "C14_search_exact"), ("DVProps.C14", "C14_lower_bounds_irrelevant"),
            ("DVProps.C14", "C14_cache_prefix")]
TRUSTED_BASE = [
    "Coq 8.16.1 kernel",
    "SubsequenceSearch.align is hand-modelled (Search.step: heap with sentinel as sorted list, running bound, lb skip, "
    "early abandoning); the two oracle contracts lb <= dist (C09) and 'distance beyond max_dist is inf' (C03) are "
    "hypotheses/inputs of the model; tied by correspondence on operation histories",
    "extraction + driver.ml; heapq trusted",
]
ASSUMPTIONS = ["distances compared through their exact internal (integer) representation; ties: any index with the "
               "same distance is accepted"]
RULE = ("query x candidate list (1..8 series incl. duplicates/ties, equal length as windows) x k in 1..N+1 or None x "
        "window/penalty/max_dist/max_value x use_lb x use_c; HISTORIES of 1..4 calls (kbest_matches/best_match/align "
        "with varying k) on one object; each answer compared with the k smallest exhaustive distances (extracted DTW "
        "model) and with the extracted search model")
GUARD = "psi off (LB_Keogh valid), k >= 1 or None"


def gen_cases(rng, tier):
    n = 900 if tier == "quick" else 10000
    cases = []
    for _ in range(n):
        L = rng.randint(1, 6)
        q = dtwgen.rand_series(rng, L, 1)
        N = rng.randint(1, 8)
        cands = []
        for _i in range(N):
            if cands and rng.random() < 0.25:
                cands.append(list(rng.choice(cands)))
            else:
                cands.append(dtwgen.rand_series(rng, L if rng.random() < 0.8 else rng.randint(1, 6), 1))
        st = {"window": rng.choice([None, None, 1, 2, 3]), "penalty": rng.choice([None, None, 1]),
              "inner_dist": "squared euclidean", "psi": None, "max_step": None, "max_length_diff": None}
        ops = []
        for _j in range(rng.randint(1, 4)):
            op = rng.choice(["kbest", "kbest", "best", "align"])
            k = rng.choice([None] + list(range(1, N + 2))) if op != "best" else 1
            ops.append([op, k])
        cases.append({"site": "search", "query": q, "cands": cands, "settings": st, "ops": ops,
                      "use_lb": rng.random() < 0.6, "use_c": rng.random() < 0.4,
                      "max_dist": rng.choice([None, None, 2, 3, 5]), "max_value": rng.choice([None, None, None, 1, 2])})
    return cases


def expected(cases, oracle):
    lines = []
    for c in cases:
        for s in c["cands"]:
            cc = {"s1": c["query"], "s2": s, "ndim": 1, "settings": c["settings"]}
            lines.append(dtwgen.oracle_line("dtw", cc))
            lines.append("lbk 0 %d %d %s %d %s" % (dtwgen.opt(c["settings"]["window"]), len(c["query"]),
                                                  " ".join(map(str, c["query"])), len(s), " ".join(map(str, s))))
    ans = oracle.query(lines)
    out = []
    p = 0
    knn_lines = []
    for c in cases:
        ds, lbs = [], []
        for _ in c["cands"]:
            a, b = ans[p], ans[p + 1]
            p += 2
            ds.append(math.inf if a == "inf" else int(a))
            lbs.append(int(b))
        md = c["max_dist"] if c["max_dist"] is not None else math.inf
        if c["max_value"] is not None:
            md = min(md, c["max_value"] * len(c["query"]))
        md2 = math.inf if md == math.inf else md * md
        out.append({"d": ds, "lb": lbs, "md2": md2})
    # the extracted search model, one run per op with an integer k
    idx = []
    for ci, (c, e) in enumerate(zip(cases, out)):
        for oi, (op, k) in enumerate(c["ops"]):
            if k is None or any(d == math.inf for d in e["d"]):
                continue
            idx.append((ci, oi))
            knn_lines.append("knn %d %d %d %d %s" % (k, 1 if c["use_lb"] else 0, -1 if e["md2"] == math.inf else int(e["md2"]),
                                                     len(e["d"]), " ".join("%d %d" % (l, d) for l, d in zip(e["lb"], e["d"]))))
    kans = oracle.query(knn_lines)
    for (ci, oi), a in zip(idx, kans):
        out[ci].setdefault("model", {})[oi] = None if a.startswith("ERR") else [int(t) for t in a.split()]
    return out


def impl_run(case):
    import numpy as np
    from dtaidistance.subsequence.subsequencesearch import SubsequenceSearch
    q = np.array(case["query"], dtype=np.double)
    cands = [np.array(s, dtype=np.double) for s in case["cands"]]
    opts = {k: v for k, v in case["settings"].items() if v is not None and k in ("window", "penalty")}
    if len(cands) % 2 == 0:
        # the documented entry point
        from dtaidistance.subsequence.subsequencesearch import subsequence_search
        ss = subsequence_search(q, cands, dists_options=opts, use_lb=case["use_lb"], max_dist=case["max_dist"],
                                max_value=case["max_value"], use_c=case["use_c"])
    else:
        ss = SubsequenceSearch(q, cands, dists_options=opts, use_lb=case["use_lb"], max_dist=case["max_dist"],
                               max_value=case["max_value"], use_c=case["use_c"])
    res = []
    for op, k in case["ops"]:
        if op == "kbest":
            ms = ss.kbest_matches(k=k)
            res.append([[m.distance, int(m.idx)] for m in ms])
        elif op == "best":
            m = ss.best_match()
            try:
                res.append([[m.distance, int(m.idx)]])
            except IndexError:
                res.append([])
        else:
            r = ss.align(k=k)
            res.append([[float(d), int(i)] for d, i in r])
    return res


def judge(case, got, exp):
    if "crash" in got:
        return {"kind": "crash", "detail": got}
    if "exc" in got:
        return {"kind": "exception:" + got["exc"], "detail": got.get("msg")}
    g = got["ok"]
    d2 = exp["d"]
    md2 = exp["md2"]
    for oi, ((op, k), r) in enumerate(zip(case["ops"], g)):
        elig = sorted(v for v in d2 if v != math.inf and v <= md2)
        if k is None:
            # all candidates, ascending; those beyond max_dist are inf
            want = elig + [math.inf] * (len(d2) - len(elig))
        else:
            want = elig[:k]
        gotv = [x[0] for x in r]
        wantv = [math.sqrt(v) if v != math.inf else math.inf for v in want]
        if gotv != wantv:
            return {"kind": "wrong-distances", "op": [op, k, oi], "got": gotv, "expected": wantv}
        seen = set()
        for dist, idx in r:
            if idx in seen or not (0 <= idx < len(d2)):
                return {"kind": "bad-index", "op": [op, k, oi], "idx": idx}
            seen.add(idx)
            true = d2[idx]
            tv = math.sqrt(true) if true != math.inf and true <= md2 else math.inf
            if tv != dist:
                return {"kind": "index-distance-mismatch", "op": [op, k, oi], "idx": idx, "reported": dist, "true": tv}
        m = exp.get("model", {}).get(oi)
        if m is not None and [math.sqrt(v) for v in m] != gotv:
            return {"kind": "differs-from-search-model", "op": [op, k, oi], "got": gotv, "model": m}
    return None


def nontrivial(case, exp):
    return len(case["cands"]) > 2 and (case["use_lb"] or case["max_dist"] is not None or len(case["ops"]) > 1)


def case_key(case):
    return repr((case["query"], case["cands"], case["ops"], case["use_lb"], case["use_c"], case["max_dist"],
                 case["max_value"], sorted(case["settings"].items(), key=str)))


def case_size(case):
    return len(case["cands"]) + len(case["ops"])


def histogram_keys(case):
    return ["ncands=%d" % len(case["cands"]), "nops=%d" % len(case["ops"]), "use_lb:%s" % case["use_lb"],
            "use_c:%s" % case["use_c"], "max_dist:%s" % (case["max_dist"] is not None),
            "max_value:%s" % (case["max_value"] is not None), "k_none:%s" % any(k is None for _, k in case["ops"])]
