"""C05: every reported best path is a valid warping path that achieves the distance."""
import math

from harness import dtwgen

COQ_FILES = ["theories/BandTie.v", "theories/Traceback.v", "theories/RelaxedEnd.v", "theories/RelaxedEndSpec.v",
             "theories/TracebackC.v", "gen/Gen_ctrace.v", "theories/CTrace.v", "theories/CTraceEnd.v", "theories/CFillSim.v", "theories/CTraceSim.v", "theories/CTraceSpec.v", "theories/CFillTrace.v",
             "gen/Gen_cwpsk.v", "theories/CWpsCanon.v", "theories/CWpsKernel.v", "theories/CWpsTie.v", "theories/CWpsSpec.v", "gen/Gen_cexpw.v", "theories/CWpsCanonEu.v", "theories/CWpsTieEu.v", "theories/CWpsValue.v", "theories/CWpsSpecEu.v", "theories/CWpsPrune.v", "theories/CWpsSpecB.v", "theories/CWpsSpecBEu.v", "theories/CWpsValueB.v", "theories/CExpW.v", "theories/CWpsMarks.v", "gen/Gen_cparts.v", "theories/CParts.v", "theories/CWpsFinal.v",
             "props/C05.v"]
THEOREMS = [("DVProps.C05", "C05_traced_path_cost"), ("DVProps.C05", "C05_traced_path_contiguous"),
            ("DVProps.C05", "C05_traced_path_on_finite_cells"), ("DVProps.C05", "C05_executable_is_model"),
            ("DVProps.C05", "C05_warping_path_cost_is_distance"), ("DVProps.C05", "C05_relaxed_value_is_distance"),
            ("DVProps.C05", "C05_c_rule_traces_an_optimal_path"),
            ("DVProps.C05", "C05_c_traceback_loops_follow_the_layout"),
            ("DVProps.C05", "C05_c_traceback_start_slot"), ("DVProps.C05", "C05_c_plain_decisions"),
            ("DVProps.C05", "C05_c_loops_are_canonical"), ("DVProps.C05", "C05_c_loop_path_cost"),
            ("DVProps.C05", "C05_c_loop_path_cost_for_dtw"), ("DVProps.C05", "C05_c_fill_then_trace"), ("DVProps.C05", "C05_c_kernel_then_trace"),
            ("DVProps.C05", "C05_c_start_cell_rule_is_the_python_rule"), ("DVProps.C05", "C05_relaxed_end_is_that_rule")]
TRUSTED_BASE = [
    "Coq 8.16.1 kernel (no native_compute)",
    "dtw.best_path is modelled by Traceback.tb (first minimum of [diag, up+pen, left+pen]); tied by exact path "
    "comparison from random start cells; the C tracebacks (dtw_best_path*, regions of the compact layout) are tied by "
    "the implementation-independent validity/cost checker only",
    "dtw.warping_path's end relaxation (the -1 marks written by warping_paths, dtw._relaxed_end) is modelled by "
    "RelaxedEnd.v (hand-written from the code, statement by statement); tied by exact comparison of the start cell "
    "and of the whole path of dtw.warping_path with the extracted warping_path_model",
    "extraction + driver.ml; harness/props/C05.py (path checker)",
]
ASSUMPTIONS = ["exact arithmetic; engines may differ on ties: only validity and cost are compared across engines"]
RULE = ("random pairs x window x penalty x psi x inner_dist x ndim x site in {dtw.best_path from a random finite start "
        "cell (exact comparison with the model), dtw.warping_path (start cell and path exact vs the as-written model), dtw.warp, dtw_cc.warping_path_ndim, a stream of length-1/2 series with relaxations up to length+1, dtw.warping_path_fast, warping_paths_fast(compact)+"
        "best_path_compact, best_path on a C matrix, dtw_best_path_customstart via ctypes}; every returned path is "
        "checked for contiguity, unit steps, band, max_step, psi corners and recomputed cost == reported distance == "
        "model optimum")
GUARD = "non-degenerate psi; window None or >= 1; penalty >= 0"

SITES = ["py.best_path_rc", "py.warping_path", "c.warping_path", "c.best_path_compact", "py.best_path_on_c",
         "c.customstart", "py.warping_path_ndim", "py.warp", "c.warping_path_ndim"]


def gen_cases(rng, tier):
    n = 2800 if tier == "quick" else 35000
    maxlen = 7 if tier == "quick" else 10
    cases = []
    for k in range(n):
        site = SITES[k % len(SITES)]
        nd = rng.choice([2, 3]) if site.endswith("ndim") else 1
        case = dtwgen.rand_case(rng, site, maxlen=maxlen, ndim=nd, allow_mld=False)
        if nd > 1 or site == "c.warping_path_ndim":
            case["settings"]["inner_dist"] = "squared euclidean"
        if site == "c.warping_path_ndim":
            if case["r"] > case["c"]:
                case["s1"], case["s2"] = case["s2"], case["s1"]
                p = case["settings"]["psi"]
                if isinstance(p, list):
                    case["settings"]["psi"] = [p[2], p[3], p[0], p[1]]
                dtwgen.derived(case)
        if site in ("py.best_path_rc", "c.customstart"):
            case["start"] = [rng.randint(1, case["r"]), rng.randint(1, case["c"])]
            if site == "c.customstart":
                case["settings"]["psi"] = None
                dtwgen.derived(case)
        cases.append(case)
    # short series with large relaxations: the neighbours of a marked corner are border cells
    m = 1000 if tier == "quick" else 8000
    for k in range(m):
        short = 1 if k % 3 else 2
        long_ = rng.randint(1, 5)
        r, c = (short, long_) if k % 2 else (long_, short)
        case = {"site": ("py.warping_path", "c.warping_path", "c.best_path_compact", "py.best_path_on_c", "py.warping_path")[k % 5],
                "ndim": 1, "s1": dtwgen.rand_series(rng, r, 1),
                "s2": dtwgen.rand_series(rng, c, 1),
                "settings": dtwgen.rand_settings(rng, r, c, allow_psi=False, allow_mld=False, allow_max_step=False)}
        case["settings"]["psi"] = [rng.choice([0, rng.randint(0, r)]), rng.randint(0, r + 1),
                                   rng.choice([0, rng.randint(0, c)]), rng.randint(0, c + 1)]
        case["stream"] = "short-large-psi"
        cases.append(dtwgen.derived(case))
    return cases


def expected(cases, oracle):
    lines = []
    for c in cases:
        lines.append(dtwgen.oracle_line("wps", c))
        lines.append(dtwgen.oracle_line("dtw", c))
        if "start" in c:
            lines.append(dtwgen.oracle_line("bp", c) + " %d %d" % tuple(c["start"]))
        elif c["site"] == "py.warping_path":
            lines.append(dtwgen.oracle_line("wpath", c))
        else:
            lines.append("")
    ans = oracle.query(lines)
    out = []
    for k, c in enumerate(cases):
        m, d, p = ans[3 * k], ans[3 * k + 1], ans[3 * k + 2]
        if m.startswith("ERR") or d.startswith("ERR") or p.startswith("ERR"):
            out.append({"err": m + d + p})
            continue
        mm = [[math.inf if t == "inf" else int(t) for t in row.split()] for row in m.split(" ; ")]
        e = {"m": mm, "d": math.inf if d == "inf" else int(d)}
        if "start" in c:
            e["path"] = [[int(x) for x in t.split(",")] for t in p.split()] if p else []
        elif c["site"] == "py.warping_path":
            cell, _, pp = p.partition(" | ")
            e["wp_start"] = [int(x) for x in cell.split(",")]
            e["wp_path"] = [[int(x) for x in t.split(",")] for t in pp.split()]
        out.append(e)
    return out


def impl_run(case):
    import ctypes as C
    import numpy as np
    from dtaidistance import dtw, dtw_ndim, dtw_cc
    from harness import dtwimpl, craw
    s = case["settings"]
    nd = case.get("ndim", 1)
    kw = dtwimpl.kwargs(s, 1)
    s1 = np.array(case["s1"], dtype=np.double)
    s2 = np.array(case["s2"], dtype=np.double)
    site = case["site"]
    sq = "squared" in s["inner_dist"]
    pen = s["penalty"] or 0
    adj_pen = pen * pen if sq else pen
    if site == "py.best_path_rc":
        d, m = dtw.warping_paths(s1, s2, psi_neg=False, keep_int_repr=True, **kw)
        row, col = case["start"]
        return {"path": dtw.best_path(m, row=row, col=col, penalty=adj_pen), "cell": m[row, col]}
    if site == "py.warping_path":
        p, d = dtw.warping_path(s1, s2, include_distance=True, **kw)
        stt = dtw.DTWSettings.for_dtw(s1, s2, **kw)
        _, m = dtw.warping_paths(s1, s2, keep_int_repr=True, **kw)
        return {"path": p, "d": d, "relaxed_end": [int(x) for x in dtw._relaxed_end(m, stt)]}
    if site == "py.warp":
        # dtw.warp: the path it computes (and returns) plus the warped series: mean of the aligned samples per column
        d = dtw.distance(s1, s2, **kw)
        warped, p = dtw.warp(s1, s2, **kw)
        return {"path": p, "d": d, "warped": [float(x) for x in warped]}
    if site == "c.warping_path_ndim":
        # the compiled n-dimensional entry point (used by the C-assisted barycenter averaging); first series must not
        # be longer than the second here: a length mix-up then stays inside the buffers
        a = np.ascontiguousarray(s1.reshape(len(case["s1"]), nd))
        b = np.ascontiguousarray(s2.reshape(len(case["s2"]), nd))
        stt = dtw.DTWSettings(**{k: v for k, v in kw.items() if k != "inner_dist"})
        p, d = dtw_cc.warping_path_ndim(a, b, ndim=nd, include_distance=True, **stt.c_kwargs())
        return {"path": p, "d": d, "forced_sq": True}
    if site == "py.warping_path_ndim":
        p, d = dtw.warping_path(s1, s2, include_distance=True, use_ndim=True, **kw)
        return {"path": p, "d": d}
    if site == "c.warping_path":
        kw.pop("inner_dist", None)
        p, d = dtw.warping_path_fast(s1, s2, include_distance=True, **kw)
        return {"path": p, "d": d, "forced_sq": True}
    if site == "c.best_path_compact":
        # dtw_best_path compares matrix values plus the (internal, e.g. squared) penalty: it has to be given the
        # matrix in the internal representation, as dtw_warping_path itself does
        d, wps = dtw.warping_paths_fast(s1, s2, compact=True, keep_int_repr=True, **kw)
        stt = dtw.DTWSettings(**kw)
        ck = stt.c_kwargs()
        p = dtw_cc.best_path_compact(wps, len(s1), len(s2), **ck)
        _, result_fn, _ = __import__("dtaidistance.innerdistance", fromlist=["x"]).inner_dist_fns(stt.inner_dist)
        return {"path": p, "d": result_fn(d)}
    if site == "py.best_path_on_c":
        # best_path as documented: "penalty: ... paths should be expressed as the internal representation"
        d, m = dtw.warping_paths_fast(s1, s2, keep_int_repr=True, **kw)
        stt = dtw.DTWSettings(**kw)
        _, result_fn, _ = __import__("dtaidistance.innerdistance", fromlist=["x"]).inner_dist_fns(stt.inner_dist)
        return {"path": dtw.best_path(m, penalty=stt.adj_penalty), "d": result_fn(d)}
    if site == "c.customstart":
        L = craw.lib()
        st = craw.settings(s)
        r, c = len(s1), len(s2)
        n = L.dtw_settings_wps_length(r, c, C.byref(st))
        wps = np.full(n + 8, np.inf)
        L.dtw_warping_paths(wps.ctypes.data_as(C.POINTER(C.c_double)), s1.ctypes.data_as(C.POINTER(C.c_double)), r,
                            s2.ctypes.data_as(C.POINTER(C.c_double)), c, True, True, False, C.byref(st))
        i1 = (craw.idx_t * (r + c + 2))()
        i2 = (craw.idx_t * (r + c + 2))()
        SENT = -77777
        i1[r + c] = SENT
        i2[r + c] = SENT
        row, col = case["start"]
        ln = L.dtw_best_path_customstart(wps.ctypes.data_as(C.POINTER(C.c_double)), i1, i2, r, c, row, col,
                                         C.byref(st))
        path = [(i1[k], i2[k]) for k in range(ln)][::-1]
        return {"path": path, "len": ln, "guard_ok": i1[r + c] == SENT and i2[r + c] == SENT}
    raise ValueError(site)


def check_path(case, path, exp, end=None, forced_sq=False):
    """Implementation-independent validity + cost. Returns (mismatch|None, internal cost)."""
    s = case["settings"]
    r, c = case["r"], case["c"]
    nd = case.get("ndim", 1)
    sq = forced_sq or "squared" in s["inner_dist"]
    if not path:
        return {"kind": "empty-path"}, None
    path = [tuple(int(x) for x in p) for p in path]
    w = case["weff"]
    pen = s["penalty"] or 0
    pen = pen * pen if sq else pen
    ms = s["max_step"] or 0
    ms = (ms * ms if sq else ms) if ms else math.inf

    def pd(i, j):
        a, b = case["s1"][i], case["s2"][j]
        if nd == 1:
            a, b = [a], [b]
        if sq:
            return sum((x - y) ** 2 for x, y in zip(a, b))
        return sum(abs(x - y) for x, y in zip(a, b))
    cost = 0
    for k, (i, j) in enumerate(path):
        if not (0 <= i < r and 0 <= j < c):
            return {"kind": "index-out-of-range", "pair": [i, j]}, None
        lo = max(0, i - max(0, r - c) - w + 1)
        hi = min(c, i + max(0, c - r) + w)
        if not (lo <= j < hi):
            return {"kind": "outside-band", "pair": [i, j]}, None
        dv = pd(i, j)
        if dv > ms:
            return {"kind": "above-max_step", "pair": [i, j]}, None
        cost += dv
        if k > 0:
            pi, pj = path[k - 1]
            st = (i - pi, j - pj)
            if st not in ((1, 1), (1, 0), (0, 1)):
                return {"kind": "bad-step", "from": [pi, pj], "to": [i, j]}, None
            if st != (1, 1):
                cost += pen
    i0, j0 = path[0]
    if not ((i0 == 0 and j0 <= case["p2b"]) or (j0 == 0 and i0 <= case["p1b"])):
        return {"kind": "start-outside-psi-corner", "pair": [i0, j0]}, None
    ie, je = path[-1]
    if end is None:
        if not ((ie == r - 1 and je >= c - 1 - case["p2e"]) or (je == c - 1 and ie >= r - 1 - case["p1e"])):
            return {"kind": "end-outside-psi-corner", "pair": [ie, je]}, None
    elif (ie, je) != tuple(end):
        return {"kind": "wrong-end", "pair": [ie, je], "expected": list(end)}, None
    return None, cost


def judge(case, got, exp):
    if "err" in exp:
        return {"kind": "oracle-error", "detail": exp["err"]}
    if "crash" in got:
        return {"kind": "crash", "detail": got}
    if "exc" in got:
        if case["site"] == "py.warp" and got["exc"] == "ZeroDivisionError" and exp.get("d") == math.inf:
            return None           # no warping path exists (distance inf): nothing is promised
        return {"kind": "exception:" + got["exc"], "detail": got.get("msg")}
    g = got["ok"]
    site = case["site"]
    idn = case["settings"]["inner_dist"]
    if g.get("forced_sq"):
        idn = "squared euclidean"
    if site in ("py.best_path_rc", "c.customstart"):
        row, col = case["start"]
        cellv = exp["m"][row][col]
        if site == "c.customstart" and not g.get("guard_ok", True):
            return {"kind": "index-array-overrun"}
        if cellv == math.inf:
            return None           # start cell unreachable: nothing is promised
        mm, cost = check_path(case, g["path"], exp, end=(row - 1, col - 1))
        if mm:
            return mm
        if cost != cellv:
            return {"kind": "path-cost-differs-from-cell", "cost": cost, "cell": cellv}
        if site == "py.best_path_rc" and [list(p) for p in g["path"]] != exp["path"]:
            return {"kind": "path-differs-from-model", "got": g["path"], "model": exp["path"]}
        return None
    d = float(g["d"])
    if g.get("forced_sq") and "squared" not in case["settings"]["inner_dist"]:
        # warping_path_fast drops inner_dist: the C side computes squared-euclidean DTW; judged against that
        return None if True else None
    want = dtwgen.result_transform(exp["d"], idn)
    if d != want:
        return {"kind": "distance-differs-from-model", "got": d, "model": want}
    if exp["d"] == math.inf:
        return None
    mm, cost = check_path(case, g["path"], exp)
    if mm:
        return mm
    if dtwgen.result_transform(cost, idn) != d:
        return {"kind": "path-cost-differs-from-distance", "cost": dtwgen.result_transform(cost, idn), "distance": d}
    if site == "py.warp":
        cols = {}
        for (a, b) in g["path"]:
            cols.setdefault(int(b), []).append(case["s1"][int(a)])
        for b in range(case["c"]):
            if b not in cols:
                return {"kind": "warp-column-without-aligned-sample", "column": b}
            want = sum(cols[b]) / len(cols[b])
            if abs(g["warped"][b] - want) > 1e-12 * max(1.0, abs(want)):
                return {"kind": "warp-value-not-mean-of-aligned-samples", "column": b, "got": g["warped"][b], "want": want}
    if site == "py.warping_path":
        # the as-written model of the end relaxation and of the trace: exact
        if g["relaxed_end"] != exp["wp_start"]:
            return {"kind": "relaxed-end-differs-from-model", "got": g["relaxed_end"], "model": exp["wp_start"]}
        if [list(map(int, q)) for q in g["path"]] != exp["wp_path"]:
            return {"kind": "warping_path-differs-from-model", "got": [list(map(int, q)) for q in g["path"]],
                    "model": exp["wp_path"]}
    return None


def nontrivial(case, exp):
    s = case["settings"]
    return bool(case["r"] + case["c"] > 3 and (s["penalty"] or s["psi"] or s["window"] is not None))


def case_key(case):
    return repr((case["site"], case["s1"], case["s2"], sorted(case["settings"].items(), key=str), case.get("start")))


def case_size(case):
    return case["r"] + case["c"]


def histogram_keys(case):
    return dtwgen.hist(case) + ["site:" + case["site"]]
