"""C07: parallel distance-matrix computation is schedule-independent."""
import math

from harness import dtwgen

COQ_FILES = ["theories/Parallel.v", "gen/Gen_omp.v", "gen/Gen_ompidx.v", "theories/ParallelTie.v", "gen/Gen_creent.v",
             "theories/CReent.v", "props/C07.v"]
THEOREMS = [("DVProps.C07", "C07_slots_are_0_to_len"), ("DVProps.C07", "C07_schedule_independent"),
            ("DVProps.C07", "C07_private_complete"), ("DVProps.C07", "C07_only_output_is_stored"),
            ("DVProps.C07", "C07_six_loops"), ("DVProps.C07", "C07_index_plan_is_the_code"),
            ("DVProps.C07", "C07_kernels_leave_shared_settings_untouched")]
TRUSTED_BASE = [
    "Coq 8.16.1 kernel; vm_compute for the finite private-clause table",
    "tools/translate_c.py (lexical extraction of the omp pragmas, private lists and assigned variables of "
    "dd_dtw_openmp.c into Gen_omp.v)",
    "Parallel.v is a hand model of dtw_distances_prepare and of the slot expressions; tied by correspondence "
    "(parallel result == serial result for thread counts 1..64, all block forms)",
    "partial: kernel re-entrancy, libgomp and multiprocessing.Pool.map are outside the model",
]
ASSUMPTIONS = ["a schedule is a permutation of atomic cell writes; value(r,c) is a pure function"]
RULE = ("collections x block forms x ndim x thread count in {1,2,3,4,7,16,33,64} (omp_set_num_threads) for "
        "dtw_cc_omp.distance_matrix[_ndim] on list / matrix containers, plus multiprocessing variants "
        "(parallel=True,use_mp=True with both engines, asymmetric psi); expected = the same engine's serial result")
GUARD = "valid blocks"

THREADS = [1, 2, 3, 4, 7, 16, 33, 64]


def gen_cases(rng, tier):
    n = 900 if tier == "quick" else 8000
    cases = []
    for k in range(n):
        mp = rng.random() < (0.04 if tier == "quick" else 0.06)
        ns = rng.randint(2, 9)
        nd = 1 if rng.random() < 0.75 else 2
        eq = rng.random() < 0.5
        L = rng.randint(1, 6)
        series = [dtwgen.rand_series(rng, L if eq else rng.randint(1, 6), nd) for _ in range(ns)]
        x = rng.random()
        if x < 0.3:
            block = None
        else:
            rb = rng.randint(0, ns - 1)
            re = rng.randint(rb + 1, ns)
            cb = rng.randint(0, ns - 1)
            ce = rng.randint(cb + 1, ns)
            block = [[rb, re], [cb, ce]]
            if rng.random() < 0.3 and not mp:
                block.append(False)
        ml = min(len(s) for s in series)
        st = {"window": rng.choice([None, 1, 2, 3]), "penalty": rng.choice([None, 1]),
              "psi": None, "max_step": None, "max_length_diff": None,
              "inner_dist": rng.choice(dtwgen.INNERS) if nd == 1 else "squared euclidean"}
        if mp and ml >= 2 and nd == 1:
            st["psi"] = [rng.randint(0, ml - 1), 0, 0, rng.randint(0, ml - 1)]
        site = ("mp." + rng.choice(["py", "c"])) if mp else "omp"
        cases.append({"site": site, "series": series, "ndim": nd, "block": block, "threads": rng.choice(THREADS),
                      "as_matrix": eq and rng.random() < 0.5, "settings": st, "n": ns})
    return cases


def expected(cases, oracle):
    return [{} for _ in cases]


_gomp = []


def impl_run(case):
    import ctypes
    import numpy as np
    from dtaidistance import dtw, dtw_ndim
    from harness import dtwimpl
    nd = case["ndim"]
    kw = dtwimpl.kwargs(case["settings"], 1)
    ser = [np.array(x, dtype=np.double).reshape((len(x), nd) if nd > 1 else (len(x),)) for x in case["series"]]
    cont = np.array(ser) if case["as_matrix"] else ser
    b = case["block"]
    block = None if b is None else tuple(tuple(x) if isinstance(x, list) else x for x in b)
    mod = dtw_ndim if nd > 1 else dtw
    extra = {"ndim": nd} if nd > 1 else {}
    if case["site"] == "omp":
        if not _gomp:
            _gomp.append(ctypes.CDLL("libgomp.so.1"))
        _gomp[0].omp_set_num_threads(int(case["threads"]))
        par = mod.distance_matrix(cont, block=block, compact=True, use_c=True, parallel=True, **extra, **kw)
        ser_ = mod.distance_matrix(cont, block=block, compact=True, use_c=True, parallel=False, **extra, **kw)
        return {"par": list(par), "ser": list(ser_), "omp": bool(dtw.dtw_cc_omp.is_openmp_supported())}
    use_c = case["site"] == "mp.c"
    par = mod.distance_matrix(cont, block=block, compact=True, use_c=use_c, parallel=True, use_mp=True, **extra, **kw)
    ser_ = mod.distance_matrix(cont, block=block, compact=True, use_c=use_c, parallel=False, **extra, **kw)
    return {"par": list(par), "ser": list(ser_), "omp": True}


def judge(case, got, exp):
    if "crash" in got:
        return {"kind": "crash", "detail": got}
    if "exc" in got:
        return {"kind": "exception:" + got["exc"], "detail": got.get("msg")}
    g = got["ok"]
    if not g["omp"]:
        return {"kind": "openmp-not-compiled-in"}
    if len(g["par"]) != len(g["ser"]):
        return {"kind": "length-differs", "par": len(g["par"]), "ser": len(g["ser"])}
    for k, (a, b) in enumerate(zip(g["par"], g["ser"])):
        if a != b:
            return {"kind": "element-differs", "index": k, "parallel": a, "serial": b}
    return None


def nontrivial(case, exp):
    return case["threads"] > 1 and case["n"] > 2


def case_key(case):
    return repr((case["site"], case["series"], case["block"], case["threads"], case["as_matrix"],
                 sorted(case["settings"].items(), key=str)))


def case_size(case):
    return case["n"]


def histogram_keys(case):
    b = case["block"]
    return ["site:" + case["site"], "threads=%d" % case["threads"], "ndim:%d" % case["ndim"],
            "block:" + ("none" if b is None else ("notriu" if len(b) > 2 else "triu")),
            "container:" + ("matrix" if case["as_matrix"] else "list")]
