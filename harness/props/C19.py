"""C19: distance-to-similarity and squashing are monotone, bounded, faithful."""
import math

COQ_FILES = ["gen/Gen_sim.v", "theories/Sim.v", "props/C19.v"]
THEOREMS = [("DVProps.C19", n) for n in ("C19_exponential", "C19_gaussian", "C19_reciprocal", "C19_reverse",
                                         "C19_documented_formulas_are_computed", "C19_squash_logistic",
                                         "C19_squash_exponential", "C19_squash_gaussian")]
TRUSTED_BASE = [
    "Coq 8.16.1 kernel; standard-library real numbers (axioms as reported by Print Assumptions: "
    "ClassicalDedekindReals.sig_forall_dec, sig_not_dec, FunctionalExtensionality.functional_extensionality_dep)",
    "tools/translate_py.py: the seven closed-form expressions of similarity.py regenerated into Gen_sim.v (np.exp -> "
    "exp, np.power(x,2) -> x*x, ...); the theorems are about those regenerated terms",
    "parameter derivation (max/min/mean/quantile), method dispatch, keep_sign and return_params are tied by "
    "correspondence on float arrays (harness/props/C19.py, 4-ulp window); rounding of exp/division not modelled",
]
ASSUMPTIONS = ["np.exp is monotone (assumed, spot-checked by the monotonicity check on outputs)"]
RULE = ("non-negative finite arrays (shapes (n,), (n,m); zeros, duplicates, single element) x method x {explicit r/a/x0/"
        "base, derived defaults, cover_quantile scalar / (q, value)} x keep_sign: output is non-increasing (resp. "
        "non-decreasing) in the input, zero distance gives the maximum, range [0,1], equals the documented formula, "
        "re-application with the reported parameters reproduces the output")
GUARD = "default scales need max(D) > 0 (mean(X) > 0 for logistic)"

D2S = ["exponential", "gaussian", "reciprocal", "reverse"]
SQ = ["logistic", "gaussian", "exponential"]


def gen_cases(rng, tier):
    n = 1500 if tier == "quick" else 20000
    cases = []
    for k in range(n):
        shape = rng.choice([(1,), (2,), (5,), (9,), (3, 3), (2, 4)])
        cnt = 1
        for s in shape:
            cnt *= s
        pat = rng.random()
        if pat < 0.08:
            vals = [0.0] * cnt
        elif pat < 0.3:
            vals = [float(rng.randint(0, 5)) for _ in range(cnt)]
        else:
            vals = [round(rng.random() * rng.choice([1, 10, 100]), 3) for _ in range(cnt)]
            if rng.random() < 0.3:
                vals[rng.randrange(cnt)] = 0.0
        kind = "d2s" if k % 2 == 0 else "squash"
        case = {"site": kind, "kind": kind, "shape": list(shape), "vals": vals}
        if kind == "d2s":
            case["method"] = rng.choice(D2S)
            mode = rng.choice(["default", "explicit", "quantile", "quantile_pair"])
            case["mode"] = mode
            if mode == "explicit":
                case["r"] = rng.choice([0.5, 1.0, 2.0, 7.5])
                case["a"] = rng.choice([None, 0.5, 2.0]) if case["method"] == "reciprocal" else None
            elif mode == "quantile":
                case["cq"] = rng.choice([0.5, 0.75, 0.9])
            elif mode == "quantile_pair":
                case["cq"] = [rng.choice([0.5, 0.75, 0.9]), rng.choice([0.1, 0.25, 0.5])]
        else:
            case["method"] = rng.choice(SQ)
            mode = rng.choice(["default", "explicit", "quantile", "quantile_pair"])
            case["mode"] = mode
            case["base"] = rng.choice([None, None, 2.0, 10.0, 10.0])
            case["keep_sign"] = rng.random() < 0.35
            if mode == "explicit":
                case["r"] = rng.choice([0.5, 1.0, 3.0])
                # x0 is accepted for every method (the gaussian / exponential squashes document it in their formula but
                # fix the midpoint at 0 and report x0 = 0): an explicit midpoint must never cost monotonicity
                case["x0"] = rng.choice([None, 0.0, 1.0, 2.5])
            elif mode == "quantile":
                case["cq"] = rng.choice([0.5, 0.75, 0.9])
            elif mode == "quantile_pair":
                case["cq"] = [rng.choice([0.5, 0.75, 0.9]), rng.choice([0.6, 0.8, 0.95])]
        if "cq" in case:
            import numpy as np
            q = case["cq"][0] if isinstance(case["cq"], list) else case["cq"]
            case["q_value"] = float(np.quantile(np.array(vals), q))
        case["vmean"] = sum(vals) / len(vals)
        case["vmax"] = max(vals)
        cases.append(case)
    return cases


def expected(cases, oracle):
    return [{} for _ in cases]


def impl_run(case):
    import numpy as np
    from dtaidistance import similarity
    X = np.array(case["vals"], dtype=np.double).reshape(case["shape"])
    kw = {"method": case["method"], "return_params": True}
    if "r" in case:
        kw["r"] = case["r"]
    if case.get("a") is not None:
        kw["a"] = case["a"]
    if "cq" in case:
        kw["cover_quantile"] = tuple(case["cq"]) if isinstance(case["cq"], list) else case["cq"]
    with np.errstate(all="ignore"):
        if case["kind"] == "d2s":
            S, r = similarity.distance_to_similarity(X, **kw)
            kw2 = {"method": case["method"], "r": r}
            if case.get("a") is not None:
                kw2["a"] = case["a"]
            S2 = similarity.distance_to_similarity(X, **kw2)
            return {"S": S.ravel(), "r": r, "S2": S2.ravel(), "X_after": X.ravel()}
        if case.get("x0") is not None:
            kw["x0"] = case["x0"]
        if case.get("base") is not None:
            kw["base"] = case["base"]
        kw["keep_sign"] = case["keep_sign"]
        S, r, x0 = similarity.squash(X, **kw)
        kw2 = {"method": case["method"], "r": r, "x0": x0, "keep_sign": case["keep_sign"]}
        if case.get("base") is not None:
            kw2["base"] = case["base"]
        S2 = similarity.squash(X, **kw2)
        return {"S": np.asarray(S).ravel(), "r": r, "x0": x0, "S2": np.asarray(S2).ravel(), "X_after": X.ravel()}


def ulps(a, b):
    import struct
    if a == b:
        return 0
    if any(math.isnan(x) or math.isinf(x) for x in (a, b)):
        return 1 << 60
    ia = struct.unpack("<q", struct.pack("<d", a))[0]
    ib = struct.unpack("<q", struct.pack("<d", b))[0]
    if (ia < 0) != (ib < 0):
        return abs(ia) + abs(ib) if abs(a - b) > 1e-300 else 0
    return abs(ia - ib)


def close(a, b, tol=8):
    return ulps(float(a), float(b)) <= tol or abs(float(a) - float(b)) <= 1e-15


def formula(case, x, r, x0):
    m = case["method"]
    if case["kind"] == "d2s":
        a = case.get("a")
        if m == "exponential":
            return math.exp(-x / r)
        if m == "gaussian":
            return math.exp(-x * x / (r * r))
        if m == "reciprocal":
            return None if a is None and case["mode"] != "default" and case["mode"] != "explicit" else 1.0 / (r + x * (a or 1))
        if m == "reverse":
            return (r - x) / r    # the documented formula (docstring repaired; regenerated into Gen_sim.doc_reverse)
    base = case.get("base")

    def pw(y):
        return math.exp(y) if base is None else base ** y
    if m == "logistic":
        return 1.0 / (1.0 + pw(-(x - x0) / r))
    if m == "gaussian":
        return 1.0 - pw(-(x - x0) ** 2 / (r * r))       # x0 = the midpoint the routine REPORTS
    if m == "exponential":
        return 1.0 - pw(-(x - x0) / r)


def judge(case, got, exp):
    if "crash" in got:
        return {"kind": "crash", "detail": got}
    if "exc" in got:
        return {"kind": "exception:" + got["exc"], "detail": got.get("msg")}
    g = got["ok"]
    X = case["vals"]
    S = [float(v) for v in g["S"]]
    if [float(v) for v in g["X_after"]] != [float(v) for v in X]:
        return {"kind": "input-modified"}
    if any(math.isnan(v) for v in S):
        return {"kind": "nan-output", "r": g["r"]}
    r = float(g["r"])
    x0 = g.get("x0")
    x0 = 0.0 if x0 is None else float(x0)
    order = sorted(range(len(X)), key=lambda i: X[i])
    inc = case["kind"] == "squash"
    for a, b in zip(order, order[1:]):
        if X[a] == X[b]:
            if S[a] != S[b]:
                return {"kind": "equal-inputs-different-outputs", "x": X[a], "s": [S[a], S[b]]}
        elif (S[b] < S[a]) if inc else (S[b] > S[a]):
            return {"kind": "not-monotone", "x": [X[a], X[b]], "s": [S[a], S[b]]}
    if case["kind"] == "d2s":
        for x, s in zip(X, S):
            if x == 0 and s != max(S):
                return {"kind": "zero-distance-not-maximal", "s": s, "max": max(S)}
        if case["mode"] == "default" and not all(-1e-12 <= s <= 1 + 1e-12 for s in S):
            return {"kind": "out-of-range", "s": S}
    elif not all(-1e-12 <= s <= 1 + 1e-12 for s in S):
        # (with keep_sign a non-negative input x is mapped to f(x) - f(0), which lies in [0, 1) as well)
        return {"kind": "out-of-range", "s": S}
    if not case.get("keep_sign"):
        for x, s in zip(X, S):
            try:
                f = formula(case, x, r, x0)
            except (ZeroDivisionError, OverflowError, ValueError):
                f = None
            if f is not None and not close(s, f):
                return {"kind": "differs-from-documented-formula", "x": x, "got": s, "formula": f, "r": r}
    S2 = [float(v) for v in g["S2"]]
    if any(not close(a, b) for a, b in zip(S, S2)):
        return {"kind": "reapply-differs", "first": S, "second": S2, "r": r}
    return None


def nontrivial(case, exp):
    return len(set(case["vals"])) > 1


def case_key(case):
    return repr(sorted(case.items(), key=lambda kv: kv[0]))


def case_size(case):
    return len(case["vals"])


def histogram_keys(case):
    return ["kind:" + case["kind"], "method:" + case["method"], "mode:" + case["mode"], "shape:%s" % case["shape"],
            "all_zero:%s" % (max(case["vals"]) == 0), "keep_sign:%s" % case.get("keep_sign", False),
            "base:%s" % case.get("base")]
