"""C10: identity, non-negativity, symmetry, option monotonicity, window 1 = Euclidean."""
import math

from harness import dtwgen

COQ_FILES = ["theories/BandTie.v", "theories/DtwProps.v", "theories/Bounds.v", "theories/PyDistProofs.v",
             "theories/PyDistPrune.v", "props/C10.v"]
THEOREMS = [("DVProps.C10", "C10_identity"), ("DVProps.C10", "C10_nonneg"), ("DVProps.C10", "C10_symmetry"),
            ("DVProps.C10", "C10_monotone"), ("DVProps.C10", "C10_window1_is_euclidean"),
            ("DVProps.C10", "C10_code_nonneg"), ("DVProps.C10", "C10_code_identity"),
            ("DVProps.C10", "C10_code_symmetry"), ("DVProps.C10", "C10_code_pruning_transparent")]
TRUSTED_BASE = [
    "Coq 8.16.1 kernel (no native_compute)",
    "tools/translate_py.py (band expressions regenerated; BandTie.v)",
    "the DTW model is tied to both engines by the correspondence checks of C01/C02; this check replays the "
    "relations themselves on both engines (harness/props/C10.py)",
]
ASSUMPTIONS = ["exact arithmetic on the integer stream"]
RULE = ("random pair + settings, evaluated on engine in {py, c} (and ndim 2): d(s,s)=0; d>=0; d(s1,s2;psi)=d(s2,s1;"
        "swapped psi); window w vs w+1, psi p vs p+1 (each entry), max_step m vs m+1, penalty p vs p+1; window=1 on "
        "equal lengths vs ed.distance; every value also compared with the model. Non-trivial = the pair of related "
        "calls returned different values or a band/psi/penalty was active")
GUARD = "non-degenerate psi; window None or >= 1; penalty >= 0"

RELS = ["identity", "symmetry", "window", "psi", "max_step", "penalty", "w1_ed"]


def gen_cases(rng, tier):
    n = 2100 if tier == "quick" else 28000
    maxlen = 7 if tier == "quick" else 10
    cases = []
    for k in range(n):
        rel = RELS[k % len(RELS)]
        eng = "py" if rng.random() < 0.5 else "c"
        nd = 1 if rng.random() < 0.8 else 2
        case = dtwgen.rand_case(rng, eng, maxlen=maxlen, ndim=nd, allow_mld=False)
        if nd > 1:
            case["settings"]["inner_dist"] = "squared euclidean"
        case["rel"] = rel
        s = case["settings"]
        s2 = dict(s)
        r, c = case["r"], case["c"]
        if rel == "identity":
            case["s2"] = list(case["s1"])
            s["psi"] = rng.choice([None, 0, rng.randint(0, r)])
            s["psi"] = None if (s["psi"] or 0) >= r else s["psi"]
            dtwgen.derived(case)
            s2 = dict(s)
        elif rel == "symmetry":
            p = dtwgen.split_psi(s["psi"])
            s2["psi"] = [p[2], p[3], p[0], p[1]] if s["psi"] is not None else None
        elif rel == "window":
            s["window"] = rng.randint(1, max(r, c) + 1)
            s2 = dict(s)
            s2["window"] = s["window"] + 1
        elif rel == "psi":
            p = list(dtwgen.split_psi(s["psi"]))
            q = list(p)
            k2 = rng.randrange(4)
            q[k2] += 1
            lim = [r, r, c, c]
            if q[k2] > lim[k2] or dtwgen.degenerate_psi(r, c, q) or dtwgen.degenerate_psi(r, c, p):
                q = p
            s["psi"], s2["psi"] = p, q
        elif rel == "max_step":
            s["max_step"] = rng.randint(1, 4)
            s2 = dict(s)
            s2["max_step"] = s["max_step"] + 1
        elif rel == "penalty":
            s["penalty"] = rng.randint(0, 3)
            s2 = dict(s)
            s2["penalty"] = s["penalty"] + rng.randint(1, 2)
        elif rel == "w1_ed":
            case["s2"] = dtwgen.rand_series(rng, r, nd)
            s.update({"window": 1, "psi": None, "max_step": None})
            dtwgen.derived(case)
            s2 = dict(s)
        case["settings2"] = s2
        dtwgen.derived(case)
        cases.append(case)
    return cases


def expected(cases, oracle):
    lines = []
    for c in cases:
        lines.append(dtwgen.oracle_line("dtw", c))
        if c["rel"] == "symmetry":
            sw = dict(c)
            sw["s1"], sw["s2"] = c["s2"], c["s1"]
            lines.append(dtwgen.oracle_line("dtw", sw, c["settings2"]))
        else:
            lines.append(dtwgen.oracle_line("dtw", c, c["settings2"]))
    ans = oracle.query(lines)
    out = []
    for k, c in enumerate(cases):
        a, b = ans[2 * k], ans[2 * k + 1]
        if a.startswith("ERR") or b.startswith("ERR"):
            out.append({"err": a + b})
            continue
        va = math.inf if a == "inf" else int(a)
        vb = math.inf if b == "inf" else int(b)
        idn = c["settings"]["inner_dist"]
        out.append({"a": dtwgen.result_transform(va, idn), "b": dtwgen.result_transform(vb, idn)})
    return out


def impl_run(case):
    import numpy as np
    from dtaidistance import dtw, dtw_ndim, ed
    from harness import dtwimpl
    nd = case.get("ndim", 1)
    s1 = np.array(case["s1"], dtype=np.double)
    s2 = np.array(case["s2"], dtype=np.double)
    mod = dtw_ndim if nd > 1 else dtw
    f = mod.distance if case["site"] == "py" else mod.distance_fast
    kw1 = dtwimpl.kwargs(case["settings"], 1)
    kw2 = dtwimpl.kwargs(case["settings2"], 1)
    a = f(s1, s2, **kw1)
    if case["rel"] == "symmetry":
        b = f(s2, s1, **kw2)
    else:
        b = f(s1, s2, **kw2)
    out = {"a": a, "b": b}
    if case["rel"] == "w1_ed":
        if case["site"] == "py":
            out["ed"] = ed.distance(s1, s2, inner_dist=case["settings"]["inner_dist"], use_ndim=nd > 1)
        elif nd == 1:
            out["ed"] = ed.distance_fast(s1, s2, inner_dist=case["settings"]["inner_dist"])
        else:
            out["ed"] = ed.distance(s1, s2, inner_dist=case["settings"]["inner_dist"], use_ndim=True)
    return out


def judge(case, got, exp):
    if "err" in exp:
        return {"kind": "oracle-error", "detail": exp["err"]}
    if "crash" in got:
        return {"kind": "crash", "detail": got}
    if "exc" in got:
        return {"kind": "exception:" + got["exc"], "detail": got.get("msg")}
    g = got["ok"]
    a, b = float(g["a"]), float(g["b"])
    rel = case["rel"]
    if a < 0 or b < 0 or math.isnan(a) or math.isnan(b):
        return {"kind": "negative-distance", "a": a, "b": b}
    if rel == "identity" and a != 0.0:
        return {"kind": "identity-violated", "a": a}
    if rel == "symmetry" and a != b:
        return {"kind": "symmetry-violated", "a": a, "b": b}
    if rel in ("window", "psi", "max_step") and b > a:
        return {"kind": "monotonicity-violated:" + rel, "a": a, "b": b}
    if rel == "penalty" and b < a:
        return {"kind": "monotonicity-violated:penalty", "a": a, "b": b}
    if rel == "w1_ed" and a != float(g["ed"]):
        return {"kind": "window1-not-euclidean", "a": a, "ed": g["ed"]}
    if a != exp["a"] or b != exp["b"]:
        return {"kind": "value-differs-from-model", "a": a, "b": b, "model": [exp["a"], exp["b"]]}
    return None


def nontrivial(case, exp):
    s = case["settings"]
    return bool(exp.get("a") != exp.get("b") or s["psi"] or s["penalty"] or
                (s["window"] is not None and s["window"] < max(case["r"], case["c"])))


def case_key(case):
    return repr((case["site"], case["rel"], case["s1"], case["s2"], sorted(case["settings"].items()),
                 sorted(case["settings2"].items())))


def case_size(case):
    return case["r"] + case["c"]


def histogram_keys(case):
    return dtwgen.hist(case) + ["engine:" + case["site"], "rel:" + case["rel"], "ndim:%d" % case.get("ndim", 1)]
