"""C16: DBA k-means returns k clusters covering all series, nearest mean each."""
import math

from harness import dtwgen

COQ_FILES = ["theories/Kmeans.v", "props/C16.v"]
THEOREMS = [("DVProps.C16", n) for n in ("C16_assigned_mean_is_nearest", "C16_unassigned_only_if_all_infinite",
                                         "C16_clusters_partition", "C16_iterations_bounded")]
TRUSTED_BASE = [
    "Coq 8.16.1 kernel",
    "the final assignment step of KMeans.fit (_distance*_with_params, cluster_idx construction, performed_it) is "
    "hand-modelled in Kmeans.v; tied by an implementation-independent postcondition checker over seeds x init modes "
    "x drop_stddev x engines x serial/parallel (harness/props/C16.py)",
    "partial: reachability of the final step (no exception in seeding / DBA updates) is correspondence only",
]
ASSUMPTIONS = ["distances of series to the returned means are recomputed with the same engine's single-pair routine"]
RULE = ("data sets (n 3..9 random series, or 10..16 series planted as tight groups plus outliers with drop_stddev and "
        "enough iterations to converge; ndim 1..2, duplicates allowed, equal length) x k < n x seed x initialisation "
        "(k-means++ / random / sample size) x drop_stddev x window/penalty x use_c x serial/parallel: exactly k sets "
        "keyed 0..k-1 partitioning all indices, k means, every series in the cluster of a nearest mean (first minimum), "
        "performed iterations <= max_it + 1, inputs untouched")
GUARD = "n > k >= 1"


def gen_cases(rng, tier):
    n = 400 if tier == "quick" else 4000
    cases = []
    for i in range(n):
        nd = 1 if rng.random() < 0.75 else 2
        ns = rng.randint(3, 9)
        L = rng.randint(2, 6)
        series = []
        for _ in range(ns):
            if series and rng.random() < 0.2:
                series.append([list(p) if isinstance(p, list) else p for p in rng.choice(series)])
            else:
                series.append(dtwgen.rand_series(rng, L, nd, lo=-3, hi=3))
        k = rng.randint(1, ns - 1)
        planted = rng.random() < 0.3
        if planted:
            # tight groups plus a few outliers, enough iterations to converge: the regime in which drop_stddev trims
            # series from the masks and the loop ends through "no change in cluster assignment"
            k = rng.randint(2, 3)
            ns = rng.randint(10, 16)
            bases = [dtwgen.rand_series(rng, L, nd, lo=-3, hi=3) for _ in range(k)]
            series = []
            for j in range(ns):
                b = bases[j % k]
                v = [list(p) if isinstance(p, list) else p for p in b]
                pos = rng.randrange(L)
                bump = rng.choice([0, 0, 1, -1]) if j < ns - 2 else rng.choice([5, 7, -6])
                if nd == 1:
                    v[pos] = v[pos] + bump
                else:
                    v[pos][0] = v[pos][0] + bump
                series.append(v)
        init = rng.choice(["kmeanspp", "kmeanspp", "random", "sample"])
        cases.append({"site": "kmeans", "series": series, "ndim": nd, "k": k, "seed": rng.randint(0, 10 ** 6),
                      "init": init, "sample_size": rng.randint(1, 3) if init == "sample" else None,
                      "drop_stddev": rng.choice([1, 2, 1, 2, None]) if planted else rng.choice([None, None, 1, 2]),
                      "max_it": rng.randint(4, 10) if planted else rng.randint(1, 5),
                      "window": rng.choice([None, 2]), "penalty": rng.choice([None, 1]),
                      # thr: the loop also stops when the means move by at most thr; a coarse value makes that rule fire
                      # while assignments are still changing (the default 1e-4 practically never does)
                      "thr": rng.choice([None, None, 0.05, 0.3, 1.0, 3.0]),
                      "use_c": rng.random() < 0.5, "parallel": rng.random() < 0.05})
    return cases


def expected(cases, oracle):
    return [{} for _ in cases]


def impl_run(case):
    import random
    import numpy as np
    from dtaidistance import dtw, dtw_ndim
    from dtaidistance.clustering.kmeans import KMeans
    nd = case["ndim"]
    data = np.array(case["series"], dtype=np.double)
    before = data.copy()
    random.seed(case["seed"])
    np.random.seed(case["seed"] % (2 ** 32))
    opts = {k: case[k] for k in ("window", "penalty") if case[k] is not None}
    if case["use_c"]:
        opts["use_c"] = True
    kw = {} if case.get("thr") is None else {"thr": case["thr"]}
    model = KMeans(k=case["k"], max_it=case["max_it"], max_dba_it=3, drop_stddev=case["drop_stddev"],
                   dists_options=opts, show_progress=False, **kw,
                   initialize_with_kmeanspp=(case["init"] in ("kmeanspp", "sample")),
                   initialize_sample_size=case["sample_size"])
    cluster_idx, performed_it = model.fit(data, use_parallel=case["parallel"])
    means = [np.asarray(m, dtype=np.double) for m in model.means]
    f = (dtw_ndim.distance_fast if case["use_c"] else dtw_ndim.distance) if nd > 1 else \
        (dtw.distance_fast if case["use_c"] else dtw.distance)
    dkw = {k: case[k] for k in ("window", "penalty") if case[k] is not None}
    dm = [[f(data[i], means[j], **dkw) for j in range(len(means))] for i in range(len(data))]
    return {"clusters": {int(k): sorted(int(x) for x in v) for k, v in cluster_idx.items()},
            "performed_it": int(performed_it), "n_means": len(means), "dm": dm,
            "mean_lens": [len(m) for m in means], "untouched": bool((data == before).all())}


def judge(case, got, exp):
    if "crash" in got:
        return {"kind": "crash", "detail": got}
    if "exc" in got:
        return {"kind": "exception:" + got["exc"], "detail": got.get("msg")}
    g = got["ok"]
    k, n = case["k"], len(case["series"])
    cl = {int(a): b for a, b in g["clusters"].items()}
    if sorted(cl.keys()) != list(range(k)):
        return {"kind": "keys-not-0..k-1", "keys": sorted(cl.keys())}
    if sorted(x for v in cl.values() for x in v) != list(range(n)):
        return {"kind": "not-a-partition", "clusters": cl}
    if g["n_means"] != k:
        return {"kind": "wrong-number-of-means", "got": g["n_means"]}
    if g["performed_it"] > case["max_it"] + 1:
        return {"kind": "too-many-iterations", "performed": g["performed_it"], "max_it": case["max_it"]}
    if not g["untouched"]:
        return {"kind": "input-modified"}
    for c, members in cl.items():
        for i in members:
            row = [float(x) for x in g["dm"][i]]
            m = min(row)
            if row[c] != m:
                return {"kind": "not-nearest-mean", "series": i, "cluster": c, "distances": row}
            if row.index(m) != c:
                return {"kind": "not-first-nearest-mean", "series": i, "cluster": c, "distances": row}
    return None


def nontrivial(case, exp):
    return case["k"] > 1


def case_key(case):
    return repr(sorted(case.items(), key=lambda kv: kv[0]))


def case_size(case):
    return len(case["series"])


def histogram_keys(case):
    return ["n=%d" % len(case["series"]), "k=%d" % case["k"], "ndim:%d" % case["ndim"], "init:" + case["init"],
            "drop_stddev:%s" % case["drop_stddev"], "use_c:%s" % case["use_c"], "parallel:%s" % case["parallel"],
            "duplicates:%s" % (len(set(map(repr, case["series"]))) < len(case["series"]))]
