"""C20: calls are pure: inputs untouched, container- and history-independent."""
import math

from harness import dtwgen

COQ_FILES = ["gen/Gen_calls.v", "theories/Views.v", "props/C20.v"]
THEOREMS = [("DVProps.C20", n) for n in ("C20_guarded_read_is_logical", "C20_verify_preserves_content",
                                         "C20_unguarded_read_refuted", "C20_all_call_sites_guarded",
                                         "C20_call_site_table_nonempty")]
TRUSTED_BASE = [
    "Coq 8.16.1 kernel; vm_compute over the finite call-site table",
    "tools/translate_py.py: table of all calls from the Python layer into pointer-taking compiled routines, with "
    "'argument passed through verify_np_array before the call' computed from the AST (Gen_calls.v)",
    "partial: Views.v models the contiguity guard; that no routine mutates its inputs and that results do not depend "
    "on the container or on the call history is established on the implementation only (bitwise snapshots, all "
    "container representations, NumPy importable or not, repeated/interleaved calls)",
]
ASSUMPTIONS = ["numeric content is integer-valued doubles; results are compared exactly"]
RULE = ("operation in {distance, warping_paths, warping_path, lb_keogh, ed, distance_matrix, dba, subsequence search / "
        "alignment, hierarchical clustering, similarity} x engine x container representation (list, tuple, "
        "array.array, ndarray C / strided / reversed / column of an F-ordered matrix; for collections: list of those, "
        "2-D array C/F, SeriesContainer; ndim: C, F, transposed-view) x NumPy present/absent x call twice / interleaved: "
        "identical results, inputs bitwise unchanged")
GUARD = "C routines take buffers of doubles (array.array / ndarray) as documented"

OPS = ["dist_py", "dist_c", "wps_py", "wps_c", "path_py", "path_c", "lb_py", "lb_c", "ed_py", "ed_c", "dm_py", "dm_c",
       "dba_py", "dba_c", "ssearch", "salign", "hier", "nd_dist_py", "nd_dist_c", "nd_dm_py", "nd_dm_c", "nonumpy"]


def gen_cases(rng, tier):
    n = 660 if tier == "quick" else 6600
    cases = []
    for k in range(n):
        op = OPS[k % len(OPS)]
        L = rng.randint(2, 6)
        ns = rng.randint(3, 4)
        nd = 2
        cases.append({"site": op, "op": op, "series": [dtwgen.rand_series(rng, L, 1) for _ in range(ns)],
                      "nd_series": [dtwgen.rand_series(rng, L, nd) for _ in range(ns)],
                      "window": rng.choice([None, 2]), "penalty": rng.choice([None, 1]),
                      "psi": rng.choice([None, None, 1])})
    return cases


def expected(cases, oracle):
    return [{} for _ in cases]


def _reps_1d(vals, for_c):
    import array
    import numpy as np
    v = [float(x) for x in vals]
    out = {}
    if not for_c:
        out["list"] = list(v)
        out["tuple"] = tuple(v)
    out["array"] = array.array("d", v)
    out["np_c"] = np.array(v, dtype=np.double)
    base = np.zeros(2 * len(v), dtype=np.double)
    base[::2] = v
    base[1::2] = 99.0
    out["np_strided"] = base[::2]
    out["np_reversed"] = np.array(v[::-1], dtype=np.double)[::-1]
    mat = np.asfortranarray(np.array([v, [7.0] * len(v)], dtype=np.double))
    out["np_row_of_F"] = mat[0, :]
    return out


def impl_run(case):
    import os
    import sys
    import numpy as np
    op = case["op"]
    kw = {k: case[k] for k in ("window", "penalty", "psi") if case[k] is not None}
    if op == "nonumpy":
        os.environ["DTAIDISTANCE_TESTWITHOUTNUMPY"] = "1"
        for m in [m for m in sys.modules if m.startswith("dtaidistance")]:
            del sys.modules[m]
        from dtaidistance import dtw, ed
        assert dtw.np is None
        s = [[float(x) for x in v] for v in case["series"]]
        res_off = [dtw.distance(s[0], s[1], **kw), dtw.lb_keogh(s[0], s[1], window=case["window"]),
                   ed.distance(s[0], s[1]), list(dtw.distance_matrix(s, compact=True, **kw))]
        os.environ["DTAIDISTANCE_TESTWITHOUTNUMPY"] = "0"
        for m in [m for m in sys.modules if m.startswith("dtaidistance")]:
            del sys.modules[m]
        from dtaidistance import dtw, ed
        assert dtw.np is not None
        res_on = [dtw.distance(s[0], s[1], **kw), dtw.lb_keogh(s[0], s[1], window=case["window"]),
                  ed.distance(s[0], s[1]), list(dtw.distance_matrix(s, compact=True, **kw))]
        return {"variants": {"numpy_off": res_off, "numpy_on": res_on}, "mutated": []}
    if os.environ.get("DTAIDISTANCE_TESTWITHOUTNUMPY") == "1":
        os.environ["DTAIDISTANCE_TESTWITHOUTNUMPY"] = "0"
        for m in [m for m in sys.modules if m.startswith("dtaidistance")]:
            del sys.modules[m]
    from dtaidistance import dtw, dtw_ndim, ed, dtw_barycenter
    from dtaidistance.util import SeriesContainer
    for_c = op.endswith("_c")
    variants = {}
    mutated = []

    def snap(x):
        if isinstance(x, np.ndarray):
            return x.tobytes() if x.flags.c_contiguous else np.ascontiguousarray(x).tobytes()
        if isinstance(x, (list, tuple)):
            return repr([snap(e) if isinstance(e, (np.ndarray, list, tuple)) or hasattr(e, "tobytes") else e for e in x])
        if hasattr(x, "tobytes"):
            return x.tobytes()
        return repr(x)

    def run(name, f, *args):
        before = [snap(a) for a in args]
        try:
            r1 = f(*args)
            r2 = f(*args)          # repeated call on the same objects
        except Exception as exc:  # noqa
            r1 = r2 = {"exc": type(exc).__name__, "msg": str(exc)[:120]}
        after = [snap(a) for a in args]
        if before != after:
            mutated.append(name)
        variants[name] = r1
        variants[name + "#again"] = r2
    if op.startswith("nd_"):
        data = [np.array(s, dtype=np.double) for s in case["nd_series"]]
        reps = {"C": data, "F": [np.asfortranarray(d) for d in data],
                "T_view": [np.ascontiguousarray(d.T).T for d in data],
                "strided": [np.repeat(d, 2, axis=0)[::2] for d in data]}
        for rn, ss in reps.items():
            if op == "nd_dist_py":
                run(rn, lambda a, b: dtw_ndim.distance(a, b, **kw), ss[0], ss[1])
            elif op == "nd_dist_c":
                run(rn, lambda a, b: dtw_ndim.distance_fast(a, b, **kw), ss[0], ss[1])
            else:
                use_c = op == "nd_dm_c"
                run(rn, lambda x: list(dtw_ndim.distance_matrix(x, ndim=2, compact=True, use_c=use_c, parallel=False, **kw)), ss)
                if rn in ("C", "F"):
                    arr3 = np.array(data) if rn == "C" else np.asfortranarray(np.array(data))
                    run("3d_" + rn, lambda x: list(dtw_ndim.distance_matrix(x, ndim=2, compact=True, use_c=use_c,
                                                                            parallel=False, **kw)), arr3)
        return {"variants": variants, "mutated": mutated}
    reps = [_reps_1d(s, for_c) for s in case["series"]]
    names = list(reps[0].keys())
    for rn in names:
        ss = [r[rn] for r in reps]
        a, b = ss[0], ss[1]
        if op == "dist_py":
            run(rn, lambda x, y: dtw.distance(x, y, **kw), a, b)
        elif op == "dist_c":
            run(rn, lambda x, y: dtw.distance_fast(x, y, **kw), a, b)
        elif op in ("wps_py", "wps_c"):
            f = dtw.warping_paths if op == "wps_py" else dtw.warping_paths_fast
            run(rn, lambda x, y: [f(x, y, **kw)[0], f(x, y, **kw)[1].tolist()], a, b)
        elif op in ("path_py", "path_c"):
            f = dtw.warping_path if op == "path_py" else dtw.warping_path_fast
            kk = {k: v for k, v in kw.items() if k != "psi"}
            run(rn, lambda x, y: [list(map(int, p)) for p in f(x, y, **kk)], a, b)
        elif op in ("lb_py", "lb_c"):
            run(rn, lambda x, y: dtw.lb_keogh(x, y, window=case["window"], use_c=(op == "lb_c")), a, b)
        elif op == "ed_py":
            run(rn, lambda x, y: ed.distance(x, y), a, b)
        elif op == "ed_c":
            run(rn, lambda x, y: ed.distance_fast(x, y), a, b)
        elif op in ("dm_py", "dm_c"):
            use_c = op == "dm_c"
            run(rn, lambda x: list(dtw.distance_matrix(x, compact=True, use_c=use_c, parallel=False, **kw)), ss)
        elif op in ("dba_py", "dba_c"):
            kk = {k: v for k, v in kw.items() if k == "window"}
            use_c = op == "dba_c"
            if use_c and rn in ("list", "tuple"):
                continue
            run(rn, lambda x: [float(v) for v in dtw_barycenter.dba(x, x[0], use_c=use_c, **kk)], ss)
            if np is not None and rn not in ("list", "tuple"):
                # the iterated routine starts from a series of the collection (c=None) or from the caller's array:
                # neither may be written to, with or without the convergence test (thr)
                for thr in (0.001, None):
                    run(rn + "#loop_thr=%s" % thr,
                        lambda x: [float(v) for v in dtw_barycenter.dba_loop(x, c=None, max_it=2, thr=thr, use_c=use_c, **kk)], ss)
                    c0 = np.array(case["series"][1], dtype=np.double)
                    run(rn + "#loop_c_thr=%s" % thr,
                        lambda x, c: [float(v) for v in dtw_barycenter.dba_loop(x, c=c, max_it=2, thr=thr, use_c=use_c, **kk)], ss, c0)
        elif op == "ssearch":
            from dtaidistance.subsequence.subsequencesearch import SubsequenceSearch
            run(rn, lambda q, x: [[float(m.distance), int(m.idx)] for m in
                                  SubsequenceSearch(q, x, dists_options={}, use_lb=True).kbest_matches(k=2)], a, ss[1:])
        elif op == "salign":
            from dtaidistance.subsequence.subsequencealignment import SubsequenceAlignment
            if rn in ("list", "tuple", "array"):
                continue

            def sa(q, x):
                o = SubsequenceAlignment(q, x, penalty=1)
                o.align()
                return [float(v) for v in o.matching_function()]
            run(rn, sa, a[:2], b)
        elif op == "hier":
            from dtaidistance.clustering import hierarchical

            def hf(x):
                m = hierarchical.Hierarchical(dtw.distance_matrix, {}, show_progress=False)
                return {int(k): sorted(int(i) for i in v) for k, v in m.fit(x).items()}
            run(rn, hf, ss)
    if op in ("dm_py", "dm_c", "hier"):
        use_c = op == "dm_c"
        mat = np.array(case["series"], dtype=np.double)
        f = (lambda x: list(dtw.distance_matrix(x, compact=True, use_c=use_c, parallel=False, **kw))) if op != "hier" else hf
        run("matrix_C", f, mat)
        run("matrix_F", f, np.asfortranarray(mat))
        if op != "hier":
            run("container", f, SeriesContainer.wrap([np.array(s, dtype=np.double) for s in case["series"]]))
    return {"variants": variants, "mutated": mutated}


def judge(case, got, exp):
    if "crash" in got:
        return {"kind": "crash", "detail": got}
    if "exc" in got:
        return {"kind": "exception:" + got["exc"], "detail": got.get("msg")}
    g = got["ok"]
    if g["mutated"]:
        return {"kind": "input-modified", "variants": g["mutated"]}
    vs = g["variants"]
    names = sorted(vs)
    if not names:
        return {"kind": "no-variant-ran"}
    # variants are named  <container>[#<operation tag>][#again] ; results are compared within one operation
    groups = {}
    for nme in names:
        parts = [p for p in nme.split("#") if p != "again"]
        groups.setdefault("#".join(parts[1:]), []).append(nme)
    out = []
    for tag, members in sorted(groups.items()):
        def cont(n):
            return n.split("#")[0]
        pref = [n for n in members if cont(n) in ("np_c", "C", "numpy_on") and not n.endswith("#again")]
        refname = pref[0] if pref else members[0]
        ref = vs[refname]
        if isinstance(ref, dict) and "exc" in ref:
            return {"kind": "reference-variant-raises", "differs": refname, "got": ref}
        seen = set()
        for nme in members:
            if vs[nme] != ref:
                base = cont(nme)
                if base in seen:
                    continue
                seen.add(base)
                kind = "result-depends-on-container-or-history"
                if isinstance(vs[nme], dict) and "exc" in vs[nme]:
                    kind = "container-raises:" + vs[nme]["exc"]
                out.append({"kind": kind, "reference": refname, "differs": base + ("#" + tag if tag else ""), "ref": ref, "got": vs[nme]})
    return out or None


def nontrivial(case, exp):
    return True


def case_key(case):
    return repr(sorted(case.items(), key=lambda kv: kv[0]))


def case_size(case):
    return len(case["series"][0])


def histogram_keys(case):
    return ["op:" + case["op"], "window:%s" % case["window"], "psi:%s" % case["psi"]]
