"""C08: the C engine stays within its buffers and executes no undefined behaviour."""
import math

from harness import dtwgen

COQ_FILES = ["theories/BandTie.v", "gen/Gen_cmem.v", "theories/Mem.v", "theories/CBand.v", "gen/Gen_cwps.v", "theories/CWps.v", "gen/Gen_cfill.v", "theories/CFill.v",
             "gen/Gen_cexpand.v", "theories/CExpand.v", "gen/Gen_cloc.v", "theories/CLoc.v",
             "gen/Gen_cdist.v", "theories/CDistCanon.v", "theories/CDistTie.v", "theories/CDistProofs.v", "theories/CDistSpec.v",
             "gen/Gen_cwpsk.v", "gen/Gen_cexpw.v", "theories/CWpsCanon.v", "theories/CWpsKernel.v", "theories/CWpsTie.v", "theories/CWpsCanonEu.v", "theories/CWpsValue.v", "theories/CWpsSpec.v", "theories/CWpsTieEu.v", "theories/CWpsSpecEu.v", "theories/CExpW.v", "theories/CWpsPrune.v", "theories/CWpsSpecB.v", "theories/CWpsSpecBEu.v", "theories/CWpsValueB.v", "theories/CWpsMarks.v", "gen/Gen_cparts.v", "theories/CParts.v", "theories/CWpsFinal.v", "props/C08.v"]
THEOREMS = [("DVProps.C08", "C08_psi_prologue_in_allocation"), ("DVProps.C08", "C08_psi_scan_in_row"),
            ("DVProps.C08", "C08_band_write_in_buffer"), ("DVProps.C08", "C08_c_row_loop_accesses_in_buffer"),
            ("DVProps.C08", "C08_compact_slot_in_row"), ("DVProps.C08", "C08_compact_shift_steps"),
            ("DVProps.C08", "C08_fill_loops_follow_the_layout"), ("DVProps.C08", "C08_fill_skip_loops_bounded"),
            ("DVProps.C08", "C08_fill_skip_in_row"), ("DVProps.C08", "C08_expand_loops_follow_the_layout"),
            ("DVProps.C08", "C08_expand_write_index_in_block"), ("DVProps.C08", "C08_wps_loc_returns_the_layout_slot"),
            ("DVProps.C08", "C08_c_dtw_distance_accesses_in_bounds"), ("DVProps.C08", "C08_c_dtw_distance_euclidean_accesses_in_bounds"),
            ("DVProps.C08", "C08_c_dtw_distance_ndim_accesses_in_bounds"), ("DVProps.C08", "C08_c_dtw_distance_ndim_euclidean_accesses_in_bounds"),
            ("DVProps.C08", "C08_c_wps_kernel_accesses_in_bounds"),
            ("DVProps.C08", "C08_c_expand_accesses_in_bounds")]
TRUSTED_BASE = [
    "Coq 8.16.1 kernel",
    "tools/translate_c.py: buffer length, allocation size, psi prologue bound and psi scan bounds of the four "
    "dtw_distance* instances regenerated from dd_dtw.c into Gen_cmem.v (fail-closed regular-expression selectors + a "
    "small C expression parser)",
    "tools/cfun.py: the four dtw_distance* kernels regenerated WHOLE with a bounds conjunct for every array access "
    "(Gen_cdist.v); C08_c_dtw_distance*_accesses_in_bounds: the flag is true for all inputs (idx_t over Z: overflow "
    "of the index arithmetic is not modelled)",
    "tools/cfun.py: dtw_warping_paths_ndim regenerated WHOLE the same way (Gen_cwpsk.v); "
    "C08_c_wps_kernel_accesses_in_bounds: run without a bound on any buffer of (l1+1)*width cells the flag is true "
    "and the buffer keeps its size (the bounded run and the Euclidean twin: correspondence + sanitizer runs); "
    "C08_c_expand_accesses_in_bounds: the same for dtw_expand_wps_slice regenerated whole (Gen_cexpw.v), every slice",
    "partial: for the other routines only index arithmetic is proved; the affinity expansion, "
    "best_path, distance matrices, DBA and the Cython glue are covered by the AddressSanitizer+UBSan runs only "
    "(clang 14, exact-size malloc'ed caller buffers, PYTHONMALLOC=malloc so that every buffer has red zones)",
]
ASSUMPTIONS = ["buffers are allocated at exactly the documented sizes; a sanitizer report = a violation"]
RULE = ("all exported routines through ctypes on an ASan+UBSan build: distance (4 instances), warping paths into a "
        "compact buffer of dtw_settings_wps_length, dtw_expand_wps, dtw_best_path / dtw_warping_path into index arrays "
        "of len1+len2, lb_keogh, ub_euclidean(_ndim), distance matrices (ptrs/matrix, serial/parallel, blocks) into "
        "dtw_distances_length outputs, dtw_dba_ptrs/matrix; the tools on the compact array (dtw_wps_max, negativize / "
        "positivize with slices and single cells, dtw_wps_loc_columns) and the affinity kernels (fill, expand, slice "
        "expansion, dtw_best_path_affinity); (len1,len2) in 1..7 x window 0..max+1 x psi 4-tuples <= "
        "lengths x penalty/max_step/max_dist/pruning x ndim x inner distance")
GUARD = "series length >= 1, psi <= lengths, valid blocks"
IMPL_ENV = {"VERIF_LIBDD": "libdd_asan.so", "PYTHONMALLOC": "malloc",
            "LD_PRELOAD": "/usr/lib/llvm-14/lib/clang/14.0.6/lib/linux/libclang_rt.asan-x86_64.so",
            "ASAN_OPTIONS": "detect_leaks=0:abort_on_error=0:halt_on_error=1:allocator_may_return_null=1",
            "UBSAN_OPTIONS": "print_stacktrace=0:halt_on_error=1", "OMP_NUM_THREADS": "3"}

CHUNK_TIMEOUT = 40
CHUNK = 60

ROUTINES = ["distance", "wps_expand_path", "warping_path", "bounds", "matrix", "dba", "expand_slice", "wps_tools",
            "affinity"]


def gen_cases(rng, tier):
    n = 2100 if tier == "quick" else 30000
    maxlen = 7 if tier == "quick" else 9
    cases = []
    for k in range(n):
        rt = ROUTINES[k % len(ROUTINES)]
        nd = rng.choice([1, 1, 2, 3]) if rt in ("distance", "warping_path", "bounds", "matrix", "dba") else 1
        r = rng.randint(1, maxlen)
        c = rng.randint(1, maxlen)
        m = max(r, c)
        st = {"window": rng.choice([0, 0, rng.randint(1, m + 1), rng.randint(1, m + 1), 1]),
              "penalty": rng.choice([0, 0, 1, 2]), "max_step": rng.choice([0, 0, 0, 1, 3]),
              "max_dist": rng.choice([0, 0, 0, 1, 3, 5]), "max_length_diff": rng.choice([0, 0, 0, 1, 3]),
              "psi": [rng.choice([0, 0, rng.randint(0, r)]), rng.choice([0, 0, rng.randint(0, r)]),
                      rng.choice([0, 0, rng.randint(0, c)]), rng.choice([0, 0, rng.randint(0, c)])],
              "use_pruning": rng.random() < 0.15, "inner_dist": rng.choice(dtwgen.INNERS)}
        case = {"site": "c." + rt, "routine": rt, "ndim": nd, "s1": dtwgen.rand_series(rng, r, nd),
                "s2": dtwgen.rand_series(rng, c, nd), "settings": st, "r": r, "c": c}
        if rt in ("matrix", "dba"):
            ns = rng.randint(1, 5)
            eq = rng.random() < 0.5
            L = rng.randint(1, maxlen)
            case["series"] = [dtwgen.rand_series(rng, L if eq else rng.randint(1, maxlen), nd) for _ in range(ns)]
            case["as_matrix"] = eq and rng.random() < 0.6
            ml = min(len(x) for x in case["series"])
            p = rng.choice([0, 0, rng.randint(0, ml)])
            st["psi"] = [p, p, p, p]
            x = rng.random()
            if x < 0.4:
                case["block"] = None
            else:
                rb = rng.randint(0, ns - 1)
                re = rng.randint(rb + 1, ns)
                cb = rng.randint(0, ns - 1)
                ce = rng.randint(cb + 1, ns)
                case["block"] = [rb, re, cb, ce, rng.random() < 0.7]
            case["parallel"] = rng.random() < 0.4
            case["mask"] = [rng.random() < 0.7 for _ in range(ns)]
            if not any(case["mask"]):
                case["mask"][0] = True
            case["avg_len"] = rng.randint(1, maxlen)
        if rt in ("wps_tools", "affinity"):
            # slices for negativize / positivize / slice expansion, a start cell for the affinity traceback
            sl = []
            for _ in range(2):
                rb = rng.randint(0, r)
                re = rng.randint(rb + 1, r + 1)
                cb = rng.randint(0, c)
                ce = rng.randint(cb + 1, c + 1)
                sl.append([rb, re, cb, ce, rng.random() < 0.5])
            case["slices"] = sl
            case["self"] = (r == c) and rng.random() < 0.5
            if rt == "affinity":
                st["psi"] = [0, 0, 0, 0]
                st["inner_dist"] = "squared euclidean"
                # only_triu is an option of the routine for ANY two series (the rows below the last column are then
                # skipped entirely), not only for self-comparison
                case["only_triu"] = bool(case["self"]) or rng.random() < 0.4
        if rt == "expand_slice":
            rb = rng.randint(0, r)
            re = rng.randint(rb + 1, r + 1)
            cb = rng.randint(0, c)
            ce = rng.randint(cb + 1, c + 1)
            case["slice"] = [rb, re, cb, ce]
        cases.append(case)
    return cases


def expected(cases, oracle):
    return [{} for _ in cases]


def impl_run(case):
    import ctypes as C
    from harness import craw
    L = craw.lib()
    s = dict(case["settings"])
    st = craw.settings(s)
    st.psi_1b, st.psi_1e, st.psi_2b, st.psi_2e = s["psi"]
    nd = case["ndim"]
    r, c = case["r"], case["c"]
    a = craw.arr(case["s1"])
    b = craw.arr(case["s2"])
    rt = case["routine"]
    euclid = st.inner_dist == 1
    if rt == "distance":
        if nd == 1:
            return L.dtw_distance(a, r, b, c, C.byref(st))
        return L.dtw_distance_ndim(a, r, b, c, nd, C.byref(st))
    if rt == "bounds":
        out = []
        if nd == 1:
            out.append(L.lb_keogh(a, r, b, c, C.byref(st)))
            out.append(L.lb_keogh_euclidean(a, r, b, c, C.byref(st)))
            out.append(L.ub_euclidean(a, r, b, c))
            out.append(L.ub_euclidean_euclidean(a, r, b, c))
        else:
            out.append(L.ub_euclidean_ndim(a, r, b, c, nd))
            out.append(L.ub_euclidean_ndim_euclidean(a, r, b, c, nd))
        return out
    if rt in ("wps_tools", "affinity"):
        n = L.dtw_settings_wps_length(r, c, C.byref(st))
        wps = (C.c_double * n)()
        if rt == "wps_tools":
            L.dtw_warping_paths(wps, a, r, b, c, True, True, False, C.byref(st))
        else:
            L.dtw_warping_paths_affinity(wps, a, r, (a if case.get("self") else b), c, True, True, False,
                                         bool(case.get("only_triu", case.get("self"))), 1.0, 0.2, -0.4, 0.9,
                                         C.byref(st))
        p = L.dtw_wps_parts(r, c, C.byref(st))
        mr = craw.idx_t(0)
        mc = craw.idx_t(0)
        L.dtw_wps_max(C.byref(p), wps, C.byref(mr), C.byref(mc), r, c)
        out = [int(mr.value), int(mc.value)]
        if rt == "affinity":
            i1 = (craw.idx_t * (r + c))()
            i2 = (craw.idx_t * (r + c))()
            if 1 <= mr.value <= r and 1 <= mc.value <= c:
                out.append(int(L.dtw_best_path_affinity(wps, i1, i2, r, c, mr.value, mc.value, C.byref(st))))
            full = (C.c_double * ((r + 1) * (c + 1)))()
            L.dtw_expand_wps_affinity(wps, full, r, c, C.byref(st))
        for (rb, re, cb, ce, inter) in case["slices"]:
            if rt == "affinity":
                sl = (C.c_double * ((re - rb) * (ce - cb)))()
                L.dtw_expand_wps_slice_affinity(wps, sl, r, c, rb, re, cb, ce, C.byref(st))
            L.dtw_wps_negativize(C.byref(p), wps, r, c, rb, re, cb, ce, inter)
            L.dtw_wps_max(C.byref(p), wps, C.byref(mr), C.byref(mc), r, c)
            L.dtw_wps_positivize(C.byref(p), wps, r, c, rb, re, cb, ce, inter)
        for rr in range(1, r + 1):
            cbv = craw.idx_t(0)
            cev = craw.idx_t(0)
            L.dtw_wps_loc_columns(C.byref(p), rr, C.byref(cbv), C.byref(cev), r, c)
            for cc in range(max(int(cbv.value), 0), min(int(cev.value), c + 1)):
                L.dtw_wps_negativize_value(C.byref(p), wps, r, c, rr, cc)
                L.dtw_wps_positivize_value(C.byref(p), wps, r, c, rr, cc)
        return out
    if rt in ("wps_expand_path", "expand_slice"):
        n = L.dtw_settings_wps_length(r, c, C.byref(st))
        wps = (C.c_double * n)()
        d = L.dtw_warping_paths(wps, a, r, b, c, True, True, bool(case["settings"]["psi"][1] % 2), C.byref(st))
        if rt == "expand_slice":
            rb, re, cb, ce = case["slice"]
            full = (C.c_double * ((re - rb) * (ce - cb)))()
            L.dtw_expand_wps_slice(wps, full, r, c, rb, re, cb, ce, C.byref(st))
            return d
        full = (C.c_double * ((r + 1) * (c + 1)))()
        L.dtw_expand_wps(wps, full, r, c, C.byref(st))
        i1 = (craw.idx_t * (r + c))()
        i2 = (craw.idx_t * (r + c))()
        ln = L.dtw_best_path(wps, i1, i2, r, c, C.byref(st))
        return [d, ln]
    if rt == "warping_path":
        i1 = (craw.idx_t * (r + c))()
        i2 = (craw.idx_t * (r + c))()
        ln = craw.idx_t(0)
        if nd == 1:
            d = L.dtw_warping_path(a, r, b, c, i1, i2, C.byref(ln), C.byref(st))
        else:
            d = L.dtw_warping_path_ndim(a, r, b, c, i1, i2, C.byref(ln), nd, C.byref(st))
        return [d, ln.value]
    series = case["series"]
    ns = len(series)
    bufs = [craw.arr(x) for x in series]
    lens = (craw.idx_t * ns)(*[len(x) for x in series])
    PD = C.POINTER(C.c_double)
    ptrs = (PD * ns)(*[C.cast(x, PD) for x in bufs])
    if rt == "matrix":
        blk = L.dtw_block_empty()
        if case["block"] is not None:
            blk.rb, blk.re, blk.cb, blk.ce, blk.triu = case["block"]
        n = L.dtw_distances_length(C.byref(blk), ns, ns)
        out = (C.c_double * max(n, 1))() if n > 0 else (C.c_double * 1)()
        if n == 0:
            return 0
        if case["as_matrix"] and nd == 1:
            flat = craw.arr([v for x in series for v in x])
            f = L.dtw_distances_matrix_parallel if case["parallel"] else L.dtw_distances_matrix
            return f(flat, ns, len(series[0]), out, C.byref(blk), C.byref(st))
        if nd == 1:
            f = L.dtw_distances_ptrs_parallel if case["parallel"] else L.dtw_distances_ptrs
            return f(ptrs, ns, lens, out, C.byref(blk), C.byref(st))
        f = L.dtw_distances_ndim_ptrs_parallel if case["parallel"] else L.dtw_distances_ndim_ptrs
        return f(ptrs, ns, lens, nd, out, C.byref(blk), C.byref(st))
    if rt == "dba":
        t = case["avg_len"]
        avg = (C.c_double * (t * nd))(*[0.0] * (t * nd))
        nbytes = (ns + 7) // 8
        mask = (C.c_ubyte * nbytes)()
        for i, m in enumerate(case["mask"]):
            if m:
                mask[i // 8] |= (1 << (i % 8))
        st.psi_1b = st.psi_1e = st.psi_2b = st.psi_2e = 0
        if case["as_matrix"]:
            flat = craw.arr([v for x in series for v in (x if nd == 1 else [u for p in x for u in p])])
            L.dtw_dba_matrix(flat, ns, len(series[0]), avg, t, mask, 0, nd, C.byref(st))
        else:
            L.dtw_dba_ptrs(ptrs, ns, lens, avg, t, mask, 0, nd, C.byref(st))
        return list(avg)
    raise ValueError(rt)


def judge(case, got, exp):
    if "crash" in got:
        rep = got.get("stderr", "")
        if got.get("crash") in (-9, 124) or "TIMEOUT" in rep:
            return {"kind": "hang", "report": rep[-300:]}
        import re
        kind = "crash"
        m = re.search(r"AddressSanitizer: ([\w-]+)", rep)
        if m:
            kind = "asan:" + m.group(1)
        elif "runtime error" in rep:
            kind = "ubsan"
        fn = re.search(r"#\d+ 0x[0-9a-f]+ in (\w+)", rep)
        return {"kind": kind, "function": fn.group(1) if fn else None, "report": rep[:500]}
    if "exc" in got:
        return {"kind": "exception:" + got["exc"], "detail": got.get("msg")}
    return None


def nontrivial(case, exp):
    s = case["settings"]
    return bool(s["window"] or any(s["psi"]) or s["max_dist"] or s["use_pruning"] or case["routine"] in ("matrix", "dba"))


def case_key(case):
    return repr((case["site"], case["s1"], case["s2"], case.get("series"), case.get("block"), case.get("slice"),
                 sorted(case["settings"].items(), key=str)))


def case_size(case):
    return case["r"] + case["c"]


def histogram_keys(case):
    s = case["settings"]
    return ["routine:" + case["routine"], "ndim:%d" % case["ndim"], "window:" + ("0" if not s["window"] else "set"),
            "psi:" + ("on" if any(s["psi"]) else "off"), "inner:" + s["inner_dist"],
            "pruning:%s" % s["use_pruning"], "max_dist:" + ("on" if s["max_dist"] else "off")]
