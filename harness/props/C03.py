"""C03: early abandoning (max_dist, use_pruning) never changes a result."""
import math

from harness import dtwgen

COQ_FILES = ["theories/BandTie.v", "theories/Prune.v", "theories/PyDist.v", "theories/PyDistProofs.v",
             "theories/PyDistPrune.v", "gen/Gen_cdist.v", "theories/CDistCanon.v", "theories/CDistTie.v",
             "theories/CDistProofs.v", "theories/CDistSpec.v", "gen/Gen_ced.v", "theories/CEd.v", "gen/Gen_pydist.v", "theories/PyDistGen.v",
             "gen/Gen_cwpsk.v", "gen/Gen_cexpw.v", "theories/CWpsCanon.v", "theories/CWpsCanonEu.v", "theories/CWpsKernel.v", "theories/CWpsTie.v", "theories/CWpsTieEu.v",
             "theories/CWpsValue.v", "theories/CWpsSpec.v", "theories/CWpsSpecEu.v", "theories/CWpsPrune.v", "theories/CWpsSpecB.v", "theories/CWpsSpecBEu.v", "theories/CWpsValueB.v", "theories/CExpW.v", "theories/CWpsMarks.v", "gen/Gen_cparts.v", "theories/CParts.v", "theories/CWpsFinal.v", "props/C03.v"]
THEOREMS = [("DVProps.C03", "C03_pruning_sound_partial"), ("DVProps.C03", "C03_max_dist_result_partial"),
            ("DVProps.C03", "C03_euclidean_bound_keeps_value"), ("DVProps.C03", "C03_pruned_code_model_exact"),
            ("DVProps.C03", "C03_c_kernel_result_is_bounded_value"), ("DVProps.C03", "C03_c_kernel_no_bound_no_cut"),
            ("DVProps.C03", "C03_c_use_pruning_keeps_value"), ("DVProps.C03", "C03_py_distance_as_written_bounded"),
            ("DVProps.C03", "C03_c_wps_rows_share_one_pruning_core"),
            ("DVProps.C03", "C03_c_wps_kernel_with_bound_as_written"), ("DVProps.C03", "C03_c_wps_use_pruning_is_a_bound"),
            ("DVProps.C03", "C03_c_wps_euclidean_kernel_with_bound_as_written"),
            ("DVProps.C03", "C03_c_warping_paths_from_the_settings_struct")]
TRUSTED_BASE = [
    "Coq 8.16.1 kernel (no native_compute)",
    "the pruning bookkeeping of the two C warping-paths kernels (Gen_cwpsk.v, regenerated whole): all eight row loops "
    "are proved to be the one row core CWpsKernel.k_wrow_core (C03_c_wps_rows_share_one_pruning_core), and for the "
    "both kernels that core is PROVED exact under every bound: value = bounded B (dtw_value), cells equal or both "
    "above B, all accesses in range (C03_c_wps_kernel_with_bound_as_written, C03_c_wps_euclidean_kernel_with_bound_as_written; "
    "CWpsPrune.v, CWpsSpecB.v, CWpsSpecBEu.v, CWpsValueB.v; -1 marks not requested); dtw_wps_parts is regenerated WHOLE "
    "too (Gen_cparts.v) and the kernel called with the members of the struct it returns is proved against the settings "
    "as they stand in the struct (C03_c_warping_paths_from_the_settings_struct, CParts.v)",
    "the sc/ec/ec_next/smaller_found/break bookkeeping of dtw.distance is modelled as written (PyDist.distp_model, "
    "rolling buffer, regenerated index arithmetic) and PROVED exact for every bound when there is no begin relaxation "
    "(C03_pruned_code_model_exact); the hand model is tied to dtw.distance and dtw_distance (C) by correspondence "
    "(oracle command pydistp) on ALL settings, including begin psi where model and code are unsound alike (F06)",
    "the C kernel dtw_distance is regenerated WHOLE from dd_dtw.c (tools/cfun.py -> Gen_cdist.v, bookkeeping included) "
    "and PROVED to return the specification value cut at the bound in use, for every bound "
    "(C03_c_kernel_result_is_bounded_value; the other three kernels under C02); with use_pruning the bound is the "
    "value the regenerated euclidean_distance_squared returns (Gen_ced.v), and where ED is a valid upper bound the "
    "kernel returns the unpruned value (C03_c_use_pruning_keeps_value, no oracle left)",
    "partial: bookkeeping of the C warping-paths kernels: covered by the abstract theorem (any strategy skipping only "
    "cells above the bound) + correspondence",
    "extraction + driver.ml",
]
ASSUMPTIONS = ["exact arithmetic; integer thresholds different from the true distance (the rounding-width "
               "neighbourhood of the property is the single point d == m, which is not judged)"]
RULE = ("random pairs x window x psi x penalty x inner_dist x mode in {max_dist=m (m integer 1..8), use_pruning in the "
        "configurations where ED is a valid upper bound} x site in {py.distance, c.distance, py.wps (distance part), "
        "c.wps, py.matrix, c.matrix}; expected = 'd if d < m, inf if d > m' resp. the unpruned distance, d from the "
        "extracted model; non-trivial = bound below d, or pruning able to cut (band not full / bound finite)")
GUARD = "non-degenerate psi; window None or >= 1; penalty >= 0"

SITES = ["py.distance", "c.distance", "py.wps", "c.wps", "py.matrix", "c.matrix"]


def gen_cases(rng, tier):
    n = 6000 if tier == "quick" else 60000
    maxlen = 8 if tier == "quick" else 11
    cases = []
    for k in range(n):
        site = SITES[k % len(SITES)]
        case = dtwgen.rand_case(rng, site, maxlen=maxlen, allow_mld=False)
        s = case["settings"]
        if rng.random() < 0.35:
            # shapes on which the pruning columns (sc/ec) actually move against the band: an early large mismatch,
            # an active but wide window, longer series
            case["s1"] = list(case["s1"])
            case["s1"][0] += rng.choice([4, 6, -5])
            if rng.random() < 0.5 and len(case["s2"]) > 1:
                case["s2"] = list(case["s2"])
                case["s2"][rng.randrange(len(case["s2"]))] += rng.choice([3, -4])
            m = max(case["r"], case["c"])
            s["window"] = rng.randint(max(1, m // 2), max(1, m - 1))
            s["psi"] = None
            dtwgen.derived(case)
        mode = "max_dist" if rng.random() < 0.6 else "use_pruning"
        begin_psi = rng.random() < 0.2
        if begin_psi:
            # early abandoning against begin relaxation: the pruned start column must be forgotten while a path can
            # still start in the zero border (rows up to psi_1b), the break column must respect psi_2b
            mr = min(case["r"], case["c"])
            if mr >= 2:
                p1b = rng.randint(1, min(3, mr - 1))
                p2b = rng.choice([0, 0, rng.randint(1, min(3, mr - 1))])
                s["psi"] = [p1b, rng.choice([0, 0, 1]), p2b, rng.choice([0, 0, 1])]
                s["window"] = rng.choice([None, None, max(case["r"], case["c"])])
                narrow = rng.random() < 0.4
                mode = "max_dist"
                if rng.random() < 0.6:
                    # the canonical use of begin relaxation: series 1 = junk prefix of length psi_1b + a noisy copy of
                    # series 2 -- the junk rows exceed every bound (the pruned start column moves right) and the
                    # optimal path starts in the zero border right below them
                    s2 = list(case["s2"])
                    body = [v + rng.choice([0, 0, 0, 1, -1]) for v in s2]
                    case["s1"] = [rng.choice([7, 9, -8]) for _ in range(p1b)] + body
                    s["psi"] = [p1b, 0, p2b if p2b < len(s2) else 0, rng.choice([0, 0, 1])]
                    if narrow:
                        # ... and a window narrow enough that the rows up to psi_1b lie in the FIRST row region of the
                        # compact C layout (each region has its own copy of the reset of the pruned start column)
                        s["window"] = p1b + rng.choice([1, 1, 2])
                dtwgen.derived(case)
        case["mode"] = mode
        if mode == "max_dist":
            s["max_dist"] = rng.randint(1, 3) if begin_psi else rng.randint(1, 8)
            s["use_pruning"] = False
        else:
            s["max_dist"] = None
            s["use_pruning"] = True
            s["max_step"] = None
            if case["r"] != case["c"]:
                s["penalty"] = rng.choice([None, 0])
        if site.endswith("matrix"):
            # a third series; the pair (0,1) is the case's pair
            case["s3"] = dtwgen.rand_series(rng, rng.randint(1, maxlen), 1)
            if isinstance(s["psi"], list):
                s["psi"] = None
            if isinstance(s["psi"], int):
                s["psi"] = min(s["psi"], len(case["s3"]), case["r"], case["c"])
                if s["psi"] >= min(len(case["s3"]), case["r"], case["c"]):
                    s["psi"] = None
            if mode == "use_pruning" and not (len(case["s3"]) == case["r"] == case["c"]):
                s["penalty"] = rng.choice([None, 0])
        dtwgen.derived(case)
        cases.append(case)
    # Pruned start column against the band, when the two-row buffer spans all columns (wide window): the start
    # column sc (>= 1 after row 1, whose first cell exceeds the bound) must not pull the first computed column LEFT
    # of the band in later rows; the cells one step outside the band are made attractive (series 1 = series 2
    # delayed by exactly `window` samples), so a kernel that computes them returns a smaller distance.
    m = 240 if tier == "quick" else 2400
    for k in range(m):
        p = rng.randint(1, 2)
        w = p + 2 + rng.choice([0, 0, 1])
        a = rng.randint(-1, 1)
        J = a + rng.choice([3, -3, 4])
        P = [J + rng.choice([2, -2, 3]) * (q + 1) for q in range(p)]
        s1 = [a, J] + [J] * w + P
        s2 = [a, J] + P + [P[-1]] * w
        if rng.random() < 0.5:
            s1[rng.randrange(2, len(s1))] += rng.choice([1, -1])
        st = {"window": w, "penalty": None, "psi": None, "max_step": None, "max_length_diff": None,
              "inner_dist": "squared euclidean", "max_dist": rng.randint(5, 8), "use_pruning": False}
        case = {"site": ("c.distance", "py.distance", "c.wps", "py.wps")[k % 4], "ndim": 1, "s1": s1, "s2": s2,
                "settings": st, "mode": "max_dist", "stream": "prune-left-of-band"}
        cases.append(dtwgen.derived(case))
    return cases


def _pairs(case):
    if case["site"].endswith("matrix"):
        ss = [case["s1"], case["s2"], case["s3"]]
        return [(ss[0], ss[1]), (ss[0], ss[2]), (ss[1], ss[2])]
    return [(case["s1"], case["s2"])]


def expected(cases, oracle):
    lines = []
    for c in cases:
        for (a, b) in _pairs(c):
            cc = dict(c)
            cc["s1"], cc["s2"] = a, b
            lines.append(dtwgen.oracle_line("dtw", cc))
            lines.append("ed %d %s %s" % (dtwgen.inner_code(c["settings"]["inner_dist"]), dtwgen.fmt_series(a, 1),
                                          dtwgen.fmt_series(b, 1)))
    ans = oracle.query(lines)
    out = []
    p = 0
    for c in cases:
        vals, eds = [], []
        for _ in _pairs(c):
            a, e = ans[p], ans[p + 1]
            p += 2
            vals.append(None if a.startswith("ERR") else (math.inf if a == "inf" else int(a)))
            eds.append(None if e.startswith("ERR") else int(e))
        out.append({"internal": vals, "ed": eds})
    # the as-written PrunedDTW model (proved exact without begin psi) for the single-pair distance routines
    idx, lines = [], []
    for k, c in enumerate(cases):
        if c["site"] not in ("py.distance", "c.distance") or out[k]["ed"][0] is None:
            continue
        s = c["settings"]
        if c["mode"] == "max_dist":
            b = s["max_dist"] ** 2 if dtwgen.inner_code(s["inner_dist"]) == 0 else s["max_dist"]
        else:
            b = out[k]["ed"][0]
        idx.append(k)
        lines.append(dtwgen.oracle_line("pydistp %d" % b, c))
    for k, a in zip(idx, oracle.query(lines)):
        out[k]["as_written"] = None if a.startswith("ERR") else (math.inf if a == "inf" else int(a))
    # dtw.distance as REGENERATED from dtw.py (Gen_pydist.v) with the same bound, for the Python single-pair routine
    ridx = [k for k, l in zip(idx, lines) if cases[k]["site"] == "py.distance"]
    rlines = [l.replace("pydistp", "pygen", 1) for k, l in zip(idx, lines) if cases[k]["site"] == "py.distance"]
    for k, a in zip(ridx, oracle.query(rlines)):
        if a.startswith("ERR"):
            out[k]["regenerated"] = None
        else:
            tag, val, okflag = a.split()
            out[k]["regenerated"] = (math.inf if val == "inf" else int(val), okflag == "ok")
    return out


def impl_run(case):
    import numpy as np
    from dtaidistance import dtw
    from harness import dtwimpl
    s = case["settings"]
    kw = dtwimpl.kwargs(s, 1)
    site = case["site"]
    s1 = np.array(case["s1"], dtype=np.double)
    s2 = np.array(case["s2"], dtype=np.double)
    if site == "py.distance":
        return [dtw.distance(s1, s2, **kw)]
    if site == "c.distance":
        return [dtw.distance_fast(s1, s2, **kw)]
    if site == "py.wps":
        return [dtw.warping_paths(s1, s2, **kw)[0]]
    if site == "c.wps":
        return [dtw.warping_paths_fast(s1, s2, **kw)[0]]
    ss = [s1, s2, np.array(case["s3"], dtype=np.double)]
    if site == "py.matrix":
        return list(dtw.distance_matrix(ss, compact=True, **kw))
    return list(dtw.distance_matrix(ss, compact=True, use_c=True, parallel=False, **kw))


def judge(case, got, exp):
    if any(v is None for v in exp["internal"]):
        return {"kind": "oracle-error"}
    if "crash" in got:
        return {"kind": "crash", "detail": got}
    if "exc" in got:
        return {"kind": "exception:" + got["exc"], "detail": got.get("msg")}
    g = got["ok"]
    s = case["settings"]
    idn = s["inner_dist"]
    if len(g) != len(exp["internal"]):
        return {"kind": "wrong-length", "got": g}
    out = []
    if exp.get("as_written", 0) is None:
        return {"kind": "oracle-error"}
    if "as_written" in exp and float(g[0]) != dtwgen.result_transform(exp["as_written"], idn):
        # tie of the hand model PyDist.distp_model to the code (judged on every setting, begin psi included)
        out.append({"kind": "as-written-pruned-model-differs-from-code", "got": float(g[0]),
                    "model": dtwgen.result_transform(exp["as_written"], idn)})
    if "regenerated" in exp:
        if exp["regenerated"] is None:
            return {"kind": "oracle-error"}
        rv, rok = exp["regenerated"]
        if not rok:
            out.append({"kind": "regenerated-routine-reports-bad-subscript-or-assert"})
        elif float(g[0]) != dtwgen.result_transform(rv, idn):
            out.append({"kind": "regenerated-routine-differs-from-code", "got": float(g[0]),
                        "regenerated": dtwgen.result_transform(rv, idn)})
    for k, (gv, v) in enumerate(zip(g, exp["internal"])):
        gv = float(gv)
        true_d = dtwgen.result_transform(v, idn)
        if case["mode"] == "max_dist":
            m = s["max_dist"]
            if true_d == m:
                continue
            want = true_d if true_d < m else math.inf
        else:
            want = true_d
        if gv != want:
            kind = "spurious-inf" if gv == math.inf else ("missed-inf" if want == math.inf else "different-finite-value")
            out.append({"kind": kind, "pair": k, "got": gv, "expected": want, "true_distance": true_d,
                        "dtw_equals_ed": exp["ed"][k] == v})
            break
    return out or None


def nontrivial(case, exp):
    s = case["settings"]
    if case["mode"] == "max_dist":
        return any(v is not None and dtwgen.result_transform(v, s["inner_dist"]) > s["max_dist"] for v in exp["internal"]) \
            or case["r"] + case["c"] > 4
    return case["r"] + case["c"] > 3


def case_key(case):
    return repr((case["site"], case["s1"], case["s2"], case.get("s3"), sorted(case["settings"].items(), key=str)))


def case_size(case):
    return case["r"] + case["c"]


def histogram_keys(case):
    return dtwgen.hist(case) + ["site:" + case["site"], "mode:" + case["mode"]]
