"""C06: distance matrix = pairwise distances in the documented layout, any block."""
import math

from harness import dtwgen

COQ_FILES = ["theories/Matrix.v", "theories/MatrixProofs.v", "theories/CMatrix.v", "props/C06.v"]
THEOREMS = [("DVProps.C06", "C06_length_is_number_of_pairs"), ("DVProps.C06", "C06_compact_is_map_over_pairs"),
            ("DVProps.C06", "C06_condensed_index"), ("DVProps.C06", "C06_c_routines_enumerate_the_pairs"),
            ("DVProps.C06", "C06_c_length_is_number_of_pairs"), ("DVProps.C06", "C06_c_loops_call_row_then_column"),
            ("DVProps.C06", "C06_early_empty_result_only_for_empty_selections")]
TRUSTED_BASE = [
    "Coq 8.16.1 kernel (no native_compute)",
    "tools/translate_py.py: _distance_matrix_length, _complete_block, distance_matrix_python, distance_array_index are "
    "regenerated WHOLE from dtw.py into Gen_matrix.v; the theorems are about those generated terms; of dtw.distance_matrix "
    "itself the pre-checks under `if block is not None:` and the set of its return statements are pinned and the condition "
    "of its only early `return []` is regenerated (py_dm_early_empty)",
    "tools/translate_c.py: loop bounds, column-start rule, 0->n corrections of the four serial C routines and the "
    "per-row contribution of dtw_distances_length regenerated into Gen_cmatrix.v; CMatrix.v proves they enumerate "
    "`pairs` in order / count them (consecutive output positions checked by the translator)",
    "the pyx block decoding, distances_array_to_matrix and the full-matrix (no block) branch of dtw_distances_length "
    "are tied by correspondence (harness/props/C06.py)",
    "extraction + driver.ml",
]
ASSUMPTIONS = ["np.triu_indices / fancy indexing in distances_array_to_matrix trusted; values come from the engine's own "
               "single-pair routine"]
RULE = ("collections of 1..6 series (equal/unequal lengths, list or matrix container, ndim 1..2) x block in {None, "
        "triangular block, non-triangular block; incl. blocks selecting no pair} x {compact, square, only_triu} x "
        "{Python serial, C serial}; expected layout from the extracted pairs/gen_length, expected values from the same "
        "engine's single-pair distance; condensed-index helper on all (a,b)")
GUARD = "0 <= rb < re <= n, 0 <= cb < ce <= n"


def gen_cases(rng, tier):
    n = 1600 if tier == "quick" else 20000
    maxn = 6 if tier == "quick" else 8
    cases = []
    for k in range(n):
        ns = rng.randint(1, maxn)
        nd = 1 if rng.random() < 0.7 else 2
        eq = rng.random() < 0.5
        L = rng.randint(1, 5)
        series = [dtwgen.rand_series(rng, L if eq else rng.randint(1, 5), nd) for _ in range(ns)]
        peaks = rng.random() < 0.08
        if peaks:
            series = dtwgen.shifted_peak_collection(rng, nd)
            ns, eq = len(series), False
        x = rng.random()
        if x < 0.3 or ns < 1:
            block = None
        else:
            rb = rng.randint(0, ns - 1)
            re = rng.randint(rb + 1, ns)
            cb = rng.randint(0, ns - 1)
            ce = rng.randint(cb + 1, ns)
            block = [[rb, re], [cb, ce]]
            if rng.random() < 0.3:
                block.append(False)
        out = rng.choice(["compact", "compact", "square", "only_triu"])
        if block is not None and len(block) > 2:
            out = "compact"
        eng = "py" if rng.random() < 0.5 else "c"
        ml = min(len(x) for x in series)
        psi = None
        if rng.random() < 0.4 and ml >= 2:
            # asymmetric relaxation: d(a,b) != d(b,a) in general, so the ORDER of the pair matters
            psi = [rng.randint(0, ml - 1), rng.randint(0, ml - 1), rng.randint(0, ml - 1), rng.randint(0, ml - 1)]
        st = {"window": rng.choice([None, 1, 2, 3]), "penalty": rng.choice([None, 1]), "psi": psi, "max_step": None,
              "max_length_diff": None, "inner_dist": rng.choice(dtwgen.INNERS) if nd == 1 else "squared euclidean"}
        if peaks and rng.random() < 0.7:
            st["window"] = None
        cases.append({"site": eng + "." + out, "eng": eng, "out": out, "series": series, "ndim": nd, "block": block,
                      "as_matrix": eq and rng.random() < 0.5, "settings": st, "n": ns,
                      # memory layout of the members of a list of 2-D series: row-major, column-major, transposed view
                      "layout": rng.choice(["C", "C", "F", "T_view"]) if nd > 1 else "C"})
    return cases


def blk_line(c):
    b = c["block"]
    if b is None:
        return "pairs %d 0 0 0 0 0 0" % c["n"]
    return "pairs %d 1 %d %d %d %d %d" % (c["n"], b[0][0], b[0][1], b[1][0], b[1][1], 1 if len(b) > 2 else 0)


def expected(cases, oracle):
    lines = [blk_line(c) for c in cases]
    ans = oracle.query(lines)
    out = []
    for c, a in zip(cases, ans):
        if a.startswith("ERR"):
            out.append({"err": a})
            continue
        ln, ps = a.split(" | ") if " | " in a else (a.replace(" |", ""), "")
        out.append({"length": int(ln), "pairs": [[int(x) for x in t.split(",")] for t in ps.split()]})
    return out


def impl_run(case):
    import numpy as np
    from dtaidistance import dtw, dtw_ndim
    from harness import dtwimpl
    nd = case["ndim"]
    kw = dtwimpl.kwargs(case["settings"], 1)
    ser = [np.array(x, dtype=np.double).reshape((len(x), nd) if nd > 1 else (len(x),)) for x in case["series"]]
    if nd > 1 and case.get("layout", "C") != "C" and not case["as_matrix"]:
        ser = [np.asfortranarray(a) if case["layout"] == "F" else np.ascontiguousarray(a.T).T for a in ser]
    cont = np.array(ser) if case["as_matrix"] else ser
    use_c = case["eng"] == "c"
    b = case["block"]
    block = None if b is None else tuple(tuple(x) if isinstance(x, list) else x for x in b)
    mod = dtw_ndim if nd > 1 else dtw
    extra = {"ndim": nd} if nd > 1 else {}
    res = mod.distance_matrix(cont, block=block, compact=(case["out"] == "compact"),
                              only_triu=(case["out"] == "only_triu"), use_c=use_c, parallel=False, **extra, **kw)
    pair = {}
    f = (mod.distance_fast if use_c else mod.distance)
    n = len(ser)
    for r in range(n):
        for c in range(n):
            if r != c:
                pair["%d,%d" % (r, c)] = f(ser[r], ser[c], **kw)
    out = {"res": res, "pair": pair}
    if b is None and case["out"] == "compact":
        out["cidx"] = {"%d,%d" % (a, bb): dtw.distance_array_index(a, bb, n) for a in range(n) for bb in range(n) if a != bb}
        out["explen"] = dtw._distance_matrix_length(None, n)
    return out


def judge(case, got, exp):
    if "err" in exp:
        return {"kind": "oracle-error", "detail": exp["err"]}
    if "crash" in got:
        return {"kind": "crash", "detail": got}
    if "exc" in got:
        return {"kind": "exception:" + got["exc"], "detail": got.get("msg")}
    g = got["ok"]
    res, pair = g["res"], g["pair"]
    ps = exp["pairs"]
    n = case["n"]
    if exp["length"] != len(ps):
        return {"kind": "model-length-vs-pairs", "length": exp["length"], "pairs": len(ps)}
    want = [float(pair["%d,%d" % (r, c)]) if r != c else None for r, c in ps]
    if case["out"] == "compact":
        if len(res) != len(ps):
            return {"kind": "wrong-length", "got": len(res), "expected": len(ps)}
        for k, ((r, c), w) in enumerate(zip(ps, want)):
            if w is None:
                w = 0.0   # a non-triangular block may select the diagonal: distance of a series to itself
            if float(res[k]) != w:
                return {"kind": "wrong-element", "index": k, "pair": [r, c], "got": res[k], "expected": w}
        if "cidx" in g:
            for key, idx in g["cidx"].items():
                a, b = [int(t) for t in key.split(",")]
                lo, hi = min(a, b), max(a, b)
                if not (0 <= idx < len(ps)) or ps[idx] != [lo, hi]:
                    return {"kind": "condensed-index-wrong", "a": a, "b": b, "idx": idx}
            if g["explen"] != len(ps):
                return {"kind": "advertised-length-wrong", "got": g["explen"], "expected": len(ps)}
        return None
    m = res
    if len(m) != n or any(len(row) != n for row in m):
        return {"kind": "shape", "got": [len(m), len(m[0]) if m else 0]}
    sel = {}
    for (r, c), w in zip(ps, want):
        sel[(r, c)] = w
    for r in range(n):
        for c in range(n):
            v = float(m[r][c])
            if (r, c) in sel:
                w = sel[(r, c)]
            elif case["out"] == "square" and (c, r) in sel:
                w = sel[(c, r)]
            elif case["out"] == "square" and r == c:
                w = 0.0
            else:
                w = math.inf
            if case["out"] == "square" and r == c:
                w = 0.0
            if v != w:
                return {"kind": "wrong-square-cell", "cell": [r, c], "got": v, "expected": w}
    return None


def nontrivial(case, exp):
    return case["block"] is not None or case["n"] > 2


def case_key(case):
    return repr((case["site"], case["series"], case["block"], case["as_matrix"], sorted(case["settings"].items(), key=str)))


def case_size(case):
    return case["n"]


def histogram_keys(case):
    b = case["block"]
    return ["site:" + case["site"], "n=%d" % case["n"], "ndim:%d" % case["ndim"], "layout:" + case.get("layout", "C"),
            "block:" + ("none" if b is None else ("notriu" if len(b) > 2 else "triu")),
            "container:" + ("matrix" if case["as_matrix"] else "list")]
