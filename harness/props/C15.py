"""C15: hierarchical clustering: a partition built from monotone, bounded merges."""
import math

from harness import dtwgen

COQ_FILES = ["theories/Cluster.v", "theories/ClusterPart.v", "props/C15.v"]
THEOREMS = [("DVProps.C15", n) for n in ("C15_merges_nondecreasing", "C15_merges_bounded",
                                         "C15_stops_only_when_none_left", "C15_absorbed_never_reused",
                                         "C15_at_most_n_minus_1_merges", "C15_row_major_policy_ok",
                                         "C15_clusters_partition", "C15_run_merges_well_formed", "C15_fit_partitions")]
TRUSTED_BASE = [
    "Coq 8.16.1 kernel",
    "Hierarchical.fit is hand-modelled (Cluster.run over the list of finite matrix entries; choice among minima and "
    "merge orientation abstract); tied by exact comparison of the merge sequence (no hooks) and by an "
    "implementation-independent postcondition checker (hooks, tree, partition)",
    "partial: the partition/prototype property of the returned dictionary and the tree shape are checked on the "
    "implementation only; SciPy's linkage is trusted and compared directly",
]
ASSUMPTIONS = ["distances compared through their exact internal representation"]
RULE = ("collections of 2..8 series (ties, duplicates) x max_dist x {no hooks, weight+order hooks} x distance-matrix "
        "function (Python/C) x repeated fit on the same object; merges recorded through merge_hook: non-decreasing, "
        "<= max_dist, stop condition, partition keyed by contained prototypes; HierarchicalTree: n-1 merges, every "
        "node a child exactly once; LinkageTree == scipy.cluster.hierarchy.linkage of the condensed distances")
GUARD = "2 <= n"


def gen_cases(rng, tier):
    n = 900 if tier == "quick" else 10000
    cases = []
    for k in range(n):
        ns = rng.randint(2, 8)
        L = rng.randint(1, 5)
        series = []
        for _ in range(ns):
            if series and rng.random() < 0.25:
                series.append(list(rng.choice(series)))
            else:
                series.append(dtwgen.rand_series(rng, L if rng.random() < 0.7 else rng.randint(1, 5), 1, lo=-2, hi=2))
        kind = ["plain", "plain", "hooks", "tree", "linkage"][k % 5]
        md = rng.choice([None, None, 1, 2, 3, 5]) if kind in ("plain", "hooks") else None
        cases.append({"site": kind, "kind": kind, "series": series, "max_dist": md, "use_c": rng.random() < 0.5,
                      "tree_hooks": kind == "tree" and rng.random() < 0.5,
                      "weights": [rng.choice([1, 1, 2, 3]) for _ in range(ns)],
                      "refit": rng.random() < 0.3, "method": rng.choice(["complete", "single", "average"]),
                      "settings": {"window": rng.choice([None, 2]), "penalty": None, "psi": None, "max_step": None,
                                   "max_length_diff": None, "inner_dist": "squared euclidean"}})
    return cases


def expected(cases, oracle):
    lines = []
    for c in cases:
        ss = c["series"]
        for i in range(len(ss)):
            for j in range(i + 1, len(ss)):
                lines.append(dtwgen.oracle_line("dtw", {"s1": ss[i], "s2": ss[j], "ndim": 1, "settings": c["settings"]}))
    ans = oracle.query(lines)
    out = []
    p = 0
    hl = []
    for c in cases:
        n = len(c["series"])
        d = {}
        for i in range(n):
            for j in range(i + 1, n):
                a = ans[p]
                p += 1
                d["%d,%d" % (i, j)] = math.inf if a == "inf" else int(a)
        out.append({"d2": d})
        md = c["max_dist"]
        md2 = 10 ** 9 if md is None else md * md
        ent = [(i, j, d["%d,%d" % (i, j)]) for i in range(n) for j in range(i + 1, n) if d["%d,%d" % (i, j)] != math.inf]
        hl.append("hfit %d %d %d %s" % (n, md2, len(ent), " ".join("%d %d %d" % e for e in ent)))
    ha = oracle.query(hl)
    for e, a in zip(out, ha):
        if a.startswith("ERR"):
            e["merges"], e["clusters"] = None, None
            continue
        ms, _, cs = a.partition(" | ")
        e["merges"] = [[int(x) for x in t.split(",")] for t in ms.split()]
        # the cluster dictionary as Hierarchical.fit builds it (ClusterPart.clusters_model on the model's merges)
        e["clusters"] = {int(t.split(":")[0]): sorted(int(x) for x in t.split(":")[1].split(",")) for t in cs.split()}
    return out


def impl_run(case):
    import numpy as np
    from dtaidistance import dtw, clustering
    from dtaidistance.clustering import hierarchical
    series = [np.array(s, dtype=np.double) for s in case["series"]]
    opts = {k: v for k, v in case["settings"].items() if v is not None and k in ("window",)}
    fun = dtw.distance_matrix_fast if case["use_c"] else dtw.distance_matrix
    if case["use_c"]:
        opts["parallel"] = False
    kind = case["kind"]
    merges = []
    md = float("inf") if case["max_dist"] is None else case["max_dist"]
    if kind in ("plain", "hooks"):
        if kind == "hooks":
            weights = [1] * len(series)
            wh = hierarchical.Hooks.create_weighthook(weights, series)
            oh = hierarchical.Hooks.create_orderhook(weights)

            def mh(i_from, i_to, dist):
                r = wh(i_from, i_to, dist)
                merges.append([int(r[0]), int(r[1]), float(dist)])   # (into, from)
                return r
        else:
            oh = None

            def mh(i_from, i_to, dist):
                merges.append([int(i_to), int(i_from), float(dist)])
                return None
        model = hierarchical.Hierarchical(fun, dict(opts), max_dist=md, merge_hook=mh, order_hook=oh, show_progress=False)
        res = model.fit(series)
        out = {"clusters": {int(k): sorted(int(x) for x in v) for k, v in res.items()}, "merges": list(merges)}
        if case["refit"] and kind == "plain":
            merges.clear()
            res2 = model.fit(series)
            out["clusters2"] = {int(k): sorted(int(x) for x in v) for k, v in res2.items()}
        return out
    if kind == "tree":
        if case.get("tree_hooks"):
            # the tree built around a model whose own hooks decide the prototype (they return a pair) and the order
            weights = list(case["weights"])
            inner = hierarchical.Hierarchical(fun, dict(opts), show_progress=False,
                                              merge_hook=hierarchical.Hooks.create_weighthook(weights, series),
                                              order_hook=hierarchical.Hooks.create_orderhook(weights))
            model = hierarchical.HierarchicalTree(model=inner)
        else:
            model = hierarchical.HierarchicalTree(dists_fun=fun, dists_options=dict(opts), show_progress=False)
        res = model.fit(series)
        out = {"clusters": {int(k): sorted(int(x) for x in v) for k, v in res.items()},
               "linkage": [[int(a), int(b), float(d)] for a, b, d, _ in model.linkage]}
        if case["refit"] and not case.get("tree_hooks"):      # the weight hook is stateful by design (it updates its weights)
            model.fit(series)
            out["linkage2"] = [[int(a), int(b), float(d)] for a, b, d, _ in model.linkage]
        return out
    from scipy.cluster.hierarchy import linkage
    model = hierarchical.LinkageTree(fun, dict(opts), method=case["method"])
    lk = model.fit(series)
    full = fun(series, **opts)
    n = len(series)
    cond = [full[i, j] for i in range(n) for j in range(i + 1, n)]
    ref = linkage(np.array(cond), method=case["method"], metric="euclidean")
    return {"linkage": np.asarray(lk), "ref": ref, "cond": cond}


def judge(case, got, exp):
    if "crash" in got:
        return {"kind": "crash", "detail": got}
    if "exc" in got:
        return {"kind": "exception:" + got["exc"], "detail": got.get("msg")}
    g = got["ok"]
    n = len(case["series"])
    d2 = exp["d2"]

    def dist(i, j):
        v = d2["%d,%d" % (min(i, j), max(i, j))]
        return math.inf if v == math.inf else math.sqrt(v)
    if case["kind"] == "linkage":
        want = [dist(i, j) for i in range(n) for j in range(i + 1, n)]
        if [float(x) for x in g["cond"]] != want:
            return {"kind": "condensed-distances-differ-from-model"}
        a, b = g["linkage"], g["ref"]
        if len(a) != len(b) or any(abs(float(x) - float(y)) > 1e-12 for ra, rb in zip(a, b) for x, y in zip(ra, rb)):
            return {"kind": "linkage-differs-from-scipy", "got": a, "ref": b}
        return None
    cl = {int(k): v for k, v in g["clusters"].items()}
    allidx = sorted(x for v in cl.values() for x in v)
    if allidx != list(range(n)):
        return {"kind": "not-a-partition", "clusters": cl}
    for k, v in cl.items():
        if k not in v:
            return {"kind": "prototype-not-in-cluster", "key": k, "members": v}
    if case["kind"] == "tree":
        lk = g["linkage"]
        if len(lk) != n - 1:
            return {"kind": "tree-wrong-number-of-merges", "got": len(lk), "expected": n - 1}
        children = [x for a, b, _ in lk for x in (a, b)]
        if len(set(children)) != len(children) or any(not (0 <= c < n + i) for i, (a, b, _) in enumerate(lk) for c in (a, b)):
            return {"kind": "tree-node-child-twice-or-forward-reference", "linkage": lk}
        if set(children) != set(range(2 * n - 2)):
            return {"kind": "tree-not-single-rooted", "linkage": lk}
        ds = [d for _, _, d in lk]
        if any(b < a for a, b in zip(ds, ds[1:])):
            return {"kind": "merge-distances-decrease", "dists": ds}
        if "linkage2" in g and g["linkage2"] != lk:
            return {"kind": "refit-differs", "first": lk, "second": g["linkage2"]}
        return None
    ms = g["merges"]
    md = math.inf if case["max_dist"] is None else case["max_dist"]
    ds = [m[2] for m in ms]
    if any(b < a for a, b in zip(ds, ds[1:])):
        return {"kind": "merge-distances-decrease", "dists": ds}
    if any(d > md for d in ds):
        return {"kind": "merge-above-max_dist", "dists": ds}
    absorbed = set()
    for into, frm, d in ms:
        if frm in absorbed or into in absorbed:
            return {"kind": "absorbed-series-reused", "merges": ms}
        if d != dist(into, frm):
            return {"kind": "merge-distance-not-pair-distance", "merge": [into, frm, d], "true": dist(into, frm)}
        absorbed.add(frm)
    live = [i for i in range(n) if i not in absorbed]
    if sorted(cl.keys()) != live:
        return {"kind": "keys-are-not-the-live-prototypes", "keys": sorted(cl.keys()), "live": live}
    if len(ms) < n - 1:
        for a in live:
            for b in live:
                if a < b and dist(a, b) <= md:
                    return {"kind": "stopped-although-pair-within-max_dist", "pair": [a, b], "dist": dist(a, b)}
    if case["kind"] == "plain" and exp.get("merges") is not None:
        mm = [[i, f, math.sqrt(v)] for i, f, v in exp["merges"]]
        if mm != ms:
            return {"kind": "merge-sequence-differs-from-model", "got": ms, "model": mm}
        if exp.get("clusters") is not None and {k: sorted(v) for k, v in cl.items()} != exp["clusters"]:
            return {"kind": "clusters-differ-from-dictionary-model", "got": cl, "model": exp["clusters"]}
    if "clusters2" in g and {int(k): v for k, v in g["clusters2"].items()} != cl:
        return {"kind": "refit-differs", "first": cl, "second": g["clusters2"]}
    return None


def nontrivial(case, exp):
    return len(case["series"]) > 2


def case_key(case):
    return repr((case["kind"], case["series"], case["max_dist"], case["use_c"], case["refit"], case["method"]))


def case_size(case):
    return len(case["series"])


def histogram_keys(case):
    return ["kind:" + case["kind"], "n=%d" % len(case["series"]), "max_dist:%s" % case["max_dist"],
            "use_c:%s" % case["use_c"], "refit:%s" % case["refit"], "tree_hooks:%s" % bool(case.get("tree_hooks"))]
