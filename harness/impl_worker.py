"""Worker: executes <module>.impl_run(case) for every JSON case on stdin against the implementation
found first on sys.path (the scratch build of /repo's working tree).  Results go to a private fd so
that prints from the library or the C code cannot corrupt them."""
import importlib
import json
import os
import sys

res_fd = os.dup(1)
os.dup2(2, 1)
res = os.fdopen(res_fd, "w")

mod = importlib.import_module("harness.props." + sys.argv[1])


def enc(x):
    import math
    try:
        import numpy as np
    except ImportError:
        np = None
    if np is not None and isinstance(x, np.ndarray):
        return enc(x.tolist())
    if np is not None and isinstance(x, np.generic):
        return enc(x.item())
    if isinstance(x, float):
        if math.isinf(x):
            return "inf" if x > 0 else "-inf"
        if math.isnan(x):
            return "nan"
        return x
    if isinstance(x, (list, tuple)):
        return [enc(v) for v in x]
    if isinstance(x, dict):
        return {str(k): enc(v) for k, v in x.items()}
    if hasattr(x, "tolist"):
        return enc(x.tolist())
    return x


for line in sys.stdin:
    line = line.strip()
    if not line:
        continue
    case = json.loads(line)
    try:
        out = {"ok": enc(mod.impl_run(case))}
    except BaseException as exc:  # noqa
        if isinstance(exc, (KeyboardInterrupt, SystemExit)):
            raise
        out = {"exc": type(exc).__name__, "msg": str(exc)[:300]}
    res.write("@R " + json.dumps(out) + "\n")
    res.flush()
