"""Generic check flow shared by all properties (DESIGN.md section 3.2)."""
import importlib
import json
import os
import random
import sys
import time

from . import lib


def dec(x):
    if x == "inf":
        return float("inf")
    if x == "-inf":
        return float("-inf")
    if x == "nan":
        return float("nan")
    if isinstance(x, list):
        return [dec(v) for v in x]
    if isinstance(x, dict):
        return {k: dec(v) for k, v in x.items()}
    return x


def run_check(prop, tier, replay=None):
    mod = importlib.import_module("harness.props." + prop)
    rep = lib.Report(prop, tier)
    rng = random.Random(lib.seed() * 1000003 + sum(map(ord, prop)))

    # ---- legs A/B(regeneration): translators + proofs
    st = lib.coq_prepare()
    need = list(mod.COQ_FILES)
    broken = []
    for e in st.translate_errors:
        broken.append({"kind": "tie", "what": "translator failed (fail-closed)", "detail": e})
    for f in need:
        if not st.file_ok(f):
            broken.append({"kind": "theorem", "what": f, "detail": st.failed_files.get(f, "not built")})
    bad_src = lib.audit_sources()
    for b in bad_src:
        broken.append({"kind": "audit", "what": b, "detail": "forbidden vernacular"})
    theorems = [(m, n) for (m, n) in mod.THEOREMS]
    assum = {}
    mods_ok = all(st.file_ok(f) for f in need)
    if mods_ok and theorems:
        assum = lib.print_assumptions(theorems)
        if "__error__" in assum:
            broken.append({"kind": "theorem", "what": "Print Assumptions", "detail": assum["__error__"]})
    obligations = len(theorems) + len([f for f in need if not f.startswith("props/")])
    discharged = 0
    if mods_ok:
        discharged = len([1 for (_, n) in theorems if n in assum]) + len([f for f in need if not f.startswith("props/")])
    else:
        ok_mods = set()
        for f in need:
            if st.file_ok(f):
                if not f.startswith("props/"):
                    discharged += 1

    # ---- leg B(correspondence) + leg C(search): implementation vs extracted proven model
    scratch = lib.engines()
    oracle = lib.Oracle() if st.oracle_ok else None
    findings = lib.load_findings()
    t_gen = time.time()
    if replay:
        with open(replay) as fh:
            rp = json.load(fh)
        cases = [rp["case"]] if "case" in rp else []
    else:
        cases = mod.gen_cases(rng, tier)
    stats = {"evaluations": 0, "mismatches": 0, "known": 0, "unknown": 0}
    unknown = []
    nontrivial = set()
    samples = []
    dist = {}
    if cases and oracle is not None:
        exp = mod.expected(cases, oracle)
        extra_env = getattr(mod, "IMPL_ENV", None)
        got = lib.run_impl(prop, cases, scratch, extra_env=extra_env,
                           timeout_per_chunk=getattr(mod, "CHUNK_TIMEOUT", 600), chunk=getattr(mod, "CHUNK", None))
        for k, (case, g, e) in enumerate(zip(cases, got, exp)):
            stats["evaluations"] += 1
            g = dec(g)
            for key in mod.histogram_keys(case):
                dist[key] = dist.get(key, 0) + 1
            if mod.nontrivial(case, e):
                nontrivial.add(mod.case_key(case))
            try:
                m = mod.judge(case, g, e)
            except Exception as exc:  # a bug of the harness itself: never silently ignored
                m = {"kind": "harness-error", "detail": "%s: %s" % (type(exc).__name__, exc)}
            if replay:
                print("replay: case=%s\n  expected=%s\n  got=%s\n  verdict=%s" % (json.dumps(case), e, g, m))
            if m is not None and hasattr(mod, "refine") and m.get("needs_objective_check"):
                try:
                    m = mod.refine(case, g, e, m, oracle)
                except Exception as exc:
                    m = {"kind": "harness-error", "detail": "refine: %s: %s" % (type(exc).__name__, exc)}
            if m is None:
                if len(samples) < 3 and rng.random() < 0.01:
                    samples.append({"case": case, "result": lib.fmt_float(g.get("ok")) if isinstance(g, dict) else g})
                continue
            for m1 in (m if isinstance(m, list) else [m]):
                stats["mismatches"] += 1
                fid = lib.classify(prop, case, m1, findings)
                if fid:
                    stats["known"] += 1
                    rep.known_hits[fid] = rep.known_hits.get(fid, 0) + 1
                else:
                    stats["unknown"] += 1
                    unknown.append((case, g, e, m1))
    elif oracle is None:
        broken.append({"kind": "tie", "what": "oracle (extracted model) could not be built", "detail": ""})

    # report at most a handful of distinct violations, smallest inputs first
    unknown.sort(key=lambda t: mod.case_size(t[0]))
    if os.environ.get("VERIF_DEBUG"):
        agg = {}
        for case, g, e, m in unknown:
            agg.setdefault((case.get("site"), m.get("kind")), []).append((case, g, e, m))
        for k, v in sorted(agg.items(), key=lambda kv: -len(kv[1])):
            print("DEBUG", k, len(v))
            for case, g, e, m in v[:int(os.environ.get("VERIF_DEBUG"))]:
                print("     ", json.dumps({kk: vv for kk, vv in case.items()}), "\n        ->", m)
    seen_sites = {}
    for case, g, e, m in unknown:
        key = (case.get("site"), m.get("kind"))
        if seen_sites.get(key, 0) >= 2 or len(rep.violations) >= 8:
            continue
        seen_sites[key] = seen_sites.get(key, 0) + 1
        rep.violation({"property": prop, "kind": "input", "case": case, "expected": e, "got": g, "mismatch": m,
                       "broken_obligations": broken, "seed": lib.seed(),
                       "how": "./check %s --replay <this file>" % prop})
    if broken and not rep.violations:
        rep.violation({"property": prop, "kind": broken[0]["kind"], "broken": broken, "seed": lib.seed(),
                       "note": "a proof obligation or the regeneration tie no longer checks; the differential "
                               "search (%d cases) found no input on which the implementation departs from the "
                               "proven model" % stats["evaluations"]},
                      suffix="no-failing-input-found")
    if not samples and cases:
        samples.append({"case": cases[0]})
    rep.coverage = {
        "obligations": max(1, obligations),
        "discharged": discharged,
        "checker_cmd": "cd /verif/coq && coq_makefile -f _CoqProject -o Makefile && make -k  (coqc 8.16.1, full .vo); "
                       "then coqc audit file with Print Assumptions for: " + ", ".join(n for _, n in theorems),
        "trusted_base": mod.TRUSTED_BASE + ["Print Assumptions: %s = %s" % (k, v) for k, v in sorted(assum.items())],
        "theorems": [n for _, n in theorems],
        "tie_files": [f for f in need if not f.startswith("props/")],
        "broken": broken,
        "evaluations": stats["evaluations"],
        "distinct_nontrivial": len(nontrivial),
        "rule": mod.RULE,
        "samples": samples,
        "mismatches_total": stats["mismatches"],
        "mismatches_attributed_to_known_findings": stats["known"],
        "known_finding_hits": rep.known_hits,
        "input_distribution": dict(sorted(dist.items())),
        "guard": getattr(mod, "GUARD", ""),
        "coq_wall_s": round(st.wall_s, 1),
        "exhaustive": False,
    }
    rep.assumptions = list(getattr(mod, "ASSUMPTIONS", []))
    return rep.finish()
