"""Shared machinery of the checks: Coq build status, oracle (extracted models), implementation
workers, known-findings classification, evidence and verdict reporting."""
import fcntl
import hashlib
import importlib
import json
import math
import os
import random
import re
import subprocess
import sys
import time

VERIF = os.path.dirname(os.path.dirname(os.path.abspath(__file__)))
COQ = os.path.join(VERIF, "coq")
REPO = os.environ.get("VERIF_REPO", "/repo")
PY = "/venv/bin/python"
NPROC = int(os.environ.get("VERIF_NPROC", "16"))

sys.path.insert(0, os.path.join(VERIF, "tools"))


def seed():
    try:
        return int(os.environ.get("VERIF_SEED", "20260930"))
    except ValueError:
        return 20260930


# ------------------------------------------------------------------------------------ coq
class CoqStatus:
    def __init__(self):
        self.translate_errors = []   # strings
        self.failed_files = {}       # file.v -> first error text
        self.ok_files = set()
        self.assumptions = {}        # theorem -> text
        self.oracle_ok = False
        self.log = ""
        self.wall_s = 0.0

    def file_ok(self, f):
        return f in self.ok_files


def _run(cmd, cwd=None, timeout=1800, env=None):
    try:
        r = subprocess.run(cmd, cwd=cwd, stdout=subprocess.PIPE, stderr=subprocess.STDOUT, timeout=timeout,
                           env=env, text=True, errors="replace")
        return r.returncode, r.stdout
    except subprocess.TimeoutExpired as exc:
        out = exc.stdout if isinstance(exc.stdout, str) else (exc.stdout or b"").decode(errors="replace")
        return 124, out + "\nTIMEOUT"


def coq_files():
    out = []
    with open(os.path.join(COQ, "_CoqProject")) as fh:
        for line in fh:
            line = line.strip()
            if line.endswith(".v"):
                out.append(line)
    return out


def coq_prepare(need_files=()):
    """Regenerate coq/gen from /repo, build everything (make -k), build the oracle.
    Serialised through a lock so that concurrent checks share one build."""
    st = CoqStatus()
    t0 = time.time()
    lock = open(os.path.join(COQ, ".build.lock"), "w")
    fcntl.flock(lock, fcntl.LOCK_EX)
    try:
        # 1. translators (fail closed)
        for tool in ("translate_py.py", "translate_c.py"):
            p = os.path.join(VERIF, "tools", tool)
            if not os.path.exists(p):
                continue
            rc, out = _run([PY, p, os.path.join(COQ, "gen")], timeout=300)
            if rc != 0:
                st.translate_errors.append(out.strip()[-2000:])
        # 2. make
        if not os.path.exists(os.path.join(COQ, "Makefile")) or \
                os.path.getmtime(os.path.join(COQ, "Makefile")) < os.path.getmtime(os.path.join(COQ, "_CoqProject")):
            _run(["coq_makefile", "-f", "_CoqProject", "-o", "Makefile"], cwd=COQ)
        rc, out = _run(["make", "-k", "-j%d" % NPROC], cwd=COQ, timeout=3000)
        st.log = out
        files = coq_files()
        failed = set()
        for m in re.finditer(r"\*\*\* \[[^\]]*?:\s*([\w/]+)\.vo\] Error", out):
            failed.add(m.group(1) + ".v")
        for m in re.finditer(r'File "\./([\w/]+\.v)", line (\d+)[^\n]*\n((?:.*\n){0,12})', out):
            f = m.group(1)
            if "Error" in m.group(3) and f not in st.failed_files:
                st.failed_files[f] = ("line %s: " % m.group(2)) + m.group(3).strip()[:1500]
        for f in failed:
            st.failed_files.setdefault(f, "failed (see make log)")
        for f in files:
            vo = os.path.join(COQ, f[:-2] + ".vo")
            if f in st.failed_files:
                continue
            if os.path.exists(vo) and os.path.getmtime(vo) >= os.path.getmtime(os.path.join(COQ, f)):
                # up to date w.r.t. deps?  ask make
                st.ok_files.add(f)
        if rc != 0:
            # dependants of failed files were not rebuilt: ask make which targets are up to date
            for f in list(st.ok_files):
                rc2, _ = _run(["make", "-q", f[:-2] + ".vo"], cwd=COQ, timeout=120)
                if rc2 != 0:
                    st.ok_files.discard(f)
                    st.failed_files.setdefault(f, "not rebuilt: a dependency failed")
        # 3. oracle (extraction + ocaml)
        st.oracle_ok = build_oracle(st)
    finally:
        fcntl.flock(lock, fcntl.LOCK_UN)
        lock.close()
    st.wall_s = time.time() - t0
    return st


def build_oracle(st=None):
    ex = os.path.join(COQ, "extract")
    exe = os.path.join(ex, "oracle")
    srcs = [os.path.join(ex, "Extract.v"), os.path.join(ex, "driver.ml")]
    deps = [os.path.join(COQ, f[:-2] + ".vo") for f in coq_files() if f.startswith(("theories/", "gen/"))]
    newest = max([os.path.getmtime(p) for p in srcs + deps if os.path.exists(p)] + [0])
    if os.path.exists(exe) and os.path.getmtime(exe) >= newest:
        return True
    rc, out = _run(["coqc", "-Q", "../theories", "DV", "-Q", "../gen", "DVGen", "Extract.v"], cwd=ex, timeout=600)
    if rc != 0:
        if st:
            st.failed_files["extract/Extract.v"] = out[-1500:]
        return os.path.exists(exe)  # stale oracle still usable for the search
    rc, out = _run(["ocamlfind", "ocamlopt", "-w", "-a", "model.mli", "model.ml", "driver.ml", "-o", "oracle"],
                   cwd=ex, timeout=600)
    if rc != 0:
        if st:
            st.failed_files["extract/driver.ml"] = out[-1500:]
        return os.path.exists(exe)
    return True


def print_assumptions(theorems):
    """theorems: list of (module, name).  Returns dict name -> assumptions text."""
    if not theorems:
        return {}
    aud = os.path.join(COQ, "audit")
    os.makedirs(aud, exist_ok=True)
    tag = hashlib.md5(repr(sorted(theorems)).encode()).hexdigest()[:10]
    path = os.path.join(aud, "Audit_%s_%d.v" % (tag, os.getpid()))
    mods = sorted(set(m for m, _ in theorems))
    with open(path, "w") as fh:
        for m in mods:
            fh.write("Require Import %s.\n" % m)
        for m, n in theorems:
            fh.write('Goal True. idtac "@@BEGIN %s". Abort.\nPrint Assumptions %s.%s.\n' % (n, m, n))
        fh.write('Goal True. idtac "@@END". Abort.\n')
    rc, out = _run(["coqc", "-Q", "theories", "DV", "-Q", "gen", "DVGen", "-Q", "props", "DVProps", path], cwd=COQ,
                   timeout=900)
    res = {}
    for m in re.finditer(r"@@BEGIN (\S+)\n(.*?)(?=@@BEGIN|@@END)", out, re.S):
        res[m.group(1)] = " ".join(m.group(2).split())
    for ext in (".v", ".vo", ".glob", ".vok", ".vos"):
        try:
            os.remove(path[:-2] + ext)
        except OSError:
            pass
    try:
        os.remove(os.path.join(aud, "." + os.path.basename(path)[:-2] + ".aux"))
    except OSError:
        pass
    if rc != 0 and not res:
        res["__error__"] = out[-800:]
    return res


FORBIDDEN = re.compile(r"\b(Admitted|admit|Axiom|Axioms|Parameter|Parameters|Conjecture|Conjectures)\b|Unset Guard|"
                       r"bypass_check|type-in-type|impredicative-set|Admit Obligations")


def audit_sources():
    """grep for forbidden vernacular in all hand-written and generated .v files."""
    bad = []
    for f in coq_files() + ["extract/Extract.v"]:
        p = os.path.join(COQ, f)
        if not os.path.exists(p):
            continue
        txt = open(p).read()
        # strip comments
        txt2 = re.sub(r"\(\*.*?\*\)", "", txt, flags=re.S)
        for m in FORBIDDEN.finditer(txt2):
            bad.append("%s: %s" % (f, m.group(0)))
    return bad


# ------------------------------------------------------------------------------------ oracle
class Oracle:
    def __init__(self):
        self.exe = os.path.join(COQ, "extract", "oracle")

    def query(self, lines, chunk=400):
        """lines: list of request strings; returns list of answer strings (parallel over chunks)."""
        if not lines:
            return []
        chunks = [lines[i:i + chunk] for i in range(0, len(lines), chunk)]
        procs = []
        outs = [None] * len(chunks)
        idx = 0
        running = []
        while idx < len(chunks) or running:
            while idx < len(chunks) and len(running) < NPROC:
                p = subprocess.Popen(["/bin/sh", "-c", "ulimit -s unlimited 2>/dev/null; exec '%s'" % self.exe],
                                     stdin=subprocess.PIPE, stdout=subprocess.PIPE, text=True)
                import threading
                res = {}

                def feed(p=p, data="\n".join(chunks[idx]) + "\n", res=res):
                    o, _ = p.communicate(data)
                    res["out"] = o
                th = threading.Thread(target=feed)
                th.start()
                running.append((idx, p, th, res))
                idx += 1
            k, p, th, res = running.pop(0)
            th.join()
            o = res.get("out", "").split("\n")
            if o and o[-1] == "":
                o.pop()
            if len(o) != len(chunks[k]):
                o = o + ["ERR oracle died"] * (len(chunks[k]) - len(o))
            outs[k] = o
        return [x for o in outs for x in o]


def parse_cost(tok):
    return math.inf if tok == "inf" else int(tok)


def parse_matrix(ans):
    return [[parse_cost(t) for t in row.split()] for row in ans.split(" ; ")]


# ------------------------------------------------------------------------------------ implementation workers
def engines():
    import build_engines
    return build_engines.build()


def run_impl(prop_module, cases, scratch, extra_env=None, timeout_per_chunk=600, chunk=None, nproc=None):
    """Run prop_module.impl_run(case) for all cases inside worker subprocesses whose sys.path starts
    with <scratch>/src.  Returns list of results; a worker crash yields {"crash": <signal>} for the case
    that was being executed and the remaining cases are retried in a fresh worker."""
    nproc = nproc or NPROC
    n = len(cases)
    results = [None] * n
    if n == 0:
        return results
    chunk = chunk or max(1, min(500, (n + nproc - 1) // nproc))
    todo = [list(range(i, min(n, i + chunk))) for i in range(0, n, chunk)]
    env = dict(os.environ)
    env.update({"PYTHONPATH": os.path.join(scratch, "src") + ":" + VERIF, "PYTHONHASHSEED": "0", "MPLBACKEND": "Agg",
                "OMP_NUM_THREADS": env.get("OMP_NUM_THREADS", "4"), "VERIF_SCRATCH_DIR": scratch})
    if extra_env:
        env.update(extra_env)
    worker = os.path.join(VERIF, "harness", "impl_worker.py")

    def launch(idxs):
        p = subprocess.Popen([PY, worker, prop_module], stdin=subprocess.PIPE, stdout=subprocess.PIPE,
                             stderr=subprocess.PIPE, env=env, text=True, start_new_session=True)
        return p

    import threading
    lock = threading.Lock()

    def work():
        while True:
            with lock:
                if not todo:
                    return
                idxs = todo.pop(0)
            while idxs:
                p = launch(idxs)
                data = "\n".join(json.dumps(cases[i]) for i in idxs) + "\n"
                try:
                    out, err = p.communicate(data, timeout=timeout_per_chunk)
                except subprocess.TimeoutExpired:
                    import signal
                    try:
                        os.killpg(p.pid, signal.SIGKILL)      # the worker and anything it spawned (symbolizer, pool)
                    except OSError:
                        p.kill()
                    try:
                        out, err = p.communicate(timeout=10)
                    except subprocess.TimeoutExpired:
                        out, err = "", ""
                    err = (err or "") + "\nTIMEOUT"
                lines = [l for l in out.split("\n") if l.startswith("@R ")]
                for k, l in enumerate(lines):
                    results[idxs[k]] = json.loads(l[3:])
                done = len(lines)
                if done < len(idxs):
                    e = err or ""
                    k = e.find("ERROR: AddressSanitizer")
                    if k < 0:
                        k = e.find("runtime error:")
                        k = max(0, e.rfind("\n", 0, k)) if k >= 0 else -1
                    rep = e[k:k + 700] if k >= 0 else e[-400:]
                    results[idxs[done]] = {"crash": p.returncode, "stderr": rep}
                    idxs = idxs[done + 1:]
                else:
                    idxs = []
    ths = [threading.Thread(target=work) for _ in range(min(nproc, len(todo)))]
    for t in ths:
        t.start()
    for t in ths:
        t.join()
    return results


# ------------------------------------------------------------------------------------ findings
def load_findings():
    p = os.path.join(VERIF, "known_findings.json")
    if not os.path.exists(p):
        return []
    with open(p) as fh:
        return json.load(fh)["findings"]


SAFE = {"len": len, "max": max, "min": min, "abs": abs, "any": any, "all": all, "isinstance": isinstance, "int": int,
        "tuple": tuple, "list": list, "sum": sum, "float": float, "zip": zip, "range": range, "sorted": sorted,
        "set": set, "str": str, "bool": bool, "True": True, "False": False, "None": None}


class _NS(dict):
    def __missing__(self, k):
        return None


def classify(prop, case, mismatch, findings):
    """Returns the finding id that explains (case, mismatch) or None."""
    ns = _NS()
    ns.update(case)
    for k, v in list(case.items()):
        if isinstance(v, dict):
            for kk, vv in v.items():
                ns.setdefault(kk, vv)
    ns["mismatch"] = mismatch
    ns["kind"] = mismatch.get("kind")
    ns.update(SAFE)
    for f in findings:
        if f.get("status") != "open" or f["property"] != prop:
            continue
        if f.get("call_site") and f["call_site"] != case.get("site"):
            continue
        if f.get("kind") and not re.fullmatch(f["kind"], str(mismatch.get("kind"))):
            continue
        try:
            if eval(f["condition"], {"__builtins__": SAFE}, ns):
                return f["id"]
        except Exception:
            continue
    return None


# ------------------------------------------------------------------------------------ reporting
class Report:
    def __init__(self, prop, tier):
        self.prop = prop
        self.tier = tier
        self.t0 = time.time()
        self.violations = []      # (replay dict)
        self.known_hits = {}      # finding id -> count
        self.notes = []
        self.coverage = {}
        self.assumptions = []

    def violation(self, replay, suffix=""):
        d = os.path.join(VERIF, "evidence", "replay")
        os.makedirs(d, exist_ok=True)
        n = len(self.violations)
        path = os.path.join(d, "%s-%d.json" % (self.prop, n))
        with open(path, "w") as fh:
            json.dump(replay, fh, indent=1, default=str)
        self.violations.append(path)
        print("VIOLATION property=%s replay=%s%s" % (self.prop, path, (" " + suffix) if suffix else ""))
        sys.stdout.flush()

    def finish(self, level="proof"):
        findings = {f["id"]: f for f in load_findings()}
        for fid, cnt in sorted(self.known_hits.items()):
            f = findings.get(fid, {})
            print("KNOWN-FINDING: property=%s %s: %s [%d hits this run]" % (self.prop, fid, f.get("what", ""), cnt))
        ev = {
            "property_id": self.prop,
            "tier": self.tier,
            "seed": seed(),
            "level": level,
            "coverage": self.coverage,
            "assumptions": self.assumptions,
            "wall_s": round(time.time() - self.t0, 2),
            "violations": len(self.violations),
        }
        os.makedirs(os.path.join(VERIF, "evidence"), exist_ok=True)
        with open(os.path.join(VERIF, "evidence", "%s.json" % self.prop), "w") as fh:
            json.dump(ev, fh, indent=1, default=str)
        return 1 if self.violations else 0


def fmt_float(x):
    if x is None:
        return None
    if isinstance(x, float):
        if math.isinf(x):
            return "inf" if x > 0 else "-inf"
        if math.isnan(x):
            return "nan"
        return repr(x)
    return x
