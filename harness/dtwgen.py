"""Case generation for the DTW family of properties (C01-C05, C09-C11): structured, mostly valid
inputs; every choice comes from the one PRNG handed in; integer-valued series so that the
implementation's double arithmetic is exact and equal to the model's Z arithmetic."""
import math

INNERS = ["squared euclidean", "euclidean"]


def rand_series(rng, n, ndim=1, lo=-3, hi=3):
    pat = rng.random()
    if ndim == 1:
        if pat < 0.08:
            v = rng.randint(lo, hi)
            return [v] * n
        if pat < 0.16:
            a = rng.randint(lo, hi)
            st = rng.choice([-1, 1])
            return [a + st * k for k in range(n)]
        if pat < 0.22:
            return [rng.choice([-2, 2]) * (1 if k % 2 else -1) for k in range(n)]
        if pat < 0.30:
            return [-abs(rng.randint(lo, hi)) - 1 for _ in range(n)]   # all negative
        return [rng.randint(lo, hi) for _ in range(n)]
    return [[rng.randint(lo, hi) for _ in range(ndim)] for _ in range(n)]


def shifted_peak_collection(rng, ndim=1, nshort=2, nlong=None):
    """A collection whose FIRST pairs are short and whose LATER pairs are long and only align well far from the
    diagonal (a peak early in one series, late in the other).  Any per-call state that the first pair leaves behind
    in shared settings/buffers (a resolved window, a bound, a row length) changes a later pair's distance."""
    nlong = nlong or rng.randint(2, 3)
    ser = []
    for _ in range(nshort):
        n = rng.randint(1, 2)
        ser.append([rng.randint(-1, 1) for _ in range(n)])
    for _ in range(nlong):
        n = rng.randint(6, 10)
        v = [0] * n
        v[rng.randint(0, n - 1)] = rng.choice([3, 5])
        ser.append(v)
    if ndim > 1:
        ser = [[[x] + [rng.randint(0, 1) * 0 + x * (d + 1) for d in range(1, ndim)] for x in s] for s in ser]
    return ser


def split_psi(psi):
    if psi is None:
        return 0, 0, 0, 0
    if isinstance(psi, int):
        return psi, psi, psi, psi
    return tuple(psi)


def degenerate_psi(r, c, psi):
    p1b, p1e, p2b, p2e = split_psi(psi)
    return (p2e >= c and p1b >= r) or (p1e >= r and p2b >= c)


def rand_psi(rng, r, c):
    x = rng.random()
    if x < 0.45:
        return None
    if x < 0.65:
        return rng.randint(0, min(r, c))
    for _ in range(20):
        psi = [rng.choice([0, 0, rng.randint(0, r)]), rng.choice([0, 0, rng.randint(0, r)]),
               rng.choice([0, 0, rng.randint(0, c)]), rng.choice([0, 0, rng.randint(0, c)])]
        if not degenerate_psi(r, c, psi):
            return psi
    return None


def rand_settings(rng, r, c, allow_psi=True, allow_max_step=True, allow_mld=True, inner=None):
    m = max(r, c)
    x = rng.random()
    if x < 0.3:
        window = None
    elif x < 0.8:
        window = rng.randint(1, max(1, m))
    else:
        window = rng.randint(1, m + 2)
    penalty = rng.choice([None, None, 0, 1, 2, 3])
    psi = rand_psi(rng, r, c) if allow_psi else None
    if psi is not None and degenerate_psi(r, c, psi):
        psi = None
    max_step = rng.choice([None, None, None, 0, 1, 2, 3, 4]) if allow_max_step else None
    mld = rng.choice([None, None, None, None, 0, 1, 2]) if allow_mld else None
    inner_dist = inner or rng.choice(INNERS)
    return {"window": window, "penalty": penalty, "psi": psi, "max_step": max_step,
            "max_length_diff": mld, "inner_dist": inner_dist}


def derived(case):
    s = case["settings"]
    r, c = len(case["s1"]), len(case["s2"])
    p1b, p1e, p2b, p2e = split_psi(s.get("psi"))
    w = s.get("window")
    weff = max(r, c) if w is None else w
    length = min(c + 1, abs(r - c) + 2 * (weff - 1) + 1 + 1 + 1)
    skip_last = 0 if length == c + 1 else max(0, (r - 1) - max(0, r - c) - weff + 1)
    case.update({"r": r, "c": c, "p1b": p1b, "p1e": p1e, "p2b": p2b, "p2e": p2e, "weff": weff,
                 "length": length, "skip_last": skip_last})
    return case


def rand_case(rng, site, maxlen=7, ndim=1, **kw):
    if maxlen >= 5 and rng.random() < 0.2:
        return focus_case(rng, site, maxlen, ndim, **kw)
    r = rng.randint(1, maxlen)
    c = rng.randint(1, maxlen) if rng.random() < 0.75 else r
    case = {"site": site, "ndim": ndim, "s1": rand_series(rng, r, ndim), "s2": rand_series(rng, c, ndim),
            "settings": rand_settings(rng, r, c, **kw)}
    return derived(case)


def focus_lengths(rng, maxlen):
    r = rng.randint(4, maxlen)
    return r, rng.randint(max(4, r - 2), min(maxlen, r + 2))


def focus_settings(rng, r, c, **kw):
    st = rand_settings(rng, r, c, **kw)
    st["window"] = rng.randint(1, 3)
    st["max_step"] = None
    st["max_length_diff"] = None
    if kw.get("allow_psi", True):
        x = rng.random()
        if x < 0.25:
            st["psi"] = rng.randint(1, 3)
        elif x < 0.9:
            st["psi"] = [rng.choice([0, rng.randint(1, 3)]) for _ in range(4)]
            if not any(st["psi"]):
                st["psi"][rng.choice([1, 3])] = rng.randint(1, 3)
        else:
            st["psi"] = None
    return st


def focus_case(rng, site, maxlen, ndim, **kw):
    """Narrow window on long series (the two-row buffer of the distance kernels is compacted and shifts from
    row to row) combined with relaxed ends/begins; the options that make most cells infinite stay off.
    The uniform stream of rand_case reaches this region in under 1% of its cases (fourth seeding round)."""
    r, c = focus_lengths(rng, maxlen)
    st = focus_settings(rng, r, c, **kw)
    case = {"site": site, "ndim": ndim, "s1": rand_series(rng, r, ndim), "s2": rand_series(rng, c, ndim),
            "settings": st, "stream": "narrow-window-psi"}
    return derived(case)


def inner_code(name):
    return 0 if "squared" in name or name.endswith("-sq") else 1


def fmt_series(s, ndim):
    if ndim == 1 and (not s or not isinstance(s[0], list)):
        return "%d 1 %s" % (len(s), " ".join(str(int(v)) for v in s))
    return "%d %d %s" % (len(s), ndim, " ".join(str(int(v)) for p in s for v in p))


def opt(v):
    return -1 if v is None else int(v)


def oracle_line(cmd, case, settings=None):
    s = settings or case["settings"]
    p1b, p1e, p2b, p2e = split_psi(s.get("psi"))
    return "%s %d %d %d %d %d %d %d %d %d %s %s" % (
        cmd, opt(s.get("window")), opt(s.get("penalty")), opt(s.get("max_step")), opt(s.get("max_length_diff")),
        p1b, p1e, p2b, p2e, inner_code(s.get("inner_dist", "squared euclidean")),
        fmt_series(case["s1"], case.get("ndim", 1)), fmt_series(case["s2"], case.get("ndim", 1)))


def result_transform(v, inner_dist):
    """innerdistance.*.result applied to an exact internal value."""
    if v == math.inf:
        return math.inf
    if inner_code(inner_dist) == 0:
        return math.sqrt(v)
    return float(v)


def py_kwargs(s):
    kw = {}
    for k in ("window", "penalty", "max_step", "max_length_diff", "max_dist", "use_pruning"):
        if k in s and s[k] is not None:
            kw[k] = s[k]
    psi = s.get("psi")
    if psi is not None:
        kw["psi"] = psi if isinstance(psi, int) else tuple(psi)
    return kw


def hist(case):
    s = case["settings"]
    keys = ["len:%d-%d" % (min(case["r"], 8), min(case["c"], 8)) if False else "r=%d" % case["r"],
            "window:" + ("none" if s["window"] is None else ("band" if s["window"] < max(case["r"], case["c"]) else "full")),
            "psi:" + ("none" if s["psi"] is None else ("int" if isinstance(s["psi"], int) else "tuple")),
            "penalty:" + str(s["penalty"]), "inner:" + s["inner_dist"],
            "max_step:" + ("off" if not s.get("max_step") else "on")]
    return keys
