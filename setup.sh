#!/bin/sh
# Build the framework from files on disk only (offline): regenerate coq/gen from /repo,
# full .vo build of the Coq development, extract + compile the oracle, build the engines.
set -e
cd "$(dirname "$0")"
/venv/bin/python - <<'PY'
import sys
sys.path.insert(0, ".")
from harness import lib
st = lib.coq_prepare()
print("translate errors:", st.translate_errors)
print("failed coq files:", st.failed_files)
print("oracle ok:", st.oracle_ok)
print("engines:", lib.engines())
sys.exit(0 if (not st.failed_files and not st.translate_errors and st.oracle_ok) else 1)
PY
