(* Each of the four kernels regenerated from dd_dtw.c (Gen_cdist.v) is an instance of the canonical
   kernel of CDistCanon.v: same loops, same bookkeeping, only the point distance and the decoding of
   the thresholds differ.  The proofs unfold the regenerated text and compare; there is no induction
   except for the coordinate loop of the n-dimensional variants. *)
From Coq Require Import ZArith Bool List Lia.
From DV Require Import Prelude Cost CLang CDistCanon.
From DVGen Require Import Gen_cdist.
Import ListNotations.
Open Scope Z_scope.
Open Scope bool_scope.

(* ------------------------------------------------------------------ point distances of the variants *)
Definition dok_1d (l1 l2 : Z) (i j : Z) : bool := inb l1 i && inb l2 j.
Definition dfun_sq_1d (s1 s2 : list Z) (i j : Z) : cost := csedist (sget s1 i) (sget s2 j).
Definition dfun_abs_1d (s1 s2 : list Z) (i j : Z) : cost := cabsdiff (sget s1 i) (sget s2 j).

(* the coordinate loop  for (d_i=0; d_i<ndim; d_i++) d += SEDIST(s1[i_idx+d_i], s2[j_idx+d_i]) *)
Definition nd_step (i_idx j_idx l1 l2 ndim : Z) (s1 s2 : list Z) (st : cost * bool) (d_i : Z) : cost * bool :=
  let '(d, ok) := st in
  (cadd d (csedist (sget s1 (i_idx + d_i)) (sget s2 (j_idx + d_i))),
   ok && inb (l1 * ndim) (i_idx + d_i) && inb (l2 * ndim) (j_idx + d_i)).
Definition nd_acc (l1 l2 ndim : Z) (s1 s2 : list Z) (i j : Z) : cost * bool :=
  fold_left (nd_step (i * ndim) (j * ndim) l1 l2 ndim s1 s2) (zrange 0 ndim) (Fin 0, true).
Definition dok_nd (l1 l2 ndim : Z) (s1 s2 : list Z) (i j : Z) : bool := snd (nd_acc l1 l2 ndim s1 s2 i j).
Definition dfun_sq_nd (l1 l2 ndim : Z) (s1 s2 : list Z) (i j : Z) : cost := fst (nd_acc l1 l2 ndim s1 s2 i j).
Definition dfun_abs_nd (l1 l2 ndim : Z) (s1 s2 : list Z) (i j : Z) : cost := csqrt (fst (nd_acc l1 l2 ndim s1 s2 i j)).

Lemma nd_fold_ok ii jj l1 l2 ndim s1 s2 l d ok :
  fold_left (nd_step ii jj l1 l2 ndim s1 s2) l (d, ok) =
  (fst (fold_left (nd_step ii jj l1 l2 ndim s1 s2) l (d, true)),
   ok && snd (fold_left (nd_step ii jj l1 l2 ndim s1 s2) l (d, true))).
Proof.
  revert d ok. induction l as [|x l IH]; intros d ok; cbn [fold_left].
  - cbn. rewrite andb_true_r. reflexivity.
  - unfold nd_step at 2 4 6. rewrite IH. rewrite (IH _ (true && _ && _)). cbn [fst snd].
    f_equal. rewrite !andb_true_l, !andb_assoc. reflexivity.
Qed.

(* ------------------------------------------------------------------ loops 1, 2, 4, 6/7: identical text *)
Ltac same_loop := intros; repeat match goal with st : _ * _ |- _ => destruct st end; reflexivity.

Lemma tie0_loop1 a st j : c_dtw_distance_loop1 a st j = k_loop1 a st j. Proof. same_loop. Qed.
Lemma tie0_loop2 a st j : c_dtw_distance_loop2 a st j = k_loop2 a st j. Proof. same_loop. Qed.
Lemma tie0_loop4 a b c st j : c_dtw_distance_loop4 a b c st j = k_loop4 a b c st j. Proof. same_loop. Qed.
Lemma tie0_loop6 a b c d st j : c_dtw_distance_loop6 a b c d st j = k_loop6 a b c d st j. Proof. same_loop. Qed.
Lemma tie1_loop1 a st j : c_dtw_distance_ndim_loop1 a st j = k_loop1 a st j. Proof. same_loop. Qed.
Lemma tie1_loop2 a st j : c_dtw_distance_ndim_loop2 a st j = k_loop2 a st j. Proof. same_loop. Qed.
Lemma tie1_loop4 a b c st j : c_dtw_distance_ndim_loop4 a b c st j = k_loop4 a b c st j. Proof. same_loop. Qed.
Lemma tie1_loop7 a b c d st j : c_dtw_distance_ndim_loop7 a b c d st j = k_loop6 a b c d st j. Proof. same_loop. Qed.
Lemma tie2_loop1 a st j : c_dtw_distance_euclidean_loop1 a st j = k_loop1 a st j. Proof. same_loop. Qed.
Lemma tie2_loop2 a st j : c_dtw_distance_euclidean_loop2 a st j = k_loop2 a st j. Proof. same_loop. Qed.
Lemma tie2_loop4 a b c st j : c_dtw_distance_euclidean_loop4 a b c st j = k_loop4 a b c st j. Proof. same_loop. Qed.
Lemma tie2_loop6 a b c d st j : c_dtw_distance_euclidean_loop6 a b c d st j = k_loop6 a b c d st j. Proof. same_loop. Qed.
Lemma tie3_loop1 a st j : c_dtw_distance_ndim_euclidean_loop1 a st j = k_loop1 a st j. Proof. same_loop. Qed.
Lemma tie3_loop2 a st j : c_dtw_distance_ndim_euclidean_loop2 a st j = k_loop2 a st j. Proof. same_loop. Qed.
Lemma tie3_loop4 a b c st j : c_dtw_distance_ndim_euclidean_loop4 a b c st j = k_loop4 a b c st j. Proof. same_loop. Qed.
Lemma tie3_loop7 a b c d st j : c_dtw_distance_ndim_euclidean_loop7 a b c d st j = k_loop6 a b c d st j. Proof. same_loop. Qed.

(* ------------------------------------------------------------------ the cell loops *)
Lemma tie0_loop5 dtw_len ec i i0 i1 l1 l2 length md ms pen s1 s2 skip skipp st j :
  c_dtw_distance_loop5 dtw_len ec i i0 i1 l1 l2 length md ms pen s1 s2 skip skipp st j =
  k_loop5 (dok_1d l1 l2) (dfun_sq_1d s1 s2) dtw_len ec i i0 i1 length md ms pen skip skipp st j.
Proof.
  destruct st as [[[[[dtw ecn] ok] sc] sf] brk]. unfold c_dtw_distance_loop5, k_loop5, dok_1d, dfun_sq_1d.
  destruct brk; [reflexivity|]. rewrite andb_assoc. reflexivity.
Qed.

Lemma tie2_loop5 dtw_len ec i i0 i1 l1 l2 length md ms pen s1 s2 skip skipp st j :
  c_dtw_distance_euclidean_loop5 dtw_len ec i i0 i1 l1 l2 length md ms pen s1 s2 skip skipp st j =
  k_loop5 (dok_1d l1 l2) (dfun_abs_1d s1 s2) dtw_len ec i i0 i1 length md ms pen skip skipp st j.
Proof.
  destruct st as [[[[[dtw ecn] ok] sc] sf] brk]. unfold c_dtw_distance_euclidean_loop5, k_loop5, dok_1d, dfun_abs_1d.
  destruct brk; [reflexivity|]. rewrite andb_assoc. reflexivity.
Qed.

Lemma tie1_loop6 ii jj l1 l2 ndim s1 s2 st d_i :
  c_dtw_distance_ndim_loop6 ii jj l1 l2 ndim s1 s2 st d_i = nd_step ii jj l1 l2 ndim s1 s2 st d_i.
Proof. destruct st as [d ok]. reflexivity. Qed.
Lemma tie3_loop6 ii jj l1 l2 ndim s1 s2 st d_i :
  c_dtw_distance_ndim_euclidean_loop6 ii jj l1 l2 ndim s1 s2 st d_i = nd_step ii jj l1 l2 ndim s1 s2 st d_i.
Proof. destruct st as [d ok]. reflexivity. Qed.

Lemma tie1_loop5 dtw_len ec i i0 i1 l1 l2 length md ms ndim pen s1 s2 skip skipp st j :
  c_dtw_distance_ndim_loop5 dtw_len ec i0 i1 (i * ndim) l1 l2 length md ms ndim pen s1 s2 skip skipp st j =
  k_loop5 (dok_nd l1 l2 ndim s1 s2) (dfun_sq_nd l1 l2 ndim s1 s2) dtw_len ec i i0 i1 length md ms pen skip skipp st j.
Proof.
  destruct st as [[[[[dtw ecn] ok] sc] sf] brk]. unfold c_dtw_distance_ndim_loop5, k_loop5.
  destruct brk; [reflexivity|]. cbv zeta.
  rewrite (fold_left_ext _ _ _ _ (tie1_loop6 _ _ _ _ _ _ _)). rewrite nd_fold_ok.
  unfold dok_nd, dfun_sq_nd, nd_acc. reflexivity.
Qed.

Lemma tie3_loop5 dtw_len ec i i0 i1 l1 l2 length md ms ndim pen s1 s2 skip skipp st j :
  c_dtw_distance_ndim_euclidean_loop5 dtw_len ec i0 i1 (i * ndim) l1 l2 length md ms ndim pen s1 s2 skip skipp st j =
  k_loop5 (dok_nd l1 l2 ndim s1 s2) (dfun_abs_nd l1 l2 ndim s1 s2) dtw_len ec i i0 i1 length md ms pen skip skipp st j.
Proof.
  destruct st as [[[[[dtw ecn] ok] sc] sf] brk]. unfold c_dtw_distance_ndim_euclidean_loop5, k_loop5.
  destruct brk; [reflexivity|]. cbv zeta.
  rewrite (fold_left_ext _ _ _ _ (tie3_loop6 _ _ _ _ _ _ _)). rewrite nd_fold_ok.
  unfold dok_nd, dfun_abs_nd, nd_acc. reflexivity.
Qed.

(* ------------------------------------------------------------------ the row loops *)
Lemma tie0_loop3 p1b p1e dlw dlen l1 l2 ldw len md ms pen s1 s2 st i :
  c_dtw_distance_loop3 p1b p1e dlw dlen l1 l2 ldw len md ms pen s1 s2 st i =
  k_loop3 k_loop4 (k_loop5 (dok_1d l1 l2) (dfun_sq_1d s1 s2)) p1b p1e dlw dlen l1 l2 ldw len md ms pen st i.
Proof.
  transitivity (k_loop3 c_dtw_distance_loop4
                  (fun dtw_len ec i i0 i1 length md ms pen skip skipp =>
                     c_dtw_distance_loop5 dtw_len ec i i0 i1 l1 l2 length md ms pen s1 s2 skip skipp)
                  p1b p1e dlw dlen l1 l2 ldw len md ms pen st i).
  - destruct st as [[[[[[[dtw ec] i0] i1] ok] ps] sc] skip]. reflexivity.
  - apply k_loop3_ext; intros; [apply tie0_loop4|apply tie0_loop5].
Qed.

Lemma tie2_loop3 p1b p1e dlw dlen l1 l2 ldw len md ms pen s1 s2 st i :
  c_dtw_distance_euclidean_loop3 p1b p1e dlw dlen l1 l2 ldw len md ms pen s1 s2 st i =
  k_loop3 k_loop4 (k_loop5 (dok_1d l1 l2) (dfun_abs_1d s1 s2)) p1b p1e dlw dlen l1 l2 ldw len md ms pen st i.
Proof.
  transitivity (k_loop3 c_dtw_distance_euclidean_loop4
                  (fun dtw_len ec i i0 i1 length md ms pen skip skipp =>
                     c_dtw_distance_euclidean_loop5 dtw_len ec i i0 i1 l1 l2 length md ms pen s1 s2 skip skipp)
                  p1b p1e dlw dlen l1 l2 ldw len md ms pen st i).
  - destruct st as [[[[[[[dtw ec] i0] i1] ok] ps] sc] skip]. reflexivity.
  - apply k_loop3_ext; intros; [apply tie2_loop4|apply tie2_loop5].
Qed.

Lemma tie1_loop3 p1b p1e dlw dlen l1 l2 ldw len md ms ndim pen s1 s2 st i :
  c_dtw_distance_ndim_loop3 p1b p1e dlw dlen l1 l2 ldw len md ms ndim pen s1 s2 st i =
  k_loop3 k_loop4 (k_loop5 (dok_nd l1 l2 ndim s1 s2) (dfun_sq_nd l1 l2 ndim s1 s2)) p1b p1e dlw dlen l1 l2 ldw len md ms pen st i.
Proof.
  transitivity (k_loop3 c_dtw_distance_ndim_loop4
                  (fun dtw_len ec i i0 i1 length md ms pen skip skipp =>
                     c_dtw_distance_ndim_loop5 dtw_len ec i0 i1 (i * ndim) l1 l2 length md ms ndim pen s1 s2 skip skipp)
                  p1b p1e dlw dlen l1 l2 ldw len md ms pen st i).
  - destruct st as [[[[[[[dtw ec] i0] i1] ok] ps] sc] skip]. reflexivity.
  - apply k_loop3_ext; intros; [apply tie1_loop4|apply tie1_loop5].
Qed.

Lemma tie3_loop3 p1b p1e dlw dlen l1 l2 ldw len md ms ndim pen s1 s2 st i :
  c_dtw_distance_ndim_euclidean_loop3 p1b p1e dlw dlen l1 l2 ldw len md ms ndim pen s1 s2 st i =
  k_loop3 k_loop4 (k_loop5 (dok_nd l1 l2 ndim s1 s2) (dfun_abs_nd l1 l2 ndim s1 s2)) p1b p1e dlw dlen l1 l2 ldw len md ms pen st i.
Proof.
  transitivity (k_loop3 c_dtw_distance_ndim_euclidean_loop4
                  (fun dtw_len ec i i0 i1 length md ms pen skip skipp =>
                     c_dtw_distance_ndim_euclidean_loop5 dtw_len ec i0 i1 (i * ndim) l1 l2 length md ms ndim pen s1 s2 skip skipp)
                  p1b p1e dlw dlen l1 l2 ldw len md ms pen st i).
  - destruct st as [[[[[[[dtw ec] i0] i1] ok] ps] sc] skip]. reflexivity.
  - apply k_loop3_ext; intros; [apply tie3_loop4|apply tie3_loop5].
Qed.

(* ------------------------------------------------------------------ the kernels *)
Definition canon_loop3 (dok : Z -> Z -> bool) (dfun : Z -> Z -> cost) (p1b p1e l1 l2 : Z) :=
  fun dlw dlen ldw len md ms pen => k_loop3 k_loop4 (k_loop5 dok dfun) p1b p1e dlw dlen l1 l2 ldw len md ms pen.

Theorem c_dtw_distance_is_canonical ce ced cub junk s1 l1 s2 l2 idist md mld ms oub pen p1b p1e p2b p2e prune w :
  c_dtw_distance ce ced cub junk s1 l1 s2 l2 idist md mld ms oub pen p1b p1e p2b p2e prune w =
  k_main_sq k_loop1 k_loop2 (canon_loop3 (dok_1d l1 l2) (dfun_sq_1d s1 s2) p1b p1e l1 l2) k_loop6
            ce ced cub junk l1 l2 idist md mld ms oub pen p1e p2b p2e prune w.
Proof.
  transitivity (k_main_sq c_dtw_distance_loop1 c_dtw_distance_loop2
                  (fun dlw dlen ldw len md ms pen => c_dtw_distance_loop3 p1b p1e dlw dlen l1 l2 ldw len md ms pen s1 s2)
                  c_dtw_distance_loop6 ce ced cub junk l1 l2 idist md mld ms oub pen p1e p2b p2e prune w).
  - reflexivity.
  - apply k_main_sq_ext; intros; [apply tie0_loop1|apply tie0_loop2|apply tie0_loop3|apply tie0_loop6].
Qed.

Theorem c_dtw_distance_ndim_is_canonical ce ced cub junk s1 l1 s2 l2 ndim idist md mld ms oub pen p1b p1e p2b p2e prune w :
  c_dtw_distance_ndim ce ced cub junk s1 l1 s2 l2 ndim idist md mld ms oub pen p1b p1e p2b p2e prune w =
  k_main_sq k_loop1 k_loop2 (canon_loop3 (dok_nd l1 l2 ndim s1 s2) (dfun_sq_nd l1 l2 ndim s1 s2) p1b p1e l1 l2) k_loop6
            ce ced cub junk l1 l2 idist md mld ms oub pen p1e p2b p2e prune w.
Proof.
  transitivity (k_main_sq c_dtw_distance_ndim_loop1 c_dtw_distance_ndim_loop2
                  (fun dlw dlen ldw len md ms pen => c_dtw_distance_ndim_loop3 p1b p1e dlw dlen l1 l2 ldw len md ms ndim pen s1 s2)
                  c_dtw_distance_ndim_loop7 ce ced cub junk l1 l2 idist md mld ms oub pen p1e p2b p2e prune w).
  - reflexivity.
  - apply k_main_sq_ext; intros; [apply tie1_loop1|apply tie1_loop2|apply tie1_loop3|apply tie1_loop7].
Qed.

Theorem c_dtw_distance_euclidean_is_canonical cub junk s1 l1 s2 l2 md mld ms oub pen p1b p1e p2b p2e prune w :
  c_dtw_distance_euclidean cub junk s1 l1 s2 l2 md mld ms oub pen p1b p1e p2b p2e prune w =
  k_main_eu k_loop1 k_loop2 (canon_loop3 (dok_1d l1 l2) (dfun_abs_1d s1 s2) p1b p1e l1 l2) k_loop6
            cub junk l1 l2 md mld ms oub pen p1e p2b p2e prune w.
Proof.
  transitivity (k_main_eu c_dtw_distance_euclidean_loop1 c_dtw_distance_euclidean_loop2
                  (fun dlw dlen ldw len md ms pen => c_dtw_distance_euclidean_loop3 p1b p1e dlw dlen l1 l2 ldw len md ms pen s1 s2)
                  c_dtw_distance_euclidean_loop6 cub junk l1 l2 md mld ms oub pen p1e p2b p2e prune w).
  - reflexivity.
  - apply k_main_eu_ext; intros; [apply tie2_loop1|apply tie2_loop2|apply tie2_loop3|apply tie2_loop6].
Qed.

Theorem c_dtw_distance_ndim_euclidean_is_canonical cub junk s1 l1 s2 l2 ndim md mld ms oub pen p1b p1e p2b p2e prune w :
  c_dtw_distance_ndim_euclidean cub junk s1 l1 s2 l2 ndim md mld ms oub pen p1b p1e p2b p2e prune w =
  k_main_eu k_loop1 k_loop2 (canon_loop3 (dok_nd l1 l2 ndim s1 s2) (dfun_abs_nd l1 l2 ndim s1 s2) p1b p1e l1 l2) k_loop6
            cub junk l1 l2 md mld ms oub pen p1e p2b p2e prune w.
Proof.
  transitivity (k_main_eu c_dtw_distance_ndim_euclidean_loop1 c_dtw_distance_ndim_euclidean_loop2
                  (fun dlw dlen ldw len md ms pen => c_dtw_distance_ndim_euclidean_loop3 p1b p1e dlw dlen l1 l2 ldw len md ms ndim pen s1 s2)
                  c_dtw_distance_ndim_euclidean_loop7 cub junk l1 l2 md mld ms oub pen p1e p2b p2e prune w).
  - reflexivity.
  - apply k_main_eu_ext; intros; [apply tie3_loop1|apply tie3_loop2|apply tie3_loop3|apply tie3_loop7].
Qed.
