(* dtw_best_path on a psi-relaxed end: the C routine chooses its start cell with the regenerated rule
   Gen_ctrace.c_bestpath_end (the four-way choice after the two scans over the chains of -1 marks).  It is the rule of
   dtw.best_path / _relaxed_end as modelled in RelaxedEnd.v - for which C05_warping_path_cost_is_distance is proved -:
   given the same scan results and the same two neighbouring cells, both engines start the traceback in the same cell. *)
From Coq Require Import ZArith Bool Lia List.
From DV Require Import Prelude Cost Dtw RelaxedEnd.
From DVGen Require Import Gen_ctrace.
Import ListNotations.
Local Open Scope nat_scope.

(* the choice of RelaxedEnd.relaxed_end after its two scans *)
Definition py_end_rule (r c rr cc psi_1e psi_2e : nat) (vr vc : cost) : nat * nat :=
  if (1 <? r - rr) || (psi_2e =? 0) then (rr, c)
  else if (1 <? c - cc) || (psi_1e =? 0) then (r, cc)
  else if (cc =? 0) || ((0 <? rr) && cltb vr vc) then (rr, c) else (r, cc).

Theorem c_end_rule_is_py_end_rule (r c rr cc psi_1e psi_2e : nat) (vr vc : cost) : (rr <= r)%nat -> (cc <= c)%nat ->
  c_bestpath_end (Z.of_nat r) (Z.of_nat c) (Z.of_nat rr) (Z.of_nat cc) (Z.of_nat psi_1e) (Z.of_nat psi_2e) vr vc =
  (Z.of_nat (fst (py_end_rule r c rr cc psi_1e psi_2e vr vc)), Z.of_nat (snd (py_end_rule r c rr cc psi_1e psi_2e vr vc))).
Proof.
  intros Hr Hc. unfold c_bestpath_end, py_end_rule.
  assert (E1 : (1 <? Z.of_nat r - Z.of_nat rr)%Z = (1 <? r - rr)).
  { destruct (Z.ltb_spec 1 (Z.of_nat r - Z.of_nat rr)); destruct (Nat.ltb_spec 1 (r - rr)); try reflexivity; lia. }
  assert (E2 : (Z.of_nat psi_2e =? 0)%Z = (psi_2e =? 0)).
  { destruct (Z.eqb_spec (Z.of_nat psi_2e) 0); destruct (Nat.eqb_spec psi_2e 0); try reflexivity; lia. }
  assert (E3 : (1 <? Z.of_nat c - Z.of_nat cc)%Z = (1 <? c - cc)).
  { destruct (Z.ltb_spec 1 (Z.of_nat c - Z.of_nat cc)); destruct (Nat.ltb_spec 1 (c - cc)); try reflexivity; lia. }
  assert (E4 : (Z.of_nat psi_1e =? 0)%Z = (psi_1e =? 0)).
  { destruct (Z.eqb_spec (Z.of_nat psi_1e) 0); destruct (Nat.eqb_spec psi_1e 0); try reflexivity; lia. }
  assert (E5 : (Z.of_nat cc =? 0)%Z = (cc =? 0)).
  { destruct (Z.eqb_spec (Z.of_nat cc) 0); destruct (Nat.eqb_spec cc 0); try reflexivity; lia. }
  assert (E6 : (0 <? Z.of_nat rr)%Z = (0 <? rr)).
  { destruct (Z.ltb_spec 0 (Z.of_nat rr)); destruct (Nat.ltb_spec 0 rr); try reflexivity; lia. }
  rewrite E1, E2, E3, E4, E5, E6.
  destruct ((1 <? r - rr) || (psi_2e =? 0)); [reflexivity|].
  destruct ((1 <? c - cc) || (psi_1e =? 0)); [reflexivity|].
  destruct ((cc =? 0) || ((0 <? rr) && cltb vr vc)); reflexivity.
Qed.

(* RelaxedEnd.relaxed_end IS that rule applied to its own scans *)
Lemma relaxed_end_is_the_rule (val : nat -> nat -> cost) (r c psi_1e psi_2e : nat) :
  relaxed_end val r c psi_1e psi_2e =
  if negb (marked val r c psi_1e psi_2e r c) then (r, c)
  else py_end_rule r c (scan_up val r c psi_1e psi_2e r r) (scan_left val r c psi_1e psi_2e c c) psi_1e psi_2e
         (val (scan_up val r c psi_1e psi_2e r r) c) (val r (scan_left val r c psi_1e psi_2e c c)).
Proof. reflexivity. Qed.
