(* What the fill loops of the C warping-paths kernels STORE: a model of the loops as written -- one row after the other,
   inside a row one band cell after the other, every cell computed from the array itself at the regenerated (canonical)
   offsets, the rest of the row filled with infinity -- and the theorem that the array then holds the DTW matrix M through
   the layout: stored i s = M i (s + shift(i-1)) for every slot (the border column 0 only where the kernels keep it:
   in the rows above the left overlap).

   Modelled: no pruning and no max_step cut inside the loop (bound infinite; the skip loops are inert), exact arithmetic.
   The geometry (which slot is written, which slots are read) is CFill.v's, over the regenerated tables; the cell update
   d + MIN3(left + penalty, diagonal, up + penalty) is the text the translator checks in every region. *)
From Coq Require Import ZArith Bool Lia List.
From DV Require Import Prelude Cost Grid Dtw DtwProps CWps CFill CExpand.
From DVGen Require Import Gen_cwps Gen_cfill.
Import ListNotations.
Open Scope Z_scope.

Lemma cmin3_left_diag_up l dg u : cmin3 l dg u = cmin3 dg u l.
Proof.
  unfold cmin3. apply cle_antisym.
  - repeat apply cmin_glb.
    + eapply cle_trans; [apply cmin_l|apply cmin_r].
    + apply cmin_r.
    + eapply cle_trans; [apply cmin_l|apply cmin_l].
  - repeat apply cmin_glb.
    + apply cmin_r.
    + eapply cle_trans; [apply cmin_l|apply cmin_l].
    + eapply cle_trans; [apply cmin_l|apply cmin_r].
Qed.

Section Geometry.
Variables l1 l2 window0 : Z.
Hypothesis H1 : 1 <= l1.
Hypothesis H2 : 1 <= l2.
Hypothesis Hw : 0 <= window0.
Local Notation shiftz := (cw_shift l1 l2 window0).
Local Notation widthz := (cw_width l1 l2 window0).
Local Notation ri2z := (cw_ri2 l1 l2 window0).
Local Notation lo := (blo l1 l2 window0).
Local Notation hi := (bhi l1 l2 window0).

Lemma which_region ri : 0 <= ri < l1 -> exists R, region_lo l1 l2 window0 R <= ri < region_hi l1 l2 window0 R.
Proof using H1 H2 Hw.
  intros Hri.
  destruct (Z_lt_le_dec ri (region_hi l1 l2 window0 RA)) as [A|A]; [exists RA; unfold region_lo in *; cbn in *; lia|].
  destruct (Z_lt_le_dec ri (region_hi l1 l2 window0 RB)) as [B|B]; [exists RB; unfold region_lo, region_hi in *; cbn in *; lia|].
  destruct (Z_lt_le_dec ri (region_hi l1 l2 window0 RC)) as [C|C]; [exists RC; unfold region_lo, region_hi in *; cbn in *; lia|].
  exists RD. unfold region_lo, region_hi in *. cbn in *. lia.
Qed.

Lemma row_facts ri ci : 0 <= ri < l1 -> lo ri <= ci < hi ri ->
  0 < ci + 1 - shiftz ri < widthz /\ 0 <= ci - shiftz (ri - 1) /\ ci + 1 - shiftz (ri - 1) < widthz.
Proof using H1 H2 Hw.
  intros Hri Hci. destruct (which_region ri Hri) as [R HR].
  assert (HR' : region_lo l1 l2 window0 (fr_region (canon R)) <= ri < region_hi l1 l2 window0 (fr_region (canon R)))
    by (destruct R; exact HR).
  destruct (canon_ok l1 l2 window0 H1 H2 Hw R ri HR' Hri) as (Rmin & Rhi & Rslot & Roff & Roff2 & Rcell & _).
  destruct (Rcell ci Hci) as (Hs & Hd0 & Hu).
  rewrite (Rslot ci) in *. rewrite Roff2, Roff in Hu. rewrite Roff in Hd0. unfold shift, width in *. lia.
Qed.

Lemma shift_before_first : shiftz (-1) = 0.
Proof using H1 H2 Hw.
  unfold cw_shift, c_wps_shift, cw_ri2, c_parts_ri2, c_parts_overlap_left.
  rewrite ldiffr_norm. destruct (window_norm l1 l2 window0 Hw H1 H2) as [(W0 & Ww & _)|(W0 & Ww & _)]; rewrite Ww;
    destruct (Z.ltb_spec (-1) (Z.min l1 (Z.min (Z.max l1 l2 + Z.max 0 (l1 - l2)) (l1 + 1)))); try lia;
    destruct (Z.ltb_spec (-1) (Z.min l1 (Z.min (Z.min window0 (Z.max l1 l2) + Z.max 0 (l1 - l2)) (l1 + 1)))); lia.
Qed.

(* a row whose band starts at column 0 lies above the left overlap, and such rows are not shifted *)
Lemma band_starts_at_zero ri : 0 <= ri < l1 -> lo ri = 0 -> ri < ri2z.
Proof using H1 H2 Hw.
  intros Hri. unfold blo, band_lo, cw_window, cw_ri2, c_parts_ri2, c_parts_overlap_left. rewrite ldiffr_norm.
  destruct (window_norm l1 l2 window0 Hw H1 H2) as [(W0 & Ww & _)|(W0 & Ww & _)]; rewrite Ww; lia.
Qed.
Lemma unshifted_above_overlap ri : ri < ri2z -> shiftz ri = 0.
Proof using H1 H2 Hw. intros H. unfold cw_shift, c_wps_shift. fold ri2z. destruct (Z.ltb_spec ri ri2z); [reflexivity|lia]. Qed.
Lemma shift_nonneg ri : 0 <= shiftz ri.
Proof using H1 H2 Hw.
  unfold cw_shift, cw_ri2, cw_ri3. rewrite shift_norm.
  - unfold c_parts_ri2, c_parts_ri3. lia.
  - unfold c_parts_ri2, c_parts_ri3. lia.
Qed.
Lemma lo_nonneg ri : 0 <= lo ri.
Proof using H1 H2 Hw. unfold blo, band_lo. lia. Qed.
Lemma hi_le ri : hi ri <= l2.
Proof using H1 H2 Hw. unfold bhi, band_hi. lia. Qed.

End Geometry.

Section FillSim.
Variables l1 l2 window0 : Z.
Hypothesis H1 : 1 <= l1.
Hypothesis H2 : 1 <= l2.
Hypothesis Hw : 0 <= window0.
Variable d : nat -> nat -> cost.
Variable pen : Z.
Variables p1b p2b : nat.
Local Notation M := (Mf d pen p1b p2b).
Local Notation shiftz := (cw_shift l1 l2 window0).
Local Notation widthz := (cw_width l1 l2 window0).
Local Notation ri2z := (cw_ri2 l1 l2 window0).
Local Notation lo := (blo l1 l2 window0).
Local Notation hi := (bhi l1 l2 window0).


(* the geometry lemmas at this section's parameters *)
Local Notation row_facts := (row_facts l1 l2 window0 H1 H2 Hw).
Local Notation shift_before_first := (shift_before_first l1 l2 window0 H1 H2 Hw).
Local Notation band_starts_at_zero := (band_starts_at_zero l1 l2 window0 H1 H2 Hw).
Local Notation unshifted_above_overlap := (unshifted_above_overlap l1 l2 window0 H1 H2 Hw).
Local Notation shift_nonneg := (shift_nonneg l1 l2 window0 H1 H2 Hw).
Local Notation lo_nonneg := (lo_nonneg l1 l2 window0 H1 H2 Hw).
Local Notation hi_le := (hi_le l1 l2 window0 H1 H2 Hw).

(* outside the band the point cost is infinite (the kernels never compute those cells; M is infinite there) *)
Hypothesis Hd : forall ri ci : nat, Z.of_nat ri < l1 -> ~ (lo (Z.of_nat ri) <= Z.of_nat ci < hi (Z.of_nat ri)) -> d ri ci = Inf.

Definition upd (f : Z -> cost) (k : Z) (v : cost) : Z -> cost := fun s => if s =? k then v else f s.
Definition slotz (ri ci : nat) : Z := Z.of_nat ci + 1 - shiftz (Z.of_nat ri).
Definition offdiag (ri : nat) : Z := shiftz (Z.of_nat ri) - shiftz (Z.of_nat ri - 1) - 1.

(* wps[ri_width + wpsi] = d + MIN3(wps[ri_width + wpsi - 1] + penalty, wps[ri_widthp + wpsi + offdiag], wps[ri_widthp + wpsi + offup] + penalty) *)
Definition cell_value (ri ci : nat) (prev cur : Z -> cost) : cost :=
  let s := slotz ri ci in
  cadd (d ri ci) (cmin3 (cadd (cur (s - 1)) (Fin pen)) (prev (s + offdiag ri)) (cadd (prev (s + offdiag ri + 1)) (Fin pen))).

Fixpoint fill_cells (ri : nat) (prev : Z -> cost) (ci n : nat) (cur : Z -> cost) : Z -> cost :=
  match n with
  | O => cur
  | S n' => fill_cells ri prev (S ci) n' (upd cur (slotz ri ci) (cell_value ri ci prev cur))
  end.

(* before the cell loop: slot 0 holds the border column (0 while the begin of series 1 is relaxed) in the rows above the
   left overlap -- regions C and D overwrite it with infinity --, every other slot is (or will be filled with) infinity *)
Definition row_init (ri : nat) : Z -> cost :=
  fun s => if (s =? 0) && (Z.of_nat ri <? ri2z) then b1 p1b (S ri) else Inf.

Definition first_col (ri : nat) : nat := Z.to_nat (lo (Z.of_nat ri)).
Definition ncols (ri : nat) : nat := Z.to_nat (hi (Z.of_nat ri) - lo (Z.of_nat ri)).
Definition fill_row (ri : nat) (prev : Z -> cost) : Z -> cost := fill_cells ri prev (first_col ri) (ncols ri) (row_init ri).

Fixpoint stored (i : nat) : Z -> cost :=
  match i with
  | O => fun s => if (0 <=? s) && (s <=? Z.of_nat p2b) then Fin 0 else Inf
  | S ri => fill_row ri (stored ri)
  end.

(* ------------------------------------------------------------ geometry of one row, from CFill.v *)
(* infinite outside the band *)
Lemma M_outside ri ci : Z.of_nat ri < l1 -> ~ (lo (Z.of_nat ri) <= Z.of_nat ci < hi (Z.of_nat ri)) -> M (S ri) (S ci) = Inf.
Proof. intros Hr H. rewrite Mf_S_S. unfold code_cell. rewrite (Hd ri ci Hr H). reflexivity. Qed.

(* ------------------------------------------------------------ the invariant *)
(* row i of the array holds row i of M: slot s holds column s + shift(i-1); column 0 only above the left overlap *)
Definition holds (i : nat) (f : Z -> cost) : Prop :=
  forall s, 0 <= s < widthz -> let col := s + shiftz (Z.of_nat i - 1) in col <= l2 ->
    (col = 0 -> Z.of_nat i <= ri2z) -> f s = M i (Z.to_nat col).

(* the inner loop: after the cells lo .. ci-1 *)
Definition inner_inv (ri : nat) (ci : nat) (cur : Z -> cost) : Prop :=
  forall s, 0 <= s < widthz -> let col := s + shiftz (Z.of_nat ri) in
    (lo (Z.of_nat ri) <= col - 1 < Z.of_nat ci -> cur s = M (S ri) (Z.to_nat col)) /\
    (~ (lo (Z.of_nat ri) <= col - 1 < Z.of_nat ci) -> cur s = row_init ri s).

Lemma fill_cells_inv ri prev : 0 <= Z.of_nat ri < l1 -> holds ri prev ->
  forall n ci cur, lo (Z.of_nat ri) <= Z.of_nat ci -> Z.of_nat ci + Z.of_nat n <= hi (Z.of_nat ri) ->
  inner_inv ri ci cur -> inner_inv ri (ci + n) (fill_cells ri prev ci n cur).
Proof.
  intros Hri Hprev. induction n as [|n IH]; intros ci cur Hlo Hhi Hinv.
  - rewrite Nat.add_0_r. exact Hinv.
  - cbn [fill_cells]. replace (ci + S n)%nat with (S ci + n)%nat by lia. apply IH; [lia|lia|].
    (* the value written for cell ci *)
    assert (Hci : lo (Z.of_nat ri) <= Z.of_nat ci < hi (Z.of_nat ri)) by lia.
    destruct (row_facts (Z.of_nat ri) (Z.of_nat ci) Hri Hci) as (Hs & Hd0 & Hu).
    pose proof (hi_le (Z.of_nat ri)) as Hhl. pose proof (lo_nonneg (Z.of_nat ri)) as Hl0.
    assert (Vleft : cur (slotz ri ci - 1) = M (S ri) ci).
    { destruct (Hinv (slotz ri ci - 1) ltac:(unfold slotz; lia)) as [Hin Hout]. cbv zeta in Hin, Hout.
      unfold slotz in *. replace (Z.of_nat ci + 1 - shiftz (Z.of_nat ri) - 1 + shiftz (Z.of_nat ri)) with (Z.of_nat ci) in * by lia.
      destruct (Z_lt_le_dec (Z.of_nat ci - 1) (lo (Z.of_nat ri))) as [Hfirst|Hmid].
      - rewrite Hout by lia. unfold row_init.
        destruct ci as [|ci'].
        + (* column 0: the border *)
          assert (Hlo0 : lo (Z.of_nat ri) = 0) by lia.
          pose proof (band_starts_at_zero (Z.of_nat ri) Hri Hlo0) as Hab. pose proof (unshifted_above_overlap _ Hab) as Hsh.
          rewrite Hsh. cbn [Z.of_nat]. replace (0 + 1 - 0 - 1) with 0 by lia. cbn [Z.eqb andb].
          destruct (Z.ltb_spec (Z.of_nat ri) ri2z); [|lia]. symmetry. apply Mf_S_0.
        + (* the column left of the band: infinite *)
          rewrite (M_outside ri ci') ; [|lia|lia].
          destruct (Z.eqb_spec (Z.of_nat (S ci') + 1 - shiftz (Z.of_nat ri) - 1) 0) as [E0|E0]; [|reflexivity].
          destruct (Z.ltb_spec (Z.of_nat ri) ri2z) as [Hab|Hab]; [|reflexivity].
          pose proof (unshifted_above_overlap _ Hab) as Hsh. lia.
      - rewrite Hin by lia. rewrite Nat2Z.id. reflexivity. }
    assert (Vdiag : prev (slotz ri ci + offdiag ri) = M ri ci).
    { unfold slotz, offdiag. replace (Z.of_nat ci + 1 - shiftz (Z.of_nat ri) + (shiftz (Z.of_nat ri) - shiftz (Z.of_nat ri - 1) - 1))
        with (Z.of_nat ci - shiftz (Z.of_nat ri - 1)) by lia.
      rewrite (Hprev (Z.of_nat ci - shiftz (Z.of_nat ri - 1))); cbv zeta.
      - f_equal. replace (Z.of_nat ci - shiftz (Z.of_nat ri - 1) + shiftz (Z.of_nat ri - 1)) with (Z.of_nat ci) by lia. apply Nat2Z.id.
      - lia.
      - lia.
      - intros E0. assert (Hlo0 : lo (Z.of_nat ri) = 0) by lia. pose proof (band_starts_at_zero (Z.of_nat ri) Hri Hlo0). lia. }
    assert (Vup : prev (slotz ri ci + offdiag ri + 1) = M ri (S ci)).
    { unfold slotz, offdiag. replace (Z.of_nat ci + 1 - shiftz (Z.of_nat ri) + (shiftz (Z.of_nat ri) - shiftz (Z.of_nat ri - 1) - 1) + 1)
        with (Z.of_nat ci + 1 - shiftz (Z.of_nat ri - 1)) by lia.
      rewrite (Hprev (Z.of_nat ci + 1 - shiftz (Z.of_nat ri - 1))); cbv zeta.
      - f_equal. replace (Z.of_nat ci + 1 - shiftz (Z.of_nat ri - 1) + shiftz (Z.of_nat ri - 1)) with (Z.of_nat (S ci)) by lia. apply Nat2Z.id.
      - lia.
      - lia.
      - intros E0. lia. }
    assert (Vcell : cell_value ri ci prev cur = M (S ri) (S ci)).
    { unfold cell_value. cbv zeta. rewrite Vleft, Vdiag, Vup. rewrite Mf_S_S. unfold code_cell. f_equal. apply cmin3_left_diag_up. }
    (* the invariant after the store *)
    intros s Hs'. cbv zeta. unfold upd. split.
    + intros Hin. destruct (Z.eqb_spec s (slotz ri ci)) as [->|Hne].
      * rewrite Vcell. f_equal. unfold slotz. replace (Z.of_nat ci + 1 - shiftz (Z.of_nat ri) + shiftz (Z.of_nat ri)) with (Z.of_nat (S ci)) by lia.
        symmetry. apply Nat2Z.id.
      * apply (proj1 (Hinv s Hs')). cbv zeta. unfold slotz in Hne. lia.
    + intros Hout. destruct (Z.eqb_spec s (slotz ri ci)) as [->|Hne].
      * exfalso. apply Hout. unfold slotz. lia.
      * apply (proj2 (Hinv s Hs')). cbv zeta. lia.
Qed.

Lemma row0_holds : holds 0 (stored 0).
Proof.
  intros s Hs col Hcol Hc0. unfold col in *. cbn [stored Z.of_nat] in *. replace (0 - 1) with (-1) in * by lia.
  rewrite shift_before_first in *. rewrite Z.add_0_r. rewrite Mf_0. unfold b0.
  destruct (Z.leb_spec 0 s); [|lia]. cbn [andb].
  destruct (Z.leb_spec s (Z.of_nat p2b)); destruct (Nat.leb_spec (Z.to_nat s) p2b); try reflexivity; lia.
Qed.

(* one row of the fill: if the previous row of the array holds row ri of M, the filled row holds row ri + 1 *)
Lemma fill_row_holds ri prev : 0 <= Z.of_nat ri < l1 -> holds ri prev -> holds (S ri) (fill_row ri prev).
Proof.
  intros Hri Hprev.
  pose proof (lo_nonneg (Z.of_nat ri)) as Hl0.
  assert (Hband : lo (Z.of_nat ri) <= hi (Z.of_nat ri)).
  { destruct (band_nonempty l1 l2 window0 (Z.of_nat ri) H1 H2 Hw Hri). lia. }
  assert (Hinv0 : inner_inv ri (first_col ri) (row_init ri)).
  { intros s Hs. cbv zeta. unfold first_col. rewrite Z2Nat.id by lia. split; [lia|reflexivity]. }
  pose proof (fill_cells_inv ri prev Hri Hprev (ncols ri) (first_col ri) (row_init ri)
                ltac:(unfold first_col; rewrite Z2Nat.id; lia)
                ltac:(unfold first_col, ncols; rewrite !Z2Nat.id; lia) Hinv0) as Hfin.
  intros s Hs col Hcol Hc0. unfold col in *. unfold fill_row.
  replace (Z.of_nat (S ri) - 1) with (Z.of_nat ri) in * by lia.
  destruct (Hfin s Hs) as [Hin Hout]. cbv zeta in Hin, Hout.
  assert (Eend : Z.of_nat (first_col ri + ncols ri) = hi (Z.of_nat ri)).
  { unfold first_col, ncols. rewrite Nat2Z.inj_add, !Z2Nat.id; lia. }
  rewrite Eend in Hin, Hout.
  pose proof (shift_nonneg (Z.of_nat ri)) as Hsh0.
  destruct (Z_lt_le_dec (s + shiftz (Z.of_nat ri) - 1) (lo (Z.of_nat ri))) as [Hbelow|Hge].
  - rewrite Hout by lia. unfold row_init.
    destruct (Z.eq_dec (s + shiftz (Z.of_nat ri)) 0) as [E0|E0].
    + specialize (Hc0 E0). rewrite E0. cbn [Z.to_nat].
      assert (s = 0) by lia. subst s. cbn [Z.eqb andb].
      destruct (Z.ltb_spec (Z.of_nat ri) ri2z); [|lia]. symmetry. apply Mf_S_0.
    + assert (Hpos : 1 <= s + shiftz (Z.of_nat ri)) by lia.
      replace (Z.to_nat (s + shiftz (Z.of_nat ri))) with (S (Z.to_nat (s + shiftz (Z.of_nat ri) - 1))) by lia.
      rewrite M_outside; [|lia|rewrite Z2Nat.id; lia].
      destruct (Z.eqb_spec s 0) as [->|]; [|reflexivity].
      destruct (Z.ltb_spec (Z.of_nat ri) ri2z) as [Hab|Hab]; [|reflexivity].
      rewrite (unshifted_above_overlap _ Hab) in *. lia.
  - destruct (Z_lt_le_dec (s + shiftz (Z.of_nat ri) - 1) (hi (Z.of_nat ri))) as [Hinb|Habove].
    + apply Hin. lia.
    + rewrite Hout by lia. unfold row_init.
      replace (Z.to_nat (s + shiftz (Z.of_nat ri))) with (S (Z.to_nat (s + shiftz (Z.of_nat ri) - 1))) by lia.
      rewrite M_outside; [|lia|rewrite Z2Nat.id; lia].
      destruct (Z.eqb_spec s 0) as [->|]; [|reflexivity].
      destruct (Z.ltb_spec (Z.of_nat ri) ri2z) as [Hab|Hab]; [|reflexivity].
      rewrite (unshifted_above_overlap _ Hab) in *. lia.
Qed.

Theorem stored_holds : forall i, Z.of_nat i <= l1 -> holds i (stored i).
Proof.
  induction i as [|ri IH]; intros Hi; [exact row0_holds|].
  cbn [stored]. apply fill_row_holds; [lia|apply IH; lia].
Qed.

(* ------------------------------------------------------------ the same array with materialised rows (executable:
   this is what the correspondence check compares with the array the C kernel fills, slot by slot) *)
Definition slots : list Z := map Z.of_nat (seq 0 (Z.to_nat widthz)).
Definition of_list (l : list cost) : Z -> cost := fun s => if s <? 0 then Inf else nth (Z.to_nat s) l Inf.
Definition materialise (f : Z -> cost) : list cost := map f slots.

Lemma of_list_materialise f s : 0 <= s < widthz -> of_list (materialise f) s = f s.
Proof.
  intros Hs. unfold of_list, materialise, slots. destruct (Z.ltb_spec s 0); [lia|].
  rewrite map_map. rewrite nth_indep with (d' := f (Z.of_nat (Z.to_nat s))) by (rewrite map_length, seq_length; lia).
  rewrite (map_nth (fun x => f (Z.of_nat x)) (seq 0 (Z.to_nat widthz)) (Z.to_nat s) (Z.to_nat s)).
  rewrite seq_nth by lia. cbn. rewrite Z2Nat.id by lia. reflexivity.
Qed.

Fixpoint stored_rows (i : nat) : list cost :=
  match i with
  | O => materialise (stored 0)
  | S ri => materialise (fill_row ri (of_list (stored_rows ri)))
  end.

Lemma holds_ext i f g : (forall s, 0 <= s < widthz -> f s = g s) -> holds i g -> holds i f.
Proof. intros E H s Hs col Hcol Hc0. rewrite (E s Hs). apply H; assumption. Qed.

Theorem stored_rows_hold : forall i, Z.of_nat i <= l1 -> holds i (of_list (stored_rows i)).
Proof.
  induction i as [|ri IH]; intros Hi; cbn [stored_rows].
  - apply holds_ext with (g := stored 0); [intros s Hs; apply of_list_materialise; exact Hs|exact row0_holds].
  - apply holds_ext with (g := fill_row ri (of_list (stored_rows ri))); [intros s Hs; apply of_list_materialise; exact Hs|].
    apply fill_row_holds; [lia|apply IH; lia].
Qed.

Definition compact_model (r : nat) : list (list cost) := map stored_rows (seq 0 (S r)).
End FillSim.
