(* The C traceback on the DTW matrix of two series: CTraceSim.v instantiated with the specification matrix Mfun.
   The band hypothesis of the simulation is discharged here: a finite interior cell of Mfun lies in the band of
   the window the C engine uses (window None is passed as 0 = "no window", a window w as w, clipped to the
   longer series by dtw_wps_parts -- the band is the same as the Python engine's unclipped one). *)
From Coq Require Import ZArith Bool Lia List.
From DV Require Import Prelude Cost Grid Dtw DtwSpec DtwProps Traceback TracebackC CWps CFill CExpand CFillSim CTrace CTraceSim.
From DVGen Require Import Gen_cwps.
Import ListNotations.
Open Scope Z_scope.

(* DTWSettings.c_kwargs / the pyx layer: None -> 0 *)
Definition c_window_arg (u : usettings) : Z := match u_window u with None => 0 | Some w => w end.

Lemma c_window_band u (s1 s2 : list point) i : 1 <= Z.of_nat (sr s1) -> 1 <= Z.of_nat (sc s2) ->
  match u_window u with Some w => 1 <= w | None => True end -> 0 <= i < Z.of_nat (sr s1) ->
  band_lo (Z.of_nat (sr s1)) (Z.of_nat (sc s2)) (cw_window (Z.of_nat (sr s1)) (Z.of_nat (sc s2)) (c_window_arg u)) i =
  band_lo (Z.of_nat (sr s1)) (Z.of_nat (sc s2)) (sw u s1 s2) i /\
  band_hi (Z.of_nat (sr s1)) (Z.of_nat (sc s2)) (cw_window (Z.of_nat (sr s1)) (Z.of_nat (sc s2)) (c_window_arg u)) i =
  band_hi (Z.of_nat (sr s1)) (Z.of_nat (sc s2)) (sw u s1 s2) i.
Proof.
  intros H1 H2 Hwin Hi. unfold cw_window, c_parts_window, c_window_arg, sw, eff_window, band_lo, band_hi.
  destruct (u_window u) as [w|].
  - destruct (Z.eqb_spec w 0); lia.
  - cbn. lia.
Qed.

Theorem c_loop_path_cost_for_dtw : forall u (s1 s2 : list point) (W : Z -> Z -> cost),
  let l1 := Z.of_nat (sr s1) in let l2 := Z.of_nat (sc s2) in let w0 := c_window_arg u in
  1 <= l1 -> 1 <= l2 -> match u_window u with Some w => 1 <= w | None => True end ->
  (* the compact array holds the specification matrix through the layout (correspondence, C04) *)
  (forall (i : nat) (s : Z), Z.of_nat i <= l1 -> 0 <= s < cw_width l1 l2 w0 ->
     0 <= s + cw_shift l1 l2 w0 (Z.of_nat i - 1) <= l2 ->
     (s + cw_shift l1 l2 w0 (Z.of_nat i - 1) = 0 -> Z.of_nat i <= cw_ri2 l1 l2 w0) ->
     W (Z.of_nat i) s = Mfun u s1 s2 i (Z.to_nat (s + cw_shift l1 l2 w0 (Z.of_nat i - 1)))) ->
  forall fuel i j wpsi, (i + j <= fuel)%nat -> Z.of_nat i <= l1 -> Z.of_nat j <= l2 -> Mfun u s1 s2 i j <> Inf ->
  wpsi = Z.of_nat j - cw_shift l1 l2 w0 (Z.of_nat i - 1) ->
  wpath_cost u s1 s2 i j (c_trace l1 l2 w0 (adj_penalty u) W fuel i j wpsi) = Some (Mfun u s1 s2 i j).
Proof.
  intros u s1 s2 W l1 l2 w0 H1 H2 Hwin HW fuel i j wpsi Hf Hi Hj Hfin Hinv.
  assert (Hw0 : 0 <= w0) by (unfold w0, c_window_arg; destruct (u_window u); lia).
  unfold wpath_cost, Mfun in *.
  apply (c_trace_cost l1 l2 w0 H1 H2 Hw0 (cell u s1 s2) (adj_penalty u) (psi_1b u) (psi_2b u) W HW); try assumption.
  intros a b Ha Hb Hab.
  pose proof (interior_finite_in_band_cell (cell u s1 s2) (adj_penalty u) (psi_1b u) (psi_2b u) a b Hab) as Hc.
  unfold cell in Hc. destruct (in_band (sr s1) (sc s2) (sw u s1 s2) a b) eqn:E; [|congruence].
  unfold in_band in E. apply andb_true_iff in E. destruct E as [E1 E2]. apply Z.leb_le in E1. apply Z.ltb_lt in E2.
  destruct (c_window_band u s1 s2 (Z.of_nat a) H1 H2 Hwin ltac:(fold l1; lia)) as [Elo Ehi].
  fold l1 l2 w0 in Elo, Ehi. rewrite Elo, Ehi. unfold l1, l2. lia.
Qed.
