(* Fill, then trace: the C warping path, end to end over the models of the two loop families.

   stored (CFillSim.v) is the compact array the fill loops leave behind; it holds the DTW matrix through the layout
   (stored_holds).  c_trace (CTraceSim.v) is the traceback loop over such an array.  Composed: the path the C engine
   traces from the layout slot of a finite cell of the array it filled itself costs exactly the value of that cell --
   for every pair of series, window, penalty, begin relaxation (no pruning inside the fill loop, exact arithmetic). *)
From Coq Require Import ZArith Bool Lia List.
From DV Require Import Prelude Cost Grid Dtw DtwSpec DtwProps Traceback TracebackC CWps CFill CExpand CFillSim CTrace CTraceSim CTraceSpec.
Import ListNotations.
Open Scope Z_scope.

Theorem c_fill_then_trace : forall u (s1 s2 : list point),
  let l1 := Z.of_nat (sr s1) in let l2 := Z.of_nat (sc s2) in let w0 := c_window_arg u in
  1 <= l1 -> 1 <= l2 -> match u_window u with Some w => 1 <= w | None => True end ->
  forall fuel i j, (i + j <= fuel)%nat -> Z.of_nat i <= l1 -> Z.of_nat j <= l2 -> Mfun u s1 s2 i j <> Inf ->
  wpath_cost u s1 s2 i j
    (c_trace l1 l2 w0 (adj_penalty u)
       (fun row s => stored l1 l2 w0 (cell u s1 s2) (adj_penalty u) (psi_1b u) (psi_2b u) (Z.to_nat row) s)
       fuel i j (Z.of_nat j - cw_shift l1 l2 w0 (Z.of_nat i - 1)))
  = Some (Mfun u s1 s2 i j).
Proof.
  intros u s1 s2 l1 l2 w0 H1 H2 Hwin fuel i j Hf Hi Hj Hfin.
  assert (Hw0 : 0 <= w0) by (unfold w0, c_window_arg; destruct (u_window u); lia).
  apply (c_loop_path_cost_for_dtw u s1 s2); try assumption; [|reflexivity].
  assert (Hd' : forall ri ci : nat, Z.of_nat ri < l1 ->
            ~ (blo l1 l2 w0 (Z.of_nat ri) <= Z.of_nat ci < bhi l1 l2 w0 (Z.of_nat ri)) -> cell u s1 s2 ri ci = Inf).
  { intros ri ci Hri' Hout. unfold cell.
    destruct (in_band (sr s1) (sc s2) (sw u s1 s2) ri ci) eqn:E; [|reflexivity]. exfalso. apply Hout.
    unfold in_band in E. apply andb_true_iff in E. destruct E as [E1 E2]. apply Z.leb_le in E1. apply Z.ltb_lt in E2.
    destruct (c_window_band u s1 s2 (Z.of_nat ri) H1 H2 Hwin ltac:(fold l1; lia)) as [Elo Ehi].
    unfold blo, bhi. subst l1 l2 w0. rewrite Elo, Ehi. lia. }
  intros a s Ha Hs Hcol Hc0. rewrite Nat2Z.id.
  exact (stored_holds l1 l2 w0 H1 H2 Hw0 (cell u s1 s2) (adj_penalty u) (psi_1b u) (psi_2b u) Hd' a Ha s Hs (proj2 Hcol) Hc0).
Qed.

(* executable: the compact array the C fill loops leave for two series (rows 0..r, one list of `width` slots each) *)
Definition c_compact_model (u : usettings) (s1 s2 : list point) : list (list cost) :=
  compact_model (Z.of_nat (sr s1)) (Z.of_nat (sc s2)) (c_window_arg u) (cell u s1 s2) (adj_penalty u) (psi_1b u) (psi_2b u) (sr s1).
