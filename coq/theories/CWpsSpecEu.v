(* [CWpsSpec.v for the Euclidean twin dtw_warping_paths_ndim_euclidean; same proof over the twin's regenerated loops]
   The regenerated kernel dtw_warping_paths_ndim (Gen_cwpsk.v), run without a bound on a buffer of (l1+1) * width
   cells, leaves in every row of the buffer the corresponding row of the specification matrix through the layout of
   CWps.v (slot s of row i holds column s + shift(i-1)), and every access is in range.  Row regions A-D one after the
   other; per row: CWpsTie (the regenerated row loop is head + shared core) and CWpsKernel.row_step. *)
From Coq Require Import ZArith Bool Lia List.
From DV Require Import Prelude Cost Grid Dtw DtwProps CWps CFill CExpand CFillSim CLang CDistCanon CDistProofs CWpsCanon CWpsCanonEu CWpsKernel CWpsTie CWpsTieEu.
From DVGen Require Import Gen_cwps Gen_cfill Gen_cwpsk.
Import ListNotations.
Open Scope Z_scope.

Section Spec.
Variables l1 l2 window0 : Z.
Hypothesis H1 : 1 <= l1.
Hypothesis H2 : 1 <= l2.
Hypothesis Hw : 0 <= window0.
Variable d : nat -> nat -> cost.
Variable pen : Z.
Variables p1b p2b : nat.
Hypothesis Hd : forall ri ci : nat, Z.of_nat ri < l1 ->
  ~ (blo l1 l2 window0 (Z.of_nat ri) <= Z.of_nat ci < bhi l1 l2 window0 (Z.of_nat ri)) -> d ri ci = Inf.
Variables (ndim : Z) (s1 s2 : list Z) (ms : cost).
(* the point distance the kernel computes for the cells of the band, cut at max_step, is the model's cell cost *)
Hypothesis Hcell : forall ri ci : nat, Z.of_nat ri < l1 ->
  blo l1 l2 window0 (Z.of_nat ri) <= Z.of_nat ci < bhi l1 l2 window0 (Z.of_nat ri) ->
  wdok l1 l2 ndim s1 s2 (Z.of_nat ri * ndim) (Z.of_nat ci) = true /\
  (if cltb ms (wdfun_eu l1 l2 ndim s1 s2 (Z.of_nat ri * ndim) (Z.of_nat ci)) then Inf
   else wdfun_eu l1 l2 ndim s1 s2 (Z.of_nat ri * ndim) (Z.of_nat ci)) = d ri ci.

Local Notation ldiff := (c_parts_ldiff l1 l2).
Local Notation ldiffr := (c_parts_ldiffr l1 l2 ldiff).
Local Notation ldiffc := (c_parts_ldiffc l1 l2 ldiff).
Local Notation window := (c_parts_window l1 l2 window0).
Local Notation ol := (c_parts_overlap_left l1 ldiffr window).
Local Notation orr := (c_parts_overlap_right l1 ldiffr window).
Local Notation ri1 := (c_parts_ri1 l1 ol orr).
Local Notation ri2 := (c_parts_ri2 l1 ol).
Local Notation ri3 := (c_parts_ri3 l1 ol orr).
Local Notation W := (cw_width l1 l2 window0).
Local Notation shiftz := (cw_shift l1 l2 window0).
Local Notation lo := (blo l1 l2 window0).
Local Notation hi := (bhi l1 l2 window0).
Local Notation wl := ((l1 + 1) * W).
Local Notation GI := (GInv l1 l2 window0 d pen p1b p2b).
Local Notation zp1b := (Z.of_nat p1b).

Lemma regions_ordered : 0 <= ri1 /\ ri1 <= ri2 /\ ri2 <= ri3 /\ ri3 <= l1.
Proof.
  unfold c_parts_ri1, c_parts_ri2, c_parts_ri3, c_parts_overlap_left. rewrite overlap_right_norm, ldiffr_norm.
  destruct (window_norm l1 l2 window0 Hw H1 H2) as [(W0 & Ww & _)|(W0 & Ww & _)]; rewrite Ww; lia.
Qed.

Lemma rinit0 k : Z.of_nat k < ri2 -> row_init l1 l2 window0 p1b k 0 = b1 p1b (S k).
Proof.
  intros Hk. unfold row_init. cbn [Z.eqb andb]. unfold cw_ri2.
  destruct (Z.ltb_spec (Z.of_nat k) ri2); [reflexivity|lia].
Qed.

(* ------------------------------------------------------------------ region A *)
Definition RInvA (k : nat) (st : Z * Z * bool * Z * Z * Z * list cost) : Prop :=
  let '(ec, max_ci, ok, ri_width, ri_widthp, sc, wps) := st in
  max_ci = window + ldiffc + Z.of_nat k /\ ok = true /\ ri_width = (Z.of_nat k + 1) * W /\ ri_widthp = Z.of_nat k * W /\ sc = 0 /\
  GI k wps.

Lemma regA_facts k : Z.of_nat k < ri1 ->
  lo (Z.of_nat k) = 0 /\ hi (Z.of_nat k) = window + ldiffc + Z.of_nat k /\ shiftz (Z.of_nat k) = 0 /\
  offdiag l1 l2 window0 k = -1 /\ Z.of_nat k < l1.
Proof.
  intros Hk. pose proof regions_ordered as (R0 & R1 & R2 & R3).
  destruct (canon_ok l1 l2 window0 H1 H2 Hw RA (Z.of_nat k)) as (Emin & Ehi & Eslot & Eoff & _); [cbn; lia|lia|].
  unfold CFill.slot in *. unfold row_min, row_hi, row_wpsi, region_lo, CFill.shift in *.
  cbn [canon fr_min0 fr_max0 fr_wpsi0 fr_dmin fr_dmax fr_dwpsi fr_offdiag fr_region] in Emin, Ehi, Eslot, Eoff.
  specialize (Eslot 0). unfold offdiag. repeat split; try lia.
Qed.

Lemma stepA psi k st : 0 <= psi -> Z.of_nat k < ri1 -> RInvA k st ->
  RInvA (S k) (c_dtw_warping_paths_ndim_euclidean_loop5 psi l1 l2 0 ndim Inf ms (Fin pen) W s1 s2 wl st (Z.of_nat k)).
Proof.
  intros Hpsi Hk. destruct st as [[[[[[ec max_ci] ok] ri_width] ri_widthp] sc] wps].
  intros (-> & -> & -> & -> & -> & HG).
  destruct (regA_facts k Hk) as (Elo & Ehi & Esh & Eoff & Hkl).
  rewrite tie_eu_rowA.
  assert (Efc : Z.of_nat (first_col l1 l2 window0 k) = 0) by (unfold first_col; rewrite Elo; reflexivity).
  assert (Eslot : slotz l1 l2 window0 k (first_col l1 l2 window0 k) = 1) by (unfold slotz; rewrite Efc, Esh; reflexivity).
  destruct (row_step l1 l2 window0 H1 H2 Hw d pen p1b p2b Hd k Hkl
              (wdok l1 l2 ndim s1 s2 (Z.of_nat k * ndim)) (wdfun_eu l1 l2 ndim s1 s2 (Z.of_nat k * ndim)) fdA fuA ms
              (fun ci Hci => Hcell k ci Hkl Hci)
              ltac:(intros x; unfold fdA; rewrite Eoff; lia) ltac:(intros x; unfold fuA; rewrite Eoff; lia)
              wps wps psi ec
              (fun ec ok sc wps => (ec, window + ldiffc + Z.of_nat k + 1, ok, (Z.of_nat k + 1) * W + W, (Z.of_nat k + 1) * W, sc, wps))
              HG Hpsi eq_refl (fun idx _ => eq_refl))
    as (ec' & wps' & E & HG').
  { intros s Hs. rewrite Eslot in Hs. assert (s = 0) by lia. subst s.
    destruct HG as (_ & _ & Hc0). rewrite Z.add_0_r. replace (Z.of_nat k + 1) with (Z.of_nat (S k)) by lia.
    rewrite Hc0 by lia. symmetry. apply rinit0. pose proof regions_ordered. lia. }
  rewrite Elo, Ehi, Eslot in E. rewrite E. unfold RInvA. split; [lia|]. split; [reflexivity|]. split; [lia|]. split; [lia|]. split; [reflexivity|exact HG'].
Qed.

(* ------------------------------------------------------------------ region B *)
Definition RInvB (k : nat) (st : Z * bool * Z * Z * Z * list cost) : Prop :=
  let '(ec, ok, ri_width, ri_widthp, sc, wps) := st in
  ok = true /\ ri_width = (Z.of_nat k + 1) * W /\ ri_widthp = Z.of_nat k * W /\ sc = 0 /\ GI k wps.

Lemma regB_facts k : ri1 <= Z.of_nat k < ri2 ->
  lo (Z.of_nat k) = 0 /\ hi (Z.of_nat k) = l2 /\ shiftz (Z.of_nat k) = 0 /\ offdiag l1 l2 window0 k = -1 /\ Z.of_nat k < l1.
Proof.
  intros Hk. pose proof regions_ordered as (R0 & R1 & R2 & R3).
  destruct (canon_ok l1 l2 window0 H1 H2 Hw RB (Z.of_nat k)) as (Emin & Ehi & Eslot & Eoff & _); [cbn [canon fr_region region_lo region_hi]; lia|lia|].
  unfold CFill.slot in *. unfold row_min, row_hi, row_wpsi, region_lo, CFill.shift in *.
  cbn [canon fr_min0 fr_max0 fr_wpsi0 fr_dmin fr_dmax fr_dwpsi fr_offdiag fr_region] in Emin, Ehi, Eslot, Eoff.
  specialize (Eslot 0). unfold offdiag. repeat split; try lia.
Qed.

Lemma stepB psi k st : 0 <= psi -> ri1 <= Z.of_nat k < ri2 -> RInvB k st ->
  RInvB (S k) (c_dtw_warping_paths_ndim_euclidean_loop10 psi l1 l2 l2 0 ndim Inf ms (Fin pen) W s1 s2 wl st (Z.of_nat k)).
Proof.
  intros Hpsi Hk. destruct st as [[[[[ec ok] ri_width] ri_widthp] sc] wps].
  intros (-> & -> & -> & -> & HG).
  destruct (regB_facts k Hk) as (Elo & Ehi & Esh & Eoff & Hkl).
  rewrite tie_eu_rowB.
  assert (Efc : Z.of_nat (first_col l1 l2 window0 k) = 0) by (unfold first_col; rewrite Elo; reflexivity).
  assert (Eslot : slotz l1 l2 window0 k (first_col l1 l2 window0 k) = 1) by (unfold slotz; rewrite Efc, Esh; reflexivity).
  destruct (row_step l1 l2 window0 H1 H2 Hw d pen p1b p2b Hd k Hkl
              (wdok l1 l2 ndim s1 s2 (Z.of_nat k * ndim)) (wdfun_eu l1 l2 ndim s1 s2 (Z.of_nat k * ndim)) fdA fuA ms
              (fun ci Hci => Hcell k ci Hkl Hci)
              ltac:(intros x; unfold fdA; rewrite Eoff; lia) ltac:(intros x; unfold fuA; rewrite Eoff; lia)
              wps wps psi ec
              (fun ec ok sc wps => (ec, ok, (Z.of_nat k + 1) * W + W, (Z.of_nat k + 1) * W, sc, wps))
              HG Hpsi eq_refl (fun idx _ => eq_refl))
    as (ec' & wps' & E & HG').
  { intros s Hs. rewrite Eslot in Hs. assert (s = 0) by lia. subst s.
    destruct HG as (_ & _ & Hc0). rewrite Z.add_0_r. replace (Z.of_nat k + 1) with (Z.of_nat (S k)) by lia.
    rewrite Hc0 by lia. symmetry. apply rinit0. lia. }
  rewrite Elo, Ehi, Eslot in E. rewrite E. unfold RInvB. split; [reflexivity|]. split; [lia|]. split; [lia|]. split; [reflexivity|exact HG'].
Qed.

(* ------------------------------------------------------------------ region C *)
Local Notation maxC0 := (1 + 2 * window - 1 + ldiff).
Definition RInvC (k : nat) (st : Z * Z * Z * bool * Z * Z * Z * list cost) : Prop :=
  let '(ec, max_ci, min_ci, ok, ri_width, ri_widthp, sc, wps) := st in
  max_ci = maxC0 + (Z.of_nat k - ri2) /\ min_ci = 1 + (Z.of_nat k - ri2) /\
  ok = true /\ ri_width = (Z.of_nat k + 1) * W /\ ri_widthp = Z.of_nat k * W /\ sc = 0 /\ GI k wps.

Lemma regC_facts k : ri2 <= Z.of_nat k < ri3 ->
  lo (Z.of_nat k) = 1 + (Z.of_nat k - ri2) /\ hi (Z.of_nat k) = maxC0 + (Z.of_nat k - ri2) /\
  shiftz (Z.of_nat k) = lo (Z.of_nat k) /\ offdiag l1 l2 window0 k = 0 /\ Z.of_nat k < l1.
Proof.
  intros Hk. pose proof regions_ordered as (R0 & R1 & R2 & R3).
  destruct (canon_ok l1 l2 window0 H1 H2 Hw RC (Z.of_nat k)) as (Emin & Ehi & Eslot & Eoff & _); [cbn [canon fr_region region_lo region_hi]; lia|lia|].
  unfold CFill.slot in *. unfold row_min, row_hi, row_wpsi, region_lo, CFill.shift in *.
  cbn [canon fr_min0 fr_max0 fr_wpsi0 fr_dmin fr_dmax fr_dwpsi fr_offdiag fr_region] in Emin, Ehi, Eslot, Eoff.
  specialize (Eslot 0). unfold offdiag. repeat split; try lia.
Qed.

Lemma inb_base k : Z.of_nat k < l1 -> inb wl ((Z.of_nat k + 1) * W) = true.
Proof.
  intros Hk. pose proof (W_pos l1 l2 window0 H1 H2 Hw). unfold inb. apply andb_true_intro. split; [apply Z.leb_le|apply Z.ltb_lt]; nia.
Qed.

Lemma stepC psi k st : 0 <= psi -> ri2 <= Z.of_nat k < ri3 -> RInvC k st ->
  RInvC (S k) (c_dtw_warping_paths_ndim_euclidean_loop15 psi l1 l2 ndim Inf ms (Fin pen) W s1 s2 wl st (Z.of_nat k)).
Proof.
  intros Hpsi Hk. destruct st as [[[[[[[ec max_ci] min_ci] ok] ri_width] ri_widthp] sc] wps].
  intros (-> & -> & -> & -> & -> & -> & HG).
  destruct (regC_facts k Hk) as (Elo & Ehi & Esh & Eoff & Hkl).
  pose proof (W_pos l1 l2 window0 H1 H2 Hw) as HWp.
  rewrite tie_eu_rowC. rewrite (inb_base k Hkl). cbn [andb].
  pose proof (lo_nonneg l1 l2 window0 H1 H2 Hw (Z.of_nat k)) as Hl0.
  assert (Efc : Z.of_nat (first_col l1 l2 window0 k) = lo (Z.of_nat k)) by (unfold first_col; lia).
  assert (Eslot : slotz l1 l2 window0 k (first_col l1 l2 window0 k) = 1) by (unfold slotz; rewrite Efc, Esh; lia).
  destruct HG as (Hlen & Hrows & Hc0).
  destruct (row_step l1 l2 window0 H1 H2 Hw d pen p1b p2b Hd k Hkl
              (wdok l1 l2 ndim s1 s2 (Z.of_nat k * ndim)) (wdfun_eu l1 l2 ndim s1 s2 (Z.of_nat k * ndim)) fdC fuC ms
              (fun ci Hci => Hcell k ci Hkl Hci)
              ltac:(intros x; unfold fdC; rewrite Eoff; lia) ltac:(intros x; unfold fuC; rewrite Eoff; lia)
              wps (aset wps ((Z.of_nat k + 1) * W) Inf) psi ec
              (fun ec ok sc wps => (ec, maxC0 + (Z.of_nat k - ri2) + 1, 1 + (Z.of_nat k - ri2) + 1, ok, (Z.of_nat k + 1) * W + W, (Z.of_nat k + 1) * W, sc, wps))
              (conj Hlen (conj Hrows Hc0)) Hpsi (aset_length _ _ _))
    as (ec' & wps' & E & HG').
  { intros idx Hidx. apply aget_aset_other. lia. }
  { intros s Hs. rewrite Eslot in Hs. assert (s = 0) by lia. subst s. rewrite Z.add_0_r.
    rewrite aget_aset_same by nia. unfold row_init. cbn [Z.eqb andb]. unfold cw_ri2.
    destruct (Z.ltb_spec (Z.of_nat k) ri2); [lia|reflexivity]. }
  rewrite <- Elo in E at 1. rewrite Elo, Ehi, Eslot in E. rewrite E. unfold RInvC.
  split; [lia|]. split; [lia|]. split; [reflexivity|]. split; [lia|]. split; [lia|]. split; [reflexivity|exact HG'].
Qed.

(* ------------------------------------------------------------------ region D *)
Local Notation minD0 := (if ri2 =? ri3 then Z.max 0 (ri3 + 1 - window - ldiffr) else 1 + ri3 - ri2).
Local Notation wpsiD0 := (if ri2 =? ri3 then Z.max 0 (ri3 + 1 - window - ldiffr) + 1 else 2).
Definition RInvD (k : nat) (st : Z * Z * bool * Z * Z * Z * list cost * Z) : Prop :=
  let '(ec, min_ci, ok, ri_width, ri_widthp, sc, wps, wpsi_start) := st in
  min_ci = minD0 + (Z.of_nat k - ri3) /\ wpsi_start = wpsiD0 + (Z.of_nat k - ri3) /\
  ok = true /\ ri_width = (Z.of_nat k + 1) * W /\ ri_widthp = Z.of_nat k * W /\ sc = 0 /\ GI k wps.

Lemma regD_facts k : ri3 <= Z.of_nat k < l1 ->
  lo (Z.of_nat k) = minD0 + (Z.of_nat k - ri3) /\ hi (Z.of_nat k) = l2 /\
  lo (Z.of_nat k) + 1 - shiftz (Z.of_nat k) = wpsiD0 + (Z.of_nat k - ri3) /\ offdiag l1 l2 window0 k = -1 /\
  0 <= wpsiD0 + (Z.of_nat k - ri3) <= W.
Proof.
  intros Hk. pose proof regions_ordered as (R0 & R1 & R2 & R3).
  destruct (canon_ok l1 l2 window0 H1 H2 Hw RD (Z.of_nat k)) as (Emin & Ehi & Eslot & Eoff & _ & _ & Ehead); [cbn [canon fr_region region_lo region_hi]; lia|lia|].
  unfold CFill.slot in *. unfold row_min, row_hi, row_wpsi, region_lo, CFill.shift, CFill.width in *.
  cbn [canon fr_min0 fr_max0 fr_wpsi0 fr_dmin fr_dmax fr_dwpsi fr_offdiag fr_region fr_head_fill] in Emin, Ehi, Eslot, Eoff, Ehead.
  specialize (Eslot (lo (Z.of_nat k))). specialize (Ehead eq_refl). unfold offdiag.
  destruct (ri2 =? ri3); repeat split; try lia.
Qed.

Lemma stepD psi k st : 0 <= psi -> ri3 <= Z.of_nat k < l1 -> RInvD k st ->
  RInvD (S k) (c_dtw_warping_paths_ndim_euclidean_loop20 psi l1 l2 ndim Inf ms (Fin pen) W s1 s2 wl st (Z.of_nat k)).
Proof.
  intros Hpsi Hk. destruct st as [[[[[[[ec min_ci] ok] ri_width] ri_widthp] sc] wps] wpsi_start].
  intros (-> & -> & -> & -> & -> & -> & HG).
  destruct (regD_facts k Hk) as (Elo & Ehi & Esl & Eoff & Hws). assert (Hkl : Z.of_nat k < l1) by lia.
  pose proof (W_pos l1 l2 window0 H1 H2 Hw) as HWp. pose proof regions_ordered as (R0 & R1 & R2 & R3).
  rewrite tie_eu_rowD.
  pose proof (lo_nonneg l1 l2 window0 H1 H2 Hw (Z.of_nat k)) as Hl0.
  assert (Efc : Z.of_nat (first_col l1 l2 window0 k) = lo (Z.of_nat k)) by (unfold first_col; lia).
  assert (Eslot : slotz l1 l2 window0 k (first_col l1 l2 window0 k) = wpsiD0 + (Z.of_nat k - ri3)) by (unfold slotz; rewrite Efc; exact Esl).
  destruct HG as (Hlen & Hrows & Hc0).
  set (ws := wpsiD0 + (Z.of_nat k - ri3)) in *.
  replace ((Z.of_nat k + 1) * W + ws) with ((Z.of_nat k + 1) * W + Z.of_nat (Z.to_nat ws)) by lia.
  destruct (wfill_spec wl wps ((Z.of_nat k + 1) * W) (Z.to_nat ws) ltac:(nia) ltac:(nia) ltac:(symmetry; exact Hlen))
    as (wpsh & Eh & Hlh & Hinh & Houth).
  rewrite Eh.
  destruct (row_step l1 l2 window0 H1 H2 Hw d pen p1b p2b Hd k Hkl
              (wdok l1 l2 ndim s1 s2 (Z.of_nat k * ndim)) (wdfun_eu l1 l2 ndim s1 s2 (Z.of_nat k * ndim)) fdA fuA ms
              (fun ci Hci => Hcell k ci Hkl Hci)
              ltac:(intros x; unfold fdA; rewrite Eoff; lia) ltac:(intros x; unfold fuA; rewrite Eoff; lia)
              wps wpsh psi ec
              (fun ec ok sc wps => (ec, minD0 + (Z.of_nat k - ri3) + 1, ok, (Z.of_nat k + 1) * W + W, (Z.of_nat k + 1) * W, sc, wps, ws + 1))
              (conj Hlen (conj Hrows Hc0)) Hpsi Hlh)
    as (ec' & wps' & E & HG').
  { intros idx Hidx. apply Houth. lia. }
  { intros s Hs. rewrite Eslot in Hs. rewrite Hinh by lia. unfold row_init, cw_ri2.
    destruct (Z.eqb_spec s 0); [|reflexivity]. cbn [andb]. destruct (Z.ltb_spec (Z.of_nat k) ri2); [lia|reflexivity]. }
  rewrite Elo, Ehi, Eslot in E. rewrite E. unfold RInvD, ws.
  split; [lia|]. split; [lia|]. split; [reflexivity|]. split; [lia|]. split; [lia|]. split; [reflexivity|exact HG'].
Qed.

(* ------------------------------------------------------------------ top row and first column *)
Hypothesis Hp1b : zp1b <= l1.
Hypothesis Hp2b : Z.of_nat p2b <= l2.

Lemma window_pos : 1 <= window.
Proof. unfold c_parts_window. destruct (Z.eqb_spec window0 0); lia. Qed.

Lemma wl_ge : l2 + 1 <= wl /\ 0 < W.
Proof.
  pose proof window_pos as Hwp. pose proof (W_pos l1 l2 window0 H1 H2 Hw) as HWp. split; [|exact HWp].
  unfold cw_width, c_parts_width in *. rewrite ldiff_norm in *.
  destruct (Z.eqb_spec window0 0); [nia|].
  destruct (Z.min_spec (l2 + 1) (Z.max (l1 - l2) (l2 - l1) + 2 * window + 1)) as [[_ E]|[_ E]]; rewrite E in *; nia.
Qed.

(* a generic "set cells one by one" loop: after n steps the cells a + k * stp (k < n) hold v, the others are unchanged *)
Lemma stride_spec (v : cost) (body : bool * list cost * Z -> Z -> bool * list cost * Z) (stp a : Z) wps r0 n :
  (forall ok w p x, body (ok, w, p) x = (ok && inb wl p, aset w p v, p + stp)) ->
  0 < stp -> 0 <= a -> a + Z.of_nat n * stp <= wl + stp - 1 -> Z.of_nat (length wps) = wl ->
  exists wps', fold_left body (zrange r0 (r0 + Z.of_nat n)) (true, wps, a) = (true, wps', a + Z.of_nat n * stp) /\
    length wps' = length wps /\
    (forall k, (k < n)%nat -> aget wps' (a + Z.of_nat k * stp) = v) /\
    (forall idx, (forall k, (k < n)%nat -> idx <> a + Z.of_nat k * stp) -> aget wps' idx = aget wps idx).
Proof.
  intros Hb Hs Ha Hend Hl.
  pose (P := fun (k : nat) (st : bool * list cost * Z) => fst (fst st) = true /\ snd st = a + Z.of_nat k * stp /\
     length (snd (fst st)) = length wps /\
     (forall j, (j < k)%nat -> aget (snd (fst st)) (a + Z.of_nat j * stp) = v) /\
     (forall idx, (forall j, (j < k)%nat -> idx <> a + Z.of_nat j * stp) -> aget (snd (fst st)) idx = aget wps idx)).
  assert (HP : P n (fold_left body (zrange r0 (r0 + Z.of_nat n)) (true, wps, a))).
  { apply fold_zrange_from.
    - unfold P; cbn [fst snd]. split; [reflexivity|]. split; [lia|]. split; [reflexivity|]. split; intros; [lia|reflexivity].
    - intros k [[ok w] p] Hk (Hok & Hp & Hlen & Hin & Hout). cbn [fst snd] in *. subst ok p. rewrite Hb. unfold P. cbn [fst snd].
      replace (inb wl (a + Z.of_nat k * stp)) with true
        by (symmetry; unfold inb; apply andb_true_intro; split; [apply Z.leb_le|apply Z.ltb_lt]; nia).
      split; [reflexivity|]. split; [lia|]. split; [rewrite aset_length; exact Hlen|]. split.
      + intros j Hj. destruct (Nat.eq_dec j k) as [->|Hne].
        * apply aget_aset_same. nia.
        * rewrite aget_aset_other by nia. apply Hin. lia.
      + intros idx Hidx. rewrite aget_aset_other by (apply not_eq_sym, Hidx; lia). apply Hout. intros j Hj. apply Hidx. lia. }
  destruct (fold_left body (zrange r0 (r0 + Z.of_nat n)) (true, wps, a)) as [[ok' wps'] p'].
  destruct HP as (Hok & Hp & Hlen & Hin & Hout). cbn [fst snd] in *. subst ok' p'. exists wps'. repeat split; assumption.
Qed.

Lemma range_set_spec (v : cost) (body : bool * list cost -> Z -> bool * list cost) wps a n :
  (forall ok w i, body (ok, w) i = (ok && inb wl i, aset w i v)) ->
  0 <= a -> a + Z.of_nat n <= wl -> Z.of_nat (length wps) = wl ->
  exists wps', fold_left body (zrange a (a + Z.of_nat n)) (true, wps) = (true, wps') /\ length wps' = length wps /\
    (forall i, a <= i < a + Z.of_nat n -> aget wps' i = v) /\ (forall i, ~ (a <= i < a + Z.of_nat n) -> aget wps' i = aget wps i).
Proof.
  intros Hb Ha Hend Hl.
  pose (P := fun (k : nat) (st : bool * list cost) => fst st = true /\ length (snd st) = length wps /\
     (forall i, a <= i < a + Z.of_nat k -> aget (snd st) i = v) /\ (forall i, ~ (a <= i < a + Z.of_nat k) -> aget (snd st) i = aget wps i)).
  assert (HP : P n (fold_left body (zrange a (a + Z.of_nat n)) (true, wps))).
  { apply fold_zrange_from.
    - unfold P; cbn [fst snd]. split; [reflexivity|]. split; [reflexivity|]. split; intros; [lia|reflexivity].
    - intros k [ok w] Hk (Hok & Hlen & Hin & Hout). cbn [fst snd] in *. subst ok. rewrite Hb. unfold P. cbn [fst snd].
      replace (inb wl (a + Z.of_nat k)) with true by (symmetry; unfold inb; apply andb_true_intro; split; [apply Z.leb_le|apply Z.ltb_lt]; lia).
      split; [reflexivity|]. split; [rewrite aset_length; exact Hlen|]. split.
      + intros i Hi. destruct (Z.eq_dec i (a + Z.of_nat k)) as [->|Hne].
        * apply aget_aset_same. lia.
        * rewrite aget_aset_other by lia. apply Hin. lia.
      + intros i Hi. rewrite aget_aset_other by lia. apply Hout. lia. }
  destruct (fold_left body (zrange a (a + Z.of_nat n)) (true, wps)) as [ok' wps'].
  destruct HP as (Hok & Hlen & Hin & Hout). cbn [fst snd] in *. subst ok'. exists wps'. repeat split; assumption.
Qed.

Local Notation l1n := (Z.to_nat l1).

(* the array after the four loops that write the top row and the first column *)
Lemma init_spec wps0 : Z.of_nat (length wps0) = wl ->
  exists wpsI,
    (let '(ok, wps) := fold_left (c_dtw_warping_paths_ndim_euclidean_loop1 wl) (zrange 0 (Z.of_nat p2b + 1)) (true, wps0) in
     let '(ok, wps) := fold_left (c_dtw_warping_paths_ndim_euclidean_loop2 wl) (zrange (Z.of_nat p2b + 1) W) (ok, wps) in
     let wpsi := W in
     let '(ok, wps, wpsi) := fold_left (c_dtw_warping_paths_ndim_euclidean_loop3 W wl) (zrange 0 zp1b) (ok, wps, wpsi) in
     let ri := (Z.max 0 zp1b) in
     fold_left (c_dtw_warping_paths_ndim_euclidean_loop4 W wl) (zrange ri l1) (ok, wps, wpsi)) = (true, wpsI, (l1 + 1) * W) /\
    GI 0%nat wpsI.
Proof.
  intros Hl0. destruct wl_ge as [Hwl HWp].
  (* top row: zeros *)
  assert (E1r : zrange 0 (Z.of_nat p2b + 1) = zrange 0 (0 + Z.of_nat (p2b + 1))) by (f_equal; lia).
  rewrite E1r.
  destruct (range_set_spec (Fin 0) (c_dtw_warping_paths_ndim_euclidean_loop1 wl) wps0 0 (p2b + 1) ltac:(intros; reflexivity) ltac:(lia) ltac:(lia) Hl0)
    as (w1 & E1 & L1 & In1 & Out1).
  rewrite E1.
  (* top row: the rest *)
  set (n2 := Z.to_nat (W - (Z.of_nat p2b + 1))).
  assert (E2r : zrange (Z.of_nat p2b + 1) W = zrange (Z.of_nat p2b + 1) (Z.of_nat p2b + 1 + Z.of_nat n2)).
  { unfold zrange, n2. f_equal. lia. }
  rewrite E2r.
  destruct (range_set_spec Inf (c_dtw_warping_paths_ndim_euclidean_loop2 wl) w1 (Z.of_nat p2b + 1) n2 ltac:(intros; reflexivity) ltac:(lia)
              ltac:(unfold n2; nia) ltac:(rewrite L1; exact Hl0)) as (w2 & E2 & L2 & In2 & Out2).
  rewrite E2. cbv zeta.
  (* first column: zeros for the relaxed rows *)
  assert (E3r : zrange 0 zp1b = zrange 0 (0 + Z.of_nat p1b)) by (f_equal; lia).
  rewrite E3r.
  destruct (stride_spec (Fin 0) (c_dtw_warping_paths_ndim_euclidean_loop3 W wl) W W w2 0 p1b ltac:(intros; reflexivity) HWp ltac:(lia)
              ltac:(nia) ltac:(rewrite L2, L1; exact Hl0)) as (w3 & E3 & L3 & In3 & Out3).
  rewrite E3.
  (* first column: infinity below *)
  replace (Z.max 0 zp1b) with zp1b by lia.
  set (n4 := Z.to_nat (l1 - zp1b)).
  assert (E4r : zrange zp1b l1 = zrange zp1b (zp1b + Z.of_nat n4)) by (unfold zrange, n4; f_equal; lia).
  rewrite E4r.
  destruct (stride_spec Inf (c_dtw_warping_paths_ndim_euclidean_loop4 W wl) W (W + Z.of_nat p1b * W) w3 zp1b n4 ltac:(intros; reflexivity) HWp ltac:(nia)
              ltac:(unfold n4; nia) ltac:(rewrite L3, L2, L1; exact Hl0)) as (w4 & E4 & L4 & In4 & Out4).
  rewrite E4. exists w4. split; [f_equal; unfold n4; nia|].
  unfold GInv. split; [rewrite L4, L3, L2, L1; exact Hl0|]. split.
  - intros k Hk. replace k with 0%nat by lia.
    apply holds_ext' with (g := stored l1 l2 window0 d pen p1b p2b 0); [|apply row0_holds; assumption].
    intros s Hs. unfold rowf. cbn [Z.of_nat stored]. replace (0 * W + s) with s by lia.
    rewrite Out4 by (intros j Hj; nia). rewrite Out3 by (intros j Hj; nia).
    destruct (Z.leb_spec 0 s); [|lia]. cbn [andb]. destruct (Z.leb_spec s (Z.of_nat p2b)).
    + rewrite Out2 by lia. apply In1. lia.
    + apply In2. unfold n2. lia.
  - intros k Hk Hkl. unfold b1. destruct (Nat.leb_spec k p1b) as [Hle|Hgt].
    + rewrite Out4 by (intros j Hj; nia). replace (Z.of_nat k * W) with (W + Z.of_nat (k - 1) * W) by nia. apply In3. lia.
    + replace (Z.of_nat k * W) with (W + Z.of_nat p1b * W + Z.of_nat (k - 1 - p1b) * W) by nia. apply In4. unfold n4. lia.
Qed.

(* ------------------------------------------------------------------ the four regions, one after the other *)
Lemma region_fold {S} (P : nat -> S -> Prop) (f : S -> Z -> S) (a b : Z) s :
  0 <= a <= b -> P (Z.to_nat a) s ->
  (forall k s, a <= Z.of_nat k < b -> P k s -> P (Datatypes.S k) (f s (Z.of_nat k))) ->
  P (Z.to_nat b) (fold_left f (zrange a b) s).
Proof.
  intros Hab H0 Hs.
  assert (Eb : zrange a b = zrange a (a + Z.of_nat (Z.to_nat (b - a)))) by (f_equal; lia). rewrite Eb.
  replace (Z.to_nat b) with (Z.to_nat a + Z.to_nat (b - a))%nat by lia.
  apply (fold_zrange_from (fun k => P (Z.to_nat a + k)%nat)).
  - rewrite Nat.add_0_r. exact H0.
  - intros k s' Hk Hp. replace (a + Z.of_nat k) with (Z.of_nat (Z.to_nat a + k)) by lia.
    replace (Z.to_nat a + Datatypes.S k)%nat with (Datatypes.S (Z.to_nat a + k)) by lia. apply Hs; [lia|exact Hp].
Qed.

(* the Euclidean kernel up to the end of the row regions: what follows is CWpsCanonEu.k_wtail_eu on an array whose
   rows hold the matrix; without a bound *)
Theorem c_wps_eu_kernel_runs shiftf cub1 cub2 wps0 return_dtw keep psi_neg zp1e zp2e :
  Z.of_nat (length wps0) = wl ->
  exists wps',
    c_dtw_warping_paths_ndim_euclidean shiftf cub1 cub2 wps0 s1 l1 s2 l2 return_dtw keep psi_neg ndim wl
      ldiff ldiffr ldiffc window W ri1 ri2 ri3 ms Inf (Fin pen) false zp1b zp1e (Z.of_nat p2b) zp2e false
    = k_wtail_eu shiftf return_dtw psi_neg l1 l2 W wl Inf zp1e zp2e true wps' /\
    Z.of_nat (length wps') = wl /\
    forall k, (k <= l1n)%nat -> holds l1 l2 window0 d pen p1b p2b k (rowf l1 l2 window0 wps' k).
Proof.
  intros Hl0. pose proof regions_ordered as (R0 & R1 & R2 & R3). pose proof (Nat2Z.is_nonneg p1b) as Hp0.
  unfold c_dtw_warping_paths_ndim_euclidean. cbv zeta. cbn [orb andb negb].
  destruct (init_spec wps0 Hl0) as (wI & EI & GI0).
  destruct (fold_left (c_dtw_warping_paths_ndim_euclidean_loop1 wl) (zrange 0 (Z.of_nat p2b + 1)) (true, wps0)) as [o1 w1].
  destruct (fold_left (c_dtw_warping_paths_ndim_euclidean_loop2 wl) (zrange (Z.of_nat p2b + 1) W) (o1, w1)) as [o2 w2].
  cbv zeta in EI.
  destruct (fold_left (c_dtw_warping_paths_ndim_euclidean_loop3 W wl) (zrange 0 zp1b) (o2, w2, W)) as [[o3 w3] p3].
  rewrite EI.
  (* region A *)
  assert (HA : RInvA (Z.to_nat ri1) (fold_left (c_dtw_warping_paths_ndim_euclidean_loop5 zp1b l1 l2 0 ndim Inf ms (Fin pen) W s1 s2 wl) (zrange 0 ri1)
                                       (Z.of_nat p2b, window + ldiffc, true, W, 0, 0, wI))).
  { apply (region_fold RInvA); [lia| |].
    - unfold RInvA. cbn [Z.to_nat Z.of_nat]. split; [lia|]. split; [reflexivity|]. split; [lia|]. split; [lia|]. split; [reflexivity|exact GI0].
    - intros k s Hk Hs. apply stepA; [lia|lia|exact Hs]. }
  destruct (fold_left (c_dtw_warping_paths_ndim_euclidean_loop5 zp1b l1 l2 0 ndim Inf ms (Fin pen) W s1 s2 wl) (zrange 0 ri1)
              (Z.of_nat p2b, window + ldiffc, true, W, 0, 0, wI)) as [[[[[[ecA mxA] okA] rwA] rwpA] scA] wA].
  destruct HA as (_ & -> & -> & -> & -> & GA).
  (* region B *)
  assert (HB : RInvB (Z.to_nat ri2) (fold_left (c_dtw_warping_paths_ndim_euclidean_loop10 zp1b l1 l2 l2 0 ndim Inf ms (Fin pen) W s1 s2 wl) (zrange ri1 ri2)
                                       (ecA, true, (Z.of_nat (Z.to_nat ri1) + 1) * W, Z.of_nat (Z.to_nat ri1) * W, 0, wA))).
  { apply (region_fold RInvB); [lia| |].
    - unfold RInvB. split; [reflexivity|]. split; [reflexivity|]. split; [reflexivity|]. split; [reflexivity|exact GA].
    - intros k s Hk Hs. apply stepB; [lia|lia|exact Hs]. }
  destruct (fold_left (c_dtw_warping_paths_ndim_euclidean_loop10 zp1b l1 l2 l2 0 ndim Inf ms (Fin pen) W s1 s2 wl) (zrange ri1 ri2)
              (ecA, true, (Z.of_nat (Z.to_nat ri1) + 1) * W, Z.of_nat (Z.to_nat ri1) * W, 0, wA)) as [[[[[ecB okB] rwB] rwpB] scB] wB].
  destruct HB as (-> & -> & -> & -> & GB).
  (* region C *)
  assert (HC : RInvC (Z.to_nat ri3) (fold_left (c_dtw_warping_paths_ndim_euclidean_loop15 zp1b l1 l2 ndim Inf ms (Fin pen) W s1 s2 wl) (zrange ri2 ri3)
                                       (ecB, 1 + 2 * window - 1 + ldiff, 1, true, (Z.of_nat (Z.to_nat ri2) + 1) * W, Z.of_nat (Z.to_nat ri2) * W, 0, wB))).
  { apply (region_fold RInvC); [lia| |].
    - unfold RInvC. split; [lia|]. split; [lia|]. split; [reflexivity|]. split; [reflexivity|]. split; [reflexivity|]. split; [reflexivity|exact GB].
    - intros k s Hk Hs. apply stepC; [lia|lia|exact Hs]. }
  destruct (fold_left (c_dtw_warping_paths_ndim_euclidean_loop15 zp1b l1 l2 ndim Inf ms (Fin pen) W s1 s2 wl) (zrange ri2 ri3)
              (ecB, 1 + 2 * window - 1 + ldiff, 1, true, (Z.of_nat (Z.to_nat ri2) + 1) * W, Z.of_nat (Z.to_nat ri2) * W, 0, wB))
    as [[[[[[[ecC mxC] mnC] okC] rwC] rwpC] scC] wC].
  destruct HC as (_ & _ & -> & -> & -> & -> & GC).
  (* region D *)
  set (stD := (if ri2 =? ri3 then (Z.max 0 (ri3 + 1 - window - ldiffr), Z.max 0 (ri3 + 1 - window - ldiffr) + 1) else (1 + ri3 - ri2, 2))).
  assert (EstD : stD = ((if ri2 =? ri3 then Z.max 0 (ri3 + 1 - window - ldiffr) else 1 + ri3 - ri2),
                        (if ri2 =? ri3 then Z.max 0 (ri3 + 1 - window - ldiffr) + 1 else 2))) by (unfold stD; destruct (ri2 =? ri3); reflexivity).
  rewrite EstD.
  assert (HD : RInvD (Z.to_nat l1) (fold_left (c_dtw_warping_paths_ndim_euclidean_loop20 zp1b l1 l2 ndim Inf ms (Fin pen) W s1 s2 wl) (zrange ri3 l1)
                       (ecC, (if ri2 =? ri3 then Z.max 0 (ri3 + 1 - window - ldiffr) else 1 + ri3 - ri2), true,
                        (Z.of_nat (Z.to_nat ri3) + 1) * W, Z.of_nat (Z.to_nat ri3) * W, 0, wC,
                        (if ri2 =? ri3 then Z.max 0 (ri3 + 1 - window - ldiffr) + 1 else 2)))).
  { apply (region_fold RInvD); [lia| |].
    - unfold RInvD. split; [lia|]. split; [lia|]. split; [reflexivity|]. split; [reflexivity|]. split; [reflexivity|]. split; [reflexivity|exact GC].
    - intros k s Hk Hs. apply stepD; [lia|lia|exact Hs]. }
  destruct (fold_left (c_dtw_warping_paths_ndim_euclidean_loop20 zp1b l1 l2 ndim Inf ms (Fin pen) W s1 s2 wl) (zrange ri3 l1)
              (ecC, (if ri2 =? ri3 then Z.max 0 (ri3 + 1 - window - ldiffr) else 1 + ri3 - ri2), true,
               (Z.of_nat (Z.to_nat ri3) + 1) * W, Z.of_nat (Z.to_nat ri3) * W, 0, wC,
               (if ri2 =? ri3 then Z.max 0 (ri3 + 1 - window - ldiffr) + 1 else 2)))
    as [[[[[[[ecD mnD] okD] rwD] rwpD] scD] wD] wsD].
  destruct HD as (_ & _ & -> & _ & _ & _ & (HlD & HrowsD & _)).
  exists wD. split; [reflexivity|]. split; [exact HlD|exact HrowsD].
Qed.
End Spec.
