(* The two engines decode "option off" differently: Python tests truthiness /
   None, the C engine tests == 0 after dtw.DTWSettings.c_kwargs and the pyx
   DTWSettings.__init__ turned None into 0.  This file models both decodings
   and proves where they commute. *)
From Coq Require Import ZArith Bool List Lia.
From DV Require Import Cost Dtw DtwSpec.
Open Scope Z_scope.

(* C-side settings struct (DTWSettings_s): 0 encodes "off" *)
Record csettings := {
  c_window : Z; c_penalty : Z; c_max_step : Z; c_max_length_diff : Z;
  c_psi : (nat * nat) * (nat * nat); c_inner : inner
}.

(* DTWSettings.c_kwargs followed by the pyx constructor: None -> 0 *)
Definition zopt (o : option Z) : Z := match o with None => 0 | Some z => z end.
Definition py_to_c (u : usettings) : csettings :=
  {| c_window := zopt (u_window u); c_penalty := zopt (u_penalty u); c_max_step := zopt (u_max_step u);
     c_max_length_diff := zopt (u_max_length_diff u); c_psi := u_psi u; c_inner := u_inner u |}.

(* How dtw_distance* reads the struct: window == 0 -> max(l1,l2); max_step == 0 -> off;
   max_length_diff == 0 -> off; penalty is used as is (0 = none). *)
Definition offz (z : Z) : option Z := if z =? 0 then None else Some z.
Definition c_to_u (cs : csettings) : usettings :=
  {| u_window := offz (c_window cs); u_penalty := Some (c_penalty cs); u_max_step := offz (c_max_step cs);
     u_max_length_diff := offz (c_max_length_diff cs); u_psi := c_psi cs; u_inner := c_inner cs |}.

Definition c_dtw_model (cs : csettings) (s1 s2 : list point) : cost := dtw_model (c_to_u cs) s1 s2.

(* settings on which both engines mean the same thing *)
Definition expressible (u : usettings) : Prop :=
  u_window u <> Some 0 /\ u_max_length_diff u <> Some 0.

Lemma adj_penalty_roundtrip u : adj_penalty (c_to_u (py_to_c u)) = adj_penalty u.
Proof.
  unfold adj_penalty, c_to_u, py_to_c, zopt; simpl.
  destruct (u_penalty u) as [p|]; simpl; [reflexivity|]. destruct (u_inner u); reflexivity.
Qed.

Lemma adj_max_step_roundtrip u : adj_max_step (c_to_u (py_to_c u)) = adj_max_step u.
Proof.
  unfold adj_max_step, c_to_u, py_to_c, zopt, offz; simpl.
  destruct (u_max_step u) as [p|]; simpl; [|reflexivity].
  destruct (p =? 0) eqn:E; simpl; [reflexivity|]. rewrite E. reflexivity.
Qed.

Lemma eff_window_roundtrip u r c : u_window u <> Some 0 ->
  eff_window (c_to_u (py_to_c u)) r c = eff_window u r c.
Proof.
  unfold eff_window, c_to_u, py_to_c, zopt, offz; simpl. intros H.
  destruct (u_window u) as [w|]; simpl; [|reflexivity].
  destruct (w =? 0) eqn:E; [apply Z.eqb_eq in E; subst; congruence|reflexivity].
Qed.

Lemma too_long_roundtrip u s1 s2 : u_max_length_diff u <> Some 0 ->
  too_long (c_to_u (py_to_c u)) s1 s2 = too_long u s1 s2.
Proof.
  unfold too_long, c_to_u, py_to_c, zopt, offz; simpl. intros H.
  destruct (u_max_length_diff u) as [m|]; simpl; [|reflexivity].
  destruct (m =? 0) eqn:E; [apply Z.eqb_eq in E; subst; congruence|reflexivity].
Qed.

Lemma cell_roundtrip u s1 s2 i j : u_window u <> Some 0 ->
  cell (c_to_u (py_to_c u)) s1 s2 i j = cell u s1 s2 i j.
Proof.
  intros H. unfold cell, sw. rewrite eff_window_roundtrip by exact H.
  rewrite adj_max_step_roundtrip. reflexivity.
Qed.

Theorem off_encodings_commute u s1 s2 : expressible u ->
  c_dtw_model (py_to_c u) s1 s2 = dtw_model u s1 s2.
Proof.
  intros [Hw Hm]. unfold c_dtw_model, dtw_model. rewrite too_long_roundtrip by exact Hm.
  destruct (too_long u s1 s2); [reflexivity|].
  unfold dtw_value, wps_matrix, end_cands.
  rewrite adj_penalty_roundtrip.
  assert (Hc : forall i j, cell (c_to_u (py_to_c u)) s1 s2 i j = cell u s1 s2 i j)
    by (intros; apply cell_roundtrip; exact Hw).
  assert (HM : matrix (cell (c_to_u (py_to_c u)) s1 s2) (adj_penalty u) (psi_1b (c_to_u (py_to_c u)))
                 (psi_2b (c_to_u (py_to_c u))) (sr s1) (sc s2)
             = matrix (cell u s1 s2) (adj_penalty u) (psi_1b u) (psi_2b u) (sr s1) (sc s2)).
  { unfold matrix. change (psi_1b (c_to_u (py_to_c u))) with (psi_1b u).
    change (psi_2b (c_to_u (py_to_c u))) with (psi_2b u).
    f_equal. generalize (row0 (psi_2b u) (sc s2)). generalize 0%nat. generalize (sr s1).
    induction n as [|n IH]; intros k prev; [reflexivity|].
    cbn [rows_from].
    assert (Hn : next_row (cell (c_to_u (py_to_c u)) s1 s2) (adj_penalty u) (psi_1b u) k prev
               = next_row (cell u s1 s2) (adj_penalty u) (psi_1b u) k prev).
    { destruct prev as [|p0 tl]; [reflexivity|]. cbn [next_row]. f_equal.
      generalize (b1 (psi_1b u) (S k)). generalize p0. generalize 0%nat.
      induction tl as [|pu rest IHt]; intros j pl left; [reflexivity|].
      cbn [scan_row]. rewrite Hc. f_equal. apply IHt. }
    rewrite Hn. f_equal. apply IH. }
  rewrite HM. reflexivity.
Qed.

(* the hypothesis is needed: with max_length_diff = 0 the engines differ *)
Definition mld0 : usettings :=
  {| u_window := None; u_penalty := None; u_max_step := None; u_max_length_diff := Some 0;
     u_psi := ((0%nat, 0%nat), (0%nat, 0%nat)); u_inner := SqEuclid |}.

Lemma mld_zero_refuted :
  exists u s1 s2, c_dtw_model (py_to_c u) s1 s2 <> dtw_model u s1 s2.
Proof.
  exists mld0, (cons (cons 0 nil) nil), (cons (cons 0 nil) (cons (cons 0 nil) nil)).
  vm_compute. discriminate.
Qed.
