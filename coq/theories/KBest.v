(* The k-best iterator of SubsequenceAlignment (_best_matches) as a state machine
   over the (copied) matching function:

     while k is None or ki < k:
         best_idx = argmin(matching)
         if isinf(matching[best_idx]) or matching[best_idx] == maxv: break
         b, e = get_match(best_idx).segment                       # e = best_idx, b <= e
         cur_overlap = min(overlap, e - b - 1)
         mb, me = best_idx + 1 - (e - b) + cur_overlap, best_idx + 1
         if too short or too long:   matching[best_idx] = maxv; continue
         if isinf(max(matching[mb:me])): matching[best_idx] = maxv; continue
         matching[mb:me] = inf;  ki += 1;  yield match

   Proved for every matching function, every segment function with b <= e and
   every k / overlap / minlength / maxlength: the yielded matches have distinct
   end points, non-decreasing values, lengths within the limits, pairwise disjoint
   masked ranges -- hence, with overlap = 0, segments that share at most one
   boundary sample -- and the loop terminates (every iteration retires an entry). *)
From Coq Require Import ZArith Bool List Lia.
Import ListNotations.
Open Scope nat_scope.

Inductive slot := V (z : Z) | MaxV | InfV.

Definition slot_leb (a b : slot) : bool :=
  match a, b with
  | V x, V y => (x <=? y)%Z
  | V _, _ => true
  | MaxV, V _ => false
  | MaxV, _ => true
  | InfV, InfV => true
  | InfV, _ => false
  end.
Definition slot_le a b := slot_leb a b = true.

Lemma slot_le_refl a : slot_le a a.
Proof. destruct a; unfold slot_le; simpl; auto. apply Z.leb_refl. Qed.
Lemma slot_le_trans a b c : slot_le a b -> slot_le b c -> slot_le a c.
Proof. destruct a, b, c; unfold slot_le; simpl; auto; try discriminate. intros. apply Z.leb_le. apply Z.leb_le in H, H0. lia. Qed.
Lemma slot_le_total a b : slot_le a b \/ slot_le b a.
Proof. destruct a, b; unfold slot_le; simpl; auto. destruct (Z.leb_spec z z0); [left; reflexivity|right; apply Z.leb_le; lia]. Qed.
Lemma slot_le_inf a : slot_le a InfV.
Proof. destruct a; reflexivity. Qed.

Definition val (m : list slot) (i : nat) : slot := nth i m InfV.

(* np.argmin: index of the first minimal entry *)
Fixpoint argmin_from (m : list slot) (i : nat) (best : nat) (bv : slot) : nat :=
  match m with
  | [] => best
  | x :: t => if slot_leb bv x then argmin_from t (S i) best bv else argmin_from t (S i) i x
  end.
Definition argmin (m : list slot) : option nat :=
  match m with [] => None | x :: t => Some (argmin_from t 1 0 x) end.

Lemma argmin_from_spec : forall t i best bv m0,
  length m0 = i -> best < i -> val m0 best = bv -> (forall j, j < i -> slot_le bv (val m0 j)) ->
  let r := argmin_from t i best bv in
  r < i + length t /\ forall j, j < i + length t -> slot_le (val (m0 ++ t) r) (val (m0 ++ t) j).
Proof.
  induction t as [|x t IH]; intros i best bv m0 Hl Hb Hv Hmin; cbn [argmin_from length].
  - rewrite app_nil_r, Nat.add_0_r. split; [exact Hb|]. intros j Hj. rewrite Hv. apply Hmin. exact Hj.
  - assert (E : m0 ++ x :: t = (m0 ++ [x]) ++ t) by (rewrite <- app_assoc; reflexivity).
    destruct (slot_leb bv x) eqn:Ex.
    + specialize (IH (S i) best bv (m0 ++ [x])). rewrite E.
      replace (i + S (length t)) with (S i + length t) by lia. apply IH.
      * rewrite app_length. simpl. lia.
      * lia.
      * unfold val. rewrite app_nth1 by lia. exact Hv.
      * intros j Hj. unfold val. destruct (Nat.eq_dec j i) as [->|Hne].
        -- rewrite app_nth2 by lia. rewrite Hl, Nat.sub_diag. exact Ex.
        -- rewrite app_nth1 by lia. apply Hmin. lia.
    + specialize (IH (S i) i x (m0 ++ [x])). rewrite E.
      replace (i + S (length t)) with (S i + length t) by lia. apply IH.
      * rewrite app_length. simpl. lia.
      * lia.
      * unfold val. rewrite app_nth2 by lia. rewrite Hl, Nat.sub_diag. reflexivity.
      * intros j Hj. unfold val. destruct (Nat.eq_dec j i) as [->|Hne].
        -- rewrite app_nth2 by lia. rewrite Hl, Nat.sub_diag. apply slot_le_refl.
        -- rewrite app_nth1 by lia. fold (val m0 j).
           destruct (slot_le_total x bv) as [H|H]; [|unfold slot_le in H; congruence].
           eapply slot_le_trans; [exact H|apply Hmin; lia].
Qed.

Lemma argmin_spec m i : argmin m = Some i -> i < length m /\ forall j, j < length m -> slot_le (val m i) (val m j).
Proof.
  destruct m as [|x t]; [discriminate|]. cbn [argmin]. intros E. injection E as <-.
  pose proof (argmin_from_spec t 1 0 x [x] eq_refl ltac:(lia) eq_refl) as H. cbn [length app] in *.
  apply H. intros j Hj. replace j with 0 by lia. apply slot_le_refl.
Qed.

(* ------------------------------------------------------------ array updates *)
Fixpoint set_at (m : list slot) (i : nat) (v : slot) : list slot :=
  match m, i with
  | [], _ => []
  | _ :: t, 0 => v :: t
  | x :: t, S i' => x :: set_at t i' v
  end.
(* matching[mb:me] = inf *)
Fixpoint mask (m : list slot) (mb me : nat) : list slot :=
  match m with
  | [] => []
  | x :: t => (if (mb =? 0) && (0 <? me) then InfV else x) :: mask t (pred mb) (pred me)
  end.
(* isinf(max(matching[mb:me])) *)
Definition has_inf (m : list slot) (mb me : nat) : bool :=
  existsb (fun i => match val m i with InfV => true | _ => false end) (seq mb (me - mb)).

Lemma set_at_length m i v : length (set_at m i v) = length m.
Proof. revert i; induction m as [|x t IH]; intros i; destruct i; simpl; auto. Qed.
Lemma val_set_at m i v j : i < length m -> val (set_at m i v) j = if j =? i then v else val m j.
Proof.
  revert i j; induction m as [|x t IH]; intros i j H; simpl in H; [lia|].
  destruct i; destruct j; simpl; auto. unfold val in *. simpl. apply IH. lia.
Qed.
Lemma mask_length m mb me : length (mask m mb me) = length m.
Proof. revert mb me; induction m as [|x t IH]; intros; simpl; auto. Qed.
Lemma val_mask : forall m mb me j, j < length m ->
  val (mask m mb me) j = if (mb <=? j) && (j <? me) then InfV else val m j.
Proof.
  induction m as [|x t IH]; intros mb me j H; simpl in H; [lia|].
  destruct j as [|j]; cbn [mask].
  - unfold val. cbn [nth]. destruct mb; destruct me; reflexivity.
  - unfold val in *. cbn [nth]. rewrite IH by lia.
    destruct mb as [|mb]; destruct me as [|me]; cbn [pred];
      repeat match goal with
             | |- context [?a <=? ?b] => destruct (Nat.leb_spec a b)
             | |- context [?a <? ?b] => destruct (Nat.ltb_spec a b)
             end; cbn [andb]; try reflexivity; lia.
Qed.
Lemma has_inf_false m mb me : has_inf m mb me = false -> forall j, mb <= j < me -> val m j <> InfV.
Proof.
  unfold has_inf. intros H j Hj E. assert (T : existsb (fun i => match val m i with InfV => true | _ => false end) (seq mb (me - mb)) = true).
  { apply existsb_exists. exists j. split; [apply in_seq; lia|rewrite E; reflexivity]. }
  congruence.
Qed.

(* ------------------------------------------------------------ one iteration *)
Section KBest.
Variable beg : nat -> nat.                         (* begin of the match that ends at index e *)
Hypothesis beg_le : forall e, beg e <= e.
Variables overlap minlength : nat.
Variable maxlength : option nat.
(* maxv = ceil(max(matching) + 1) is itself inf when the matching function contains inf: an entry retired with
   "matching[best_idx] = maxv" then counts as inf in later isinf tests *)
Variable maxinf : bool.
Definition skipv : slot := if maxinf then InfV else MaxV.

Definition mb_of (e : nat) : nat :=
  let b := beg e in
  if e =? b then e                                  (* e - b - 1 = -1: mb = best_idx *)
  else b + 1 + Nat.min overlap (e - b - 1).         (* best_idx + 1 - (e - b) + cur_overlap *)

Inductive res := Stop | Skip (m' : list slot) | Yield (m' : list slot) (b e : nat) (z : Z).

Definition iter (m : list slot) : res :=
  match argmin m with
  | None => Stop
  | Some i =>
    match val m i with
    | InfV | MaxV => Stop
    | V z =>
      let b := beg i in
      let len := i - b + 1 in
      if (len <? minlength) || (match maxlength with Some mx => mx <? len | None => false end)
      then Skip (set_at m i skipv)
      else if has_inf m (mb_of i) (i + 1) then Skip (set_at m i skipv)
      else Yield (mask m (mb_of i) (i + 1)) b i z
    end
  end.

(* while k is None or ki < k *)
Fixpoint run (fuel : nat) (k : option nat) (m : list slot) : list (nat * nat * Z) :=
  match fuel with
  | 0 => []
  | S f =>
    match k with
    | Some 0 => []
    | _ =>
      match iter m with
      | Stop => []
      | Skip m' => run f k m'
      | Yield m' b e z => (b, e, z) :: run f (option_map pred k) m'
      end
    end
  end.
Definition kbest (k : option nat) (m : list slot) := run (S (length m)) k m.

Lemma mb_le e : mb_of e <= e.
Proof. unfold mb_of. pose proof (beg_le e). destruct (Nat.eqb_spec e (beg e)); lia. Qed.

(* entries only move up: V -> MaxV / InfV, nothing comes back *)
Definition mono (m m' : list slot) : Prop :=
  length m' = length m /\ forall j, slot_le (val m j) (val m' j) /\ (val m j = InfV -> val m' j = InfV).

Lemma mono_refl m : mono m m.
Proof. split; [reflexivity|]. intros j. split; [apply slot_le_refl|auto]. Qed.
Lemma mono_trans a b c : mono a b -> mono b c -> mono a c.
Proof.
  intros [L1 H1] [L2 H2]. split; [congruence|]. intros j. destruct (H1 j) as [A1 B1]. destruct (H2 j) as [A2 B2].
  split; [eapply slot_le_trans; eauto|auto].
Qed.

Lemma val_out m j : length m <= j -> val m j = InfV.
Proof. intros H. unfold val. apply nth_overflow. exact H. Qed.

Lemma iter_skip m m' : iter m = Skip m' -> mono m m' /\ exists i z, val m i = V z /\ val m' i = skipv.
Proof.
  unfold iter. destruct (argmin m) as [i|] eqn:Ea; [|discriminate].
  destruct (argmin_spec m i Ea) as [Hi _]. destruct (val m i) as [z| |] eqn:Ev; try discriminate.
  assert (G : mono m (set_at m i skipv) /\ exists i0 z0, val m i0 = V z0 /\ val (set_at m i skipv) i0 = skipv).
  { split.
    - split; [apply set_at_length|]. intros j. rewrite val_set_at by exact Hi.
      destruct (Nat.eqb_spec j i) as [->|Hne]; [rewrite Ev; split; [unfold skipv; destruct maxinf; reflexivity|discriminate]|split; [apply slot_le_refl|auto]].
    - exists i, z. split; [exact Ev|]. rewrite val_set_at by exact Hi. rewrite Nat.eqb_refl. reflexivity. }
  destruct (_ || _); [intros E; injection E as <-; exact G|].
  destruct (has_inf m (mb_of i) (i + 1)); [intros E; injection E as <-; exact G|discriminate].
Qed.

Lemma iter_yield m m' b e z : iter m = Yield m' b e z ->
  mono m m' /\ e < length m /\ val m e = V z /\ b = beg e /\
  (forall j, j < length m -> slot_le (V z) (val m j)) /\
  (forall j, mb_of e <= j < e + 1 -> val m j <> InfV /\ val m' j = InfV) /\
  (forall j, ~ (mb_of e <= j < e + 1) -> val m' j = val m j) /\
  minlength <= e - b + 1 /\ (forall mx, maxlength = Some mx -> e - b + 1 <= mx).
Proof.
  unfold iter. destruct (argmin m) as [i|] eqn:Ea; [|discriminate].
  destruct (argmin_spec m i Ea) as [Hi Hmin]. destruct (val m i) as [z0| |] eqn:Ev; try discriminate.
  destruct ((i - beg i + 1 <? minlength) || _) eqn:El; [discriminate|].
  destruct (has_inf m (mb_of i) (i + 1)) eqn:Eh; [discriminate|].
  intros E. injection E as <- <- <- <-.
  pose proof (has_inf_false _ _ _ Eh) as Hno.
  assert (Hval : forall j, val (mask m (mb_of i) (i + 1)) j = if (mb_of i <=? j) && (j <? i + 1) then InfV else val m j).
  { intros j. destruct (Nat.lt_ge_cases j (length m)) as [Hj|Hj]; [apply val_mask; exact Hj|].
    rewrite (val_out (mask _ _ _)) by (rewrite mask_length; exact Hj). rewrite (val_out m) by exact Hj.
    destruct (_ && _); reflexivity. }
  apply orb_false_iff in El. destruct El as [E1 E2]. apply Nat.ltb_ge in E1.
  repeat split.
  - apply mask_length.
  - rewrite Hval. destruct (_ && _); [apply slot_le_inf|apply slot_le_refl].
  - intros Hinf. rewrite Hval. destruct (_ && _); [reflexivity|exact Hinf].
  - exact Hi.
  - exact Ev.
  - intros j Hj. apply Hmin. exact Hj.
  - apply Hno. exact H.
  - rewrite Hval. destruct (Nat.leb_spec (mb_of i) j); destruct (Nat.ltb_spec j (i + 1)); try lia. reflexivity.
  - intros j Hj. rewrite Hval. destruct (Nat.leb_spec (mb_of i) j); destruct (Nat.ltb_spec j (i + 1)); try reflexivity. lia.
  - exact E1.
  - intros mx Emx. rewrite Emx in E2. apply Nat.ltb_ge in E2. exact E2.
Qed.

(* ------------------------------------------------------------ the yielded sequence *)
Definition yend (y : nat * nat * Z) : nat := snd (fst y).
Definition ybeg (y : nat * nat * Z) : nat := fst (fst y).
Definition yval (y : nat * nat * Z) : Z := snd y.

Definition kzero (k : option nat) : bool := match k with Some 0 => true | _ => false end.
Lemma run_S f k m : run (S f) k m =
  if kzero k then [] else
  match iter m with
  | Stop => []
  | Skip m' => run f k m'
  | Yield m' b e z => (b, e, z) :: run f (option_map pred k) m'
  end.
Proof. destruct k as [[|n]|]; reflexivity. Qed.

(* what every later yield of a run started in state m satisfies *)
Lemma run_yields : forall fuel k m y, In y (run fuel k m) ->
  ybeg y = beg (yend y) /\ yend y < length m /\ slot_le (val m (yend y)) (V (yval y)) /\
  (forall j, mb_of (yend y) <= j < yend y + 1 -> val m j <> InfV) /\
  minlength <= yend y - ybeg y + 1 /\ (forall mx, maxlength = Some mx -> yend y - ybeg y + 1 <= mx).
Proof.
  induction fuel as [|f IH]; intros k m y Hin; [destruct Hin|].
  rewrite run_S in Hin. destruct (kzero k); [destruct Hin|]. rename Hin into Hgo.
  destruct (iter m) as [|m'|m' b e z] eqn:Ei; [destruct Hgo| |].
  - destruct (iter_skip m m' Ei) as [[Hl Hm] _].
    destruct (IH k m' y Hgo) as (A & B & C & D & E & F).
    repeat split; try assumption; [lia|eapply slot_le_trans; [apply Hm|exact C]|].
    intros j Hj Hinf. apply (D j Hj). apply Hm. exact Hinf.
  - destruct (iter_yield m m' b e z Ei) as ([Hl Hm] & He & Hv & Hb & Hmin & Hmask & Hkeep & Hlo & Hhi).
    destruct Hgo as [<-|Hgo].
    + cbn [ybeg yend yval fst snd]. repeat split; try assumption.
      * rewrite Hv. apply slot_le_refl.
      * intros j Hj. apply Hmask. exact Hj.
    + destruct (IH _ m' y Hgo) as (A & B & C & D & E & F).
      repeat split; try assumption; [lia|eapply slot_le_trans; [apply Hm|exact C]|].
      intros j Hj Hinf. apply (D j Hj). apply Hm. exact Hinf.
Qed.

Fixpoint sorted_vals (l : list (nat * nat * Z)) : Prop :=
  match l with
  | [] => True
  | y :: t => (forall y', In y' t -> (yval y <= yval y')%Z) /\ sorted_vals t
  end.
Fixpoint pairwise (R : nat * nat * Z -> nat * nat * Z -> Prop) (l : list (nat * nat * Z)) : Prop :=
  match l with
  | [] => True
  | y :: t => (forall y', In y' t -> R y y') /\ pairwise R t
  end.

Definition masked_disjoint (y y' : nat * nat * Z) : Prop :=
  forall j, ~ (mb_of (yend y) <= j < yend y + 1 /\ mb_of (yend y') <= j < yend y' + 1).

Theorem run_ordered_and_disjoint : forall fuel k m,
  sorted_vals (run fuel k m) /\ pairwise masked_disjoint (run fuel k m) /\
  pairwise (fun y y' => yend y <> yend y') (run fuel k m).
Proof.
  induction fuel as [|f IH]; intros k m; [cbn; auto|].
  rewrite run_S. destruct (kzero k); [cbn; auto|].
  destruct (iter m) as [|m'|m' b e z] eqn:Ei; [cbn; auto|apply IH|].
  destruct (iter_yield m m' b e z Ei) as ([Hl Hm] & He & Hv & Hb & Hmin & Hmask & Hkeep & Hlo & Hhi).
  destruct (IH (option_map pred k) m') as (S1 & S2 & S3). set (rest := run f (option_map pred k) m') in *.
  assert (Hrest : forall y', In y' rest -> (z <= yval y')%Z /\ masked_disjoint (b, e, z) y' /\ e <> yend y').
  { intros y' Hy'. destruct (run_yields _ _ _ _ Hy') as (A & B & C & D & _).
    assert (Hz : slot_le (V z) (V (yval y'))).
    { eapply slot_le_trans; [apply (Hmin (yend y')); lia|]. eapply slot_le_trans; [apply Hm|exact C]. }
    split; [apply Z.leb_le; exact Hz|]. split.
    - intros j [J1 J2]. cbn [yend fst snd] in J1. apply (D j J2). apply Hmask. exact J1.
    - intros ->. pose proof (mb_le (yend y')). apply (D (yend y')); [lia|apply Hmask; lia]. }
  cbn [sorted_vals pairwise]. repeat split; try assumption; intros y' Hy'; apply Hrest; exact Hy'.
Qed.

Theorem kbest_spec k m :
  let ys := kbest k m in
  sorted_vals ys /\ pairwise (fun y y' => yend y <> yend y') ys /\ pairwise masked_disjoint ys /\
  (forall y, In y ys -> ybeg y = beg (yend y) /\ yend y < length m /\
                        minlength <= yend y - ybeg y + 1 /\ (forall mx, maxlength = Some mx -> yend y - ybeg y + 1 <= mx)) /\
  (forall n, k = Some n -> length ys <= n).
Proof.
  cbv zeta. unfold kbest. destruct (run_ordered_and_disjoint (S (length m)) k m) as (A & B & C).
  repeat split; try assumption.
  - apply (run_yields _ _ _ _ H).
  - apply (run_yields _ _ _ _ H).
  - apply (run_yields _ _ _ _ H).
  - intros mx Hmx. destruct (run_yields _ _ _ _ H) as (_ & _ & _ & _ & _ & F). apply F. exact Hmx.
  - intros n ->. assert (G : forall fuel m0 n0, length (run fuel (Some n0) m0) <= n0).
    { clear. induction fuel as [|f IH]; intros m0 n0; [simpl; lia|]. rewrite run_S. destruct n0 as [|n']; [simpl; lia|].
      cbn [kzero]. destruct (iter m0) as [|m'|m' b e z]; [simpl; lia|apply IH|].
      cbn [length option_map pred]. specialize (IH m' n'). lia. }
    apply G.
Qed.

(* termination: every iteration that does not stop retires at least one live entry *)
Fixpoint live (m : list slot) : nat := match m with [] => 0 | V _ :: t => S (live t) | _ :: t => live t end.

Lemma live_set_at : forall m i z v, (forall x, v <> V x) -> val m i = V z -> live (set_at m i v) < live m.
Proof.
  induction m as [|x t IH]; intros i z v Hv H; [unfold val in H; destruct i; discriminate|].
  destruct i as [|i]; cbn [set_at].
  - unfold val in H. cbn [nth] in H. subst x. destruct v as [x| |]; [exfalso; apply (Hv x); reflexivity| |]; cbn [live]; lia.
  - unfold val in H. cbn [nth] in H. specialize (IH i z v Hv H). destruct x; cbn [live]; lia.
Qed.
Lemma live_mask_le : forall m mb me, live (mask m mb me) <= live m.
Proof.
  induction m as [|x t IH]; intros mb me; [simpl; lia|]. cbn [mask].
  specialize (IH (pred mb) (pred me)). destruct ((mb =? 0) && (0 <? me)); destruct x; cbn [live]; lia.
Qed.
Lemma live_mask_lt : forall m mb me i z, mb <= i < me -> val m i = V z -> live (mask m mb me) < live m.
Proof.
  induction m as [|x t IH]; intros mb me i z Hi H; [unfold val in H; destruct i; discriminate|].
  cbn [mask]. destruct i as [|i].
  - unfold val in H. cbn [nth] in H. subst x. assert (mb = 0) by lia. subst mb.
    destruct me; [lia|]. cbn [Nat.eqb Nat.ltb Nat.leb andb live pred]. pose proof (live_mask_le t 0 me). lia.
  - unfold val in H. cbn [nth] in H.
    assert (Hlt : live (mask t (pred mb) (pred me)) < live t) by (apply (IH (pred mb) (pred me) i z); [lia|exact H]).
    destruct ((mb =? 0) && (0 <? me)); destruct x; cbn [live]; lia.
Qed.

Theorem iter_retires m : match iter m with
                         | Stop => True
                         | Skip m' => live m' < live m
                         | Yield m' _ _ _ => live m' < live m
                         end.
Proof.
  unfold iter. destruct (argmin m) as [i|] eqn:Ea; [|exact I].
  destruct (val m i) as [z| |] eqn:Ev; try exact I.
  assert (Hsv : forall x, skipv <> V x) by (unfold skipv; destruct maxinf; discriminate).
  destruct (_ || _); [apply (live_set_at m i z skipv Hsv Ev)|].
  destruct (has_inf m (mb_of i) (i + 1)); [apply (live_set_at m i z skipv Hsv Ev)|].
  apply (live_mask_lt m (mb_of i) (i + 1) i z); [pose proof (mb_le i); lia|exact Ev].
Qed.
End KBest.

(* overlap = 0: the masked range of a match of length >= 2 is (b, e]; disjoint ranges mean that two matches share
   at most one (boundary) sample *)
Theorem no_overlap_share_one_sample beg (beg_le : forall e, beg e <= e) y y' :
  masked_disjoint beg 0 y y' -> beg (yend y) < yend y -> beg (yend y') < yend y' ->
  forall p q, beg (yend y) <= p <= yend y -> beg (yend y') <= p <= yend y' ->
              beg (yend y) <= q <= yend y -> beg (yend y') <= q <= yend y' -> p = q.
Proof.
  unfold masked_disjoint, mb_of. intros H L1 L2 p q P1 P2 Q1 Q2.
  destruct (Nat.eqb_spec (yend y) (beg (yend y))); [lia|]. destruct (Nat.eqb_spec (yend y') (beg (yend y'))); [lia|].
  cbn [Nat.min] in H. rewrite !Nat.add_0_r in H.
  destruct (Nat.eq_dec p q) as [|Hne]; [assumption|exfalso].
  (* two different common samples: the larger one lies in both half-open ranges *)
  apply (H (Nat.max p q)). lia.
Qed.
