(* The four dtw_distance* kernels of dd_dtw.c, AS REGENERATED (Gen_cdist.v), return the specification
   value: the minimum over admissible warping paths (DtwSpec.dtw_value) cut at the bound in use, in the
   kernel's internal representation, and every array access they make is in range.
     regenerated kernel  =  canonical kernel            (CDistTie.v, by unfolding)
     canonical kernel    =  PyDist.distp_value          (CDistProofs.v, simulation of the two-row buffer)
     PyDist.distp_value  =  bounded B dtw_value         (PyDistPrune.v)
   This file instantiates the point distance of each variant and the decoding of the settings struct. *)
From Coq Require Import ZArith Bool List Lia.
From DV Require Import Prelude Cost Grid Dtw DtwSpec DtwProps Bounds Ndim Engines BandTie PyDist PyDistProofs Prune PyDistPrune
                       CLang CDistCanon CDistTie CDistProofs.
From DVGen Require Import Gen_cdist.
Import ListNotations.
Open Scope Z_scope.

(* ------------------------------------------------------------------ the result continuation of k_core *)
Lemma k_core_fin loop1 loop2 loop3 loop6 R (fin : cost -> bool -> R) junk l1 l2 p1e p2b p2e dl ldiff w md ms pen ok :
  k_core loop1 loop2 loop3 loop6 R fin junk l1 l2 p1e p2b p2e dl ldiff w md ms pen ok =
  (let '(res, ok') := k_core loop1 loop2 loop3 loop6 (cost * bool) pair junk l1 l2 p1e p2b p2e dl ldiff w md ms pen ok in fin res ok').
Proof.
  unfold k_core.
  match goal with |- context [@fold_left ?A ?B ?f ?l (amake ?j ?n, ok)] =>
    destruct (@fold_left A B f l (amake j n, ok)) as [dtw1 ok1] end.
  dfold_on (dtw1, ok1) ipattern:([dtw2 ok2]).
  match goal with |- context [@fold_left ?A ?B ?f ?l (dtw2, ?a, ?b, ?c, ok2, ?d, ?e, ?g)] =>
    destruct (@fold_left A B f l (dtw2, a, b, c, ok2, d, e, g)) as [[[[[[[dtw3 ec3] i03] i13] ok3] ps3] sc3] skip3] end.
  destruct (negb (p1e =? 0) || negb (p2e =? 0)); [|reflexivity].
  destruct (negb (p2e =? 0)); [|reflexivity].
  match goal with |- context [@fold_left ?A ?B ?f ?l (?o, ps3)] => destruct (@fold_left A B f l (o, ps3)) as [ok4 ps4] end.
  reflexivity.
Qed.

(* ------------------------------------------------------------------ settings struct -> model settings *)
Section Kernels.
Variables (s1 s2 : list point).
Variables (window p m mld : Z) (psi : (nat * nat) * (nat * nat)) (k : inner).
Variable junk : Z -> cost.
Local Notation r := (length s1).
Local Notation c := (length s2).
Local Notation zr := (Z.of_nat r).
Local Notation zc := (Z.of_nat c).

Definition cs_of : csettings :=
  {| c_window := window; c_penalty := p; c_max_step := m; c_max_length_diff := mld; c_psi := psi; c_inner := k |}.
Local Notation u := (c_to_u cs_of).

Hypothesis Hr : (1 <= r)%nat.
Hypothesis Hc : (1 <= c)%nat.
Hypothesis Hwin : 0 <= window.

Lemma c_window_decode : (if window =? 0 then Z.max zr zc else window) = eff_window u r c.
Proof. unfold eff_window, c_to_u, cs_of, offz; cbn. destruct (window =? 0); reflexivity. Qed.

Lemma c_window_pos : 1 <= eff_window u r c.
Proof. rewrite <- c_window_decode. destruct (Z.eqb_spec window 0); lia. Qed.

Lemma c_too_long : (negb (mld =? 0) && (snd (k_ldiff zr zc) >? mld)) = too_long u s1 s2.
Proof.
  unfold too_long, c_to_u, cs_of, offz, k_ldiff; cbn. unfold sr, sc.
  destruct (Z.eqb_spec mld 0); cbn [negb andb]; [reflexivity|].
  destruct (Z.gtb_spec zr zc); cbn [snd];
    match goal with |- (?a >? ?b) = (?x <? ?y) => destruct (Z.gtb_spec a b), (Z.ltb_spec x y); try reflexivity; lia end.
Qed.

Section WithDist.
Variables (dok : Z -> Z -> bool) (dfun : Z -> Z -> cost).
Hypothesis Hd : forall i j, (i < r)%nat -> (j < c)%nat ->
  dok (Z.of_nat i) (Z.of_nat j) = true /\
  dfun (Z.of_nat i) (Z.of_nat j) = Fin (pdist k (nth i s1 []) (nth j s2 [])).

Local Notation zp1b := (Z.of_nat (psi_1b u)).
Local Notation zp1e := (Z.of_nat (psi_1e u)).
Local Notation zp2b := (Z.of_nat (psi_2b u)).
Local Notation zp2e := (Z.of_nat (psi_2e u)).

(* the core with the canonical loop bodies, any result continuation *)
Lemma k_core_value R (fin : cost -> bool -> R) B :
  k_core k_loop1 k_loop2 (canon_loop3 dok dfun zp1b zp1e zr zc) k_loop6 R fin junk zr zc zp1e zp2b zp2e
         (fst (k_ldiff zr zc)) (snd (k_ldiff zr zc)) (eff_window u r c) B (adj_max_step u) (Fin (adj_penalty u)) true =
  fin (distp_value u s1 s2 B) true.
Proof.
  rewrite k_core_fin.
  pose proof (k_canon_refines u s1 s2 B dok dfun c_window_pos Hr Hc Hd junk) as H.
  unfold k_canon in H. unfold canon_loop3. rewrite H. reflexivity.
Qed.
End WithDist.
End Kernels.

(* ------------------------------------------------------------------ the two decodings *)
Section MainSq.
Variables (s1 s2 : list point) (window p m mld : Z) (psi : (nat * nat) * (nat * nat)) (junk : Z -> cost).
Local Notation r := (length s1).
Local Notation c := (length s2).
Local Notation zr := (Z.of_nat r).
Local Notation zc := (Z.of_nat c).
Local Notation u := (c_to_u (cs_of window p m mld psi SqEuclid)).
Hypothesis Hr : (1 <= r)%nat.
Hypothesis Hc : (1 <= c)%nat.
Hypothesis Hwin : 0 <= window.
Variables (dok : Z -> Z -> bool) (dfun : Z -> Z -> cost).
Hypothesis Hd : forall i j, (i < r)%nat -> (j < c)%nat ->
  dok (Z.of_nat i) (Z.of_nat j) = true /\ dfun (Z.of_nat i) (Z.of_nat j) = Fin (pdist SqEuclid (nth i s1 []) (nth j s2 [])).

Lemma c_max_step_sq : (if ceqb (Fin m) (Fin 0) then Inf else csq (Fin m)) = adj_max_step u.
Proof. unfold adj_max_step, c_to_u, cs_of, offz; cbn. destruct (m =? 0) eqn:E; cbn; [reflexivity|]. rewrite E. reflexivity. Qed.
Lemma c_penalty_sq : csq (Fin p) = Fin (adj_penalty u).
Proof. unfold adj_penalty, c_to_u, cs_of; cbn. destruct (Z.eqb_spec p 0); [subst; reflexivity|reflexivity]. Qed.

(* the bound the kernel works with *)
Definition c_bound_sq (prune : bool) (ced md : cost) : cost :=
  if prune then ced else if ceqb md (Fin 0) then Inf else csq md.

Theorem k_main_sq_value ce ced cub idist md prune : (idist =? 1) = false ->
  k_main_sq k_loop1 k_loop2 (canon_loop3 dok dfun (Z.of_nat (psi_1b u)) (Z.of_nat (psi_1e u)) zr zc) k_loop6
            ce ced cub junk zr zc idist md mld (Fin m) false (Fin p)
            (Z.of_nat (psi_1e u)) (Z.of_nat (psi_2b u)) (Z.of_nat (psi_2e u)) prune window =
  ((if too_long u s1 s2 then RPlain Inf else RSqrt (distp_value u s1 s2 (c_bound_sq prune ced md))), true).
Proof.
  intros Hid. unfold k_main_sq. rewrite Hid. cbv zeta. rewrite orb_false_r.
  pose proof (c_too_long s1 s2 window p m mld psi SqEuclid) as HT.
  pose proof (fun R fin B => k_core_value s1 s2 window p m mld psi SqEuclid junk Hr Hc Hwin dok dfun Hd R fin B) as HK.
  rewrite (c_window_decode s1 s2 window p m mld psi SqEuclid), c_max_step_sq, c_penalty_sq.
  destruct (k_ldiff zr zc) as [dl ldiff]. cbn [fst snd] in HT, HK. rewrite HT by assumption.
  unfold c_bound_sq. destruct prune.
  - destruct (too_long u s1 s2); [reflexivity|]. apply HK.
  - destruct (too_long u s1 s2); [reflexivity|]. apply HK.
Qed.
End MainSq.

Section MainEu.
Variables (s1 s2 : list point) (window p m mld : Z) (psi : (nat * nat) * (nat * nat)) (junk : Z -> cost).
Local Notation r := (length s1).
Local Notation c := (length s2).
Local Notation zr := (Z.of_nat r).
Local Notation zc := (Z.of_nat c).
Local Notation u := (c_to_u (cs_of window p m mld psi AbsDiff)).
Hypothesis Hr : (1 <= r)%nat.
Hypothesis Hc : (1 <= c)%nat.
Hypothesis Hwin : 0 <= window.
Variables (dok : Z -> Z -> bool) (dfun : Z -> Z -> cost).
Hypothesis Hd : forall i j, (i < r)%nat -> (j < c)%nat ->
  dok (Z.of_nat i) (Z.of_nat j) = true /\ dfun (Z.of_nat i) (Z.of_nat j) = Fin (pdist AbsDiff (nth i s1 []) (nth j s2 [])).

Lemma c_max_step_abs : (if ceqb (Fin m) (Fin 0) then Inf else Fin m) = adj_max_step u.
Proof. unfold adj_max_step, c_to_u, cs_of, offz; cbn. destruct (m =? 0) eqn:E; cbn; [reflexivity|]. rewrite E. reflexivity. Qed.
Lemma c_penalty_abs : Fin p = Fin (adj_penalty u).
Proof. unfold adj_penalty, c_to_u, cs_of; cbn. destruct (Z.eqb_spec p 0); [subst; reflexivity|reflexivity]. Qed.

Definition c_bound_eu (prune : bool) (cub md : cost) : cost :=
  if prune then cub else if ceqb md (Fin 0) then Inf else md.

Theorem k_main_eu_value cub md prune :
  k_main_eu k_loop1 k_loop2 (canon_loop3 dok dfun (Z.of_nat (psi_1b u)) (Z.of_nat (psi_1e u)) zr zc) k_loop6
            cub junk zr zc md mld (Fin m) false (Fin p)
            (Z.of_nat (psi_1e u)) (Z.of_nat (psi_2b u)) (Z.of_nat (psi_2e u)) prune window =
  ((if too_long u s1 s2 then RPlain Inf else RPlain (distp_value u s1 s2 (c_bound_eu prune cub md))), true).
Proof.
  unfold k_main_eu. cbv zeta. rewrite orb_false_r.
  pose proof (c_too_long s1 s2 window p m mld psi AbsDiff) as HT.
  pose proof (fun R fin B => k_core_value s1 s2 window p m mld psi AbsDiff junk Hr Hc Hwin dok dfun Hd R fin B) as HK.
  rewrite (c_window_decode s1 s2 window p m mld psi AbsDiff), c_max_step_abs, c_penalty_abs.
  destruct (k_ldiff zr zc) as [dl ldiff]. cbn [fst snd] in HT, HK. rewrite HT by assumption.
  unfold c_bound_eu. destruct prune.
  - destruct (too_long u s1 s2); [reflexivity|]. apply HK.
  - destruct (too_long u s1 s2); [reflexivity|]. apply HK.
Qed.
End MainEu.

(* ------------------------------------------------------------------ the point distances of the four variants *)
Lemma sget_nat s i : sget s (Z.of_nat i) = Fin (nth i s 0).
Proof. unfold sget. destruct (Z.ltb_spec (Z.of_nat i) 0); [lia|]. rewrite Nat2Z.id. reflexivity. Qed.

Lemma inb_nat n i : (i < n)%nat -> inb (Z.of_nat n) (Z.of_nat i) = true.
Proof. intros H. unfold inb. apply andb_true_intro. split; [apply Z.leb_le|apply Z.ltb_lt]; lia. Qed.

Section OneDim.
Variables f1 f2 : list Z.
Lemma scal_length s : length (scal s) = length s.
Proof. unfold scal. apply map_length. Qed.

Lemma dist_1d_sq i j : (i < length (scal f1))%nat -> (j < length (scal f2))%nat ->
  dok_1d (Z.of_nat (length (scal f1))) (Z.of_nat (length (scal f2))) (Z.of_nat i) (Z.of_nat j) = true /\
  dfun_sq_1d f1 f2 (Z.of_nat i) (Z.of_nat j) = Fin (pdist SqEuclid (nth i (scal f1) []) (nth j (scal f2) [])).
Proof.
  intros Hi Hj. unfold dok_1d, dfun_sq_1d. rewrite !inb_nat by assumption. split; [reflexivity|].
  rewrite scal_length in Hi, Hj. rewrite !nth_scal by assumption. rewrite !sget_nat, pdist_scalar. reflexivity.
Qed.

Lemma dist_1d_abs i j : (i < length (scal f1))%nat -> (j < length (scal f2))%nat ->
  dok_1d (Z.of_nat (length (scal f1))) (Z.of_nat (length (scal f2))) (Z.of_nat i) (Z.of_nat j) = true /\
  dfun_abs_1d f1 f2 (Z.of_nat i) (Z.of_nat j) = Fin (pdist AbsDiff (nth i (scal f1) []) (nth j (scal f2) [])).
Proof.
  intros Hi Hj. unfold dok_1d, dfun_abs_1d. rewrite !inb_nat by assumption. split; [reflexivity|].
  rewrite scal_length in Hi, Hj. rewrite !nth_scal by assumption. rewrite !sget_nat, pdist_scalar. reflexivity.
Qed.
End OneDim.

Lemma pdist_sq_firstn_S : forall k p q, (k < length p)%nat -> (k < length q)%nat ->
  pdist_sq (firstn (S k) p) (firstn (S k) q) =
  pdist_sq (firstn k p) (firstn k q) + (nth k p 0 - nth k q 0) * (nth k p 0 - nth k q 0).
Proof.
  induction k as [|k IH]; intros [|a p] [|b q] Hp Hq; cbn [length] in *; try lia.
  - cbn [firstn pdist_sq nth]. destruct p, q; cbn [pdist_sq]; lia.
  - change (firstn (S (S k)) (a :: p)) with (a :: firstn (S k) p). change (firstn (S (S k)) (b :: q)) with (b :: firstn (S k) q).
    change (firstn (S k) (a :: p)) with (a :: firstn k p). change (firstn (S k) (b :: q)) with (b :: firstn k q).
    cbn [pdist_sq nth]. rewrite IH by lia. lia.
Qed.

Section NDim.
Variables (s1 s2 : list point) (d : nat).
Hypothesis Hd1 : forall p, In p s1 -> length p = d.
Hypothesis Hd2 : forall p, In p s2 -> length p = d.
Local Notation r := (length s1).
Local Notation c := (length s2).
Local Notation f1 := (concat s1).
Local Notation f2 := (concat s2).

Lemma nd_acc_value i j : (i < r)%nat -> (j < c)%nat ->
  nd_acc (Z.of_nat r) (Z.of_nat c) (Z.of_nat d) f1 f2 (Z.of_nat i) (Z.of_nat j) =
  (Fin (pdist_sq (nth i s1 []) (nth j s2 [])), true).
Proof.
  intros Hi Hj. unfold nd_acc.
  assert (Lp : length (nth i s1 []) = d) by (apply Hd1, nth_In; exact Hi).
  assert (Lq : length (nth j s2 []) = d) by (apply Hd2, nth_In; exact Hj).
  pose (P := fun (k : nat) (st : cost * bool) =>
               st = (Fin (pdist_sq (firstn k (nth i s1 [])) (firstn k (nth j s2 []))), true)).
  assert (HP : P d (fold_left (nd_step (Z.of_nat i * Z.of_nat d) (Z.of_nat j * Z.of_nat d) (Z.of_nat r) (Z.of_nat c) (Z.of_nat d) f1 f2)
                      (zrange 0 (Z.of_nat d)) (Fin 0, true))).
  { apply fold_zrange_inv.
    - unfold P. cbn [firstn]. destruct (nth i s1 []), (nth j s2 []); reflexivity.
    - intros k st Hk ->. unfold P, nd_step.
      replace (Z.of_nat i * Z.of_nat d + Z.of_nat k) with (Z.of_nat (i * d + k)) by lia.
      replace (Z.of_nat j * Z.of_nat d + Z.of_nat k) with (Z.of_nat (j * d + k)) by lia.
      replace (Z.of_nat r * Z.of_nat d) with (Z.of_nat (r * d)) by lia.
      replace (Z.of_nat c * Z.of_nat d) with (Z.of_nat (c * d)) by lia.
      rewrite !inb_nat by nia. rewrite !sget_nat.
      rewrite (flatten_stride s1 d i k Hd1 Hi Hk), (flatten_stride s2 d j k Hd2 Hj Hk).
      rewrite pdist_sq_firstn_S by lia. cbn [cadd csedist andb]. reflexivity. }
  unfold P in HP. rewrite HP. rewrite <- Lp at 1. rewrite <- Lq. rewrite !firstn_all. reflexivity.
Qed.

Lemma dist_nd_sq i j : (i < r)%nat -> (j < c)%nat ->
  dok_nd (Z.of_nat r) (Z.of_nat c) (Z.of_nat d) f1 f2 (Z.of_nat i) (Z.of_nat j) = true /\
  dfun_sq_nd (Z.of_nat r) (Z.of_nat c) (Z.of_nat d) f1 f2 (Z.of_nat i) (Z.of_nat j) = Fin (pdist SqEuclid (nth i s1 []) (nth j s2 [])).
Proof. intros Hi Hj. unfold dok_nd, dfun_sq_nd. rewrite nd_acc_value by assumption. split; reflexivity. Qed.

Lemma dist_nd_abs i j : (i < r)%nat -> (j < c)%nat ->
  dok_nd (Z.of_nat r) (Z.of_nat c) (Z.of_nat d) f1 f2 (Z.of_nat i) (Z.of_nat j) = true /\
  dfun_abs_nd (Z.of_nat r) (Z.of_nat c) (Z.of_nat d) f1 f2 (Z.of_nat i) (Z.of_nat j) = Fin (pdist AbsDiff (nth i s1 []) (nth j s2 [])).
Proof. intros Hi Hj. unfold dok_nd, dfun_abs_nd. rewrite nd_acc_value by assumption. split; reflexivity. Qed.
End NDim.

(* ------------------------------------------------------------------ the four kernels *)
Definition psi4 (p1b p1e p2b p2e : nat) : (nat * nat) * (nat * nat) := ((p1b, p1e), (p2b, p2e)).

Section Final.
Variables (window p m mld : Z) (p1b p1e p2b p2e : nat) (junk : Z -> cost).
Hypothesis Hwin : 0 <= window.
Hypothesis Hp : 0 <= p.
Local Notation usq := (c_to_u (cs_of window p m mld (psi4 p1b p1e p2b p2e) SqEuclid)).
Local Notation uab := (c_to_u (cs_of window p m mld (psi4 p1b p1e p2b p2e) AbsDiff)).

Lemma pen_ok_cs k : pen_ok (c_to_u (cs_of window p m mld (psi4 p1b p1e p2b p2e) k)).
Proof. unfold pen_ok, c_to_u, cs_of; cbn. exact Hp. Qed.

(* dtw_distance: 1-D, squared Euclidean *)
Theorem c_dtw_distance_spec (f1 f2 : list Z) ce ced cub idist md prune :
  (1 <= length f1)%nat -> (1 <= length f2)%nat -> (p1b < length f1 \/ p2e < length f2)%nat -> (idist =? 1) = false ->
  c_dtw_distance ce ced cub junk f1 (Z.of_nat (length f1)) f2 (Z.of_nat (length f2)) idist md mld (Fin m) false (Fin p)
                 (Z.of_nat p1b) (Z.of_nat p1e) (Z.of_nat p2b) (Z.of_nat p2e) prune window =
  ((if too_long usq (scal f1) (scal f2) then RPlain Inf
    else RSqrt (bounded (c_bound_sq prune ced md) (dtw_value usq (scal f1) (scal f2)))), true).
Proof.
  intros H1 H2 Hpsi Hid. rewrite c_dtw_distance_is_canonical.
  rewrite <- (scal_length f1), <- (scal_length f2) in *.
  pose proof (k_main_sq_value (scal f1) (scal f2) window p m mld (psi4 p1b p1e p2b p2e) junk H1 H2 Hwin
                _ _ (dist_1d_sq f1 f2) ce ced cub idist md prune Hid) as HK.
  cbn [psi_1b psi_1e psi_2b psi_2e c_to_u cs_of psi4 u_psi c_psi fst snd] in HK. rewrite HK.
  rewrite (distp_value_is_bounded usq (scal f1) (scal f2) _ (c_window_pos _ _ _ _ _ _ _ _ H1 H2 Hwin) H1 H2 (pen_ok_cs SqEuclid) Hpsi).
  reflexivity.
Qed.

(* dtw_distance_euclidean: 1-D, absolute difference *)
Theorem c_dtw_distance_euclidean_spec (f1 f2 : list Z) cub md prune :
  (1 <= length f1)%nat -> (1 <= length f2)%nat -> (p1b < length f1 \/ p2e < length f2)%nat ->
  c_dtw_distance_euclidean cub junk f1 (Z.of_nat (length f1)) f2 (Z.of_nat (length f2)) md mld (Fin m) false (Fin p)
                 (Z.of_nat p1b) (Z.of_nat p1e) (Z.of_nat p2b) (Z.of_nat p2e) prune window =
  ((if too_long uab (scal f1) (scal f2) then RPlain Inf
    else RPlain (bounded (c_bound_eu prune cub md) (dtw_value uab (scal f1) (scal f2)))), true).
Proof.
  intros H1 H2 Hpsi. rewrite c_dtw_distance_euclidean_is_canonical.
  rewrite <- (scal_length f1), <- (scal_length f2) in *.
  pose proof (k_main_eu_value (scal f1) (scal f2) window p m mld (psi4 p1b p1e p2b p2e) junk H1 H2 Hwin
                _ _ (dist_1d_abs f1 f2) cub md prune) as HK.
  cbn [psi_1b psi_1e psi_2b psi_2e c_to_u cs_of psi4 u_psi c_psi fst snd] in HK. rewrite HK.
  rewrite (distp_value_is_bounded uab (scal f1) (scal f2) _ (c_window_pos _ _ _ _ _ _ _ _ H1 H2 Hwin) H1 H2 (pen_ok_cs AbsDiff) Hpsi).
  reflexivity.
Qed.

(* the n-dimensional kernels: series of d-dimensional points stored point after point *)
Section ND.
Variables (s1 s2 : list point) (d : nat).
Hypothesis Hd1 : forall q, In q s1 -> length q = d.
Hypothesis Hd2 : forall q, In q s2 -> length q = d.
Hypothesis H1 : (1 <= length s1)%nat.
Hypothesis H2 : (1 <= length s2)%nat.
Hypothesis Hpsi : (p1b < length s1 \/ p2e < length s2)%nat.

Theorem c_dtw_distance_ndim_spec ce ced cub idist md prune : (idist =? 1) = false ->
  c_dtw_distance_ndim ce ced cub junk (concat s1) (Z.of_nat (length s1)) (concat s2) (Z.of_nat (length s2)) (Z.of_nat d)
                 idist md mld (Fin m) false (Fin p) (Z.of_nat p1b) (Z.of_nat p1e) (Z.of_nat p2b) (Z.of_nat p2e) prune window =
  ((if too_long usq s1 s2 then RPlain Inf
    else RSqrt (bounded (c_bound_sq prune ced md) (dtw_value usq s1 s2))), true).
Proof.
  intros Hid. rewrite c_dtw_distance_ndim_is_canonical.
  pose proof (k_main_sq_value s1 s2 window p m mld (psi4 p1b p1e p2b p2e) junk H1 H2 Hwin
                _ _ (dist_nd_sq s1 s2 d Hd1 Hd2) ce ced cub idist md prune Hid) as HK.
  cbn [psi_1b psi_1e psi_2b psi_2e c_to_u cs_of psi4 u_psi c_psi fst snd] in HK. rewrite HK.
  rewrite (distp_value_is_bounded usq s1 s2 _ (c_window_pos _ _ _ _ _ _ _ _ H1 H2 Hwin) H1 H2 (pen_ok_cs SqEuclid) Hpsi).
  reflexivity.
Qed.

Theorem c_dtw_distance_ndim_euclidean_spec cub md prune :
  c_dtw_distance_ndim_euclidean cub junk (concat s1) (Z.of_nat (length s1)) (concat s2) (Z.of_nat (length s2)) (Z.of_nat d)
                 md mld (Fin m) false (Fin p) (Z.of_nat p1b) (Z.of_nat p1e) (Z.of_nat p2b) (Z.of_nat p2e) prune window =
  ((if too_long uab s1 s2 then RPlain Inf
    else RPlain (bounded (c_bound_eu prune cub md) (dtw_value uab s1 s2))), true).
Proof.
  rewrite c_dtw_distance_ndim_euclidean_is_canonical.
  pose proof (k_main_eu_value s1 s2 window p m mld (psi4 p1b p1e p2b p2e) junk H1 H2 Hwin
                _ _ (dist_nd_abs s1 s2 d Hd1 Hd2) cub md prune) as HK.
  cbn [psi_1b psi_1e psi_2b psi_2e c_to_u cs_of psi4 u_psi c_psi fst snd] in HK. rewrite HK.
  rewrite (distp_value_is_bounded uab s1 s2 _ (c_window_pos _ _ _ _ _ _ _ _ H1 H2 Hwin) H1 H2 (pen_ok_cs AbsDiff) Hpsi).
  reflexivity.
Qed.
End ND.
End Final.

(* ------------------------------------------------------------------ memory safety alone (C08): fewer hypotheses *)
Section Safety.
Variables (window p m mld : Z) (p1b p1e p2b p2e : nat) (junk : Z -> cost).
Hypothesis Hwin : 0 <= window.

Theorem c_dtw_distance_in_bounds (f1 f2 : list Z) ce ced cub idist md oub prune :
  (1 <= length f1)%nat -> (1 <= length f2)%nat ->
  snd (c_dtw_distance ce ced cub junk f1 (Z.of_nat (length f1)) f2 (Z.of_nat (length f2)) idist md mld (Fin m) oub (Fin p)
                      (Z.of_nat p1b) (Z.of_nat p1e) (Z.of_nat p2b) (Z.of_nat p2e) prune window) = true.
Proof.
  intros H1 H2. rewrite c_dtw_distance_is_canonical.
  destruct (idist =? 1) eqn:Hid; [unfold k_main_sq; rewrite Hid; reflexivity|].
  destruct oub; [unfold k_main_sq; rewrite Hid, orb_true_r; reflexivity|].
  rewrite <- (scal_length f1), <- (scal_length f2) in *.
  pose proof (k_main_sq_value (scal f1) (scal f2) window p m mld (psi4 p1b p1e p2b p2e) junk H1 H2 Hwin
                _ _ (dist_1d_sq f1 f2) ce ced cub idist md prune Hid) as HK.
  cbn [psi_1b psi_1e psi_2b psi_2e c_to_u cs_of psi4 u_psi c_psi fst snd] in HK. rewrite HK. reflexivity.
Qed.

Theorem c_dtw_distance_euclidean_in_bounds (f1 f2 : list Z) cub md oub prune :
  (1 <= length f1)%nat -> (1 <= length f2)%nat ->
  snd (c_dtw_distance_euclidean cub junk f1 (Z.of_nat (length f1)) f2 (Z.of_nat (length f2)) md mld (Fin m) oub (Fin p)
                      (Z.of_nat p1b) (Z.of_nat p1e) (Z.of_nat p2b) (Z.of_nat p2e) prune window) = true.
Proof.
  intros H1 H2. rewrite c_dtw_distance_euclidean_is_canonical.
  destruct oub; [unfold k_main_eu; rewrite orb_true_r; reflexivity|].
  rewrite <- (scal_length f1), <- (scal_length f2) in *.
  pose proof (k_main_eu_value (scal f1) (scal f2) window p m mld (psi4 p1b p1e p2b p2e) junk H1 H2 Hwin
                _ _ (dist_1d_abs f1 f2) cub md prune) as HK.
  cbn [psi_1b psi_1e psi_2b psi_2e c_to_u cs_of psi4 u_psi c_psi fst snd] in HK. rewrite HK. reflexivity.
Qed.

Theorem c_dtw_distance_ndim_in_bounds (s1 s2 : list point) (d : nat) ce ced cub idist md oub prune :
  (forall q, In q s1 -> length q = d) -> (forall q, In q s2 -> length q = d) ->
  (1 <= length s1)%nat -> (1 <= length s2)%nat ->
  snd (c_dtw_distance_ndim ce ced cub junk (concat s1) (Z.of_nat (length s1)) (concat s2) (Z.of_nat (length s2)) (Z.of_nat d)
                      idist md mld (Fin m) oub (Fin p) (Z.of_nat p1b) (Z.of_nat p1e) (Z.of_nat p2b) (Z.of_nat p2e) prune window) = true.
Proof.
  intros Hd1 Hd2 H1 H2. rewrite c_dtw_distance_ndim_is_canonical.
  destruct (idist =? 1) eqn:Hid; [unfold k_main_sq; rewrite Hid; reflexivity|].
  destruct oub; [unfold k_main_sq; rewrite Hid, orb_true_r; reflexivity|].
  pose proof (k_main_sq_value s1 s2 window p m mld (psi4 p1b p1e p2b p2e) junk H1 H2 Hwin
                _ _ (dist_nd_sq s1 s2 d Hd1 Hd2) ce ced cub idist md prune Hid) as HK.
  cbn [psi_1b psi_1e psi_2b psi_2e c_to_u cs_of psi4 u_psi c_psi fst snd] in HK. rewrite HK. reflexivity.
Qed.

Theorem c_dtw_distance_ndim_euclidean_in_bounds (s1 s2 : list point) (d : nat) cub md oub prune :
  (forall q, In q s1 -> length q = d) -> (forall q, In q s2 -> length q = d) ->
  (1 <= length s1)%nat -> (1 <= length s2)%nat ->
  snd (c_dtw_distance_ndim_euclidean cub junk (concat s1) (Z.of_nat (length s1)) (concat s2) (Z.of_nat (length s2)) (Z.of_nat d)
                      md mld (Fin m) oub (Fin p) (Z.of_nat p1b) (Z.of_nat p1e) (Z.of_nat p2b) (Z.of_nat p2e) prune window) = true.
Proof.
  intros Hd1 Hd2 H1 H2. rewrite c_dtw_distance_ndim_euclidean_is_canonical.
  destruct oub; [unfold k_main_eu; rewrite orb_true_r; reflexivity|].
  pose proof (k_main_eu_value s1 s2 window p m mld (psi4 p1b p1e p2b p2e) junk H1 H2 Hwin
                _ _ (dist_nd_abs s1 s2 d Hd1 Hd2) cub md prune) as HK.
  cbn [psi_1b psi_1e psi_2b psi_2e c_to_u cs_of psi4 u_psi c_psi fst snd] in HK. rewrite HK. reflexivity.
Qed.
End Safety.
