(* The shape shared by the four dtw_distance* kernels of dd_dtw.c.

   Gen_cdist.v holds the four kernels as tools/cfun.py regenerates them from the C text.  They differ in
   the point distance (1-D / strided n-D, squared / absolute) and in how thresholds are decoded; the
   row loop, the two-row buffer, the PrunedDTW bookkeeping and the psi scans are the same text.  This
   file states that common text ONCE, parameterised by the loop bodies, so that
     - CDistTie.v can show (by unfolding, no induction) that each regenerated kernel is an instance,
     - CDistProofs.v proves the instance with the canonical loop bodies equal to the as-written model
       of dtw.distance (PyDist.distp_value), which PyDistPrune.v proves equal to the specification. *)
From Coq Require Import ZArith Bool List Lia.
From DV Require Import Prelude Cost CLang.
Import ListNotations.
Open Scope Z_scope.
Open Scope bool_scope.

Definition st2 : Type := list cost * bool.                                  (* (dtw, ok) *)
Definition st5 : Type := list cost * Z * bool * Z * bool * bool.            (* (dtw, ec_next, ok, sc, smaller_found, brk) *)
Definition st3 : Type := list cost * Z * Z * Z * bool * cost * Z * Z.       (* (dtw, ec, i0, i1, ok, psi_shortest, sc, skip) *)
Definition st6 : Type := bool * cost.                                       (* (ok, psi_shortest) *)

(* for (j=0; j<length*2; j++) dtw[j] = INFINITY; *)
Definition k_loop1 (dtw_len : Z) (st : st2) (j : Z) : st2 :=
  let '(dtw, ok) := st in
  let ok := ok && inb dtw_len j in
  let dtw := aset dtw j Inf in
  (dtw, ok).

(* for (i=0; i<MIN(psi_2b+1, length); i++) dtw[i] = 0; *)
Definition k_loop2 (dtw_len : Z) (st : st2) (i : Z) : st2 :=
  let '(dtw, ok) := st in
  let ok := ok && inb dtw_len i in
  let dtw := aset dtw i (Fin 0) in
  (dtw, ok).

(* for (j=0; j<length; j++) dtw[length * i1 + j] = INFINITY; *)
Definition k_loop4 (dtw_len i1 length : Z) (st : st2) (j : Z) : st2 :=
  let '(dtw, ok) := st in
  let ok := ok && inb dtw_len ((length * i1) + j) in
  let dtw := aset dtw ((length * i1) + j) Inf in
  (dtw, ok).

(* the psi_2e scan of the last row *)
Definition k_loop6 (dtw : list cost) (dtw_len i1 length : Z) (st : st6) (i : Z) : st6 :=
  let '(ok, psi_shortest) := st in
  let ok := ok && inb dtw_len ((i1 * length) + i) in
  let '(ok, psi_shortest) := (if (cltb (aget dtw ((i1 * length) + i)) psi_shortest) then (
    let ok := ok && inb dtw_len ((i1 * length) + i) in
    let psi_shortest := (aget dtw ((i1 * length) + i)) in
    (ok, psi_shortest)) else (
    (ok, psi_shortest))) in
  (ok, psi_shortest).

Section Cell.
(* the point distance of the variant: d = dfun i j, computed with accesses that are in range iff dok i j *)
Variables (dok : Z -> Z -> bool) (dfun : Z -> Z -> cost).

(* for (j=maxj; j<minj; j++) { ... } *)
Definition k_loop5 (dtw_len ec i i0 i1 length : Z) (max_dist max_step penalty : cost) (skip skipp : Z)
                   (st : st5) (j : Z) : st5 :=
  let '(dtw, ec_next, ok, sc, smaller_found, brk) := st in
  if brk then st else
  let ok := ok && dok i j in
  let d := dfun i j in
  if (cltb max_step d) then (
  (dtw, ec_next, ok, sc, smaller_found, false)) else (
  let curidx := (((i0 * length) + j) - skipp) in
  let ok := ok && inb dtw_len curidx in
  let minv := (aget dtw curidx) in
  let curidx := (curidx + 1) in
  let ok := ok && inb dtw_len curidx in
  let tempv := (cadd (aget dtw curidx) penalty) in
  let minv := (if (cltb tempv minv) then tempv else minv) in
  let curidx := (((i1 * length) + j) - skip) in
  let ok := ok && inb dtw_len curidx in
  let tempv := (cadd (aget dtw curidx) penalty) in
  let minv := (if (cltb tempv minv) then tempv else minv) in
  let curidx := (curidx + 1) in
  let ok := ok && inb dtw_len curidx in
  let dtw := aset dtw curidx (cadd d minv) in
  let ok := ok && inb dtw_len curidx in
  let k2 := fun (ec_next : Z) (sc : Z) (smaller_found : bool) => (
  (dtw, ec_next, ok, sc, smaller_found, false)) in
  if (cltb max_dist (aget dtw curidx)) then (
  let sc := (if (negb smaller_found) then (j + 1) else sc) in
  if (j >=? ec) then (
  (dtw, ec_next, ok, sc, smaller_found, true)) else (
  k2 ec_next sc smaller_found)) else (
  let smaller_found := true in
  let ec_next := (j + 1) in
  k2 ec_next sc smaller_found)).
End Cell.

Section Rows.
(* loop bodies as parameters: reset of a row, cell loop (with the row number and offsets it needs) *)
Variable loop4 : Z -> Z -> Z -> st2 -> Z -> st2.                      (* dtw_len i1 length *)
Variable loop5 : Z -> Z -> Z -> Z -> Z -> Z -> cost -> cost -> cost -> Z -> Z -> st5 -> Z -> st5.
                 (* dtw_len ec i i0 i1 length max_dist max_step penalty skip skipp *)

(* for (i=0; i<l1; i++) { ... } *)
Definition k_loop3 (psi_1b psi_1e dl_window dtw_len l1 l2 ldiff_window length : Z) (max_dist max_step penalty : cost)
                   (st : st3) (i : Z) : st3 :=
  let '(dtw, ec, i0, i1, ok, psi_shortest, sc, skip) := st in
  let maxj := ((i - dl_window) * (if (i >? dl_window) then 1 else 0)) in
  let minj := (i + ldiff_window) in
  let minj := (if (minj >? l2) then l2 else minj) in
  let skipp := skip in
  let skip := maxj in
  let i0 := (1 - i0) in
  let i1 := (1 - i1) in
  let '(dtw, ok) := fold_left (loop4 dtw_len i1 length) (zrange 0 length) (dtw, ok) in
  let skip := (skip * (if (negb (length =? (l2 + 1))) then 1 else 0)) in
  let sc := (if (i <=? psi_1b) then 0 else sc) in
  let maxj := (if (sc >? maxj) then sc else maxj) in
  let smaller_found := false in
  let ec_next := i in
  let '(dtw, ok) := (if (((negb (psi_1b =? 0)) && (maxj =? 0)) && (i <? psi_1b)) then (
    let ok := ok && inb dtw_len ((i1 * length) + 0) in
    let dtw := aset dtw ((i1 * length) + 0) (Fin 0) in
    (dtw, ok)) else (
    (dtw, ok))) in
  let '(dtw, ec_next, ok, sc, smaller_found, _) :=
    fold_left (loop5 dtw_len ec i i0 i1 length max_dist max_step penalty skip skipp) (zrange maxj minj)
              (dtw, ec_next, ok, sc, smaller_found, false) in
  let ec := ec_next in
  let '(ok, psi_shortest) := (if (((negb (psi_1e =? 0)) && (minj =? l2)) && (((l1 - 1) - i) <=? psi_1e)) then (
    let ok := ok && inb dtw_len (((i1 * length) + l2) - skip) in
    let '(ok, psi_shortest) := (if (cltb (aget dtw (((i1 * length) + l2) - skip)) psi_shortest) then (
      let ok := ok && inb dtw_len (((i1 * length) + l2) - skip) in
      let psi_shortest := (aget dtw (((i1 * length) + l2) - skip)) in
      (ok, psi_shortest)) else (
      (ok, psi_shortest))) in
    (ok, psi_shortest)) else (
    (ok, psi_shortest))) in
  (dtw, ec, i0, i1, ok, psi_shortest, sc, skip).
End Rows.

Section Core.
Variable loop1 : Z -> st2 -> Z -> st2.
Variable loop2 : Z -> st2 -> Z -> st2.
Variable loop3 : Z -> Z -> Z -> Z -> cost -> cost -> cost -> st3 -> Z -> st3.
                 (* dl_window dtw_len ldiff_window length max_dist max_step penalty *)
Variable loop6 : list cost -> Z -> Z -> Z -> st6 -> Z -> st6.         (* dtw dtw_len i1 length *)
Variable R : Type.
Variable fin : cost -> bool -> R.                                     (* what the kernel does with (result, ok) *)

(* from `idx_t length = ...` to the comparison of the result with the bound *)
Definition k_core (junk_dtw : Z -> cost) (l1 l2 psi_1e psi_2b psi_2e dl ldiff window : Z)
                  (max_dist max_step penalty : cost) (ok : bool) : R :=
  let sc := 0 in
  let ec := psi_2b in
  let length := (Z.min (l2 + 1) ((ldiff + (2 * window)) + 1)) in
  let dtw_len := (length * 2) in
  let dtw := amake junk_dtw dtw_len in
  let '(dtw, ok) := fold_left (loop1 dtw_len) (zrange 0 (length * 2)) (dtw, ok) in
  let '(dtw, ok) := fold_left (loop2 dtw_len) (zrange 0 (Z.min (psi_2b + 1) length)) (dtw, ok) in
  let skip := 0 in
  let i0 := 1 in
  let i1 := 0 in
  let dl_window := ((dl + window) - 1) in
  let ldiff_window := window in
  let ldiff_window := (if (l2 >? l1) then (ldiff_window + ldiff) else ldiff_window) in
  let psi_shortest := Inf in
  let '(dtw, ec, i0, i1, ok, psi_shortest, sc, skip) :=
    fold_left (loop3 dl_window dtw_len ldiff_window length max_dist max_step penalty) (zrange 0 l1)
              (dtw, ec, i0, i1, ok, psi_shortest, sc, skip) in
  let l2 := (if ((window - 1) <? 0) then (l2 + (window - 1)) else l2) in
  let ok := ok && inb dtw_len (((length * i1) + l2) - skip) in
  let result := (aget dtw (((length * i1) + l2) - skip)) in
  let '(ok, result) := (if ((negb (psi_1e =? 0)) || (negb (psi_2e =? 0))) then (
    let '(ok, psi_shortest) := (if (negb (psi_2e =? 0)) then (
      let '(ok, psi_shortest) :=
        fold_left (loop6 dtw dtw_len i1 length) (zrange (Z.max 0 ((l2 - skip) - psi_2e)) ((l2 - skip) + 1)) (ok, psi_shortest) in
      (ok, psi_shortest)) else (
      (ok, psi_shortest))) in
    let result := psi_shortest in
    (ok, result)) else (
    (ok, result))) in
  let result := (if (cltb max_dist result) then Inf else result) in
  fin result ok.
End Core.

(* the length difference as the kernels compute it *)
Definition k_ldiff (l1 l2 : Z) : Z * Z :=                                  (* (dl, ldiff) *)
  if (l1 >? l2) then (l1 - l2, l1 - l2) else (0, l2 - l1).

(* the canonical kernel: all loop bodies canonical *)
Definition k_canon (dok : Z -> Z -> bool) (dfun : Z -> Z -> cost) (junk_dtw : Z -> cost)
                   (l1 l2 psi_1b psi_1e psi_2b psi_2e dl ldiff window : Z) (max_dist max_step penalty : cost) : cost * bool :=
  k_core k_loop1 k_loop2
         (fun dl_window dtw_len ldiff_window length max_dist max_step penalty =>
            k_loop3 k_loop4 (k_loop5 dok dfun) psi_1b psi_1e dl_window dtw_len l1 l2 ldiff_window length max_dist max_step penalty)
         k_loop6 (cost * bool) pair junk_dtw l1 l2 psi_1e psi_2b psi_2e dl ldiff window max_dist max_step penalty true.

(* ---------------------------------------------------------------- congruence: pointwise equal loop bodies *)
Lemma fold_left_ext {A B} (f g : A -> B -> A) (l : list B) (a : A) :
  (forall a b, f a b = g a b) -> fold_left f l a = fold_left g l a.
Proof. intros H. revert a. induction l as [|x l IH]; intros a; cbn [fold_left]; [reflexivity|]. rewrite H. apply IH. Qed.

Ltac dfold_on a pat :=
  match goal with |- context [@fold_left ?A ?B ?f ?l a] => destruct (@fold_left A B f l a) as pat end.

Lemma k_loop3_ext loop4 loop4' loop5 loop5' :
  (forall a b c st j, loop4 a b c st j = loop4' a b c st j) ->
  (forall a b c d e f g h i j k st x, loop5 a b c d e f g h i j k st x = loop5' a b c d e f g h i j k st x) ->
  forall p1 p2 p3 p4 p5 p6 p7 p8 c1 c2 c3 st i,
    k_loop3 loop4 loop5 p1 p2 p3 p4 p5 p6 p7 p8 c1 c2 c3 st i = k_loop3 loop4' loop5' p1 p2 p3 p4 p5 p6 p7 p8 c1 c2 c3 st i.
Proof.
  intros H4 H5 p1 p2 p3 p4 p5 p6 p7 p8 c1 c2 c3 st i.
  destruct st as [[[[[[[dtw ec] i0] i1] ok] ps] sc] skip]. unfold k_loop3.
  rewrite (fold_left_ext _ _ _ _ (H4 _ _ _)).
  dfold_on (dtw, ok) ipattern:([dtw1 ok1]).
  match goal with |- context [if ?c then _ else (dtw1, ok1)] => destruct c end;
    rewrite (fold_left_ext _ _ _ _ (H5 _ _ _ _ _ _ _ _ _ _ _)); reflexivity.
Qed.

Lemma k_core_ext loop1 loop1' loop2 loop2' loop3 loop3' loop6 loop6' R (fin : cost -> bool -> R) :
  (forall a st j, loop1 a st j = loop1' a st j) ->
  (forall a st j, loop2 a st j = loop2' a st j) ->
  (forall a b c d e f g st j, loop3 a b c d e f g st j = loop3' a b c d e f g st j) ->
  (forall a b c d st j, loop6 a b c d st j = loop6' a b c d st j) ->
  forall junk l1 l2 p1e p2b p2e dl ldiff w md ms pen ok,
    k_core loop1 loop2 loop3 loop6 R fin junk l1 l2 p1e p2b p2e dl ldiff w md ms pen ok =
    k_core loop1' loop2' loop3' loop6' R fin junk l1 l2 p1e p2b p2e dl ldiff w md ms pen ok.
Proof.
  intros H1 H2 H3 H6 junk l1 l2 p1e p2b p2e dl ldiff w md ms pen ok. unfold k_core.
  rewrite (fold_left_ext _ _ _ _ (H1 _)).
  match goal with |- context [@fold_left ?A ?B ?f ?l (amake ?j ?n, ok)] =>
    destruct (@fold_left A B f l (amake j n, ok)) as [dtw1 ok1] end.
  rewrite (fold_left_ext _ _ _ _ (H2 _)).
  dfold_on (dtw1, ok1) ipattern:([dtw2 ok2]).
  rewrite (fold_left_ext _ _ _ _ (H3 _ _ _ _ _ _ _)).
  match goal with |- context [@fold_left ?A ?B ?f ?l (dtw2, ?a, ?b, ?c, ok2, ?d, ?e, ?g)] =>
    destruct (@fold_left A B f l (dtw2, a, b, c, ok2, d, e, g)) as [[[[[[[dtw3 ec3] i03] i13] ok3] ps3] sc3] skip3] end.
  destruct (negb (p1e =? 0) || negb (p2e =? 0)); [|reflexivity].
  destruct (negb (p2e =? 0)); [|reflexivity].
  rewrite (fold_left_ext _ _ _ _ (H6 _ _ _ _)). reflexivity.
Qed.

(* ---------------------------------------------------------------- the two decodings around the core *)
Section Mains.
Variable loop1 : Z -> st2 -> Z -> st2.
Variable loop2 : Z -> st2 -> Z -> st2.
Variable loop3 : Z -> Z -> Z -> Z -> cost -> cost -> cost -> st3 -> Z -> st3.
Variable loop6 : list cost -> Z -> Z -> Z -> st6 -> Z -> st6.

(* dtw_distance / dtw_distance_ndim: thresholds and penalty are squared, the result is square-rooted *)
Definition k_main_sq (call_e call_ed call_ub : cost) (junk_dtw : Z -> cost) (l1 l2 inner_dist : Z) (max_dist : cost)
                     (mld : Z) (max_step : cost) (only_ub : bool) (penalty : cost) (psi_1e psi_2b psi_2e : Z)
                     (use_pruning : bool) (window : Z) : cret * bool :=
  if (inner_dist =? 1) then (RPlain call_e, true) else
  let K := fun (max_dist : cost) =>
    let '(dl, ldiff) := k_ldiff l1 l2 in
    if ((negb (mld =? 0)) && (ldiff >? mld)) then (RPlain Inf, true) else
    let window := (if (window =? 0) then (Z.max l1 l2) else window) in
    let max_step := (if (ceqb max_step (Fin 0)) then Inf else (csq max_step)) in
    let penalty := (csq penalty) in
    k_core loop1 loop2 loop3 loop6 (cret * bool) (fun result ok => (RSqrt result, ok))
           junk_dtw l1 l2 psi_1e psi_2b psi_2e dl ldiff window max_dist max_step penalty true in
  if (use_pruning || only_ub) then (if only_ub then (RPlain call_ub, true) else K call_ed)
  else K (if (ceqb max_dist (Fin 0)) then Inf else (csq max_dist)).

(* dtw_distance_euclidean / dtw_distance_ndim_euclidean: nothing is squared, the result is returned as is *)
Definition k_main_eu (call_ub : cost) (junk_dtw : Z -> cost) (l1 l2 : Z) (max_dist : cost)
                     (mld : Z) (max_step : cost) (only_ub : bool) (penalty : cost) (psi_1e psi_2b psi_2e : Z)
                     (use_pruning : bool) (window : Z) : cret * bool :=
  let K := fun (max_dist : cost) =>
    let '(dl, ldiff) := k_ldiff l1 l2 in
    if ((negb (mld =? 0)) && (ldiff >? mld)) then (RPlain Inf, true) else
    let window := (if (window =? 0) then (Z.max l1 l2) else window) in
    let max_step := (if (ceqb max_step (Fin 0)) then Inf else max_step) in
    k_core loop1 loop2 loop3 loop6 (cret * bool) (fun result ok => (RPlain result, ok))
           junk_dtw l1 l2 psi_1e psi_2b psi_2e dl ldiff window max_dist max_step penalty true in
  if (use_pruning || only_ub) then (if only_ub then (RPlain call_ub, true) else K call_ub)
  else K (if (ceqb max_dist (Fin 0)) then Inf else max_dist).
End Mains.

Lemma k_main_sq_ext loop1 loop1' loop2 loop2' loop3 loop3' loop6 loop6' :
  (forall a st j, loop1 a st j = loop1' a st j) ->
  (forall a st j, loop2 a st j = loop2' a st j) ->
  (forall a b c d e f g st j, loop3 a b c d e f g st j = loop3' a b c d e f g st j) ->
  (forall a b c d st j, loop6 a b c d st j = loop6' a b c d st j) ->
  forall ce ced cub junk l1 l2 idist md mld ms oub pen p1e p2b p2e prune w,
    k_main_sq loop1 loop2 loop3 loop6 ce ced cub junk l1 l2 idist md mld ms oub pen p1e p2b p2e prune w =
    k_main_sq loop1' loop2' loop3' loop6' ce ced cub junk l1 l2 idist md mld ms oub pen p1e p2b p2e prune w.
Proof.
  intros H1 H2 H3 H6 ce ced cub junk l1 l2 idist md mld ms oub pen p1e p2b p2e prune w. unfold k_main_sq.
  destruct (idist =? 1); [reflexivity|]. cbv zeta.
  destruct (k_ldiff l1 l2) as [dl ldiff].
  destruct (negb (mld =? 0) && (ldiff >? mld)); [reflexivity|].
  rewrite !(k_core_ext _ _ _ _ _ _ _ _ _ _ H1 H2 H3 H6). reflexivity.
Qed.

Lemma k_main_eu_ext loop1 loop1' loop2 loop2' loop3 loop3' loop6 loop6' :
  (forall a st j, loop1 a st j = loop1' a st j) ->
  (forall a st j, loop2 a st j = loop2' a st j) ->
  (forall a b c d e f g st j, loop3 a b c d e f g st j = loop3' a b c d e f g st j) ->
  (forall a b c d st j, loop6 a b c d st j = loop6' a b c d st j) ->
  forall cub junk l1 l2 md mld ms oub pen p1e p2b p2e prune w,
    k_main_eu loop1 loop2 loop3 loop6 cub junk l1 l2 md mld ms oub pen p1e p2b p2e prune w =
    k_main_eu loop1' loop2' loop3' loop6' cub junk l1 l2 md mld ms oub pen p1e p2b p2e prune w.
Proof.
  intros H1 H2 H3 H6 cub junk l1 l2 md mld ms oub pen p1e p2b p2e prune w. unfold k_main_eu. cbv zeta.
  destruct (k_ldiff l1 l2) as [dl ldiff].
  destruct (negb (mld =? 0) && (ldiff >? mld)); [reflexivity|].
  rewrite !(k_core_ext _ _ _ _ _ _ _ _ _ _ H1 H2 H3 H6). reflexivity.
Qed.
