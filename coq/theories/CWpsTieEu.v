(* CWpsTie.v for the Euclidean twin: the four row loops of dtw_warping_paths_ndim_euclidean = head + shared core. *)
From Coq Require Import ZArith Bool List Lia.
From DV Require Import Prelude Cost CLang CDistCanon CWpsCanon CWpsCanonEu CWpsKernel CWpsTie.
From DVGen Require Import Gen_cwpsk.
Import ListNotations.
Open Scope Z_scope.
Open Scope bool_scope.

Section Rows.
Variables (psi_1b l1 l2 ndim : Z) (md ms pen : cost) (pw : Z) (s1 s2 : list Z) (wl : Z).
Local Notation cellA ri rw rwp := (fun ec => k_wcell (wdok l1 l2 ndim s1 s2 (ri * ndim)) (wdfun_eu l1 l2 ndim s1 s2 (ri * ndim)) fdA fuA ec md ms pen rw rwp wl).
Local Notation cellC ri rw rwp := (fun ec => k_wcell (wdok l1 l2 ndim s1 s2 (ri * ndim)) (wdfun_eu l1 l2 ndim s1 s2 (ri * ndim)) fdC fuC ec md ms pen rw rwp wl).

(* region A: for (ri=0; ri<p.ri1; ri++) *)
Lemma tie_eu_rowA min_ci st ri :
  c_dtw_warping_paths_ndim_euclidean_loop5 psi_1b l1 l2 min_ci ndim md ms pen pw s1 s2 wl st ri =
  (let '(ec, max_ci, ok, ri_width, ri_widthp, sc, wps) := st in
   k_wrow_core k_wskip (cellA ri ri_width ri_widthp) k_wfill psi_1b ri min_ci max_ci pw wl ri_width ec ok sc wps 1
     (fun ec ok sc wps => (ec, max_ci + 1, ok, ri_width + pw, ri_width, sc, wps))).
Proof.
  destruct st as [[[[[[ec max_ci] ok] ri_width] ri_widthp] sc] wps].
  transitivity (k_wrow_core c_dtw_warping_paths_ndim_euclidean_loop6
                  (fun ec => c_dtw_warping_paths_ndim_euclidean_loop7 ec l1 l2 ndim md ms pen (ri * ndim) ri_width ri_widthp s1 s2 wl)
                  c_dtw_warping_paths_ndim_euclidean_loop9 psi_1b ri min_ci max_ci pw wl ri_width ec ok sc wps 1
                  (fun ec ok sc wps => (ec, max_ci + 1, ok, ri_width + pw, ri_width, sc, wps))).
  - reflexivity.
  - apply k_wrow_core_ext; intros; [apply tie_eu_skip6|apply tie_eu_cell7|apply tie_eu_fill9].
Qed.

(* region B: for (ri=p.ri1; ri<p.ri2; ri++) *)
Lemma tie_eu_rowB max_ci min_ci st ri :
  c_dtw_warping_paths_ndim_euclidean_loop10 psi_1b l1 l2 max_ci min_ci ndim md ms pen pw s1 s2 wl st ri =
  (let '(ec, ok, ri_width, ri_widthp, sc, wps) := st in
   k_wrow_core k_wskip (cellA ri ri_width ri_widthp) k_wfill psi_1b ri min_ci max_ci pw wl ri_width ec ok sc wps 1
     (fun ec ok sc wps => (ec, ok, ri_width + pw, ri_width, sc, wps))).
Proof.
  destruct st as [[[[[ec ok] ri_width] ri_widthp] sc] wps].
  transitivity (k_wrow_core c_dtw_warping_paths_ndim_euclidean_loop11
                  (fun ec => c_dtw_warping_paths_ndim_euclidean_loop12 ec l1 l2 ndim md ms pen (ri * ndim) ri_width ri_widthp s1 s2 wl)
                  c_dtw_warping_paths_ndim_euclidean_loop14 psi_1b ri min_ci max_ci pw wl ri_width ec ok sc wps 1
                  (fun ec ok sc wps => (ec, ok, ri_width + pw, ri_width, sc, wps))).
  - reflexivity.
  - apply k_wrow_core_ext; intros; [apply tie_eu_skip11|apply tie_eu_cell12|apply tie_eu_fill14].
Qed.

(* region C: for (ri=p.ri2; ri<p.ri3; ri++), slot 0 of the row is set to infinity first *)
Lemma tie_eu_rowC st ri :
  c_dtw_warping_paths_ndim_euclidean_loop15 psi_1b l1 l2 ndim md ms pen pw s1 s2 wl st ri =
  (let '(ec, max_ci, min_ci, ok, ri_width, ri_widthp, sc, wps) := st in
   k_wrow_core k_wskip (cellC ri ri_width ri_widthp) k_wfill psi_1b ri min_ci max_ci pw wl ri_width ec
     (ok && inb wl ri_width) sc (aset wps ri_width Inf) 1
     (fun ec ok sc wps => (ec, max_ci + 1, min_ci + 1, ok, ri_width + pw, ri_width, sc, wps))).
Proof.
  destruct st as [[[[[[[ec max_ci] min_ci] ok] ri_width] ri_widthp] sc] wps].
  transitivity (k_wrow_core c_dtw_warping_paths_ndim_euclidean_loop16
                  (fun ec => c_dtw_warping_paths_ndim_euclidean_loop17 ec l1 l2 ndim md ms pen (ri * ndim) ri_width ri_widthp s1 s2 wl)
                  c_dtw_warping_paths_ndim_euclidean_loop19 psi_1b ri min_ci max_ci pw wl ri_width ec
                  (ok && inb wl ri_width) sc (aset wps ri_width Inf) 1
                  (fun ec ok sc wps => (ec, max_ci + 1, min_ci + 1, ok, ri_width + pw, ri_width, sc, wps))).
  - reflexivity.
  - apply k_wrow_core_ext; intros; [apply tie_eu_skip16|apply tie_eu_cell17|apply tie_eu_fill19].
Qed.

(* region D: for (ri=p.ri3; ri<l1; ri++), the slots left of the first cell are filled with infinity first *)
Lemma tie_eu_rowD st ri :
  c_dtw_warping_paths_ndim_euclidean_loop20 psi_1b l1 l2 ndim md ms pen pw s1 s2 wl st ri =
  (let '(ec, min_ci, ok, ri_width, ri_widthp, sc, wps, wpsi_start) := st in
   let '(ok, wps) := fold_left (k_wfill wl) (zrange ri_width (ri_width + wpsi_start)) (ok, wps) in
   k_wrow_core k_wskip (cellA ri ri_width ri_widthp) k_wfill psi_1b ri min_ci l2 pw wl ri_width ec ok sc wps wpsi_start
     (fun ec ok sc wps => (ec, min_ci + 1, ok, ri_width + pw, ri_width, sc, wps, wpsi_start + 1))).
Proof.
  destruct st as [[[[[[[ec min_ci] ok] ri_width] ri_widthp] sc] wps] wpsi_start].
  transitivity (let '(ok, wps) := fold_left (c_dtw_warping_paths_ndim_euclidean_loop21 wl) (zrange ri_width (ri_width + wpsi_start)) (ok, wps) in
                k_wrow_core c_dtw_warping_paths_ndim_euclidean_loop22
                  (fun ec => c_dtw_warping_paths_ndim_euclidean_loop23 ec l1 l2 ndim md ms pen (ri * ndim) ri_width ri_widthp s1 s2 wl)
                  c_dtw_warping_paths_ndim_euclidean_loop25 psi_1b ri min_ci l2 pw wl ri_width ec ok sc wps wpsi_start
                  (fun ec ok sc wps => (ec, min_ci + 1, ok, ri_width + pw, ri_width, sc, wps, wpsi_start + 1))).
  - reflexivity.
  - rewrite (fold_left_ext _ _ _ _ (tie_eu_fill21 _)).
    destruct (fold_left (k_wfill wl) (zrange ri_width (ri_width + wpsi_start)) (ok, wps)) as [ok1 wps1].
    apply k_wrow_core_ext; intros; [apply tie_eu_skip22|apply tie_eu_cell23|apply tie_eu_fill25].
Qed.
End Rows.
