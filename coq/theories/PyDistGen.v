(* dtw.distance AS REGENERATED (Gen_pydist.v: the function body translated whole by tools/pyfun.py - flat
   two-row buffer in an array.array, per-row skip, sc / ec / ec_next / smaller_found / break, psi prologue and
   scans, asserts and subscripts collected in `ok`) computes what the hand-written as-written model
   PyDist.distp_value computes, which PyDistPrune.v proves equal to the specification value cut at the bound.
   The simulation argument is the one of CDistProofs.v (rows i0 / i1 of the flat buffer = the model's prev / cur). *)
From Coq Require Import ZArith Bool List Lia.
From DV Require Import Prelude Cost Grid Dtw DtwSpec DtwProps BandTie PyDist PyDistProofs Prune PyDistPrune CLang CDistCanon CDistProofs CDistSpec.
From DVGen Require Import Gen_dtw Gen_pydist.
Import ListNotations.
Open Scope Z_scope.

Section Refine.
Variable u : usettings.
Variables s1 s2 : list point.
Variable B : cost.
Variable idist : Z -> Z -> cost.
Variables f1 f2 : list Z.                      (* the series as the subscripts see them; only their length matters *)
Local Notation r := (length s1).
Local Notation c := (length s2).
Local Notation w := (eff_window u r c).
Local Notation zr := (Z.of_nat r).
Local Notation zc := (Z.of_nat c).
Hypothesis Hw : 1 <= w.
Hypothesis Hr : (1 <= r)%nat.
Hypothesis Hc : (1 <= c)%nat.
Hypothesis Hd : forall i j, (i < r)%nat -> (j < c)%nat ->
  idist (Z.of_nat i) (Z.of_nat j) = Fin (pdist (u_inner u) (nth i s1 []) (nth j s2 [])).

Local Notation LL := (L u s1 s2).
Local Notation zL := (Z.of_nat (L u s1 s2)).
Local Notation sk := (skip_of u s1 s2).
Local Notation jS := (js u s1 s2).
Local Notation jE := (je u s1 s2).
Local Notation ms := (adj_max_step u).
Local Notation pen := (Fin (adj_penalty u)).

Lemma inb_row2 b q : (b = 0 \/ b = 1) -> (q < LL)%nat -> inb (2 * zL) (b * zL + Z.of_nat q) = true.
Proof.
  intros Hb Hq. unfold inb. destruct Hb; subst b; apply andb_true_intro; split;
    [apply Z.leb_le|apply Z.ltb_lt|apply Z.leb_le|apply Z.ltb_lt]; lia.
Qed.

(* ------------------------------------------------------------------ the cell loop *)
Section CellLoop.
Variables (i : nat) (i0 i1 : Z) (skipp skip : nat) (prev : list cost) (ec : nat).
Hypothesis Hi : (i < r)%nat.
Hypothesis Hi1 : i1 = 0 \/ i1 = 1.
Hypothesis Hi0 : i0 = 1 - i1.

Lemma py_loop4_step j cst pst :
  (j < c)%nat -> (skipp <= j)%nat -> (j + 1 - skipp < LL)%nat -> (skip <= j)%nat -> (j + 1 - skip < LL)%nat ->
  R5 u s1 s2 i0 i1 prev cst pst ->
  R5 u s1 s2 i0 i1 prev
     (py_distance_loop4 idist B ms pen (2 * zL) (Z.of_nat ec) (Z.of_nat i) i0 i1 zr zc zL f1 f2 (Z.of_nat skip) (Z.of_nat skipp) cst (Z.of_nat j))
     (pstep u s1 s2 B i skipp skip prev ec pst j).
Proof.
  intros Hj Hs1 Hs2 Hs3 Hs4.
  destruct cst as [[[[[dtw ecn] ok] sc] sf] brk]. intros (Hlen & Hp & Hc1 & Hlc & -> & -> & -> & -> & ->).
  unfold py_distance_loop4, pstep. destruct (p_stop pst) eqn:Estop.
  { unfold R5. rewrite Estop. auto 10. }
  rewrite (Hd i j Hi Hj). rewrite !inb_nat by assumption. cbn [andb].
  unfold cltb at 1. destruct (cleb (Fin (pdist (u_inner u) (nth i s1 []) (nth j s2 []))) ms) eqn:Ems; cbn [negb].
  2:{ unfold R5. rewrite Estop. auto 10. }
  assert (Ea : aget dtw (i0 * zL + Z.of_nat j - Z.of_nat skipp) = rget prev (j - skipp)).
  { replace (i0 * zL + Z.of_nat j - Z.of_nat skipp) with (i0 * zL + Z.of_nat (j - skipp)) by lia. apply Hp. lia. }
  assert (Eb : aget dtw (i0 * zL + Z.of_nat j + 1 - Z.of_nat skipp) = rget prev (j + 1 - skipp)).
  { replace (i0 * zL + Z.of_nat j + 1 - Z.of_nat skipp) with (i0 * zL + Z.of_nat (j + 1 - skipp)) by lia. apply Hp. lia. }
  assert (Ec : aget dtw (i1 * zL + Z.of_nat j - Z.of_nat skip) = rget (p_cur pst) (j - skip)).
  { replace (i1 * zL + Z.of_nat j - Z.of_nat skip) with (i1 * zL + Z.of_nat (j - skip)) by lia. apply Hc1. lia. }
  cbv zeta. rewrite Ea, Eb, Ec.
  set (v := cadd (Fin (pdist (u_inner u) (nth i s1 []) (nth j s2 [])))
                 (cmin (cmin (rget prev (j - skipp)) (cadd (rget prev (j + 1 - skipp)) pen)) (cadd (rget (p_cur pst) (j - skip)) pen))).
  assert (Ev : code_cell (adj_penalty u) (Fin (pdist (u_inner u) (nth i s1 []) (nth j s2 []))) (rget prev (j - skipp))
                         (rget prev (j + 1 - skipp)) (rget (p_cur pst) (j - skip)) = v) by reflexivity.
  rewrite Ev.
  assert (Ew : i1 * zL + Z.of_nat j + 1 - Z.of_nat skip = i1 * zL + Z.of_nat (j + 1 - skip)) by lia.
  rewrite Ew.
  assert (Hi0' : i0 = 0 \/ i0 = 1) by lia.
  (* the four asserts and the four subscripts *)
  replace (Z.of_nat j + 1 - Z.of_nat skip >=? 0) with true by (symmetry; apply Z.geb_le; lia).
  replace (Z.of_nat j - Z.of_nat skipp >=? 0) with true by (symmetry; apply Z.geb_le; lia).
  replace (Z.of_nat j + 1 - Z.of_nat skipp >=? 0) with true by (symmetry; apply Z.geb_le; lia).
  replace (Z.of_nat j - Z.of_nat skip >=? 0) with true by (symmetry; apply Z.geb_le; lia).
  replace (inb (2 * zL) (i0 * zL + Z.of_nat j - Z.of_nat skipp)) with true
    by (symmetry; replace (i0 * zL + Z.of_nat j - Z.of_nat skipp) with (i0 * zL + Z.of_nat (j - skipp)) by lia; apply inb_row2; [exact Hi0'|lia]).
  replace (inb (2 * zL) (i0 * zL + Z.of_nat j + 1 - Z.of_nat skipp)) with true
    by (symmetry; replace (i0 * zL + Z.of_nat j + 1 - Z.of_nat skipp) with (i0 * zL + Z.of_nat (j + 1 - skipp)) by lia; apply inb_row2; [exact Hi0'|lia]).
  replace (inb (2 * zL) (i1 * zL + Z.of_nat j - Z.of_nat skip)) with true
    by (symmetry; replace (i1 * zL + Z.of_nat j - Z.of_nat skip) with (i1 * zL + Z.of_nat (j - skip)) by lia; apply inb_row2; [exact Hi1|lia]).
  rewrite (inb_row2 i1 (j + 1 - skip)%nat Hi1) by lia. cbn [andb].
  rewrite aget_aset_same by (destruct Hi1; subst i1; lia).
  assert (Hrow1 : rowis LL (aset dtw (i1 * zL + Z.of_nat (j + 1 - skip)) v) i1 (upd_nat (p_cur pst) (j + 1 - skip) v)).
  { apply rowis_aset_same; [exact Hi1|exact Hlen|exact Hlc|lia|exact Hc1]. }
  assert (Hrow0 : rowis LL (aset dtw (i1 * zL + Z.of_nat (j + 1 - skip)) v) i0 prev).
  { subst i0. apply rowis_aset_other; [exact Hi1|lia|exact Hp]. }
  assert (Hlen' : length (aset dtw (i1 * zL + Z.of_nat (j + 1 - skip)) v) = (2 * LL)%nat) by (rewrite aset_length; exact Hlen).
  assert (Hlc' : length (upd_nat (p_cur pst) (j + 1 - skip) v) = LL) by (rewrite upd_nat_length; exact Hlc).
  unfold cltb. destruct (cleb v B) eqn:EvB; cbn [negb].
  - unfold R5. cbn [p_cur p_sc p_smaller p_ecn p_stop]. repeat split; try assumption; try reflexivity. lia.
  - destruct (Z.geb_spec (Z.of_nat j) (Z.of_nat ec)) as [Hge|Hlt].
    + unfold R5. cbn [p_cur p_sc p_smaller p_ecn p_stop].
      replace (ec <=? j)%nat with true by (symmetry; apply Nat.leb_le; lia).
      repeat split; try assumption; try reflexivity. destruct (p_smaller pst); cbn [negb]; lia.
    + unfold R5. cbn [p_cur p_sc p_smaller p_ecn p_stop].
      replace (ec <=? j)%nat with false by (symmetry; apply Nat.leb_gt; lia).
      repeat split; try assumption; try reflexivity. destruct (p_smaller pst); cbn [negb]; lia.
Qed.
End CellLoop.

(* ------------------------------------------------------------------ geometry as dtw.distance computes it *)
Lemma py_length : py_dist_length zr zc w = zL.
Proof. unfold L, py_dist_length. lia. Qed.

Lemma py_geom i : (i < r)%nat ->
  Z.max 0 (Z.of_nat i - Z.max 0 (zr - zc) - w + 1) = Z.of_nat (jS i) /\
  Z.min zc (Z.of_nat i + Z.max 0 (zc - zr) + w) = Z.of_nat (jE i) /\
  (if zL =? zc + 1 then 0 else Z.of_nat (jS i)) = Z.of_nat (sk i).
Proof.
  intros Hi. unfold js, je, skip_of, eff_skip, L, py_dist_j_start, py_dist_j_end, py_dist_skip, py_dist_length.
  destruct (Z.eqb_spec (Z.of_nat (Z.to_nat (Z.min (zc + 1) (Z.abs (zr - zc) + 2 * (w - 1) + 1 + 1 + 1)))) (zc + 1));
  destruct (Z.eqb_spec (Z.min (zc + 1) (Z.abs (zr - zc) + 2 * (w - 1) + 1 + 1 + 1)) (zc + 1)); lia.
Qed.

Lemma zrange_seq_from a n : zrange (Z.of_nat a) (Z.of_nat a + Z.of_nat n) = map Z.of_nat (seq a n).
Proof. replace (Z.of_nat a + Z.of_nat n) with (Z.of_nat (a + n)) by lia. apply zrange_seq. Qed.

(* for ii in range(i1*length, i1*length+length): dtw[ii] = inf *)
Lemma py_loop3_spec dtw i1 row0 : (i1 = 0 \/ i1 = 1) -> length dtw = (2 * LL)%nat -> rowis LL dtw (1 - i1) row0 ->
  exists dtw', fold_left (py_distance_loop3 (2 * zL)) (zrange (i1 * zL) (i1 * zL + zL)) (dtw, true) = (dtw', true) /\
    length dtw' = (2 * LL)%nat /\ rowis LL dtw' i1 (repeat Inf LL) /\ rowis LL dtw' (1 - i1) row0.
Proof.
  intros Hi1 Hlen H0.
  set (a := if i1 =? 0 then 0%nat else LL).
  assert (Ea : i1 * zL = Z.of_nat a).
  { unfold a. destruct Hi1; subst i1; [change (0 =? 0) with true|change (1 =? 0) with false]; cbv iota; lia. }
  rewrite Ea, zrange_seq_from.
  assert (G : forall n d, (n <= LL)%nat -> length d = (2 * LL)%nat -> rowis LL d (1 - i1) row0 ->
              (forall q, (q < LL - n)%nat -> aget d (i1 * zL + Z.of_nat q) = Inf) ->
              exists d', fold_left (py_distance_loop3 (2 * zL)) (map Z.of_nat (seq (a + (LL - n)) n)) (d, true) = (d', true) /\
                length d' = (2 * LL)%nat /\ rowis LL d' (1 - i1) row0 /\
                (forall q, (q < LL)%nat -> aget d' (i1 * zL + Z.of_nat q) = Inf)).
  { induction n as [|n IH]; intros d Hn Hl Hr0 Hz.
    - exists d. cbn. repeat split; try assumption. intros q Hq. apply Hz. lia.
    - cbn [seq map fold_left]. unfold py_distance_loop3 at 2.
      replace (Z.of_nat (a + (LL - S n))) with (i1 * zL + Z.of_nat (LL - S n)) by lia.
      rewrite inb_row2 by (try assumption; lia). cbn [andb].
      replace (S (a + (LL - S n))) with (a + (LL - n))%nat by lia.
      apply IH; [lia|rewrite aset_length; exact Hl|apply rowis_aset_other; [exact Hi1|lia|exact Hr0]|].
      intros q Hq. destruct (Nat.eq_dec q (LL - S n)) as [->|Hne].
      + apply aget_aset_same. destruct Hi1; subst i1; lia.
      + rewrite aget_aset_other by lia. apply Hz. lia. }
  destruct (G LL dtw (le_n _) Hlen H0) as (d' & E & Hl' & Hr' & Hz').
  { intros q Hq. lia. }
  replace (a + (LL - LL))%nat with a in E by lia. exists d'. repeat split; try assumption.
  intros q Hq. rewrite Hz' by exact Hq. unfold rget. symmetry. apply nth_repeat_inf.
Qed.

(* dtw = array.array('d', [inf] * (2 * length));  for i in range(min(psi_2b + 1, length)): dtw[i] = 0 *)
Lemma py_init_spec :
  exists dtw, fold_left (py_distance_loop1 (2 * zL)) (zrange 0 (Z.min (Z.of_nat (psi_2b u) + 1) zL))
                (amake (fun _ => Inf) (2 * zL), true) = (dtw, true) /\
    length dtw = (2 * LL)%nat /\ rowis LL dtw 0 (row_init u s1 s2).
Proof.
  set (m := Nat.min (psi_2b u + 1) LL).
  pose (P2 := fun (k : nat) (st : st2) => snd st = true /\ length (fst st) = (2 * LL)%nat /\
               (forall q, (q < 2 * LL)%nat -> aget (fst st) (Z.of_nat q) = if (q <? k)%nat then Fin 0 else Inf)).
  assert (H2 : P2 m (fold_left (py_distance_loop1 (2 * zL)) (zrange 0 (Z.min (Z.of_nat (psi_2b u) + 1) zL)) (amake (fun _ => Inf) (2 * zL), true))).
  { replace (Z.min (Z.of_nat (psi_2b u) + 1) zL) with (Z.of_nat m) by (unfold m; lia). apply fold_zrange_inv.
    - unfold P2; cbn [fst snd]. repeat split; [rewrite amake_length; lia|]. intros q Hq.
      replace (2 * zL) with (Z.of_nat (2 * LL)) by lia. rewrite aget_amake by exact Hq.
      destruct (Nat.ltb_spec q 0); [lia|reflexivity].
    - intros k [d ok] Hk (Hok & Hl & Hz). cbn [fst snd] in *. subst ok. unfold py_distance_loop1, P2. cbn [fst snd].
      replace (inb (2 * zL) (Z.of_nat k)) with true
        by (symmetry; unfold inb; apply andb_true_intro; split; [apply Z.leb_le|apply Z.ltb_lt]; unfold m in Hk; lia).
      repeat split.
      + rewrite aset_length. exact Hl.
      + intros q Hq. destruct (Nat.eq_dec q k) as [->|Hne].
        * rewrite aget_aset_same by (unfold m in Hk; lia). destruct (Nat.ltb_spec k (S k)); [reflexivity|lia].
        * rewrite aget_aset_other by lia. rewrite Hz by exact Hq.
          destruct (Nat.ltb_spec q k), (Nat.ltb_spec q (S k)); try reflexivity; lia. }
  destruct (fold_left (py_distance_loop1 (2 * zL)) (zrange 0 (Z.min (Z.of_nat (psi_2b u) + 1) zL)) (amake (fun _ => Inf) (2 * zL), true)) as [d2 ok2].
  destruct H2 as (Hok2 & Hl2 & Hz2). cbn [fst snd] in *. subst ok2. exists d2. repeat split; [exact Hl2|].
  intros q Hq. replace (0 * zL + Z.of_nat q) with (Z.of_nat q) by lia. rewrite Hz2 by lia.
  unfold row_init, rget. rewrite nth_map_seq by exact Hq.
  unfold m. destruct (Nat.ltb_spec q (Nat.min (psi_2b u + 1) LL)), (Nat.leb_spec q (psi_2b u)); try reflexivity; lia.
Qed.

(* ------------------------------------------------------------------ the row loop *)
Local Notation zp1b := (Z.of_nat (psi_1b u)).
Local Notation zp1e := (Z.of_nat (psi_1e u)).

Lemma py_row_step n cst : (n < r)%nat -> RowR u s1 s2 B n cst ->
  RowR u s1 s2 B (S n) (py_distance_loop2 idist B ms pen w zc (2 * zL) zr zc zL zp1b zp1e zr f1 f2 cst (Z.of_nat n)).
Proof.
  intros Hn. destruct cst as [[[[[[[dtw ec] i0] i1] ok] ps] sc] skip]. unfold RowR at 1.
  destruct (prows u s1 s2 B n) as [[[[prev skipp] ps'] sc'] ec'] eqn:Ep.
  intros (Hlen & Hi1 & Hi0 & Hrow & Hlp & -> & -> & -> & -> & -> & Hskp). subst i0.
  destruct (py_geom n Hn) as (Ejs & Eje & Eskip).
  destruct (geom_row u s1 s2 Hw Hr Hc n Hn) as (G1 & G2 & G3 & G4 & G5 & G6).
  assert (Gp : (skipp <= jS n)%nat /\ (jE n - skipp < LL)%nat).
  { subst skipp. destruct n as [|m].
    - destruct (geom_first u s1 s2 Hw Hr Hc) as (F1 & F2 & F3). lia.
    - destruct (geom_succ u s1 s2 Hw Hr Hc m Hn) as (S1 & S2 & S3 & S4 & S5 & S6). lia. }
  unfold py_distance_loop2. cbv zeta. rewrite Ejs, Eje, Eskip.
  assert (Hi1' : 1 - i1 = 0 \/ 1 - i1 = 1) by lia.
  assert (Hrow' : rowis LL dtw (1 - (1 - i1)) prev) by (replace (1 - (1 - i1)) with i1 by lia; exact Hrow).
  destruct (py_loop3_spec dtw (1 - i1) prev Hi1' Hlen Hrow') as (dtw1 & Ef4 & Hl1 & Hinf1 & Hprev1).
  rewrite Ef4. replace (1 - (1 - i1)) with i1 in Hprev1 by lia.
  rewrite zleb_nat.
  set (sc1 := (if (n <=? psi_1b u)%nat then 0 else sc')%nat).
  replace (if (n <=? psi_1b u)%nat then 0 else Z.of_nat sc') with (Z.of_nat sc1)
    by (unfold sc1; destruct (n <=? psi_1b u)%nat; reflexivity).
  rewrite zmax_nat. set (j0 := Nat.max (jS n) sc1).
  rewrite zeqb_nat0, (zeqb_nat0 j0), zltb_nat.
  unfold RowR. cbn [prows]. rewrite Ep. unfold prow_step. fold sc1. fold j0.
  set (cur1 := if negb (psi_1b u =? 0)%nat && (j0 =? 0)%nat && (n <? psi_1b u)%nat
               then upd_nat (repeat Inf LL) 0 (Fin 0) else repeat Inf LL).
  assert (Hb : exists dtw2,
     (if negb (psi_1b u =? 0)%nat && (j0 =? 0)%nat && (n <? psi_1b u)%nat
      then (aset dtw1 ((1 - i1) * zL) (Fin 0), true && inb (2 * zL) ((1 - i1) * zL)) else (dtw1, true)) = (dtw2, true) /\
     length dtw2 = (2 * LL)%nat /\ rowis LL dtw2 (1 - i1) cur1 /\ rowis LL dtw2 i1 prev).
  { unfold cur1. destruct (negb (psi_1b u =? 0)%nat && (j0 =? 0)%nat && (n <? psi_1b u)%nat).
    - exists (aset dtw1 ((1 - i1) * zL) (Fin 0)). replace ((1 - i1) * zL) with ((1 - i1) * zL + Z.of_nat 0) by lia.
      rewrite inb_row2 by (try assumption; lia). split; [reflexivity|]. split; [rewrite aset_length; exact Hl1|]. split.
      + apply rowis_aset_same; try assumption; try apply repeat_length; lia.
      + replace i1 with (1 - (1 - i1)) at 2 by lia. apply rowis_aset_other; [exact Hi1'|lia|].
        replace (1 - (1 - i1)) with i1 by lia. exact Hprev1.
    - exists dtw1. repeat split; assumption. }
  destruct Hb as (dtw2 & Eb & Hl2 & Hcur2 & Hprev2).
  match goal with |- context [if ?cnd then (aset dtw1 ?ix ?vv, ?okk) else (dtw1, true)] =>
    replace (if cnd then (aset dtw1 ix vv, okk) else (dtw1, true)) with (dtw2, true) by (symmetry; exact Eb) end.
  set (pst0 := {| p_cur := cur1; p_sc := sc1; p_smaller := false; p_ecn := n; p_stop := false |}).
  assert (Hlc1 : length cur1 = LL).
  { unfold cur1. destruct (negb (psi_1b u =? 0)%nat && (j0 =? 0)%nat && (n <? psi_1b u)%nat);
      [rewrite upd_nat_length|]; apply repeat_length. }
  assert (HR0 : R5 u s1 s2 (1 - (1 - i1)) (1 - i1) prev (dtw2, Z.of_nat n, true, Z.of_nat sc1, false, false) pst0).
  { unfold R5, pst0. cbn [p_cur p_sc p_smaller p_ecn p_stop]. replace (1 - (1 - i1)) with i1 by lia.
    repeat split; assumption. }
  rewrite (zrange_trunc j0 (jE n)).
  pose proof (fold_sim (S := (list cost * Z * bool * Z * bool * bool)%type) (R5 u s1 s2 (1 - (1 - i1)) (1 - i1) prev)
                (py_distance_loop4 idist B ms pen (2 * zL) (Z.of_nat ec') (Z.of_nat n) (1 - (1 - i1)) (1 - i1) zr zc zL f1 f2 (Z.of_nat (sk n)) (Z.of_nat skipp))
                (pstep u s1 s2 B n skipp (sk n) prev ec') (jE n - j0) j0 _ _ HR0) as HF.
  assert (Hstep : forall k s t, (j0 <= k < j0 + (jE n - j0))%nat -> R5 u s1 s2 (1 - (1 - i1)) (1 - i1) prev s t ->
            R5 u s1 s2 (1 - (1 - i1)) (1 - i1) prev
               (py_distance_loop4 idist B ms pen (2 * zL) (Z.of_nat ec') (Z.of_nat n) (1 - (1 - i1)) (1 - i1) zr zc zL f1 f2 (Z.of_nat (sk n)) (Z.of_nat skipp) s (Z.of_nat k))
               (pstep u s1 s2 B n skipp (sk n) prev ec' t k)).
  { intros k s t Hk HRk. apply py_loop4_step; try assumption; try reflexivity; unfold j0 in Hk; lia. }
  specialize (HF Hstep). clear Hstep.
  destruct (fold_left (py_distance_loop4 idist B ms pen (2 * zL) (Z.of_nat ec') (Z.of_nat n) (1 - (1 - i1)) (1 - i1) zr zc zL f1 f2 (Z.of_nat (sk n)) (Z.of_nat skipp))
              (zrange (Z.of_nat j0) (Z.of_nat (j0 + (jE n - j0)))) (dtw2, Z.of_nat n, true, Z.of_nat sc1, false, false))
    as [[[[[dtw3 ecn3] ok3] sc3] sf3] brk3] eqn:Ef5.
  destruct (fold_left (pstep u s1 s2 B n skipp (sk n) prev ec') (seq j0 (jE n - j0)) pst0) as [cur3 psc3 psm3 pecn3 pstop3] eqn:Efp.
  try rewrite Ef5 in HF. try rewrite Efp in HF.
  unfold R5 in HF. cbv beta iota zeta in HF. cbn [p_cur p_sc p_smaller p_ecn p_stop] in HF.
  destruct HF as (Hl3 & Hprev3 & Hcur3 & Hlc3 & -> & -> & -> & -> & ->).
  rewrite zeqb_nat0, zeqb_nat. replace (zr - 1 - Z.of_nat n) with (Z.of_nat (r - 1 - n)) by lia. rewrite zleb_nat.
  cbn [p_cur p_sc p_ecn].
  assert (Eread : aget dtw3 ((1 - i1) * zL + Z.of_nat (jE n) - Z.of_nat (sk n)) = rget cur3 (jE n - sk n)).
  { replace ((1 - i1) * zL + Z.of_nat (jE n) - Z.of_nat (sk n)) with ((1 - i1) * zL + Z.of_nat (jE n - sk n)) by lia. apply Hcur3. lia. }
  assert (Einb : inb (2 * zL) ((1 - i1) * zL + Z.of_nat (jE n) - Z.of_nat (sk n)) = true).
  { replace ((1 - i1) * zL + Z.of_nat (jE n) - Z.of_nat (sk n)) with ((1 - i1) * zL + Z.of_nat (jE n - sk n)) by lia.
    apply inb_row2; [exact Hi1'|lia]. }
  rewrite Eread, Einb.
  destruct (negb (psi_1e u =? 0)%nat && (jE n =? c)%nat && (r - 1 - n <=? psi_1e u)%nat);
    repeat split; try assumption; try reflexivity; lia.
Qed.

(* ------------------------------------------------------------------ after the rows *)
Lemma nth_firstn_skipn {A} (l : list A) a n k d : (k < n)%nat -> nth k (firstn n (skipn a l)) d = nth (a + k) l d.
Proof.
  revert l a k. induction n as [|n IH]; intros l a k Hk; [lia|].
  revert l. induction a as [|a IHa]; intros l.
  - cbn [skipn Nat.add]. destruct l as [|x l]; [destruct k; reflexivity|].
    destruct k as [|k]; [reflexivity|]. cbn [firstn nth]. specialize (IH l 0%nat k). cbn [skipn Nat.add] in IH. apply IH. lia.
  - destruct l as [|x l]; [cbn; destruct k; reflexivity|]. cbn [skipn Nat.add nth]. apply IHa.
Qed.

(* dtw[i1*length + lo : i1*length + hi] of the current row *)
Lemma aslice_row dtw i1 cur lo n : (i1 = 0 \/ i1 = 1) -> length dtw = (2 * LL)%nat -> rowis LL dtw i1 cur -> (lo + n <= LL)%nat ->
  aslice dtw (i1 * zL + Z.of_nat lo) (i1 * zL + Z.of_nat (lo + n)) = map (rget cur) (seq lo n).
Proof.
  intros Hi1 Hlen Hrow Hn. unfold aslice.
  replace (Z.to_nat (i1 * zL + Z.of_nat (lo + n) - (i1 * zL + Z.of_nat lo))) with n by lia.
  set (a := Z.to_nat (i1 * zL + Z.of_nat lo)).
  assert (Ha : (a + n <= length dtw)%nat) by (unfold a; destruct Hi1; subst i1; lia).
  apply nth_ext with (d := Inf) (d' := Inf).
  - rewrite firstn_length, skipn_length, map_length, seq_length. lia.
  - intros k Hk. rewrite firstn_length, skipn_length in Hk.
    assert (Hk' : (k < n)%nat) by lia.
    rewrite nth_firstn_skipn by exact Hk'.
    rewrite (nth_indep (map (rget cur) (seq lo n)) Inf (rget cur 0)) by (rewrite map_length, seq_length; exact Hk').
    rewrite map_nth, seq_nth by exact Hk'.
    specialize (Hrow (lo + k)%nat ltac:(lia)). unfold aget in Hrow.
    destruct (Z.ltb_spec (i1 * zL + Z.of_nat (lo + k)) 0) as [Hneg|_]; [destruct Hi1; subst i1; lia|].
    rewrite <- Hrow. f_equal. unfold a. destruct Hi1; subst i1; lia.
Qed.

Theorem py_distance_refines ced mld mld_some : B <> Fin 0 ->
  py_distance ced idist f1 zr f2 zc false B mld mld_some ms pen zp1b zp1e (Z.of_nat (psi_2b u)) (Z.of_nat (psi_2e u)) w =
  ((if mld_some && cltb mld (Fin (Z.abs (zr - zc))) then RPlain Inf else RSqrt (distp_value u s1 s2 B)), true).
Proof.
  intros HB. unfold py_distance. cbv zeta.
  destruct (mld_some && cltb mld (Fin (Z.abs (zr - zc)))); [reflexivity|].
  change (Z.min (zc + 1) (Z.abs (zr - zc) + 2 * (w - 1) + 1 + 1 + 1)) with (py_dist_length zr zc w). rewrite py_length.
  destruct py_init_spec as (dtw0 & E0 & Hl0 & Hrow0). rewrite E0.
  assert (HR : RowR u s1 s2 B r (fold_left (py_distance_loop2 idist B ms pen w zc (2 * zL) zr zc zL zp1b zp1e zr f1 f2)
                         (zrange 0 zr) (dtw0, Z.of_nat (psi_2b u), 1, 0, true, Inf, 0, 0))).
  { apply (fold_zrange_inv (RowR u s1 s2 B)).
    - unfold RowR. cbn [prows]. repeat split; try assumption; try reflexivity; [left; reflexivity|].
      unfold row_init. rewrite map_length, seq_length. reflexivity.
    - intros k s Hk Hs. apply py_row_step; assumption. }
  destruct (fold_left (py_distance_loop2 idist B ms pen w zc (2 * zL) zr zc zL zp1b zp1e zr f1 f2)
              (zrange 0 zr) (dtw0, Z.of_nat (psi_2b u), 1, 0, true, Inf, 0, 0)) as [[[[[[[dtw ec] i0] i1] ok] ps] sc] skip].
  unfold RowR in HR. unfold distp_value.
  destruct (prows u s1 s2 B r) as [[[[cur skipp] ps'] sc'] ec'].
  destruct HR as (Hlen & Hi1 & Hi0 & Hrow & Hlc & -> & -> & -> & -> & -> & Hskp).
  set (m := (r - 1)%nat) in *. assert (Er : r = S m) by (unfold m; lia). rewrite Er in Hskp.
  assert (Hm : (m < r)%nat) by lia.
  destruct (geom_row u s1 s2 Hw Hr Hc m Hm) as (G1 & G2 & G3 & G4 & G5 & G6).
  pose proof (geom_last u s1 s2 Hw Hr Hc) as GL. fold m in GL.
  replace (Z.min zc (zc + w - 1)) with zc by lia.
  assert (Eic : i1 * zL + zc - Z.of_nat skipp = i1 * zL + Z.of_nat (c - skipp)) by lia.
  rewrite !zeqb_nat0. unfold final_value. cbv zeta.
  assert (Ecut : forall d, (if negb (ceqb B (Fin 0)) && cltb B d then Inf else d) = (if negb (cleb d B) then Inf else d)).
  { intros d. replace (ceqb B (Fin 0)) with false; [reflexivity|].
    symmetry. destruct B as [z|]; [|reflexivity]. cbn. apply Z.eqb_neq. intros ->. apply HB. reflexivity. }
  destruct (psi_1e u =? 0)%nat eqn:E1; destruct (psi_2e u =? 0)%nat eqn:E2; cbn [negb andb]; cbv beta iota zeta.
  - rewrite !Eic, !inb_row2 by (try assumption; lia). rewrite !Hrow by lia. cbn [andb]. rewrite Ecut. reflexivity.
  - replace (i1 * zL + Z.max 0 (zc - Z.of_nat skipp - Z.of_nat (psi_2e u)))
      with (i1 * zL + Z.of_nat (c - skipp - psi_2e u)) by lia.
    replace (i1 * zL + (zc - Z.of_nat skipp) + 1)
      with (i1 * zL + Z.of_nat ((c - skipp - psi_2e u) + ((c - skipp) + 1 - (c - skipp - psi_2e u)))) by lia.
    rewrite (aslice_row dtw i1 cur) by (try assumption; lia).
    replace (inb_slice (2 * zL) (i1 * zL + Z.of_nat (c - skipp - psi_2e u))
               (i1 * zL + Z.of_nat (c - skipp - psi_2e u + (c - skipp + 1 - (c - skipp - psi_2e u))))) with true
      by (symmetry; unfold inb_slice; destruct Hi1; subst i1; repeat (apply andb_true_intro; split);
          try apply Z.leb_le; try apply Z.ltb_lt; lia).
    cbn [andb]. rewrite Ecut. unfold slice_min. reflexivity.
  - rewrite !Eic, !inb_row2 by (try assumption; lia). rewrite !Hrow by lia. cbn [andb]. rewrite Ecut. reflexivity.
  - replace (i1 * zL + Z.max 0 (zc - Z.of_nat skipp - Z.of_nat (psi_2e u)))
      with (i1 * zL + Z.of_nat (c - skipp - psi_2e u)) by lia.
    replace (i1 * zL + (zc - Z.of_nat skipp) + 1)
      with (i1 * zL + Z.of_nat ((c - skipp - psi_2e u) + ((c - skipp) + 1 - (c - skipp - psi_2e u)))) by lia.
    rewrite (aslice_row dtw i1 cur) by (try assumption; lia).
    replace (inb_slice (2 * zL) (i1 * zL + Z.of_nat (c - skipp - psi_2e u))
               (i1 * zL + Z.of_nat (c - skipp - psi_2e u + (c - skipp + 1 - (c - skipp - psi_2e u))))) with true
      by (symmetry; unfold inb_slice; destruct Hi1; subst i1; repeat (apply andb_true_intro; split);
          try apply Z.leb_le; try apply Z.ltb_lt; lia).
    cbn [andb]. rewrite Ecut. unfold slice_min. reflexivity.
Qed.
End Refine.

(* ------------------------------------------------------------------ dtw.distance as regenerated = specification *)
Theorem py_distance_spec (u : usettings) (s1 s2 : list point) (B : cost) (idist : Z -> Z -> cost) (f1 f2 : list Z) ced mld mld_some :
  1 <= eff_window u (length s1) (length s2) -> (1 <= length s1)%nat -> (1 <= length s2)%nat ->
  (forall i j, (i < length s1)%nat -> (j < length s2)%nat ->
     idist (Z.of_nat i) (Z.of_nat j) = Fin (pdist (u_inner u) (nth i s1 []) (nth j s2 []))) ->
  pen_ok u -> (psi_1b u < length s1 \/ psi_2e u < length s2)%nat -> B <> Fin 0 ->
  py_distance ced idist f1 (Z.of_nat (length s1)) f2 (Z.of_nat (length s2)) false B mld mld_some (adj_max_step u) (Fin (adj_penalty u))
              (Z.of_nat (psi_1b u)) (Z.of_nat (psi_1e u)) (Z.of_nat (psi_2b u)) (Z.of_nat (psi_2e u))
              (eff_window u (length s1) (length s2)) =
  ((if mld_some && cltb mld (Fin (Z.abs (Z.of_nat (length s1) - Z.of_nat (length s2)))) then RPlain Inf
    else RSqrt (bounded B (dtw_value u s1 s2))), true).
Proof.
  intros Hw Hr Hc Hd Hpen Hpsi HB.
  rewrite (py_distance_refines u s1 s2 B idist f1 f2 Hw Hr Hc Hd ced mld mld_some HB).
  rewrite (distp_value_is_bounded u s1 s2 B Hw Hr Hc Hpen Hpsi). reflexivity.
Qed.

(* without a bound (adj_max_dist = inf) the value is the minimum over admissible warping paths itself *)
Corollary py_distance_spec_unbounded (u : usettings) (s1 s2 : list point) (idist : Z -> Z -> cost) (f1 f2 : list Z) ced mld mld_some :
  1 <= eff_window u (length s1) (length s2) -> (1 <= length s1)%nat -> (1 <= length s2)%nat ->
  (forall i j, (i < length s1)%nat -> (j < length s2)%nat ->
     idist (Z.of_nat i) (Z.of_nat j) = Fin (pdist (u_inner u) (nth i s1 []) (nth j s2 []))) ->
  pen_ok u -> (psi_1b u < length s1 \/ psi_2e u < length s2)%nat ->
  py_distance ced idist f1 (Z.of_nat (length s1)) f2 (Z.of_nat (length s2)) false Inf mld mld_some (adj_max_step u) (Fin (adj_penalty u))
              (Z.of_nat (psi_1b u)) (Z.of_nat (psi_1e u)) (Z.of_nat (psi_2b u)) (Z.of_nat (psi_2e u))
              (eff_window u (length s1) (length s2)) =
  ((if mld_some && cltb mld (Fin (Z.abs (Z.of_nat (length s1) - Z.of_nat (length s2)))) then RPlain Inf
    else RSqrt (dtw_value u s1 s2)), true).
Proof.
  intros Hw Hr Hc Hd Hpen Hpsi.
  rewrite (py_distance_spec u s1 s2 Inf idist f1 f2 ced mld mld_some Hw Hr Hc Hd Hpen Hpsi) by discriminate.
  unfold bounded. rewrite cle_inf. reflexivity.
Qed.
