(* The row loop of the C dtw_distance* kernels visits exactly the band of the
   specification and stores row i at the same buffer offset as dtw.distance:
   the expressions regenerated from dd_dtw.c (Gen_cmem: ldiff, dl, dl_window,
   ldiff_window, maxj, minj, skip, length) are equal to band_lo / band_hi / the
   regenerated Python expressions (Gen_dtw).  Consequence: the as-written model
   PyDist.dist_model / distp_model (proved against the specification) has the index
   arithmetic of the C kernels too; the cell update and the bookkeeping of the C
   kernels are tied to that model by correspondence (C02, C03). *)
From Coq Require Import ZArith Bool Lia.
From DV Require Import Dtw BandTie.
From DVGen Require Import Gen_dtw Gen_cmem.
Open Scope Z_scope.

Section OneVariant.
Variables (c_ldiff : Z -> Z -> Z) (c_dl : Z -> Z -> Z -> Z) (c_dl_window : Z -> Z -> Z)
          (c_ldiff_window : Z -> Z -> Z -> Z -> Z) (c_maxj : Z -> Z -> Z) (c_minj : Z -> Z -> Z -> Z)
          (c_skip : Z -> Z -> Z -> Z) (c_length : Z -> Z -> Z -> Z).

(* the composition as the C function performs it *)
Definition cv_maxj (l1 l2 window i : Z) : Z :=
  let ldiff := c_ldiff l1 l2 in c_maxj (c_dl_window (c_dl l1 l2 ldiff) window) i.
Definition cv_minj (l1 l2 window i : Z) : Z :=
  let ldiff := c_ldiff l1 l2 in c_minj i l2 (c_ldiff_window l1 l2 ldiff window).
Definition cv_length (l1 l2 window : Z) : Z := c_length l2 (c_ldiff l1 l2) window.
Definition cv_skip (l1 l2 window i : Z) : Z := c_skip l2 (cv_length l1 l2 window) (cv_maxj l1 l2 window i).
End OneVariant.

Ltac unfold_c :=
  unfold cv_skip; unfold cv_maxj, cv_minj, cv_length,
    c_dtw_distance_ldiff, c_dtw_distance_dl, c_dtw_distance_dl_window, c_dtw_distance_ldiff_window,
    c_dtw_distance_maxj, c_dtw_distance_minj, c_dtw_distance_skip, c_dtw_distance_length,
    c_dtw_distance_ndim_ldiff, c_dtw_distance_ndim_dl, c_dtw_distance_ndim_dl_window, c_dtw_distance_ndim_ldiff_window,
    c_dtw_distance_ndim_maxj, c_dtw_distance_ndim_minj, c_dtw_distance_ndim_skip, c_dtw_distance_ndim_length,
    c_dtw_distance_euclidean_ldiff, c_dtw_distance_euclidean_dl, c_dtw_distance_euclidean_dl_window,
    c_dtw_distance_euclidean_ldiff_window, c_dtw_distance_euclidean_maxj, c_dtw_distance_euclidean_minj,
    c_dtw_distance_euclidean_skip, c_dtw_distance_euclidean_length,
    c_dtw_distance_ndim_euclidean_ldiff, c_dtw_distance_ndim_euclidean_dl, c_dtw_distance_ndim_euclidean_dl_window,
    c_dtw_distance_ndim_euclidean_ldiff_window, c_dtw_distance_ndim_euclidean_maxj, c_dtw_distance_ndim_euclidean_minj,
    c_dtw_distance_ndim_euclidean_skip, c_dtw_distance_ndim_euclidean_length,
    band_lo, band_hi, eff_skip, py_dist_length, py_dist_skip.

Ltac crush :=
  intros; unfold_c; cbv beta zeta;
  repeat match goal with
         | |- context [?a >? ?b] => destruct (Z.gtb_spec a b)
         | |- context [?a =? ?b] => destruct (Z.eqb_spec a b)
         | H : context [?a >? ?b] |- _ => destruct (Z.gtb_spec a b)
         | H : context [?a =? ?b] |- _ => destruct (Z.eqb_spec a b)
         end; cbn [negb]; cbv iota; lia.

Definition band_facts (maxj minj skip : Z -> Z -> Z -> Z -> Z) (length : Z -> Z -> Z -> Z) : Prop :=
  forall l1 l2 window i, 1 <= window -> 1 <= l1 -> 1 <= l2 -> 0 <= i < l1 ->
    maxj l1 l2 window i = band_lo l1 l2 window i /\
    minj l1 l2 window i = band_hi l1 l2 window i /\
    length l1 l2 window = py_dist_length l1 l2 window /\
    skip l1 l2 window i = eff_skip l1 l2 window i.

Theorem c_band_dtw_distance :
  band_facts (cv_maxj c_dtw_distance_ldiff c_dtw_distance_dl c_dtw_distance_dl_window c_dtw_distance_maxj)
             (cv_minj c_dtw_distance_ldiff c_dtw_distance_ldiff_window c_dtw_distance_minj)
             (cv_skip c_dtw_distance_ldiff c_dtw_distance_dl c_dtw_distance_dl_window c_dtw_distance_maxj
                      c_dtw_distance_skip c_dtw_distance_length)
             (cv_length c_dtw_distance_ldiff c_dtw_distance_length).
Proof. unfold band_facts. intros. repeat split; crush. Qed.

Theorem c_band_dtw_distance_ndim :
  band_facts (cv_maxj c_dtw_distance_ndim_ldiff c_dtw_distance_ndim_dl c_dtw_distance_ndim_dl_window c_dtw_distance_ndim_maxj)
             (cv_minj c_dtw_distance_ndim_ldiff c_dtw_distance_ndim_ldiff_window c_dtw_distance_ndim_minj)
             (cv_skip c_dtw_distance_ndim_ldiff c_dtw_distance_ndim_dl c_dtw_distance_ndim_dl_window c_dtw_distance_ndim_maxj
                      c_dtw_distance_ndim_skip c_dtw_distance_ndim_length)
             (cv_length c_dtw_distance_ndim_ldiff c_dtw_distance_ndim_length).
Proof. unfold band_facts. intros. repeat split; crush. Qed.

Theorem c_band_dtw_distance_euclidean :
  band_facts (cv_maxj c_dtw_distance_euclidean_ldiff c_dtw_distance_euclidean_dl c_dtw_distance_euclidean_dl_window c_dtw_distance_euclidean_maxj)
             (cv_minj c_dtw_distance_euclidean_ldiff c_dtw_distance_euclidean_ldiff_window c_dtw_distance_euclidean_minj)
             (cv_skip c_dtw_distance_euclidean_ldiff c_dtw_distance_euclidean_dl c_dtw_distance_euclidean_dl_window c_dtw_distance_euclidean_maxj
                      c_dtw_distance_euclidean_skip c_dtw_distance_euclidean_length)
             (cv_length c_dtw_distance_euclidean_ldiff c_dtw_distance_euclidean_length).
Proof. unfold band_facts. intros. repeat split; crush. Qed.

Theorem c_band_dtw_distance_ndim_euclidean :
  band_facts (cv_maxj c_dtw_distance_ndim_euclidean_ldiff c_dtw_distance_ndim_euclidean_dl c_dtw_distance_ndim_euclidean_dl_window c_dtw_distance_ndim_euclidean_maxj)
             (cv_minj c_dtw_distance_ndim_euclidean_ldiff c_dtw_distance_ndim_euclidean_ldiff_window c_dtw_distance_ndim_euclidean_minj)
             (cv_skip c_dtw_distance_ndim_euclidean_ldiff c_dtw_distance_ndim_euclidean_dl c_dtw_distance_ndim_euclidean_dl_window c_dtw_distance_ndim_euclidean_maxj
                      c_dtw_distance_ndim_euclidean_skip c_dtw_distance_ndim_euclidean_length)
             (cv_length c_dtw_distance_ndim_euclidean_ldiff c_dtw_distance_ndim_euclidean_length).
Proof. unfold band_facts. intros. repeat split; crush. Qed.

(* ---------------------------------------------------------------- memory: the accesses of the row loop *)
(* For a cell (i, j) of the band the C kernels write dtw[i1*length + j + 1 - skip] and read
   dtw[i1*length + j - skip], dtw[i0*length + j - skipp], dtw[i0*length + j + 1 - skipp]
   (skipp = the offset of row i-1).  All four offsets lie inside one row of the buffer. *)
Lemma model_row_accesses l1 l2 w i j : 1 <= w -> 1 <= l1 -> 1 <= l2 -> 0 <= i < l1 ->
  band_lo l1 l2 w i <= j < band_hi l1 l2 w i ->
  0 <= j - eff_skip l1 l2 w i /\ j + 1 - eff_skip l1 l2 w i < py_dist_length l1 l2 w /\
  (1 <= i -> 0 <= j - eff_skip l1 l2 w (i - 1) /\ j + 1 - eff_skip l1 l2 w (i - 1) < py_dist_length l1 l2 w).
Proof.
  unfold eff_skip, py_dist_skip, py_dist_length, band_lo, band_hi. intros.
  destruct (Z.eqb_spec (Z.min (l2 + 1) (Z.abs (l1 - l2) + 2 * (w - 1) + 1 + 1 + 1)) (l2 + 1)); lia.
Qed.

Theorem c_row_accesses_in_buffer (maxj minj skip : Z -> Z -> Z -> Z -> Z) (length : Z -> Z -> Z -> Z) :
  band_facts maxj minj skip length ->
  forall l1 l2 window i j, 1 <= window -> 1 <= l1 -> 1 <= l2 -> 0 <= i < l1 ->
  maxj l1 l2 window i <= j < minj l1 l2 window i ->
  0 <= j - skip l1 l2 window i /\ j + 1 - skip l1 l2 window i < length l1 l2 window /\
  (1 <= i -> 0 <= j - skip l1 l2 window (i - 1) /\ j + 1 - skip l1 l2 window (i - 1) < length l1 l2 window).
Proof.
  intros HF l1 l2 w i j Hw H1 H2 Hi Hj.
  destruct (HF l1 l2 w i Hw H1 H2 Hi) as (E1 & E2 & E3 & E4). rewrite E1, E2 in Hj. rewrite E3, E4.
  destruct (model_row_accesses l1 l2 w i j Hw H1 H2 Hi Hj) as (A & B & C). split; [exact A|]. split; [exact B|].
  intros Hi1. destruct (HF l1 l2 w (i - 1) Hw H1 H2 ltac:(lia)) as (_ & _ & _ & E4'). rewrite E4'. apply C. exact Hi1.
Qed.
