(* Proofs that the functions regenerated from dtw.py implement the `pairs`
   specification: advertised length, fill order, condensed index. *)
From Coq Require Import ZArith Bool List Lia.
From DV Require Import Prelude Matrix.
From DVGen Require Import Gen_matrix.
Import ListNotations.
Open Scope Z_scope.

Definition zsum (g : Z -> Z) (l : list Z) : Z := fold_right (fun r acc => g r + acc) 0 l.

Lemma fold_left_add g l a : fold_left (fun acc r => acc + g r) l a = a + zsum g l.
Proof. revert a; induction l as [|x l IH]; intros a; simpl; [lia|]. rewrite IH. lia. Qed.

Lemma fold_left_ext_in {A B} (f g : A -> B -> A) l a :
  (forall a x, In x l -> f a x = g a x) -> fold_left f l a = fold_left g l a.
Proof.
  revert a; induction l as [|x l IH]; intros a H; simpl; [reflexivity|].
  rewrite H by (left; reflexivity). apply IH. intros; apply H; right; assumption.
Qed.

Lemma zsum_ext_in g h l : (forall x, In x l -> g x = h x) -> zsum g l = zsum h l.
Proof.
  induction l as [|x l IH]; intros H; simpl; [reflexivity|].
  rewrite H by (left; reflexivity). rewrite IH; [reflexivity|]. intros; apply H; right; assumption.
Qed.

Lemma length_flat_map_zsum {A} (f : Z -> list A) l :
  Z.of_nat (length (flat_map f l)) = zsum (fun r => Z.of_nat (length (f r))) l.
Proof. induction l as [|x l IH]; simpl; [reflexivity|]. rewrite app_length. lia. Qed.

Lemma zsum_const k l : zsum (fun _ => k) l = Z.of_nat (length l) * k.
Proof. induction l as [|x l IH]; simpl zsum; simpl length; [lia|]. rewrite IH. lia. Qed.

Lemma zrange_len_Z a b : Z.of_nat (length (zrange a b)) = Z.max 0 (b - a).
Proof. rewrite zrange_length. lia. Qed.

(* sum of (n - r - 1) for r in [a, a+k) *)
Lemma zsum_triangle n : forall k a, 0 <= a -> a + Z.of_nat k <= n ->
  2 * zsum (fun r => n - r - 1) (zrange_aux k a) = Z.of_nat k * (2 * n - 2 * a - Z.of_nat k - 1).
Proof.
  induction k as [|k IH]; intros a Ha Hk; simpl zrange_aux; simpl zsum; [lia|].
  specialize (IH (a + 1) ltac:(lia) ltac:(lia)). nia.
Qed.

Lemma no_block_count n : 0 <= n -> zsum (fun r => n - r - 1) (zrange 0 n) = Z.div (n * (n - 1)) 2.
Proof.
  intros Hn. unfold zrange. rewrite Z.sub_0_r.
  pose proof (zsum_triangle n (Z.to_nat n) 0 ltac:(lia) ltac:(lia)) as H.
  rewrite Z2Nat.id in H by lia.
  apply Z.div_unique_exact; [lia|]. nia.
Qed.

Theorem gen_length_spec n blk : 0 <= n -> valid_block n blk ->
  gen_length n blk = Z.of_nat (length (pairs n blk)).
Proof.
  intros Hn Hv. unfold pairs. rewrite length_flat_map_zsum.
  unfold gen_length, py_distance_matrix_length, block_rows, row_cols.
  destruct (b_some blk) eqn:Hs; cbn [negb].
  - destruct Hv as [Hv|Hv]; [congruence|]. destruct Hv as (Hrb & Hre & Hcb & Hce).
    destruct (b_notriu blk) eqn:Ht.
    + (* rectangular block *)
      rewrite zsum_ext_in with (h := fun _ => snd (b_cols blk) - fst (b_cols blk)).
      2:{ intros r _. rewrite map_length, zrange_len_Z. lia. }
      rewrite zsum_const, zrange_len_Z. rewrite Z.max_r by lia. reflexivity.
    + (* triangular block *)
      rewrite fold_left_ext_in with
        (g := fun acc r => acc + (if fst (b_cols blk) <=? r then (if snd (b_cols blk) >? r then snd (b_cols blk) - r - 1 else 0)
                                  else (if snd (b_cols blk) >? r then snd (b_cols blk) - fst (b_cols blk) else 0))).
      2:{ intros a r _. destruct (fst (b_cols blk) <=? r); destruct (snd (b_cols blk) >? r); lia. }
      rewrite fold_left_add. rewrite Z.add_0_l. apply zsum_ext_in. intros r Hr.
      rewrite map_length, zrange_len_Z.
      destruct (Z.leb_spec (fst (b_cols blk)) r); destruct (Z.gtb_spec (snd (b_cols blk)) r); lia.
  - rewrite zsum_ext_in with (h := fun r => n - r - 1).
    2:{ intros r Hr. apply zrange_In in Hr. rewrite map_length, zrange_len_Z. lia. }
    symmetry. apply no_block_count. exact Hn.
Qed.

(* ------------------------------------------------------------ fill order *)
Section Fill.
Variable A : Type.
Variable dflt : A.
Variable dist : Z -> Z -> A.

Definition stepf (st : list A * Z) (rc : Z * Z) : list A * Z :=
  (upd (fst st) (snd st) (dist (fst rc) (snd rc)), snd st + 1).
Definition fpair (rc : Z * Z) : A := dist (fst rc) (snd rc).

Lemma upd_nat_app (l1 : list A) x l2 v : upd_nat (l1 ++ x :: l2) (length l1) v = l1 ++ v :: l2.
Proof. induction l1 as [|y l1 IH]; simpl; [reflexivity|]. rewrite IH. reflexivity. Qed.

Lemma upd_app (l1 : list A) x l2 v : upd (l1 ++ x :: l2) (Z.of_nat (length l1)) v = l1 ++ v :: l2.
Proof.
  unfold upd. destruct (Z.ltb_spec (Z.of_nat (length l1)) 0); [lia|].
  rewrite Nat2Z.id. apply upd_nat_app.
Qed.

Lemma fill_prefix : forall (l done : list (Z * Z)) k,
  fold_left stepf l (map fpair done ++ repeat dflt (length l + k), Z.of_nat (length done)) =
  (map fpair (done ++ l) ++ repeat dflt k, Z.of_nat (length (done ++ l))).
Proof.
  induction l as [|rc l IH]; intros done k.
  - simpl. rewrite app_nil_r. reflexivity.
  - cbn [fold_left length plus repeat]. unfold stepf at 2. cbn [fst snd].
    rewrite <- (map_length fpair done). rewrite upd_app. rewrite map_length.
    replace (map fpair done ++ dist (fst rc) (snd rc) :: repeat dflt (length l + k))
      with (map fpair (done ++ [rc]) ++ repeat dflt (length l + k))
      by (rewrite map_app, <- app_assoc; reflexivity).
    replace (Z.of_nat (length done) + 1) with (Z.of_nat (length (done ++ [rc])))
      by (rewrite app_length; simpl; lia).
    rewrite IH. rewrite <- app_assoc. reflexivity.
Qed.

Lemma fold_left_flat_map {S} (h : S -> Z * Z -> S) (cols : Z -> list Z) rows st :
  fold_left (fun st r => fold_left (fun st c => h st (r, c)) (cols r) st) rows st =
  fold_left h (flat_map (fun r => map (fun c => (r, c)) (cols r)) rows) st.
Proof.
  revert st; induction rows as [|r rows IH]; intros st; simpl; [reflexivity|].
  rewrite fold_left_app. rewrite <- IH. f_equal.
  generalize (cols r) st. induction l as [|c l IHl]; intros st0; simpl; [reflexivity|]. apply IHl.
Qed.

Theorem gen_matrix_spec n blk : 0 <= n -> valid_block n blk ->
  gen_matrix dflt dist n blk = map fpair (pairs n blk).
Proof.
  intros Hn Hv.
  pose proof (gen_length_spec n blk Hn Hv) as Hlen.
  unfold gen_matrix, py_distance_matrix_python. cbn [fst snd].
  change (py_distance_matrix_length (b_some blk) (fst (b_rows blk)) (snd (b_rows blk)) (fst (b_cols blk))
            (snd (b_cols blk)) (b_notriu blk) n) with (gen_length n blk).
  rewrite Hlen, Nat2Z.id.
  unfold py_complete_block.
  assert (Hgoal : forall rows cols,
     rows = block_rows n blk -> (forall r, In r rows -> cols r = row_cols n blk r) ->
     fst (fold_left (fun '(dists, idx) r =>
            let '(dists0, idx0) := fold_left (fun '(dists0, idx0) c =>
                  let dists1 := upd dists0 idx0 (dist r c) in let idx1 := idx0 + 1 in (dists1, idx1))
                  (cols r) (dists, idx) in (dists0, idx0)) rows
            (repeat dflt (length (pairs n blk)), 0)) = map fpair (pairs n blk)).
  { intros rows cols Hrows Hcols.
    rewrite fold_left_ext_in with
      (g := fun st r => fold_left (fun st c => stepf st (r, c)) (row_cols n blk r) st).
    2:{ intros [ds ix] r Hr. rewrite (Hcols r Hr).
        match goal with |- (let '(a, b) := ?X in (a, b)) = _ => destruct X eqn:E end.
        rewrite <- E. apply fold_left_ext_in. intros [ds' ix'] c _. reflexivity. }
    rewrite fold_left_flat_map. rewrite Hrows. fold (pairs n blk).
    pose proof (fill_prefix (pairs n blk) [] 0%nat) as H. simpl app in H. simpl length in H.
    rewrite Nat.add_0_r in H. change (Z.of_nat 0) with 0 in H. rewrite H. simpl. rewrite app_nil_r. reflexivity. }
  unfold block_rows, row_cols in Hgoal.
  destruct (b_some blk) eqn:Hs; cbn [negb] in *.
  - destruct (b_notriu blk) eqn:Ht.
    + specialize (Hgoal (zrange (fst (b_rows blk)) (snd (b_rows blk)))
                        (fun r => zrange (fst (b_cols blk)) (Z.min n (snd (b_cols blk)))) eq_refl (fun _ _ => eq_refl)).
      cbn [fst snd]. 
      match goal with |- (let '(d, _) := ?X in d) = _ => replace (let '(d, _) := X in d) with (fst X) by (destruct X; reflexivity) end.
      exact Hgoal.
    + specialize (Hgoal (zrange (fst (b_rows blk)) (snd (b_rows blk)))
                        (fun r => zrange (Z.max (r + 1) (fst (b_cols blk))) (Z.min n (snd (b_cols blk)))) eq_refl (fun _ _ => eq_refl)).
      cbn [fst snd].
      match goal with |- (let '(d, _) := ?X in d) = _ => replace (let '(d, _) := X in d) with (fst X) by (destruct X; reflexivity) end.
      exact Hgoal.
  - specialize (Hgoal (zrange 0 n) (fun r => zrange (Z.max (r + 1) 0) (Z.min n n)) eq_refl).
    cbn [fst snd].
    match goal with |- (let '(d, _) := ?X in d) = _ => replace (let '(d, _) := X in d) with (fst X) by (destruct X; reflexivity) end.
    apply Hgoal. intros r Hr. apply zrange_In in Hr. f_equal; lia.
Qed.
End Fill.

(* ------------------------------------------------------------ condensed index *)
Lemma nth_error_zrange_aux : forall k a i, (i < k)%nat -> nth_error (zrange_aux k a) i = Some (a + Z.of_nat i).
Proof.
  induction k as [|k IH]; intros a i Hi; [lia|].
  destruct i as [|i]; simpl; [f_equal; lia|]. rewrite IH by lia. f_equal. lia.
Qed.

Lemma nth_error_zrange lo hi i : 0 <= i < hi - lo -> nth_error (zrange lo hi) (Z.to_nat i) = Some (lo + i).
Proof. intros H. unfold zrange. rewrite nth_error_zrange_aux by lia. f_equal. lia. Qed.

Lemma zrange_split lo mid hi : lo <= mid < hi -> zrange lo hi = zrange lo mid ++ mid :: zrange (mid + 1) hi.
Proof.
  intros H. unfold zrange.
  replace (Z.to_nat (hi - lo)) with (Z.to_nat (mid - lo) + S (Z.to_nat (hi - (mid + 1))))%nat by lia.
  rewrite zrange_aux_app. f_equal. simpl. f_equal; [lia|]. f_equal. lia.
Qed.

Lemma nth_error_flat_map_mid {A B} (f : A -> list B) l1 x l2 k : (k < length (f x))%nat ->
  nth_error (flat_map f (l1 ++ x :: l2)) (length (flat_map f l1) + k) = nth_error (f x) k.
Proof.
  intros Hk. rewrite flat_map_app. rewrite nth_error_app2 by lia.
  replace (length (flat_map f l1) + k - length (flat_map f l1))%nat with k by lia.
  simpl. apply nth_error_app1. exact Hk.
Qed.

Theorem condensed_index_spec a b n : 0 <= a < n -> 0 <= b < n -> a <> b ->
  exists idx, py_distance_array_index a b n = Some idx /\ 0 <= idx /\
              nth_error (pairs n no_block) (Z.to_nat idx) = Some (Z.min a b, Z.max a b).
Proof.
  intros Ha Hb Hne. unfold py_distance_array_index.
  destruct (Z.eqb_spec a b) as [E|_]; [contradiction|].
  set (lo := Z.min a b). set (hi := Z.max a b).
  assert (Hsw : (if a >? b then (let '(a0, b0) := (b, a) in (a0, b0)) else (a, b)) = (lo, hi)).
  { unfold lo, hi. destruct (Z.gtb_spec a b); simpl; f_equal; lia. }
  rewrite Hsw. cbv zeta.
  rewrite (fold_left_add (fun r => n - r - 1)). rewrite Z.add_0_l.
  eexists. split; [reflexivity|].
  assert (Hlo : 0 <= lo < hi) by (unfold lo, hi; lia). assert (Hhi : hi < n) by (unfold hi; lia).
  assert (Hoff : zsum (fun r => n - r - 1) (zrange 0 lo) =
                 Z.of_nat (length (flat_map (fun r => map (fun c => (r, c)) (zrange (r + 1) n)) (zrange 0 lo)))).
  { rewrite length_flat_map_zsum. apply zsum_ext_in. intros r Hr. apply zrange_In in Hr.
    rewrite map_length, zrange_len_Z. lia. }
  split; [rewrite Hoff; lia|].
  unfold pairs, block_rows, row_cols. cbn [b_some no_block negb].
  rewrite (zrange_split 0 lo n) by lia.
  replace (Z.to_nat (zsum (fun r => n - r - 1) (zrange 0 lo) + (hi - lo - 1)))
    with (length (flat_map (fun r => map (fun c => (r, c)) (zrange (r + 1) n)) (zrange 0 lo)) + Z.to_nat (hi - lo - 1))%nat
    by (rewrite Hoff; lia).
  rewrite nth_error_flat_map_mid by (rewrite map_length, zrange_length; lia).
  rewrite nth_error_map. rewrite nth_error_zrange by lia. simpl. do 2 f_equal. lia.
Qed.

(* dtw.distance_matrix returns [] before computing anything only for a block that selects no pair *)
Lemma zrange_empty a b : b <= a -> zrange a b = [].
Proof. intros H. unfold zrange. replace (Z.to_nat (b - a)) with 0%nat by lia. reflexivity. Qed.

Theorem early_empty_selects_nothing n blk : b_some blk = true -> valid_block n blk ->
  py_dm_early_empty (fst (b_rows blk)) (snd (b_rows blk)) (fst (b_cols blk)) (snd (b_cols blk)) = true ->
  pairs n blk = [].
Proof.
  intros Hs [Hv|(Hrb & Hre & Hcb & Hce)] He; [congruence|].
  unfold py_dm_early_empty in He. apply orb_true_iff in He. unfold pairs, block_rows. rewrite Hs. cbn [negb].
  destruct He as [He|He]; apply Z.ltb_lt in He.
  - rewrite zrange_empty by lia. reflexivity.
  - assert (Hcols : forall r, row_cols n blk r = []).
    { intros r. unfold row_cols. rewrite Hs. cbn [negb]. destruct (b_notriu blk); apply zrange_empty; lia. }
    induction (zrange (fst (b_rows blk)) (snd (b_rows blk))) as [|r l IH]; cbn [flat_map]; [reflexivity|].
    rewrite Hcols, IH. reflexivity.
Qed.
