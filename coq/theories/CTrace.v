(* The traceback routines of the C engine walk the compact warping-paths array through the layout.

   tools/translate_c.py regenerates, for each traceback routine (dtw_best_path, _customstart, _isclose,
   _affinity, _prob) and each of its three loops (regions D, C, A-B): the offsets (relative to wpsi) at which
   the diagonal, left and up neighbours are read and by how much wpsi changes on each of the three moves
   (Gen_ctrace.v; any other index expression or statement in a move block is an error).

   Proved for every routine and loop, every length and window: if wpsi is the layout slot of the current
   cell (rip, cip) -- wpsi = cip - shift(rip - 1) -- then
     - the three reads address the matrix cells (rip-1, cip-1), (rip, cip-1), (rip-1, cip) through the
       shift of THEIR rows, and lie inside those rows whenever the current cell is in the band;
     - after a diagonal / left / up move wpsi is again the layout slot of the new current cell,
   and the start value computed by dtw_best_path is the slot of the corner (l1, l2).  Hence by induction
   every read of every traceback loop is a read of the cell the recurrence means, inside the buffer. *)
From Coq Require Import ZArith Bool Lia String List.
From DV Require Import Dtw CWps CFill.
From DVGen Require Import Gen_cwps Gen_ctrace.
Import ListNotations.
Open Scope Z_scope.

Section Trace.
Variables l1 l2 window0 : Z.
Local Notation ldiff := (c_parts_ldiff l1 l2).
Local Notation ldiffr := (c_parts_ldiffr l1 l2 ldiff).
Local Notation ldiffc := (c_parts_ldiffc l1 l2 ldiff).
Local Notation window := (c_parts_window l1 l2 window0).
Local Notation ol := (c_parts_overlap_left l1 ldiffr window).
Local Notation orr := (c_parts_overlap_right l1 ldiffr window).
Local Notation ri2 := (c_parts_ri2 l1 ol).
Local Notation ri3 := (c_parts_ri3 l1 ol orr).

(* while (rip > p.ri3 ..) ; while (rip > p.ri2 ..) ; while (rip > 0 ..): the translator checks these guards in this
   order, so that the second loop runs with rip <= ri3 and the third with rip <= ri2 *)
Definition tr_lo (R : trace_region) : Z := match R with TD => ri3 | TC => ri2 | TAB => 0 end.
Definition tr_hi (R : trace_region) : Z := match R with TD => l1 | TC => ri3 | TAB => ri2 end.

Definition tshift (ri : Z) : Z := cw_shift l1 l2 window0 ri.
Definition twidth : Z := cw_width l1 l2 window0.

(* matrix row rip (1..l1) is data row rip - 1; matrix row rip - 1 is data row rip - 2 (the border row for rip = 1) *)
Definition loop_ok (t : trace_loop) : Prop :=
  forall rip cip wpsi, tr_lo (tl_region t) < rip <= tr_hi (tl_region t) -> 1 <= rip <= l1 -> 1 <= cip <= l2 ->
    wpsi = cip - tshift (rip - 1) ->
    wpsi + tl_diag t = (cip - 1) - tshift (rip - 2) /\
    wpsi + tl_left t = (cip - 1) - tshift (rip - 1) /\
    wpsi + tl_up t = cip - tshift (rip - 2) /\
    wpsi + tl_w_diag t = (cip - 1) - tshift (rip - 2) /\
    wpsi + tl_w_left t = (cip - 1) - tshift (rip - 1) /\
    wpsi + tl_w_up t = cip - tshift (rip - 2) /\
    (band_lo l1 l2 (cw_window l1 l2 window0) (rip - 1) <= cip - 1 < band_hi l1 l2 (cw_window l1 l2 window0) (rip - 1) ->
       0 <= wpsi + tl_left t /\ wpsi < twidth /\ 0 <= wpsi + tl_diag t /\ wpsi + tl_up t < twidth).

Definition init_ok : Prop :=
  c_trace_init_wpsi l2 window ldiff ldiffr ldiffc ri2 ri3 = l2 - tshift (l1 - 1).
End Trace.

Definition tcanon (R : trace_region) : trace_loop :=
  match R with
  | TD => {| tl_function := ""; tl_region := TD; tl_diag := -1; tl_left := -1; tl_up := 0;
             tl_w_diag := -1; tl_w_left := -1; tl_w_up := 0; tl_decision := "" |}
  | TC => {| tl_function := ""; tl_region := TC; tl_diag := 0; tl_left := -1; tl_up := 1;
             tl_w_diag := 0; tl_w_left := -1; tl_w_up := 1; tl_decision := "" |}
  | TAB => {| tl_function := ""; tl_region := TAB; tl_diag := -1; tl_left := -1; tl_up := 0;
              tl_w_diag := -1; tl_w_left := -1; tl_w_up := 0; tl_decision := "" |}
  end.

Definition tgeometry (t : trace_loop) :=
  (tl_region t, (tl_diag t, tl_left t, tl_up t), (tl_w_diag t, tl_w_left t, tl_w_up t)).

Lemma loop_ok_geometry l1 l2 window0 t c : tgeometry t = tgeometry c -> loop_ok l1 l2 window0 c -> loop_ok l1 l2 window0 t.
Proof.
  unfold tgeometry. intros E. inversion E as [[E1 E2 E3 E4 E5 E6 E7]].
  unfold loop_ok. rewrite E1, E2, E3, E4, E5, E6, E7. exact (fun H => H).
Qed.

Ltac trace_setup :=
  unfold loop_ok, init_ok, tshift, twidth, tr_lo, tr_hi; cbv [tcanon];
  cbn [tl_region tl_diag tl_left tl_up tl_w_diag tl_w_left tl_w_up];
  unfold cw_shift, cw_width, cw_ri2, cw_ri3, cw_window, band_lo, band_hi;
  rewrite ?ldiffr_norm, ?ldiffc_norm, ?overlap_right_norm, ?ldiff_norm;
  unfold c_parts_ri1, c_parts_ri2, c_parts_ri3, c_parts_overlap_left.

Lemma tcanon_ok l1 l2 window0 : 1 <= l1 -> 1 <= l2 -> 0 <= window0 -> forall R, loop_ok l1 l2 window0 (tcanon R).
Proof.
  intros H1 H2 Hw R.
  destruct (window_norm l1 l2 window0 Hw H1 H2) as [(W0 & Ww & Wd)|(W0 & Ww & Wd)]; destruct R;
    trace_setup; rewrite ?Wd; rewrite ?Ww; intros rip cip wpsi Hreg Hrip Hcip Hinv;
    rewrite !shift_norm in * by lia; repeat split; intros; lia.
Qed.

Theorem trace_loops_follow_the_layout : forall l1 l2 window0, 1 <= l1 -> 1 <= l2 -> 0 <= window0 ->
  forall t, In t trace_loops -> loop_ok l1 l2 window0 t.
Proof.
  intros l1 l2 window0 H1 H2 Hw t Hin.
  apply loop_ok_geometry with (c := tcanon (tl_region t)); [|apply tcanon_ok; assumption].
  unfold trace_loops in Hin.
  repeat (destruct Hin as [<-|Hin]; [reflexivity|]). destruct Hin.
Qed.

Theorem trace_loops_are_canonical : forall t, In t trace_loops -> tgeometry t = tgeometry (tcanon (tl_region t)).
Proof.
  intros t Hin. unfold trace_loops in Hin.
  repeat (destruct Hin as [<-|Hin]; [reflexivity|]). destruct Hin.
Qed.

Theorem trace_start_is_the_corner_slot : forall l1 l2 window0, 1 <= l1 -> 1 <= l2 -> 0 <= window0 -> init_ok l1 l2 window0.
Proof.
  intros l1 l2 window0 H1 H2 Hw.
  destruct (window_norm l1 l2 window0 Hw H1 H2) as [(W0 & Ww & Wd)|(W0 & Ww & Wd)];
    trace_setup; unfold c_trace_init_wpsi; rewrite ?Ww; rewrite !shift_norm by lia;
    repeat match goal with |- context [?a =? ?b] => destruct (Z.eqb_spec a b) end; lia.
Qed.

Theorem fifteen_loops : length trace_loops = 15%nat.
Proof. vm_compute. reflexivity. Qed.

(* the two routines whose decisions are the plain comparisons of the recurrence *)
Theorem plain_decisions : forall t, In t trace_loops ->
  (tl_function t = "dtw_best_path" \/ tl_function t = "dtw_best_path_customstart")%string -> tl_decision t = "le_pen"%string.
Proof.
  assert (H : forallb (fun t => negb (String.eqb (tl_function t) "dtw_best_path" || String.eqb (tl_function t) "dtw_best_path_customstart")
                                || String.eqb (tl_decision t) "le_pen") trace_loops = true) by (vm_compute; reflexivity).
  intros t Ht Hf. rewrite forallb_forall in H. specialize (H t Ht). apply orb_true_iff in H. destruct H as [H|H].
  - apply negb_true_iff, orb_false_iff in H. destruct H as [Ha Hb]. apply String.eqb_neq in Ha, Hb. destruct Hf; contradiction.
  - apply String.eqb_eq. exact H.
Qed.
