(* Early abandoning (PrunedDTW): any strategy that skips only cells whose true
   optimum exceeds the bound m computes every cell whose optimum is <= m
   exactly, and never under-estimates the others.  This is the soundness core of
   max_dist / use_pruning; *which* cells the sc/ec bookkeeping skips is tied to
   the code by correspondence (and is where finding F06 lives). *)
From Coq Require Import ZArith Bool List Lia.
From DV Require Import Prelude Cost Grid Dtw DtwSpec DtwProps Bounds.
Import ListNotations.
Open Scope Z_scope.

Section Prune.
Variable d : nat -> nat -> cost.
Variable pen : Z.
Variables p1b p2b : nat.
Variable m : cost.                       (* the bound (adj_max_dist) *)
Hypothesis Hd : forall i j, cle (Fin 0) (d i j).
Hypothesis Hpen : 0 <= pen.

Let M := Mf d pen p1b p2b.

(* a pruned matrix: borders as usual; an interior cell is either computed from
   the stored neighbours by the usual update, or skipped (left at Inf) -- and
   skipping is only allowed when the true optimum of the cell exceeds m *)
Variable P : nat -> nat -> cost.
Hypothesis P_row0 : forall j, P 0 j = b0 p2b j.
Hypothesis P_col0 : forall i, P (S i) 0 = b1 p1b (S i).
Hypothesis P_step : forall i j,
  P (S i) (S j) = code_cell pen (d i j) (P i j) (P i (S j)) (P (S i) j) \/
  (P (S i) (S j) = Inf /\ ~ cle (M (S i) (S j)) m).

Lemma cle_cadd_nonneg a x : cle (Fin 0) a -> cle x (cadd a x).
Proof. intros H. rewrite <- (cadd_0_l x) at 1. apply cadd_mono_l. exact H. Qed.

Lemma cle_cadd_nonneg_r a x : cle (Fin 0) a -> cle x (cadd x a).
Proof. intros H. rewrite cadd_comm. apply cle_cadd_nonneg. exact H. Qed.

Theorem prune_sound : forall i j,
  cle (M i j) (P i j) /\ (cle (M i j) m -> P i j = M i j).
Proof.
  assert (HP : cle (Fin 0) (Fin pen)) by (apply cle_fin; exact Hpen).
  induction i as [|i IHi]; intros j.
  - unfold M. rewrite Mf_0, P_row0. split; [apply cle_refl|reflexivity].
  - induction j as [|j IHj].
    + unfold M. rewrite Mf_S_0, P_col0. split; [apply cle_refl|reflexivity].
    + destruct (IHi j) as [Ld Ed]. destruct (IHi (S j)) as [Lu Eu]. destruct IHj as [Ll El].
      assert (Hge : cle (M (S i) (S j)) (code_cell pen (d i j) (P i j) (P i (S j)) (P (S i) j))).
      { unfold M. rewrite Mf_S_S. apply code_cell_mono; auto; try lia; apply cle_refl. }
      destruct (P_step i j) as [Hc|[Hinf Hbig]].
      * rewrite Hc. split; [exact Hge|]. intros Hm.
        apply cle_antisym; [|exact Hge].
        unfold M in *. rewrite Mf_S_S in *. unfold code_cell, cmin3 in Hm |- *.
        set (a := Mf d pen p1b p2b i j) in *. set (b := Mf d pen p1b p2b i (S j)) in *.
        set (c := Mf d pen p1b p2b (S i) j) in *.
        destruct (cmin_cases (cmin a (cadd b (Fin pen))) (cadd c (Fin pen))) as [E1|E1].
        -- destruct (cmin_cases a (cadd b (Fin pen))) as [E2|E2].
           ++ (* diagonal is the minimiser *)
              rewrite E1, E2 in *. assert (Ha : cle a m) by (eapply cle_trans; [apply cle_cadd_nonneg; apply Hd|exact Hm]).
              rewrite <- (Ed Ha). apply cadd_mono_r. eapply cle_trans; [apply cmin_l|apply cmin_l].
           ++ rewrite E1, E2 in *.
              assert (Hb : cle b m).
              { eapply cle_trans; [|exact Hm]. eapply cle_trans; [apply cle_cadd_nonneg_r; exact HP|].
                apply cle_cadd_nonneg. apply Hd. }
              rewrite <- (Eu Hb). apply cadd_mono_r. eapply cle_trans; [apply cmin_l|apply cmin_r].
        -- rewrite E1 in *.
           assert (Hcc : cle c m).
           { eapply cle_trans; [|exact Hm]. eapply cle_trans; [apply cle_cadd_nonneg_r; exact HP|].
             apply cle_cadd_nonneg. apply Hd. }
           rewrite <- (El Hcc). apply cadd_mono_r. apply cmin_r.
      * rewrite Hinf. split; [apply cle_inf|]. intros Hm. contradiction.
Qed.

(* what the routine returns after its final "d > max_dist -> inf" correction *)
Definition bounded (v : cost) : cost := if cleb v m then v else Inf.

Corollary prune_result i j : bounded (P i j) = bounded (M i j).
Proof.
  destruct (prune_sound i j) as [L E]. unfold bounded.
  destruct (cleb (M i j) m) eqn:Hm.
  - rewrite (E Hm). rewrite Hm. reflexivity.
  - destruct (cleb (P i j) m) eqn:Hp; [|reflexivity].
    assert (cle (M i j) m) by (eapply cle_trans; [exact L|exact Hp]). unfold cle in *. congruence.
Qed.
End Prune.
