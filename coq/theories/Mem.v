(* Buffer-bound lemmas for the rolling buffer of dtw_distance* (C), over the
   index/size expressions regenerated from dd_dtw.c (Gen_cmem): the psi
   prologue and the last-row psi scan stay inside the 2*length allocation.
   (The band-loop writes are the same arithmetic as dtw.distance: BandTie.) *)
From Coq Require Import ZArith Lia.
From DVGen Require Import Gen_cmem.
Open Scope Z_scope.

(* skip after the last row: maxj * (length != l2+1), maxj = max 0 (l1-1 - dl_window), dl_window = dl + window - 1 *)
Definition c_skip_last (l1 l2 window : Z) : Z :=
  let ldiff := Z.abs (l1 - l2) in
  let dl := if l2 <? l1 then ldiff else 0 in
  if c_dtw_distance_length l2 ldiff window =? l2 + 1 then 0
  else Z.max 0 (l1 - 1 - (dl + window - 1)).

Lemma prologue_in_alloc l2 ldiff window psi_2b i :
  1 <= window -> 0 <= l2 -> 0 <= ldiff ->
  0 <= i < c_dtw_distance_psi2b_bound (c_dtw_distance_length l2 ldiff window) psi_2b ->
  0 <= i < c_dtw_distance_alloc (c_dtw_distance_length l2 ldiff window).
Proof. unfold c_dtw_distance_psi2b_bound, c_dtw_distance_alloc, c_dtw_distance_length. lia. Qed.

Lemma scan_in_row l1 l2 window psi_2e i :
  1 <= window -> 1 <= l1 -> 1 <= l2 -> 0 <= psi_2e ->
  let ldiff := Z.abs (l1 - l2) in
  let skip := c_skip_last l1 l2 window in
  c_dtw_distance_psi2e_start l2 psi_2e skip <= i < c_dtw_distance_psi2e_end l2 skip ->
  0 <= i < c_dtw_distance_length l2 ldiff window.
Proof.
  intros Hw H1 H2 Hp. cbv zeta.
  unfold c_dtw_distance_psi2e_start, c_dtw_distance_psi2e_end, c_skip_last, c_dtw_distance_length.
  destruct (Z.ltb_spec l2 l1);
  destruct (Z.eqb_spec (Z.min (l2 + 1) (Z.abs (l1 - l2) + 2 * window + 1)) (l2 + 1)); lia.
Qed.

(* the four template instantiations carry the same expressions *)
Lemma variants_agree l2 ldiff window length psi skip :
  c_dtw_distance_ndim_length l2 ldiff window = c_dtw_distance_length l2 ldiff window /\
  c_dtw_distance_euclidean_length l2 ldiff window = c_dtw_distance_length l2 ldiff window /\
  c_dtw_distance_ndim_euclidean_length l2 ldiff window = c_dtw_distance_length l2 ldiff window /\
  c_dtw_distance_ndim_psi2b_bound length psi = c_dtw_distance_psi2b_bound length psi /\
  c_dtw_distance_euclidean_psi2b_bound length psi = c_dtw_distance_psi2b_bound length psi /\
  c_dtw_distance_ndim_euclidean_psi2b_bound length psi = c_dtw_distance_psi2b_bound length psi /\
  c_dtw_distance_ndim_psi2e_start l2 psi skip = c_dtw_distance_psi2e_start l2 psi skip /\
  c_dtw_distance_euclidean_psi2e_start l2 psi skip = c_dtw_distance_psi2e_start l2 psi skip /\
  c_dtw_distance_ndim_euclidean_psi2e_start l2 psi skip = c_dtw_distance_psi2e_start l2 psi skip /\
  c_dtw_distance_ndim_psi2e_end l2 skip = c_dtw_distance_psi2e_end l2 skip /\
  c_dtw_distance_euclidean_psi2e_end l2 skip = c_dtw_distance_psi2e_end l2 skip /\
  c_dtw_distance_ndim_euclidean_psi2e_end l2 skip = c_dtw_distance_psi2e_end l2 skip /\
  c_dtw_distance_ndim_alloc length = c_dtw_distance_alloc length /\
  c_dtw_distance_euclidean_alloc length = c_dtw_distance_alloc length /\
  c_dtw_distance_ndim_euclidean_alloc length = c_dtw_distance_alloc length.
Proof.
  unfold c_dtw_distance_ndim_length, c_dtw_distance_euclidean_length, c_dtw_distance_ndim_euclidean_length,
    c_dtw_distance_length, c_dtw_distance_ndim_psi2b_bound, c_dtw_distance_euclidean_psi2b_bound,
    c_dtw_distance_ndim_euclidean_psi2b_bound, c_dtw_distance_psi2b_bound, c_dtw_distance_ndim_psi2e_start,
    c_dtw_distance_euclidean_psi2e_start, c_dtw_distance_ndim_euclidean_psi2e_start, c_dtw_distance_psi2e_start,
    c_dtw_distance_ndim_psi2e_end, c_dtw_distance_euclidean_psi2e_end, c_dtw_distance_ndim_euclidean_psi2e_end,
    c_dtw_distance_psi2e_end, c_dtw_distance_ndim_alloc, c_dtw_distance_euclidean_alloc,
    c_dtw_distance_ndim_euclidean_alloc, c_dtw_distance_alloc.
  repeat split; lia.
Qed.
