(* Small helpers shared by the generated files and the models. *)
From Coq Require Import ZArith List Lia.
Import ListNotations.
Open Scope Z_scope.

Fixpoint zrange_aux (n : nat) (a : Z) : list Z :=
  match n with O => [] | S n' => a :: zrange_aux n' (a + 1) end.
(* Python's range(a, b) *)
Definition zrange (a b : Z) : list Z := zrange_aux (Z.to_nat (b - a)) a.

Fixpoint upd_nat {A} (l : list A) (i : nat) (v : A) : list A :=
  match l, i with
  | [], _ => []
  | _ :: t, O => v :: t
  | x :: t, S i' => x :: upd_nat t i' v
  end.
(* a[i] = v for 0 <= i < len(a); other indices leave the list unchanged
   (the theorems that use it prove the index in range) *)
Definition upd {A} (l : list A) (i : Z) (v : A) : list A :=
  if i <? 0 then l else upd_nat l (Z.to_nat i) v.

Lemma zrange_aux_length n a : length (zrange_aux n a) = n.
Proof. revert a; induction n; simpl; intros; auto. Qed.

Lemma zrange_aux_In n a x : In x (zrange_aux n a) <-> a <= x < a + Z.of_nat n.
Proof.
  revert a; induction n as [|n IH]; intros a; simpl.
  - lia.
  - rewrite IH. lia.
Qed.

Lemma zrange_In a b x : In x (zrange a b) <-> a <= x < b.
Proof. unfold zrange. rewrite zrange_aux_In. lia. Qed.

Lemma zrange_nil a b : b <= a -> zrange a b = [].
Proof. intros. unfold zrange. replace (Z.to_nat (b - a)) with O by lia. reflexivity. Qed.

Lemma zrange_cons a b : a < b -> zrange a b = a :: zrange (a + 1) b.
Proof.
  intros. unfold zrange. replace (Z.to_nat (b - a)) with (S (Z.to_nat (b - (a + 1)))) by lia. reflexivity.
Qed.

Lemma zrange_aux_app n m a : zrange_aux (n + m) a = zrange_aux n a ++ zrange_aux m (a + Z.of_nat n).
Proof.
  revert a; induction n as [|n IH]; intros a.
  - simpl. f_equal. lia.
  - cbn [plus zrange_aux app]. rewrite IH. do 3 f_equal. lia.
Qed.

Lemma zrange_snoc a b : a <= b -> zrange a (b + 1) = zrange a b ++ [b].
Proof.
  intros. unfold zrange. replace (Z.to_nat (b + 1 - a)) with (Z.to_nat (b - a) + 1)%nat by lia.
  rewrite zrange_aux_app. simpl. do 2 f_equal. lia.
Qed.

Lemma zrange_length a b : length (zrange a b) = Z.to_nat (b - a).
Proof. apply zrange_aux_length. Qed.
