(* Subsequence alignment (subsequencealignment.py): the query is aligned to the
   series with psi = (0, 0, len(series), len(series)), i.e. free start and free
   end along the series.  The matching function is the last row of the
   accumulated-cost matrix.  Shift lemma: the value at end position e is a lower
   bound of the DTW cost of the query against every segment series[b..e]; by the
   cell-wise optimality theorem (C04) it is attained by a warping path that
   starts at some column b -- so it is the best DTW over all start points. *)
From Coq Require Import ZArith Bool List Lia.
From DV Require Import Prelude Cost Grid Dtw DtwSpec DtwProps.
Import ListNotations.
Open Scope Z_scope.

Section Shift.
Variable d : nat -> nat -> cost.
Variable pen : Z.
Variable c : nat.            (* length of the series *)
Variable b : nat.            (* start column of the segment *)

Definition full := Mf d pen 0 c.                              (* psi_1b = 0, psi_2b = len(series) *)
Definition seg := Mf (fun i j => d i (b + j)%nat) pen 0 0.    (* DTW matrix of the query vs series[b..] , no psi *)

Lemma b0_full j : (j <= c)%nat -> b0 c j = Fin 0.
Proof. intros H. unfold b0. destruct (Nat.leb_spec j c); [reflexivity|lia]. Qed.

Lemma b0_nonneg p j : cle (Fin 0) (b0 p j).
Proof. unfold b0. destruct (j <=? p)%nat; [apply cle_refl|apply cle_inf]. Qed.

Theorem full_le_segment : forall i j, (b + j <= c)%nat -> cle (full i (b + j)) (seg i j).
Proof.
  induction i as [|i IHi]; intros j Hj.
  - unfold full, seg. rewrite !Mf_0. rewrite b0_full by lia. apply b0_nonneg.
  - induction j as [|j IHj].
    + unfold seg. rewrite Mf_S_0. unfold b1. simpl. apply cle_inf.
    + unfold full, seg in *. replace (b + S j)%nat with (S (b + j)) by lia.
      rewrite !Mf_S_S. apply code_cell_mono; try lia; try apply cle_refl.
      * apply IHi. lia.
      * replace (S (b + j)) with (b + S j)%nat by lia. apply IHi. lia.
      * apply IHj. lia.
Qed.
End Shift.
