(* The DTW distance / accumulated-cost-matrix model over series, and the theorem
   that it is the optimum over warping paths. *)
From Coq Require Import ZArith Bool List Lia.
From DV Require Import Prelude Cost Grid Dtw.
Import ListNotations.
Open Scope Z_scope.

Definition mget (m : list (list cost)) (i j : nat) : cost := nth j (nth i m []) Inf.

Section Spec.
Variable u : usettings.
Variables s1 s2 : list point.

Definition sr : nat := length s1.
Definition sc : nat := length s2.
Definition sw : Z := eff_window u sr sc.

(* cost of matching s1[i] with s2[j]; Inf when outside the band or above max_step *)
Definition cell (i j : nat) : cost :=
  if in_band sr sc sw i j then
    let v := pdist (u_inner u) (nth i s1 []) (nth j s2 []) in
    if cleb (Fin v) (adj_max_step u) then Fin v else Inf
  else Inf.

Definition wps_matrix : list (list cost) :=
  matrix cell (adj_penalty u) (psi_1b u) (psi_2b u) sr sc.

Definition Mfun : nat -> nat -> cost := Mf cell (adj_penalty u) (psi_1b u) (psi_2b u).

Lemma wps_matrix_Mfun i j : (i <= sr)%nat -> (j <= sc)%nat -> mget wps_matrix i j = Mfun i j.
Proof. apply matrix_spec. Qed.

(* End cells: the corner, relaxed by psi along the last column / last row,
   never reaching the border row/column (which would be an empty alignment). *)
Definition end_cands : list (nat * nat) :=
  map (fun k => ((sr - k)%nat, sc)) (seq 0 (S (Nat.min (psi_1e u) (sr - 1)))) ++
  map (fun k => (sr, (sc - k)%nat)) (seq 0 (S (Nat.min (psi_2e u) (sc - 1)))).

Definition dtw_value : cost :=
  cmin_list (map (fun ij => mget wps_matrix (fst ij) (snd ij)) end_cands).

Definition too_long : bool :=
  match u_max_length_diff u with
  | None => false
  | Some m => m <? Z.abs (Z.of_nat sr - Z.of_nat sc)
  end.

(* dtw.distance / the first component of dtw.warping_paths, before the result transform *)
Definition dtw_model : cost := if too_long then Inf else dtw_value.

Definition wpath_cost := path_cost cell (adj_penalty u) (psi_1b u) (psi_2b u).

Lemma end_cands_range ij : In ij end_cands -> (fst ij <= sr)%nat /\ (snd ij <= sc)%nat.
Proof.
  unfold end_cands. rewrite in_app_iff, !in_map_iff.
  intros [[k [<- _]]|[k [<- _]]]; simpl; lia.
Qed.

Lemma dtw_value_Mfun :
  dtw_value = cmin_list (map (fun ij => Mfun (fst ij) (snd ij)) end_cands).
Proof.
  unfold dtw_value. f_equal. apply map_ext_in. intros ij H.
  destruct (end_cands_range ij H). apply wps_matrix_Mfun; auto.
Qed.

(* Every warping path ending in an end cell costs at least dtw_value ... *)
Theorem dtw_value_lower : forall ij p v,
  In ij end_cands -> wpath_cost (fst ij) (snd ij) p = Some v -> cle dtw_value v.
Proof.
  intros ij p v Hin Hp. rewrite dtw_value_Mfun.
  eapply cle_trans.
  - apply cmin_list_le. apply in_map_iff. exists ij. split; [reflexivity|exact Hin].
  - eapply Mf_lower. exact Hp.
Qed.

(* ... and dtw_value is the cost of one of them (or there is none of finite cost). *)
Theorem dtw_value_attained :
  dtw_value = Inf \/
  exists ij p, In ij end_cands /\ wpath_cost (fst ij) (snd ij) p = Some dtw_value.
Proof.
  rewrite dtw_value_Mfun.
  destruct (cmin_list_in (map (fun ij => Mfun (fst ij) (snd ij)) end_cands)) as [H|H]; [left; exact H|right].
  apply in_map_iff in H. destruct H as [ij [Hv Hin]].
  destruct (Mf_attained cell (adj_penalty u) (psi_1b u) (psi_2b u) (fst ij) (snd ij)) as [p [Hp _]].
  exists ij, p. split; [exact Hin|]. rewrite <- Hv. exact Hp.
Qed.

End Spec.
