(* dtw.distance AS WRITTEN: two band-wide rows that roll over the matrix, per-row
   column offset (skip), psi prologue / epilogue.  (Early abandoning is switched
   off here: with max_dist = inf the sc/ec bookkeeping is inert.)
   All index arithmetic is the regenerated code (DVGen.Gen_dtw via BandTie).
   This file only DEFINES the model; PyDistProofs.v proves that it computes
   DtwSpec.dtw_value. *)
From Coq Require Import ZArith Bool List Lia.
From DV Require Import Prelude Cost Grid Dtw DtwSpec BandTie.
From DVGen Require Import Gen_dtw.
Import ListNotations.
Open Scope Z_scope.

Definition rget (row : list cost) (q : nat) : cost := nth q row Inf.

Section PyDist.
Variable u : usettings.
Variables s1 s2 : list point.
Let r := length s1.
Let c := length s2.
Let w := eff_window u r c.
Let zr := Z.of_nat r.
Let zc := Z.of_nat c.

Definition L : nat := Z.to_nat (py_dist_length zr zc w).
Definition skip_of (i : nat) : nat := Z.to_nat (eff_skip zr zc w (Z.of_nat i)).
Definition js (i : nat) : nat := Z.to_nat (py_dist_j_start zr zc w (Z.of_nat i)).
Definition je (i : nat) : nat := Z.to_nat (py_dist_j_end zr zc w (Z.of_nat i)).

(* dtw = [inf]*(2*length); for i in range(min(psi_2b+1, length)): dtw[i] = 0 *)
Definition row_init : list cost := map (fun q => if (q <=? psi_2b u)%nat then Fin 0 else Inf) (seq 0 L).

(* one step of the inner loop:  for j in range(j_start, j_end) *)
Definition step_j (i : nat) (skipp skip : nat) (prev : list cost) (cur : list cost) (j : nat) : list cost :=
  let d := pdist (u_inner u) (nth i s1 []) (nth j s2 []) in
  if negb (cleb (Fin d) (adj_max_step u)) then cur                     (* if d > adj_max_step: continue *)
  else upd_nat cur (j + 1 - skip)
         (code_cell (adj_penalty u) (Fin d) (rget prev (j - skipp)) (rget prev (j + 1 - skipp)) (rget cur (j - skip))).

(* one iteration of "for i in range(r)": returns the new current row *)
Definition row_step (i : nat) (skipp : nat) (prev : list cost) : list cost :=
  let skip := skip_of i in
  let cur0 := repeat Inf L in
  let cur1 := if negb (psi_1b u =? 0)%nat && (js i =? 0)%nat && (i <? psi_1b u)%nat then upd_nat cur0 0 (Fin 0) else cur0 in
  fold_left (step_j i skipp skip prev) (seq (js i) (je i - js i)) cur1.

(* state after row i: (current row, its skip, psi_shortest) *)
Fixpoint rows (n : nat) : list cost * nat * cost :=
  match n with
  | O => (row_init, 0%nat, Inf)
  | S i =>
    let '(prev, skipp, ps) := rows i in
    let cur := row_step i skipp prev in
    let ps' := if negb (psi_1e u =? 0)%nat && (je i =? c)%nat && (r - 1 - i <=? psi_1e u)%nat
               then cmin ps (rget cur (je i - skip_of i)) else ps in
    (cur, skip_of i, ps')
  end.

Definition slice_min (row : list cost) (lo hi : nat) : cost :=      (* min(row[lo:hi+1]) *)
  cmin_list (map (rget row) (seq lo (hi + 1 - lo))).

Definition dist_value : cost :=
  let '(cur, skip, ps) := rows r in
  if (psi_1e u =? 0)%nat && (psi_2e u =? 0)%nat then rget cur (c - skip)
  else
    let ic := (c - skip)%nat in
    if negb (psi_2e u =? 0)%nat then cmin (slice_min cur (ic - psi_2e u) ic) ps
    else cmin (rget cur ic) ps.

Definition dist_model : cost := if too_long u s1 s2 then Inf else dist_value.
End PyDist.
