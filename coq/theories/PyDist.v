(* dtw.distance AS WRITTEN: two band-wide rows that roll over the matrix, per-row
   column offset (skip), psi prologue / epilogue.  (Early abandoning is switched
   off here: with max_dist = inf the sc/ec bookkeeping is inert.)
   All index arithmetic is the regenerated code (DVGen.Gen_dtw via BandTie).
   This file only DEFINES the model; PyDistProofs.v proves that it computes
   DtwSpec.dtw_value. *)
From Coq Require Import ZArith Bool List Lia.
From DV Require Import Prelude Cost Grid Dtw DtwSpec BandTie.
From DVGen Require Import Gen_dtw.
Import ListNotations.
Open Scope Z_scope.

Definition rget (row : list cost) (q : nat) : cost := nth q row Inf.

Section PyDist.
Variable u : usettings.
Variables s1 s2 : list point.
Let r := length s1.
Let c := length s2.
Let w := eff_window u r c.
Let zr := Z.of_nat r.
Let zc := Z.of_nat c.

Definition L : nat := Z.to_nat (py_dist_length zr zc w).
Definition skip_of (i : nat) : nat := Z.to_nat (eff_skip zr zc w (Z.of_nat i)).
Definition js (i : nat) : nat := Z.to_nat (py_dist_j_start zr zc w (Z.of_nat i)).
Definition je (i : nat) : nat := Z.to_nat (py_dist_j_end zr zc w (Z.of_nat i)).

(* dtw = [inf]*(2*length); for i in range(min(psi_2b+1, length)): dtw[i] = 0 *)
Definition row_init : list cost := map (fun q => if (q <=? psi_2b u)%nat then Fin 0 else Inf) (seq 0 L).

(* one step of the inner loop:  for j in range(j_start, j_end) *)
Definition step_j (i : nat) (skipp skip : nat) (prev : list cost) (cur : list cost) (j : nat) : list cost :=
  let d := pdist (u_inner u) (nth i s1 []) (nth j s2 []) in
  if negb (cleb (Fin d) (adj_max_step u)) then cur                     (* if d > adj_max_step: continue *)
  else upd_nat cur (j + 1 - skip)
         (code_cell (adj_penalty u) (Fin d) (rget prev (j - skipp)) (rget prev (j + 1 - skipp)) (rget cur (j - skip))).

(* one iteration of "for i in range(r)": returns the new current row *)
Definition row_step (i : nat) (skipp : nat) (prev : list cost) : list cost :=
  let skip := skip_of i in
  let cur0 := repeat Inf L in
  let cur1 := if negb (psi_1b u =? 0)%nat && (js i =? 0)%nat && (i <? psi_1b u)%nat then upd_nat cur0 0 (Fin 0) else cur0 in
  fold_left (step_j i skipp skip prev) (seq (js i) (je i - js i)) cur1.

(* state after row i: (current row, its skip, psi_shortest) *)
Fixpoint rows (n : nat) : list cost * nat * cost :=
  match n with
  | O => (row_init, 0%nat, Inf)
  | S i =>
    let '(prev, skipp, ps) := rows i in
    let cur := row_step i skipp prev in
    let ps' := if negb (psi_1e u =? 0)%nat && (je i =? c)%nat && (r - 1 - i <=? psi_1e u)%nat
               then cmin ps (rget cur (je i - skip_of i)) else ps in
    (cur, skip_of i, ps')
  end.

Definition slice_min (row : list cost) (lo hi : nat) : cost :=      (* min(row[lo:hi+1]) *)
  cmin_list (map (rget row) (seq lo (hi + 1 - lo))).

(* the value read from the last row after the loops *)
Definition final_value (cur : list cost) (skip : nat) (ps : cost) : cost :=
  if (psi_1e u =? 0)%nat && (psi_2e u =? 0)%nat then rget cur (c - skip)
  else
    let ic := (c - skip)%nat in
    if negb (psi_2e u =? 0)%nat then cmin (slice_min cur (ic - psi_2e u) ic) ps
    else cmin (rget cur ic) ps.

Definition dist_value : cost :=
  let '(cur, skip, ps) := rows r in final_value cur skip ps.

Definition dist_model : cost := if too_long u s1 s2 then Inf else dist_value.

(* ------------------------------------------------------------------------------
   The same routine WITH early abandoning (PrunedDTW): bound B = adj_max_dist
   (max_dist in the internal representation, or the Euclidean bound with use_pruning).
   sc / ec / ec_next / smaller_found / break exactly as the code has them.       *)
Variable B : cost.

Record pst := { p_cur : list cost; p_sc : nat; p_smaller : bool; p_ecn : nat; p_stop : bool }.

Definition pstep (i skipp skip : nat) (prev : list cost) (ec : nat) (st : pst) (j : nat) : pst :=
  if p_stop st then st                                                 (* after "break" *)
  else
    let d := pdist (u_inner u) (nth i s1 []) (nth j s2 []) in
    if negb (cleb (Fin d) (adj_max_step u)) then st                    (* if d > adj_max_step: continue *)
    else
      let v := code_cell (adj_penalty u) (Fin d) (rget prev (j - skipp)) (rget prev (j + 1 - skipp))
                         (rget (p_cur st) (j - skip)) in
      let cur' := upd_nat (p_cur st) (j + 1 - skip) v in
      if negb (cleb v B) then                                          (* if dtw[..] > adj_max_dist *)
        {| p_cur := cur';
           p_sc := if p_smaller st then p_sc st else (j + 1)%nat;      (* if not smaller_found: sc = j + 1 *)
           p_smaller := p_smaller st; p_ecn := p_ecn st;
           p_stop := (ec <=? j)%nat |}                                 (* if j >= ec: break *)
      else
        {| p_cur := cur'; p_sc := p_sc st; p_smaller := true; p_ecn := (j + 1)%nat; p_stop := false |}.

(* one iteration of "for i in range(r)" : (new row, sc, ec) *)
Definition prow_step (i skipp : nat) (prev : list cost) (sc ec : nat) : list cost * nat * nat :=
  let skip := skip_of i in
  let sc := if (i <=? psi_1b u)%nat then 0%nat else sc in              (* if i <= psi_1b: sc = 0 *)
  let j0 := Nat.max (js i) sc in                                       (* if sc > j_start: j_start = sc *)
  let cur0 := repeat Inf L in
  let cur1 := if negb (psi_1b u =? 0)%nat && (j0 =? 0)%nat && (i <? psi_1b u)%nat then upd_nat cur0 0 (Fin 0) else cur0 in
  let st := fold_left (pstep i skipp skip prev ec) (seq j0 (je i - j0))
                      {| p_cur := cur1; p_sc := sc; p_smaller := false; p_ecn := i; p_stop := false |} in
  (p_cur st, p_sc st, p_ecn st).                                       (* ec = ec_next *)

Fixpoint prows (n : nat) : list cost * nat * cost * nat * nat :=       (* (row, skip, psi_shortest, sc, ec) *)
  match n with
  | O => (row_init, 0%nat, Inf, 0%nat, psi_2b u)                          (* sc = 0; ec = psi_2b *)
  | S i =>
    let '(prev, skipp, ps, sc, ec) := prows i in
    let '(cur, sc', ec') := prow_step i skipp prev sc ec in
    let ps' := if negb (psi_1e u =? 0)%nat && (je i =? c)%nat && (r - 1 - i <=? psi_1e u)%nat
               then cmin ps (rget cur (je i - skip_of i)) else ps in
    (cur, skip_of i, ps', sc', ec')
  end.

Definition distp_value : cost :=
  let '(cur, skip, ps, _, _) := prows r in
  let d := final_value cur skip ps in
  if negb (cleb d B) then Inf else d.                                  (* if d > adj_max_dist: d = inf *)

Definition distp_model : cost := if too_long u s1 s2 then Inf else distp_value.
End PyDist.
