(* End relaxation in dtw.warping_paths / dtw.warping_path AS WRITTEN.

   warping_paths:   vr = dtw[ir:max(0, ir-psi_1e-1):-1, ic];  mir = argmin(vr)     (last column, bottom-up)
                    vc = dtw[ir, ic:max(0, ic-psi_2e-1):-1];  mic = argmin(vc)     (last row, right-to-left)
                    if vr[mir] < vc[mic]:  dtw[ir:ir-mir:-1, ic] = -1;  d = vr[mir]
                    else:                  dtw[ir, ic:ic-mic:-1] = -1;  d = vc[mic]
   warping_path:    _relaxed_end(paths, settings): skip the chain of -1 marks (see dtw.py) and start
                    best_path there.

   Proved for every matrix of values: the cell _relaxed_end returns is the cell whose
   value warping_paths returned (so the traced path, whose cost is the value of its
   start cell -- C05_traced_path_cost -- costs exactly the reported distance), and it
   is one of the admissible relaxed end cells. *)
From Coq Require Import ZArith Bool List Lia.
From DV Require Import Cost.
Import ListNotations.
Open Scope nat_scope.

Section RelaxedEnd.
Variable val : nat -> nat -> cost.          (* the matrix before marking, rows 0..r, columns 0..c *)
Variables r c : nat.
Hypothesis Hr : 1 <= r.
Hypothesis Hc : 1 <= c.
Variables psi_1e psi_2e : nat.

(* np.argmin over k = 0..n of f k: first index of a minimal value *)
Fixpoint argmin_k (f : nat -> cost) (n : nat) : nat :=
  match n with
  | 0 => 0
  | S n' => let k := argmin_k f n' in if cleb (f k) (f (S n')) then k else S n'
  end.

Lemma argmin_k_le f n : argmin_k f n <= n.
Proof. induction n as [|n IH]; simpl; [lia|]. destruct (cleb _ _); lia. Qed.

Lemma argmin_k_min f n : forall k, k <= n -> cle (f (argmin_k f n)) (f k).
Proof.
  induction n as [|n IH]; intros k Hk; simpl.
  - replace k with 0 by lia. apply cle_refl.
  - destruct (cleb (f (argmin_k f n)) (f (S n))) eqn:E.
    + destruct (Nat.eq_dec k (S n)) as [->|Hne]; [exact E|apply IH; lia].
    + destruct (Nat.eq_dec k (S n)) as [->|Hne]; [apply cle_refl|].
      eapply cle_trans; [|apply IH; lia]. destruct (cle_total (f (S n)) (f (argmin_k f n))) as [H|H]; [exact H|].
      unfold cle in H. congruence.
Qed.

(* first: everything before the argmin is strictly larger *)
Lemma argmin_k_first f n : forall k, k < argmin_k f n -> cleb (f k) (f (argmin_k f n)) = false.
Proof.
  induction n as [|n IH]; intros k Hk; simpl in *; [lia|].
  destruct (cleb (f (argmin_k f n)) (f (S n))) eqn:E; [apply IH; exact Hk|].
  destruct (cleb (f k) (f (S n))) eqn:E2; [|reflexivity]. exfalso.
  pose proof (argmin_k_le f n). assert (Hkn : k <= n) by lia.
  pose proof (argmin_k_min f n k Hkn) as H1. assert (H2 : cle (f (argmin_k f n)) (f (S n))) by (eapply cle_trans; eauto).
  unfold cle in H2. congruence.
Qed.

(* ------------------------------------------------------------ warping_paths: the choice and the marks *)
Definition relaxed : bool := negb ((psi_1e =? 0) && (psi_2e =? 0)).
Definition nr := Nat.min psi_1e (r - 1).                (* last column: rows r, r-1, ..., r - nr *)
Definition nc := Nat.min psi_2e (c - 1).                (* last row: columns c, ..., c - nc *)
Definition kr := if psi_1e =? 0 then r else argmin_k (fun k => val (r - k) c) nr.     (* mir *)
Definition kc := if psi_2e =? 0 then c else argmin_k (fun k => val r (c - k)) nc.     (* mic *)
Definition vr := if psi_1e =? 0 then Inf else val (r - kr) c.
Definition vc := if psi_2e =? 0 then Inf else val r (c - kc).
Definition colwins : bool := cltb vr vc.                 (* if vr_mir < vc_mic *)

Definition chosen : nat * nat := if relaxed then (if colwins then (r - kr, c) else (r, c - kc)) else (r, c).
Definition value : cost := if relaxed then (if colwins then vr else vc) else val r c.

(* dtw[ir:ir-mir:-1, ic] = -1   /   dtw[ir, ic:ic-mic:-1] = -1 *)
Definition marked (i j : nat) : bool :=
  relaxed &&
  (if colwins then (j =? c) && (r - kr <? i) && (i <=? r)
   else (i =? r) && (c - kc <? j) && (j <=? c)).

(* ------------------------------------------------------------ warping_path: _relaxed_end *)
Fixpoint scan_up (fuel rr : nat) : nat :=      (* while rr > 0 and paths[rr, ic] == -1: rr -= 1 *)
  match fuel with
  | 0 => rr
  | S f => if (0 <? rr) && marked rr c then scan_up f (rr - 1) else rr
  end.
Fixpoint scan_left (fuel cc : nat) : nat :=    (* while cc > 0 and paths[ir, cc] == -1: cc -= 1 *)
  match fuel with
  | 0 => cc
  | S f => if (0 <? cc) && marked r cc then scan_left f (cc - 1) else cc
  end.

Definition relaxed_end : nat * nat :=
  if negb (marked r c) then (r, c)
  else
    let rr := scan_up r r in
    let cc := scan_left c c in
    if (1 <? r - rr) || (psi_2e =? 0) then (rr, c)
    else if (1 <? c - cc) || (psi_1e =? 0) then (r, cc)
    else if (cc =? 0) || ((0 <? rr) && cltb (val rr c) (val r cc)) then (rr, c) else (r, cc).

(* ------------------------------------------------------------ facts *)
Lemma kr_le : psi_1e <> 0 -> kr <= r - 1.
Proof. intros H. unfold kr. destruct (Nat.eqb_spec psi_1e 0); [contradiction|]. pose proof (argmin_k_le (fun k => val (r - k) c) nr). unfold nr in *. lia. Qed.
Lemma kc_le : psi_2e <> 0 -> kc <= c - 1.
Proof. intros H. unfold kc. destruct (Nat.eqb_spec psi_2e 0); [contradiction|]. pose proof (argmin_k_le (fun k => val r (c - k)) nc). unfold nc in *. lia. Qed.

Section Marks.
Hypothesis Hrel : relaxed = true.

Lemma scan_up_col : colwins = true -> kr <= r - 1 -> forall fuel rr, r - kr <= rr <= r -> rr - (r - kr) <= fuel -> scan_up fuel rr = r - kr.
Proof.
  intros Hcw Hk. induction fuel as [|f IH]; intros rr H1 H2; simpl; [lia|].
  unfold marked. rewrite Hrel, Hcw, Nat.eqb_refl. cbn [andb].
  destruct (Nat.ltb_spec 0 rr); [|lia]. destruct (Nat.ltb_spec (r - kr) rr); destruct (Nat.leb_spec rr r); cbn [andb]; try lia.
  apply IH; lia.
Qed.
Lemma scan_left_row : colwins = false -> kc <= c - 1 -> forall fuel cc, c - kc <= cc <= c -> cc - (c - kc) <= fuel -> scan_left fuel cc = c - kc.
Proof.
  intros Hcw Hk. induction fuel as [|f IH]; intros cc H1 H2; simpl; [lia|].
  unfold marked. rewrite Hrel, Hcw, Nat.eqb_refl. cbn [andb].
  destruct (Nat.ltb_spec 0 cc); [|lia]. destruct (Nat.ltb_spec (c - kc) cc); destruct (Nat.leb_spec cc c); cbn [andb]; try lia.
  apply IH; lia.
Qed.
(* the other scan only removes the corner *)
Lemma scan_left_stop : forall fuel cc, marked r cc = false -> scan_left fuel cc = cc.
Proof. intros [|f] cc H; [reflexivity|]. cbn [scan_left]. rewrite H, andb_false_r. reflexivity. Qed.
Lemma scan_up_stop : forall fuel rr, marked rr c = false -> scan_up fuel rr = rr.
Proof. intros [|f] rr H; [reflexivity|]. cbn [scan_up]. rewrite H, andb_false_r. reflexivity. Qed.

Lemma scan_left_col : colwins = true -> 1 <= kr <= r - 1 -> forall fuel, 1 <= fuel -> scan_left fuel c = c - 1.
Proof.
  intros Hcw Hk [|f] Hf; [lia|]. cbn [scan_left].
  assert (Hm : marked r c = true).
  { unfold marked. rewrite Hrel, Hcw, Nat.eqb_refl. destruct (Nat.ltb_spec (r - kr) r); destruct (Nat.leb_spec r r); cbn [andb]; lia || reflexivity. }
  rewrite Hm. destruct (Nat.ltb_spec 0 c); [|lia]. cbn [andb]. apply scan_left_stop.
  unfold marked. rewrite Hrel, Hcw. destruct (Nat.eqb_spec (c - 1) c); [lia|]. reflexivity.
Qed.
Lemma scan_up_row : colwins = false -> 1 <= kc <= c - 1 -> forall fuel, 1 <= fuel -> scan_up fuel r = r - 1.
Proof.
  intros Hcw Hk [|f] Hf; [lia|]. cbn [scan_up].
  assert (Hm : marked r c = true).
  { unfold marked. rewrite Hrel, Hcw, Nat.eqb_refl. destruct (Nat.ltb_spec (c - kc) c); destruct (Nat.leb_spec c c); cbn [andb]; lia || reflexivity. }
  rewrite Hm. destruct (Nat.ltb_spec 0 r); [|lia]. cbn [andb]. apply scan_up_stop.
  unfold marked. rewrite Hrel, Hcw. destruct (Nat.eqb_spec (r - 1) r); [lia|]. reflexivity.
Qed.
End Marks.

Lemma cltb_false a b : cltb a b = false -> cle b a.
Proof. unfold cltb. intros H. apply negb_false_iff in H. exact H. Qed.

(* The value returned by warping_paths is finite (a warping path exists within the
   constraints).  When it is infinite the marks of warping_paths are arbitrary
   (mic = ic marks the whole last row) and there is no path to return. *)
Theorem relaxed_end_is_chosen : value <> Inf -> relaxed_end = chosen.
Proof.
  intros Hfin. unfold relaxed_end, chosen. unfold value in Hfin.
  destruct relaxed eqn:Hrel.
  2:{ unfold marked. rewrite Hrel. reflexivity. }
  destruct colwins eqn:Hcw.
  - (* the last column holds the minimum *)
    assert (Hp1 : psi_1e <> 0).
    { intros E. unfold vr in Hfin. rewrite E in Hfin. cbn [Nat.eqb] in Hfin. congruence. }
    pose proof (kr_le Hp1) as Hkr.
    destruct (Nat.eq_dec kr 0) as [K0|K0].
    + (* the corner itself: nothing is marked *)
      assert (Hm : marked r c = false).
      { unfold marked. rewrite Hrel, Hcw, K0, Nat.sub_0_r, Nat.eqb_refl. destruct (Nat.ltb_spec r r); [lia|reflexivity]. }
      rewrite Hm. cbn [negb]. rewrite K0, Nat.sub_0_r. reflexivity.
    + assert (Hm : marked r c = true).
      { unfold marked. rewrite Hrel, Hcw, Nat.eqb_refl. destruct (Nat.ltb_spec (r - kr) r); destruct (Nat.leb_spec r r); cbn [andb]; lia || reflexivity. }
      rewrite Hm. cbn [negb]. rewrite (scan_up_col Hrel Hcw Hkr r r) by lia. rewrite (scan_left_col Hrel Hcw ltac:(lia) c ltac:(lia)).
      destruct (Nat.ltb_spec 1 (r - (r - kr))) as [L1|L1]; cbn [orb]; [reflexivity|].
      assert (K1 : kr = 1) by lia.
      destruct (Nat.eqb_spec psi_2e 0) as [E2|E2]; [reflexivity|].
      destruct (Nat.ltb_spec 1 (c - (c - 1))) as [L2|L2]; [lia|]. cbn [orb].
      destruct (Nat.eqb_spec psi_1e 0); [contradiction|].
      destruct (Nat.eqb_spec (c - 1) 0) as [C1|C1]; [reflexivity|]. cbn [orb].
      destruct (Nat.ltb_spec 0 (r - kr)) as [L3|L3]; [|lia]. cbn [andb].
      (* only the corner is marked: the column neighbour is strictly smaller than the row neighbour *)
      assert (Hlt : cltb (val (r - kr) c) (val r (c - 1)) = true).
      { unfold colwins, vr, vc in Hcw. destruct (Nat.eqb_spec psi_1e 0); [contradiction|]. destruct (Nat.eqb_spec psi_2e 0); [contradiction|].
        unfold cltb in *. apply negb_true_iff. apply negb_true_iff in Hcw.
        destruct (cleb (val r (c - 1)) (val (r - kr) c)) eqn:E; [|reflexivity]. exfalso.
        assert (H1 : cle (val r (c - kc)) (val r (c - 1))).
        { unfold kc. destruct (Nat.eqb_spec psi_2e 0); [contradiction|].
          apply (argmin_k_min (fun k => val r (c - k)) nc 1). unfold nc. lia. }
        assert (H2 : cle (val r (c - kc)) (val (r - kr) c)) by (eapply cle_trans; [exact H1|exact E]).
        unfold cle in H2. congruence. }
      rewrite Hlt. reflexivity.
  - (* the last row holds the minimum (ties included) *)
    assert (Hp2 : psi_2e <> 0).
    { intros E. unfold vc in Hfin. rewrite E in Hfin. cbn [Nat.eqb] in Hfin. congruence. }
    pose proof (kc_le Hp2) as Hkc.
    destruct (Nat.eq_dec kc 0) as [K0|K0].
    + assert (Hm : marked r c = false).
      { unfold marked. rewrite Hrel, Hcw, K0, Nat.sub_0_r, Nat.eqb_refl. destruct (Nat.ltb_spec c c); [lia|reflexivity]. }
      rewrite Hm. cbn [negb]. rewrite K0, Nat.sub_0_r. reflexivity.
    + assert (Hm : marked r c = true).
      { unfold marked. rewrite Hrel, Hcw, Nat.eqb_refl. destruct (Nat.ltb_spec (c - kc) c); destruct (Nat.leb_spec c c); cbn [andb]; lia || reflexivity. }
      rewrite Hm. cbn [negb]. rewrite (scan_left_row Hrel Hcw Hkc c c) by lia. rewrite (scan_up_row Hrel Hcw ltac:(lia) r ltac:(lia)).
      destruct (Nat.ltb_spec 1 (r - (r - 1))) as [L1|L1]; [lia|]. cbn [orb].
      destruct (Nat.eqb_spec psi_2e 0); [contradiction|].
      destruct (Nat.ltb_spec 1 (c - (c - kc))) as [L2|L2]; cbn [orb]; [reflexivity|].
      assert (K1 : kc = 1) by lia.
      destruct (Nat.eqb_spec psi_1e 0) as [E1|E1]; [reflexivity|].
      destruct (Nat.eqb_spec (c - kc) 0) as [C1|C1]; [lia|]. cbn [orb].
      destruct (Nat.ltb_spec 0 (r - 1)) as [R1|R1]; [|reflexivity]. cbn [andb].
      (* only the corner is marked and both sides are relaxed: the row neighbour is not larger *)
      assert (Hge : cltb (val (r - 1) c) (val r (c - kc)) = false).
      { unfold colwins, vr, vc in Hcw. destruct (Nat.eqb_spec psi_1e 0); [contradiction|]. destruct (Nat.eqb_spec psi_2e 0); [contradiction|].
        apply cltb_false in Hcw. unfold cltb. apply negb_false_iff.
        assert (H1 : cle (val (r - kr) c) (val (r - 1) c)).
        { unfold kr. destruct (Nat.eqb_spec psi_1e 0); [contradiction|].
          apply (argmin_k_min (fun k => val (r - k) c) nr 1). unfold nr. lia. }
        eapply cle_trans; [exact Hcw|exact H1]. }
      rewrite Hge. reflexivity.
Qed.

(* the chosen cell holds the value and is an admissible relaxed end cell *)
Theorem chosen_holds_value : value <> Inf -> val (fst chosen) (snd chosen) = value.
Proof.
  unfold chosen, value, vr, vc. destruct relaxed; [|reflexivity]. destruct colwins; cbn [fst snd].
  - destruct (psi_1e =? 0); [congruence|reflexivity].
  - destruct (psi_2e =? 0); [congruence|reflexivity].
Qed.

Theorem chosen_admissible : value <> Inf ->
  (snd chosen = c /\ r - Nat.min psi_1e (r - 1) <= fst chosen <= r) \/
  (fst chosen = r /\ c - Nat.min psi_2e (c - 1) <= snd chosen <= c).
Proof.
  unfold chosen, value. destruct relaxed; [|cbn; left; split; [reflexivity|lia]].
  destruct colwins; cbn [fst snd]; intros Hfin.
  - left. split; [reflexivity|]. unfold vr in Hfin. destruct (Nat.eqb_spec psi_1e 0) as [E|E]; [congruence|].
    unfold kr. destruct (Nat.eqb_spec psi_1e 0); [contradiction|]. pose proof (argmin_k_le (fun k => val (r - k) c) nr). unfold nr in *. lia.
  - right. split; [reflexivity|]. unfold vc in Hfin. destruct (Nat.eqb_spec psi_2e 0) as [E|E]; [congruence|].
    unfold kc. destruct (Nat.eqb_spec psi_2e 0); [contradiction|]. pose proof (argmin_k_le (fun k => val r (c - k)) nc). unfold nc in *. lia.
Qed.

(* and it is minimal among all admissible relaxed end cells *)
Theorem value_minimal : relaxed = true ->
  (forall k, psi_1e <> 0 -> k <= nr -> cle value (val (r - k) c)) /\
  (forall k, psi_2e <> 0 -> k <= nc -> cle value (val r (c - k))).
Proof.
  intros Hrel. unfold value. rewrite Hrel.
  assert (Hr_min : forall k, psi_1e <> 0 -> k <= nr -> cle vr (val (r - k) c)).
  { intros k Hp Hk. unfold vr, kr. destruct (Nat.eqb_spec psi_1e 0); [contradiction|]. apply (argmin_k_min (fun k => val (r - k) c) nr k Hk). }
  assert (Hc_min : forall k, psi_2e <> 0 -> k <= nc -> cle vc (val r (c - k))).
  { intros k Hp Hk. unfold vc, kc. destruct (Nat.eqb_spec psi_2e 0); [contradiction|]. apply (argmin_k_min (fun k => val r (c - k)) nc k Hk). }
  destruct colwins eqn:Hcw; split; intros k Hp Hk.
  - apply Hr_min; assumption.
  - eapply cle_trans; [|apply Hc_min; assumption]. unfold colwins, cltb in Hcw. apply negb_true_iff in Hcw.
    destruct (cle_total vr vc) as [H|H]; [exact H|]. unfold cle in H. congruence.
  - eapply cle_trans; [|apply Hr_min; assumption]. apply cltb_false. exact Hcw.
  - apply Hc_min; assumption.
Qed.
End RelaxedEnd.
