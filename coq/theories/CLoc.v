(* dtw_wps_loc / dtw_wps_loc_columns (index of a cell / of the first stored column of a row in the compact array; used by
   dtw_best_path_customstart, negativize / positivize, wps_get): their four row regions are regenerated (Gen_cloc.v).
   Proved for every length and window: for row r (1..l1) and every column c the routines enumerate for that row,
   the slot they return is the layout slot c - shift(r - 1) (CWps.v, matrix coordinates) and lies inside the row. *)
From Coq Require Import ZArith Bool Lia String List.
From DV Require Import Dtw CWps CFill.
From DVGen Require Import Gen_cwps Gen_cfill Gen_cloc.
Import ListNotations.
Open Scope Z_scope.

Section Loc.
Variables l1 l2 window0 : Z.
Local Notation ldiff := (c_parts_ldiff l1 l2).
Local Notation ldiffr := (c_parts_ldiffr l1 l2 ldiff).
Local Notation ldiffc := (c_parts_ldiffc l1 l2 ldiff).
Local Notation window := (c_parts_window l1 l2 window0).
Local Notation ol := (c_parts_overlap_left l1 ldiffr window).
Local Notation orr := (c_parts_overlap_right l1 ldiffr window).
Local Notation ri2 := (c_parts_ri2 l1 ol).
Local Notation ri3 := (c_parts_ri3 l1 ol orr).

(* for (ri=1; ri<p->ri1+1 ..), (ri=p->ri1+1; ri<p->ri2+1 ..), ...: matrix row r belongs to region R iff data row r-1 does *)
Definition l_first (r : loc_region) : Z := region_lo l1 l2 window0 (lr_region r) + 1.
Definition l_min (r : loc_region) (row : Z) : Z := lr_min0 r l2 window ldiff ldiffr ldiffc ri2 ri3 + lr_dmin r * (row - l_first r).
Definition l_max (r : loc_region) (row : Z) : Z := lr_max0 r l2 window ldiff ldiffr ldiffc ri2 ri3 + lr_dmax r * (row - l_first r).
Definition l_w (r : loc_region) (row : Z) : Z := lr_w0 r l2 window ldiff ldiffr ldiffc ri2 ri3 + lr_dw r * (row - l_first r).
Definition l_slot (r : loc_region) (row c : Z) : Z := l_w r row + (c - l_min r row).

Definition loc_ok (r : loc_region) : Prop :=
  forall row c, region_lo l1 l2 window0 (lr_region r) < row <= region_hi l1 l2 window0 (lr_region r) -> 1 <= row <= l1 ->
    l_min r row <= c < l_max r row ->
    l_slot r row c = c - cw_shift l1 l2 window0 (row - 1) /\ 0 <= l_slot r row c < cw_width l1 l2 window0 /\ 0 <= c <= l2.
End Loc.

Definition lcanon (R : region_id) : loc_region :=
  match R with
  | RA => {| lr_function := ""; lr_region := RA;
             lr_min0 := fun l2 window ldiff ldiffr ldiffc ri2 ri3 => 0;
             lr_max0 := fun l2 window ldiff ldiffr ldiffc ri2 ri3 => ((window + ldiffc) + 1);
             lr_w0 := fun l2 window ldiff ldiffr ldiffc ri2 ri3 => 0; lr_dmin := 0; lr_dmax := 1; lr_dw := 0 |}
  | RB => {| lr_function := ""; lr_region := RB;
             lr_min0 := fun l2 window ldiff ldiffr ldiffc ri2 ri3 => 0;
             lr_max0 := fun l2 window ldiff ldiffr ldiffc ri2 ri3 => (l2 + 1);
             lr_w0 := fun l2 window ldiff ldiffr ldiffc ri2 ri3 => 0; lr_dmin := 0; lr_dmax := 0; lr_dw := 0 |}
  | RC => {| lr_function := ""; lr_region := RC;
             lr_min0 := fun l2 window ldiff ldiffr ldiffc ri2 ri3 => 1;
             lr_max0 := fun l2 window ldiff ldiffr ldiffc ri2 ri3 => ((((1 + (2 * window)) - 1) + ldiff) + 1);
             lr_w0 := fun l2 window ldiff ldiffr ldiffc ri2 ri3 => 0; lr_dmin := 1; lr_dmax := 1; lr_dw := 0 |}
  | RD => {| lr_function := ""; lr_region := RD;
             lr_min0 := fun l2 window ldiff ldiffr ldiffc ri2 ri3 =>
               (if ri2 =? ri3 then (Z.max 0 (((ri3 + 1) - window) - ldiff)) else ((1 + ri3) - ri2));
             lr_max0 := fun l2 window ldiff ldiffr ldiffc ri2 ri3 => (l2 + 1);
             lr_w0 := fun l2 window ldiff ldiffr ldiffc ri2 ri3 =>
               ((if ri2 =? ri3 then ((Z.max 0 (((ri3 + 1) - window) - ldiff)) + 1) else 2) - 1);
             lr_dmin := 1; lr_dmax := 0; lr_dw := 1 |}
  end.

Definition lgeometry (r : loc_region) := (lr_region r, lr_min0 r, lr_max0 r, lr_w0 r, (lr_dmin r, lr_dmax r, lr_dw r)).

Lemma loc_ok_geometry l1 l2 window0 r c : lgeometry r = lgeometry c -> loc_ok l1 l2 window0 c -> loc_ok l1 l2 window0 r.
Proof.
  unfold lgeometry. intros E. inversion E as [[E1 E2 E3 E4 E5 E6 E7]].
  unfold loc_ok, l_slot, l_w, l_min, l_max, l_first. rewrite E1, E2, E3, E4, E5, E6, E7. exact (fun H => H).
Qed.

Ltac lcanon_tac l1 l2 window0 Ww Wd :=
  unfold loc_ok, l_slot, l_w, l_min, l_max, l_first, region_lo, region_hi; cbv [lcanon];
  cbn [lr_region lr_min0 lr_max0 lr_w0 lr_dmin lr_dmax lr_dw];
  unfold cw_shift, cw_width, cw_ri2, cw_ri3, cw_window;
  rewrite ?ldiffr_norm, ?ldiffc_norm, ?overlap_right_norm, ?ldiff_norm;
  unfold c_parts_ri1, c_parts_ri2, c_parts_ri3, c_parts_overlap_left;
  rewrite ?Wd; rewrite ?Ww; intros row c Hreg Hrow;
  rewrite !shift_norm by lia;
  repeat match goal with |- context [?a =? ?b] => destruct (Z.eqb_spec a b) end;
  intros Hc; repeat match goal with |- _ /\ _ => split end; lia.

Lemma lcanon_ok l1 l2 window0 : 1 <= l1 -> 1 <= l2 -> 0 <= window0 -> forall R, loc_ok l1 l2 window0 (lcanon R).
Proof.
  intros H1 H2 Hw R.
  destruct (window_norm l1 l2 window0 Hw H1 H2) as [(W0 & Ww & Wd)|(W0 & Ww & Wd)]; destruct R.
  - idtac "A0". time lcanon_tac l1 l2 window0 Ww Wd.
  - idtac "B0". time lcanon_tac l1 l2 window0 Ww Wd.
  - idtac "C0". time lcanon_tac l1 l2 window0 Ww Wd.
  - idtac "D0". time lcanon_tac l1 l2 window0 Ww Wd.
  - idtac "A1". time lcanon_tac l1 l2 window0 Ww Wd.
  - idtac "B1". time lcanon_tac l1 l2 window0 Ww Wd.
  - idtac "C1". time lcanon_tac l1 l2 window0 Ww Wd.
  - idtac "D1". time lcanon_tac l1 l2 window0 Ww Wd.
Qed.

Theorem loc_regions_follow_the_layout : forall l1 l2 window0, 1 <= l1 -> 1 <= l2 -> 0 <= window0 ->
  forall r, In r loc_regions -> loc_ok l1 l2 window0 r.
Proof.
  intros l1 l2 window0 H1 H2 Hw r Hin.
  apply loc_ok_geometry with (c := lcanon (lr_region r)); [|apply lcanon_ok; assumption].
  unfold loc_regions in Hin.
  repeat (destruct Hin as [<-|Hin]; [reflexivity|]). destruct Hin.
Qed.
