(* Needleman-Wunsch (alignment.py on top of dp.dp) as an instance of the generic
   grid DP over (Z, min, +): value = optimum over all global alignments (grid
   paths with leading gaps charged by the border), and the traceback through the
   recorded arrows -- in any priority order -- realises that value. *)
From Coq Require Import ZArith Bool List Lia.
From DV Require Import Prelude Grid.
Import ListNotations.
Open Scope Z_scope.

Section NW.
Variable sub : nat -> nat -> Z.      (* fn(s1[i], s2[j])[0] : substitution cost (minimised, i.e. -score) *)
Variable indel : nat -> nat -> Z.    (* fn(s1[i], s2[j])[1] : gap cost *)
(* _needleman_wunsch_border: k leading gaps cost k -- whatever the gap cost of the substitution function is.
   [bs] is the unit in which all costs are expressed (2 when half-integer costs are scaled to integers). *)
Variable bs : Z.
Definition nb0 (j : nat) : Z := bs * Z.of_nat j.
Definition nb1 (i : nat) : Z := bs * Z.of_nat i.

Definition NM : nat -> nat -> Z := M Z Z.add Z.min nb0 nb1 sub indel indel.
Definition nw_cost := pcost Z Z.add nb0 nb1 sub indel indel.

Lemma zmin_cases a b : Z.min a b = a \/ Z.min a b = b.
Proof. destruct (Z.min_spec a b) as [[_ H]|[_ H]]; auto. Qed.

Theorem nw_lower i j p v : nw_cost i j p = Some v -> NM i j <= v.
Proof.
  apply (M_lower Z Z.le Z.add Z.le_refl Z.le_trans); intros; lia.
Qed.

Theorem nw_attained i j : exists p, nw_cost i j p = Some (NM i j) /\ (length p <= i + j)%nat.
Proof. apply (M_attained Z Z.add Z.min zmin_cases). Qed.

(* candidates of an interior cell, as dp.dp compares them to record the arrows *)
Definition cand (i j : nat) (s : step) : Z :=
  match s with
  | SD => NM i j + sub i j
  | SU => NM i (S j) + indel i j
  | SL => NM (S i) j + indel i j
  end.
Definition has_arrow (i j : nat) (s : step) : bool := cand i j s =? NM (S i) (S j).

(* best_alignment: follow the first arrow present in the given priority order *)
Definition choose (order : list step) (i j : nat) : step :=
  match find (has_arrow i j) order with Some s => s | None => SD end.

Fixpoint tbo (order : list step) (fuel i j : nat) : list step :=
  match fuel with
  | O => []
  | S f =>
    match i, j with
    | S i', S j' =>
      let s := choose order i' j' in
      s :: match s with SD => tbo order f i' j' | SU => tbo order f i' (S j') | SL => tbo order f (S i') j' end
    | _, _ => []
    end
  end.

Lemma NM_S_S i j : NM (S i) (S j) = Z.min (Z.min (cand i j SD) (cand i j SU)) (cand i j SL).
Proof. reflexivity. Qed.

Lemma some_arrow i j : has_arrow i j SD = true \/ has_arrow i j SU = true \/ has_arrow i j SL = true.
Proof. unfold has_arrow. rewrite NM_S_S. rewrite !Z.eqb_eq. lia. Qed.

Lemma choose_has_arrow order i j : In SD order -> In SU order -> In SL order ->
  cand i j (choose order i j) = NM (S i) (S j).
Proof.
  intros HD HU HL. unfold choose. destruct (find (has_arrow i j) order) as [s|] eqn:E.
  - apply find_some in E. destruct E as [_ E]. unfold has_arrow in E. apply Z.eqb_eq in E. exact E.
  - exfalso. destruct (some_arrow i j) as [H|[H|H]];
      [pose proof (find_none _ _ E SD HD)|pose proof (find_none _ _ E SU HU)|pose proof (find_none _ _ E SL HL)]; congruence.
Qed.

Theorem tbo_cost order : In SD order -> In SU order -> In SL order ->
  forall fuel i j, (i + j <= fuel)%nat -> nw_cost i j (tbo order fuel i j) = Some (NM i j).
Proof.
  intros HD HU HL. induction fuel as [|f IH]; intros i j H.
  - assert (i = 0%nat) by lia. assert (j = 0%nat) by lia. subst. reflexivity.
  - destruct i as [|i]; [reflexivity|]. destruct j as [|j]; [reflexivity|].
    cbn [tbo]. unfold nw_cost. cbn [pcost]. pose proof (choose_has_arrow order i j HD HU HL) as Hc.
    destruct (choose order i j); fold nw_cost; rewrite IH by lia; simpl; f_equal; exact Hc.
Qed.
End NW.
