(* The regenerated kernel dtw_warping_paths_ndim on two series of points: CWpsSpec.v instantiated with the cell
   cost of the specification (DtwSpec.cell: squared Euclidean distance of the two points, infinite outside the band
   or above max_step).  The band hypothesis and the cell hypothesis of CWpsSpec.v are discharged here (the
   coordinate loop by CDistSpec.nd_acc_value), so the statement is about the compiled text and DtwSpec.wps_matrix
   only: slot s of row i of the buffer holds cell (i, s + shift(i-1)) of the specification matrix. *)
From Coq Require Import ZArith Bool Lia List.
From DV Require Import Prelude Cost Grid Dtw DtwSpec DtwProps Engines CWps CFill CExpand CFillSim CLang CDistTie CDistSpec
  Traceback TracebackC CTrace CTraceSim CTraceSpec Prune PyDistPrune CWpsCanon CWpsCanonEu CWpsKernel CWpsValue CWpsMarks CWpsSpec CWpsSpecEu CExpW CWpsPrune CWpsSpecB CWpsSpecBEu CWpsValueB CParts.
From DVGen Require Import Gen_cwps Gen_cfill Gen_cwpsk Gen_cexpw Gen_cparts Gen_cdist.
Import ListNotations.
Open Scope Z_scope.

Section Final.
Variables (window p m mld : Z) (psi : (nat * nat) * (nat * nat)).
Hypothesis Hwin : 0 <= window.
Local Notation usq := (c_to_u (cs_of window p m mld psi SqEuclid)).
Variables (s1 s2 : list point) (d : nat).
Hypothesis Hd1 : forall q, In q s1 -> length q = d.
Hypothesis Hd2 : forall q, In q s2 -> length q = d.
Hypothesis H1 : (1 <= length s1)%nat.
Hypothesis H2 : (1 <= length s2)%nat.
Hypothesis Hp1 : (psi_1b usq <= length s1)%nat.
Hypothesis Hp2 : (psi_2b usq <= length s2)%nat.
Local Notation l1 := (Z.of_nat (length s1)).
Local Notation l2 := (Z.of_nat (length s2)).

Lemma c_window_arg_usq : c_window_arg usq = window.
Proof. unfold c_window_arg, c_to_u, cs_of, offz; cbn. destruct (Z.eqb_spec window 0); congruence. Qed.

Lemma usq_window_ok : match u_window usq with Some w => 1 <= w | None => True end.
Proof. unfold c_to_u, cs_of, offz; cbn. destruct (Z.eqb_spec window 0); [exact I|lia]. Qed.

Lemma cell_outside_band ri ci : Z.of_nat ri < l1 ->
  ~ (blo l1 l2 window (Z.of_nat ri) <= Z.of_nat ci < bhi l1 l2 window (Z.of_nat ri)) -> cell usq s1 s2 ri ci = Inf.
Proof.
  intros Hri Hout. unfold cell. destruct (in_band _ _ _ ri ci) eqn:E; [|reflexivity]. exfalso. apply Hout.
  unfold in_band in E. apply andb_true_iff in E. destruct E as [E1 E2]. apply Z.leb_le in E1. apply Z.ltb_lt in E2.
  destruct (c_window_band usq s1 s2 (Z.of_nat ri) ltac:(unfold sr; lia) ltac:(unfold sc; lia) usq_window_ok
              ltac:(unfold sr; lia)) as [Elo Ehi].
  rewrite c_window_arg_usq in Elo, Ehi. unfold blo, bhi. unfold sr, sc in *. rewrite Elo, Ehi. lia.
Qed.

Lemma cell_on_band ri ci : Z.of_nat ri < l1 ->
  blo l1 l2 window (Z.of_nat ri) <= Z.of_nat ci < bhi l1 l2 window (Z.of_nat ri) ->
  wdok l1 l2 (Z.of_nat d) (concat s1) (concat s2) (Z.of_nat ri * Z.of_nat d) (Z.of_nat ci) = true /\
  (if cltb (adj_max_step usq) (wdfun_sq l1 l2 (Z.of_nat d) (concat s1) (concat s2) (Z.of_nat ri * Z.of_nat d) (Z.of_nat ci))
   then Inf else wdfun_sq l1 l2 (Z.of_nat d) (concat s1) (concat s2) (Z.of_nat ri * Z.of_nat d) (Z.of_nat ci))
  = cell usq s1 s2 ri ci.
Proof.
  intros Hri Hin.
  assert (Hci : (ci < length s2)%nat).
  { unfold bhi, band_hi in Hin. lia. }
  pose proof (nd_acc_value s1 s2 d Hd1 Hd2 ri ci ltac:(lia) Hci) as HV. unfold nd_acc in HV.
  unfold wdok, wdfun_sq. rewrite HV. cbn [fst snd]. split; [reflexivity|].
  unfold cell.
  destruct (c_window_band usq s1 s2 (Z.of_nat ri) ltac:(unfold sr; lia) ltac:(unfold sc; lia) usq_window_ok
              ltac:(unfold sr; lia)) as [Elo Ehi].
  rewrite c_window_arg_usq in Elo, Ehi. unfold blo, bhi in Hin. unfold sr, sc in *. rewrite Elo, Ehi in Hin.
  assert (E : in_band (length s1) (length s2) (sw usq s1 s2) ri ci = true).
  { unfold in_band. apply andb_true_iff. split; [apply Z.leb_le|apply Z.ltb_lt]; lia. }
  unfold sr, sc. rewrite E. unfold cltb. change (u_inner usq) with SqEuclid. cbn [pdist].
  destruct (cleb (Fin (pdist_sq (nth ri s1 []) (nth ci s2 []))) (adj_max_step usq)); reflexivity.
Qed.

Theorem c_wps_kernel_stores_spec_matrix ce shiftf ced1 ced2 wps0 psi_neg idist zp1e zp2e :
  let W := cw_width l1 l2 window in
  Z.of_nat (length wps0) = (l1 + 1) * W -> (idist =? 1) = false ->
  exists wps',
    c_dtw_warping_paths_ndim ce shiftf ced1 ced2 wps0 (concat s1) l1 (concat s2) l2 false true psi_neg (Z.of_nat d)
      ((l1 + 1) * W) (c_parts_ldiff l1 l2) (c_parts_ldiffr l1 l2 (c_parts_ldiff l1 l2))
      (c_parts_ldiffc l1 l2 (c_parts_ldiff l1 l2)) (c_parts_window l1 l2 window) W ((l1 + 1) * W)
      (c_parts_ri1 l1 (c_parts_overlap_left l1 (c_parts_ldiffr l1 l2 (c_parts_ldiff l1 l2)) (c_parts_window l1 l2 window))
                      (c_parts_overlap_right l1 (c_parts_ldiffr l1 l2 (c_parts_ldiff l1 l2)) (c_parts_window l1 l2 window)))
      (c_parts_ri2 l1 (c_parts_overlap_left l1 (c_parts_ldiffr l1 l2 (c_parts_ldiff l1 l2)) (c_parts_window l1 l2 window)))
      (c_parts_ri3 l1 (c_parts_overlap_left l1 (c_parts_ldiffr l1 l2 (c_parts_ldiff l1 l2)) (c_parts_window l1 l2 window))
                      (c_parts_overlap_right l1 (c_parts_ldiffr l1 l2 (c_parts_ldiff l1 l2)) (c_parts_window l1 l2 window)))
      (adj_max_step usq) Inf (Fin (adj_penalty usq)) idist false (Z.of_nat (psi_1b usq)) zp1e (Z.of_nat (psi_2b usq)) zp2e false
    = (RPlain (Fin (-1)), wps', true) /\
    Z.of_nat (length wps') = (l1 + 1) * W /\
    forall (i : nat) (s : Z), Z.of_nat i <= l1 -> 0 <= s < W ->
      s + cw_shift l1 l2 window (Z.of_nat i - 1) <= l2 ->
      (s + cw_shift l1 l2 window (Z.of_nat i - 1) = 0 -> Z.of_nat i <= cw_ri2 l1 l2 window) ->
      aget wps' (Z.of_nat i * W + s) = mget (wps_matrix usq s1 s2) i (Z.to_nat (s + cw_shift l1 l2 window (Z.of_nat i - 1))).
Proof.
  intros W HL Hid.
  destruct (c_wps_kernel_fills_the_matrix l1 l2 window ltac:(lia) ltac:(lia) Hwin (cell usq s1 s2) (adj_penalty usq)
              (psi_1b usq) (psi_2b usq) cell_outside_band (Z.of_nat d) (concat s1) (concat s2) (adj_max_step usq)
              cell_on_band ltac:(lia) ltac:(lia) ce shiftf ced1 ced2 wps0 psi_neg idist zp1e zp2e HL Hid)
    as (wps' & E & HLen & Hrows).
  exists wps'. split; [exact E|]. split; [exact HLen|].
  intros i s Hi Hs Hcol Hb.
  pose proof (Hrows i ltac:(lia)) as HH. unfold holds in HH. specialize (HH s Hs Hcol Hb).
  unfold rowf in HH. fold W in HH. rewrite HH.
  pose proof (shift_nonneg l1 l2 window ltac:(lia) ltac:(lia) Hwin (Z.of_nat i - 1)) as Hsh.
  rewrite wps_matrix_Mfun; [reflexivity| unfold sr; lia | unfold sc; lia].
Qed.
(* run for its value (return_dtw = true), with or without the final sqrt pass (keep_int_repr), dtw_wps_shift being
   the regenerated function (Gen_cwps.c_wps_shift through CWps.cw_shift): the value returned IS the DTW value of the
   specification - the minimum over the psi-relaxed end cells, found by the corner read or the two scans - and the
   array holds the specification matrix in the representation asked for *)
Theorem c_wps_kernel_returns_the_dtw_value ce ced1 ced2 wps0 keep idist :
  let W := cw_width l1 l2 window in
  Z.of_nat (length wps0) = (l1 + 1) * W -> (idist =? 1) = false ->
  exists wps',
    c_dtw_warping_paths_ndim ce (cw_shift l1 l2 window) ced1 ced2 wps0 (concat s1) l1 (concat s2) l2 true keep false (Z.of_nat d)
      ((l1 + 1) * W) (c_parts_ldiff l1 l2) (c_parts_ldiffr l1 l2 (c_parts_ldiff l1 l2))
      (c_parts_ldiffc l1 l2 (c_parts_ldiff l1 l2)) (c_parts_window l1 l2 window) W ((l1 + 1) * W)
      (c_parts_ri1 l1 (c_parts_overlap_left l1 (c_parts_ldiffr l1 l2 (c_parts_ldiff l1 l2)) (c_parts_window l1 l2 window))
                      (c_parts_overlap_right l1 (c_parts_ldiffr l1 l2 (c_parts_ldiff l1 l2)) (c_parts_window l1 l2 window)))
      (c_parts_ri2 l1 (c_parts_overlap_left l1 (c_parts_ldiffr l1 l2 (c_parts_ldiff l1 l2)) (c_parts_window l1 l2 window)))
      (c_parts_ri3 l1 (c_parts_overlap_left l1 (c_parts_ldiffr l1 l2 (c_parts_ldiff l1 l2)) (c_parts_window l1 l2 window))
                      (c_parts_overlap_right l1 (c_parts_ldiffr l1 l2 (c_parts_ldiff l1 l2)) (c_parts_window l1 l2 window)))
      (adj_max_step usq) Inf (Fin (adj_penalty usq)) idist false (Z.of_nat (psi_1b usq)) (Z.of_nat (psi_1e usq))
      (Z.of_nat (psi_2b usq)) (Z.of_nat (psi_2e usq)) false
    = (RPlain (sq_repr keep (dtw_value usq s1 s2)), wps', true) /\
    Z.of_nat (length wps') = (l1 + 1) * W /\
    forall (i : nat) (s : Z), Z.of_nat i <= l1 -> 0 <= s < W ->
      s + cw_shift l1 l2 window (Z.of_nat i - 1) <= l2 ->
      (s + cw_shift l1 l2 window (Z.of_nat i - 1) = 0 -> Z.of_nat i <= cw_ri2 l1 l2 window) ->
      aget wps' (Z.of_nat i * W + s)
      = sq_repr keep (mget (wps_matrix usq s1 s2) i (Z.to_nat (s + cw_shift l1 l2 window (Z.of_nat i - 1)))).
Proof.
  intros W HL Hid.
  destruct (c_wps_kernel_runs l1 l2 window ltac:(lia) ltac:(lia) Hwin (cell usq s1 s2) (adj_penalty usq)
              (psi_1b usq) (psi_2b usq) cell_outside_band (Z.of_nat d) (concat s1) (concat s2) (adj_max_step usq)
              cell_on_band ltac:(lia) ltac:(lia) ce (cw_shift l1 l2 window) ced1 ced2 wps0 true keep false idist
              (Z.of_nat (psi_1e usq)) (Z.of_nat (psi_2e usq)) HL Hid)
    as (wD & E & HLen & Hrows).
  destruct (tail_value l1 l2 window ltac:(lia) ltac:(lia) Hwin (cell usq s1 s2) (adj_penalty usq) (psi_1b usq) (psi_2b usq)
              cell_outside_band wD HLen Hrows keep (psi_1e usq) (psi_2e usq)) as (wps' & ET & HLT & HcT).
  exists wps'. fold W in ET, E, HLen, HcT. rewrite E, ET. split.
  - f_equal. f_equal. f_equal. f_equal. rewrite dtw_value_Mfun. unfold end_value, ecands, end_cands, sr, sc, Mfun.
    rewrite !Nat2Z.id. reflexivity.
  - split; [lia|]. intros i s Hi Hs Hcol Hb. pose proof (W_pos l1 l2 window ltac:(lia) ltac:(lia) Hwin) as HW. fold W in HW.
    rewrite HcT by nia. f_equal.
    pose proof (Hrows i ltac:(lia)) as HH. unfold holds in HH. specialize (HH s Hs Hcol Hb).
    unfold rowf in HH. fold W in HH. rewrite HH.
    pose proof (shift_nonneg l1 l2 window ltac:(lia) ltac:(lia) Hwin (Z.of_nat i - 1)) as Hsh.
    rewrite wps_matrix_Mfun; [reflexivity| unfold sr; lia | unfold sc; lia].
Qed.
(* run for its value WITH the -1 marks (psi_neg = true): the value is the DTW value, it is attained at an end cell
   (ie, je) of the specification, and the array holds the specification matrix except that the cells of the last column
   below row ie - or of the last row right of column je - which the relaxed end skips read -1 *)
Theorem c_wps_kernel_marks ce ced1 ced2 wps0 keep idist :
  let W := cw_width l1 l2 window in
  Z.of_nat (length wps0) = (l1 + 1) * W -> (idist =? 1) = false ->
  exists wps' (ie je : nat),
    c_dtw_warping_paths_ndim ce (cw_shift l1 l2 window) ced1 ced2 wps0 (concat s1) l1 (concat s2) l2 true keep true (Z.of_nat d)
      ((l1 + 1) * W) (c_parts_ldiff l1 l2) (c_parts_ldiffr l1 l2 (c_parts_ldiff l1 l2))
      (c_parts_ldiffc l1 l2 (c_parts_ldiff l1 l2)) (c_parts_window l1 l2 window) W ((l1 + 1) * W)
      (c_parts_ri1 l1 (c_parts_overlap_left l1 (c_parts_ldiffr l1 l2 (c_parts_ldiff l1 l2)) (c_parts_window l1 l2 window))
                      (c_parts_overlap_right l1 (c_parts_ldiffr l1 l2 (c_parts_ldiff l1 l2)) (c_parts_window l1 l2 window)))
      (c_parts_ri2 l1 (c_parts_overlap_left l1 (c_parts_ldiffr l1 l2 (c_parts_ldiff l1 l2)) (c_parts_window l1 l2 window)))
      (c_parts_ri3 l1 (c_parts_overlap_left l1 (c_parts_ldiffr l1 l2 (c_parts_ldiff l1 l2)) (c_parts_window l1 l2 window))
                      (c_parts_overlap_right l1 (c_parts_ldiffr l1 l2 (c_parts_ldiff l1 l2)) (c_parts_window l1 l2 window)))
      (adj_max_step usq) Inf (Fin (adj_penalty usq)) idist false (Z.of_nat (psi_1b usq)) (Z.of_nat (psi_1e usq))
      (Z.of_nat (psi_2b usq)) (Z.of_nat (psi_2e usq)) false
    = (RPlain (sq_repr keep (dtw_value usq s1 s2)), wps', true) /\
    (dtw_value usq s1 s2 <> Inf -> mget (wps_matrix usq s1 s2) ie je = dtw_value usq s1 s2 /\ In (ie, je) (end_cands usq s1 s2)) /\
    forall (i : nat) (s : Z), Z.of_nat i <= l1 -> 0 <= s < W ->
      s + cw_shift l1 l2 window (Z.of_nat i - 1) <= l2 ->
      (s + cw_shift l1 l2 window (Z.of_nat i - 1) = 0 -> Z.of_nat i <= cw_ri2 l1 l2 window) ->
      let col := Z.to_nat (s + cw_shift l1 l2 window (Z.of_nat i - 1)) in
      let skipped := (je = length s2 /\ col = length s2 /\ (ie < i)%nat) \/ (ie = length s1 /\ i = length s1 /\ (je < col)%nat) in
      (skipped -> aget wps' (Z.of_nat i * W + s) = Fin (-1)) /\
      (~ skipped -> aget wps' (Z.of_nat i * W + s) = sq_repr keep (mget (wps_matrix usq s1 s2) i col)).
Proof.
  intros W HL Hid.
  destruct (c_wps_kernel_runs l1 l2 window ltac:(lia) ltac:(lia) Hwin (cell usq s1 s2) (adj_penalty usq)
              (psi_1b usq) (psi_2b usq) cell_outside_band (Z.of_nat d) (concat s1) (concat s2) (adj_max_step usq)
              cell_on_band ltac:(lia) ltac:(lia) ce (cw_shift l1 l2 window) ced1 ced2 wps0 true keep true idist
              (Z.of_nat (psi_1e usq)) (Z.of_nat (psi_2e usq)) HL Hid)
    as (wD & E & HLen & Hrows).
  destruct (tail_marks l1 l2 window ltac:(lia) ltac:(lia) Hwin (cell usq s1 s2) (adj_penalty usq) (psi_1b usq) (psi_2b usq)
              cell_outside_band wD HLen Hrows keep (psi_1e usq) (psi_2e usq)) as (wps' & ie & je & ET & HLT & Hie & Hje & Hend & Hm).
  assert (EV : end_value l1 l2 (cell usq s1 s2) (adj_penalty usq) (psi_1b usq) (psi_2b usq) (psi_1e usq) (psi_2e usq) = dtw_value usq s1 s2).
  { rewrite dtw_value_Mfun. unfold end_value, ecands, end_cands, sr, sc, Mfun. rewrite !Nat2Z.id. reflexivity. }
  rewrite Nat2Z.id in Hie, Hje.
  exists wps', ie, je. fold W in ET, E, HLen, Hm. rewrite E, ET, EV. split; [reflexivity|]. split.
  - intros Hne. rewrite EV in Hend. destruct (Hend Hne) as [HM Hin]. split.
    + rewrite wps_matrix_Mfun; [exact HM|unfold sr; lia|unfold sc; lia].
    + unfold ecands in Hin. rewrite !Nat2Z.id in Hin. exact Hin.
  - intros i s Hi Hs Hcol Hb col skipped.
    pose proof (W_pos l1 l2 window ltac:(lia) ltac:(lia) Hwin) as HW. fold W in HW.
    pose proof (shift_nonneg l1 l2 window ltac:(lia) ltac:(lia) Hwin (Z.of_nat i - 1)) as Hsh.
    destruct (Hm (Z.of_nat i * W + s) ltac:(nia)) as [Hmk Hnm].
    assert (Hiff : marked l1 l2 window ie je (Z.of_nat i * W + s) <-> skipped).
    { unfold marked, skipped, col. rewrite !Nat2Z.id. split.
      - intros [[Hj (ri & Hri & Hrng & Eidx)]|[Hi0 (ci & Hci & Hrng & Eidx)]].
        + fold W in Hrng, Eidx. assert (ri = i) by nia. subst ri. left. split; [exact Hj|]. split; [|lia].
          assert (s = l2 - cw_shift l1 l2 window (Z.of_nat i - 1)) by nia. lia.
        + fold W in Hrng, Eidx. assert (Z.of_nat i = l1) by nia. right. split; [exact Hi0|]. split; [lia|].
          assert (s = Z.of_nat ci - cw_shift l1 l2 window (l1 - 1)) by nia. replace (Z.of_nat i - 1) with (l1 - 1) by lia. lia.
      - intros [(Hj & Hc & Hlt)|(Hi0 & Hi1 & Hlt)].
        + left. split; [exact Hj|]. exists i. fold W. split; [lia|]. split; [lia|]. f_equal. lia.
        + right. split; [exact Hi0|]. exists (Z.to_nat (s + cw_shift l1 l2 window (Z.of_nat i - 1))). fold W.
          replace (Z.of_nat i - 1) with (l1 - 1) in * by lia. split; [lia|]. split; [lia|]. rewrite Z2Nat.id by lia. nia. }
    split.
    + intros Hsk. apply Hmk. apply Hiff. exact Hsk.
    + intros Hns. rewrite Hnm by (intro Hx; apply Hns; apply Hiff; exact Hx). f_equal.
      pose proof (Hrows i ltac:(lia) s Hs Hcol Hb) as HH. unfold rowf in HH. fold W in HH. rewrite HH.
      rewrite wps_matrix_Mfun; [reflexivity|unfold sr; lia|unfold sc; lia].
Qed.

(* the kernel, then dtw_expand_wps_slice (Gen_cexpw.v) on the array it leaves: the block of the full matrix *)
Theorem c_fill_then_expand ce0 shiftf ced1 ced2 wps0 psi_neg idist zp1e zp2e (rb re cb ce : Z) full0 :
  let W := cw_width l1 l2 window in
  Z.of_nat (length wps0) = (l1 + 1) * W -> (idist =? 1) = false ->
  0 <= rb < re -> re <= l1 + 1 -> 0 <= cb < ce -> ce <= l2 + 1 -> Z.of_nat (length full0) = (re - rb) * (ce - cb) ->
  exists wps' full',
    c_dtw_warping_paths_ndim ce0 shiftf ced1 ced2 wps0 (concat s1) l1 (concat s2) l2 false true psi_neg (Z.of_nat d)
      ((l1 + 1) * W) (c_parts_ldiff l1 l2) (c_parts_ldiffr l1 l2 (c_parts_ldiff l1 l2))
      (c_parts_ldiffc l1 l2 (c_parts_ldiff l1 l2)) (c_parts_window l1 l2 window) W ((l1 + 1) * W)
      (c_parts_ri1 l1 (c_parts_overlap_left l1 (c_parts_ldiffr l1 l2 (c_parts_ldiff l1 l2)) (c_parts_window l1 l2 window))
                      (c_parts_overlap_right l1 (c_parts_ldiffr l1 l2 (c_parts_ldiff l1 l2)) (c_parts_window l1 l2 window)))
      (c_parts_ri2 l1 (c_parts_overlap_left l1 (c_parts_ldiffr l1 l2 (c_parts_ldiff l1 l2)) (c_parts_window l1 l2 window)))
      (c_parts_ri3 l1 (c_parts_overlap_left l1 (c_parts_ldiffr l1 l2 (c_parts_ldiff l1 l2)) (c_parts_window l1 l2 window))
                      (c_parts_overlap_right l1 (c_parts_ldiffr l1 l2 (c_parts_ldiff l1 l2)) (c_parts_window l1 l2 window)))
      (adj_max_step usq) Inf (Fin (adj_penalty usq)) idist false (Z.of_nat (psi_1b usq)) zp1e (Z.of_nat (psi_2b usq)) zp2e false
    = (RPlain (Fin (-1)), wps', true) /\
    c_dtw_expand_wps_slice wps' full0 l1 l2 rb re cb ce ((re - rb) * (ce - cb)) ((l1 + 1) * W)
      (c_parts_ldiff l1 l2) (c_parts_ldiffc l1 l2 (c_parts_ldiff l1 l2)) (c_parts_window l1 l2 window) W
      (c_parts_ri1 l1 (c_parts_overlap_left l1 (c_parts_ldiffr l1 l2 (c_parts_ldiff l1 l2)) (c_parts_window l1 l2 window))
                      (c_parts_overlap_right l1 (c_parts_ldiffr l1 l2 (c_parts_ldiff l1 l2)) (c_parts_window l1 l2 window)))
      (c_parts_ri2 l1 (c_parts_overlap_left l1 (c_parts_ldiffr l1 l2 (c_parts_ldiff l1 l2)) (c_parts_window l1 l2 window)))
      (c_parts_ri3 l1 (c_parts_overlap_left l1 (c_parts_ldiffr l1 l2 (c_parts_ldiff l1 l2)) (c_parts_window l1 l2 window))
                      (c_parts_overlap_right l1 (c_parts_ldiffr l1 l2 (c_parts_ldiff l1 l2)) (c_parts_window l1 l2 window)))
    = (RPlain (Fin 0), full', true) /\
    Z.of_nat (length full') = (re - rb) * (ce - cb) /\
    forall i j, rb <= i < re -> cb <= j < ce -> (j = 0 -> i <= cw_ri2 l1 l2 window) -> (i = 0 -> j <= W - 1) ->
      aget full' ((i - rb) * (ce - cb) + (j - cb)) = mget (wps_matrix usq s1 s2) (Z.to_nat i) (Z.to_nat j).
Proof.
  intros W HL Hid Hrb Hre Hcb Hce HLf.
  destruct (c_wps_kernel_fills_the_matrix l1 l2 window ltac:(lia) ltac:(lia) Hwin (cell usq s1 s2) (adj_penalty usq)
              (psi_1b usq) (psi_2b usq) cell_outside_band (Z.of_nat d) (concat s1) (concat s2) (adj_max_step usq)
              cell_on_band ltac:(lia) ltac:(lia) ce0 shiftf ced1 ced2 wps0 psi_neg idist zp1e zp2e HL Hid)
    as (wps' & E & HLen & Hrows).
  destruct (c_expand_slice_spec l1 l2 window ltac:(lia) ltac:(lia) Hwin (cell usq s1 s2) (adj_penalty usq) (psi_1b usq) (psi_2b usq)
              cell_outside_band rb re cb ce Hrb Hre Hcb Hce wps' HLen Hrows full0 HLf) as (full' & EE & (HLF & HI)).
  exists wps', full'. split; [exact E|]. split; [exact EE|]. split; [exact HLF|].
  intros i j Hi Hj Hb0 Hr0. destruct (HI i j Hi Hj) as [Hv _]. unfold P in Hv. rewrite Hv by (try assumption; lia).
  rewrite wps_matrix_Mfun; [reflexivity|unfold sr; lia|unfold sc; lia].
Qed.
(* the kernel, then the C traceback loop (CTraceSim.c_trace over the regenerated offsets) on the array it leaves: the path
   traced from the slot of any finite cell costs exactly the value of that cell - no hypothesis about the array left *)
Theorem c_kernel_then_trace ce0 shiftf ced1 ced2 wps0 psi_neg idist zp1e zp2e :
  let W := cw_width l1 l2 window in
  Z.of_nat (length wps0) = (l1 + 1) * W -> (idist =? 1) = false ->
  exists wps',
    c_dtw_warping_paths_ndim ce0 shiftf ced1 ced2 wps0 (concat s1) l1 (concat s2) l2 false true psi_neg (Z.of_nat d)
      ((l1 + 1) * W) (c_parts_ldiff l1 l2) (c_parts_ldiffr l1 l2 (c_parts_ldiff l1 l2))
      (c_parts_ldiffc l1 l2 (c_parts_ldiff l1 l2)) (c_parts_window l1 l2 window) W ((l1 + 1) * W)
      (c_parts_ri1 l1 (c_parts_overlap_left l1 (c_parts_ldiffr l1 l2 (c_parts_ldiff l1 l2)) (c_parts_window l1 l2 window))
                      (c_parts_overlap_right l1 (c_parts_ldiffr l1 l2 (c_parts_ldiff l1 l2)) (c_parts_window l1 l2 window)))
      (c_parts_ri2 l1 (c_parts_overlap_left l1 (c_parts_ldiffr l1 l2 (c_parts_ldiff l1 l2)) (c_parts_window l1 l2 window)))
      (c_parts_ri3 l1 (c_parts_overlap_left l1 (c_parts_ldiffr l1 l2 (c_parts_ldiff l1 l2)) (c_parts_window l1 l2 window))
                      (c_parts_overlap_right l1 (c_parts_ldiffr l1 l2 (c_parts_ldiff l1 l2)) (c_parts_window l1 l2 window)))
      (adj_max_step usq) Inf (Fin (adj_penalty usq)) idist false (Z.of_nat (psi_1b usq)) zp1e (Z.of_nat (psi_2b usq)) zp2e false
    = (RPlain (Fin (-1)), wps', true) /\
    forall fuel i j, (i + j <= fuel)%nat -> Z.of_nat i <= l1 -> Z.of_nat j <= l2 -> Mfun usq s1 s2 i j <> Inf ->
      wpath_cost usq s1 s2 i j
        (c_trace l1 l2 window (adj_penalty usq) (fun row s => aget wps' (row * W + s)) fuel i j
                 (Z.of_nat j - cw_shift l1 l2 window (Z.of_nat i - 1)))
      = Some (Mfun usq s1 s2 i j).
Proof.
  intros W HL Hid.
  destruct (c_wps_kernel_fills_the_matrix l1 l2 window ltac:(lia) ltac:(lia) Hwin (cell usq s1 s2) (adj_penalty usq)
              (psi_1b usq) (psi_2b usq) cell_outside_band (Z.of_nat d) (concat s1) (concat s2) (adj_max_step usq)
              cell_on_band ltac:(lia) ltac:(lia) ce0 shiftf ced1 ced2 wps0 psi_neg idist zp1e zp2e HL Hid)
    as (wps' & E & HLen & Hrows).
  exists wps'. split; [exact E|]. intros fuel i j Hf Hi Hj Hfin.
  pose proof (c_loop_path_cost_for_dtw usq s1 s2 (fun row s => aget wps' (row * W + s))) as HT.
  cbv zeta in HT. rewrite c_window_arg_usq in HT. unfold sr, sc in HT.
  apply HT; try assumption; try lia; try reflexivity; try exact usq_window_ok.
  intros i' s Hi' Hs Hcol Hb. exact (Hrows i' ltac:(lia) s Hs ltac:(lia) Hb).
Qed.

(* ------------------------------------------------------------------ under a bound *)
(* run for its value with p.max_dist = B (max_dist in the internal representation; or the Euclidean upper bound, see
   c_wps_use_pruning_is_a_bound): the value returned is `v <= B ? v : inf` for the DTW value v of the specification, and
   every slot of the array holds its cell of the specification matrix or, where that cell is above the bound, some
   value above the bound (Q); all accesses in range *)
Hypothesis Hp : 0 <= p.
Hypothesis Hpsi : (psi_1b usq < length s1)%nat \/ (psi_2e usq < length s2)%nat.

Lemma pen_ok_usq : pen_ok usq.
Proof. unfold pen_ok, c_to_u, cs_of; cbn. exact Hp. Qed.

Lemma end_valueB_is_dtw_value : end_valueB usq s1 s2 (psi_1e usq) (psi_2e usq) = dtw_value usq s1 s2.
Proof.
  rewrite dtw_value_Mfun. unfold end_valueB, end_rows, end_cols, end_cands, sr, sc.
  rewrite map_app, cmin_list_app, !map_map. reflexivity.
Qed.

Theorem c_wps_kernel_bounded (B : cost) ce ced1 ced2 wps0 keep idist :
  let W := cw_width l1 l2 window in
  Z.of_nat (length wps0) = (l1 + 1) * W -> (idist =? 1) = false ->
  exists wps',
    c_dtw_warping_paths_ndim ce (cw_shift l1 l2 window) ced1 ced2 wps0 (concat s1) l1 (concat s2) l2 true keep false (Z.of_nat d)
      ((l1 + 1) * W) (c_parts_ldiff l1 l2) (c_parts_ldiffr l1 l2 (c_parts_ldiff l1 l2))
      (c_parts_ldiffc l1 l2 (c_parts_ldiff l1 l2)) (c_parts_window l1 l2 window) W ((l1 + 1) * W)
      (c_parts_ri1 l1 (c_parts_overlap_left l1 (c_parts_ldiffr l1 l2 (c_parts_ldiff l1 l2)) (c_parts_window l1 l2 window))
                      (c_parts_overlap_right l1 (c_parts_ldiffr l1 l2 (c_parts_ldiff l1 l2)) (c_parts_window l1 l2 window)))
      (c_parts_ri2 l1 (c_parts_overlap_left l1 (c_parts_ldiffr l1 l2 (c_parts_ldiff l1 l2)) (c_parts_window l1 l2 window)))
      (c_parts_ri3 l1 (c_parts_overlap_left l1 (c_parts_ldiffr l1 l2 (c_parts_ldiff l1 l2)) (c_parts_window l1 l2 window))
                      (c_parts_overlap_right l1 (c_parts_ldiffr l1 l2 (c_parts_ldiff l1 l2)) (c_parts_window l1 l2 window)))
      (adj_max_step usq) B (Fin (adj_penalty usq)) idist false (Z.of_nat (psi_1b usq)) (Z.of_nat (psi_1e usq))
      (Z.of_nat (psi_2b usq)) (Z.of_nat (psi_2e usq)) false
    = (RPlain (sq_repr keep (bounded B (dtw_value usq s1 s2))), wps', true) /\
    Z.of_nat (length wps') = (l1 + 1) * W /\
    forall (i : nat) (s : Z), Z.of_nat i <= l1 -> 0 <= s < W ->
      s + cw_shift l1 l2 window (Z.of_nat i - 1) <= l2 ->
      (s + cw_shift l1 l2 window (Z.of_nat i - 1) = 0 -> Z.of_nat i <= cw_ri2 l1 l2 window) ->
      exists v, aget wps' (Z.of_nat i * W + s) = sq_repr keep v /\
                Q B v (mget (wps_matrix usq s1 s2) i (Z.to_nat (s + cw_shift l1 l2 window (Z.of_nat i - 1)))).
Proof.
  intros W HL Hid.
  destruct (c_wps_kernel_runs_B usq s1 s2 B H1 H2 pen_ok_usq Hpsi window Hwin cell_outside_band (Z.of_nat d) (concat s1) (concat s2)
              (adj_max_step usq) cell_on_band ltac:(lia) ltac:(lia) ce (cw_shift l1 l2 window) ced1 ced2 wps0 true keep false idist
              (Z.of_nat (psi_1e usq)) (Z.of_nat (psi_2e usq)) HL Hid)
    as (wD & E & HG).
  rewrite Nat2Z.id in HG.
  destruct (tail_value_B usq s1 s2 B H1 H2 window Hwin cell_outside_band wD HG keep (psi_1e usq) (psi_2e usq)) as (wps' & ET & HLT & HcT).
  exists wps'. fold W in ET, E, HcT. rewrite E, ET. rewrite end_valueB_is_dtw_value. split; [reflexivity|].
  destruct HG as (HLen & Hrows & _). fold W in HLen. split; [lia|].
  intros i s Hi Hs Hcol Hb. pose proof (W_pos l1 l2 window ltac:(lia) ltac:(lia) Hwin) as HW. fold W in HW.
  exists (aget wD (Z.of_nat i * W + s)). split; [apply HcT; nia|].
  pose proof (Hrows i ltac:(lia) s Hs Hcol Hb) as HH. unfold rowf in HH. fold W in HH.
  pose proof (shift_nonneg l1 l2 window ltac:(lia) ltac:(lia) Hwin (Z.of_nat i - 1)) as Hsh.
  rewrite wps_matrix_Mfun; [exact HH| unfold sr; lia | unfold sc; lia].
Qed.

(* settings.use_pruning: the kernel takes the squared Euclidean distance (an oracle here; the routine itself is proved
   under C09) as its bound and then runs as above *)
Lemma c_wps_use_pruning_is_a_bound ce shiftf ced1 ced2 wps0 f1 zl1 f2 zl2 rdtw keep pneg nd wlen a1 a2 a3 a4 a5 a6 a7 a8 a9 ms md pn idist zp1b zp1e zp2b zp2e :
  (idist =? 1) = false ->
  c_dtw_warping_paths_ndim ce shiftf ced1 ced2 wps0 f1 zl1 f2 zl2 rdtw keep pneg nd wlen a1 a2 a3 a4 a5 a6 a7 a8 a9 ms md pn idist false zp1b zp1e zp2b zp2e true
  = c_dtw_warping_paths_ndim ce shiftf ced1 ced2 wps0 f1 zl1 f2 zl2 rdtw keep pneg nd wlen a1 a2 a3 a4 a5 a6 a7 a8 a9 ms
      (if nd =? 1 then ced2 else ced1) pn idist false zp1b zp1e zp2b zp2e false.
Proof. intros Hid. unfold c_dtw_warping_paths_ndim. rewrite Hid. reflexivity. Qed.
End Final.


(* ------------------------------------------------------------------ the Euclidean twin *)
Section FinalEu.
Variables (window p m mld : Z) (psi : (nat * nat) * (nat * nat)).
Hypothesis Hwin : 0 <= window.
Local Notation uab := (c_to_u (cs_of window p m mld psi AbsDiff)).
Variables (s1 s2 : list point) (d : nat).
Hypothesis Hd1 : forall q, In q s1 -> length q = d.
Hypothesis Hd2 : forall q, In q s2 -> length q = d.
Hypothesis H1 : (1 <= length s1)%nat.
Hypothesis H2 : (1 <= length s2)%nat.
Hypothesis Hp1 : (psi_1b uab <= length s1)%nat.
Hypothesis Hp2 : (psi_2b uab <= length s2)%nat.
Local Notation l1 := (Z.of_nat (length s1)).
Local Notation l2 := (Z.of_nat (length s2)).

Lemma c_window_arg_uab : c_window_arg uab = window.
Proof. unfold c_window_arg, c_to_u, cs_of, offz; cbn. destruct (Z.eqb_spec window 0); congruence. Qed.

Lemma uab_window_ok : match u_window uab with Some w => 1 <= w | None => True end.
Proof. unfold c_to_u, cs_of, offz; cbn. destruct (Z.eqb_spec window 0); [exact I|lia]. Qed.

Lemma cell_outside_band_eu ri ci : Z.of_nat ri < l1 ->
  ~ (blo l1 l2 window (Z.of_nat ri) <= Z.of_nat ci < bhi l1 l2 window (Z.of_nat ri)) -> cell uab s1 s2 ri ci = Inf.
Proof.
  intros Hri Hout. unfold cell. destruct (in_band _ _ _ ri ci) eqn:E; [|reflexivity]. exfalso. apply Hout.
  unfold in_band in E. apply andb_true_iff in E. destruct E as [E1 E2]. apply Z.leb_le in E1. apply Z.ltb_lt in E2.
  destruct (c_window_band uab s1 s2 (Z.of_nat ri) ltac:(unfold sr; lia) ltac:(unfold sc; lia) uab_window_ok
              ltac:(unfold sr; lia)) as [Elo Ehi].
  rewrite c_window_arg_uab in Elo, Ehi. unfold blo, bhi. unfold sr, sc in *. rewrite Elo, Ehi. lia.
Qed.

Lemma cell_on_band_eu ri ci : Z.of_nat ri < l1 ->
  blo l1 l2 window (Z.of_nat ri) <= Z.of_nat ci < bhi l1 l2 window (Z.of_nat ri) ->
  wdok l1 l2 (Z.of_nat d) (concat s1) (concat s2) (Z.of_nat ri * Z.of_nat d) (Z.of_nat ci) = true /\
  (if cltb (adj_max_step uab) (wdfun_eu l1 l2 (Z.of_nat d) (concat s1) (concat s2) (Z.of_nat ri * Z.of_nat d) (Z.of_nat ci))
   then Inf else wdfun_eu l1 l2 (Z.of_nat d) (concat s1) (concat s2) (Z.of_nat ri * Z.of_nat d) (Z.of_nat ci))
  = cell uab s1 s2 ri ci.
Proof.
  intros Hri Hin.
  assert (Hci : (ci < length s2)%nat).
  { unfold bhi, band_hi in Hin. lia. }
  pose proof (nd_acc_value s1 s2 d Hd1 Hd2 ri ci ltac:(lia) Hci) as HV. unfold nd_acc in HV.
  unfold wdok, wdfun_eu, wdfun_sq. rewrite HV. cbn [fst snd]. split; [reflexivity|].
  unfold cell.
  destruct (c_window_band uab s1 s2 (Z.of_nat ri) ltac:(unfold sr; lia) ltac:(unfold sc; lia) uab_window_ok
              ltac:(unfold sr; lia)) as [Elo Ehi].
  rewrite c_window_arg_uab in Elo, Ehi. unfold blo, bhi in Hin. unfold sr, sc in *. rewrite Elo, Ehi in Hin.
  assert (E : in_band (length s1) (length s2) (sw uab s1 s2) ri ci = true).
  { unfold in_band. apply andb_true_iff. split; [apply Z.leb_le|apply Z.ltb_lt]; lia. }
  unfold sr, sc. rewrite E. unfold cltb. change (u_inner uab) with AbsDiff. cbn [pdist].
  change (csqrt (Fin (pdist_sq (nth ri s1 []) (nth ci s2 [])))) with (Fin (pdist_abs (nth ri s1 []) (nth ci s2 []))).
  destruct (cleb (Fin (pdist_abs (nth ri s1 []) (nth ci s2 []))) (adj_max_step uab)); reflexivity.
Qed.

(* dtw_warping_paths_ndim_euclidean run for its value: the DTW value under the Euclidean point distance, and the
   array holds that specification matrix (no sqrt pass in this kernel: keep_int_repr is not read) *)
Theorem c_wps_eu_kernel_returns_the_dtw_value cub1 cub2 wps0 keep :
  let W := cw_width l1 l2 window in
  Z.of_nat (length wps0) = (l1 + 1) * W ->
  exists wps',
    c_dtw_warping_paths_ndim_euclidean (cw_shift l1 l2 window) cub1 cub2 wps0 (concat s1) l1 (concat s2) l2 true keep false (Z.of_nat d)
      ((l1 + 1) * W) (c_parts_ldiff l1 l2) (c_parts_ldiffr l1 l2 (c_parts_ldiff l1 l2))
      (c_parts_ldiffc l1 l2 (c_parts_ldiff l1 l2)) (c_parts_window l1 l2 window) W
      (c_parts_ri1 l1 (c_parts_overlap_left l1 (c_parts_ldiffr l1 l2 (c_parts_ldiff l1 l2)) (c_parts_window l1 l2 window))
                      (c_parts_overlap_right l1 (c_parts_ldiffr l1 l2 (c_parts_ldiff l1 l2)) (c_parts_window l1 l2 window)))
      (c_parts_ri2 l1 (c_parts_overlap_left l1 (c_parts_ldiffr l1 l2 (c_parts_ldiff l1 l2)) (c_parts_window l1 l2 window)))
      (c_parts_ri3 l1 (c_parts_overlap_left l1 (c_parts_ldiffr l1 l2 (c_parts_ldiff l1 l2)) (c_parts_window l1 l2 window))
                      (c_parts_overlap_right l1 (c_parts_ldiffr l1 l2 (c_parts_ldiff l1 l2)) (c_parts_window l1 l2 window)))
      (adj_max_step uab) Inf (Fin (adj_penalty uab)) false (Z.of_nat (psi_1b uab)) (Z.of_nat (psi_1e uab))
      (Z.of_nat (psi_2b uab)) (Z.of_nat (psi_2e uab)) false
    = (RPlain (dtw_value uab s1 s2), wps', true) /\
    Z.of_nat (length wps') = (l1 + 1) * W /\
    forall (i : nat) (s : Z), Z.of_nat i <= l1 -> 0 <= s < W ->
      s + cw_shift l1 l2 window (Z.of_nat i - 1) <= l2 ->
      (s + cw_shift l1 l2 window (Z.of_nat i - 1) = 0 -> Z.of_nat i <= cw_ri2 l1 l2 window) ->
      aget wps' (Z.of_nat i * W + s) = mget (wps_matrix uab s1 s2) i (Z.to_nat (s + cw_shift l1 l2 window (Z.of_nat i - 1))).
Proof.
  intros W HL.
  destruct (c_wps_eu_kernel_runs l1 l2 window ltac:(lia) ltac:(lia) Hwin (cell uab s1 s2) (adj_penalty uab)
              (psi_1b uab) (psi_2b uab) cell_outside_band_eu (Z.of_nat d) (concat s1) (concat s2) (adj_max_step uab)
              cell_on_band_eu ltac:(lia) ltac:(lia) (cw_shift l1 l2 window) cub1 cub2 wps0 true keep false
              (Z.of_nat (psi_1e uab)) (Z.of_nat (psi_2e uab)) HL)
    as (wD & E & HLen & Hrows).
  pose proof (tail_value_eu l1 l2 window ltac:(lia) ltac:(lia) Hwin (cell uab s1 s2) (adj_penalty uab) (psi_1b uab) (psi_2b uab)
              cell_outside_band_eu wD HLen Hrows (psi_1e uab) (psi_2e uab)) as ET.
  exists wD. fold W in ET, E, HLen. rewrite E, ET. split.
  - f_equal. f_equal. f_equal. rewrite dtw_value_Mfun. unfold end_value, ecands, end_cands, sr, sc, Mfun.
    rewrite !Nat2Z.id. reflexivity.
  - split; [exact HLen|]. intros i s Hi Hs Hcol Hb.
    pose proof (Hrows i ltac:(lia)) as HH. unfold holds in HH. specialize (HH s Hs Hcol Hb).
    unfold rowf in HH. fold W in HH. rewrite HH.
    pose proof (shift_nonneg l1 l2 window ltac:(lia) ltac:(lia) Hwin (Z.of_nat i - 1)) as Hsh.
    rewrite wps_matrix_Mfun; [reflexivity| unfold sr; lia | unfold sc; lia].
Qed.
(* the Euclidean twin under a bound *)
Hypothesis Hp : 0 <= p.
Hypothesis Hpsi : (psi_1b uab < length s1)%nat \/ (psi_2e uab < length s2)%nat.

Lemma pen_ok_uab : pen_ok uab.
Proof. unfold pen_ok, c_to_u, cs_of; cbn. exact Hp. Qed.

Lemma end_valueB_is_dtw_value_eu : end_valueB uab s1 s2 (psi_1e uab) (psi_2e uab) = dtw_value uab s1 s2.
Proof.
  rewrite dtw_value_Mfun. unfold end_valueB, end_rows, end_cols, end_cands, sr, sc.
  rewrite map_app, cmin_list_app, !map_map. reflexivity.
Qed.

Theorem c_wps_eu_kernel_bounded (B : cost) cub1 cub2 wps0 keep :
  let W := cw_width l1 l2 window in
  Z.of_nat (length wps0) = (l1 + 1) * W ->
  exists wps',
    c_dtw_warping_paths_ndim_euclidean (cw_shift l1 l2 window) cub1 cub2 wps0 (concat s1) l1 (concat s2) l2 true keep false (Z.of_nat d)
      ((l1 + 1) * W) (c_parts_ldiff l1 l2) (c_parts_ldiffr l1 l2 (c_parts_ldiff l1 l2))
      (c_parts_ldiffc l1 l2 (c_parts_ldiff l1 l2)) (c_parts_window l1 l2 window) W
      (c_parts_ri1 l1 (c_parts_overlap_left l1 (c_parts_ldiffr l1 l2 (c_parts_ldiff l1 l2)) (c_parts_window l1 l2 window))
                      (c_parts_overlap_right l1 (c_parts_ldiffr l1 l2 (c_parts_ldiff l1 l2)) (c_parts_window l1 l2 window)))
      (c_parts_ri2 l1 (c_parts_overlap_left l1 (c_parts_ldiffr l1 l2 (c_parts_ldiff l1 l2)) (c_parts_window l1 l2 window)))
      (c_parts_ri3 l1 (c_parts_overlap_left l1 (c_parts_ldiffr l1 l2 (c_parts_ldiff l1 l2)) (c_parts_window l1 l2 window))
                      (c_parts_overlap_right l1 (c_parts_ldiffr l1 l2 (c_parts_ldiff l1 l2)) (c_parts_window l1 l2 window)))
      (adj_max_step uab) B (Fin (adj_penalty uab)) false (Z.of_nat (psi_1b uab)) (Z.of_nat (psi_1e uab))
      (Z.of_nat (psi_2b uab)) (Z.of_nat (psi_2e uab)) false
    = (RPlain (bounded B (dtw_value uab s1 s2)), wps', true) /\
    Z.of_nat (length wps') = (l1 + 1) * W /\
    forall (i : nat) (s : Z), Z.of_nat i <= l1 -> 0 <= s < W ->
      s + cw_shift l1 l2 window (Z.of_nat i - 1) <= l2 ->
      (s + cw_shift l1 l2 window (Z.of_nat i - 1) = 0 -> Z.of_nat i <= cw_ri2 l1 l2 window) ->
      Q B (aget wps' (Z.of_nat i * W + s)) (mget (wps_matrix uab s1 s2) i (Z.to_nat (s + cw_shift l1 l2 window (Z.of_nat i - 1)))).
Proof.
  intros W HL.
  destruct (c_wps_eu_kernel_runs_B uab s1 s2 B H1 H2 pen_ok_uab Hpsi window Hwin cell_outside_band_eu (Z.of_nat d) (concat s1) (concat s2)
              (adj_max_step uab) cell_on_band_eu ltac:(lia) ltac:(lia) (cw_shift l1 l2 window) cub1 cub2 wps0 true keep false
              (Z.of_nat (psi_1e uab)) (Z.of_nat (psi_2e uab)) HL)
    as (wD & E & HG).
  rewrite Nat2Z.id in HG.
  pose proof (tail_value_B_eu uab s1 s2 B H1 H2 window Hwin cell_outside_band_eu wD HG (psi_1e uab) (psi_2e uab)) as ET.
  exists wD. fold W in ET, E. rewrite E, ET. rewrite end_valueB_is_dtw_value_eu. split; [reflexivity|].
  destruct HG as (HLen & Hrows & _). fold W in HLen. split; [exact HLen|].
  intros i s Hi Hs Hcol Hb.
  pose proof (Hrows i ltac:(lia) s Hs Hcol Hb) as HH. unfold rowf in HH. fold W in HH.
  pose proof (shift_nonneg l1 l2 window ltac:(lia) ltac:(lia) Hwin (Z.of_nat i - 1)) as Hsh.
  rewrite wps_matrix_Mfun; [exact HH| unfold sr; lia | unfold sc; lia].
Qed.

Lemma c_wps_eu_use_pruning_is_a_bound shiftf cub1 cub2 wps0 f1 zl1 f2 zl2 rdtw keep pneg nd wlen a1 a2 a3 a4 a5 a7 a8 a9 ms md pn zp1b zp1e zp2b zp2e :
  c_dtw_warping_paths_ndim_euclidean shiftf cub1 cub2 wps0 f1 zl1 f2 zl2 rdtw keep pneg nd wlen a1 a2 a3 a4 a5 a7 a8 a9 ms md pn false zp1b zp1e zp2b zp2e true
  = c_dtw_warping_paths_ndim_euclidean shiftf cub1 cub2 wps0 f1 zl1 f2 zl2 rdtw keep pneg nd wlen a1 a2 a3 a4 a5 a7 a8 a9 ms
      (if nd =? 1 then cub1 else cub2) pn false zp1b zp1e zp2b zp2e false.
Proof. reflexivity. Qed.
End FinalEu.

(* ------------------------------------------------------------------ from the settings struct *)
(* `DTWWps p = dtw_wps_parts(l1, l2, settings);` and `dtw_wps_shift(&p, ri)`: the regenerated kernel takes the members
   of p and the shift function as parameters (tools/cfun.py); this is the call with the regenerated dtw_wps_parts
   (Gen_cparts.v) and dtw_wps_shift (Gen_cwps.v) put back *)
Definition c_warping_paths_sq (ce ced1 ced2 : cost) (wps : list cost) (f1 : list Z) (zl1 : Z) (f2 : list Z) (zl2 : Z)
  (rdtw keep pneg : bool) (nd : Z) (window md m p : Z) (oub : bool) (zp1b zp1e zp2b zp2e : Z) (prune : bool) : cret * list cost * bool :=
  let '((ldiff, ldiffr, ldiffc, w, width, len, ri1, ri2, ri3, _, _, ms, mdB, pen), _) := c_dtw_wps_parts zl1 zl2 0 (Fin md) (Fin m) (Fin p) window in
  c_dtw_warping_paths_ndim ce (fun ri => c_wps_shift ri ri2 ri3) ced1 ced2 wps f1 zl1 f2 zl2 rdtw keep pneg nd len
    ldiff ldiffr ldiffc w width len ri1 ri2 ri3 ms mdB pen 0 oub zp1b zp1e zp2b zp2e prune.

Section FromSettings.
Variables (window p m mld md : Z) (psi : (nat * nat) * (nat * nat)).
Hypothesis Hwin : 0 <= window.
Hypothesis Hp : 0 <= p.
Local Notation usq := (c_to_u (cs_of window p m mld psi SqEuclid)).
Variables (s1 s2 : list point) (d : nat).
Hypothesis Hd1 : forall q, In q s1 -> length q = d.
Hypothesis Hd2 : forall q, In q s2 -> length q = d.
Hypothesis H1 : (1 <= length s1)%nat.
Hypothesis H2 : (1 <= length s2)%nat.
Hypothesis Hp1 : (psi_1b usq <= length s1)%nat.
Hypothesis Hp2 : (psi_2b usq <= length s2)%nat.
Hypothesis Hpsi : (psi_1b usq < length s1)%nat \/ (psi_2e usq < length s2)%nat.
Local Notation l1 := (Z.of_nat (length s1)).
Local Notation l2 := (Z.of_nat (length s2)).

Theorem c_warping_paths_sq_spec ce ced1 ced2 wps0 keep :
  let W := cw_width l1 l2 window in
  Z.of_nat (length wps0) = (l1 + 1) * W ->
  exists wps',
    c_warping_paths_sq ce ced1 ced2 wps0 (concat s1) l1 (concat s2) l2 true keep false (Z.of_nat d) window md m p false
      (Z.of_nat (psi_1b usq)) (Z.of_nat (psi_1e usq)) (Z.of_nat (psi_2b usq)) (Z.of_nat (psi_2e usq)) false
    = (RPlain (sq_repr keep (bounded (c_wps_bound SqEuclid md) (dtw_value usq s1 s2))), wps', true) /\
    Z.of_nat (length wps') = (l1 + 1) * W /\
    forall (i : nat) (s : Z), Z.of_nat i <= l1 -> 0 <= s < W ->
      s + cw_shift l1 l2 window (Z.of_nat i - 1) <= l2 ->
      (s + cw_shift l1 l2 window (Z.of_nat i - 1) = 0 -> Z.of_nat i <= cw_ri2 l1 l2 window) ->
      exists v, aget wps' (Z.of_nat i * W + s) = sq_repr keep v /\
                Q (c_wps_bound SqEuclid md) v (mget (wps_matrix usq s1 s2) i (Z.to_nat (s + cw_shift l1 l2 window (Z.of_nat i - 1)))).
Proof.
  intros W HL. unfold c_warping_paths_sq. rewrite c_wps_parts_sq.
  pose proof (c_wps_kernel_bounded window p m mld psi Hwin s1 s2 d Hd1 Hd2 H1 H2 Hp1 Hp2 Hp Hpsi (c_wps_bound SqEuclid md)
                ce ced1 ced2 wps0 keep 0 HL eq_refl) as HK.
  rewrite adj_max_step_cs, adj_penalty_cs in HK. cbn [inner_val] in HK. exact HK.
Qed.

(* the value the warping-paths kernel returns (internal representation) is the value under the square root that the
   distance-only kernel dtw_distance_ndim returns for the same settings struct (max_length_diff off, as the C
   warping-paths kernel does not test it) *)
Theorem c_wps_value_is_the_distance_kernels_value (Hmld : mld = 0) ce ced ced1 ced2 cub junk wps0 :
  let W := cw_width l1 l2 window in
  Z.of_nat (length wps0) = (l1 + 1) * W ->
  exists v wps',
    c_dtw_distance_ndim ce ced cub junk (concat s1) l1 (concat s2) l2 (Z.of_nat d) 0 (Fin md) mld (Fin m) false (Fin p)
      (Z.of_nat (psi_1b usq)) (Z.of_nat (psi_1e usq)) (Z.of_nat (psi_2b usq)) (Z.of_nat (psi_2e usq)) false window
    = (RSqrt v, true) /\
    c_warping_paths_sq ce ced1 ced2 wps0 (concat s1) l1 (concat s2) l2 true true false (Z.of_nat d) window md m p false
      (Z.of_nat (psi_1b usq)) (Z.of_nat (psi_1e usq)) (Z.of_nat (psi_2b usq)) (Z.of_nat (psi_2e usq)) false
    = (RPlain v, wps', true).
Proof.
  intros W HL.
  destruct (c_warping_paths_sq_spec ce ced1 ced2 wps0 true HL) as (wps' & E & _).
  exists (bounded (c_wps_bound SqEuclid md) (dtw_value usq s1 s2)), wps'. split; [|exact E].
  destruct psi as [[a b] [c e]].
  pose proof (c_dtw_distance_ndim_spec window p m mld a b c e junk Hwin Hp s1 s2 d Hd1 Hd2 H1 H2 Hpsi ce ced cub 0 (Fin md) false eq_refl) as HD.
  unfold psi4 in HD. cbn [psi_1b psi_1e psi_2b psi_2e c_to_u cs_of u_psi c_psi fst snd]. rewrite HD.
  replace (too_long (c_to_u (cs_of window p m mld (a, b, (c, e)) SqEuclid)) s1 s2) with false
    by (unfold too_long, c_to_u, cs_of, offz; cbn; rewrite Hmld; reflexivity).
  unfold c_bound_sq, c_wps_bound. cbn [ceqb csq inner_val]. destruct (md =? 0); reflexivity.
Qed.
End FromSettings.
