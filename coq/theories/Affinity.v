(* Local concurrences (localconcurrences.py): matches are traced from a maximum
   of the affinity warping-paths matrix by repeatedly moving to the largest of
   the three predecessor cells while that value is positive; afterwards the
   cells of the match are negated.  Model: the matrix as a function, the trace
   with fuel; theorems: every cell after the start carries a positive value,
   the path is contiguous and monotone, and -- since cells of earlier matches
   are non-positive -- a new match never reuses a cell of an earlier one. *)
From Coq Require Import ZArith Bool List Lia.
From DV Require Import Prelude.
Import ListNotations.
Open Scope Z_scope.

Section Trace.
Variable wp : nat -> nat -> Z.      (* values in any fixed unit; masked cells are -1 *)

(* argmax([diag, up, left]) : first maximum *)
Definition amax (i j : nat) : nat * nat :=
  let a := wp i j in let b := wp i (S j) in let c := wp (S i) j in
  if (b <=? a) && (c <=? a) then (i, j) else if c <=? b then (i, S j) else (S i, j).

(* cells visited from (i,j) (matrix coordinates), start first *)
Fixpoint trace (fuel i j : nat) : list (nat * nat) :=
  (i, j) ::
  match fuel with
  | O => []
  | S f =>
    match i, j with
    | S i', S j' =>
      let '(x, y) := amax i' j' in
      if wp x y <=? 0 then [] else trace f x y
    | _, _ => []
    end
  end.

Lemma amax_pred i j : let '(x, y) := amax i j in
  (x = i /\ y = j) \/ (x = i /\ y = S j) \/ (x = S i /\ y = j).
Proof. unfold amax. destruct ((wp i (S j) <=? wp i j) && (wp (S i) j <=? wp i j)); [auto|]. destruct (wp (S i) j <=? wp i (S j)); auto. Qed.

(* every cell after the start has a positive value *)
Theorem trace_tail_positive : forall fuel i j xy, In xy (tl (trace fuel i j)) -> 0 < wp (fst xy) (snd xy).
Proof.
  induction fuel as [|f IH]; intros i j xy H; simpl in H; [destruct H|].
  destruct i as [|i]; [destruct H|]. destruct j as [|j]; [destruct H|].
  destruct (amax i j) as [x y] eqn:E. destruct (Z.leb_spec (wp x y) 0); [destruct H|].
  destruct f as [|f']; simpl in H.
  - destruct H as [<-|[]]. simpl. lia.
  - destruct H as [<-|H]; [simpl; lia|]. apply (IH x y). simpl. exact H.
Qed.

(* consecutive cells are unit steps towards the origin *)
Fixpoint steps_ok (l : list (nat * nat)) : Prop :=
  match l with
  | a :: ((b :: _) as t) =>
    ((fst a = S (fst b) /\ snd a = S (snd b)) \/ (fst a = S (fst b) /\ snd a = snd b) \/
     (fst a = fst b /\ snd a = S (snd b))) /\ steps_ok t
  | _ => True
  end.

Theorem trace_steps_ok : forall fuel i j, steps_ok (trace fuel i j).
Proof.
  induction fuel as [|f IH]; intros i j; simpl; [exact I|].
  destruct i as [|i]; [exact I|]. destruct j as [|j]; [exact I|].
  pose proof (amax_pred i j) as Hp. destruct (amax i j) as [x y].
  destruct (wp x y <=? 0); [exact I|].
  specialize (IH x y). destruct f as [|f']; simpl in *.
  - split; [|exact I]. simpl. lia.
  - split; [simpl; lia|exact IH].
Qed.

(* no reuse: if every cell of the earlier matches is non-positive, and the start
   cell is positive, the new match is disjoint from them *)
Theorem no_reuse (used : list (nat * nat)) fuel i j :
  (forall xy, In xy used -> wp (fst xy) (snd xy) <= 0) -> 0 < wp i j ->
  forall xy, In xy (trace fuel i j) -> ~ In xy used.
Proof.
  intros Hu Hs xy Hin Hused. specialize (Hu xy Hused).
  destruct (trace fuel i j) as [|h t] eqn:E; [destruct Hin|].
  assert (Hh : h = (i, j)) by (destruct fuel; simpl in E; inversion E; reflexivity).
  destruct Hin as [<-|Hin].
  - subst h. simpl in Hu. lia.
  - pose proof (trace_tail_positive fuel i j xy) as Hp. rewrite E in Hp. simpl in Hp. specialize (Hp Hin). lia.
Qed.
End Trace.

(* negating the cells of a match makes them non-positive (they were positive) *)
Definition negate (wp : nat -> nat -> Z) (cells : list (nat * nat)) : nat -> nat -> Z :=
  fun i j => if existsb (fun xy => (fst xy =? i)%nat && (snd xy =? j)%nat) cells then - wp i j else wp i j.

Lemma negate_nonpos wp cells xy : In xy cells -> 0 <= wp (fst xy) (snd xy) -> negate wp cells (fst xy) (snd xy) <= 0.
Proof.
  intros Hin Hp. unfold negate.
  assert (E : existsb (fun ab => (fst ab =? fst xy)%nat && (snd ab =? snd xy)%nat) cells = true).
  { apply existsb_exists. exists xy. split; [exact Hin|]. rewrite !Nat.eqb_refl. reflexivity. }
  rewrite E. lia.
Qed.

Lemma negate_other wp cells i j : ~ In (i, j) cells -> negate wp cells i j = wp i j.
Proof.
  intros H. unfold negate.
  destruct (existsb (fun ab => (fst ab =? i)%nat && (snd ab =? j)%nat) cells) eqn:E; [|reflexivity].
  apply existsb_exists in E. destruct E as [[a b] [Hin Hab]]. apply andb_true_iff in Hab. simpl in Hab.
  destruct Hab as [Ha Hb]. apply Nat.eqb_eq in Ha. apply Nat.eqb_eq in Hb. subst. contradiction.
Qed.
