(* The row core of the C warping-paths kernels (CWpsKernel.k_wrow_core over the canonical loop bodies) UNDER A BOUND
   B = p.max_dist: the PrunedDTW bookkeeping - pruned start column sc with its reset while a path can still start in
   the zero border, skip loop, `<= max_dist` test, sc / ec_next / smaller_found, break beyond ec, tail fill from the
   break cell - keeps every slot of the compact array Q-related to the specification matrix (equal, or both above
   the bound), with every access in range.  The argument is PyDistPrune.v's (SInv / EInv: the cells left of sc and
   right of ec are above the bound) carried through the compact layout of CWps.v. *)
From Coq Require Import ZArith Bool Lia List.
From DV Require Import Prelude Cost Grid Dtw DtwSpec DtwProps Prune PyDistPrune CWps CFill CExpand CFillSim CLang CDistCanon
  CDistProofs CWpsCanon CWpsKernel.
From DVGen Require Import Gen_cwps Gen_cfill Gen_cwpsk.
Import ListNotations.
Open Scope Z_scope.

Lemma wskip_spec wl rw wps a n w0 : 0 <= rw + w0 -> rw + w0 + Z.of_nat n <= wl -> wl = Z.of_nat (length wps) ->
  exists wps', fold_left (k_wskip rw wl) (zrange a (a + Z.of_nat n)) (true, wps, w0) = (true, wps', w0 + Z.of_nat n) /\
    length wps' = length wps /\
    (forall i, rw + w0 <= i < rw + w0 + Z.of_nat n -> aget wps' i = Inf) /\
    (forall i, ~ (rw + w0 <= i < rw + w0 + Z.of_nat n) -> aget wps' i = aget wps i).
Proof.
  intros Ha Hb Hl.
  pose (P := fun (k : nat) (st : bool * list cost * Z) => fst (fst st) = true /\ snd st = w0 + Z.of_nat k /\
     length (snd (fst st)) = length wps /\
     (forall i, rw + w0 <= i < rw + w0 + Z.of_nat k -> aget (snd (fst st)) i = Inf) /\
     (forall i, ~ (rw + w0 <= i < rw + w0 + Z.of_nat k) -> aget (snd (fst st)) i = aget wps i)).
  assert (HP : P n (fold_left (k_wskip rw wl) (zrange a (a + Z.of_nat n)) (true, wps, w0))).
  { apply fold_zrange_from.
    - unfold P. cbn [fst snd]. split; [reflexivity|]. split; [lia|]. split; [reflexivity|]. split; [intros; lia|intros; reflexivity].
    - intros k [[ok w] p] Hk (Hok & Hp & Hlen & Hin & Hout). cbn [fst snd] in *. subst ok p.
      unfold k_wskip, P. cbn [fst snd].
      assert (Hi : inb wl (rw + (w0 + Z.of_nat k)) = true) by (unfold inb; apply andb_true_iff; split; [apply Z.leb_le|apply Z.ltb_lt]; lia).
      rewrite Hi. cbn [andb]. split; [reflexivity|]. split; [lia|]. split; [rewrite aset_length; exact Hlen|]. split.
      + intros i Hi'. destruct (Z.eq_dec i (rw + (w0 + Z.of_nat k))) as [->|Hne].
        * apply aget_aset_same. lia.
        * rewrite aget_aset_other by lia. apply Hin. lia.
      + intros i Hi'. rewrite aget_aset_other by lia. apply Hout. lia. }
  destruct (fold_left (k_wskip rw wl) (zrange a (a + Z.of_nat n)) (true, wps, w0)) as [[ok w] p].
  destruct HP as (Hok & Hp & Hlen & Hin & Hout). cbn [fst snd] in *. subst ok p.
  exists w. split; [reflexivity|]. split; [exact Hlen|]. split; assumption.
Qed.

Section PruneC.
Variable u : usettings.
Variables s1 s2 : list point.
Variable B : cost.
Hypothesis Hr : (1 <= length s1)%nat.
Hypothesis Hc : (1 <= length s2)%nat.
Hypothesis Hpen : pen_ok u.
Hypothesis Hpsi : (psi_1b u < length s1)%nat \/ (psi_2e u < length s2)%nat.
Variable window0 : Z.
Hypothesis Hw : 0 <= window0.
Local Notation l1 := (Z.of_nat (length s1)).
Local Notation l2 := (Z.of_nat (length s2)).
Local Notation d := (cell u s1 s2).
Local Notation pen := (adj_penalty u).
Local Notation p1b := (psi_1b u).
Local Notation p2b := (psi_2b u).
Local Notation M := (Mfun u s1 s2).
Local Notation Qb := (Q B).
Local Notation bigb := (big B).
Local Notation W := (cw_width l1 l2 window0).
Local Notation shiftz := (cw_shift l1 l2 window0).
Local Notation ri2z := (cw_ri2 l1 l2 window0).
Local Notation lo := (blo l1 l2 window0).
Local Notation hi := (bhi l1 l2 window0).
Local Notation slotZ := (slotz l1 l2 window0).
Local Notation offd := (offdiag l1 l2 window0).
Local Notation rinit := (row_init l1 l2 window0 p1b).
Local Notation fcol := (first_col l1 l2 window0).
Local Notation wl := ((l1 + 1) * W).
Local Notation SI := (SInv u s1 s2 B).
Local Notation EI := (EInv u s1 s2 B).
Hypothesis Hd : forall ri ci : nat, Z.of_nat ri < l1 ->
  ~ (lo (Z.of_nat ri) <= Z.of_nat ci < hi (Z.of_nat ri)) -> d ri ci = Inf.

Let H1 : 1 <= l1. Proof. lia. Qed.
Let H2 : 1 <= l2. Proof. lia. Qed.

Lemma Wp : 0 < W.
Proof. exact (W_pos l1 l2 window0 H1 H2 Hw). Qed.

Lemma M_out ri ci : Z.of_nat ri < l1 -> ~ (lo (Z.of_nat ri) <= Z.of_nat ci < hi (Z.of_nat ri)) -> M (S ri) (S ci) = Inf.
Proof. intros Hri Hout. unfold Mfun. rewrite Mf_S_S, (Hd ri ci Hri Hout). unfold code_cell. apply cadd_inf_l. Qed.

Lemma pen0 : 0 <= pen.
Proof. apply adj_penalty_nonneg. exact Hpen. Qed.

Lemma hi_mono a b : a <= b -> hi a <= hi b.
Proof. intros H. unfold bhi, band_hi. lia. Qed.

(* a row of the array holds row i of the matrix up to the bound *)
Definition CRowQ (i : nat) (f : Z -> cost) : Prop :=
  forall s, 0 <= s < W -> let col := s + shiftz (Z.of_nat i - 1) in col <= l2 ->
    (col = 0 -> Z.of_nat i <= ri2z) -> Qb (f s) (M i (Z.to_nat col)).

Definition GQ (ri : nat) (wps : list cost) : Prop :=
  Z.of_nat (length wps) = wl /\
  (forall k, (k <= ri)%nat -> CRowQ k (rowf l1 l2 window0 wps k)) /\
  (forall k, (ri < k)%nat -> Z.of_nat k <= l1 -> aget wps (Z.of_nat k * W) = b1 p1b k).

(* what the bookkeeping knows when row ri starts *)
Definition PInv (ri scn ecn : nat) : Prop :=
  ((p1b < ri)%nat -> SI (S ri) scn) /\ EI ri ecn /\ Z.of_nat scn <= hi (Z.of_nat ri).

Section CellLoop.
Variable ri : nat.
Hypothesis Hri : Z.of_nat ri < l1.
Variable wps0 : list cost.
Hypothesis Hlen0 : Z.of_nat (length wps0) = wl.
Variables (dok : Z -> bool) (dfun : Z -> cost) (fd fu : Z -> Z) (ms : cost).
Variables (scn ecn : nat).                 (* sc AFTER the reset `if (ri <= psi_1b) sc = 0`; ec of the previous row *)
Local Notation base := ((Z.of_nat ri + 1) * W).
Local Notation basep := (Z.of_nat ri * W).
Local Notation prev := (fun s => aget wps0 (basep + s)).
Hypothesis Hdf : forall ci, lo (Z.of_nat ri) <= Z.of_nat ci < hi (Z.of_nat ri) ->
  dok (Z.of_nat ci) = true /\ (if cltb ms (dfun (Z.of_nat ci)) then Inf else dfun (Z.of_nat ci)) = d ri ci.
Hypothesis Hfd : forall x, fd x = x + offd ri.
Hypothesis Hfu : forall x, fu x = x + offd ri + 1.
Hypothesis Hprev : CRowQ ri prev.
Hypothesis HS : SI (S ri) scn.
Hypothesis HE : EI ri ecn.
Hypothesis Hsc_hi : Z.of_nat scn <= hi (Z.of_nat ri).

Definition ci0 : nat := Nat.max (fcol ri) scn.

(* the slots of the current row whose column is at most cib are correct up to the bound *)
Definition CurQ (cib : Z) (wps : list cost) : Prop :=
  forall s, 0 <= s < W -> let col := s + shiftz (Z.of_nat ri) in col <= cib -> col <= l2 ->
    (col = 0 -> Z.of_nat ri < ri2z) -> Qb (aget wps (base + s)) (M (S ri) (Z.to_nat col)).

Lemma fcol_lo' : Z.of_nat (fcol ri) = lo (Z.of_nat ri).
Proof. unfold first_col. pose proof (lo_nonneg l1 l2 window0 H1 H2 Hw (Z.of_nat ri)). lia. Qed.

(* every cell of row S ri in the columns 1 .. ci0 is above the bound *)
Lemma all_big0 col : (1 <= col <= ci0)%nat -> bigb (M (S ri) col).
Proof.
  intros Hcol. destruct col as [|col]; [lia|].
  destruct (Nat.le_gt_cases (S col) scn) as [Hle|Hgt]; [apply HS; lia|].
  left. apply M_out; [exact Hri|]. pose proof fcol_lo'. unfold ci0 in Hcol. lia.
Qed.

Definition Cinv (n : nat) (st : stw) : Prop :=
  let '(ecz, ok, scz, sf, wps, wpsi, brk) := st in
  ok = true /\ length wps = length wps0 /\
  (forall idx, ~ (base <= idx < base + W) -> aget wps idx = aget wps0 idx) /\
  exists scn' ecn' : nat, scz = Z.of_nat scn' /\ ecz = Z.of_nat ecn' /\ SI (S ri) scn' /\ (scn' <= Nat.max scn (ci0 + n))%nat /\
    (brk = false ->
       wpsi = slotZ ri (ci0 + n) /\ CurQ (Z.of_nat (ci0 + n)) wps /\
       (sf = false -> forall col, (1 <= col <= ci0 + n)%nat -> bigb (M (S ri) col)) /\
       (forall col, (ecn' + 1 <= col <= ci0 + n)%nat -> bigb (M (S ri) col))) /\
    (brk = true ->
       exists jb : nat, wpsi = slotZ ri jb /\ (ci0 <= jb < ci0 + n)%nat /\ CurQ (Z.of_nat jb) wps /\
         (forall col, (jb + 1 <= col)%nat -> bigb (M (S ri) col)) /\ EI (S ri) ecn').

Lemma cell_step n st : (ci0 + n < Z.to_nat (hi (Z.of_nat ri)))%nat -> Cinv n st ->
  Cinv (S n) (k_wcell dok dfun fd fu (Z.of_nat ecn) B ms (Fin pen) base basep wl st (Z.of_nat (ci0 + n))).
Proof.
  intros Hn. destruct st as [[[[[[ecz ok] scz] sf] wps] wpsi] brk].
  intros (-> & Hlen & Hframe & scn' & ecn' & -> & -> & HSc & Hscb & Hrun & Hstop).
  pose proof fcol_lo' as Efc. pose proof Wp as HWp.
  unfold k_wcell.
  destruct brk.
  { (* after the break nothing changes *)
    destruct (Hstop eq_refl) as (jb & Ew & Hjb & Hcur & Hbig & HEn).
    unfold Cinv. split; [reflexivity|]. split; [exact Hlen|]. split; [exact Hframe|].
    exists scn', ecn'. split; [reflexivity|]. split; [reflexivity|]. split; [exact HSc|]. split; [lia|].
    split; [discriminate|]. intros _. exists jb. split; [exact Ew|]. split; [lia|]. split; [exact Hcur|]. split; assumption. }
  destruct (Hrun eq_refl) as (-> & Hcur & Hnos & Hecn). clear Hrun Hstop.
  set (ci := (ci0 + n)%nat) in *.
  assert (Hband : lo (Z.of_nat ri) <= Z.of_nat ci < hi (Z.of_nat ri)) by (unfold ci, ci0 in *; lia).
  destruct (row_facts l1 l2 window0 H1 H2 Hw (Z.of_nat ri) (Z.of_nat ci) ltac:(lia) Hband) as (Hs & Hd0 & Hu).
  pose proof (hi_le l1 l2 window0 H1 H2 Hw (Z.of_nat ri)) as Hhl.
  pose proof (shift_nonneg l1 l2 window0 H1 H2 Hw (Z.of_nat ri)) as Hsh0.
  pose proof (shift_nonneg l1 l2 window0 H1 H2 Hw (Z.of_nat ri - 1)) as Hsh1.
  destruct (Hdf ci Hband) as [Edok Edf].
  rewrite Edok. cbn [andb].
  assert (Eslot : slotZ ri ci = Z.of_nat ci + 1 - shiftz (Z.of_nat ri)) by reflexivity.
  assert (Enext : slotZ ri (ci0 + S n) = slotZ ri ci + 1) by (unfold slotz, ci; lia).
  assert (Eoff : offd ri = shiftz (Z.of_nat ri) - shiftz (Z.of_nat ri - 1) - 1) by reflexivity.
  assert (Hin1 : inb wl (base + slotZ ri ci) = true).
  { unfold inb. apply andb_true_intro. split; [apply Z.leb_le|apply Z.ltb_lt]; nia. }
  assert (Hlenw : Z.of_nat (length wps) = wl) by (rewrite Hlen; exact Hlen0).
  assert (HM : M (S ri) (S ci) = code_cell pen (d ri ci) (M ri ci) (M ri (S ci)) (M (S ri) ci)) by (unfold Mfun; apply Mf_S_S).
  (* storing a value v that is correct up to the bound for the cell (S ri, S ci) *)
  assert (Hstore : forall v, Qb v (M (S ri) (S ci)) -> CurQ (Z.of_nat (ci0 + S n)) (aset wps (base + slotZ ri ci) v)).
  { intros v Hv s Hs' col Hcol Hcl Hc0. destruct (Z.eq_dec s (slotZ ri ci)) as [->|Hne].
    - rewrite aget_aset_same by nia. unfold col. rewrite Eslot.
      replace (Z.to_nat (Z.of_nat ci + 1 - shiftz (Z.of_nat ri) + shiftz (Z.of_nat ri))) with (S ci) by lia. exact Hv.
    - rewrite aget_aset_other by lia. apply Hcur; try assumption. unfold col in *. rewrite Eslot in Hne. fold ci. lia. }
  destruct (cltb ms (dfun (Z.of_nat ci))) eqn:Ems.
  - (* the step exceeds max_step: the cell is infinite, and so is the true cell *)
    rewrite Hin1. cbn [andb].
    assert (HI : M (S ri) (S ci) = Inf) by (rewrite HM, <- Edf; unfold code_cell; apply cadd_inf_l).
    unfold Cinv. split; [reflexivity|]. split; [rewrite aset_length; exact Hlen|].
    split; [intros idx Hidx; rewrite aget_aset_other by lia; apply Hframe; exact Hidx|].
    exists scn', ecn'. split; [reflexivity|]. split; [reflexivity|]. split; [exact HSc|]. split; [lia|].
    split; [|discriminate]. intros _. split; [symmetry; exact Enext|]. split; [apply Hstore; rewrite HI; apply Q_refl|]. split.
    + intros Hsf col Hcol. destruct (Nat.eq_dec col (S ci)) as [->|Hne]; [rewrite HI; apply big_inf|apply Hnos; [exact Hsf|fold ci; lia]].
    + intros col Hcol. destruct (Nat.eq_dec col (S ci)) as [->|Hne]; [rewrite HI; apply big_inf|apply Hecn; fold ci; lia].
  - (* the recurrence *)
    rewrite Hfd, Hfu.
    assert (Hin0 : inb wl (base + slotZ ri ci - 1) = true).
    { unfold inb. apply andb_true_intro. split; [apply Z.leb_le|apply Z.ltb_lt]; nia. }
    assert (Hin2 : inb wl (basep + slotZ ri ci + offd ri) = true).
    { unfold inb. apply andb_true_intro. split; [apply Z.leb_le|apply Z.ltb_lt]; nia. }
    assert (Hin3 : inb wl (basep + slotZ ri ci + offd ri + 1) = true).
    { unfold inb. apply andb_true_intro. split; [apply Z.leb_le|apply Z.ltb_lt]; nia. }
    rewrite Hin0, Hin1, Hin2, Hin3. cbn [andb]. cbv zeta.
    rewrite aget_aset_same by nia.
    assert (Hb0 : Z.of_nat ci = 0 -> Z.of_nat ri < ri2z).
    { intros E0. apply (band_starts_at_zero l1 l2 window0 H1 H2 Hw); lia. }
    assert (Rl : Qb (aget wps (base + slotZ ri ci - 1)) (M (S ri) ci)).
    { replace (base + slotZ ri ci - 1) with (base + (slotZ ri ci - 1)) by lia.
      pose proof (Hcur (slotZ ri ci - 1) ltac:(lia)) as HH. cbv zeta in HH.
      replace (slotZ ri ci - 1 + shiftz (Z.of_nat ri)) with (Z.of_nat ci) in HH by lia. rewrite Nat2Z.id in HH.
      apply HH; fold ci; lia. }
    assert (Rd : Qb (aget wps (basep + slotZ ri ci + offd ri)) (M ri ci)).
    { rewrite (Hframe (basep + slotZ ri ci + offd ri)) by nia.
      replace (basep + slotZ ri ci + offd ri) with (basep + (Z.of_nat ci - shiftz (Z.of_nat ri - 1))) by lia.
      pose proof (Hprev (Z.of_nat ci - shiftz (Z.of_nat ri - 1)) ltac:(lia)) as HH. cbv zeta in HH.
      replace (Z.of_nat ci - shiftz (Z.of_nat ri - 1) + shiftz (Z.of_nat ri - 1)) with (Z.of_nat ci) in HH by lia. rewrite Nat2Z.id in HH.
      apply HH; [lia|]. intros E0. specialize (Hb0 E0). lia. }
    assert (Ru : Qb (aget wps (basep + slotZ ri ci + offd ri + 1)) (M ri (S ci))).
    { rewrite (Hframe (basep + slotZ ri ci + offd ri + 1)) by nia.
      replace (basep + slotZ ri ci + offd ri + 1) with (basep + (Z.of_nat ci + 1 - shiftz (Z.of_nat ri - 1))) by lia.
      pose proof (Hprev (Z.of_nat ci + 1 - shiftz (Z.of_nat ri - 1)) ltac:(lia)) as HH. cbv zeta in HH.
      replace (Z.of_nat ci + 1 - shiftz (Z.of_nat ri - 1) + shiftz (Z.of_nat ri - 1)) with (Z.of_nat (S ci)) in HH by lia. rewrite Nat2Z.id in HH.
      apply HH; lia. }
    set (v := cadd (dfun (Z.of_nat ci)) (cmin (cmin (cadd (aget wps (base + slotZ ri ci - 1)) (Fin pen)) (aget wps (basep + slotZ ri ci + offd ri)))
                                               (cadd (aget wps (basep + slotZ ri ci + offd ri + 1)) (Fin pen)))).
    assert (Hv : Qb v (M (S ri) (S ci))).
    { rewrite HM, <- Edf. unfold v.
      change (cmin (cmin (cadd (aget wps (base + slotZ ri ci - 1)) (Fin pen)) (aget wps (basep + slotZ ri ci + offd ri)))
                   (cadd (aget wps (basep + slotZ ri ci + offd ri + 1)) (Fin pen)))
        with (cmin3 (cadd (aget wps (base + slotZ ri ci - 1)) (Fin pen)) (aget wps (basep + slotZ ri ci + offd ri))
                    (cadd (aget wps (basep + slotZ ri ci + offd ri + 1)) (Fin pen))).
      rewrite cmin3_left_diag_up.
      apply (Q_code_cell B pen (dfun (Z.of_nat ci))); try assumption; [apply pen0|].
      pose proof (cell_nonneg u s1 s2 ri ci) as Hnn. rewrite <- Edf in Hnn. exact Hnn. }
    assert (Hupd : CurQ (Z.of_nat (ci0 + S n)) (aset wps (base + slotZ ri ci) v)) by (apply Hstore; exact Hv).
    destruct (cleb v B) eqn:EvB.
    + (* v <= B: smaller_found, ec_next = ci + 1 *)
      unfold Cinv. split; [reflexivity|]. split; [rewrite aset_length; exact Hlen|].
      split; [intros idx Hidx; rewrite aget_aset_other by lia; apply Hframe; exact Hidx|].
      exists scn', (S ci). split; [reflexivity|]. split; [lia|]. split; [exact HSc|]. split; [lia|].
      split; [|discriminate]. intros _. split; [symmetry; exact Enext|]. split; [exact Hupd|]. split; [discriminate|].
      intros col Hcol. fold ci in Hcol. lia.
    + (* v > B *)
      assert (Hbig : bigb (M (S ri) (S ci))) by (right; eapply Q_gt; [exact Hv|exact EvB]).
      assert (HSc' : SI (S ri) (if sf then scn' else S ci)).
      { destruct sf; [exact HSc|]. intros col Hcol. destruct (Nat.eq_dec col (S ci)) as [->|Hne]; [exact Hbig|apply Hnos; [reflexivity|fold ci; lia]]. }
      replace (if negb sf then Z.of_nat ci + 1 else Z.of_nat scn') with (Z.of_nat (if sf then scn' else S ci)) by (destruct sf; cbn [negb]; lia).
      destruct (Z.geb_spec (Z.of_nat ci) (Z.of_nat ecn)) as [Hbr|Hnb].
      * (* break *)
        pose proof (E_break u s1 s2 B Hr Hc Hpen Hpsi ri ecn ci HE ltac:(lia) Hbig) as Hrest.
        unfold Cinv. split; [reflexivity|]. split; [rewrite aset_length; exact Hlen|].
        split; [intros idx Hidx; rewrite aget_aset_other by lia; apply Hframe; exact Hidx|].
        exists (if sf then scn' else S ci), ecn'. split; [reflexivity|]. split; [reflexivity|]. split; [exact HSc'|].
        split; [destruct sf; fold ci; lia|]. split; [discriminate|]. intros _.
        exists ci. split; [reflexivity|]. split; [unfold ci; lia|]. split.
        -- intros s Hs' col Hcol Hcl Hc0. rewrite aget_aset_other by (unfold col in Hcol; lia). apply Hcur; try assumption; fold ci; lia.
        -- split; [intros col Hcol; apply Hrest; lia|].
           intros col Hcol. destruct (Nat.le_gt_cases col ci) as [Hle|Hgt]; [apply Hecn; fold ci; lia|apply Hrest; lia].
      * unfold Cinv. split; [reflexivity|]. split; [rewrite aset_length; exact Hlen|].
        split; [intros idx Hidx; rewrite aget_aset_other by lia; apply Hframe; exact Hidx|].
        exists (if sf then scn' else S ci), ecn'. split; [reflexivity|]. split; [reflexivity|]. split; [exact HSc'|].
        split; [destruct sf; fold ci; lia|]. split; [|discriminate]. intros _. split; [symmetry; exact Enext|]. split; [exact Hupd|]. split.
        -- intros Hsf col Hcol. destruct (Nat.eq_dec col (S ci)) as [->|Hne]; [exact Hbig|apply Hnos; [exact Hsf|fold ci; lia]].
        -- intros col Hcol. destruct (Nat.eq_dec col (S ci)) as [->|Hne]; [exact Hbig|apply Hecn; fold ci; lia].
Qed.

Lemma row_core_spec_B psi (scn0 : nat) {R} (K : Z -> bool -> Z -> list cost -> R) :
  psi = Z.of_nat p1b -> scn = (if (ri <=? p1b)%nat then 0%nat else scn0) ->
  (forall s, 0 <= s < slotZ ri (fcol ri) -> aget wps0 (base + s) = rinit ri s) ->
  exists (scn' ecn' : nat) wps',
    k_wrow_core k_wskip (fun ec => k_wcell dok dfun fd fu ec B ms (Fin pen) base basep wl) k_wfill
      psi (Z.of_nat ri) (lo (Z.of_nat ri)) (hi (Z.of_nat ri)) W wl base (Z.of_nat ecn) true (Z.of_nat scn0) wps0 (slotZ ri (fcol ri)) K
    = K (Z.of_nat ecn') true (Z.of_nat scn') wps' /\
    length wps' = length wps0 /\
    CRowQ (S ri) (fun s => aget wps' (base + s)) /\
    (forall idx, ~ (base <= idx < base + W) -> aget wps' idx = aget wps0 idx) /\
    SI (S ri) scn' /\ EI (S ri) ecn' /\ Z.of_nat scn' <= hi (Z.of_nat ri).
Proof.
  intros Epsi Escn Hhead. pose proof fcol_lo' as Efc. pose proof Wp as HWp.
  pose proof (lo_nonneg l1 l2 window0 H1 H2 Hw (Z.of_nat ri)) as Hl0.
  pose proof (hi_le l1 l2 window0 H1 H2 Hw (Z.of_nat ri)) as Hhl.
  pose proof (shift_nonneg l1 l2 window0 H1 H2 Hw (Z.of_nat ri)) as Hsh0.
  destruct (band_nonempty l1 l2 window0 (Z.of_nat ri) H1 H2 Hw ltac:(lia)) as [Hne _].
  unfold k_wrow_core. cbv zeta.
  assert (Esc : (if Z.of_nat ri <=? psi then 0 else Z.of_nat scn0) = Z.of_nat scn).
  { rewrite Epsi, Escn. destruct (Z.leb_spec (Z.of_nat ri) (Z.of_nat p1b)); destruct (Nat.leb_spec ri p1b); lia. }
  rewrite Esc.
  assert (Hci0 : Z.of_nat ci0 = Z.max (lo (Z.of_nat ri)) (Z.of_nat scn)) by (unfold ci0; lia).
  (* the head of the row is correct up to column lo *)
  assert (Hhq : forall s, 0 <= s < slotZ ri (fcol ri) -> let col := s + shiftz (Z.of_nat ri) in col <= l2 ->
            (col = 0 -> Z.of_nat ri < ri2z) -> Qb (rinit ri s) (M (S ri) (Z.to_nat col))).
  { intros s Hs col Hcl Hc0. unfold slotz in Hs. unfold row_init.
    destruct (Z.eq_dec col 0) as [E0|E0].
    - assert (s = 0) by (unfold col in E0; lia). subst s. specialize (Hc0 E0).
      destruct (Z.ltb_spec (Z.of_nat ri) ri2z); [|lia]. cbn [Z.eqb andb]. rewrite E0. cbn [Z.to_nat]. unfold Mfun. rewrite Mf_S_0. apply Q_refl.
    - replace (Z.to_nat col) with (S (Z.to_nat (col - 1))) by (unfold col in *; lia).
      rewrite M_out; [|exact Hri|rewrite Z2Nat.id by (unfold col in *; lia); unfold col; lia].
      destruct ((s =? 0) && (Z.of_nat ri <? ri2z)) eqn:Eb; [|apply Q_refl].
      apply andb_true_iff in Eb. destruct Eb as [Eb1 Eb2]. apply Z.eqb_eq in Eb1. apply Z.ltb_lt in Eb2.
      pose proof (unshifted_above_overlap l1 l2 window0 H1 H2 Hw _ Eb2). unfold col in E0. lia. }
  (* after the skip loop *)
  assert (HA : exists wpsA,
     (if Z.of_nat scn <=? lo (Z.of_nat ri) then (lo (Z.of_nat ri), true, wps0, slotZ ri (fcol ri))
      else let '(ok, wps, wpsi) := fold_left (k_wskip base wl) (zrange (lo (Z.of_nat ri)) (Z.of_nat scn)) (true, wps0, slotZ ri (fcol ri)) in
           (Z.max (lo (Z.of_nat ri)) (Z.of_nat scn), ok, wps, wpsi))
     = (Z.of_nat ci0, true, wpsA, slotZ ri ci0) /\ length wpsA = length wps0 /\
     (forall idx, ~ (base <= idx < base + W) -> aget wpsA idx = aget wps0 idx) /\ CurQ (Z.of_nat ci0) wpsA).
  { destruct (Z.leb_spec (Z.of_nat scn) (lo (Z.of_nat ri))) as [Hle|Hgt].
    - exists wps0. assert (E0 : ci0 = fcol ri) by (unfold ci0; lia). rewrite E0, Efc.
      split; [reflexivity|]. split; [reflexivity|]. split; [reflexivity|].
      intros s Hs col Hcol Hcl Hc0. rewrite Hhead by (unfold slotz, col in *; lia). apply Hhq; try assumption. unfold slotz, col in *. lia.
    - set (n := (scn - fcol ri)%nat).
      assert (Ez : zrange (lo (Z.of_nat ri)) (Z.of_nat scn) = zrange (lo (Z.of_nat ri)) (lo (Z.of_nat ri) + Z.of_nat n)) by (f_equal; unfold n; lia).
      rewrite Ez.
      destruct (row_facts l1 l2 window0 H1 H2 Hw (Z.of_nat ri) (lo (Z.of_nat ri)) ltac:(lia) ltac:(lia)) as (Hs1 & _).
      destruct (row_facts l1 l2 window0 H1 H2 Hw (Z.of_nat ri) (Z.of_nat scn - 1) ltac:(lia) ltac:(lia)) as (Hs2 & _).
      destruct (wskip_spec wl base wps0 (lo (Z.of_nat ri)) n (slotZ ri (fcol ri))) as (wA & EA & HlA & HinA & HoutA).
      { unfold slotz. nia. } { unfold slotz, n. nia. } { symmetry; exact Hlen0. }
      rewrite EA. exists wA. assert (E0 : ci0 = scn) by (unfold ci0; lia).
      split; [replace (Z.max (lo (Z.of_nat ri)) (Z.of_nat scn)) with (Z.of_nat ci0) by lia;
              replace (slotZ ri (fcol ri) + Z.of_nat n) with (slotZ ri ci0) by (unfold slotz, n; rewrite E0; lia); reflexivity|].
      split; [exact HlA|]. split; [intros idx Hidx; apply HoutA; unfold slotz, n; nia|].
      intros s Hs col Hcol Hcl Hc0. rewrite E0 in Hcol.
      destruct (Z_lt_le_dec s (slotZ ri (fcol ri))) as [Hlt|Hge].
      + rewrite HoutA by lia. rewrite Hhead by lia. apply Hhq; try assumption. lia.
      + rewrite HinA by (unfold slotz, n, col in *; nia). apply Q_inf. apply all_big0. unfold slotz, col, ci0 in *. lia. }
  destruct HA as (wpsA & EA & HlA & HfrA & HcurA).
  match goal with |- context [if Z.of_nat scn <=? lo (Z.of_nat ri) then ?X else ?Y] => replace (if Z.of_nat scn <=? lo (Z.of_nat ri) then X else Y) with (Z.of_nat ci0, true, wpsA, slotZ ri ci0) end.
  (* the cell loop *)
  set (nc := (Z.to_nat (hi (Z.of_nat ri)) - ci0)%nat).
  assert (Hci0hi : Z.of_nat ci0 <= hi (Z.of_nat ri)) by lia.
  assert (Ezc : zrange (Z.of_nat ci0) (hi (Z.of_nat ri)) = zrange (Z.of_nat ci0) (Z.of_nat ci0 + Z.of_nat nc)) by (f_equal; unfold nc; lia).
  rewrite Ezc.
  assert (HC : Cinv nc (fold_left (k_wcell dok dfun fd fu (Z.of_nat ecn) B ms (Fin pen) base basep wl)
                          (zrange (Z.of_nat ci0) (Z.of_nat ci0 + Z.of_nat nc))
                          (Z.of_nat ri, true, Z.of_nat scn, false, wpsA, slotZ ri ci0, false))).
  { apply (fold_zrange_from Cinv).
    - unfold Cinv. split; [reflexivity|]. split; [exact HlA|]. split; [exact HfrA|].
      exists scn, ri. split; [reflexivity|]. split; [reflexivity|]. split; [exact HS|]. split; [lia|].
      rewrite Nat.add_0_r. split; [|discriminate]. intros _. split; [reflexivity|]. split; [exact HcurA|].
      split; intros; apply all_big0; lia.
    - intros k st Hk Hst. replace (Z.of_nat ci0 + Z.of_nat k) with (Z.of_nat (ci0 + k)) by lia. apply cell_step; [unfold nc in Hk; lia|exact Hst]. }
  destruct (fold_left (k_wcell dok dfun fd fu (Z.of_nat ecn) B ms (Fin pen) base basep wl)
              (zrange (Z.of_nat ci0) (Z.of_nat ci0 + Z.of_nat nc)) (Z.of_nat ri, true, Z.of_nat scn, false, wpsA, slotZ ri ci0, false))
    as [[[[[[ecz ok] scz] sf] wps1] wpsi] brk].
  destruct HC as (-> & Hlen1 & Hfr1 & scn' & ecn' & -> & -> & HSc & Hscb & Hrun & Hstop).
  (* where the row ends: all slots left of wpsi are correct, every column from there on is above the bound *)
  assert (Hend : exists cib : nat, wpsi = slotZ ri cib /\ (ci0 <= cib)%nat /\ Z.of_nat cib <= hi (Z.of_nat ri) /\ CurQ (Z.of_nat cib) wps1 /\
                   (forall col, (cib + 1 <= col)%nat -> bigb (M (S ri) col)) /\ EI (S ri) ecn').
  { assert (Hout : forall col, (Z.to_nat (hi (Z.of_nat ri)) + 1 <= col)%nat -> bigb (M (S ri) col)).
    { intros col Hcol. destruct col as [|col]; [lia|]. left. apply M_out; [exact Hri|]. lia. }
    destruct brk.
    - destruct (Hstop eq_refl) as (jb & Ew & Hjb & Hcur & Hbig & HEn). exists jb. unfold nc in Hjb. repeat split; try assumption; lia.
    - destruct (Hrun eq_refl) as (Ew & Hcur & _ & Hecn). exists (ci0 + nc)%nat. unfold nc in *.
      split; [exact Ew|]. split; [lia|]. split; [lia|]. split; [exact Hcur|]. split.
      + intros col Hcol. apply Hout. lia.
      + intros col Hcol. destruct (Nat.le_gt_cases col (ci0 + (Z.to_nat (hi (Z.of_nat ri)) - ci0))) as [Hle|Hgt]; [apply Hecn; lia|apply Hout; lia]. }
  destruct Hend as (cib & -> & Hcib0 & Hcibh & Hcur & Hbig & HEn).
  (* the tail fill *)
  assert (Hwe : 0 < slotZ ri cib <= W).
  { unfold slotz. destruct (row_facts l1 l2 window0 H1 H2 Hw (Z.of_nat ri) (hi (Z.of_nat ri) - 1) ltac:(lia) ltac:(lia)) as (Hs & _).
    destruct (row_facts l1 l2 window0 H1 H2 Hw (Z.of_nat ri) (lo (Z.of_nat ri)) ltac:(lia) ltac:(lia)) as (Hs' & _). unfold ci0 in Hcib0. lia. }
  set (we := slotZ ri cib) in *.
  replace (base + W) with (base + we + Z.of_nat (Z.to_nat (W - we))) by lia.
  destruct (wfill_spec wl wps1 (base + we) (Z.to_nat (W - we)) ltac:(nia) ltac:(nia) ltac:(rewrite Hlen1; symmetry; exact Hlen0))
    as (wps2 & E2 & Hlen2 & Hin2 & Hout2).
  rewrite E2. exists scn', ecn', wps2. split; [reflexivity|]. split; [lia|]. split.
  - intros s Hs. cbv zeta. replace (Z.of_nat (S ri) - 1) with (Z.of_nat ri) by lia. intros Hcl Hc0.
    destruct (Z_lt_le_dec s we) as [Hlt|Hge].
    + rewrite Hout2 by lia. apply (Hcur s Hs); [unfold we, slotz in *; lia|exact Hcl|]. intros E0. specialize (Hc0 E0). lia.
    + rewrite Hin2 by lia. apply Q_inf. apply Hbig. unfold we, slotz in *. lia.
  - split; [intros idx Hidx; rewrite Hout2 by lia; apply Hfr1; lia|].
    split; [exact HSc|]. split; [exact HEn|]. unfold nc in Hscb. lia.
Qed.
End CellLoop.

(* ------------------------------------------------------------------ one row: from the array invariant to the next *)
Section RowStep.
Variable ri : nat.
Hypothesis Hri : Z.of_nat ri < l1.
Variables (dok : Z -> bool) (dfun : Z -> cost) (fd fu : Z -> Z) (ms : cost).
Hypothesis Hdf : forall ci, lo (Z.of_nat ri) <= Z.of_nat ci < hi (Z.of_nat ri) ->
  dok (Z.of_nat ci) = true /\ (if cltb ms (dfun (Z.of_nat ci)) then Inf else dfun (Z.of_nat ci)) = d ri ci.
Hypothesis Hfd : forall x, fd x = x + offd ri.
Hypothesis Hfu : forall x, fu x = x + offd ri + 1.
Local Notation base := ((Z.of_nat ri + 1) * W).
Local Notation basep := (Z.of_nat ri * W).

Lemma row_step_B wps wpsh psi (scn0 ecn : nat) {R} (K : Z -> bool -> Z -> list cost -> R) :
  GQ ri wps -> PInv ri scn0 ecn -> psi = Z.of_nat p1b ->
  length wpsh = length wps ->
  (forall idx, ~ (base <= idx < base + W) -> aget wpsh idx = aget wps idx) ->
  (forall s, 0 <= s < slotZ ri (fcol ri) -> aget wpsh (base + s) = rinit ri s) ->
  exists (scn' ecn' : nat) wps',
    k_wrow_core k_wskip (fun ec => k_wcell dok dfun fd fu ec B ms (Fin pen) base basep wl) k_wfill
      psi (Z.of_nat ri) (lo (Z.of_nat ri)) (hi (Z.of_nat ri)) W wl base (Z.of_nat ecn) true (Z.of_nat scn0) wpsh (slotZ ri (fcol ri)) K
    = K (Z.of_nat ecn') true (Z.of_nat scn') wps' /\ GQ (S ri) wps' /\ PInv (S ri) scn' ecn'.
Proof.
  intros (Hlen & Hrows & Hcol0) (HSp & HEp & Hsch) Epsi Hlh Hframe Hhead. pose proof Wp as HWp.
  assert (Hlenh : Z.of_nat (length wpsh) = wl) by (rewrite Hlh; exact Hlen).
  set (scn := if (ri <=? p1b)%nat then 0%nat else scn0).
  assert (HS : SI (S ri) scn).
  { unfold scn. destruct (Nat.leb_spec ri p1b); [intros col Hcol; lia|apply HSp; lia]. }
  assert (Hsc_hi : Z.of_nat scn <= hi (Z.of_nat ri)) by (unfold scn; destruct (ri <=? p1b)%nat; lia).
  assert (Hprev : CRowQ ri (fun s => aget wpsh (basep + s))).
  { intros s Hs col Hcl Hc0. rewrite Hframe by nia. exact (Hrows ri (le_n _) s Hs Hcl Hc0). }
  destruct (row_core_spec_B ri Hri wpsh Hlenh dok dfun fd fu ms scn ecn Hdf Hfd Hfu Hprev HS HEp Hsc_hi psi scn0 K Epsi eq_refl Hhead)
    as (scn' & ecn' & wps' & E & Hl' & Hrow' & Hfr' & HS' & HE' & Hsc').
  exists scn', ecn', wps'. split; [exact E|]. split.
  - split; [rewrite Hl'; exact Hlenh|]. split.
    + intros k Hk. destruct (Nat.eq_dec k (S ri)) as [->|Hne].
      * intros s Hs col Hcl Hc0. unfold rowf. replace (Z.of_nat (S ri) * W + s) with (base + s) by lia. exact (Hrow' s Hs Hcl Hc0).
      * intros s Hs col Hcl Hc0. unfold rowf. rewrite Hfr' by nia. rewrite Hframe by nia. exact (Hrows k ltac:(lia) s Hs Hcl Hc0).
    + intros k Hk Hkl. rewrite Hfr' by nia. rewrite Hframe by nia. apply Hcol0; [lia|assumption].
  - split; [intros Hp; apply (S_next u s1 s2 B Hr Hc Hpen Hpsi); [lia|exact HS']|]. split; [exact HE'|].
    pose proof (hi_mono (Z.of_nat ri) (Z.of_nat (S ri)) ltac:(lia)). lia.
Qed.
End RowStep.
End PruneC.
