(* dtw_expand_wps_slice / dtw_expand_wps_slice_affinity (and dtw_expand_wps*, which call them with the whole matrix
   as the slice) copy the compact warping-paths array into a full (re-rb) x (ce-cb) matrix.

   tools/translate_c.py regenerates their four row regions (Gen_cexpand.v: initial min_ci / max_ci / wpsi_start as
   functions of the clipped slice bounds, per-row increments; the shape of every loop header, of every index
   expression of `full` and `wps` and of the wpsi start rule is checked syntactically, anything else is an error).
   Proved for both routines, every region, every length, window and slice 0 <= rb < re <= l1+1, 0 <= cb < ce <= l2+1,
   every row and column the loops visit:
     - the cell is READ at slot ci + 1 - shift(ri) of its row of the compact array -- the layout of CWps.v, the slot
       the fill loops wrote (CFill.v) -- and that slot lies inside the row;
     - it is WRITTEN to row ri + 1 - rb, column ci + 1 - cb of the output, inside the (re-rb) x (ce-cb) block. *)
From Coq Require Import ZArith Bool Lia String List.
From DV Require Import Dtw CWps CFill.
From DVGen Require Import Gen_cwps Gen_cfill Gen_cexpand.
Import ListNotations.
Open Scope Z_scope.

Section Expand.
Variables l1 l2 window0 : Z.
Variables rb re cb ce : Z.
Local Notation ldiff := (c_parts_ldiff l1 l2).
Local Notation ldiffr := (c_parts_ldiffr l1 l2 ldiff).
Local Notation ldiffc := (c_parts_ldiffc l1 l2 ldiff).
Local Notation window := (c_parts_window l1 l2 window0).
Local Notation ol := (c_parts_overlap_left l1 ldiffr window).
Local Notation orr := (c_parts_overlap_right l1 ldiffr window).
Local Notation ri2 := (c_parts_ri2 l1 ol).
Local Notation ri3 := (c_parts_ri3 l1 ol orr).

(* idx_t rbs = 0; if (rb > 0) { rbs = rb - 1; }  etc. (checked by the translator) *)
Definition rbs := Z.max (rb - 1) 0.
Definition res := Z.max (re - 1) 0.
Definition cbs := Z.max (cb - 1) 0.
Definition ces := Z.max (ce - 1) 0.

Definition first_row (r : expand_region) : Z := Z.max rbs (region_lo l1 l2 window0 (er_region r)).
Definition last_row (r : expand_region) : Z := Z.min res (region_hi l1 l2 window0 (er_region r)).
Definition e_min (r : expand_region) (ri : Z) : Z :=
  er_min0 r l2 window ldiff ldiffr ldiffc ri2 ri3 rbs ces + er_dmin r * (ri - first_row r).
Definition e_hi (r : expand_region) (ri : Z) : Z :=
  er_max0 r l2 window ldiff ldiffr ldiffc ri2 ri3 rbs ces + er_dmax r * (ri - first_row r).
Definition e_w (r : expand_region) (ri : Z) : Z :=
  er_w0 r l2 window ldiff ldiffr ldiffc ri2 ri3 rbs ces + er_dw r * (ri - first_row r).
(* wpsi = K or K + (cbs - min_ci), then one step per column from MAX(cbs, min_ci) *)
Definition e_slot (r : expand_region) (ri ci : Z) : Z := e_w r ri + (ci - e_min r ri).

Definition expand_ok (r : expand_region) : Prop :=
  forall ri ci, first_row r <= ri < last_row r -> Z.max cbs (e_min r ri) <= ci < Z.min ces (e_hi r ri) ->
    e_slot r ri ci = ci + 1 - cw_shift l1 l2 window0 ri /\
    0 < e_slot r ri ci < cw_width l1 l2 window0 /\
    rb <= ri + 1 < re /\ cb <= ci + 1 < ce /\ 0 <= ri < l1 /\ 0 <= ci < l2.
End Expand.

Definition ecanon (R : region_id) : expand_region :=
  match R with
  | RA => {| er_function := ""; er_region := RA;
             er_min0 := fun l2 window ldiff ldiffr ldiffc ri2 ri3 rbs ces => 0;
             er_max0 := fun l2 window ldiff ldiffr ldiffc ri2 ri3 rbs ces => ((window + ldiffc) + (rbs));
             er_w0 := fun l2 window ldiff ldiffr ldiffc ri2 ri3 rbs ces => 1;
             er_dmin := 0; er_dmax := 1; er_dw := 0; er_col0 := true; er_cslot0 := false |}
  | RB => {| er_function := ""; er_region := RB;
             er_min0 := fun l2 window ldiff ldiffr ldiffc ri2 ri3 rbs ces => 0;
             er_max0 := fun l2 window ldiff ldiffr ldiffc ri2 ri3 rbs ces => (Z.min ces l2);
             er_w0 := fun l2 window ldiff ldiffr ldiffc ri2 ri3 rbs ces => 1;
             er_dmin := 0; er_dmax := 0; er_dw := 0; er_col0 := true; er_cslot0 := false |}
  | RC => {| er_function := ""; er_region := RC;
             er_min0 := fun l2 window ldiff ldiffr ldiffc ri2 ri3 rbs ces => (if rbs >? ri2 then (1 + ((rbs - ri2))) else 1);
             er_max0 := fun l2 window ldiff ldiffr ldiffc ri2 ri3 rbs ces =>
               (if rbs >? ri2 then ((((1 + (2 * window)) - 1) + ldiff) + ((rbs - ri2))) else (((1 + (2 * window)) - 1) + ldiff));
             er_w0 := fun l2 window ldiff ldiffr ldiffc ri2 ri3 rbs ces => 1;
             er_dmin := 1; er_dmax := 1; er_dw := 0; er_col0 := false; er_cslot0 := true |}
  | RD => {| er_function := ""; er_region := RD;
             er_min0 := fun l2 window ldiff ldiffr ldiffc ri2 ri3 rbs ces =>
               (if rbs >? ri3 then ((if ri2 =? ri3 then (((ri3 + 1) - window) - ldiff) else ((1 + ri3) - ri2)) + ((rbs - ri3))) else (if ri2 =? ri3 then (((ri3 + 1) - window) - ldiff) else ((1 + ri3) - ri2)));
             er_max0 := fun l2 window ldiff ldiffr ldiffc ri2 ri3 rbs ces => l2;
             er_w0 := fun l2 window ldiff ldiffr ldiffc ri2 ri3 rbs ces =>
               (if rbs >? ri3 then ((if ri2 =? ri3 then ((((ri3 + 1) - window) - ldiff) + 1) else 2) + ((rbs - ri3))) else (if ri2 =? ri3 then ((((ri3 + 1) - window) - ldiff) + 1) else 2));
             er_dmin := 1; er_dmax := 0; er_dw := 1; er_col0 := false; er_cslot0 := false |}
  end.

Definition egeometry (r : expand_region) :=
  (er_region r, er_min0 r, er_max0 r, er_w0 r, (er_dmin r, er_dmax r, er_dw r), (er_col0 r, er_cslot0 r)).

Lemma expand_ok_geometry l1 l2 window0 rb re cb ce r c :
  egeometry r = egeometry c -> expand_ok l1 l2 window0 rb re cb ce c -> expand_ok l1 l2 window0 rb re cb ce r.
Proof.
  unfold egeometry. intros E. inversion E as [[E1 E2 E3 E4 E5 E6 E7 E8 E9]].
  unfold expand_ok, e_slot, e_min, e_hi, e_w, first_row, last_row. rewrite E1, E2, E3, E4, E5, E6, E7. exact (fun H => H).
Qed.

(* ------------------------------------------------------------ the expand loops against the fill loops
   Per row, the expand loops use the same first column, bound and slot rule as the fill loops of CFill.v (pure
   arithmetic over the region start: the parts stay opaque); only region D, when region C is empty, starts its
   columns possibly LEFT of the band (min_ci is computed from ldiff without clipping). *)
Lemma expand_like_fill (l1 l2 window0 rb ce : Z) R (ri ci : Z) : 0 <= rb ->
  first_row l1 l2 window0 rb (ecanon R) <= ri ->
  e_hi l1 l2 window0 rb ce (ecanon R) ri = Z.min (if match R with RB => true | _ => false end then ces ce else row_hi l1 l2 window0 (canon R) ri)
                                                 (row_hi l1 l2 window0 (canon R) ri) /\
  e_slot l1 l2 window0 rb ce (ecanon R) ri ci = slot l1 l2 window0 (canon R) ri ci /\
  e_min l1 l2 window0 rb ce (ecanon R) ri <= row_min l1 l2 window0 (canon R) ri /\
  (match R with RD => c_parts_ri2 l1 (c_parts_overlap_left l1 (c_parts_ldiffr l1 l2 (c_parts_ldiff l1 l2)) (c_parts_window l1 l2 window0)) <>
                      c_parts_ri3 l1 (c_parts_overlap_left l1 (c_parts_ldiffr l1 l2 (c_parts_ldiff l1 l2)) (c_parts_window l1 l2 window0))
                                     (c_parts_overlap_right l1 (c_parts_ldiffr l1 l2 (c_parts_ldiff l1 l2)) (c_parts_window l1 l2 window0))
              | _ => True end ->
   e_min l1 l2 window0 rb ce (ecanon R) ri = row_min l1 l2 window0 (canon R) ri).
Proof.
  intros Hrb. pose proof (ldiff_norm l1 l2) as HLD. pose proof (ldiffr_norm l1 l2) as HLR.
  unfold e_hi, e_slot, e_min, e_w, first_row, slot, row_hi, row_min, row_wpsi, region_lo, rbs, ces.
  destruct R; cbv [ecanon canon]; cbn [er_region er_min0 er_max0 er_w0 er_dmin er_dmax er_dw fr_region fr_min0 fr_max0 fr_wpsi0 fr_dmin fr_dmax fr_dwpsi];
    intros Hri;
    repeat match goal with
           | |- context [?a =? ?b] => destruct (Z.eqb_spec a b)
           | |- context [?a >? ?b] => destruct (Z.gtb_spec a b)
           end; repeat match goal with |- _ /\ _ => split end; try lia; intros Hne; first [lia|contradiction].
Qed.

Lemma band_nonempty l1 l2 window0 ri : 1 <= l1 -> 1 <= l2 -> 0 <= window0 -> 0 <= ri < l1 ->
  blo l1 l2 window0 ri < bhi l1 l2 window0 ri /\ bhi l1 l2 window0 ri <= l2.
Proof.
  intros H1 H2 Hw Hri. unfold blo, bhi, band_lo, band_hi, cw_window.
  destruct (window_norm l1 l2 window0 Hw H1 H2) as [(W0 & Ww & _)|(W0 & Ww & _)]; rewrite Ww; lia.
Qed.

Lemma region_bounds l1 l2 window0 R : 1 <= l1 -> 1 <= l2 -> 0 <= window0 ->
  0 <= region_lo l1 l2 window0 R /\ region_hi l1 l2 window0 R <= l1.
Proof.
  intros H1 H2 Hw. unfold region_lo, region_hi, c_parts_ri1, c_parts_ri2, c_parts_ri3, c_parts_overlap_left.
  rewrite ?overlap_right_norm.
  destruct (window_norm l1 l2 window0 Hw H1 H2) as [(W0 & Ww & _)|(W0 & Ww & _)];
    pose proof (ldiffr_norm l1 l2); destruct R; lia.
Qed.

Lemma ecanon_ok l1 l2 window0 rb re cb ce : 1 <= l1 -> 1 <= l2 -> 0 <= window0 ->
  0 <= rb < re -> re <= l1 + 1 -> 0 <= cb < ce -> ce <= l2 + 1 ->
  forall R, expand_ok l1 l2 window0 rb re cb ce (ecanon R).
Proof.
  intros H1 H2 Hw Hrb Hre Hcb Hce R ri ci Hri Hci.
  assert (Hfr : first_row l1 l2 window0 rb (ecanon R) <= ri) by lia.
  destruct (expand_like_fill l1 l2 window0 rb ce R ri ci ltac:(lia) Hfr) as (Ehi & Eslot & Emin & Emin_eq).
  destruct (region_bounds l1 l2 window0 R H1 H2 Hw) as [Hlo Hhi].
  assert (Hreg : region_lo l1 l2 window0 (fr_region (canon R)) <= ri < region_hi l1 l2 window0 (fr_region (canon R))).
  { unfold first_row, last_row in Hri. replace (fr_region (canon R)) with R by (destruct R; reflexivity).
    replace (er_region (ecanon R)) with R in Hri by (destruct R; reflexivity). lia. }
  assert (Hri1 : 0 <= ri < l1).
  { replace (fr_region (canon R)) with R in Hreg by (destruct R; reflexivity). lia. }
  assert (Hrows : rb <= ri + 1 < re).
  { unfold first_row, last_row, rbs, res in Hri. lia. }
  destruct (canon_ok l1 l2 window0 H1 H2 Hw R ri Hreg Hri1) as (Rmin & Rhi & Rslot & Roff & Roff2 & Rcell & _).
  destruct (band_nonempty l1 l2 window0 ri H1 H2 Hw Hri1) as [Hne Hle].
  unfold shift, width in *.
  assert (Hcols : cb <= ci + 1 < ce /\ 0 <= ci).
  { unfold cbs, ces in Hci. lia. }
  assert (Hci_hi : ci < bhi l1 l2 window0 ri).
  { rewrite <- Rhi. destruct R; cbn match in Ehi; lia. }
  rewrite Eslot. rewrite Rslot.
  split; [reflexivity|]. rewrite <- (Rslot ci).
  split; [|repeat match goal with |- _ /\ _ => split end; lia].
  destruct (Z_lt_le_dec ci (row_min l1 l2 window0 (canon R) ri)) as [Hleft|Hin].
  - (* left of the band: only region D with an empty region C *)
    destruct R; try (specialize (Emin_eq I); lia).
    assert (E23 : c_parts_ri2 l1 (c_parts_overlap_left l1 (c_parts_ldiffr l1 l2 (c_parts_ldiff l1 l2)) (c_parts_window l1 l2 window0)) =
                  c_parts_ri3 l1 (c_parts_overlap_left l1 (c_parts_ldiffr l1 l2 (c_parts_ldiff l1 l2)) (c_parts_window l1 l2 window0))
                                 (c_parts_overlap_right l1 (c_parts_ldiffr l1 l2 (c_parts_ldiff l1 l2)) (c_parts_window l1 l2 window0))).
    { destruct (Z.eq_dec (c_parts_ri2 l1 (c_parts_overlap_left l1 (c_parts_ldiffr l1 l2 (c_parts_ldiff l1 l2)) (c_parts_window l1 l2 window0)))
                         (c_parts_ri3 l1 (c_parts_overlap_left l1 (c_parts_ldiffr l1 l2 (c_parts_ldiff l1 l2)) (c_parts_window l1 l2 window0))
                                 (c_parts_overlap_right l1 (c_parts_ldiffr l1 l2 (c_parts_ldiff l1 l2)) (c_parts_window l1 l2 window0)))) as [E|E];
        [exact E|specialize (Emin_eq E); lia]. }
    assert (Hs0 : cw_shift l1 l2 window0 ri = 0).
    { unfold cw_shift, cw_ri2, cw_ri3. rewrite shift_norm by lia. rewrite E23. lia. }
    destruct (Rcell (blo l1 l2 window0 ri) ltac:(lia)) as ((_ & Hw1) & _).
    rewrite (Rslot (blo l1 l2 window0 ri)) in Hw1. rewrite (Rslot ci). rewrite Hs0 in *. rewrite Rmin in Hleft. lia.
  - destruct (Rcell ci ltac:(rewrite <- Rmin; lia)) as (Hc & _). exact Hc.
Qed.

Theorem expand_regions_follow_the_layout : forall l1 l2 window0 rb re cb ce, 1 <= l1 -> 1 <= l2 -> 0 <= window0 ->
  0 <= rb < re -> re <= l1 + 1 -> 0 <= cb < ce -> ce <= l2 + 1 ->
  forall r, In r expand_regions -> expand_ok l1 l2 window0 rb re cb ce r.
Proof.
  intros l1 l2 window0 rb re cb ce H1 H2 Hw Hrb Hre Hcb Hce r Hin.
  apply expand_ok_geometry with (c := ecanon (er_region r)); [|apply ecanon_ok; assumption].
  unfold expand_regions in Hin.
  repeat (destruct Hin as [<-|Hin]; [reflexivity|]). destruct Hin.
Qed.

(* row-major index of the output block *)
Lemma block_index_in_range a A b B : 0 <= a < A -> 0 <= b < B -> 0 <= a * B + b < A * B.
Proof. intros. nia. Qed.

Theorem expand_write_index_in_block : forall l1 l2 window0 rb re cb ce, 1 <= l1 -> 1 <= l2 -> 0 <= window0 ->
  0 <= rb < re -> re <= l1 + 1 -> 0 <= cb < ce -> ce <= l2 + 1 ->
  forall r, In r expand_regions -> forall ri ci,
  first_row l1 l2 window0 rb r <= ri < last_row l1 l2 window0 re r ->
  Z.max (cbs cb) (e_min l1 l2 window0 rb ce r ri) <= ci < Z.min (ces ce) (e_hi l1 l2 window0 rb ce r ri) ->
  0 <= (ri + 1 - rb) * (ce - cb) + (ci + 1 - cb) < (re - rb) * (ce - cb).
Proof.
  intros l1 l2 window0 rb re cb ce H1 H2 Hw Hrb Hre Hcb Hce r Hin ri ci Hri Hci.
  destruct (expand_regions_follow_the_layout l1 l2 window0 rb re cb ce H1 H2 Hw Hrb Hre Hcb Hce r Hin ri ci Hri Hci)
    as (_ & _ & Hr & Hc & _).
  apply block_index_in_range; lia.
Qed.

Theorem eight_expand_regions : length expand_regions = 8%nat.
Proof. vm_compute. reflexivity. Qed.
