(* SubsequenceSearch.align: k-nearest-neighbour search over candidates with
   lower-bound pruning and early abandoning.  The heap (with its -inf sentinel)
   is modelled by the sorted list of the values it holds; lb / dist are abstract
   per-candidate values with lb <= dist (C09) and "dist beyond the running bound
   comes back as infinity" (C03).  Theorem: the result is exactly the k smallest
   eligible distances, whatever the lower bounds are. *)
From Coq Require Import ZArith Bool List Lia Sorted.
From DV Require Import Prelude Cost.
Import ListNotations.
Open Scope Z_scope.

Fixpoint ins (x : Z) (l : list Z) : list Z :=
  match l with
  | [] => [x]
  | y :: t => if x <=? y then x :: y :: t else y :: ins x t
  end.
Definition isort (xs : list Z) : list Z := fold_left (fun acc x => ins x acc) xs [].

Definition last_or (l : list Z) (d : cost) : cost := match rev l with [] => d | x :: _ => Fin x end.

(* one candidate: (lower bound, true distance) *)
Record st := { heap : list Z; bound : cost }.

Definition step (k : nat) (use_lb : bool) (maxd0 : cost) (s : st) (c : Z * Z) : st :=
  let '(lb, d) := c in
  if use_lb && negb (cleb (Fin lb) (bound s)) then s          (* lb > max_dist: continue *)
  else if negb (cleb (Fin d) (bound s)) then s                 (* distance(..., max_dist) = inf: not pushed *)
  else
    let h := firstn k (ins d (heap s)) in
    {| heap := h; bound := if (length h =? k)%nat then last_or h maxd0 else bound s |}.

Definition search (k : nat) (use_lb : bool) (maxd0 : cost) (cands : list (Z * Z)) : list Z :=
  heap (fold_left (step k use_lb maxd0) cands {| heap := []; bound := maxd0 |}).

(* specification: the k smallest among the distances that do not exceed maxd0 *)
Definition eligible (maxd0 : cost) (cands : list (Z * Z)) : list Z :=
  map snd (filter (fun c => cleb (Fin (snd c)) maxd0) cands).
Definition spec (k : nat) (maxd0 : cost) (cands : list (Z * Z)) : list Z := firstn k (isort (eligible maxd0 cands)).

(* ------------------------------------------------------------ insertion-sort facts *)
Lemma ins_sorted x l : Sorted Z.le l -> Sorted Z.le (ins x l).
Proof.
  induction l as [|y t IH]; intros H; simpl; [repeat constructor|].
  destruct (Z.leb_spec x y).
  - constructor; [exact H|constructor; exact H0].
  - inversion H as [|? ? Ht Hy]; subst. constructor; [apply IH; exact Ht|].
    destruct t as [|z t]; simpl; [constructor; lia|].
    destruct (Z.leb_spec x z); constructor; try lia. inversion Hy; assumption.
Qed.

Lemma firstn_ins_firstn k : forall x l, firstn k (ins x (firstn k l)) = firstn k (ins x l).
Proof.
  induction k as [|k IH]; intros x l; [reflexivity|].
  destruct l as [|y t]; [reflexivity|].
  rewrite (firstn_cons k y t). cbn [ins]. destruct (x <=? y) eqn:E.
  - rewrite !firstn_cons. f_equal. destruct k as [|k']; [reflexivity|].
    rewrite !firstn_cons. f_equal. rewrite firstn_firstn. f_equal. lia.
  - rewrite !firstn_cons. f_equal. apply IH.
Qed.

Lemma ins_beyond x l : (forall y, In y l -> y < x) -> ins x l = l ++ [x].
Proof.
  induction l as [|y t IH]; intros H; simpl; [reflexivity|].
  destruct (Z.leb_spec x y); [specialize (H y (or_introl eq_refl)); lia|].
  f_equal. apply IH. intros z Hz. apply H. right. exact Hz.
Qed.

Lemma sorted_all_le_last l x : forall y, In y (l ++ [x]) -> Sorted Z.le (l ++ [x]) -> y <= x.
Proof.
  induction l as [|a t IH]; intros y Hin Hs; simpl in *.
  - destruct Hin as [->|[]]. lia.
  - pose proof Hs as Hs'. apply Sorted_StronglySorted in Hs'; [|intros p q r; lia].
    inversion Hs' as [|? ? Hss Hall]; subst. destruct Hin as [->|Hin].
    + rewrite Forall_forall in Hall. apply Hall. apply in_or_app. right. left. reflexivity.
    + apply IH; [exact Hin|apply StronglySorted_Sorted; exact Hss].
Qed.

(* a value above the k-th smallest does not change the k smallest *)
Lemma firstn_idem k (l : list Z) : firstn k (firstn k l) = firstn k l.
Proof. rewrite firstn_firstn. f_equal. lia. Qed.

Lemma firstn_ins_above k x l : (length (firstn k l) = k)%nat ->
  (forall y, In y (firstn k l) -> y < x) -> firstn k (ins x l) = firstn k l.
Proof.
  intros Hlen Hlt. rewrite <- firstn_ins_firstn. rewrite ins_beyond by exact Hlt.
  rewrite firstn_app. rewrite firstn_length in *. 
  replace (k - Nat.min k (length l))%nat with 0%nat by lia. simpl. rewrite app_nil_r. apply firstn_idem.
Qed.

Lemma isort_snoc xs x : isort (xs ++ [x]) = ins x (isort xs).
Proof. unfold isort. rewrite fold_left_app. reflexivity. Qed.

Lemma isort_sorted xs : Sorted Z.le (isort xs).
Proof.
  induction xs as [|x xs IH] using rev_ind; [constructor|]. rewrite isort_snoc. apply ins_sorted. exact IH.
Qed.

Lemma sorted_firstn k l : Sorted Z.le l -> Sorted Z.le (firstn k l).
Proof.
  revert l; induction k as [|k IH]; intros l H; [constructor|]. destruct l as [|y t]; [constructor|].
  inversion H as [|? ? Ht Hy]; subst. cbn [firstn]. constructor; [apply IH; exact Ht|].
  destruct t as [|z t]; destruct k; simpl; constructor. inversion Hy; assumption.
Qed.

Lemma last_or_max l d x : Sorted Z.le l -> l <> [] -> In x l -> exists m, last_or l d = Fin m /\ x <= m.
Proof.
  intros Hs Hne Hin. unfold last_or.
  destruct (rev l) as [|m r] eqn:E.
  - apply (f_equal (@rev Z)) in E. rewrite rev_involutive in E. simpl in E. contradiction.
  - exists m. split; [reflexivity|].
    assert (El : l = rev r ++ [m]) by (rewrite <- (rev_involutive l), E; reflexivity).
    rewrite El in Hin, Hs. eapply sorted_all_le_last; [exact Hin|exact Hs].
Qed.

(* ------------------------------------------------------------ the invariant *)
Definition inv (k : nat) (maxd0 : cost) (done : list (Z * Z)) (s : st) : Prop :=
  heap s = spec k maxd0 done /\
  bound s = (if (length (heap s) =? k)%nat then last_or (heap s) maxd0 else maxd0).

Lemma eligible_snoc maxd0 done c :
  eligible maxd0 (done ++ [c]) = if cleb (Fin (snd c)) maxd0 then eligible maxd0 done ++ [snd c] else eligible maxd0 done.
Proof.
  unfold eligible. rewrite filter_app, map_app. cbn [filter]. destruct (cleb (Fin (snd c)) maxd0); cbn [map]; [reflexivity|apply app_nil_r].
Qed.

Lemma step_inv k use_lb maxd0 done s lb d : (0 < k)%nat -> lb <= d -> inv k maxd0 done s ->
  inv k maxd0 (done ++ [(lb, d)]) (step k use_lb maxd0 s (lb, d)).
Proof.
  intros Hk Hlb [Hh Hb].
  assert (Hskip : cleb (Fin d) (bound s) = false -> inv k maxd0 (done ++ [(lb, d)]) s).
  { intros Hd. split; [|exact Hb]. rewrite Hh. unfold spec. rewrite eligible_snoc. cbn [snd].
    destruct (cleb (Fin d) maxd0) eqn:E0; [|reflexivity].
    rewrite isort_snoc. symmetry.
    (* the bound was tightened, so the heap is full and d is above its maximum *)
    rewrite Hb in Hd. rewrite Hh in Hd.
    destruct (length (spec k maxd0 done) =? k)%nat eqn:El; [|congruence].
    apply Nat.eqb_eq in El. unfold spec in *.
    apply firstn_ins_above; [exact El|].
    intros y Hy.
    destruct (last_or_max (firstn k (isort (eligible maxd0 done))) maxd0 y) as [m [Em Hm]];
      [apply sorted_firstn; apply isort_sorted|intros E; rewrite E in Hy; destruct Hy|exact Hy|].
    rewrite Em in Hd. simpl in Hd. apply Z.leb_gt in Hd. lia. }
  unfold step.
  destruct (use_lb && negb (cleb (Fin lb) (bound s))) eqn:E1.
  - apply Hskip. apply andb_true_iff in E1. destruct E1 as [_ E1]. apply negb_true_iff in E1.
    destruct (bound s) as [b|]; simpl in *; [|discriminate]. apply Z.leb_gt in E1. apply Z.leb_gt. lia.
  - destruct (negb (cleb (Fin d) (bound s))) eqn:E2; [apply Hskip; apply negb_true_iff; exact E2|].
    apply negb_false_iff in E2.
    assert (E0 : cleb (Fin d) maxd0 = true).
    { rewrite Hb in E2. destruct (length (heap s) =? k)%nat eqn:El; [|exact E2].
      apply Nat.eqb_eq in El. rewrite Hh in E2, El. unfold spec in *.
      destruct maxd0 as [m0|]; [|reflexivity].
      (* heap elements are eligible, hence <= m0; d <= max heap *)
      unfold last_or in E2. destruct (rev (firstn k (isort (eligible (Fin m0) done)))) as [|m r] eqn:Er; [exact E2|].
      assert (Hin : In m (isort (eligible (Fin m0) done))).
      { assert (In m (rev (firstn k (isort (eligible (Fin m0) done))))) by (rewrite Er; left; reflexivity).
        apply in_rev in H. revert H. generalize (isort (eligible (Fin m0) done)). clear. intros l.
        revert l. induction k as [|k IH]; intros l H; [destruct H|]. destruct l; [destruct H|].
        destruct H as [->|H]; [left; reflexivity|right; apply IH; exact H]. }
      assert (Hel : forall l z, In z (isort l) -> In z l).
      { clear. intros l. induction l as [|x l IH] using rev_ind; intros z H; [destruct H|].
        rewrite isort_snoc in H. apply in_or_app.
        assert (G : forall a t, In z (ins a t) -> z = a \/ In z t).
        { clear. intros a t. induction t as [|y t IHt]; simpl; intros H; [destruct H as [H|[]]; auto|].
          destruct (a <=? y); simpl in H; [destruct H as [H|H]; auto|].
          destruct H as [H|H]; [right; left; exact H|]. destruct (IHt H); auto. }
        destruct (G _ _ H); [right; left; auto|left; apply IH; exact H0]. }
      apply Hel in Hin. unfold eligible in Hin. apply in_map_iff in Hin. destruct Hin as [c [Ec Hc]].
      apply filter_In in Hc. destruct Hc as [_ Hc]. rewrite Ec in Hc. simpl in Hc, E2 |- *.
      apply Z.leb_le in Hc. apply Z.leb_le in E2. apply Z.leb_le. lia. }
    split.
    + cbn [heap]. rewrite Hh. unfold spec. rewrite eligible_snoc. cbn [snd]. rewrite E0.
      rewrite isort_snoc. apply firstn_ins_firstn.
    + cbn [heap bound].
      destruct (length (firstn k (ins d (heap s))) =? k)%nat eqn:El; [reflexivity|].
      rewrite Hb. destruct (length (heap s) =? k)%nat eqn:El2; [|reflexivity].
      (* impossible: inserting into a full heap keeps it full *)
      exfalso. apply Nat.eqb_eq in El2. apply Nat.eqb_neq in El. apply El.
      rewrite firstn_length. assert (length (ins d (heap s)) = S (length (heap s))).
      { clear. induction (heap s) as [|y t IH]; simpl; [reflexivity|]. destruct (d <=? y); simpl; [reflexivity|]. rewrite IH. reflexivity. }
      lia.
Qed.

Theorem search_exact k use_lb maxd0 cands : (0 < k)%nat -> (forall c, In c cands -> fst c <= snd c) ->
  search k use_lb maxd0 cands = spec k maxd0 cands.
Proof.
  intros Hk Hlb. unfold search.
  assert (G : forall done rest s, (forall c, In c rest -> fst c <= snd c) -> inv k maxd0 done s ->
              inv k maxd0 (done ++ rest) (fold_left (step k use_lb maxd0) rest s)).
  { intros done rest. revert done. induction rest as [|c rest IH]; intros done s Hl Hi; [rewrite app_nil_r; exact Hi|].
    simpl. replace (done ++ c :: rest) with ((done ++ [c]) ++ rest) by (rewrite <- app_assoc; reflexivity).
    apply IH; [intros; apply Hl; right; assumption|]. destruct c as [lb d].
    apply step_inv; [exact Hk|apply (Hl (lb, d)); left; reflexivity|exact Hi]. }
  destruct (G [] cands {| heap := []; bound := maxd0 |} Hlb) as [H _]; [|exact H].
  split; [cbn [heap]; unfold spec, eligible, isort; simpl; rewrite firstn_nil; reflexivity|].
  cbn [heap bound]. destruct k; [lia|reflexivity].
Qed.

(* lower bounds never change the answer *)
Corollary search_lb_irrelevant k maxd0 cands : (0 < k)%nat -> (forall c, In c cands -> fst c <= snd c) ->
  search k true maxd0 cands = search k false maxd0 cands.
Proof. intros. rewrite !search_exact by assumption. reflexivity. Qed.

(* the object's cache: asking for a smaller k after a larger one *)
Lemma cached_prefix k K maxd0 cands : (k <= K)%nat -> firstn k (spec K maxd0 cands) = spec k maxd0 cands.
Proof. intros H. unfold spec. rewrite firstn_firstn. f_equal. lia. Qed.
