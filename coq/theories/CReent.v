(* The C kernels leave the settings struct they are given untouched.

   All pairs of a distance matrix -- inside the OpenMP loops and in the serial loops -- call the
   kernels with ONE DTWSettings struct.  tools/translate_c.py regenerates, on every run, the list
   of functions that store through a `DTWSettings *` parameter and the list of functions that call
   one of those (Gen_creent.v).  Proved by computation over the regenerated table: the only writer
   is the setter dtw_settings_set_psi, nothing in the C sources calls it, and no function that
   contains an `omp parallel for` is a writer.  Together with the private-clause table (C07) this
   is the data-race-freedom side condition of schedule independence for the settings. *)
From Coq Require Import String List Bool.
From DVGen Require Import Gen_omp Gen_creent.
Import ListNotations.
Open Scope string_scope.

Definition str_in (x : string) (l : list string) : bool := existsb (String.eqb x) l.

Lemma str_in_spec x l : str_in x l = true <-> In x l.
Proof.
  unfold str_in. rewrite existsb_exists. split.
  - intros [y [Hy E]]. apply String.eqb_eq in E. subst. exact Hy.
  - intros H. exists x. split; [exact H|apply String.eqb_refl].
Qed.

Theorem only_the_setter_writes_settings : forall f, In f settings_writers -> f = "dtw_settings_set_psi".
Proof.
  assert (H : forallb (String.eqb "dtw_settings_set_psi") settings_writers = true) by (vm_compute; reflexivity).
  intros f Hf. rewrite forallb_forall in H. specialize (H f Hf). apply String.eqb_eq in H. symmetry. exact H.
Qed.

Theorem nothing_calls_the_setter : settings_writer_callers = [].
Proof. vm_compute. reflexivity. Qed.

Theorem parallel_routines_do_not_write_settings : forall l, In l omp_loops -> ~ In (ol_function l) settings_writers.
Proof.
  assert (H : forallb (fun l => negb (str_in (ol_function l) settings_writers)) omp_loops = true) by (vm_compute; reflexivity).
  intros l Hl Hin. rewrite forallb_forall in H. specialize (H l Hl). apply negb_true_iff in H.
  apply str_in_spec in Hin. congruence.
Qed.

(* the analysis saw the kernels (fail-closed in the translator as well) *)
Theorem settings_analysis_not_vacuous : 40 <= settings_functions_seen.
Proof. vm_compute. repeat constructor. Qed.
