(* Multivariate series: points are vectors; the C engine addresses them with a
   stride (s[i*ndim + k]).  The DTW model is parametric in the point type, so all
   of DtwSpec/DtwProps applies verbatim; here: the stride lemma and d = 1. *)
From Coq Require Import ZArith List Lia.
From DV Require Import Prelude Cost Dtw DtwSpec Bounds.
Import ListNotations.
Open Scope Z_scope.

Lemma flatten_stride (s : list point) (d i k : nat) :
  (forall p, In p s -> length p = d) -> (i < length s)%nat -> (k < d)%nat ->
  nth (i * d + k) (concat s) 0 = nth k (nth i s []) 0.
Proof.
  revert i. induction s as [|p s IH]; intros i Hall Hi Hk; simpl in Hi; [lia|].
  assert (Hp : length p = d) by (apply Hall; left; reflexivity).
  destruct i as [|i]; simpl.
  - rewrite app_nth1 by lia. reflexivity.
  - rewrite app_nth2 by lia. replace (d + i * d + k - length p)%nat with (i * d + k)%nat by lia.
    apply IH; [intros q Hq; apply Hall; right; exact Hq|lia|exact Hk].
Qed.

(* for d = 1 the vector point distance is the scalar one *)
Lemma ndim1_pdist k a b : pdist k [a] [b] = pd1 k a b.
Proof. apply pdist_scalar. Qed.

Lemma pdist_sq_sum x y : pdist SqEuclid x y = pdist_sq x y.
Proof. reflexivity. Qed.
