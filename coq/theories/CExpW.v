(* dtw_expand_wps_slice regenerated WHOLE (Gen_cexpw.v): on a compact array whose rows hold the matrix M through
   the layout (the postcondition of the kernels, CWpsSpec.v) it writes, for every slice 0 <= rb < re <= l1+1,
   0 <= cb < ce <= l2+1, a (re-rb) x (ce-cb) block whose cell (i-rb, j-cb) is M i j - except the border cells the
   compact array does not keep (column 0 below the left overlap, row 0 beyond the width: finding F23) - with every
   access in range.  The geometry of the four row regions is CExpand.ecanon_ok (proved over the regenerated tables);
   this file adds what the loops DO with it. *)
From Coq Require Import ZArith Bool Lia List.
From DV Require Import Prelude Cost Grid Dtw DtwProps CWps CFill CExpand CFillSim CLang CDistCanon CDistProofs CWpsKernel CWpsValue CWpsSpec.
From DVGen Require Import Gen_cwps Gen_cfill Gen_cexpand Gen_cexpw.
Import ListNotations.
Open Scope Z_scope.
Open Scope bool_scope.

(* ------------------------------------------------------------------ canonical loop bodies *)
Definition k_ecell (cb full_len fwidth p_width rb ri : Z) (wps : list cost) (wps_len : Z) (st : list cost * bool * Z) (ci : Z)
  : list cost * bool * Z :=
  let '(full, ok, wpsi) := st in
  (aset full ((((((ri + 1) - rb) * fwidth) + ci) + 1) - cb) (aget wps (((ri + 1) * p_width) + wpsi)),
   ok && inb wps_len (((ri + 1) * p_width) + wpsi) && inb full_len ((((((ri + 1) - rb) * fwidth) + ci) + 1) - cb),
   wpsi + 1).

Lemma tie_ecell4 a b c d e f g h st x : c_dtw_expand_wps_slice_loop4 a b c d e f g h st x = k_ecell a b c d e f g h st x.
Proof. destruct st as [[? ?] ?]. reflexivity. Qed.
Lemma tie_ecell6 a b c d e f g h st x : c_dtw_expand_wps_slice_loop6 a b c d e f g h st x = k_ecell a b c d e f g h st x.
Proof. destruct st as [[? ?] ?]. reflexivity. Qed.
Lemma tie_ecell8 a b c d e f g h st x : c_dtw_expand_wps_slice_loop8 a b c d e f g h st x = k_ecell a b c d e f g h st x.
Proof. destruct st as [[? ?] ?]. reflexivity. Qed.
Lemma tie_ecell10 a b c d e f g h st x : c_dtw_expand_wps_slice_loop10 a b c d e f g h st x = k_ecell a b c d e f g h st x.
Proof. destruct st as [[? ?] ?]. reflexivity. Qed.

(* one row: optional copy of column 0, optional copy of slot 0 to column min_ci (region C), the cell loop *)
Definition k_erow (col0 cextra : bool) (cb cbs ce ces full_len fwidth p_width rb : Z) (wps : list cost) (wps_len : Z)
  (min_ci max_ci w0 : Z) (st : list cost * bool) (ri : Z) : list cost * bool :=
  let '(full, ok) := st in
  let '(full, ok) := (if col0 && (cb =? 0) then
     (aset full (fwidth * ((ri + 1) - rb)) (aget wps (p_width * (ri + 1))),
      ok && inb wps_len (p_width * (ri + 1)) && inb full_len (fwidth * ((ri + 1) - rb))) else (full, ok)) in
  let '(full, ok) := (if cextra && ((cb <=? min_ci) && (min_ci <? ce)) then
     (aset full (((((ri + 1) - rb) * fwidth) + min_ci) - cb) (aget wps (((ri + 1) * p_width) + 0)),
      ok && inb wps_len (((ri + 1) * p_width) + 0) && inb full_len (((((ri + 1) - rb) * fwidth) + min_ci) - cb)) else (full, ok)) in
  let wpsi := (if cbs <=? min_ci then w0 else w0 + (cbs - min_ci)) in
  let '(full, ok, _) := fold_left (k_ecell cb full_len fwidth p_width rb ri wps wps_len) (zrange (Z.max cbs min_ci) (Z.min ces max_ci)) (full, ok, wpsi) in
  (full, ok).

Lemma tie_erowA ce cb cbs ces flen fw min_ci W rb wps wl st ri :
  c_dtw_expand_wps_slice_loop3 cb cbs ces flen fw min_ci W rb wps wl st ri =
  (let '(full, max_ci, ok) := st in
   let '(f, o) := k_erow true false cb cbs ce ces flen fw W rb wps wl min_ci max_ci 1 (full, ok) ri in (f, max_ci + 1, o)).
Proof.
  destruct st as [[full max_ci] ok]. unfold c_dtw_expand_wps_slice_loop3, k_erow. cbn [andb].
  change c_dtw_expand_wps_slice_loop4 with k_ecell.
  destruct (cb =? 0); cbv zeta;
    match goal with |- context [@fold_left ?A ?B ?f ?l ?a] => destruct (@fold_left A B f l a) as [[? ?] ?] end; reflexivity.
Qed.

Lemma tie_erowB ce cb cbs ces flen fw max_ci min_ci W rb wps wl st ri :
  c_dtw_expand_wps_slice_loop5 cb cbs ces flen fw max_ci min_ci W rb wps wl st ri =
  k_erow true false cb cbs ce ces flen fw W rb wps wl min_ci max_ci 1 st ri.
Proof.
  destruct st as [full ok]. unfold c_dtw_expand_wps_slice_loop5, k_erow. cbn [andb].
  change c_dtw_expand_wps_slice_loop6 with k_ecell.
  destruct (cb =? 0); cbv zeta;
    match goal with |- context [@fold_left ?A ?B ?f ?l ?a] => destruct (@fold_left A B f l a) as [[? ?] ?] end; reflexivity.
Qed.

Lemma tie_erowC cb cbs ce ces flen fw W rb wps wl st ri :
  c_dtw_expand_wps_slice_loop7 cb cbs ce ces flen fw W rb wps wl st ri =
  (let '(full, max_ci, min_ci, ok) := st in
   let '(f, o) := k_erow false true cb cbs ce ces flen fw W rb wps wl min_ci max_ci 1 (full, ok) ri in (f, max_ci + 1, min_ci + 1, o)).
Proof.
  destruct st as [[[full max_ci] min_ci] ok]. unfold c_dtw_expand_wps_slice_loop7, k_erow. cbn [andb].
  change c_dtw_expand_wps_slice_loop8 with k_ecell.
  destruct ((cb <=? min_ci) && (min_ci <? ce)); cbv zeta;
    match goal with |- context [@fold_left ?A ?B ?f ?l ?a] => destruct (@fold_left A B f l a) as [[? ?] ?] end; reflexivity.
Qed.

Lemma tie_erowD ce cb cbs ces flen fw l2 W rb wps wl st ri :
  c_dtw_expand_wps_slice_loop9 cb cbs ces flen fw l2 W rb wps wl st ri =
  (let '(full, min_ci, ok, wpsi_start) := st in
   let '(f, o) := k_erow false false cb cbs ce ces flen fw W rb wps wl min_ci l2 wpsi_start (full, ok) ri in (f, min_ci + 1, o, wpsi_start + 1)).
Proof.
  destruct st as [[[full min_ci] ok] wpsi_start]. unfold c_dtw_expand_wps_slice_loop9, k_erow. cbn [andb].
  change c_dtw_expand_wps_slice_loop10 with k_ecell. cbv zeta.
  match goal with |- context [@fold_left ?A ?B ?f ?l ?a] => destruct (@fold_left A B f l a) as [[? ?] ?] end; reflexivity.
Qed.

(* ------------------------------------------------------------------ the cell loop copies a run of slots *)
Lemma inb_true n i : 0 <= i < n -> inb n i = true.
Proof. intros H. unfold inb. apply andb_true_iff. split; [apply Z.leb_le|apply Z.ltb_lt]; lia. Qed.

Lemma ecells_spec cb flen fw W rb ri wps wl full a n w0 :
  Z.of_nat (length full) = flen ->
  (forall k, (k < n)%nat -> 0 <= (ri + 1) * W + (w0 + Z.of_nat k) < wl) ->
  (forall k, (k < n)%nat -> 0 <= (ri + 1 - rb) * fw + (a + Z.of_nat k) + 1 - cb < flen) ->
  exists full', fold_left (k_ecell cb flen fw W rb ri wps wl) (zrange a (a + Z.of_nat n)) (full, true, w0) = (full', true, w0 + Z.of_nat n) /\
    length full' = length full /\
    (forall k, (k < n)%nat -> aget full' ((ri + 1 - rb) * fw + (a + Z.of_nat k) + 1 - cb) = aget wps ((ri + 1) * W + (w0 + Z.of_nat k))) /\
    (forall idx, (forall k, (k < n)%nat -> idx <> (ri + 1 - rb) * fw + (a + Z.of_nat k) + 1 - cb) -> aget full' idx = aget full idx).
Proof.
  intros Hl Hrd Hwr.
  pose (P := fun (k : nat) (st : list cost * bool * Z) =>
     snd (fst st) = true /\ snd st = w0 + Z.of_nat k /\ length (fst (fst st)) = length full /\
     (forall k', (k' < k)%nat -> aget (fst (fst st)) ((ri + 1 - rb) * fw + (a + Z.of_nat k') + 1 - cb) = aget wps ((ri + 1) * W + (w0 + Z.of_nat k'))) /\
     (forall idx, (forall k', (k' < k)%nat -> idx <> (ri + 1 - rb) * fw + (a + Z.of_nat k') + 1 - cb) -> aget (fst (fst st)) idx = aget full idx)).
  assert (HP : P n (fold_left (k_ecell cb flen fw W rb ri wps wl) (zrange a (a + Z.of_nat n)) (full, true, w0))).
  { apply fold_zrange_from.
    - unfold P. cbn [fst snd]. split; [reflexivity|]. split; [lia|]. split; [reflexivity|]. split; [intros; lia|intros; reflexivity].
    - intros k [[f ok] w] Hk (Hok & Hw' & Hlen & Hin & Hout). cbn [fst snd] in *. subst ok w.
      unfold k_ecell, P. cbn [fst snd].
      assert (E1 : (ri + 1) * W + (w0 + Z.of_nat k) = (ri + 1) * W + (w0 + Z.of_nat k)) by reflexivity.
      assert (E2 : ri + 1 - rb = ri + 1 - rb) by reflexivity.
      replace (((ri + 1 - rb) * fw + (a + Z.of_nat k) + 1) - cb) with ((ri + 1 - rb) * fw + (a + Z.of_nat k) + 1 - cb) by lia.
      rewrite (inb_true wl _ (Hrd k Hk)), (inb_true flen _ (Hwr k Hk)). cbn [andb].
      split; [reflexivity|]. split; [lia|]. split; [rewrite aset_length; exact Hlen|]. split.
      + intros k' Hk'. destruct (Nat.eq_dec k' k) as [->|Hne].
        * rewrite aget_aset_same; [reflexivity|]. rewrite Hlen, Hl. apply Hwr. exact Hk.
        * rewrite aget_aset_other by lia. apply Hin. lia.
      + intros idx Hidx. rewrite aget_aset_other by (apply not_eq_sym, Hidx; lia). apply Hout. intros k' Hk'. apply Hidx. lia. }
  destruct (fold_left (k_ecell cb flen fw W rb ri wps wl) (zrange a (a + Z.of_nat n)) (full, true, w0)) as [[f ok] w].
  destruct HP as (Hok & Hw' & Hlen & Hin & Hout). cbn [fst snd] in *. subst ok w.
  exists f. split; [reflexivity|]. split; [exact Hlen|]. split; assumption.
Qed.

(* ------------------------------------------------------------------ one row of the block *)
Section ExpandM.
Variables l1 l2 window0 : Z.
Hypothesis H1 : 1 <= l1.
Hypothesis H2 : 1 <= l2.
Hypothesis Hw : 0 <= window0.
Variable d : nat -> nat -> cost.
Variable pen : Z.
Variables p1b p2b : nat.
Hypothesis Hd : forall ri ci : nat, Z.of_nat ri < l1 ->
  ~ (blo l1 l2 window0 (Z.of_nat ri) <= Z.of_nat ci < bhi l1 l2 window0 (Z.of_nat ri)) -> d ri ci = Inf.
Variables rb re cb ce : Z.
Hypothesis Hrb : 0 <= rb < re.
Hypothesis Hre : re <= l1 + 1.
Hypothesis Hcb : 0 <= cb < ce.
Hypothesis Hce : ce <= l2 + 1.
Local Notation W := (cw_width l1 l2 window0).
Local Notation shiftz := (cw_shift l1 l2 window0).
Local Notation ri2z := (cw_ri2 l1 l2 window0).
Local Notation lo := (blo l1 l2 window0).
Local Notation hi := (bhi l1 l2 window0).
Local Notation wl := ((l1 + 1) * W).
Local Notation M := (Mf d pen p1b p2b).
Local Notation Mh := (holds l1 l2 window0 d pen p1b p2b).
Local Notation fw := (ce - cb).
Local Notation flen := ((re - rb) * (ce - cb)).
Local Notation cbsz := (cbs cb).
Local Notation cesz := (ces ce).
Local Notation emin R ri := (e_min l1 l2 window0 rb ce (ecanon R) ri).
Local Notation ehi R ri := (e_hi l1 l2 window0 rb ce (ecanon R) ri).
Local Notation ew R ri := (e_w l1 l2 window0 rb ce (ecanon R) ri).
Local Notation frow R := (first_row l1 l2 window0 rb (ecanon R)).
Local Notation lrow R := (last_row l1 l2 window0 re (ecanon R)).
Variable wps : list cost.
Hypothesis Hlen : Z.of_nat (length wps) = wl.
Hypothesis Hrows : forall k, (k <= Z.to_nat l1)%nat -> Mh k (rowf l1 l2 window0 wps k).

Definition P (i j : Z) : Z := (i - rb) * fw + (j - cb).

(* rows below k of the block hold M (where the compact array keeps the cell), the rows from k on are still infinite *)
Definition EInv (k : Z) (full : list cost) : Prop :=
  Z.of_nat (length full) = flen /\
  forall i j, rb <= i < re -> cb <= j < ce ->
    (i < k -> (j = 0 -> i <= ri2z) -> (i = 0 -> j <= W - 1) -> aget full (P i j) = M (Z.to_nat i) (Z.to_nat j)) /\
    (k <= i -> aget full (P i j) = Inf).

Lemma P_range i j : rb <= i < re -> cb <= j < ce -> 0 <= P i j < flen.
Proof. intros. unfold P. nia. Qed.

Lemma P_inj i j i' j' : rb <= i < re -> cb <= j < ce -> rb <= i' < re -> cb <= j' < ce -> P i j = P i' j' -> i = i' /\ j = j'.
Proof. intros Hi Hj Hi' Hj' E. unfold P in E. assert (i = i') by nia. subst. split; [reflexivity|nia]. Qed.

Lemma wps_read (i : nat) (s : Z) : Z.of_nat i <= l1 -> 0 <= s < W -> s + shiftz (Z.of_nat i - 1) <= l2 ->
  (s + shiftz (Z.of_nat i - 1) = 0 -> Z.of_nat i <= ri2z) ->
  aget wps (Z.of_nat i * W + s) = M i (Z.to_nat (s + shiftz (Z.of_nat i - 1))).
Proof. intros Hi Hs Hc Hb. exact (Hrows i ltac:(lia) s Hs Hc Hb). Qed.

Lemma erow_step R ri full : frow R <= ri < lrow R -> EInv (ri + 1) full ->
  exists full',
    k_erow (er_col0 (ecanon R)) (er_cslot0 (ecanon R)) cb cbsz ce cesz flen fw W rb wps wl (emin R ri) (ehi R ri) (ew R ri) (full, true) ri
    = (full', true) /\ EInv (ri + 2) full'.
Proof.
  intros Hri (HL & HI).
  pose proof (W_pos l1 l2 window0 H1 H2 Hw) as HW.
  destruct (region_bounds l1 l2 window0 R H1 H2 Hw) as [Hlo Hhi].
  assert (HregR : region_lo l1 l2 window0 R <= ri < region_hi l1 l2 window0 R).
  { unfold first_row, last_row in Hri. replace (er_region (ecanon R)) with R in Hri by (destruct R; reflexivity). lia. }
  assert (Hri1 : 0 <= ri < l1) by lia.
  assert (Hrows' : rb <= ri + 1 < re) by (unfold first_row, last_row, rbs, res in Hri; lia).
  assert (Hreg : region_lo l1 l2 window0 (fr_region (canon R)) <= ri < region_hi l1 l2 window0 (fr_region (canon R)))
    by (replace (fr_region (canon R)) with R by (destruct R; reflexivity); exact HregR).
  destruct (canon_ok l1 l2 window0 H1 H2 Hw R ri Hreg Hri1) as (Rmin & Rhi & Rslot & _).
  assert (Hfr : frow R <= ri) by lia.
  destruct (expand_like_fill l1 l2 window0 rb ce R ri 0 ltac:(lia) Hfr) as (Ehi & _ & Emin & _).
  assert (Hslot : forall ci, Z.max cbsz (emin R ri) <= ci < Z.min cesz (ehi R ri) ->
            ew R ri + (ci - emin R ri) = ci + 1 - shiftz ri /\ 0 < ci + 1 - shiftz ri < W /\ cb <= ci + 1 < ce /\ 0 <= ci < l2).
  { intros ci Hci. destruct (ecanon_ok l1 l2 window0 rb re cb ce H1 H2 Hw Hrb Hre Hcb Hce R ri ci Hri Hci) as (Es & Hs & _ & Hc & _ & Hc2).
    unfold e_slot in Es, Hs. rewrite Es in Hs. repeat split; try lia. }
  assert (Hband : forall ci, cbsz <= ci < cesz -> lo ri <= ci < hi ri -> Z.max cbsz (emin R ri) <= ci < Z.min cesz (ehi R ri)).
  { intros ci Hc Hb. rewrite Ehi. rewrite <- Rmin, <- Rhi in Hb. destruct R; cbn match; lia. }
  unfold k_erow.
  set (i1 := ri + 1) in *.
  set (n1 := Z.to_nat i1).
  assert (Ei1 : Z.of_nat n1 = i1) by (unfold n1, i1; lia).
  (* column 0 *)
  set (st1 := if er_col0 (ecanon R) && (cb =? 0)
              then (aset full (fw * (i1 - rb)) (aget wps (W * i1)), true && inb wl (W * i1) && inb flen (fw * (i1 - rb)))
              else (full, true)).
  assert (H1st : exists f1, st1 = (f1, true) /\ Z.of_nat (length f1) = flen /\
             (forall idx, idx <> P i1 0 -> aget f1 idx = aget full idx) /\
             (er_col0 (ecanon R) = true -> cb = 0 -> aget f1 (P i1 0) = aget wps (W * i1)) /\
             (~ (er_col0 (ecanon R) = true /\ cb = 0) -> f1 = full)).
  { unfold st1. destruct (er_col0 (ecanon R)) eqn:Ec0; cbn [andb]; [destruct (Z.eqb_spec cb 0) as [Ecb|Ecb]|].
    - assert (Ep : fw * (i1 - rb) = P i1 0) by (unfold P; lia). rewrite Ep.
      rewrite (inb_true wl (W * i1)) by (unfold i1; nia). rewrite (inb_true flen (P i1 0)) by (apply P_range; lia). cbn [andb].
      eexists. split; [reflexivity|]. split; [rewrite aset_length; exact HL|]. split; [intros idx Hne; apply aget_aset_other; lia|].
      split; [intros _ _; apply aget_aset_same; rewrite HL; apply P_range; lia|]. intros Hn. exfalso. apply Hn. split; [reflexivity|exact Ecb].
    - exists full. split; [reflexivity|]. split; [exact HL|]. split; [reflexivity|]. split; [intros _ E; contradiction|reflexivity].
    - exists full. split; [reflexivity|]. split; [exact HL|]. split; [reflexivity|]. split; [discriminate|reflexivity]. }
  destruct H1st as (f1 & -> & HL1 & Hf1o & Hf1c & Hf1n). cbv beta iota.
  (* slot 0 of a region C row *)
  set (m := emin R ri) in *.
  set (st2 := if er_cslot0 (ecanon R) && ((cb <=? m) && (m <? ce))
              then (aset f1 ((i1 - rb) * fw + m - cb) (aget wps (i1 * W + 0)), true && inb wl (i1 * W + 0) && inb flen ((i1 - rb) * fw + m - cb))
              else (f1, true)).
  assert (H2st : exists f2, st2 = (f2, true) /\ Z.of_nat (length f2) = flen /\
             (forall idx, idx <> P i1 m -> aget f2 idx = aget f1 idx) /\
             (er_cslot0 (ecanon R) = true -> cb <= m < ce -> aget f2 (P i1 m) = aget wps (i1 * W + 0)) /\
             (~ (er_cslot0 (ecanon R) = true /\ cb <= m < ce) -> f2 = f1)).
  { unfold st2. destruct (er_cslot0 (ecanon R)) eqn:Ec0; cbn [andb]; [destruct ((cb <=? m) && (m <? ce)) eqn:Em|].
    - apply andb_true_iff in Em. destruct Em as [Em1 Em2]. apply Z.leb_le in Em1. apply Z.ltb_lt in Em2.
      assert (Ep : (i1 - rb) * fw + m - cb = P i1 m) by (unfold P; lia). rewrite Ep.
      rewrite (inb_true wl (i1 * W + 0)) by (unfold i1; nia). rewrite (inb_true flen (P i1 m)) by (apply P_range; lia). cbn [andb].
      eexists. split; [reflexivity|]. split; [rewrite aset_length; exact HL1|]. split; [intros idx Hne; apply aget_aset_other; lia|].
      split; [intros _ _; apply aget_aset_same; rewrite HL1; apply P_range; lia|]. intros Hn. exfalso. apply Hn. split; [reflexivity|lia].
    - exists f1. split; [reflexivity|]. split; [exact HL1|]. split; [reflexivity|]. split; [|reflexivity].
      intros _ Hm. apply andb_false_iff in Em. destruct Em as [Em|Em]; [apply Z.leb_gt in Em|apply Z.ltb_ge in Em]; lia.
    - exists f1. split; [reflexivity|]. split; [exact HL1|]. split; [reflexivity|]. split; [discriminate|reflexivity]. }
  replace (((i1 - rb) * fw + m) - cb) with ((i1 - rb) * fw + m - cb) by lia.
  fold st2. destruct H2st as (f2 & -> & HL2 & Hf2o & Hf2c & Hf2n). cbv beta iota.
  (* the cell loop *)
  set (a := Z.max cbsz m). set (b := Z.min cesz (ehi R ri)).
  set (w0 := if cbsz <=? m then ew R ri else ew R ri + (cbsz - m)).
  assert (Ew0 : w0 = ew R ri + (a - m)) by (unfold w0, a; destruct (Z.leb_spec cbsz m); lia).
  set (n := Z.to_nat (b - a)).
  assert (Ezr : zrange a b = zrange a (a + Z.of_nat n)) by (unfold zrange, n; f_equal; lia).
  rewrite Ezr.
  destruct (ecells_spec cb flen fw W rb ri wps wl f2 a n w0 HL2) as (f3 & E3 & HL3 & Hin3 & Hout3).
  { intros k Hk. destruct (Hslot (a + Z.of_nat k) ltac:(unfold n in Hk; lia)) as (Es & Hs & _). fold i1. nia. }
  { intros k Hk. destruct (Hslot (a + Z.of_nat k) ltac:(unfold n in Hk; lia)) as (_ & _ & Hc & _). fold i1.
    replace ((i1 - rb) * fw + (a + Z.of_nat k) + 1 - cb) with (P i1 (a + Z.of_nat k + 1)) by (unfold P; lia). apply P_range; lia. }
  rewrite E3. exists f3. split; [reflexivity|].
  (* the invariant for the next row *)
  assert (Hf1 : forall i j, rb <= i < re -> cb <= j < ce -> ~ (i = i1 /\ j = 0) -> aget f1 (P i j) = aget full (P i j)).
  { intros i j Hi Hj Hn. destruct (er_col0 (ecanon R)) eqn:Ec; [destruct (Z.eq_dec cb 0) as [Ecb|Ecb]|].
    - apply Hf1o. intros E. apply (P_inj i j i1 0) in E; lia.
    - rewrite Hf1n; [reflexivity|]. intros [_ ?]; contradiction.
    - rewrite Hf1n; [reflexivity|]. intros [? _]; discriminate. }
  assert (Hf2 : forall i j, rb <= i < re -> cb <= j < ce -> ~ (i = i1 /\ j = m) -> aget f2 (P i j) = aget f1 (P i j)).
  { intros i j Hi Hj Hn. destruct (er_cslot0 (ecanon R)) eqn:Ec; [destruct (Z_le_dec cb m) as [Em1|Em1]; [destruct (Z_lt_dec m ce) as [Em2|Em2]|]|].
    - apply Hf2o. intros E. apply (P_inj i j i1 m) in E; lia.
    - rewrite Hf2n; [reflexivity|]. intros [_ ?]; lia.
    - rewrite Hf2n; [reflexivity|]. intros [_ ?]; lia.
    - rewrite Hf2n; [reflexivity|]. intros [? _]; discriminate. }
  assert (Hf3 : forall i j, rb <= i < re -> cb <= j < ce -> ~ (i = i1 /\ a <= j - 1 < b) -> aget f3 (P i j) = aget f2 (P i j)).
  { intros i j Hi Hj Hn. apply Hout3. intros k Hk E.
    replace ((ri + 1 - rb) * fw + (a + Z.of_nat k) + 1 - cb) with (P i1 (a + Z.of_nat k + 1)) in E by (unfold P, i1; lia).
    destruct (Hslot (a + Z.of_nat k) ltac:(unfold n in Hk; lia)) as (_ & _ & Hc & _).
    unfold n in Hk. apply (P_inj i j i1 (a + Z.of_nat k + 1)) in E; lia. }
  assert (Hf3c : forall ci, a <= ci < b -> aget f3 (P i1 (ci + 1)) = aget wps (i1 * W + (ci + 1 - shiftz ri))).
  { intros ci Hci. pose proof (Hin3 (Z.to_nat (ci - a)) ltac:(unfold n; lia)) as E.
    replace (a + Z.of_nat (Z.to_nat (ci - a))) with ci in E by lia.
    replace ((ri + 1 - rb) * fw + ci + 1 - cb) with (P i1 (ci + 1)) in E by (unfold P, i1; lia). rewrite E.
    destruct (Hslot ci ltac:(lia)) as (Es & _). fold i1. f_equal. lia. }
  assert (HmC : er_cslot0 (ecanon R) = true -> m = shiftz ri /\ 1 <= m).
  { intros Ec. destruct R; try discriminate Ec.
    destruct (expand_like_fill l1 l2 window0 rb ce RC ri 0 ltac:(lia) Hfr) as (_ & Esl & _).
    rewrite (Rslot 0) in Esl. unfold e_slot, e_w in Esl.
    change (er_w0 (ecanon RC)) with (fun _ _ _ _ _ _ _ _ _ : Z => 1) in Esl. change (er_dw (ecanon RC)) with 0 in Esl. cbv beta in Esl. fold m in Esl.
    assert (Em : m = shiftz ri) by (unfold shift in Esl; lia). split; [exact Em|]. rewrite Em.
    unfold cw_shift, cw_ri2, cw_ri3. unfold region_lo, region_hi in HregR. unfold c_wps_shift.
    destruct (Z.ltb_spec ri (c_parts_ri2 l1 (c_parts_overlap_left l1 (c_parts_ldiffr l1 l2 (c_parts_ldiff l1 l2)) (c_parts_window l1 l2 window0)))); [lia|].
    destruct (Z.ltb_spec ri (c_parts_ri3 l1 (c_parts_overlap_left l1 (c_parts_ldiffr l1 l2 (c_parts_ldiff l1 l2)) (c_parts_window l1 l2 window0))
                                (c_parts_overlap_right l1 (c_parts_ldiffr l1 l2 (c_parts_ldiff l1 l2)) (c_parts_window l1 l2 window0)))); lia. }
  assert (Hcol0 : ri < ri2z -> er_col0 (ecanon R) = true /\ er_cslot0 (ecanon R) = false /\ shiftz ri = 0).
  { intros Hlt. split; [|split; [|apply (unshifted_above_overlap l1 l2 window0 H1 H2 Hw); exact Hlt]].
    - destruct R; try reflexivity; unfold region_lo, cw_ri2 in *; cbn in HregR.
      + lia.
      + pose proof (CWpsSpec.regions_ordered l1 l2 window0 H1 H2 Hw). lia.
    - destruct R; try reflexivity; unfold region_lo, cw_ri2 in *; cbn in HregR. lia. }
  split; [rewrite HL3; exact HL2|].
  intros i j Hi Hj.
  assert (Hother : i <> i1 -> aget f3 (P i j) = aget full (P i j)).
  { intros Hne. rewrite Hf3, Hf2, Hf1 by (try assumption; lia). reflexivity. }
  split.
  - intros Hlt Hb0 Hr0. destruct (Z.eq_dec i i1) as [->|Hne].
    2:{ rewrite (Hother Hne). apply (proj1 (HI i j Hi Hj)); try assumption. unfold i1 in Hne. lia. }
    replace (Z.to_nat i1) with n1 by reflexivity.
    destruct (Z.eq_dec j 0) as [->|Hj0].
    + (* the border column, kept above the left overlap *)
      destruct (Hcol0 ltac:(unfold i1 in Hb0; specialize (Hb0 eq_refl); lia)) as (Ec0 & Ecs & Esh).
      rewrite Hf3 by (try assumption; unfold a, cbs; lia).
      rewrite Hf2n by (intros [? _]; congruence). rewrite (Hf1c Ec0 ltac:(lia)).
      replace (W * i1) with (Z.of_nat n1 * W + 0) by lia.
      rewrite wps_read; [f_equal; rewrite Ei1; unfold i1; replace (ri + 1 - 1) with ri by lia; rewrite Esh; reflexivity|lia|lia| |].
      * rewrite Ei1. unfold i1. replace (ri + 1 - 1) with ri by lia. lia.
      * intros _. rewrite Ei1. apply Hb0. reflexivity.
    + assert (Hci : cbsz <= j - 1 < cesz) by (unfold cbs, ces; lia).
      destruct (Z_le_dec a (j - 1)) as [Ha|Ha]; [destruct (Z_lt_dec (j - 1) b) as [Hbb|Hbb]|].
      * (* a cell the loop copies *)
        replace j with ((j - 1) + 1) at 1 by lia. rewrite Hf3c by lia.
        destruct (Hslot (j - 1) ltac:(lia)) as (_ & Hs & _ & Hc).
        replace (i1 * W + (j - 1 + 1 - shiftz ri)) with (Z.of_nat n1 * W + (j - shiftz ri)) by lia.
        rewrite wps_read; rewrite ?Ei1; unfold i1; replace (ri + 1 - 1) with ri by lia; try lia.
        f_equal. lia.
      * (* right of the copied run *)
        rewrite Hf3 by (try assumption; lia).
        destruct (er_cslot0 (ecanon R)) eqn:Ecs; [destruct (HmC eq_refl) as [Em Em1]|].
        -- assert (j <> m) by (unfold a in Ha; lia).
           rewrite Hf2, Hf1 by (try assumption; lia). rewrite (proj2 (HI i1 j Hi Hj)) by (unfold i1; lia).
           symmetry. unfold n1, i1. replace (Z.to_nat (ri + 1)) with (S (Z.to_nat ri)) by lia. replace (Z.to_nat j) with (S (Z.to_nat (j - 1))) by lia.
           apply (M_out_of_band l1 l2 window0 d pen p1b p2b Hd); [lia|]. rewrite !Z2Nat.id by lia. intros Hin. pose proof (Hband (j - 1) Hci Hin). lia.
        -- rewrite Hf2n by (intros [? _]; congruence). rewrite Hf1 by (try assumption; lia). rewrite (proj2 (HI i1 j Hi Hj)) by (unfold i1; lia).
           symmetry. unfold n1, i1. replace (Z.to_nat (ri + 1)) with (S (Z.to_nat ri)) by lia. replace (Z.to_nat j) with (S (Z.to_nat (j - 1))) by lia.
           apply (M_out_of_band l1 l2 window0 d pen p1b p2b Hd); [lia|]. rewrite !Z2Nat.id by lia. intros Hin. pose proof (Hband (j - 1) Hci Hin). lia.
      * (* left of the copied run: slot 0 of a region C row, or out of the band *)
        rewrite Hf3 by (try assumption; lia).
        destruct (er_cslot0 (ecanon R)) eqn:Ecs; [destruct (HmC eq_refl) as [Em Em1]; destruct (Z.eq_dec j m) as [Ejm|Ejm]|].
        -- rewrite Ejm. rewrite (Hf2c eq_refl ltac:(lia)).
           replace (i1 * W + 0) with (Z.of_nat n1 * W + 0) by lia.
           rewrite wps_read; rewrite ?Ei1; unfold i1; replace (ri + 1 - 1) with ri by lia; try lia.
           f_equal. lia.
        -- rewrite Hf2, Hf1 by (try assumption; lia). rewrite (proj2 (HI i1 j Hi Hj)) by (unfold i1; lia).
           symmetry. unfold n1, i1. replace (Z.to_nat (ri + 1)) with (S (Z.to_nat ri)) by lia. replace (Z.to_nat j) with (S (Z.to_nat (j - 1))) by lia.
           apply (M_out_of_band l1 l2 window0 d pen p1b p2b Hd); [lia|]. rewrite !Z2Nat.id by lia. intros Hin. pose proof (Hband (j - 1) Hci Hin). lia.
        -- rewrite Hf2n by (intros [? _]; congruence). rewrite Hf1 by (try assumption; lia). rewrite (proj2 (HI i1 j Hi Hj)) by (unfold i1; lia).
           symmetry. unfold n1, i1. replace (Z.to_nat (ri + 1)) with (S (Z.to_nat ri)) by lia. replace (Z.to_nat j) with (S (Z.to_nat (j - 1))) by lia.
           apply (M_out_of_band l1 l2 window0 d pen p1b p2b Hd); [lia|]. rewrite !Z2Nat.id by lia. intros Hin. pose proof (Hband (j - 1) Hci Hin). lia.
  - intros Hge. rewrite Hother by (unfold i1; lia). apply (proj2 (HI i j Hi Hj)). lia.
Qed.

(* ------------------------------------------------------------------ rows outside the slice, the regions *)
Lemma EInv_skip k k' full : (forall i, Z.min k k' <= i < Z.max k k' -> ~ (rb <= i < re)) -> EInv k full -> EInv k' full.
Proof.
  intros Hout (HL & HI). split; [exact HL|]. intros i j Hi Hj. split.
  - intros Hlt. apply (proj1 (HI i j Hi Hj)). destruct (Z_lt_le_dec i k); [assumption|]. exfalso. apply (Hout i); lia.
  - intros Hge. apply (proj2 (HI i j Hi Hj)). destruct (Z_le_gt_dec k i); [assumption|]. exfalso. apply (Hout i); lia.
Qed.

Lemma region_rows R full (S : Type) (g : S -> Z -> S) (proj : S -> list cost * bool) (Q : Z -> S -> Prop) st :
  proj st = (full, true) -> EInv (region_lo l1 l2 window0 R + 1) full -> Q (frow R) st ->
  (forall ri s f, frow R <= ri < lrow R -> Q ri s -> proj s = (f, true) -> EInv (ri + 1) f ->
     exists f', proj (g s ri) = (f', true) /\ EInv (ri + 2) f' /\ Q (ri + 1) (g s ri)) ->
  exists f', proj (fold_left g (zrange (frow R) (lrow R)) st) = (f', true) /\ EInv (region_hi l1 l2 window0 R + 1) f'.
Proof.
  intros Hp HE HQ Hstep.
  destruct (region_bounds l1 l2 window0 R H1 H2 Hw) as [Hlo Hhi].
  assert (Hlh : region_lo l1 l2 window0 R <= region_hi l1 l2 window0 R).
  { pose proof (CWpsSpec.regions_ordered l1 l2 window0 H1 H2 Hw). destruct R; unfold region_lo, region_hi; lia. }
  assert (HrR : er_region (ecanon R) = R) by (destruct R; reflexivity).
  set (a := frow R). set (b := lrow R). set (n := Z.to_nat (b - a)).
  assert (Ezr : zrange a b = zrange a (a + Z.of_nat n)) by (unfold zrange, n; f_equal; lia). rewrite Ezr.
  assert (Ha : region_lo l1 l2 window0 R <= a /\ rbs rb <= a) by (unfold a, first_row; rewrite HrR; lia).
  assert (HE0 : EInv (a + 1) full).
  { apply (EInv_skip (region_lo l1 l2 window0 R + 1)); [|exact HE]. intros i Hi. unfold a, first_row, rbs in *. rewrite HrR in *. lia. }
  pose (PP := fun (k : nat) (s : S) => exists f, proj s = (f, true) /\ EInv (a + Z.of_nat k + 1) f /\ Q (a + Z.of_nat k) s).
  assert (HP : PP n (fold_left g (zrange a (a + Z.of_nat n)) st)).
  { apply fold_zrange_from.
    - exists full. replace (a + Z.of_nat 0) with a by lia. split; [exact Hp|]. split; [exact HE0|exact HQ].
    - intros k s Hk (f & Hpf & HEf & HQf).
      destruct (Hstep (a + Z.of_nat k) s f ltac:(unfold n in Hk; fold a b; lia) HQf Hpf HEf) as (f' & Hp' & HE' & HQ').
      exists f'. split; [exact Hp'|]. split.
      + replace (a + Z.of_nat (Datatypes.S k) + 1) with (a + Z.of_nat k + 2) by lia. exact HE'.
      + replace (a + Z.of_nat (Datatypes.S k)) with (a + Z.of_nat k + 1) by lia. exact HQ'. }
  destruct HP as (f & Hpf & HEf & _). exists f. split; [exact Hpf|].
  apply (EInv_skip (a + Z.of_nat n + 1)); [|exact HEf].
  intros i Hi. unfold n, b, a, last_row, first_row, res, rbs in *. rewrite HrR in *. lia.
Qed.

Local Notation ldiff := (c_parts_ldiff l1 l2).
Local Notation ldiffr := (c_parts_ldiffr l1 l2 ldiff).
Local Notation ldiffc := (c_parts_ldiffc l1 l2 ldiff).
Local Notation window := (c_parts_window l1 l2 window0).
Local Notation ol := (c_parts_overlap_left l1 ldiffr window).
Local Notation orr := (c_parts_overlap_right l1 ldiffr window).
Local Notation ri1 := (c_parts_ri1 l1 ol orr).
Local Notation ri2 := (c_parts_ri2 l1 ol).
Local Notation ri3 := (c_parts_ri3 l1 ol orr).

Lemma efill_spec full : Z.of_nat (length full) = flen ->
  exists f, fold_left (c_dtw_expand_wps_slice_loop1 flen) (zrange 0 flen) (full, true) = (f, true) /\
    Z.of_nat (length f) = flen /\ forall idx, 0 <= idx < flen -> aget f idx = Inf.
Proof.
  intros Hl.
  pose (PP := fun (k : nat) (st : list cost * bool) => snd st = true /\ length (fst st) = length full /\
     forall idx, 0 <= idx < Z.of_nat k -> aget (fst st) idx = Inf).
  assert (HP : PP (length full) (fold_left (c_dtw_expand_wps_slice_loop1 flen) (zrange 0 (Z.of_nat (length full))) (full, true))).
  { apply fold_zrange_inv.
    - unfold PP. cbn [fst snd]. repeat split; intros; lia.
    - intros k [f ok] Hk (Hok & Hlenf & Hin). cbn [fst snd] in *. subst ok.
      unfold c_dtw_expand_wps_slice_loop1, PP. cbn [fst snd].
      rewrite (inb_true flen (Z.of_nat k)) by lia. cbn [andb].
      split; [reflexivity|]. split; [rewrite aset_length; exact Hlenf|].
      intros idx Hidx. destruct (Z.eq_dec idx (Z.of_nat k)) as [->|Hne].
      + apply aget_aset_same. lia.
      + rewrite aget_aset_other by lia. apply Hin. lia. }
  rewrite Hl in HP.
  destruct (fold_left (c_dtw_expand_wps_slice_loop1 flen) (zrange 0 flen) (full, true)) as [f ok].
  destruct HP as (Hok & Hlenf & Hin). cbn [fst snd] in *. subst ok. exists f. split; [reflexivity|]. split; [lia|].
  intros idx Hidx. apply Hin. lia.
Qed.

Lemma tie_etop cb' flen' wps' wl' st ci fw' W' :
  c_dtw_expand_wps_slice_loop2 cb' flen' wps' wl' st ci = k_ecell cb' flen' fw' W' 0 (-1) wps' wl' st ci.
Proof. destruct st as [[? ?] ?]. reflexivity. Qed.

Lemma scalars_norm : (if rb >? 0 then rb - 1 else 0) = rbs rb /\ (if re >? 0 then re - 1 else 0) = res re /\
                     (if cb >? 0 then cb - 1 else 0) = cbsz /\ (if ce >? 0 then ce - 1 else 0) = cesz.
Proof. unfold rbs, res, cbs, ces. repeat split; match goal with |- context [?a >? ?b] => destruct (Z.gtb_spec a b) end; lia. Qed.

Lemma eval_A ri : emin RA ri = 0 /\ ew RA ri = 1 /\ ehi RA (ri + 1) = ehi RA ri + 1 /\ ehi RA (frow RA) = window + ldiffc + rbs rb.
Proof.
  assert (E1 : emin RA ri = 0 + 0 * (ri - frow RA)) by reflexivity.
  assert (E2 : ew RA ri = 1 + 0 * (ri - frow RA)) by reflexivity.
  assert (E3 : forall x, ehi RA x = window + ldiffc + rbs rb + 1 * (x - frow RA)) by (intros; reflexivity).
  rewrite E1, E2, !E3. lia.
Qed.
Lemma eval_B ri : emin RB ri = 0 /\ ew RB ri = 1 /\ ehi RB ri = Z.min cesz l2.
Proof.
  assert (E1 : emin RB ri = 0 + 0 * (ri - frow RB)) by reflexivity.
  assert (E2 : ew RB ri = 1 + 0 * (ri - frow RB)) by reflexivity.
  assert (E3 : ehi RB ri = Z.min cesz l2 + 0 * (ri - frow RB)) by reflexivity.
  rewrite E1, E2, E3. lia.
Qed.
Lemma eval_C ri : ew RC ri = 1 /\ emin RC (ri + 1) = emin RC ri + 1 /\ ehi RC (ri + 1) = ehi RC ri + 1 /\
  emin RC (frow RC) = (if rbs rb >? ri2 then 1 + (rbs rb - ri2) else 1) /\
  ehi RC (frow RC) = (if rbs rb >? ri2 then 1 + 2 * window - 1 + ldiff + (rbs rb - ri2) else 1 + 2 * window - 1 + ldiff).
Proof.
  assert (E2 : ew RC ri = 1 + 0 * (ri - frow RC)) by reflexivity.
  assert (E1 : forall x, emin RC x = (if rbs rb >? ri2 then 1 + (rbs rb - ri2) else 1) + 1 * (x - frow RC)) by (intros; reflexivity).
  assert (E3 : forall x, ehi RC x = (if rbs rb >? ri2 then 1 + 2 * window - 1 + ldiff + (rbs rb - ri2) else 1 + 2 * window - 1 + ldiff) + 1 * (x - frow RC)) by (intros; reflexivity).
  rewrite E2, !E1, !E3. repeat split; lia.
Qed.
Lemma eval_D ri : ehi RD ri = l2 /\ emin RD (ri + 1) = emin RD ri + 1 /\ ew RD (ri + 1) = ew RD ri + 1 /\
  emin RD (frow RD) = (if rbs rb >? ri3 then (if ri2 =? ri3 then ri3 + 1 - window - ldiff else 1 + ri3 - ri2) + (rbs rb - ri3)
                       else (if ri2 =? ri3 then ri3 + 1 - window - ldiff else 1 + ri3 - ri2)) /\
  ew RD (frow RD) = (if rbs rb >? ri3 then (if ri2 =? ri3 then ri3 + 1 - window - ldiff + 1 else 2) + (rbs rb - ri3)
                     else (if ri2 =? ri3 then ri3 + 1 - window - ldiff + 1 else 2)).
Proof.
  assert (E3 : ehi RD ri = l2 + 0 * (ri - frow RD)) by reflexivity.
  assert (E1 : forall x, emin RD x = (if rbs rb >? ri3 then (if ri2 =? ri3 then ri3 + 1 - window - ldiff else 1 + ri3 - ri2) + (rbs rb - ri3)
                       else (if ri2 =? ri3 then ri3 + 1 - window - ldiff else 1 + ri3 - ri2)) + 1 * (x - frow RD)) by (intros; reflexivity).
  assert (E2 : forall x, ew RD x = (if rbs rb >? ri3 then (if ri2 =? ri3 then ri3 + 1 - window - ldiff + 1 else 2) + (rbs rb - ri3)
                     else (if ri2 =? ri3 then ri3 + 1 - window - ldiff + 1 else 2)) + 1 * (x - frow RD)) by (intros; reflexivity).
  rewrite E3, !E1, !E2. repeat split; lia.
Qed.

Lemma shift_row0 : shiftz (Z.of_nat 0 - 1) = 0.
Proof. exact (shift_before_first l1 l2 window0 H1 H2 Hw). Qed.

Lemma etop_spec f0 : Z.of_nat (length f0) = flen -> (forall idx, 0 <= idx < flen -> aget f0 idx = Inf) ->
  exists f1,
    (let '(full, ok) := (if (rb =? 0) && (cb =? 0) then (aset f0 0 (aget wps 0), true && inb wl 0 && inb flen 0) else (f0, true)) in
     if rb =? 0 then
       let '(full1, ok0, _) := fold_left (c_dtw_expand_wps_slice_loop2 cb flen wps wl) (zrange cbsz (Z.min (Z.min cesz (W - 1)) l2)) (full, ok, 1 + cbsz) in
       (full1, ok0)
     else (full, ok)) = (f1, true) /\ EInv 1 f1.
Proof.
  intros HLf0 Hinf0. pose proof (W_pos l1 l2 window0 H1 H2 Hw) as HW.
  pose proof (CWpsSpec.regions_ordered l1 l2 window0 H1 H2 Hw) as (R0 & R1 & R2 & R3).
  assert (HA : exists fA, (if (rb =? 0) && (cb =? 0) then (aset f0 0 (aget wps 0), true && inb wl 0 && inb flen 0) else (f0, true)) = (fA, true) /\
             Z.of_nat (length fA) = flen /\ (forall idx, 0 <= idx < flen -> idx <> 0 -> aget fA idx = Inf) /\
             (rb = 0 -> cb = 0 -> aget fA 0 = aget wps 0) /\ (rb <> 0 -> fA = f0)).
  { destruct (Z.eqb_spec rb 0) as [Er|Er]; [destruct (Z.eqb_spec cb 0) as [Ec|Ec]|]; cbn [andb].
    - rewrite (inb_true wl 0) by nia. rewrite (inb_true flen 0) by nia. cbn [andb].
      eexists. split; [reflexivity|]. split; [rewrite aset_length; exact HLf0|]. split; [|split; [|intros; contradiction]].
      + intros idx Hi Hne. rewrite aget_aset_other by lia. apply Hinf0. exact Hi.
      + intros _ _. apply aget_aset_same. nia.
    - exists f0. split; [reflexivity|]. split; [exact HLf0|]. split; [intros; apply Hinf0; assumption|]. split; [intros; contradiction|reflexivity].
    - exists f0. split; [reflexivity|]. split; [exact HLf0|]. split; [intros; apply Hinf0; assumption|]. split; [intros; contradiction|reflexivity]. }
  destruct HA as (fA & -> & HLA & HAinf & HA0 & HAn). cbv beta iota.
  destruct (Z.eqb_spec rb 0) as [Er|Er].
  - set (a := cbsz). set (b := Z.min (Z.min cesz (W - 1)) l2). set (n := Z.to_nat (b - a)).
    assert (Ezr : zrange a b = zrange a (a + Z.of_nat n)) by (unfold zrange, n; f_equal; lia). rewrite Ezr.
    rewrite (fold_left_ext _ _ _ _ (fun st ci => tie_etop cb flen wps wl st ci fw W)).
    assert (Hab : forall k, (k < n)%nat -> cbsz <= a + Z.of_nat k < cesz /\ a + Z.of_nat k < W - 1 /\ a + Z.of_nat k < l2) by (intros; unfold n, b, a in *; lia).
    destruct (ecells_spec cb flen fw W 0 (-1) wps wl fA a n (1 + a) HLA) as (f1 & E1 & HL1 & Hin1 & Hout1).
    { intros k Hk. destruct (Hab k Hk) as (Hc1 & Hc2 & Hc3). assert (W <= wl) by nia. unfold a, cbs in *. lia. }
    { intros k Hk. destruct (Hab k Hk) as (Hc & _). assert (fw <= flen) by nia. unfold cbs, ces, a in *. lia. }
    rewrite E1. exists f1. split; [reflexivity|]. split; [rewrite HL1; exact HLA|].
    intros i j Hi Hj. split.
    + intros Hlt Hb0 Hr0. assert (i = 0) by lia. subst i. specialize (Hr0 eq_refl).
      destruct (Z.eq_dec j 0) as [->|Hj0].
      * rewrite Hout1.
        -- replace (P 0 0) with 0 by (unfold P; lia). rewrite HA0 by lia.
           change (aget wps 0) with (aget wps (Z.of_nat 0 * W + 0)). rewrite wps_read.
           { rewrite shift_row0. reflexivity. }
           { cbn. lia. }
           { cbn. lia. }
           { rewrite shift_row0. lia. }
           { intros _. unfold cw_ri2. cbn. lia. }
        -- intros k Hk E. destruct (Hab k Hk) as (Hc & _). unfold P, cbs in *. lia.
      * pose proof (Hin1 (Z.to_nat (j - 1 - a)) ltac:(unfold n, b, a, cbs, ces in *; lia)) as E.
        replace (a + Z.of_nat (Z.to_nat (j - 1 - a))) with (j - 1) in E by (unfold a, cbs in *; lia).
        replace ((-1 + 1 - 0) * fw + (j - 1) + 1 - cb) with (P 0 j) in E by (unfold P; lia). rewrite E.
        replace ((-1 + 1) * W + (1 + a + Z.of_nat (Z.to_nat (j - 1 - a)))) with (Z.of_nat 0 * W + j) by (unfold a, cbs in *; lia).
        rewrite wps_read; rewrite ?shift_row0; try (cbn [Z.of_nat]; lia).
        f_equal. lia.
    + intros Hge. rewrite Hout1.
      * apply HAinf; [apply P_range; assumption|]. unfold P. nia.
      * intros k Hk E. destruct (Hab k Hk) as (Hc & _). unfold P, cbs, ces in *. nia.
  - rewrite (HAn Er). exists f0. split; [reflexivity|]. split; [exact HLf0|].
    intros i j Hi Hj. split; [intros; lia|]. intros _. apply Hinf0. apply P_range; assumption.
Qed.

Theorem c_expand_slice_spec full0 : Z.of_nat (length full0) = flen ->
  exists full', c_dtw_expand_wps_slice wps full0 l1 l2 rb re cb ce flen wl ldiff ldiffc window W ri1 ri2 ri3
                = (RPlain (Fin 0), full', true) /\ EInv (l1 + 1) full'.
Proof.
  intros HL0. pose proof (W_pos l1 l2 window0 H1 H2 Hw) as HW.
  pose proof (CWpsSpec.regions_ordered l1 l2 window0 H1 H2 Hw) as (R0 & R1 & R2 & R3).
  destruct scalars_norm as (Erbs & Eres & Ecbs & Eces).
  unfold c_dtw_expand_wps_slice. cbv zeta. rewrite Erbs, Eres, Ecbs, Eces.
  destruct (efill_spec full0 HL0) as (f0 & E0 & HLf0 & Hinf0). rewrite E0.
  destruct (etop_spec f0 HLf0 Hinf0) as (f1 & E1 & HE1).
  destruct (if (rb =? 0) && (cb =? 0) then (aset f0 0 (aget wps 0), true && inb wl 0 && inb flen 0) else (f0, true)) as [fA okA].
  rewrite E1. clear E1.
  assert (Hrbs0 : 0 <= rbs rb) by (unfold rbs; lia).
  (* region A *)
  assert (HA : exists fa, (if rbs rb <? ri1
       then let '(full2, _, ok1) := fold_left (c_dtw_expand_wps_slice_loop3 cb cbsz cesz flen fw 0 W rb wps wl)
                                      (zrange (rbs rb) (Z.min (res re) ri1)) (f1, window + ldiffc + rbs rb, true) in (full2, ok1)
       else (f1, true)) = (fa, true) /\ EInv (ri1 + 1) fa).
  { destruct (Z.ltb_spec (rbs rb) ri1) as [Hlt|Hge].
    - assert (Ez : zrange (rbs rb) (Z.min (res re) ri1) = zrange (frow RA) (lrow RA)).
      { unfold first_row, last_row. change (er_region (ecanon RA)) with RA. unfold region_lo, region_hi. f_equal. lia. }
      rewrite Ez.
      destruct (region_rows RA f1 (list cost * Z * bool) (c_dtw_expand_wps_slice_loop3 cb cbsz cesz flen fw 0 W rb wps wl)
                  (fun s => (fst (fst s), snd s)) (fun ri s => snd (fst s) = ehi RA ri) (f1, window + ldiffc + rbs rb, true))
        as (fa & Ea & HEa).
      + reflexivity.
      + exact HE1.
      + cbn [fst snd]. symmetry. apply (eval_A 0).
      + intros ri [[f mx] ok] f' Hri HQ Hp HE. cbn [fst snd] in *. inversion Hp; subst f' ok. subst mx.
        rewrite (tie_erowA ce). destruct (erow_step RA ri f Hri HE) as (f2 & E2 & HE2).
        change (er_col0 (ecanon RA)) with true in E2. change (er_cslot0 (ecanon RA)) with false in E2.
        destruct (eval_A ri) as (Em & Ew & Eh & _). rewrite Em, Ew in E2. rewrite E2.
        exists f2. cbn [fst snd]. split; [reflexivity|]. split; [exact HE2|]. symmetry. exact Eh.
      + match goal with |- context [@fold_left ?A ?B ?f ?l ?a] => destruct (@fold_left A B f l a) as [[fx mx] okx] end. cbn [fst snd] in Ea. inversion Ea; subst. exists fa. split; [reflexivity|exact HEa].
    - exists f1. split; [reflexivity|]. apply (EInv_skip 1); [|exact HE1]. intros i Hi. unfold rbs in *. lia. }
  destruct HA as (fa & -> & HEa). cbv beta iota.
  (* region B *)
  assert (HB : exists fb, (if rbs rb <? ri2
       then let '(full, ok) := fold_left (c_dtw_expand_wps_slice_loop5 cb cbsz cesz flen fw (Z.min cesz l2) 0 W rb wps wl)
                                 (zrange (Z.max (rbs rb) ri1) (Z.min (res re) ri2)) (fa, true) in (full, ok)
       else (fa, true)) = (fb, true) /\ EInv (ri2 + 1) fb).
  { destruct (Z.ltb_spec (rbs rb) ri2) as [Hlt|Hge].
    - assert (Ez : zrange (Z.max (rbs rb) ri1) (Z.min (res re) ri2) = zrange (frow RB) (lrow RB)) by reflexivity.
      rewrite Ez.
      destruct (region_rows RB fa (list cost * bool) (c_dtw_expand_wps_slice_loop5 cb cbsz cesz flen fw (Z.min cesz l2) 0 W rb wps wl)
                  (fun s => s) (fun ri s => True) (fa, true))
        as (fb & Eb & HEb).
      + reflexivity.
      + exact HEa.
      + exact I.
      + intros ri [f ok] f' Hri _ Hp HE. inversion Hp; subst f' ok.
        rewrite (tie_erowB ce). destruct (erow_step RB ri f Hri HE) as (f2 & E2 & HE2).
        change (er_col0 (ecanon RB)) with true in E2. change (er_cslot0 (ecanon RB)) with false in E2.
        destruct (eval_B ri) as (Em & Ew & Eh). rewrite Em, Ew, Eh in E2. rewrite E2.
        exists f2. split; [reflexivity|]. split; [exact HE2|exact I].
      + rewrite Eb. exists fb. split; [reflexivity|exact HEb].
    - exists fa. split; [reflexivity|]. apply (EInv_skip (ri1 + 1)); [|exact HEa]. intros i Hi. unfold rbs in *. lia. }
  destruct HB as (fb & -> & HEb). cbv beta iota.
  (* region C *)
  assert (HC : exists fc, (if rbs rb <? ri3
       then let '(max_ci, min_ci) := (if rbs rb >? ri2 then (1 + 2 * window - 1 + ldiff + (rbs rb - ri2), 1 + (rbs rb - ri2))
                                     else (1 + 2 * window - 1 + ldiff, 1)) in
            let '(full1, _, _, ok0) := fold_left (c_dtw_expand_wps_slice_loop7 cb cbsz ce cesz flen fw W rb wps wl)
                                         (zrange (Z.max (rbs rb) ri2) (Z.min (res re) ri3)) (fb, max_ci, min_ci, true) in (full1, ok0)
       else (fb, true)) = (fc, true) /\ EInv (ri3 + 1) fc).
  { destruct (Z.ltb_spec (rbs rb) ri3) as [Hlt|Hge].
    - assert (Ez : zrange (Z.max (rbs rb) ri2) (Z.min (res re) ri3) = zrange (frow RC) (lrow RC)) by reflexivity.
      rewrite Ez.
      assert (Est : (if rbs rb >? ri2 then (1 + 2 * window - 1 + ldiff + (rbs rb - ri2), 1 + (rbs rb - ri2)) else (1 + 2 * window - 1 + ldiff, 1))
                    = (ehi RC (frow RC), emin RC (frow RC))).
      { destruct (eval_C 0) as (_ & _ & _ & Em0 & Eh0). rewrite Em0, Eh0. destruct (rbs rb >? ri2); reflexivity. }
      rewrite Est.
      destruct (region_rows RC fb (list cost * Z * Z * bool) (c_dtw_expand_wps_slice_loop7 cb cbsz ce cesz flen fw W rb wps wl)
                  (fun s => (fst (fst (fst s)), snd s)) (fun ri s => snd (fst (fst s)) = ehi RC ri /\ snd (fst s) = emin RC ri)
                  (fb, ehi RC (frow RC), emin RC (frow RC), true))
        as (fc & Ec & HEc).
      + reflexivity.
      + exact HEb.
      + cbn [fst snd]. split; reflexivity.
      + intros ri [[[f mx] mn] ok] f' Hri [HQ1 HQ2] Hp HE. cbn [fst snd] in *. inversion Hp; subst f' ok. subst mx mn.
        rewrite tie_erowC. destruct (erow_step RC ri f Hri HE) as (f2 & E2 & HE2).
        change (er_col0 (ecanon RC)) with false in E2. change (er_cslot0 (ecanon RC)) with true in E2.
        destruct (eval_C ri) as (Ew & Em & Eh & _). rewrite Ew in E2. rewrite E2.
        exists f2. cbn [fst snd]. split; [reflexivity|]. split; [exact HE2|]. split; symmetry; assumption.
      + match goal with |- context [@fold_left ?A ?B ?f ?l ?a] => destruct (@fold_left A B f l a) as [[[fx mx] mn] okx] end.
        cbn [fst snd] in Ec. inversion Ec; subst. exists fc. split; [reflexivity|exact HEc].
    - exists fb. split; [reflexivity|]. apply (EInv_skip (ri2 + 1)); [|exact HEb]. intros i Hi. unfold rbs in *. lia. }
  destruct HC as (fc & -> & HEc). cbv beta iota.
  (* region D *)
  assert (Est : (let '(min_ci, wpsi_start) := (if ri2 =? ri3 then (ri3 + 1 - window - ldiff, ri3 + 1 - window - ldiff + 1) else (1 + ri3 - ri2, 2)) in
                 if rbs rb >? ri3 then (min_ci + (rbs rb - ri3), wpsi_start + (rbs rb - ri3)) else (min_ci, wpsi_start))
                = (emin RD (frow RD), ew RD (frow RD))).
  { destruct (eval_D 0) as (_ & _ & _ & Em0 & Ew0). rewrite Em0, Ew0. destruct (ri2 =? ri3); destruct (rbs rb >? ri3); reflexivity. }
  destruct (if ri2 =? ri3 then (ri3 + 1 - window - ldiff, ri3 + 1 - window - ldiff + 1) else (1 + ri3 - ri2, 2)) as [mn0 ws0].
  rewrite Est. clear Est.
  assert (Ez : zrange (Z.max (rbs rb) ri3) (Z.min (res re) l1) = zrange (frow RD) (lrow RD)) by reflexivity.
  rewrite Ez.
  destruct (region_rows RD fc (list cost * Z * bool * Z) (c_dtw_expand_wps_slice_loop9 cb cbsz cesz flen fw l2 W rb wps wl)
              (fun s => (fst (fst (fst s)), snd (fst s))) (fun ri s => snd (fst (fst s)) = emin RD ri /\ snd s = ew RD ri)
              (fc, emin RD (frow RD), true, ew RD (frow RD)))
    as (fd & Ed & HEd).
  - reflexivity.
  - exact HEc.
  - cbn [fst snd]. split; reflexivity.
  - intros ri [[[f mn] ok] ws] f' Hri [HQ1 HQ2] Hp HE. cbn [fst snd] in *. inversion Hp; subst f' ok. subst mn ws.
    rewrite (tie_erowD ce). destruct (erow_step RD ri f Hri HE) as (f2 & E2 & HE2).
    change (er_col0 (ecanon RD)) with false in E2. change (er_cslot0 (ecanon RD)) with false in E2.
    destruct (eval_D ri) as (Eh & Em & Ew & _). rewrite Eh in E2. rewrite E2.
    exists f2. cbn [fst snd]. split; [reflexivity|]. split; [exact HE2|]. split; symmetry; assumption.
  - match goal with |- context [@fold_left ?A ?B ?f ?l ?a] => destruct (@fold_left A B f l a) as [[[fx mn] okx] ws] end.
    cbn [fst snd] in Ed. inversion Ed; subst. exists fd. split; [reflexivity|exact HEd].
Qed.
End ExpandM.
