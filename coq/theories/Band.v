(* Facts about the window band used by the DTW theorems. *)
From Coq Require Import ZArith Lia Bool.
From DV Require Import Dtw.
Open Scope Z_scope.

Lemma band_sym r c w i j : 0 <= i < r -> 0 <= j < c ->
  (band_lo r c w i <= j < band_hi r c w i) <-> (band_lo c r w j <= i < band_hi c r w j).
Proof. unfold band_lo, band_hi. lia. Qed.

Lemma band_mono_w r c w w' i j : w <= w' ->
  band_lo r c w i <= j < band_hi r c w i -> band_lo r c w' i <= j < band_hi r c w' i.
Proof. unfold band_lo, band_hi. lia. Qed.

Lemma band_full r c w i j : Z.max r c <= w -> 0 <= i < r -> 0 <= j < c ->
  band_lo r c w i <= j < band_hi r c w i.
Proof. unfold band_lo, band_hi. lia. Qed.

Lemma band_corner_first r c w : 1 <= w -> 1 <= r -> 1 <= c -> band_lo r c w 0 <= 0 < band_hi r c w 0.
Proof. unfold band_lo, band_hi. lia. Qed.

Lemma band_corner_last r c w : 1 <= w -> 1 <= r -> 1 <= c ->
  band_lo r c w (r - 1) <= c - 1 < band_hi r c w (r - 1).
Proof. unfold band_lo, band_hi. lia. Qed.

(* the "diagonal then along the last column/row" staircase lies in every band *)
Lemma band_stair_rows r c w i : 1 <= w -> 1 <= c -> 0 <= i < r ->
  band_lo r c w i <= Z.min i (c - 1) < band_hi r c w i.
Proof. unfold band_lo, band_hi. lia. Qed.

Lemma band_diag_equal n w i : 1 <= w -> 0 <= i < n -> band_lo n n w i <= i < band_hi n n w i.
Proof. unfold band_lo, band_hi. lia. Qed.

Lemma band_w1_equal n i j : 0 <= i < n -> 0 <= j < n ->
  (band_lo n n 1 i <= j < band_hi n n 1 i) <-> j = i.
Proof. unfold band_lo, band_hi. lia. Qed.

Lemma in_band_iff r c w i j :
  in_band r c w i j = true <->
  band_lo (Z.of_nat r) (Z.of_nat c) w (Z.of_nat i) <= Z.of_nat j < band_hi (Z.of_nat r) (Z.of_nat c) w (Z.of_nat i).
Proof. unfold in_band. rewrite andb_true_iff, Z.leb_le, Z.ltb_lt. tauto. Qed.
