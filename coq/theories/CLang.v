(* Support for the definitions that tools/cfun.py regenerates from WHOLE C functions
   (Gen_cdist.v ...): arrays as lists with total read/write, the bounds predicate that
   every access contributes to the `ok` flag, seq_t operations over `cost`. *)
From Coq Require Import ZArith Bool List Lia.
From DV Require Import Prelude Cost.
Import ListNotations.
Open Scope Z_scope.

(* malloc: the block has the requested number of cells with ARBITRARY content *)
Definition amake (junk : Z -> cost) (n : Z) : list cost := map junk (zrange 0 n).
(* a[k] *)
Definition aget (a : list cost) (k : Z) : cost := if k <? 0 then Inf else nth (Z.to_nat k) a Inf.
(* a[k] = v *)
Definition aset (a : list cost) (k : Z) (v : cost) : list cost := upd a k v.
(* for (x=a; x>b; x--): a, a-1, ..., b+1 *)
Definition zdown (a b : Z) : list Z := rev (zrange (b + 1) (a + 1)).
(* 0 <= k < n : the access is inside an array of n cells *)
Definition inb (n k : Z) : bool := (0 <=? k) && (k <? n).
(* s[k] for an input series (finite doubles = integers on the exact stream) *)
Definition sget (s : list Z) (k : Z) : cost := if k <? 0 then Inf else Fin (nth (Z.to_nat k) s 0).

(* Python a[lo:hi] for 0 <= lo < hi <= len(a) (the condition is the conjunct inb_slice adds to ok; an empty slice
   makes array_min raise, a negative bound wraps around) *)
Definition aslice (a : list cost) (lo hi : Z) : list cost := firstn (Z.to_nat (hi - lo)) (skipn (Z.to_nat lo) a).
Definition inb_slice (n lo hi : Z) : bool := (0 <=? lo) && (lo <? hi) && (hi <=? n).

Definition csedist (a b : cost) : cost :=                 (* SEDIST(a, b) = (a - b) * (a - b) *)
  match a, b with Fin x, Fin y => Fin ((x - y) * (x - y)) | _, _ => Inf end.
Definition cabsdiff (a b : cost) : cost :=                (* fabs(a - b) *)
  match a, b with Fin x, Fin y => Fin (Z.abs (x - y)) | _, _ => Inf end.
Definition csq (a : cost) : cost := match a with Fin x => Fin (x * x) | Inf => Inf end.       (* pow(a, 2) *)
Definition csqrt (a : cost) : cost := match a with Fin x => Fin (Z.sqrt x) | Inf => Inf end.  (* sqrt(a) *)

(* what a kernel returns: `return sqrt(e)` keeps the transform symbolic *)
Inductive cret := RSqrt (c : cost) | RPlain (c : cost).

Lemma amake_length junk n : length (amake junk n) = Z.to_nat n.
Proof. unfold amake. rewrite map_length, zrange_length. f_equal. lia. Qed.

Lemma upd_nat_length {A} (l : list A) i v : length (upd_nat l i v) = length l.
Proof. revert i; induction l as [|x l IH]; intros [|i]; simpl; auto. Qed.

Lemma aset_length a k v : length (aset a k v) = length a.
Proof. unfold aset, upd. destruct (k <? 0); [reflexivity|apply upd_nat_length]. Qed.

Lemma nth_upd_nat_same {A} (l : list A) i v d : (i < length l)%nat -> nth i (upd_nat l i v) d = v.
Proof. revert i; induction l as [|x l IH]; intros [|i] H; simpl in *; try lia; auto. apply IH. lia. Qed.

Lemma nth_upd_nat_other {A} (l : list A) i j v d : i <> j -> nth j (upd_nat l i v) d = nth j l d.
Proof. revert i j; induction l as [|x l IH]; intros [|i] [|j] H; simpl; auto; try congruence. Qed.

Lemma aget_aset_same a k v : 0 <= k < Z.of_nat (length a) -> aget (aset a k v) k = v.
Proof.
  intros H. unfold aget, aset, upd. destruct (Z.ltb_spec k 0); [lia|]. apply nth_upd_nat_same. lia.
Qed.

Lemma aget_aset_other a k k' v : k <> k' -> aget (aset a k v) k' = aget a k'.
Proof.
  intros H. unfold aget, aset, upd. destruct (Z.ltb_spec k' 0); [reflexivity|].
  destruct (Z.ltb_spec k 0); [reflexivity|]. apply nth_upd_nat_other. lia.
Qed.
