(* dtw.warping_paths AS WRITTEN (pure Python engine): the full (r+1) x (c+1) matrix,
   filled row by row inside the band, with the PrunedDTW bookkeeping (sc, ec,
   ec_next, smaller_found, break), the border row/column for begin relaxation and
   the end-relaxation scans that pick the returned value.  The cell update and the
   bookkeeping are PyDist.pstep with both buffer offsets 0 (the matrix is not
   compacted); the band limits are the regenerated py_wps_j_start / py_wps_j_end
   (equal to those of dtw.distance: BandTie.v).
   psi_neg marking and the final result transform (sqrt) are applied by the harness. *)
From Coq Require Import ZArith Bool List Lia.
From DV Require Import Prelude Cost Grid Dtw DtwSpec BandTie PyDist.
From DVGen Require Import Gen_dtw.
Import ListNotations.
Open Scope Z_scope.

Section PyWps.
Variable u : usettings.
Variables s1 s2 : list point.
Variable B : cost.                       (* adj_max_dist (Inf when off) *)
Let r := length s1.
Let c := length s2.
Let w := eff_window u r c.

Definition wjs (i : nat) : nat := Z.to_nat (py_wps_j_start (Z.of_nat r) (Z.of_nat c) w (Z.of_nat i)).
Definition wje (i : nat) : nat := Z.to_nat (py_wps_j_end (Z.of_nat r) (Z.of_nat c) w (Z.of_nat i)).

(* dtw = np.full((r + 1, c + 1), inf); dtw[0, :psi_2b+1] = 0; dtw[:psi_1b+1, 0] = 0 *)
Definition wrow0 : list cost := map (fun q => if (q <=? psi_2b u)%nat then Fin 0 else Inf) (seq 0 (c + 1)).
Definition wrow_init (i : nat) : list cost :=
  upd_nat (repeat Inf (c + 1)) 0 (if (S i <=? psi_1b u)%nat then Fin 0 else Inf).

(* one iteration of "for i in range(r)": (row i+1, sc, ec) *)
Definition wrow_step (i : nat) (prev : list cost) (sc ec : nat) : list cost * nat * nat :=
  let sc := if (i <=? psi_1b u)%nat then 0%nat else sc in              (* if i <= psi_1b: sc = 0 *)
  let j0 := Nat.max (wjs i) sc in                                      (* if sc > j_start: j_start = sc *)
  let st := fold_left (pstep u s1 s2 B i 0 0 prev ec) (seq j0 (wje i - j0))
                      {| p_cur := wrow_init i; p_sc := sc; p_smaller := false; p_ecn := i; p_stop := false |} in
  (p_cur st, p_sc st, p_ecn st).

(* (rows so far, in order; last row; sc; ec) *)
Fixpoint wrows (n : nat) : list (list cost) * list cost * nat * nat :=
  match n with
  | O => ([wrow0], wrow0, 0%nat, psi_2b u)
  | S i =>
    let '(acc, prev, sc, ec) := wrows i in
    let '(cur, sc', ec') := wrow_step i prev sc ec in
    (acc ++ [cur], cur, sc', ec')
  end.

Definition wps_code_matrix : list (list cost) := fst (fst (fst (wrows r))).

(* the value: corner, or the minimum over the relaxed ends of the last column / last row *)
Definition wps_code_value (m : list (list cost)) (final_check : bool) : cost :=
  let d :=
    if (psi_1e u =? 0)%nat && (psi_2e u =? 0)%nat then mget m r c
    else
      let vr := if (psi_1e u =? 0)%nat then Inf
                else cmin_list (map (fun k => mget m (r - k) c) (seq 0 (S (Nat.min (psi_1e u) (r - 1))))) in
      let vc := if (psi_2e u =? 0)%nat then Inf
                else cmin_list (map (fun k => mget m r (c - k)) (seq 0 (S (Nat.min (psi_2e u) (c - 1))))) in
      if cltb vr vc then vr else vc in
  if final_check && negb (cleb d B) then Inf else d.

Definition wps_code_model (final_check : bool) : option (cost * list (list cost)) :=
  if too_long u s1 s2 then None                                         (* returns a bare inf *)
  else let m := wps_code_matrix in Some (wps_code_value m final_check, m).
End PyWps.
