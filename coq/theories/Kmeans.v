(* K-means (clustering/kmeans.py), the final assignment step: every series goes
   to the first mean at strictly smaller distance than all earlier ones
   (_distance_with_params); the clusters are the fibres of that assignment. *)
From Coq Require Import ZArith Bool List Lia.
From DV Require Import Prelude Cost.
Import ListNotations.
Open Scope Z_scope.

(* min_i, min_d = -1, inf ; for i, avg: d = ... ; if d < min_d: min_d, min_i = d, i *)
Fixpoint assign_from (ds : list cost) (i : nat) (min_i : option nat) (min_d : cost) : option nat * cost :=
  match ds with
  | [] => (min_i, min_d)
  | d :: t => if cltb d min_d then assign_from t (S i) (Some i) d else assign_from t (S i) min_i min_d
  end.
Definition assign (ds : list cost) : option nat := fst (assign_from ds 0 None Inf).

Lemma cltb_spec a b : cltb a b = true <-> (cle a b /\ a <> b).
Proof.
  unfold cltb. rewrite negb_true_iff. split.
  - intros H. apply cleb_false_lt in H. destruct H as [H1 H2]. split; [exact H1|congruence].
  - intros [H1 H2]. destruct (cleb b a) eqn:E; [|reflexivity]. exfalso. apply H2. apply cle_antisym; assumption.
Qed.

Lemma assign_from_spec : forall ds i mi md r rd,
  assign_from ds i mi md = (r, rd) ->
  cle rd md /\ (forall k, (k < length ds)%nat -> cle rd (nth k ds Inf)) /\
  ((r = mi /\ rd = md) \/ (exists k, (k < length ds)%nat /\ r = Some (i + k)%nat /\ rd = nth k ds Inf /\ rd <> Inf)).
Proof.
  induction ds as [|d t IH]; intros i mi md r rd H; simpl in H.
  - inversion H; subst. split; [apply cle_refl|]. split; [intros k Hk; simpl in Hk; lia|left; auto].
  - destruct (cltb d md) eqn:E.
    + apply cltb_spec in E. destruct E as [E1 E2].
      destruct (IH _ _ _ _ _ H) as (H1 & H2 & H3).
      split; [eapply cle_trans; eauto|]. split.
      * intros k Hk. destruct k as [|k]; simpl; [exact H1|apply H2; simpl in Hk; lia].
      * right. destruct H3 as [[-> ->]|[k (Hk & -> & -> & Hn)]].
        -- exists 0%nat. simpl. repeat split; try lia; [f_equal; lia|].
           intros ->. destruct md; simpl in E1; try discriminate. apply E2. reflexivity.
        -- exists (S k). simpl. repeat split; try lia; [f_equal; lia|exact Hn].
    + destruct (IH _ _ _ _ _ H) as (H1 & H2 & H3).
      assert (Hd : cle md d).
      { unfold cltb in E. apply negb_false_iff in E. exact E. }
      split; [exact H1|]. split.
      * intros k Hk. destruct k as [|k]; simpl; [eapply cle_trans; eauto|apply H2; simpl in Hk; lia].
      * destruct H3 as [[-> ->]|[k (Hk & -> & -> & Hn)]]; [left; auto|].
        right. exists (S k). simpl. repeat split; try lia; [f_equal; lia|exact Hn].
Qed.

(* the assigned mean is a nearest one *)
Theorem assign_nearest ds c : assign ds = Some c ->
  (c < length ds)%nat /\ forall k, (k < length ds)%nat -> cle (nth c ds Inf) (nth k ds Inf).
Proof.
  unfold assign. destruct (assign_from ds 0 None Inf) as [r rd] eqn:E. simpl. intros ->.
  destruct (assign_from_spec _ _ _ _ _ _ E) as (_ & H2 & H3).
  destruct H3 as [[H _]|[k (Hk & Hr & Hrd & _)]]; [discriminate|].
  inversion Hr; subst. simpl. split; [exact Hk|]. intros j Hj. apply H2. exact Hj.
Qed.

(* a series is left unassigned (-1) only if no mean is at finite distance *)
Theorem assign_none ds : assign ds = None -> forall k, (k < length ds)%nat -> nth k ds Inf = Inf.
Proof.
  unfold assign. destruct (assign_from ds 0 None Inf) as [r rd] eqn:E. simpl. intros ->.
  destruct (assign_from_spec _ _ _ _ _ _ E) as (_ & H2 & H3).
  destruct H3 as [[_ ->]|[k (_ & Hr & _)]]; [|discriminate].
  intros k Hk. specialize (H2 k Hk). destruct (nth k ds Inf); [simpl in H2; discriminate|reflexivity].
Qed.

(* clusters = fibres of the assignment over the K means: a partition of the assigned indices *)
Definition cluster (dists : nat -> list cost) (n : nat) (c : nat) : list nat :=
  filter (fun idx => match assign (dists idx) with Some c' => (c' =? c)%nat | None => false end) (seq 0 n).

Theorem clusters_partition dists n K idx : (idx < n)%nat -> (forall i, length (dists i) = K) ->
  assign (dists idx) <> None ->
  exists c, (c < K)%nat /\ In idx (cluster dists n c) /\ forall c', In idx (cluster dists n c') -> c' = c.
Proof.
  intros Hi HK Hs. destruct (assign (dists idx)) as [c|] eqn:E; [|congruence].
  exists c. destruct (assign_nearest _ _ E) as [Hc _]. rewrite HK in Hc. split; [exact Hc|]. split.
  - unfold cluster. apply filter_In. split; [apply in_seq; lia|]. rewrite E. apply Nat.eqb_refl.
  - intros c' H. unfold cluster in H. apply filter_In in H. destruct H as [_ H]. rewrite E in H.
    apply Nat.eqb_eq in H. auto.
Qed.

(* iteration counter: performed_it = 1, then +1 per executed iteration of "for it_nb in range(max_it)" *)
Fixpoint performed (stops : list bool) (acc : nat) : nat :=
  match stops with [] => acc | b :: t => if b then S acc else performed t (S acc) end.
Theorem performed_bound stops : (performed stops 1 <= length stops + 1)%nat.
Proof.
  assert (G : forall s a, (performed s a <= length s + a)%nat).
  { induction s as [|b t IH]; intros a; simpl; [lia|]. destruct b; [lia|]. specialize (IH (S a)). lia. }
  apply G.
Qed.
