(* The envelope of the C LB_Keogh routines (regenerated from dd_dtw.c: Gen_clb) is the
   envelope of dtw.lb_keogh (regenerated from dtw.py: Gen_dtw), i.e. the one
   Bounds.lb_keogh_model is built from and lb_keogh_le_dtw is proved about. *)
From Coq Require Import ZArith Bool Lia.
From DVGen Require Import Gen_dtw Gen_clb.
Open Scope Z_scope.

Ltac crush_lb :=
  intros;
  unfold c_lb_keogh_imin_diff, c_lb_keogh_imax_diff, c_lb_keogh_imin, c_lb_keogh_imax,
         c_lb_keogh_euclidean_imin_diff, c_lb_keogh_euclidean_imax_diff, c_lb_keogh_euclidean_imin,
         c_lb_keogh_euclidean_imax, py_lb_imin_diff, py_lb_imax_diff, py_lb_imin, py_lb_imax;
  repeat match goal with |- context [?a >? ?b] => destruct (Z.gtb_spec a b) end; lia.

Lemma c_imin_diff l1 l2 w : c_lb_keogh_imin_diff l1 l2 w = py_lb_imin_diff l1 l2 w.
Proof. crush_lb. Qed.
Lemma c_imax_diff l1 l2 w : c_lb_keogh_imax_diff l1 l2 w = py_lb_imax_diff l1 l2 w.
Proof. crush_lb. Qed.
Lemma c_imin_diff_e l1 l2 w : c_lb_keogh_euclidean_imin_diff l1 l2 w = py_lb_imin_diff l1 l2 w.
Proof. crush_lb. Qed.
Lemma c_imax_diff_e l1 l2 w : c_lb_keogh_euclidean_imax_diff l1 l2 w = py_lb_imax_diff l1 l2 w.
Proof. crush_lb. Qed.
Lemma c_imin i d : c_lb_keogh_imin i d = py_lb_imin i d.
Proof. crush_lb. Qed.
Lemma c_imax i d l2 : c_lb_keogh_imax i d l2 = py_lb_imax l2 i d.
Proof. crush_lb. Qed.
Lemma c_imin_e i d : c_lb_keogh_euclidean_imin i d = py_lb_imin i d.
Proof. crush_lb. Qed.
Lemma c_imax_e i d l2 : c_lb_keogh_euclidean_imax i d l2 = py_lb_imax l2 i d.
Proof. crush_lb. Qed.

Theorem c_lb_keogh_envelope : forall l1 l2 window i,
  c_lb_keogh_imin_diff l1 l2 window = py_lb_imin_diff l1 l2 window /\
  c_lb_keogh_imax_diff l1 l2 window = py_lb_imax_diff l1 l2 window /\
  c_lb_keogh_imin i (c_lb_keogh_imin_diff l1 l2 window) = py_lb_imin i (py_lb_imin_diff l1 l2 window) /\
  c_lb_keogh_imax i (c_lb_keogh_imax_diff l1 l2 window) l2 = py_lb_imax l2 i (py_lb_imax_diff l1 l2 window).
Proof. intros. rewrite c_imin, c_imax, c_imin_diff, c_imax_diff. repeat split. Qed.

Theorem c_lb_keogh_euclidean_envelope : forall l1 l2 window i,
  c_lb_keogh_euclidean_imin_diff l1 l2 window = py_lb_imin_diff l1 l2 window /\
  c_lb_keogh_euclidean_imax_diff l1 l2 window = py_lb_imax_diff l1 l2 window /\
  c_lb_keogh_euclidean_imin i (c_lb_keogh_euclidean_imin_diff l1 l2 window) = py_lb_imin i (py_lb_imin_diff l1 l2 window) /\
  c_lb_keogh_euclidean_imax i (c_lb_keogh_euclidean_imax_diff l1 l2 window) l2 = py_lb_imax l2 i (py_lb_imax_diff l1 l2 window).
Proof. intros. rewrite c_imin_e, c_imax_e, c_imin_diff_e, c_imax_diff_e. repeat split. Qed.
