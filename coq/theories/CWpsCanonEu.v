(* CWpsCanon.v for the Euclidean twin dtw_warping_paths_ndim_euclidean: its regenerated loop bodies are the same
   canonical fill / skip / cell loops, the point distance being the square root of the coordinate sum (wdfun_eu). *)
From Coq Require Import ZArith Bool List Lia.
From DV Require Import Prelude Cost CLang CDistCanon CDistTie CWpsCanon.
From DVGen Require Import Gen_cwpsk.
Import ListNotations.
Open Scope Z_scope.
Open Scope bool_scope.

(* ------------------------------------------------------------------ ties: Euclidean kernel *)
Ltac tie_fill' := intros; repeat match goal with st : _ * _ |- _ => destruct st end; reflexivity.

Lemma tie_eu_fill9 a st i : c_dtw_warping_paths_ndim_euclidean_loop9 a st i = k_wfill a st i. Proof. tie_fill'. Qed.
Lemma tie_eu_fill14 a st i : c_dtw_warping_paths_ndim_euclidean_loop14 a st i = k_wfill a st i. Proof. tie_fill'. Qed.
Lemma tie_eu_fill19 a st i : c_dtw_warping_paths_ndim_euclidean_loop19 a st i = k_wfill a st i. Proof. tie_fill'. Qed.
Lemma tie_eu_fill21 a st i : c_dtw_warping_paths_ndim_euclidean_loop21 a st i = k_wfill a st i. Proof. tie_fill'. Qed.
Lemma tie_eu_fill25 a st i : c_dtw_warping_paths_ndim_euclidean_loop25 a st i = k_wfill a st i. Proof. tie_fill'. Qed.
Lemma tie_eu_skip6 a b st i : c_dtw_warping_paths_ndim_euclidean_loop6 a b st i = k_wskip a b st i. Proof. tie_fill'. Qed.
Lemma tie_eu_skip11 a b st i : c_dtw_warping_paths_ndim_euclidean_loop11 a b st i = k_wskip a b st i. Proof. tie_fill'. Qed.
Lemma tie_eu_skip16 a b st i : c_dtw_warping_paths_ndim_euclidean_loop16 a b st i = k_wskip a b st i. Proof. tie_fill'. Qed.
Lemma tie_eu_skip22 a b st i : c_dtw_warping_paths_ndim_euclidean_loop22 a b st i = k_wskip a b st i. Proof. tie_fill'. Qed.

Lemma tie_eu_d8 ci_idx l1 l2 ndim ri_idx s1 s2 st d_i :
  c_dtw_warping_paths_ndim_euclidean_loop8 ci_idx l1 l2 ndim ri_idx s1 s2 st d_i = nd_step ri_idx ci_idx l1 l2 ndim s1 s2 st d_i.
Proof. destruct st. reflexivity. Qed.
Lemma tie_eu_d13 ci_idx l1 l2 ndim ri_idx s1 s2 st d_i :
  c_dtw_warping_paths_ndim_euclidean_loop13 ci_idx l1 l2 ndim ri_idx s1 s2 st d_i = nd_step ri_idx ci_idx l1 l2 ndim s1 s2 st d_i.
Proof. destruct st. reflexivity. Qed.
Lemma tie_eu_d18 ci_idx l1 l2 ndim ri_idx s1 s2 st d_i :
  c_dtw_warping_paths_ndim_euclidean_loop18 ci_idx l1 l2 ndim ri_idx s1 s2 st d_i = nd_step ri_idx ci_idx l1 l2 ndim s1 s2 st d_i.
Proof. destruct st. reflexivity. Qed.
Lemma tie_eu_d24 ci_idx l1 l2 ndim ri_idx s1 s2 st d_i :
  c_dtw_warping_paths_ndim_euclidean_loop24 ci_idx l1 l2 ndim ri_idx s1 s2 st d_i = nd_step ri_idx ci_idx l1 l2 ndim s1 s2 st d_i.
Proof. destruct st. reflexivity. Qed.

Ltac tie_cell' tied :=
  intros; match goal with st : stw |- _ => destruct st as [[[[[[? ?] ?] ?] ?] ?] ?] end;
  unfold k_wcell; match goal with |- ?f _ _ _ _ _ _ _ _ _ _ _ _ _ _ _ = _ => unfold f end;
  match goal with |- (if ?b then _ else _) = _ => destruct b end; [reflexivity|]; cbv zeta;
  rewrite (fold_left_ext _ _ _ _ (tied _ _ _ _ _ _ _)); rewrite nd_fold_ok;
  unfold wdok, wdfun_sq, wdfun_eu, fdA, fuA, fdC, fuC; reflexivity.

Lemma tie_eu_cell7 ec l1 l2 ndim md ms pen ri_idx rw rwp s1 s2 wl (st : stw) ci :
  c_dtw_warping_paths_ndim_euclidean_loop7 ec l1 l2 ndim md ms pen ri_idx rw rwp s1 s2 wl st ci =
  k_wcell (wdok l1 l2 ndim s1 s2 ri_idx) (wdfun_eu l1 l2 ndim s1 s2 ri_idx) fdA fuA ec md ms pen rw rwp wl st ci.
Proof. tie_cell' tie_eu_d8. Qed.
Lemma tie_eu_cell12 ec l1 l2 ndim md ms pen ri_idx rw rwp s1 s2 wl (st : stw) ci :
  c_dtw_warping_paths_ndim_euclidean_loop12 ec l1 l2 ndim md ms pen ri_idx rw rwp s1 s2 wl st ci =
  k_wcell (wdok l1 l2 ndim s1 s2 ri_idx) (wdfun_eu l1 l2 ndim s1 s2 ri_idx) fdA fuA ec md ms pen rw rwp wl st ci.
Proof. tie_cell' tie_eu_d13. Qed.
Lemma tie_eu_cell17 ec l1 l2 ndim md ms pen ri_idx rw rwp s1 s2 wl (st : stw) ci :
  c_dtw_warping_paths_ndim_euclidean_loop17 ec l1 l2 ndim md ms pen ri_idx rw rwp s1 s2 wl st ci =
  k_wcell (wdok l1 l2 ndim s1 s2 ri_idx) (wdfun_eu l1 l2 ndim s1 s2 ri_idx) fdC fuC ec md ms pen rw rwp wl st ci.
Proof. tie_cell' tie_eu_d18. Qed.
Lemma tie_eu_cell23 ec l1 l2 ndim md ms pen ri_idx rw rwp s1 s2 wl (st : stw) ci :
  c_dtw_warping_paths_ndim_euclidean_loop23 ec l1 l2 ndim md ms pen ri_idx rw rwp s1 s2 wl st ci =
  k_wcell (wdok l1 l2 ndim s1 s2 ri_idx) (wdfun_eu l1 l2 ndim s1 s2 ri_idx) fdA fuA ec md ms pen rw rwp wl st ci.
Proof. tie_cell' tie_eu_d24. Qed.

(* ------------------------------------------------------------------ the part after the row regions *)
(* the text of dtw_warping_paths_ndim_euclidean from `seq_t rvalue = 0` to the return statement (value scans with their
   break, -1 marks, final comparison with the bound), over the regenerated loop bodies; CWpsSpec.v shows
   by reflexivity that the regenerated function ends with exactly this *)
Definition k_wtail_eu (call_dtw_wps_shift : Z -> Z) (return_dtw psi_neg : bool) (l1 l2 p_width wps_len : Z)
  (p_max_dist : cost) (settings_psi_1e settings_psi_2e : Z) (ok : bool) (wps : list cost) : cret * list cost * bool :=
let rvalue := (Fin 0) in
let final_wpsi := (((l1 * p_width) + l2) - (call_dtw_wps_shift (l1 - 1))) in
let '(ok, rvalue, wps) := (if ((return_dtw && (settings_psi_1e =? 0)) && (settings_psi_2e =? 0)) then (
let ok := ok && inb wps_len final_wpsi in
let rvalue := (aget wps final_wpsi) in
(ok, rvalue, wps)) else (
let '(ok, rvalue, wps) := (if return_dtw then (
let mir_value := Inf in
let mir_rel := l1 in
let mic_value := Inf in
let mic := l2 in
let '(mir_rel, mir_value, ok) := (if (negb (settings_psi_1e =? 0)) then (
let '(mir_rel, mir_value, ok, _) := fold_left (c_dtw_warping_paths_ndim_euclidean_loop26 call_dtw_wps_shift settings_psi_1e l1 l2 p_width wps wps_len) (zdown l1 0) (mir_rel, mir_value, ok, false) in
(mir_rel, mir_value, ok)) else (
(mir_rel, mir_value, ok))) in
let '(mic, mic_value, ok) := (if (negb (settings_psi_2e =? 0)) then (
let '(mic, mic_value, ok, _) := fold_left (c_dtw_warping_paths_ndim_euclidean_loop27 call_dtw_wps_shift settings_psi_2e l1 l2 p_width wps wps_len) (zdown l2 0) (mic, mic_value, ok, false) in
(mic, mic_value, ok)) else (
(mic, mic_value, ok))) in
let '(ok, rvalue, wps) := (if (cltb mir_value mic_value) then (
let '(ok, wps) := (if psi_neg then (
let '(ok, wps) := fold_left (c_dtw_warping_paths_ndim_euclidean_loop28 call_dtw_wps_shift l2 p_width wps_len) (zrange (mir_rel + 1) (l1 + 1)) (ok, wps) in
(ok, wps)) else (
(ok, wps))) in
let rvalue := mir_value in
(ok, rvalue, wps)) else (
let '(ok, wps) := (if psi_neg then (
let '(ok, wps) := fold_left (c_dtw_warping_paths_ndim_euclidean_loop29 call_dtw_wps_shift l1 p_width wps_len) (zrange (mic + 1) (l2 + 1)) (ok, wps) in
(ok, wps)) else (
(ok, wps))) in
let rvalue := mic_value in
(ok, rvalue, wps))) in
(ok, rvalue, wps)) else (
let rvalue := (Fin (- 1)) in
(ok, rvalue, wps))) in
(ok, rvalue, wps))) in
let rvalue := (if (cltb p_max_dist rvalue) then Inf else rvalue) in
(RPlain rvalue, wps, ok).
