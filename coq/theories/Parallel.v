(* OpenMP distance matrix (dd_dtw_openmp.c): dtw_distances_prepare computes, per
   row of the block, the first column (cbs) and the offset of the row in the
   output (rls); the parallel loop then writes value(r,c) to
   output[rls[r_i] + c_i] (triangular) or output[(ce-cb)*r_i + c_i].
   Model: the set of cell-writes; theorem: the slots are exactly 0,1,2,... in
   row-major order, hence distinct, hence ANY order of executing the writes
   (every thread count and OpenMP schedule yields some permutation) gives the
   serial result. *)
From Coq Require Import ZArith Bool List Lia Permutation.
From DV Require Import Prelude.
Import ListNotations.
Open Scope Z_scope.

Record cblock := { k_rb : Z; k_re : Z; k_cb : Z; k_ce : Z; k_triu : bool }.

(* first column of row r *)
Definition cb_of (b : cblock) (r : Z) : Z :=
  if k_triu b then (if r + 1 >? k_cb b then r + 1 else k_cb b) else k_cb b.

(* the loop of dtw_distances_prepare: rls[ir] = rs; rs += ce - cb *)
Fixpoint rls_from (b : cblock) (rows : list Z) (rs : Z) : list Z :=
  match rows with
  | [] => []
  | r :: t => rs :: rls_from b t (rs + (k_ce b - cb_of b r))
  end.
Definition rls (b : cblock) : list Z := rls_from b (zrange (k_rb b) (k_re b)) 0.

Definition slot (b : cblock) (r_i c_i : Z) : Z :=
  if k_triu b then nth (Z.to_nat r_i) (rls b) 0 + c_i else (k_ce b - k_cb b) * r_i + c_i.

(* one task = one cell write: (slot, (r, c)) *)
Definition row_tasks (b : cblock) (r_i : Z) : list (Z * (Z * Z)) :=
  let r := k_rb b + r_i in
  map (fun c_i => (slot b r_i c_i, (r, cb_of b r + c_i))) (zrange 0 (k_ce b - cb_of b r)).
Definition tasks (b : cblock) : list (Z * (Z * Z)) :=
  flat_map (row_tasks b) (zrange 0 (k_re b - k_rb b)).

Section Run.
Variable A : Type.
Variable value : Z -> Z -> A.
Definition write (out : list A) (t : Z * (Z * Z)) : list A := upd out (fst t) (value (fst (snd t)) (snd (snd t))).
Definition run (sched : list (Z * (Z * Z))) (out : list A) : list A := fold_left write sched out.

Lemma upd_nat_comm (l : list A) i j a b : i <> j -> upd_nat (upd_nat l i a) j b = upd_nat (upd_nat l j b) i a.
Proof.
  revert i j; induction l as [|x l IH]; intros i j H; [destruct i, j; reflexivity|].
  destruct i as [|i]; destruct j as [|j]; simpl; try reflexivity; [lia|]. f_equal. apply IH. lia.
Qed.

Lemma upd_comm (l : list A) i j a b : i <> j -> upd (upd l i a) j b = upd (upd l j b) i a.
Proof.
  intros H. unfold upd. destruct (i <? 0) eqn:Ei; destruct (j <? 0) eqn:Ej; try reflexivity.
  apply upd_nat_comm. apply Z.ltb_ge in Ei. apply Z.ltb_ge in Ej. lia.
Qed.

(* any two schedules that are permutations of each other and write to pairwise
   distinct slots produce the same output *)
Theorem run_perm : forall s1 s2, Permutation s1 s2 -> NoDup (map fst s1) -> forall out, run s1 out = run s2 out.
Proof.
  induction 1 as [|t s1 s2 Hp IH|t1 t2 s|s1 s2 s3 H12 IH12 H23 IH23]; intros Hnd out.
  - reflexivity.
  - simpl. apply IH. simpl in Hnd. inversion Hnd; assumption.
  - cbn [run fold_left]. simpl in Hnd. f_equal. unfold write. apply upd_comm. inversion Hnd as [|? ? Hin _]. simpl in Hin. intros E. apply Hin. left. symmetry. exact E.
  - rewrite IH12 by exact Hnd. apply IH23.
    eapply Permutation_NoDup; [apply Permutation_map; exact H12|exact Hnd].
Qed.
End Run.

(* ------------------------------------------------------------ slots enumerate 0,1,2,... *)
Definition valid_cblock (b : cblock) : Prop := 0 <= k_rb b < k_re b /\ 0 <= k_cb b < k_ce b.

Lemma cb_of_mono b r r' : r <= r' -> cb_of b r <= cb_of b r'.
Proof. unfold cb_of. intros. destruct (k_triu b); [|lia]. destruct (Z.gtb_spec (r + 1) (k_cb b)); destruct (Z.gtb_spec (r' + 1) (k_cb b)); lia. Qed.

Definition row_len (b : cblock) (r : Z) : Z := Z.max 0 (k_ce b - cb_of b r).

(* number of cells in the rows [k_rb, k_rb + r_i) *)
Definition cells_before (b : cblock) (r_i : Z) : Z :=
  fold_right (fun r acc => row_len b r + acc) 0 (zrange (k_rb b) (k_rb b + r_i)).

Lemma cells_before_S b r_i : 0 <= r_i -> cells_before b (r_i + 1) = cells_before b r_i + row_len b (k_rb b + r_i).
Proof.
  intros H. unfold cells_before. replace (k_rb b + (r_i + 1)) with (k_rb b + r_i + 1) by lia.
  rewrite zrange_snoc by lia. generalize (zrange (k_rb b) (k_rb b + r_i)).
  induction l as [|x l IH]; simpl; [lia|]. rewrite IH. lia.
Qed.

(* rls holds the prefix sums for every row that has at least one cell *)
Lemma rls_from_nth b : forall rows rs k r0,
  rows = zrange_aux (length rows) r0 ->
  (k < length rows)%nat ->
  0 < k_ce b - cb_of b (r0 + Z.of_nat k) ->
  nth k (rls_from b rows rs) 0 =
  rs + fold_right (fun r acc => row_len b r + acc) 0 (zrange_aux k r0).
Proof.
  induction rows as [|r rows IH]; intros rs k r0 Hrows Hk Hpos; simpl in Hk; [lia|].
  simpl in Hrows. injection Hrows as Hr Hrest. subst r.
  destruct k as [|k]; simpl; [lia|].
  rewrite (IH _ k (r0 + 1)); [|exact Hrest|lia|replace (r0 + 1 + Z.of_nat k) with (r0 + Z.of_nat (S k)) by lia; exact Hpos].
  unfold row_len at 2.
  assert (Hm : cb_of b r0 <= cb_of b (r0 + Z.of_nat (S k))) by (apply cb_of_mono; lia).
  lia.
Qed.

Lemma slot_triu b r_i c_i : k_triu b = true -> 0 <= r_i < k_re b - k_rb b ->
  0 < k_ce b - cb_of b (k_rb b + r_i) ->
  slot b r_i c_i = cells_before b r_i + c_i.
Proof.
  intros Ht Hr Hpos. unfold slot, rls, cells_before. rewrite Ht.
  unfold zrange at 1.
  rewrite (rls_from_nth b _ 0 (Z.to_nat r_i) (k_rb b)).
  - unfold zrange. replace (Z.to_nat (k_rb b + r_i - k_rb b)) with (Z.to_nat r_i) by lia. lia.
  - rewrite zrange_aux_length. reflexivity.
  - rewrite zrange_aux_length. lia.
  - rewrite Z2Nat.id by lia. exact Hpos.
Qed.

Lemma slot_rect b r_i c_i : k_triu b = false -> valid_cblock b -> 0 <= r_i ->
  slot b r_i c_i = cells_before b r_i + c_i.
Proof.
  intros Ht Hv Hr. unfold slot. rewrite Ht. f_equal.
  assert (G : forall k, cells_before b (Z.of_nat k) = (k_ce b - k_cb b) * Z.of_nat k).
  { induction k as [|k IH].
    { unfold cells_before. change (Z.of_nat 0) with 0. rewrite Z.add_0_r, zrange_nil by lia.
      cbn [fold_right]. rewrite Z.mul_0_r. reflexivity. }
    replace (Z.of_nat (S k)) with (Z.of_nat k + 1) by lia. rewrite cells_before_S by lia. rewrite IH.
    unfold row_len, cb_of. rewrite Ht. destruct Hv. lia. }
  rewrite <- (Z2Nat.id r_i) by lia. rewrite G. reflexivity.
Qed.

Lemma map_add_zrange_aux : forall q z a, map (fun c => a + c) (zrange_aux q z) = zrange_aux q (a + z).
Proof. induction q as [|q IH]; intros z a; simpl; [reflexivity|]. f_equal. rewrite IH. f_equal. lia. Qed.

(* the slots of the tasks of the first k rows are 0 .. cells_before k - 1, in order *)
Lemma slots_prefix b : valid_cblock b -> forall k, (Z.of_nat k <= k_re b - k_rb b) ->
  map fst (flat_map (row_tasks b) (zrange 0 (Z.of_nat k))) = zrange 0 (cells_before b (Z.of_nat k)).
Proof.
  intros Hv. induction k as [|k IH]; intros Hk.
  - unfold cells_before. change (Z.of_nat 0) with 0. rewrite Z.add_0_r.
    rewrite (zrange_nil 0 0) by lia. rewrite (zrange_nil (k_rb b) (k_rb b)) by lia. simpl.
    rewrite (zrange_nil 0 0) by lia. reflexivity.
  - replace (Z.of_nat (S k)) with (Z.of_nat k + 1) by lia.
    rewrite zrange_snoc by lia. rewrite flat_map_app, map_app. rewrite IH by lia.
    rewrite cells_before_S by lia. simpl flat_map. rewrite app_nil_r.
    unfold row_tasks. rewrite map_map. cbn [fst].
    assert (Hcb : 0 <= cells_before b (Z.of_nat k)).
    { unfold cells_before. generalize (zrange (k_rb b) (k_rb b + Z.of_nat k)).
      induction l as [|x l IHl]; cbn [fold_right]; [lia|].
      assert (0 <= row_len b x) by (unfold row_len; lia). lia. }
    destruct (Z_lt_le_dec 0 (k_ce b - cb_of b (k_rb b + Z.of_nat k))) as [Hpos|Hneg].
    + rewrite map_ext with (g := fun c_i => cells_before b (Z.of_nat k) + c_i).
      2:{ intros c_i. destruct (k_triu b) eqn:Ht; [apply slot_triu; auto; lia|apply slot_rect; auto; lia]. }
      unfold row_len. rewrite Z.max_r by lia.
      set (a := cells_before b (Z.of_nat k)) in *. set (m := k_ce b - cb_of b (k_rb b + Z.of_nat k)) in *.
      assert (E : zrange 0 (a + m) = zrange 0 a ++ zrange a (a + m)).
      { unfold zrange. replace (Z.to_nat (a + m - 0)) with (Z.to_nat (a - 0) + Z.to_nat (a + m - a))%nat by lia.
        rewrite zrange_aux_app. f_equal. f_equal. lia. }
      rewrite E. f_equal. unfold zrange. replace (a + m - a) with (m - 0) by lia.
      rewrite map_add_zrange_aux. f_equal. lia.
    + rewrite (zrange_nil 0 (k_ce b - cb_of b (k_rb b + Z.of_nat k))) by lia. simpl. rewrite app_nil_r.
      unfold row_len. rewrite Z.max_l by lia. rewrite Z.add_0_r. reflexivity.
Qed.

Theorem slots_enumerate b : valid_cblock b ->
  map fst (tasks b) = zrange 0 (cells_before b (k_re b - k_rb b)).
Proof.
  intros Hv. unfold tasks. destruct Hv as [Hr Hc].
  rewrite <- (Z2Nat.id (k_re b - k_rb b)) by lia. apply slots_prefix; [split; assumption|lia].
Qed.

Lemma zrange_NoDup a b : NoDup (zrange a b).
Proof.
  unfold zrange. generalize (Z.to_nat (b - a)). intros n. revert a.
  induction n as [|n IH]; intros a; simpl; constructor; [|apply IH].
  rewrite zrange_aux_In. lia.
Qed.

Theorem slots_distinct b : valid_cblock b -> NoDup (map fst (tasks b)).
Proof. intros Hv. rewrite slots_enumerate by exact Hv. apply zrange_NoDup. Qed.

(* schedule independence *)
Theorem schedule_independent {A} (value : Z -> Z -> A) b sched out :
  valid_cblock b -> Permutation (tasks b) sched -> run A value sched out = run A value (tasks b) out.
Proof. intros Hv Hp. symmetry. apply run_perm; [exact Hp|apply slots_distinct; exact Hv]. Qed.
