(* The cluster dictionary of Hierarchical.fit AS WRITTEN:

       if i1 not in cluster_idx: cluster_idx[i1] = {i1}
       if i2 in cluster_idx:     cluster_idx[i1].update(cluster_idx[i2]); del cluster_idx[i2]
       else:                     cluster_idx[i1].add(i2)
       ... deleted.add(i2)
   and, after the loop, every series that was never absorbed and has no entry gets {i}.
   (The dictionary is modelled as a finite map nat -> option (list nat); sets as lists.)

   Proved, for every sequence of merges whose pairs are distinct, in range and not
   absorbed before (which Cluster.run guarantees): the returned dictionary
   partitions 0..n-1, every key is a prototype (never absorbed) and a member of
   its own cluster, and the clusters are the classes of the owner function. *)
From Coq Require Import ZArith Bool List Lia.
From DV Require Import Prelude Cluster.
Import ListNotations.
Open Scope nat_scope.

Definition dict := nat -> option (list nat).
Definition dempty : dict := fun _ => None.

(* one merge i1 <- i2 *)
Definition dstep (d : dict) (i1 i2 : nat) : dict :=
  let s1 := match d i1 with Some s => s | None => [i1] end in          (* if i1 not in cluster_idx: ... = {i1} *)
  match (if i2 =? i1 then Some s1 else d i2) with
  | Some s2 => fun k => if k =? i2 then None else if k =? i1 then Some (s1 ++ s2) else d k
  | None => fun k => if k =? i1 then Some (s1 ++ [i2]) else d k
  end.

Definition dsteps (ms : list (nat * nat)) : dict * list nat :=        (* (cluster_idx, deleted) *)
  fold_left (fun st m => (dstep (fst st) (fst m) (snd m), snd m :: snd st)) ms (dempty, []).

Definition is_del (del : list nat) (i : nat) : bool := existsb (Nat.eqb i) del.

(* for i in range(n): if i not in deleted: if i not in cluster_idx: cluster_idx[i] = {i} *)
Definition finish (n : nat) (st : dict * list nat) : list (nat * list nat) :=
  flat_map (fun i => if is_del (snd st) i then []
                     else match fst st i with Some s => [(i, s)] | None => [(i, [i])] end) (seq 0 n).

Definition clusters_model (n : nat) (ms : list (nat * nat)) : list (nat * list nat) := finish n (dsteps ms).

(* ------------------------------------------------------------ the abstract view: who owns a series *)
Definition ostep (owner : nat -> nat) (i1 i2 : nat) : nat -> nat :=
  fun j => if owner j =? i2 then i1 else owner j.

Record Rep (n : nat) (d : dict) (del : list nat) (owner : nat -> nat) : Prop := {
  r_mem : forall k s, d k = Some s -> ~ In k del /\ k < n /\ NoDup s /\ forall j, In j s <-> (j < n /\ owner j = k);
  r_single : forall k, k < n -> ~ In k del -> d k = None -> forall j, j < n -> (owner j = k <-> j = k);
  r_owner : forall j, j < n -> ~ In (owner j) del /\ owner j < n;
  r_self : forall k, k < n -> ~ In k del -> owner k = k }.

Lemma rep_init n : Rep n dempty [] (fun j => j).
Proof. constructor; [discriminate|intros; split; congruence|intros j Hj; split; [intros []|exact Hj]|reflexivity]. Qed.

Lemma NoDup_app_disjoint {A} (l1 l2 : list A) : NoDup l1 -> NoDup l2 -> (forall x, In x l1 -> In x l2 -> False) -> NoDup (l1 ++ l2).
Proof.
  induction l1 as [|a t IH]; intros H1 H2 Hd; simpl; [exact H2|]. inversion H1; subst.
  constructor; [rewrite in_app_iff; intros [X|X]; [contradiction|apply (Hd a); [left; reflexivity|exact X]]|].
  apply IH; [assumption|assumption|intros x X1 X2; apply (Hd x); [right; exact X1|exact X2]].
Qed.

Lemma dstep_rep n d del owner i1 i2 : Rep n d del owner ->
  i1 <> i2 -> i1 < n -> i2 < n -> ~ In i1 del -> ~ In i2 del ->
  Rep n (dstep d i1 i2) (i2 :: del) (ostep owner i1 i2).
Proof.
  intros [Hm Hs Ho Hself] Hne H1 H2 D1 D2.
  (* the members of i1 and of i2 before the merge *)
  set (s1 := match d i1 with Some s => s | None => [i1] end).
  assert (M1 : NoDup s1 /\ forall j, In j s1 <-> (j < n /\ owner j = i1)).
  { unfold s1. destruct (d i1) as [s|] eqn:E1; [destruct (Hm i1 s E1) as (_ & _ & A & B); auto|].
    split; [constructor; [intros []|constructor]|]. intros j. simpl. split.
    - intros [<-|[]]. split; [exact H1|]. apply (Hs i1 H1 D1 E1 i1 H1). reflexivity.
    - intros [Hj Hoj]. left. symmetry. apply (Hs i1 H1 D1 E1 j Hj). exact Hoj. }
  destruct M1 as [Nd1 Mem1].
  unfold dstep. fold s1. destruct (Nat.eqb_spec i2 i1) as [E|_]; [congruence|].
  destruct (d i2) as [s2|] eqn:E2.
  - destruct (Hm i2 s2 E2) as (_ & _ & Nd2 & Mem2).
    constructor.
    + intros k s. destruct (Nat.eqb_spec k i2) as [->|K2]; [discriminate|].
      destruct (Nat.eqb_spec k i1) as [->|K1].
      * intros E. injection E as <-. split; [simpl; intros [XX|XX]; [congruence|tauto]|]. split; [exact H1|]. split.
        -- apply NoDup_app_disjoint; try assumption. intros x X1 X2. apply Mem1 in X1. apply Mem2 in X2. destruct X1, X2. congruence.
        -- intros j. rewrite in_app_iff, Mem1, Mem2. unfold ostep.
           destruct (Nat.eqb_spec (owner j) i2) as [E|E]; [rewrite E|]; split; intros; try tauto; intuition congruence.
      * intros E. destruct (Hm k s E) as (A & B & C & D). split; [simpl; intros [XX|XX]; [congruence|tauto]|]. split; [exact B|]. split; [exact C|].
        intros j. rewrite D. unfold ostep. destruct (Nat.eqb_spec (owner j) i2) as [X|X]; split; intros; intuition congruence.
    + intros k Hkn Hkd. simpl in Hkd. destruct (Nat.eqb_spec k i2) as [->|K2]; [tauto|].
      destruct (Nat.eqb_spec k i1) as [->|K1]; [discriminate|]. intros Ek j Hj. unfold ostep.
      assert (Sk : forall j, j < n -> (owner j = k <-> j = k)) by (apply Hs; tauto).
      destruct (Nat.eqb_spec (owner j) i2) as [X|X]; [|apply Sk; exact Hj].
      split; [congruence|]. intros ->. exfalso. rewrite (Hself k Hkn ltac:(tauto)) in X. congruence.
    + intros j Hj. unfold ostep. destruct (Ho j Hj) as [A B].
      destruct (Nat.eqb_spec (owner j) i2) as [X|X]; simpl; split; try assumption; intros [Y|Y]; congruence || tauto.
    + intros k Hkn Hkd. simpl in Hkd. unfold ostep. rewrite (Hself k Hkn ltac:(tauto)).
      destruct (Nat.eqb_spec k i2); [exfalso; apply Hkd; left; congruence|reflexivity].
  - assert (S2 : forall j, j < n -> (owner j = i2 <-> j = i2)) by (apply Hs; assumption).
    constructor.
    + intros k s. destruct (Nat.eqb_spec k i1) as [->|K1].
      * intros E. injection E as <-. split; [simpl; intros [XX|XX]; [congruence|tauto]|]. split; [exact H1|]. split.
        -- apply NoDup_app_disjoint; [exact Nd1|constructor; [intros []|constructor]|].
           intros x X1 [<-|[]]. apply Mem1 in X1. destruct X1 as [_ X1]. apply Hne. rewrite <- X1. apply S2; [exact H2|reflexivity].
        -- intros j. rewrite in_app_iff, Mem1. simpl. unfold ostep.
           destruct (Nat.eqb_spec (owner j) i2) as [X|X].
           ++ split; [intros [[A B]|[<-|[]]]; [congruence|split; [exact H2|reflexivity]]|].
              intros [A _]. right. left. symmetry. apply S2; assumption.
           ++ split; [intros [[A B]|[<-|[]]]; [tauto|exfalso; apply X; apply S2; [exact H2|reflexivity]]|tauto].
      * intros E. destruct (Hm k s E) as (A & B & C & D).
        assert (k <> i2) by congruence.
        split; [simpl; intros [XX|XX]; [congruence|tauto]|]. split; [exact B|]. split; [exact C|].
        intros j. rewrite D. unfold ostep. destruct (Nat.eqb_spec (owner j) i2) as [X|X]; split; intros; intuition congruence.
    + intros k Hkn Hkd. simpl in Hkd. destruct (Nat.eqb_spec k i1) as [->|K1]; [discriminate|]. intros Ek j Hj. unfold ostep.
      assert (K2 : k <> i2) by (intros ->; apply Hkd; left; reflexivity).
      assert (Sk : forall j, j < n -> (owner j = k <-> j = k)) by (apply Hs; tauto).
      destruct (Nat.eqb_spec (owner j) i2) as [X|X]; [|apply Sk; exact Hj].
      split; [congruence|]. intros ->. exfalso. rewrite (Hself k Hkn ltac:(tauto)) in X. congruence.
    + intros j Hj. unfold ostep. destruct (Ho j Hj) as [A B].
      destruct (Nat.eqb_spec (owner j) i2) as [X|X]; simpl; split; try assumption; intros [Y|Y]; congruence || tauto.
    + intros k Hkn Hkd. simpl in Hkd. unfold ostep. rewrite (Hself k Hkn ltac:(tauto)).
      destruct (Nat.eqb_spec k i2); [exfalso; apply Hkd; left; congruence|reflexivity].
Qed.

(* merges that Hierarchical.fit can produce: distinct, in range, nothing absorbed is touched again *)
Fixpoint wf_merges (n : nat) (del : list nat) (ms : list (nat * nat)) : Prop :=
  match ms with
  | [] => True
  | (i1, i2) :: t => i1 <> i2 /\ i1 < n /\ i2 < n /\ ~ In i1 del /\ ~ In i2 del /\ wf_merges n (i2 :: del) t
  end.

Definition owners (ms : list (nat * nat)) : nat -> nat :=
  fold_left (fun o m => ostep o (fst m) (snd m)) ms (fun j => j).

Lemma dsteps_rep_gen n : forall ms d del owner, Rep n d del owner -> wf_merges n del ms ->
  let st := fold_left (fun st m => (dstep (fst st) (fst m) (snd m), snd m :: snd st)) ms (d, del) in
  Rep n (fst st) (snd st) (fold_left (fun o m => ostep o (fst m) (snd m)) ms owner).
Proof.
  induction ms as [|[i1 i2] t IH]; intros d del owner HR Hwf; [exact HR|].
  destruct Hwf as (A & B & C & D & E & F). cbn [fold_left fst snd]. apply IH; [|exact F].
  apply dstep_rep; assumption.
Qed.

Lemma is_del_spec del i : is_del del i = true <-> In i del.
Proof.
  unfold is_del. rewrite existsb_exists. split; [intros [x [H E]]; apply Nat.eqb_eq in E; subst; exact H|].
  intros H. exists i. split; [exact H|apply Nat.eqb_refl].
Qed.

Theorem clusters_partition n ms : wf_merges n [] ms ->
  let cs := clusters_model n ms in
  let owner := owners ms in
  (* the keys are the series never absorbed, each once, and a key is a member of its own cluster *)
  NoDup (map fst cs) /\
  (forall k s, In (k, s) cs -> k < n /\ ~ In k (snd (dsteps ms)) /\ In k s /\ NoDup s /\
                               forall j, In j s <-> (j < n /\ owner j = k)) /\
  (* every series is in exactly one cluster: the one keyed by its owner *)
  (forall j, j < n -> exists s, In (owner j, s) cs /\ In j s) /\
  (forall j k s k' s', In (k, s) cs -> In (k', s') cs -> In j s -> In j s' -> k = k').
Proof.
  intros Hwf. cbv zeta.
  pose proof (dsteps_rep_gen n ms dempty [] (fun j => j) (rep_init n) Hwf) as HR. cbv zeta in HR.
  unfold clusters_model, owners, dsteps in *.
  set (st := fold_left (fun st m => (dstep (fst st) (fst m) (snd m), snd m :: snd st)) ms (dempty, [])) in *.
  set (owner := fold_left (fun o m => ostep o (fst m) (snd m)) ms (fun j => j)) in *.
  destruct HR as [Hm Hs Ho Hself].
  assert (Hin : forall k s, In (k, s) (finish n st) <->
                            (k < n /\ ~ In k (snd st) /\ (fst st k = Some s \/ (fst st k = None /\ s = [k])))).
  { intros k s. unfold finish. rewrite in_flat_map. split.
    - intros [i [Hi Hx]]. apply in_seq in Hi. destruct (is_del (snd st) i) eqn:Ed; [destruct Hx|].
      assert (~ In i (snd st)) by (intros X; apply is_del_spec in X; congruence).
      destruct (fst st i) as [s0|] eqn:Ei; destruct Hx as [E|[]]; injection E as <- <-; repeat split; try lia; auto.
    - intros (Hk & Hd & Hc). exists k. split; [apply in_seq; lia|].
      destruct (is_del (snd st) k) eqn:Ed; [apply is_del_spec in Ed; contradiction|].
      destruct Hc as [E|[E ->]]; rewrite E; left; reflexivity. }
  assert (Hcl : forall k s, In (k, s) (finish n st) -> NoDup s /\ forall j, In j s <-> (j < n /\ owner j = k)).
  { intros k s Hks. apply Hin in Hks. destruct Hks as (Hk & Hd & [E|[E ->]]).
    - destruct (Hm k s E) as (_ & _ & A & B). auto.
    - split; [constructor; [intros []|constructor]|]. intros j. simpl. split.
      + intros [<-|[]]. split; [exact Hk|]. apply (Hs k Hk Hd E k Hk). reflexivity.
      + intros [Hj Hoj]. left. symmetry. apply (Hs k Hk Hd E j Hj). exact Hoj. }
  split; [|split; [|split]].
  - (* keys: one per non-deleted index, in increasing order *)
    unfold finish. assert (G : forall l, NoDup l -> NoDup (map fst (flat_map (fun i => if is_del (snd st) i then []
                     else match fst st i with Some s => [(i, s)] | None => [(i, [i])] end) l))).
    { induction l as [|a t IH]; intros Hnd; simpl; [constructor|]. inversion Hnd as [|? ? Hni Hnd']; subst.
      rewrite map_app. apply NoDup_app_disjoint; [|apply IH; exact Hnd'|].
      - destruct (is_del (snd st) a); [constructor|]. destruct (fst st a); simpl; (constructor; [intros []|constructor]).
      - intros x X1 X2. assert (x = a).
        { destruct (is_del (snd st) a); [destruct X1|]. destruct (fst st a); simpl in X1; destruct X1 as [<-|[]]; reflexivity. }
        subst x. apply Hni. apply in_map_iff in X2. destruct X2 as [[k s] [Ek X2]]. simpl in Ek. subst k.
        apply in_flat_map in X2. destruct X2 as [i [Hi Hx]].
        destruct (is_del (snd st) i); [destruct Hx|]. destruct (fst st i); destruct Hx as [E|[]]; injection E as <- _; exact Hi. }
    apply G. apply seq_NoDup.
  - intros k s Hks. destruct (Hcl k s Hks) as [Nd Mem]. pose proof Hks as Hks'. apply Hin in Hks'. destruct Hks' as (Hk & Hd & Hc).
    repeat split; try assumption.
    + apply Mem. split; [exact Hk|]. apply Hself; assumption.
    + apply Mem. exact H.
    + apply Mem. exact H.
    + apply Mem.
  - intros j Hj. destruct (Ho j Hj) as [A B].
    destruct (fst st (owner j)) as [s|] eqn:E.
    + exists s. split; [apply Hin; auto|]. destruct (Hm _ _ E) as (_ & _ & _ & M). apply M. auto.
    + exists [owner j]. split; [apply Hin; auto|]. left. symmetry. apply (Hs _ B A E j Hj). reflexivity.
  - intros j k s k' s' H1 H2 J1 J2. apply Hcl in H1. apply Hcl in H2. destruct H1 as [_ M1]. destruct H2 as [_ M2].
    apply M1 in J1. apply M2 in J2. destruct J1, J2. congruence.
Qed.

(* ------------------------------------------------------------ the merges of Cluster.run are well formed *)
Section FromRun.
Variable choose : list entry -> option entry.
Hypothesis choose_in : forall es e, choose es = Some e -> In e es.
Variable swap : entry -> bool.
Variable maxd : Z.
Variable n : nat.

Definition entries_ok (del : list nat) (es : list entry) : Prop :=
  forall e, In e es -> er e <> ec e /\ er e < n /\ ec e < n /\ ~ In (er e) del /\ ~ In (ec e) del.

Lemma run_wf : forall fuel es del, entries_ok del es ->
  wf_merges n del (map (fun m => (m_into m, m_from m)) (fst (run choose swap maxd fuel es))).
Proof.
  induction fuel as [|f IH]; intros es del Hok; [exact I|]. cbn [run].
  destruct (choose es) as [e|] eqn:Ec; [|exact I]. destruct (ed e <=? maxd)%Z; [|exact I].
  specialize (IH (blank (m_from (mk swap e)) es) (m_from (mk swap e) :: del)).
  destruct (run choose swap maxd f (blank (m_from (mk swap e)) es)) as [ms rest]. cbn [fst map wf_merges] in *.
  destruct (Hok e (choose_in _ _ Ec)) as (A & B & C & D & E).
  assert (Hm : m_into (mk swap e) <> m_from (mk swap e) /\ m_into (mk swap e) < n /\ m_from (mk swap e) < n /\
               ~ In (m_into (mk swap e)) del /\ ~ In (m_from (mk swap e)) del).
  { unfold mk. destruct (swap e); cbn [m_into m_from]; repeat split; auto. }
  destruct Hm as (M1 & M2 & M3 & M4 & M5). repeat split; try assumption.
  apply IH. intros e' He'. assert (Hin : In e' es) by (exact (blank_incl swap _ _ e' He')). destruct (Hok e' Hin) as (A' & B' & C' & D' & E').
  pose proof He' as Ht. apply blank_no_touch in Ht. destruct Ht as [T1 T2].
  repeat split; try assumption; simpl; intros [X|X]; congruence || contradiction.
Qed.
End FromRun.

(* Hierarchical.fit with the default policy: first minimum, no swap *)
Theorem fit_clusters_partition n maxd es :
  (forall e, In e es -> er e < ec e /\ ec e < n) ->
  let ms := map (fun m => (m_into m, m_from m)) (fit_model n maxd es) in
  let cs := clusters_model n ms in
  NoDup (map fst cs) /\
  (forall k s, In (k, s) cs -> k < n /\ In k s /\ NoDup s) /\
  (forall j, j < n -> exists k s, In (k, s) cs /\ In j s) /\
  (forall j k s k' s', In (k, s) cs -> In (k', s') cs -> In j s -> In j s' -> k = k').
Proof.
  intros Hes. cbv zeta. unfold fit_model.
  assert (Hwf : wf_merges n [] (map (fun m => (m_into m, m_from m)) (fst (run first_min (fun _ => false) maxd (n - 1) es)))).
  { apply run_wf; [apply first_min_in|]. intros e He. destruct (Hes e He). repeat split; auto; lia. }
  destruct (clusters_partition n _ Hwf) as (A & B & C & D). split; [exact A|]. split; [|split; [|exact D]].
  - intros k s H. destruct (B k s H) as (B1 & _ & B3 & B4 & _). auto.
  - intros j Hj. destruct (C j Hj) as [s [H1 H2]]. eauto.
Qed.
