(* Generic grid dynamic programme = shortest path in the grid DAG.
   Only reflexivity, transitivity, totality of the order and monotonicity of
   [add] in its left argument are used: no associativity, no commutativity, so
   the statement is about the very order of additions the DP performs.
   Instances: DTW (min,+ over cost), Needleman-Wunsch (max,+ over Z). *)
From Coq Require Import List Arith Lia Bool.
Import ListNotations.

Inductive step := SD | SU | SL.   (* diagonal, from the row above, from the left *)

Section Grid.
Variable K : Type.
Variable le : K -> K -> Prop.
Variable add : K -> K -> K.
Hypothesis le_refl : forall a, le a a.
Hypothesis le_trans : forall a b c, le a b -> le b c -> le a c.
Hypothesis add_mono_l : forall a b c, le a b -> le (add a c) (add b c).
Variable kmin : K -> K -> K.
Hypothesis kmin_l : forall a b, le (kmin a b) a.
Hypothesis kmin_r : forall a b, le (kmin a b) b.
Hypothesis kmin_cases : forall a b, kmin a b = a \/ kmin a b = b.

Definition min3 a b c := kmin (kmin a b) c.

Variables (b0 b1 : nat -> K) (cd cu cl : nat -> nat -> K).

(* M i j : matrix cell (i,j); row 0 = b0, column 0 = b1 (b0 0 is the corner). *)
Fixpoint grow (prev : nat -> K) (i : nat) (j : nat) : K :=
  match j with
  | 0 => b1 (S i)
  | S j' => min3 (add (prev j') (cd i j')) (add (prev (S j')) (cu i j')) (add (grow prev i j') (cl i j'))
  end.
Fixpoint M (i : nat) : nat -> K :=
  match i with 0 => b0 | S i' => grow (M i') i' end.

Lemma M_S_S i j : M (S i) (S j) =
  min3 (add (M i j) (cd i j)) (add (M i (S j)) (cu i j)) (add (M (S i) j) (cl i j)).
Proof. reflexivity. Qed.
Lemma M_0 j : M 0 j = b0 j. Proof. reflexivity. Qed.
Lemma M_S_0 i : M (S i) 0 = b1 (S i). Proof. reflexivity. Qed.

(* A path is given backwards from its end cell as a list of steps; it must end
   (going backwards) on a border cell, whose border value is its initial cost. *)
Fixpoint pcost (i j : nat) (p : list step) : option K :=
  match p with
  | [] => match i, j with 0, _ => Some (b0 j) | _, 0 => Some (b1 i) | _, _ => None end
  | s :: p' =>
    match i, j with
    | S i', S j' =>
      match s with
      | SD => option_map (fun a => add a (cd i' j')) (pcost i' j' p')
      | SU => option_map (fun a => add a (cu i' j')) (pcost i' (S j') p')
      | SL => option_map (fun a => add a (cl i' j')) (pcost (S i') j' p')
      end
    | _, _ => None
    end
  end.

(* matrix cells visited, end cell first *)
Fixpoint pcells (i j : nat) (p : list step) : list (nat * nat) :=
  (i, j) ::
  match p with
  | [] => []
  | s :: p' =>
    match s with
    | SD => pcells (pred i) (pred j) p'
    | SU => pcells (pred i) j p'
    | SL => pcells i (pred j) p'
    end
  end.

Theorem M_lower : forall p i j v, pcost i j p = Some v -> le (M i j) v.
Proof.
  induction p as [|s p IH]; intros i j v H.
  - destruct i; simpl in *. { inversion H; apply le_refl. }
    destruct j; simpl in *; [inversion H; apply le_refl | discriminate].
  - destruct i as [|i]; [discriminate|]. destruct j as [|j]; [discriminate|].
    simpl in H. rewrite M_S_S. unfold min3.
    destruct s; destruct (pcost _ _ p) eqn:E; try discriminate; inversion H; subst; clear H;
    apply IH in E.
    + eapply le_trans; [apply kmin_l|]. eapply le_trans; [apply kmin_l|]. apply add_mono_l; exact E.
    + eapply le_trans; [apply kmin_l|]. eapply le_trans; [apply kmin_r|]. apply add_mono_l; exact E.
    + eapply le_trans; [apply kmin_r|]. apply add_mono_l. exact E.
Qed.

Theorem M_attained : forall i j, exists p, pcost i j p = Some (M i j) /\ length p <= i + j.
Proof.
  intros i j. remember (i + j) as n eqn:Hn. assert (Hle : i + j <= n) by lia. clear Hn.
  revert i j Hle.
  induction n as [|n IH]; intros i j Hn.
  - assert (i = 0) by lia. assert (j = 0) by lia. subst. exists []. split; [reflexivity|simpl; lia].
  - destruct i as [|i]. { exists []. split; [reflexivity|simpl; lia]. }
    destruct j as [|j]. { exists []. split; [reflexivity|simpl; lia]. }
    rewrite M_S_S. unfold min3.
    destruct (kmin_cases (kmin (add (M i j) (cd i j)) (add (M i (S j)) (cu i j))) (add (M (S i) j) (cl i j))) as [H|H]; rewrite H.
    + destruct (kmin_cases (add (M i j) (cd i j)) (add (M i (S j)) (cu i j))) as [H2|H2]; rewrite H2.
      * destruct (IH i j ltac:(lia)) as [p [Hp Hl]]. exists (SD :: p). simpl. rewrite Hp. split; [reflexivity|lia].
      * destruct (IH i (S j) ltac:(lia)) as [p [Hp Hl]]. exists (SU :: p). simpl. rewrite Hp. split; [reflexivity|lia].
    + destruct (IH (S i) j ltac:(lia)) as [p [Hp Hl]]. exists (SL :: p). simpl pcost. rewrite Hp. split; [reflexivity|simpl; lia].
Qed.

(* Well-formed paths visit a contiguous, monotone chain of cells. *)
Definition unit_back (a b : nat * nat) : Prop :=
  (* b is the predecessor of a *)
  (fst a = S (fst b) /\ snd a = S (snd b)) \/
  (fst a = S (fst b) /\ snd a = snd b) \/
  (fst a = fst b /\ snd a = S (snd b)).

Fixpoint chain (l : list (nat * nat)) : Prop :=
  match l with
  | a :: ((b :: _) as t) => unit_back a b /\ chain t
  | _ => True
  end.

Lemma pcells_cons p i j : exists t, pcells i j p = (i, j) :: t.
Proof. destruct p; eexists; reflexivity. Qed.

Lemma chain_cons a i j p : unit_back a (i, j) -> chain (pcells i j p) -> chain (a :: pcells i j p).
Proof. destruct (pcells_cons p i j) as [t ->]. simpl. auto. Qed.

Lemma pcells_chain : forall p i j v, pcost i j p = Some v -> chain (pcells i j p).
Proof.
  induction p as [|s p IH]; intros i j v H; [simpl; auto|].
  destruct i as [|i]; [discriminate|]. destruct j as [|j]; [discriminate|].
  simpl in H. cbn [pcells pred].
  destruct s; destruct (pcost _ _ p) eqn:E; try discriminate; apply chain_cons; try (eapply IH; eauto).
  - left; simpl; auto.
  - right; left; simpl; auto.
  - right; right; simpl; auto.
Qed.

Lemma pcells_head p i j : hd (0,0) (pcells i j p) = (i, j).
Proof. destruct p; reflexivity. Qed.

End Grid.
