(* dtw_wps_parts regenerated WHOLE (Gen_cparts.v): the struct it returns - the decoding of the settings (0 = off,
   squares for the squared-Euclidean inner distance) and the geometry of the compact layout - is what the theorems about
   the warping-paths kernels are stated over: the geometry members are the expressions of Gen_cwps.v (CWps.v), the
   thresholds are adj_max_step / adj_penalty of the settings, max_dist the bound. *)
From Coq Require Import ZArith Bool Lia List.
From DV Require Import Prelude Cost Dtw Engines CLang CWps CDistSpec.
From DVGen Require Import Gen_cwps Gen_cparts.
Import ListNotations.
Open Scope Z_scope.

(* p.max_dist as the kernels use it: 0 = no bound; squared for the squared kernel *)
Definition c_wps_bound (k : inner) (md : Z) : cost := if md =? 0 then Inf else Fin (inner_val k md).

Lemma c_wps_parts_sq l1 l2 window p m md :
  c_dtw_wps_parts l1 l2 0 (Fin md) (Fin m) (Fin p) window =
  ((c_parts_ldiff l1 l2, c_parts_ldiffr l1 l2 (c_parts_ldiff l1 l2), c_parts_ldiffc l1 l2 (c_parts_ldiff l1 l2),
    c_parts_window l1 l2 window, cw_width l1 l2 window, (l1 + 1) * cw_width l1 l2 window,
    c_parts_ri1 l1 (c_parts_overlap_left l1 (c_parts_ldiffr l1 l2 (c_parts_ldiff l1 l2)) (c_parts_window l1 l2 window))
                   (c_parts_overlap_right l1 (c_parts_ldiffr l1 l2 (c_parts_ldiff l1 l2)) (c_parts_window l1 l2 window)),
    c_parts_ri2 l1 (c_parts_overlap_left l1 (c_parts_ldiffr l1 l2 (c_parts_ldiff l1 l2)) (c_parts_window l1 l2 window)),
    c_parts_ri3 l1 (c_parts_overlap_left l1 (c_parts_ldiffr l1 l2 (c_parts_ldiff l1 l2)) (c_parts_window l1 l2 window))
                   (c_parts_overlap_right l1 (c_parts_ldiffr l1 l2 (c_parts_ldiff l1 l2)) (c_parts_window l1 l2 window)),
    c_parts_overlap_left l1 (c_parts_ldiffr l1 l2 (c_parts_ldiff l1 l2)) (c_parts_window l1 l2 window),
    c_parts_overlap_right l1 (c_parts_ldiffr l1 l2 (c_parts_ldiff l1 l2)) (c_parts_window l1 l2 window),
    (if m =? 0 then Inf else Fin (m * m)), c_wps_bound SqEuclid md, Fin (p * p)), true).
Proof.
  unfold c_dtw_wps_parts, c_wps_bound, cw_width, c_parts_ldiff, c_parts_ldiffr, c_parts_ldiffc, c_parts_window, c_parts_width,
    c_parts_overlap_left, c_parts_overlap_right, c_parts_ri1, c_parts_ri2, c_parts_ri3. cbn [Z.eqb ceqb csq inner_val].
  destruct (Z.gtb_spec l1 l2); destruct (Z.eqb_spec window 0); destruct (Z.eqb_spec m 0); destruct (Z.eqb_spec md 0); cbv zeta;
    repeat match goal with |- context [?a <=? ?b] => destruct (Z.leb_spec a b) end; repeat f_equal; lia.
Qed.

Lemma c_wps_parts_eu l1 l2 window p m md :
  c_dtw_wps_parts l1 l2 1 (Fin md) (Fin m) (Fin p) window =
  ((c_parts_ldiff l1 l2, c_parts_ldiffr l1 l2 (c_parts_ldiff l1 l2), c_parts_ldiffc l1 l2 (c_parts_ldiff l1 l2),
    c_parts_window l1 l2 window, cw_width l1 l2 window, (l1 + 1) * cw_width l1 l2 window,
    c_parts_ri1 l1 (c_parts_overlap_left l1 (c_parts_ldiffr l1 l2 (c_parts_ldiff l1 l2)) (c_parts_window l1 l2 window))
                   (c_parts_overlap_right l1 (c_parts_ldiffr l1 l2 (c_parts_ldiff l1 l2)) (c_parts_window l1 l2 window)),
    c_parts_ri2 l1 (c_parts_overlap_left l1 (c_parts_ldiffr l1 l2 (c_parts_ldiff l1 l2)) (c_parts_window l1 l2 window)),
    c_parts_ri3 l1 (c_parts_overlap_left l1 (c_parts_ldiffr l1 l2 (c_parts_ldiff l1 l2)) (c_parts_window l1 l2 window))
                   (c_parts_overlap_right l1 (c_parts_ldiffr l1 l2 (c_parts_ldiff l1 l2)) (c_parts_window l1 l2 window)),
    c_parts_overlap_left l1 (c_parts_ldiffr l1 l2 (c_parts_ldiff l1 l2)) (c_parts_window l1 l2 window),
    c_parts_overlap_right l1 (c_parts_ldiffr l1 l2 (c_parts_ldiff l1 l2)) (c_parts_window l1 l2 window),
    (if m =? 0 then Inf else Fin m), c_wps_bound AbsDiff md, Fin p), true).
Proof.
  unfold c_dtw_wps_parts, c_wps_bound, cw_width, c_parts_ldiff, c_parts_ldiffr, c_parts_ldiffc, c_parts_window, c_parts_width,
    c_parts_overlap_left, c_parts_overlap_right, c_parts_ri1, c_parts_ri2, c_parts_ri3. cbn [Z.eqb ceqb csq inner_val].
  destruct (Z.gtb_spec l1 l2); destruct (Z.eqb_spec window 0); destruct (Z.eqb_spec m 0); destruct (Z.eqb_spec md 0); cbv zeta;
    repeat match goal with |- context [?a <=? ?b] => destruct (Z.leb_spec a b) end; repeat f_equal; lia.
Qed.

(* the thresholds are those of the settings the theorems quantify over *)
Lemma adj_max_step_cs window p m mld psi k :
  adj_max_step (c_to_u (cs_of window p m mld psi k)) = (if m =? 0 then Inf else Fin (inner_val k m)).
Proof. unfold adj_max_step, c_to_u, cs_of, offz; cbn. destruct (Z.eqb_spec m 0) as [E|E]; [reflexivity|]. destruct (Z.eqb_spec m 0); [lia|reflexivity]. Qed.

Lemma adj_penalty_cs window p m mld psi k :
  adj_penalty (c_to_u (cs_of window p m mld psi k)) = inner_val k p.
Proof. unfold adj_penalty, c_to_u, cs_of; cbn. destruct (Z.eqb_spec p 0) as [->|E]; [destruct k; reflexivity|reflexivity]. Qed.
