(* What the kernels that fill the compact warping-paths array STORE, for the kernels AS REGENERATED (Gen_cwpsk.v):
   without a bound, after the top row, the first column and the four row regions, every row of the array holds the
   corresponding row of the specification matrix through the layout of CWps.v, and every access was in range.
   The argument per row is the one of CFillSim.v (whose hand-written row model fill_row is reused as the intermediate
   description); what is new is that the loops are the regenerated text: head fill, skip loop, cell loop with the
   PrunedDTW bookkeeping (inert without a bound), tail fill, per region. *)
From Coq Require Import ZArith Bool Lia List.
From DV Require Import Prelude Cost Grid Dtw DtwProps CWps CFill CExpand CFillSim CLang CDistCanon CDistProofs CWpsCanon.
From DVGen Require Import Gen_cwps Gen_cfill.
Import ListNotations.
Open Scope Z_scope.

(* ------------------------------------------------------------------ generic: folds and fills *)
Lemma fold_zrange_from {S} (P : nat -> S -> Prop) (f : S -> Z -> S) (a : Z) n s :
  P O s -> (forall k s, (k < n)%nat -> P k s -> P (Datatypes.S k) (f s (a + Z.of_nat k))) ->
  P n (fold_left f (zrange a (a + Z.of_nat n)) s).
Proof.
  intros H0 Hs. unfold zrange. replace (Z.to_nat (a + Z.of_nat n - a)) with n by lia.
  assert (G : forall m k s, (k + m = n)%nat -> P k s -> P n (fold_left f (zrange_aux m (a + Z.of_nat k)) s)).
  { induction m as [|m IH]; intros k s' Hk Hp; cbn [zrange_aux fold_left].
    - replace n with k by lia. exact Hp.
    - replace (a + Z.of_nat k + 1) with (a + Z.of_nat (Datatypes.S k)) by lia. apply IH; [lia|]. apply Hs; [lia|exact Hp]. }
  replace a with (a + Z.of_nat 0) at 1 by lia. apply G; [lia|exact H0].
Qed.

(* for (i=a; i<b; i++) wps[i] = INFINITY : cells a .. b-1 become infinite, the others keep their value *)
Lemma wfill_spec wl wps a n : 0 <= a -> a + Z.of_nat n <= wl -> wl = Z.of_nat (length wps) ->
  exists wps', fold_left (k_wfill wl) (zrange a (a + Z.of_nat n)) (true, wps) = (true, wps') /\ length wps' = length wps /\
    (forall i, a <= i < a + Z.of_nat n -> aget wps' i = Inf) /\ (forall i, ~ (a <= i < a + Z.of_nat n) -> aget wps' i = aget wps i).
Proof.
  intros Ha Hb Hl.
  pose (P := fun (k : nat) (st : bool * list cost) => fst st = true /\ length (snd st) = length wps /\
     (forall i, a <= i < a + Z.of_nat k -> aget (snd st) i = Inf) /\ (forall i, ~ (a <= i < a + Z.of_nat k) -> aget (snd st) i = aget wps i)).
  assert (HP : P n (fold_left (k_wfill wl) (zrange a (a + Z.of_nat n)) (true, wps))).
  { apply fold_zrange_from.
    - unfold P; cbn [fst snd]. split; [reflexivity|]. split; [reflexivity|]. split; intros; [lia|reflexivity].
    - intros k [ok w] Hk (Hok & Hlen & Hin & Hout). cbn [fst snd] in *. subst ok. unfold k_wfill, P. cbn [fst snd].
      replace (inb wl (a + Z.of_nat k)) with true by (symmetry; unfold inb; apply andb_true_intro; split; [apply Z.leb_le|apply Z.ltb_lt]; lia).
      repeat split.
      + rewrite aset_length. exact Hlen.
      + intros i Hi. destruct (Z.eq_dec i (a + Z.of_nat k)) as [->|Hne].
        * apply aget_aset_same. lia.
        * rewrite aget_aset_other by lia. apply Hin. lia.
      + intros i Hi. rewrite aget_aset_other by lia. apply Hout. lia. }
  destruct (fold_left (k_wfill wl) (zrange a (a + Z.of_nat n)) (true, wps)) as [ok' wps'].
  destruct HP as (Hok & Hlen & Hin & Hout). cbn [fst snd] in *. subst ok'. exists wps'. repeat split; assumption.
Qed.

Section Kernel.
Variables l1 l2 window0 : Z.
Hypothesis H1 : 1 <= l1.
Hypothesis H2 : 1 <= l2.
Hypothesis Hw : 0 <= window0.
Variable d : nat -> nat -> cost.
Variable pen : Z.
Variables p1b p2b : nat.
Hypothesis Hd : forall ri ci : nat, Z.of_nat ri < l1 ->
  ~ (blo l1 l2 window0 (Z.of_nat ri) <= Z.of_nat ci < bhi l1 l2 window0 (Z.of_nat ri)) -> d ri ci = Inf.

Local Notation W := (cw_width l1 l2 window0).
Local Notation shiftz := (cw_shift l1 l2 window0).
Local Notation lo := (blo l1 l2 window0).
Local Notation hi := (bhi l1 l2 window0).
Local Notation slotZ := (slotz l1 l2 window0).
Local Notation offd := (offdiag l1 l2 window0).
Local Notation fcells := (fill_cells l1 l2 window0 d pen).
Local Notation cval := (cell_value l1 l2 window0 d pen).
Local Notation rinit := (row_init l1 l2 window0 p1b).
Local Notation frow := (fill_row l1 l2 window0 d pen p1b).
Local Notation fcol := (first_col l1 l2 window0).
Local Notation ncol := (ncols l1 l2 window0).
Local Notation wl := ((l1 + 1) * W).

Lemma W_pos : 0 < W.
Proof.
  destruct (band_nonempty l1 l2 window0 0 H1 H2 Hw ltac:(lia)) as [Hb _].
  destruct (row_facts l1 l2 window0 H1 H2 Hw 0 (lo 0) ltac:(lia) ltac:(lia)) as (Hs & _). lia.
Qed.

Lemma fill_cells_snoc ri prev n : forall ci cur,
  fcells ri prev ci (S n) cur =
  upd (fcells ri prev ci n cur) (slotZ ri (ci + n)) (cval ri (ci + n) prev (fcells ri prev ci n cur)).
Proof.
  induction n as [|n IH]; intros ci cur.
  - cbn [fill_cells]. rewrite Nat.add_0_r. reflexivity.
  - change (fcells ri prev ci (S (S n)) cur) with (fcells ri prev (S ci) (S n) (upd cur (slotZ ri ci) (cval ri ci prev cur))).
    rewrite IH. replace (S ci + n)%nat with (ci + S n)%nat by lia. reflexivity.
Qed.

Lemma fill_cells_other ri0 prev0 s : forall n ci cur,
  (forall k, (ci <= k < ci + n)%nat -> slotZ ri0 k <> s) -> fcells ri0 prev0 ci n cur s = cur s.
Proof.
  induction n as [|n IH]; intros ci cur Hk; [reflexivity|]. cbn [fill_cells].
  rewrite IH by (intros k Hk'; apply Hk; lia). unfold upd.
  destruct (Z.eqb_spec s (slotZ ri0 ci)) as [E|E]; [exfalso; apply (Hk ci); [lia|symmetry; exact E]|reflexivity].
Qed.

(* the part of a row iteration all four regions share (after their head fill): pruning start, skip loop, cell loop,
   tail fill; the loop bodies are parameters *)
Definition k_wrow_core (loopskip : Z -> Z -> bool * list cost * Z -> Z -> bool * list cost * Z)
                       (loopcell : Z -> stw -> Z -> stw) (loopfill : Z -> bool * list cost -> Z -> bool * list cost)
                       (psi_1b riz min_ci max_ci width wps_len ri_width ec : Z) (ok : bool) (sc : Z) (wps : list cost) (wpsi : Z)
                       {R : Type} (K : Z -> bool -> Z -> list cost -> R) : R :=
  let ci := min_ci in
  let sc := (if (riz <=? psi_1b) then 0 else sc) in
  let '(ci, ok, wps, wpsi) := (if (sc <=? min_ci) then (
    (ci, ok, wps, wpsi)) else (
    let '(ok, wps, wpsi) := fold_left (loopskip ri_width wps_len) (zrange ci sc) (ok, wps, wpsi) in
    let ci := (Z.max ci sc) in
    (ci, ok, wps, wpsi))) in
  let smaller_found := false in
  let ec_next := riz in
  let '(ec_next, ok, sc, smaller_found, wps, wpsi, _) :=
    fold_left (loopcell ec) (zrange ci max_ci) (ec_next, ok, sc, smaller_found, wps, wpsi, false) in
  let ec := ec_next in
  let '(ok, wps) := fold_left (loopfill wps_len) (zrange (ri_width + wpsi) (ri_width + width)) (ok, wps) in
  K ec ok sc wps.

(* ------------------------------------------------------------------ the cell loop of one row *)
Section CellLoop.
Variable ri : nat.
Hypothesis Hri : Z.of_nat ri < l1.
Variable wps0 : list cost.                     (* the array when the cell loop starts *)
Hypothesis Hlen0 : Z.of_nat (length wps0) = wl.
Variables (dok : Z -> bool) (dfun : Z -> cost) (fd fu : Z -> Z) (ms : cost) (ec : Z).
Local Notation base := ((Z.of_nat ri + 1) * W).
Local Notation basep := (Z.of_nat ri * W).
Local Notation prev := (fun s => aget wps0 (basep + s)).
Hypothesis Hdf : forall ci, lo (Z.of_nat ri) <= Z.of_nat ci < hi (Z.of_nat ri) ->
  dok (Z.of_nat ci) = true /\ (if cltb ms (dfun (Z.of_nat ci)) then Inf else dfun (Z.of_nat ci)) = d ri ci.
Hypothesis Hfd : forall x, fd x = x + offd ri.
Hypothesis Hfu : forall x, fu x = x + offd ri + 1.
(* before the loop the slots left of the first cell hold the row's initial content *)
Hypothesis Hhead : forall s, 0 <= s < slotZ ri (fcol ri) -> aget wps0 (base + s) = rinit ri s.

Definition Cinv (n : nat) (st : stw) : Prop :=
  let '(ecn, ok, sc, sf, wps, wpsi, brk) := st in
  ok = true /\ sc = 0 /\ brk = false /\ wpsi = slotZ ri (fcol ri + n) /\ length wps = length wps0 /\
  (forall s, 0 <= s < wpsi -> aget wps (base + s) = fcells ri prev (fcol ri) n (rinit ri) s) /\
  (forall idx, ~ (base <= idx < base + W) -> aget wps idx = aget wps0 idx).

Lemma fcol_lo : Z.of_nat (fcol ri) = lo (Z.of_nat ri).
Proof. unfold first_col. pose proof (lo_nonneg l1 l2 window0 H1 H2 Hw (Z.of_nat ri)). lia. Qed.
Lemma ncol_hi : Z.of_nat (fcol ri + ncol ri) = hi (Z.of_nat ri).
Proof.
  unfold first_col, ncols. pose proof (lo_nonneg l1 l2 window0 H1 H2 Hw (Z.of_nat ri)).
  destruct (band_nonempty l1 l2 window0 (Z.of_nat ri) H1 H2 Hw ltac:(lia)). lia.
Qed.

Lemma cell_step n st : (n < ncol ri)%nat -> Cinv n st ->
  Cinv (S n) (k_wcell dok dfun fd fu ec Inf ms (Fin pen) base basep wl st (Z.of_nat (fcol ri + n))).
Proof.
  intros Hn. destruct st as [[[[[[ecn ok] sc] sf] wps] wpsi] brk].
  intros (-> & -> & -> & -> & Hlen & Hcur & Hframe).
  pose proof fcol_lo as Efc. pose proof ncol_hi as Enc. pose proof W_pos as HWp.
  set (ci := (fcol ri + n)%nat) in *.
  assert (Hband : lo (Z.of_nat ri) <= Z.of_nat ci < hi (Z.of_nat ri)) by (unfold ci; lia).
  destruct (row_facts l1 l2 window0 H1 H2 Hw (Z.of_nat ri) (Z.of_nat ci) ltac:(lia) Hband) as (Hs & Hd0 & Hu).
  destruct (Hdf ci Hband) as [Edok Edf].
  unfold k_wcell. rewrite Edok. cbn [andb].
  assert (Eslot : slotZ ri ci = Z.of_nat ci + 1 - shiftz (Z.of_nat ri)) by reflexivity.
  assert (Enext : slotZ ri (fcol ri + S n) = slotZ ri ci + 1) by (unfold slotz, ci; lia).
  assert (Eoff : offd ri = shiftz (Z.of_nat ri) - shiftz (Z.of_nat ri - 1) - 1) by reflexivity.
  assert (Hin1 : inb wl (base + slotZ ri ci) = true).
  { unfold inb. apply andb_true_intro. split; [apply Z.leb_le|apply Z.ltb_lt]; nia. }
  assert (Hlenw : Z.of_nat (length wps) = wl) by (rewrite Hlen; exact Hlen0).
  destruct (cltb ms (dfun (Z.of_nat ci))) eqn:Ems.
  - (* the step exceeds max_step: the cell is infinite *)
    rewrite Hin1. cbn [andb]. unfold Cinv. rewrite Enext.
    repeat split; try reflexivity.
    + rewrite aset_length. exact Hlen.
    + intros s Hs'. rewrite fill_cells_snoc. fold ci. unfold upd.
      destruct (Z.eqb_spec s (slotZ ri ci)) as [->|Hne].
      * rewrite aget_aset_same by nia. unfold cell_value. cbv zeta. rewrite <- Edf. reflexivity.
      * rewrite aget_aset_other by lia. apply Hcur. lia.
    + intros idx Hidx. rewrite aget_aset_other by lia. apply Hframe. exact Hidx.
  - (* the recurrence *)
    rewrite Hfd, Hfu.
    assert (Hin0 : inb wl (base + slotZ ri ci - 1) = true).
    { unfold inb. apply andb_true_intro. split; [apply Z.leb_le|apply Z.ltb_lt]; nia. }
    assert (Hin2 : inb wl (basep + slotZ ri ci + offd ri) = true).
    { unfold inb. apply andb_true_intro. split; [apply Z.leb_le|apply Z.ltb_lt]; nia. }
    assert (Hin3 : inb wl (basep + slotZ ri ci + offd ri + 1) = true).
    { unfold inb. apply andb_true_intro. split; [apply Z.leb_le|apply Z.ltb_lt]; nia. }
    rewrite Hin0, Hin1, Hin2, Hin3. cbn [andb]. cbv zeta.
    rewrite aget_aset_same by nia. cbn [cleb].
    replace (cleb (cadd (dfun (Z.of_nat ci)) (cmin (cmin (cadd (aget wps (base + slotZ ri ci - 1)) (Fin pen)) (aget wps (basep + slotZ ri ci + offd ri)))
                                                (cadd (aget wps (basep + slotZ ri ci + offd ri + 1)) (Fin pen)))) Inf) with true
      by (symmetry; apply cle_inf).
    unfold Cinv. rewrite Enext.
    repeat split; try reflexivity.
    + rewrite aset_length. exact Hlen.
    + intros s Hs'. rewrite fill_cells_snoc. fold ci. unfold upd.
      destruct (Z.eqb_spec s (slotZ ri ci)) as [->|Hne].
      * rewrite aget_aset_same by nia. unfold cell_value. cbv zeta. rewrite <- Edf. unfold cmin3.
        replace (base + slotZ ri ci - 1) with (base + (slotZ ri ci - 1)) by lia. rewrite (Hcur (slotZ ri ci - 1)) by lia.
        rewrite (Hframe (basep + slotZ ri ci + offd ri)) by nia. rewrite (Hframe (basep + slotZ ri ci + offd ri + 1)) by nia.
        replace (basep + slotZ ri ci + offd ri) with (basep + (slotZ ri ci + offd ri)) by lia.
        replace (basep + (slotZ ri ci + offd ri) + 1) with (basep + (slotZ ri ci + offd ri + 1)) by lia.
        reflexivity.
      * rewrite aget_aset_other by lia. apply Hcur. lia.
    + intros idx Hidx. rewrite aget_aset_other by lia. apply Hframe. exact Hidx.
Qed.

Lemma row_core_spec psi_1b {R} (K : Z -> bool -> Z -> list cost -> R) : 0 <= psi_1b ->
  exists ec' wps', k_wrow_core k_wskip (fun ec => k_wcell dok dfun fd fu ec Inf ms (Fin pen) base basep wl) k_wfill
                    psi_1b (Z.of_nat ri) (lo (Z.of_nat ri)) (hi (Z.of_nat ri)) W wl base ec true 0 wps0 (slotZ ri (fcol ri)) K
                  = K ec' true 0 wps' /\
    length wps' = length wps0 /\
    (forall s, 0 <= s < W -> aget wps' (base + s) = frow ri prev s) /\
    (forall idx, ~ (base <= idx < base + W) -> aget wps' idx = aget wps0 idx).
Proof.
  intros Hpsi. pose proof fcol_lo as Efc. pose proof ncol_hi as Enc. pose proof W_pos as HWp.
  pose proof (lo_nonneg l1 l2 window0 H1 H2 Hw (Z.of_nat ri)) as Hl0.
  unfold k_wrow_core. cbv zeta.
  replace (if Z.of_nat ri <=? psi_1b then 0 else 0) with 0 by (destruct (Z.of_nat ri <=? psi_1b); reflexivity).
  replace (0 <=? lo (Z.of_nat ri)) with true by (symmetry; apply Z.leb_le; exact Hl0).
  (* the cell loop *)
  assert (HC : Cinv (ncol ri) (fold_left (k_wcell dok dfun fd fu ec Inf ms (Fin pen) base basep wl)
                                 (zrange (lo (Z.of_nat ri)) (hi (Z.of_nat ri)))
                                 (Z.of_nat ri, true, 0, false, wps0, slotZ ri (fcol ri), false))).
  { rewrite <- Efc. replace (hi (Z.of_nat ri)) with (Z.of_nat (fcol ri) + Z.of_nat (ncol ri)) by lia.
    apply (fold_zrange_from Cinv).
    - unfold Cinv. rewrite Nat.add_0_r. repeat split; try reflexivity. intros s Hs. cbn [fill_cells]. apply Hhead. exact Hs.
    - intros k s Hk Hs. replace (Z.of_nat (fcol ri) + Z.of_nat k) with (Z.of_nat (fcol ri + k)) by lia. apply cell_step; assumption. }
  destruct (fold_left (k_wcell dok dfun fd fu ec Inf ms (Fin pen) base basep wl) (zrange (lo (Z.of_nat ri)) (hi (Z.of_nat ri)))
              (Z.of_nat ri, true, 0, false, wps0, slotZ ri (fcol ri), false)) as [[[[[[ecn ok] sc] sf] wps1] wpsi] brk].
  destruct HC as (-> & -> & -> & -> & Hlen1 & Hcur & Hframe).
  (* the tail fill *)
  assert (Hend : slotZ ri (fcol ri + ncol ri) = hi (Z.of_nat ri) + 1 - shiftz (Z.of_nat ri)) by (unfold slotz; lia).
  destruct (band_nonempty l1 l2 window0 (Z.of_nat ri) H1 H2 Hw ltac:(lia)) as [Hne Hhl].
  destruct (row_facts l1 l2 window0 H1 H2 Hw (Z.of_nat ri) (hi (Z.of_nat ri) - 1) ltac:(lia) ltac:(lia)) as (Hs & _ & _).
  set (we := slotZ ri (fcol ri + ncol ri)) in *.
  assert (Hwe : 0 < we <= W) by lia.
  replace (base + W) with (base + we + Z.of_nat (Z.to_nat (W - we))) by lia.
  destruct (wfill_spec wl wps1 (base + we) (Z.to_nat (W - we)) ltac:(nia) ltac:(nia) ltac:(rewrite Hlen1; symmetry; exact Hlen0))
    as (wps2 & E2 & Hlen2 & Hin2 & Hout2).
  rewrite E2. exists ecn, wps2. split; [reflexivity|]. split; [lia|]. split.
  - intros s Hs'. destruct (Z_lt_le_dec s we) as [Hlt|Hge].
    + rewrite Hout2 by lia. rewrite Hcur by lia. reflexivity.
    + rewrite Hin2 by lia. unfold fill_row. rewrite fill_cells_other.
      * unfold row_init. destruct (Z.eqb_spec s 0); [lia|reflexivity].
      * intros k Hk. unfold slotz in *. lia.
  - intros idx Hidx. rewrite Hout2 by lia. apply Hframe. lia.
Qed.
End CellLoop.

(* ------------------------------------------------------------------ one row: from the array invariant to the next *)
Local Notation Mh := (holds l1 l2 window0 d pen p1b p2b).
Local Notation ri2z := (cw_ri2 l1 l2 window0).

Definition rowf (wps : list cost) (k : nat) : Z -> cost := fun s => aget wps (Z.of_nat k * W + s).

(* rows 0 .. ri hold the matrix; the rows below still have their first-column value in slot 0 *)
Definition GInv (ri : nat) (wps : list cost) : Prop :=
  Z.of_nat (length wps) = wl /\
  (forall k, (k <= ri)%nat -> Mh k (rowf wps k)) /\
  (forall k, (ri < k)%nat -> Z.of_nat k <= l1 -> aget wps (Z.of_nat k * W) = b1 p1b k).

Lemma holds_ext' i f g : (forall s, 0 <= s < W -> f s = g s) -> Mh i g -> Mh i f.
Proof. intros E H s Hs col Hcol Hc0. rewrite (E s Hs). apply H; assumption. Qed.

Section RowStep.
Variable ri : nat.
Hypothesis Hri : Z.of_nat ri < l1.
Variables (dok : Z -> bool) (dfun : Z -> cost) (fd fu : Z -> Z) (ms : cost).
Hypothesis Hdf : forall ci, lo (Z.of_nat ri) <= Z.of_nat ci < hi (Z.of_nat ri) ->
  dok (Z.of_nat ci) = true /\ (if cltb ms (dfun (Z.of_nat ci)) then Inf else dfun (Z.of_nat ci)) = d ri ci.
Hypothesis Hfd : forall x, fd x = x + offd ri.
Hypothesis Hfu : forall x, fu x = x + offd ri + 1.
Local Notation base := ((Z.of_nat ri + 1) * W).
Local Notation basep := (Z.of_nat ri * W).

Lemma row_step wps wpsh psi_1b ec {R} (K : Z -> bool -> Z -> list cost -> R) :
  GInv ri wps -> 0 <= psi_1b ->
  length wpsh = length wps ->
  (forall idx, ~ (base <= idx < base + W) -> aget wpsh idx = aget wps idx) ->
  (forall s, 0 <= s < slotZ ri (fcol ri) -> aget wpsh (base + s) = rinit ri s) ->
  exists ec' wps', k_wrow_core k_wskip (fun ec => k_wcell dok dfun fd fu ec Inf ms (Fin pen) base basep wl) k_wfill
                    psi_1b (Z.of_nat ri) (lo (Z.of_nat ri)) (hi (Z.of_nat ri)) W wl base ec true 0 wpsh (slotZ ri (fcol ri)) K
                  = K ec' true 0 wps' /\ GInv (S ri) wps'.
Proof.
  intros (Hlen & Hrows & Hcol0) Hpsi Hlh Hframe Hhead. pose proof W_pos as HWp.
  assert (Hlenh : Z.of_nat (length wpsh) = wl) by (rewrite Hlh; exact Hlen).
  destruct (row_core_spec ri Hri wpsh Hlenh dok dfun fd fu ms ec Hdf Hfd Hfu Hhead psi_1b K Hpsi) as (ec' & wps' & E & Hl' & Hrow' & Hfr').
  exists ec', wps'. split; [exact E|]. unfold GInv. split; [rewrite Hl'; exact Hlenh|]. split.
  - intros k Hk. destruct (Nat.eq_dec k (S ri)) as [->|Hne].
    + apply holds_ext' with (g := frow ri (fun s => aget wpsh (basep + s))).
      * intros s Hs. unfold rowf. replace (Z.of_nat (S ri) * W + s) with (base + s) by lia. apply Hrow'. exact Hs.
      * apply (fill_row_holds l1 l2 window0 H1 H2 Hw d pen p1b p2b Hd ri); [lia|].
        apply holds_ext' with (g := rowf wps ri); [|apply Hrows; lia].
        intros s Hs. unfold rowf. apply Hframe. nia.
    + apply holds_ext' with (g := rowf wps k); [|apply Hrows; lia].
      intros s Hs. unfold rowf. rewrite Hfr' by nia. apply Hframe. nia.
  - intros k Hk Hkl. rewrite Hfr' by nia. rewrite Hframe by nia. apply Hcol0; [lia|assumption].
Qed.
End RowStep.
End Kernel.
